import SqlVerif.Lemmas.QueryLemmas
import SqlVerif.Lemmas.PrintFaithful
/-!
Content preservation on the query model: the sequence of content tokens (identifiers with their
quoting, numbers, string payloads, placeholders — `contentOf`, `Lemmas/PrintDefs.lean`) of what a
parser function consumed is that of the printed tokens of what it built (`Model/QueryPrint.lean`),
for `printable` trees.  Simultaneous fuel induction over the mutual block of `Model/Query.lean`; the
expression part is `Pratt.faithful_content`.
-/
namespace SqlVerif.Query
open SqlVerif.Pratt SqlVerif.Gen
open SqlVerif.SetClimb (Op SQuant precOf)

/-- the content tokens (identifiers, numbers, strings, placeholders) of a token list, in order -/
def cont (l : List Tok) : List Content := l.filterMap contentOf

theorem cont_append (a b : List Tok) : cont (a ++ b) = cont a ++ cont b := by simp [cont]
theorem cont_cons (t : Tok) (l : List Tok) : cont (t :: l) = (contentOf t).toList ++ cont l := by
  simp [cont, List.filterMap_cons]; cases contentOf t <;> simp
theorem cont_nil : cont [] = [] := rfl

theorem isKw_content {t : Tok} {k : Nat} (h : t.isKw k = true) : contentOf t = none := by
  unfold Tok.isKw at h
  split at h
  · rfl
  · simp at h

theorem toksOf_append (a b : List Piece) : toksOf (a ++ b) = toksOf a ++ toksOf b := by simp [toksOf]
theorem toksOf_spaced (ps : List Piece) : toksOf (spaced ps) = toksOf ps := by cases ps <;> simp [spaced, toksOf]
theorem toksOf_glued (ps : List Piece) : toksOf (glued ps) = toksOf ps := by cases ps <;> simp [glued, toksOf]
theorem toksOf_kwP (sp : Bool) (n : String) : toksOf [kwP sp n] = [kwT n] := rfl
theorem cont_kwT (n : String) : contentOf (kwT n) = none := rfl

-- ------------------------------------------------------------------ printable
def SelectItem.printable : SelectItem → Bool
  | .expr e _ => e.printable
  | _ => true

def LimClause.printable : LimClause → Bool
  | .limit _ e => e.printable
  | .limitAll _ _ => true
  | .offset _ e _ => e.printable
  | .comma _ _ => false

/-- after an `OFFSET` without `LIMIT`: only `LIMIT ALL` may follow -/
def ordC : List LimClause → Bool
  | [] => true
  | .limitAll _ _ :: r => ordC r
  | _ => false

/-- after a `LIMIT e`: nothing, or one `OFFSET` -/
def ordB : List LimClause → Bool
  | [] => true
  | [.offset _ _ _] => true
  | _ => false

/-- the LIMIT / OFFSET clauses are written in the order `Display` uses: `[LIMIT e] [OFFSET e]`
(`LIMIT ALL` where it changes nothing; no MySQL comma form, no `OFFSET … LIMIT e`) -/
def limsOrdered : List LimClause → Bool
  | [] => true
  | .limitAll _ _ :: r => limsOrdered r
  | .limit _ _ :: r => ordB r
  | .offset _ _ _ :: r => ordC r
  | .comma _ _ :: _ => false

def QueryTail.printable (qt : QueryTail) : Bool :=
  qt.order.all (fun p => p.1.e.printable) && qt.lims.all LimClause.printable && limsOrdered qt.lims

def SelHead.printable (hd : SelHead) : Bool := hd.proj.all (fun p => p.1.printable)

def optPrintable : Option Expr → Bool
  | some e => e.printable
  | none => true

def SelTail.printable (tl : SelTail) : Bool :=
  optPrintable tl.selection && tl.group.all (fun p => p.1.printable) && optPrintable tl.having

def JoinCstr.printable : JoinCstr → Bool
  | .on _ e => e.printable
  | _ => true

/-- what `query_content_preserved_partial` covers: every expression of the query is `printable`
(`Lemmas/PrintDefs.lean`), and the LIMIT / OFFSET clauses come in printing order -/
def QNode.printable : QNode → Bool
  | .select hd frm tl => hd.printable && frm.printable && tl.printable
  | .paren _ body qt _ => body.printable && qt.printable
  | .setOp l _ _ _ r => l.printable && r.printable
  | .fnil _ => true
  | .ftable _ _ _ cstr rest => cstr.printable && rest.printable
  | .fderived _ _ body qt _ _ cstr rest => body.printable && qt.printable && cstr.printable && rest.printable

def Query.printable (q : Query) : Bool := q.body.printable && q.tail.printable

/-- content of a printed piece list -/
def pc (ps : List Piece) : List Content := cont (toksOf ps)

theorem pc_append (a b : List Piece) : pc (a ++ b) = pc a ++ pc b := by simp [pc, toksOf, cont_append]
theorem pc_spaced (ps : List Piece) : pc (spaced ps) = pc ps := by simp [pc]
theorem pc_glued (ps : List Piece) : pc (glued ps) = pc ps := by simp [pc]
theorem pc_nil : pc [] = [] := rfl
theorem pc_kwP (sp : Bool) (n : String) : pc [kwP sp n] = [] := rfl
theorem pc_symP (sp : Bool) (s : Sym) : pc [symP sp s] = [] := rfl
theorem pc_cons_kwP (sp : Bool) (n : String) (ps : List Piece) : pc (kwP sp n :: ps) = pc ps := by
  simp [pc, toksOf, kwP, cont_cons]; rfl
theorem pc_cons_symP (sp : Bool) (s : Sym) (ps : List Piece) : pc (symP sp s :: ps) = pc ps := by
  simp [pc, toksOf, symP, cont_cons]; rfl

theorem eatKw_content {ts : List Tok} {k : Nat} {t : Tok} {rest : List Tok} (h : eatKw ts k = some (t, rest)) :
    contentOf t = none := isKw_content ((eatKw_some_iff _ _ _ _).1 h).2

theorem eatKws_content (ks : List Nat) : ∀ {ts ops rest : List Tok}, eatKws ts ks = some (ops, rest) → cont ops = [] := by
  induction ks with
  | nil => intro ts ops rest h; simp [eatKws] at h; simp [h.1, cont]
  | cons k ks ih =>
    intro ts ops rest h
    unfold eatKws at h
    split at h
    · simp at h
    · rename_i t r hk
      split at h
      · simp at h
      · rename_i ops' rest' hr
        simp at h; obtain ⟨rfl, rfl⟩ := h
        simp [cont_cons, eatKw_content hk, ih hr]

theorem parseE_content (c : QCfg) (f d : Nat) (ts : List Tok) (e : Expr) (rest : List Tok)
    (h : parseE c f d ts = .ok (e, rest)) (hp : e.printable = true) : cont e.flatten = pc e.pieces := by
  have := faithful_content c.e f d _ ts e rest h hp
  simpa [cont, pc, showToks, toksOf] using this

theorem idPiece_tok (sp : Bool) (t : Tok) : (idPiece sp t).tok = t := by
  unfold idPiece; split <;> rfl

theorem toksOf_namePieces (toks : List Tok) : toksOf (namePieces toks) = toks := by
  induction toks with
  | nil => rfl
  | cons t rest ih =>
    simp only [namePieces, List.map_cons, toksOf] at ih ⊢
    rw [ih]
    congr 1
    split <;> first | rfl | exact idPiece_tok _ _

theorem optAlias_content (res : List Nat) (ts al rest : List Tok) (h : optAlias res ts = .ok (al, rest)) :
    cont al = pc (aliasPieces al) := by
  unfold optAlias at h
  split at h
  · rename_i asT r hk
    split at h
    · simp at h
    · split at h
      · simp at h; obtain ⟨rfl, rfl⟩ := h
        have ha := eatKw_content hk
        simp [aliasPieces, pc, toksOf, idPiece_tok, cont_cons, ha, kwP, cont_kwT, cont_nil]
      · simp at h
  · repeat' split at h
    all_goals first
      | (simp at h; done)
      | (simp at h; obtain ⟨rfl, rfl⟩ := h
         simp [aliasPieces, pc, toksOf, idPiece_tok, cont_cons, kwP, cont_kwT, cont_nil])

/-- comma-separated lists: separators carry no content, `display_comma_separated` adds none -/
theorem sep_content {α : Type} (fl : α → List Tok) (pf : α → List Piece) :
    ∀ (l : Sep α), (∀ p ∈ l, cont (fl p.1) = pc (pf p.1)) → (∀ p ∈ l, cont p.2 = []) →
      cont (sepFlat fl l) = pc (sepPieces pf l) := by
  intro l
  induction l with
  | nil => intro _ _; rfl
  | cons p rest ih =>
    intro h1 h2
    have hp := h1 p (by simp)
    have hs := h2 p (by simp)
    have ih' := ih (fun q hq => h1 q (by simp [hq])) (fun q hq => h2 q (by simp [hq]))
    cases rest with
    | nil => simp [sepFlat, sepPieces, cont_append, hp, hs]
    | cons q rest2 =>
      simp only [sepFlat, sepPieces, cont_append, pc_append, pc_spaced, pc_symP, hp, hs] at ih' ⊢
      simp [ih']

theorem commaSepE_seps {α : Type} (tc : Bool) (elem : List Tok → Res α) :
    ∀ (n : Nat) (ts : List Tok) (vs : Sep α) (rest : List Tok), commaSepE tc elem n ts = .ok (vs, rest) →
      ∀ p ∈ vs, cont p.2 = [] := by
  intro n
  induction n with
  | zero => intro ts vs rest h; simp [commaSepE] at h
  | succ n ih =>
    intro ts vs rest h
    simp only [commaSepE] at h
    split at h
    · simp at h
    · split at h
      · split at h
        · simp at h; obtain ⟨rfl, rfl⟩ := h; simp [cont, contentOf]
        · split at h
          · simp at h
          · rename_i vs' r3 hr
            simp at h; obtain ⟨rfl, rfl⟩ := h
            intro p hp
            simp at hp
            rcases hp with rfl | hp
            · simp [cont, contentOf]
            · exact ih _ _ _ hr p hp
      · simp at h; obtain ⟨rfl, rfl⟩ := h; simp [cont]

/-- every element of a parsed list came from a successful element parse -/
theorem commaSepE_elems {α : Type} (tc : Bool) (elem : List Tok → Res α) :
    ∀ (n : Nat) (ts : List Tok) (vs : Sep α) (rest : List Tok), commaSepE tc elem n ts = .ok (vs, rest) →
      ∀ p ∈ vs, ∃ ts' rest', elem ts' = .ok (p.1, rest') := by
  intro n
  induction n with
  | zero => intro ts vs rest h; simp [commaSepE] at h
  | succ n ih =>
    intro ts vs rest h
    simp only [commaSepE] at h
    split at h
    · simp at h
    · rename_i v r1 he
      split at h
      · split at h
        · simp at h; obtain ⟨rfl, rfl⟩ := h; simp; exact ⟨_, _, he⟩
        · split at h
          · simp at h
          · rename_i vs' r3 hr
            simp at h; obtain ⟨rfl, rfl⟩ := h
            intro p hp
            simp at hp
            rcases hp with rfl | hp
            · exact ⟨_, _, he⟩
            · exact ih _ _ _ hr p hp
      · simp at h; obtain ⟨rfl, rfl⟩ := h; simp; exact ⟨_, _, he⟩

theorem commaSepE_content {α : Type} (tc : Bool) (elem : List Tok → Res α) (fl : α → List Tok) (pf : α → List Piece)
    (P : α → Prop) (hel : ∀ ts v rest, elem ts = .ok (v, rest) → P v → cont (fl v) = pc (pf v))
    (n : Nat) (ts : List Tok) (vs : Sep α) (rest : List Tok) (h : commaSepE tc elem n ts = .ok (vs, rest))
    (hP : ∀ p ∈ vs, P p.1) : cont (sepFlat fl vs) = pc (sepPieces pf vs) :=
  sep_content fl pf vs
    (fun p hp => by
      obtain ⟨ts', rest', he⟩ := commaSepE_elems tc elem n ts vs rest h p hp
      exact hel _ _ _ he (hP p hp))
    (commaSepE_seps tc elem n ts vs rest h)

theorem itemViaExpr_content (c : QCfg) (f d : Nat) (ts : List Tok) (v : SelectItem) (rest : List Tok)
    (h : itemViaExpr c f d ts = .ok (v, rest)) (hp : v.printable = true) : cont v.flatten = pc v.pieces := by
  unfold itemViaExpr at h
  split at h
  · simp at h
  · rename_i e r1 he
    split at h
    · simp at h
    · split at h
      · simp at h
      · rename_i al r2 ha
        simp at h; obtain ⟨rfl, rfl⟩ := h
        simp only [SelectItem.printable] at hp
        simp [SelectItem.flatten, SelectItem.pieces, cont_append, pc_append, parseE_content _ _ _ _ _ _ he hp,
          optAlias_content _ _ _ _ ha]

theorem selectItem_content (c : QCfg) (f d : Nat) (ts : List Tok) (v : SelectItem) (rest : List Tok)
    (h : selectItem c f d ts = .ok (v, rest)) (hp : v.printable = true) : cont v.flatten = pc v.pieces := by
  unfold selectItem at h
  repeat' split at h
  all_goals first
    | (simp at h; done)
    | exact itemViaExpr_content _ _ _ _ _ _ h hp
    | (simp at h; obtain ⟨rfl, rfl⟩ := h
       simp [SelectItem.flatten, SelectItem.pieces, pc, toksOf, symP]; done)
    | (simp at h; obtain ⟨rfl, rfl⟩ := h
       simp only [SelectItem.flatten, SelectItem.pieces, pc, toksOf_namePieces])

theorem groupByElem_content (c : QCfg) (f d : Nat) (ts : List Tok) (e : Expr) (rest : List Tok)
    (h : groupByElem c f d ts = .ok (e, rest)) (hp : e.printable = true) : cont e.flatten = pc e.pieces := by
  unfold groupByElem at h
  split at h
  · simp at h
  · exact parseE_content _ _ _ _ _ _ h hp

theorem dirTail_content (ts : List Tok) : cont (dirTail ts).1 = [] := by
  unfold dirTail
  split
  · rename_i t r hk; simp [cont_cons, eatKw_content hk, cont_nil]
  · split
    · rename_i t r hk; simp [cont_cons, eatKw_content hk, cont_nil]
    · rfl

theorem rowsTail_content (ts : List Tok) : cont (rowsTail ts).1 = [] := by
  unfold rowsTail
  split
  · rename_i t r hk; simp [cont_cons, eatKw_content hk, cont_nil]
  · split
    · rename_i t r hk; simp [cont_cons, eatKw_content hk, cont_nil]
    · rfl

theorem allTail_content (ts : List Tok) : cont (allTail ts).1 = [] := by
  unfold allTail
  split
  · rename_i t r hk; simp [cont_cons, eatKw_content hk, cont_nil]
  · rfl

theorem nullsTail_content (ts : List Tok) : cont (nullsTail ts).1 = [] := by
  unfold nullsTail
  split
  · rename_i p hk; exact eatKws_content _ hk
  · split
    · rename_i p hk; exact eatKws_content _ hk
    · rfl

theorem OrderByExpr.pieces_content (o : OrderByExpr) : pc o.pieces = pc o.e.pieces := by
  unfold OrderByExpr.pieces
  generalize o.asc = a
  generalize o.nullsFirst = b
  rcases a with _ | _ | _ <;> rcases b with _ | _ | _ <;> simp [pc_append, pc_cons_kwP, pc_nil]

theorem orderByElem_content (c : QCfg) (f d : Nat) (ts : List Tok) (o : OrderByExpr) (rest : List Tok)
    (h : orderByElem c f d ts = .ok (o, rest)) (hp : o.e.printable = true) : cont o.flatten = pc o.pieces := by
  unfold orderByElem at h
  split at h
  · simp at h
  · rename_i e r0 he
    split at h
    · simp at h
    · simp at h; obtain ⟨rfl, rfl⟩ := h
      rw [OrderByExpr.pieces_content]
      simp only [OrderByExpr.flatten, cont_append, dirTail_content, nullsTail_content, List.append_nil]
      exact parseE_content _ _ _ _ _ _ he hp

/-- the keyword tokens of a clause carry no content and its expression prints its content -/
def LimClause.ContOK : LimClause → Prop
  | .limit kw e => contentOf kw = none ∧ cont e.flatten = pc e.pieces
  | .limitAll kw a => contentOf kw = none ∧ contentOf a = none
  | .offset kw e rows => contentOf kw = none ∧ cont rows = [] ∧ cont e.flatten = pc e.pieces
  | .comma t e => contentOf t = none ∧ cont e.flatten = pc e.pieces

theorem limPart_content (c : QCfg) (f d : Nat) (cs : List LimClause) (ts : List Tok) (cs' : List LimClause)
    (rest : List Tok) (h : limPart c f d cs ts = .ok (cs', rest)) (h0 : ∀ cl ∈ cs, cl.ContOK)
    (hp : ∀ cl ∈ cs', cl.printable = true) : ∀ cl ∈ cs', cl.ContOK := by
  unfold limPart at h
  split at h
  · split at h
    · rename_i kw r hk
      split at h
      · rename_i a r' ha
        simp at h; obtain ⟨rfl, rfl⟩ := h
        intro cl hcl
        simp at hcl
        rcases hcl with hcl | rfl
        · exact h0 _ hcl
        · exact ⟨eatKw_content hk, eatKw_content ha⟩
      · split at h
        · simp at h
        · rename_i e r' he
          simp at h; obtain ⟨rfl, rfl⟩ := h
          intro cl hcl
          simp at hcl
          rcases hcl with hcl | rfl
          · exact h0 _ hcl
          · exact ⟨eatKw_content hk, parseE_content _ _ _ _ _ _ he (by simpa [LimClause.printable] using hp (.limit kw e) (by simp))⟩
    · simp at h; obtain ⟨rfl, rfl⟩ := h; exact h0
  · simp at h; obtain ⟨rfl, rfl⟩ := h; exact h0

theorem offPart_content (c : QCfg) (f d : Nat) (cs : List LimClause) (ts : List Tok) (cs' : List LimClause)
    (rest : List Tok) (h : offPart c f d cs ts = .ok (cs', rest)) (h0 : ∀ cl ∈ cs, cl.ContOK)
    (hp : ∀ cl ∈ cs', cl.printable = true) : ∀ cl ∈ cs', cl.ContOK := by
  unfold offPart at h
  split at h
  · split at h
    · rename_i kw r hk
      split at h
      · simp at h
      · rename_i e r' he
        simp at h; obtain ⟨rfl, rfl⟩ := h
        intro cl hcl
        simp at hcl
        rcases hcl with hcl | rfl
        · exact h0 _ hcl
        · exact ⟨eatKw_content hk, rowsTail_content _,
            parseE_content _ _ _ _ _ _ he (by simpa [LimClause.printable] using hp (.offset kw e (rowsTail r').1) (by simp))⟩
    · simp at h; obtain ⟨rfl, rfl⟩ := h; exact h0
  · simp at h; obtain ⟨rfl, rfl⟩ := h; exact h0

theorem commaPart_content (c : QCfg) (f d : Nat) (cs : List LimClause) (ts : List Tok) (cs' : List LimClause)
    (rest : List Tok) (h : commaPart c f d cs ts = .ok (cs', rest)) (h0 : ∀ cl ∈ cs, cl.ContOK)
    (hp : ∀ cl ∈ cs', cl.printable = true) : ∀ cl ∈ cs', cl.ContOK := by
  unfold commaPart at h
  split at h
  · split at h
    · split at h
      · simp at h
      · rename_i e r' he
        simp at h; obtain ⟨rfl, rfl⟩ := h
        have := hp (.comma (.sym .Comma) e) (by simp)
        simp [LimClause.printable] at this
    · simp at h; obtain ⟨rfl, rfl⟩ := h; exact h0
  · simp at h; obtain ⟨rfl, rfl⟩ := h; exact h0

theorem limPart_prefix (c : QCfg) (f d : Nat) (cs : List LimClause) (ts : List Tok) (cs' : List LimClause)
    (rest : List Tok) (h : limPart c f d cs ts = .ok (cs', rest)) : ∃ new, cs' = cs ++ new :=
  let ⟨n, hn, _⟩ := limPart_yield _ _ _ _ _ _ _ h; ⟨n, hn⟩
theorem offPart_prefix (c : QCfg) (f d : Nat) (cs : List LimClause) (ts : List Tok) (cs' : List LimClause)
    (rest : List Tok) (h : offPart c f d cs ts = .ok (cs', rest)) : ∃ new, cs' = cs ++ new :=
  let ⟨n, hn, _⟩ := offPart_yield _ _ _ _ _ _ _ h; ⟨n, hn⟩
theorem commaPart_prefix (c : QCfg) (f d : Nat) (cs : List LimClause) (ts : List Tok) (cs' : List LimClause)
    (rest : List Tok) (h : commaPart c f d cs ts = .ok (cs', rest)) : ∃ new, cs' = cs ++ new :=
  let ⟨n, hn, _⟩ := commaPart_yield _ _ _ _ _ _ _ h; ⟨n, hn⟩

theorem limStep_content (c : QCfg) (f d : Nat) (cs : List LimClause) (ts : List Tok) (cs' : List LimClause)
    (rest : List Tok) (h : limStep c f d cs ts = .ok (cs', rest)) (h0 : ∀ cl ∈ cs, cl.ContOK)
    (hp : ∀ cl ∈ cs', cl.printable = true) : ∀ cl ∈ cs', cl.ContOK := by
  unfold limStep at h
  split at h
  · simp at h
  · rename_i cs1 ts1 h1
    split at h
    · simp at h
    · rename_i cs2 ts2 h2
      obtain ⟨n3, rfl⟩ := commaPart_prefix _ _ _ _ _ _ _ h
      obtain ⟨n2, rfl⟩ := offPart_prefix _ _ _ _ _ _ _ h2
      have hp2 : ∀ cl ∈ cs1 ++ n2, cl.printable = true := fun cl hcl => hp cl (List.mem_append_left _ hcl)
      have hp1 : ∀ cl ∈ cs1, cl.printable = true := fun cl hcl => hp2 cl (List.mem_append_left _ hcl)
      exact commaPart_content _ _ _ _ _ _ _ h
        (offPart_content _ _ _ _ _ _ _ h2 (limPart_content _ _ _ _ _ _ _ h1 h0 hp1) hp2) hp

/-- the state transition of `limSem` -/
def limF (st : Option Expr × Option (Expr × List Tok)) (cl : LimClause) : Option Expr × Option (Expr × List Tok) :=
  match cl with
  | .limit _ e => (some e, st.2)
  | .limitAll _ _ => (none, st.2)
  | .offset _ e rows => (st.1, some (e, rows))
  | .comma _ e => (some e, st.1.map fun l => (l, []))

theorem limSem_eq (cs : List LimClause) : limSem cs = cs.foldl limF (none, none) := rfl

/-- printed LIMIT / OFFSET part of `Display for Query` -/
def limPieces (st : Option Expr × Option (Expr × List Tok)) : List Piece :=
  (match st.1 with
   | some e => [kwP true "LIMIT"] ++ spaced e.pieces
   | none => []) ++
  (match st.2 with
   | some (e, rows) => [kwP true "OFFSET"] ++ spaced e.pieces ++ rowsPieces rows
   | none => [])

theorem pc_rowsPieces (rows : List Tok) : pc (rowsPieces rows) = [] := by
  unfold rowsPieces
  split
  · split <;> rfl
  · rfl

/-- content of the printed LIMIT / OFFSET part: that of the two expressions -/
def limCont (st : Option Expr × Option (Expr × List Tok)) : List Content :=
  (match st.1 with | some e => pc e.pieces | none => []) ++ (match st.2 with | some p => pc p.1.pieces | none => [])

theorem pc_limPieces (st : Option Expr × Option (Expr × List Tok)) : pc (limPieces st) = limCont st := by
  obtain ⟨l, o⟩ := st
  cases l <;> cases o <;>
    simp only [limPieces, limCont, pc_append, List.singleton_append, pc_cons_kwP, pc_spaced, pc_nil, pc_rowsPieces,
      List.append_nil, List.nil_append]

theorem ordC_sem (o : Option (Expr × List Tok)) : ∀ (r : List LimClause), ordC r = true → (∀ cl ∈ r, cl.ContOK) →
    r.foldl limF (none, o) = (none, o) ∧ cont (limsFlat r) = [] := by
  intro r
  induction r with
  | nil => intro _ _; exact ⟨rfl, rfl⟩
  | cons cl r ih =>
    intro ho hok
    cases cl with
    | limitAll kw a =>
      have := ih (by simpa [ordC] using ho) (fun x hx => hok x (by simp [hx]))
      have hk := hok (.limitAll kw a) (by simp)
      simp only [LimClause.ContOK] at hk
      refine ⟨by simpa [List.foldl, limF] using this.1, ?_⟩
      simp only [limsFlat, LimClause.flatten, cont_append, cont_cons, hk.1, hk.2, this.2, cont_nil]
      rfl
    | limit _ _ => simp [ordC] at ho
    | offset _ _ _ => simp [ordC] at ho
    | comma _ _ => simp [ordC] at ho

theorem lims_content : ∀ (cs : List LimClause), limsOrdered cs = true → (∀ cl ∈ cs, cl.ContOK) →
    cont (limsFlat cs) = limCont (limSem cs) := by
  intro cs
  induction cs with
  | nil => intro _ _; rfl
  | cons cl r ih =>
    intro ho hok
    have hk := hok cl (by simp)
    cases cl with
    | limitAll kw a =>
      have := ih (by simpa [limsOrdered] using ho) (fun x hx => hok x (by simp [hx]))
      simp only [LimClause.ContOK] at hk
      rw [limSem_eq] at this ⊢
      simp only [List.foldl, limF]
      rw [← this]
      simp only [limsFlat, LimClause.flatten, cont_append, cont_cons, hk.1, hk.2, cont_nil]
      rfl
    | limit kw e =>
      simp only [LimClause.ContOK] at hk
      simp only [limsOrdered] at ho
      cases r with
      | nil =>
        simp only [limSem_eq, List.foldl, limF, limCont, limsFlat, LimClause.flatten, cont_cons, hk.1, hk.2, cont_append, cont_nil]
        rfl
      | cons cl2 r2 =>
        cases r2 with
        | nil =>
          cases cl2 with
          | offset kw2 e2 rows =>
            have hk2 := hok (.offset kw2 e2 rows) (by simp)
            simp only [LimClause.ContOK] at hk2
            simp only [limSem_eq, List.foldl, limF, limCont, limsFlat, LimClause.flatten, cont_cons, hk.1, hk.2, hk2.1,
              hk2.2.1, hk2.2.2, cont_append, cont_nil]
            simp
          | limit _ _ => simp [ordB] at ho
          | limitAll _ _ => simp [ordB] at ho
          | comma _ _ => simp [ordB] at ho
        | cons cl3 r3 => cases cl2 <;> simp [ordB] at ho
    | offset kw e rows =>
      simp only [LimClause.ContOK] at hk
      simp only [limsOrdered] at ho
      have := ordC_sem (some (e, rows)) r ho (fun x hx => hok x (by simp [hx]))
      rw [limSem_eq]
      simp only [List.foldl, limF]
      rw [this.1]
      simp only [limCont, limsFlat, LimClause.flatten, cont_cons, hk.1, hk.2.1, hk.2.2, this.2, cont_append]
      simp
    | comma _ _ => simp [limsOrdered] at ho

theorem QueryTail.pieces_content (qt : QueryTail) :
    pc qt.pieces = (if qt.order.isEmpty then [] else pc (sepPieces OrderByExpr.pieces qt.order)) ++ limCont (limSem qt.lims) := by
  unfold QueryTail.pieces limCont
  generalize limSem qt.lims = st
  obtain ⟨l, o⟩ := st
  cases l <;> cases o <;> cases hq : qt.order.isEmpty <;>
    simp only [pc_append, List.cons_append, pc_cons_kwP, pc_spaced, pc_nil, pc_rowsPieces,
      List.append_nil, List.nil_append, if_true, if_false, Bool.false_eq_true, List.append_assoc]

theorem orderPart_content (c : QCfg) (f d : Nat) (ts : List Tok) (ko : List Tok × Sep OrderByExpr) (rest : List Tok)
    (h : orderPart c f d ts = .ok (ko, rest)) (hp : ko.2.all (fun p => p.1.e.printable) = true) :
    cont ko.1 = [] ∧ cont (sepFlat OrderByExpr.flatten ko.2) = pc (sepPieces OrderByExpr.pieces ko.2) ∧
    (ko.2.isEmpty = true → ko.1 = []) := by
  unfold orderPart at h
  split at h
  · rename_i kws r hk
    split at h
    · simp at h
    · rename_i os r' hl
      split at h
      · simp at h
      · simp at h; obtain ⟨rfl, rfl⟩ := h
        refine ⟨eatKws_content _ hk, ?_, ?_⟩
        · exact commaSepE_content _ _ OrderByExpr.flatten OrderByExpr.pieces (fun o => o.e.printable = true)
            (fun ts v rest he hv => orderByElem_content c f d ts v rest he hv) _ _ _ _ hl
            (fun p hp' => by simpa using List.all_eq_true.1 hp p hp')
        · intro he
          simp at he; subst he
          cases f with
          | zero => simp [commaSepE] at hl
          | succ f =>
            simp only [commaSepE] at hl
            repeat' split at hl
            all_goals simp at hl
  · simp at h; obtain ⟨rfl, rfl⟩ := h; exact ⟨rfl, rfl, fun _ => rfl⟩

theorem queryTail_content (c : QCfg) (f d : Nat) (ts : List Tok) (qt : QueryTail) (rest : List Tok)
    (h : queryTail c f d ts = .ok (qt, rest)) (hp : qt.printable = true) : cont qt.flatten = pc qt.pieces := by
  unfold queryTail at h
  split at h
  · simp at h
  · rename_i ko ts1 ho
    split at h
    · simp at h
    · rename_i cs1 ts2 h1
      split at h
      · simp at h
      · rename_i cs2 ts3 h2
        split at h
        · simp at h
        · simp at h; obtain ⟨rfl, rfl⟩ := h
          simp only [QueryTail.printable, Bool.and_eq_true] at hp
          obtain ⟨⟨hpo, hpl⟩, hord⟩ := hp
          obtain ⟨n2, hn2⟩ : ∃ n, cs2 = cs1 ++ n := let ⟨n, hn, _⟩ := limStep_yield _ _ _ _ _ _ _ h2; ⟨n, hn⟩
          have hpl' : ∀ cl ∈ cs2, cl.printable = true := fun cl hcl => List.all_eq_true.1 hpl cl hcl
          have hok1 := limStep_content _ _ _ _ _ _ _ h1 (by simp) (fun cl hcl => hpl' cl (by rw [hn2]; exact List.mem_append_left _ hcl))
          have hok2 := limStep_content _ _ _ _ _ _ _ h2 hok1 hpl'
          obtain ⟨k1, k2, k3⟩ := orderPart_content _ _ _ _ _ _ ho hpo
          rw [QueryTail.pieces_content]
          simp only [QueryTail.flatten, cont_append, k1, List.nil_append, lims_content _ hord hok2]
          cases hq : ko.2.isEmpty with
          | true =>
            have : ko.2 = [] := List.isEmpty_iff.1 hq
            simp [this, sepFlat, cont_nil]
          | false => simp [k2]

theorem allOrDistinct_content (ts : List Tok) (qd : List Tok × Bool) (rest : List Tok)
    (h : allOrDistinct ts = .ok (qd, rest)) : cont qd.1 = [] := by
  unfold allOrDistinct at h
  split at h
  · simp at h; obtain ⟨rfl, rfl⟩ := h; exact allTail_content ts
  · rename_i t r hk
    split at h
    · simp at h
    · split at h
      · simp at h
      · simp at h; obtain ⟨rfl, rfl⟩ := h
        simp [cont_cons, eatKw_content hk, cont_nil]

theorem selHead_content (c : QCfg) (f d : Nat) (sel : Tok) (hsel : contentOf sel = none) (ts : List Tok) (hd : SelHead)
    (rest : List Tok) (h : selHead c f d sel ts = .ok (hd, rest)) (hp : hd.printable = true) :
    cont hd.flatten = pc ([kwP false "SELECT"] ++ (if hd.distinct then [kwP true "DISTINCT"] else []) ++
      spaced (sepPieces SelectItem.pieces hd.proj)) := by
  unfold selHead at h
  split at h
  · simp at h
  · split at h
    · simp at h
    · rename_i qd ts1 hq
      split at h
      · simp at h
      · split at h
        · simp at h
        · rename_i proj ts2 hpj
          split at h
          · simp at h
          · simp at h; obtain ⟨rfl, rfl⟩ := h
            simp only [SelHead.printable] at hp
            have h2 := commaSepE_content _ _ SelectItem.flatten SelectItem.pieces (fun v => v.printable = true)
              (fun ts v rest he hv => selectItem_content _ f d ts v rest he hv) _ _ _ _ hpj
              (fun p hp' => by simpa using List.all_eq_true.1 hp p hp')
            simp only [SelHead.flatten, cont_cons, hsel, cont_append, allOrDistinct_content _ _ _ hq, h2, pc_append,
              pc_cons_kwP, pc_spaced, pc_nil]
            cases qd.2 <;> simp [pc_kwP, pc_nil]

theorem kwExprPart_content (c : QCfg) (f d k : Nat) (ts : List Tok) (w : List Tok × Option Expr) (rest : List Tok)
    (h : kwExprPart c f d k ts = .ok (w, rest)) (hp : optPrintable w.2 = true) :
    cont w.1 = [] ∧ cont (optFlat w.2) = (match w.2 with | some e => pc e.pieces | none => []) := by
  unfold kwExprPart at h
  split at h
  · rename_i kw r hk
    split at h
    · simp at h
    · rename_i e r' he
      simp at h; obtain ⟨rfl, rfl⟩ := h
      exact ⟨by simp [cont_cons, eatKw_content hk, cont_nil], parseE_content _ _ _ _ _ _ he hp⟩
  · simp at h; obtain ⟨rfl, rfl⟩ := h; exact ⟨rfl, rfl⟩

theorem groupPart_content (c : QCfg) (f d : Nat) (ts : List Tok) (g : List Tok × Sep Expr) (rest : List Tok)
    (h : groupPart c f d ts = .ok (g, rest)) (hp : g.2.all (fun p => p.1.printable) = true) :
    cont g.1 = [] ∧ cont (sepFlat Expr.flatten g.2) = pc (sepPieces Expr.pieces g.2) := by
  unfold groupPart at h
  split at h
  · rename_i kws r hk
    split at h
    · simp at h
    · split at h
      · simp at h
      · rename_i es r' hl
        split at h
        · simp at h
        · simp at h; obtain ⟨rfl, rfl⟩ := h
          exact ⟨eatKws_content _ hk,
            commaSepE_content _ _ Expr.flatten Expr.pieces (fun e => e.printable = true)
              (fun ts v rest he hv => groupByElem_content c f d ts v rest he hv) _ _ _ _ hl
              (fun p hp' => by simpa using List.all_eq_true.1 hp p hp')⟩
  · simp at h; obtain ⟨rfl, rfl⟩ := h; exact ⟨rfl, rfl⟩

theorem SelTail.pieces_content (tl : SelTail) :
    pc tl.pieces = (match tl.selection with | some e => pc e.pieces | none => []) ++
      (if tl.group.isEmpty then [] else pc (sepPieces Expr.pieces tl.group)) ++
      (match tl.having with | some e => pc e.pieces | none => []) := by
  unfold SelTail.pieces
  cases tl.selection <;> cases tl.having <;> cases hq : tl.group.isEmpty <;>
    simp only [pc_append, List.cons_append, pc_cons_kwP, pc_spaced, pc_nil, List.append_nil, List.nil_append,
      if_true, if_false, Bool.false_eq_true, List.append_assoc]

theorem selTail_content (c : QCfg) (f d : Nat) (ts : List Tok) (tl : SelTail) (rest : List Tok)
    (hh : selTail c f d ts = .ok (tl, rest)) (hp : tl.printable = true) : cont tl.flatten = pc tl.pieces := by
  unfold selTail at hh
  split at hh
  · simp at hh
  · split at hh
    · simp at hh
    · rename_i w ts1 hw
      split at hh
      · simp at hh
      · rename_i g ts2 hg
        split at hh
        · simp at hh
        · split at hh
          · simp at hh
          · rename_i hv ts3 hhv
            split at hh
            · simp at hh
            · simp at hh; obtain ⟨rfl, rfl⟩ := hh
              simp only [SelTail.printable, Bool.and_eq_true] at hp
              obtain ⟨⟨hp1, hp2⟩, hp3⟩ := hp
              obtain ⟨a1, a2⟩ := kwExprPart_content _ _ _ _ _ _ _ hw hp1
              obtain ⟨b1, b2⟩ := groupPart_content _ _ _ _ _ _ hg hp2
              obtain ⟨c1, c2⟩ := kwExprPart_content _ _ _ _ _ _ _ hhv hp3
              rw [SelTail.pieces_content]
              simp only [SelTail.flatten, cont_append, a1, a2, b1, c1, c2, List.nil_append]
              cases hq : g.2.isEmpty with
              | true =>
                have : g.2 = [] := List.isEmpty_iff.1 hq
                simp [this, sepFlat, cont_nil]
              | false => simp [b2]

theorem pc_opPiece (o : Op) : pc [opPiece o] = [] := by cases o <;> rfl
theorem pc_quantPieces (q : SQuant) : pc (quantPieces q) = [] := by cases q <;> rfl
theorem pc_kindPieces (k : JoinKind) : pc k.pieces = [] := by cases k <;> rfl
theorem pc_connPieces (conn : Conn) : pc conn.pieces = [] := by
  cases conn <;> simp [Conn.pieces, pc_kwP, pc_symP, pc_kindPieces]

theorem setQuant_content (ts : List Tok) : cont (setQuant ts).2.1 = [] := by
  unfold setQuant
  split
  · rename_i ops r hk; exact eatKws_content _ hk
  · split
    · rename_i ops r hk; exact eatKws_content _ hk
    · split
      · rename_i a r hk
        split
        · rename_i ops r' hk2; simp [cont_cons, eatKw_content hk, eatKws_content _ hk2]
        · simp [cont_cons, eatKw_content hk, cont_nil]
      · split
        · rename_i t r hk; simp [cont_cons, eatKw_content hk, cont_nil]
        · rfl

theorem setOpOf_content {t : Tok} {o : Op} (h : setOpOf t = some o) : contentOf t = none := by
  unfold setOpOf at h
  split at h
  · rename_i hk; exact isKw_content hk
  · split at h
    · rename_i hk; exact isKw_content hk
    · split at h
      · rename_i hk; exact isKw_content hk
      · simp at h

theorem leftRightTail_content (k0 : JoinKind) (t : Tok) (ht : contentOf t = none) (r0 : List Tok) (k : JoinKind)
    (toks r : List Tok) (h : leftRightTail k0 t r0 = .ok (.join k toks r)) : cont toks = [] := by
  unfold leftRightTail at h
  split at h
  · rename_i t2 r2 h2
    split at h
    · rename_i t3 r3 h3
      simp at h; obtain ⟨rfl, rfl, rfl⟩ := h
      simp [cont_cons, ht, eatKw_content h2, eatKw_content h3, cont_nil]
    · simp at h
  · split at h
    · simp at h
    · split at h
      · rename_i t2 r2 h2
        simp at h; obtain ⟨rfl, rfl, rfl⟩ := h
        simp [cont_cons, ht, eatKw_content h2, cont_nil]
      · simp at h

theorem joinHead_content (ts : List Tok) (k : JoinKind) (toks r : List Tok)
    (h : joinHead ts = .ok (.join k toks r)) : cont toks = [] := by
  unfold joinHead at h
  split at h
  · simp at h
  split at h
  · rename_i t1 r1 h1
    split at h
    · rename_i t2 r2 h2
      simp at h; obtain ⟨rfl, rfl, rfl⟩ := h
      simp [cont_cons, eatKw_content h1, eatKw_content h2, cont_nil]
    · split at h <;> simp at h
  split at h
  · split at h <;> simp at h
  split at h
  · simp at h
  split at h
  · rename_i t1 r1 h1
    split at h
    · rename_i t2 r2 h2
      simp at h; obtain ⟨rfl, rfl, rfl⟩ := h
      simp [cont_cons, eatKw_content h1, eatKw_content h2, cont_nil]
    · simp at h
  split at h
  · rename_i t1 r1 h1
    simp at h; obtain ⟨rfl, rfl, rfl⟩ := h
    simp [cont_cons, eatKw_content h1, cont_nil]
  split at h
  · rename_i t1 r1 h1
    exact leftRightTail_content _ _ (eatKw_content h1) _ _ _ _ h
  split at h
  · rename_i t1 r1 h1
    exact leftRightTail_content _ _ (eatKw_content h1) _ _ _ _ h
  split at h
  · rename_i t1 r1 h1
    split at h
    · rename_i t2 r2 h2
      split at h
      · rename_i t3 r3 h3
        simp at h; obtain ⟨rfl, rfl, rfl⟩ := h
        simp [cont_cons, eatKw_content h1, eatKw_content h2, eatKw_content h3, cont_nil]
      · simp at h
    · split at h
      · rename_i t2 r2 h2
        simp at h; obtain ⟨rfl, rfl, rfl⟩ := h
        simp [cont_cons, eatKw_content h1, eatKw_content h2, cont_nil]
      · simp at h
  · simp at h

theorem contentOf_sym (s : Sym) : contentOf (.sym s) = none := rfl

theorem sep_tok_content (cols : Sep Tok) (hs : ∀ p ∈ cols, cont p.2 = []) :
    cont (sepFlat (fun t => [t]) cols) = pc (sepPieces (fun t => [idPiece false t]) cols) :=
  sep_content _ _ cols (fun p _ => by simp [pc, toksOf, idPiece_tok]) hs

theorem joinCstr_content (c : QCfg) (f d : Nat) (ts : List Tok) (k : JoinCstr) (rest : List Tok)
    (h : joinCstr c f d ts = .ok (k, rest)) (hp : k.printable = true) : cont k.flatten = pc k.pieces := by
  unfold joinCstr at h
  split at h
  · rename_i kw r hk
    split at h
    · simp at h
    · rename_i e r' he
      simp at h; obtain ⟨rfl, rfl⟩ := h
      simp only [JoinCstr.printable] at hp
      simp [JoinCstr.flatten, JoinCstr.pieces, cont_cons, eatKw_content hk, pc_cons_kwP, pc_spaced,
        parseE_content _ _ _ _ _ _ he hp]
  · split at h
    · rename_i kw r hk
      split at h
      · rename_i r1
        split at h
        · simp at h
        · rename_i cols r2 hl
          split at h
          · simp at h; obtain ⟨rfl, rfl⟩ := h
            have := sep_tok_content cols (commaSepE_seps _ _ _ _ _ _ hl)
            have hkw := eatKw_content hk
            simp [JoinCstr.flatten, JoinCstr.pieces, cont_cons, cont_append, hkw, pc_cons_kwP, pc_cons_symP,
              pc_append, pc_glued, pc_nil, this, contentOf_sym, cont_nil]
          · simp at h
      · simp at h
    · simp at h; obtain ⟨rfl, rfl⟩ := h; rfl

theorem optCstr_content (c : QCfg) (f d : Nat) (b : Bool) (ts : List Tok) (k : JoinCstr) (rest : List Tok)
    (h : optCstr c f d b ts = .ok (k, rest)) (hp : k.printable = true) : cont k.flatten = pc k.pieces := by
  unfold optCstr at h
  split at h
  · exact joinCstr_content _ _ _ _ _ _ h hp
  · simp at h; obtain ⟨rfl, rfl⟩ := h; rfl

theorem optTableAlias_content (ts al rest : List Tok) (h : optTableAlias ts = .ok (al, rest)) :
    cont al = pc (aliasPieces al) := by
  unfold optTableAlias at h
  split at h
  · simp at h
  · rename_i al' r ha
    split at h
    · simp at h
    · simp at h; obtain ⟨rfl, rfl⟩ := h; exact optAlias_content _ _ _ _ ha

theorem name_content (name : List Tok) : cont name = pc (namePieces name) := by
  simp [pc, toksOf_namePieces]

theorem factorHead_table_content (c : QCfg) (ts name al rest : List Tok) (h : factorHead c ts = .ok (.table name al rest)) :
    cont al = pc (aliasPieces al) := by
  unfold factorHead at h
  repeat' split at h
  all_goals first
    | (simp at h; done)
    | (rename_i ha _; simp at h; obtain ⟨rfl, rfl, rfl⟩ := h; exact optTableAlias_content _ _ _ ha)

theorem factorHead_paren_content (c : QCfg) (ts rest : List Tok) (lp : Tok) (h : factorHead c ts = .ok (.paren lp rest)) :
    contentOf lp = none := by
  unfold factorHead at h
  split at h
  · simp at h
  · split at h
    · rename_i lp' r hl
      simp at h; obtain ⟨rfl, rfl⟩ := h
      unfold eatSym at hl
      split at hl
      · split at hl
        · rename_i hs; simp at hl; obtain ⟨rfl, rfl⟩ := hl
          unfold Tok.isSym at hs
          split at hs <;> simp_all [contentOf]
        · simp at hl
      · simp at hl
    · repeat' split at h
      all_goals simp at h

theorem content_all (c : QCfg) (f : Nat) :
    (∀ d ts q rest, parseQuery c f d ts = .ok (q, rest) → q.printable = true → cont q.flatten = pc q.pieces) ∧
    (∀ d prec ts n rest, queryBody c f d prec ts = .ok (n, rest) → n.printable = true → cont n.flatten = pc n.pieces) ∧
    (∀ d e prec ts n rest, remaining c f d e prec ts = .ok (n, rest) →
      (e.printable = true → cont e.flatten = pc e.pieces) → n.printable = true → cont n.flatten = pc n.pieces) ∧
    (∀ d sel ts n rest, contentOf sel = none → parseSelect c f d sel ts = .ok (n, rest) → n.printable = true →
      cont n.flatten = pc n.pieces) ∧
    (∀ d conn ts n rest, cont conn.toks = [] → fromItems c f d conn ts = .ok (n, rest) → n.printable = true →
      cont n.flatten = pc n.pieces) ∧
    (∀ d b ts k n rest, fromRest c f d b ts = .ok ((k, n), rest) → k.printable = true → n.printable = true →
      cont k.flatten = pc k.pieces ∧ cont n.flatten = pc n.pieces) := by
  induction f with
  | zero => simp [parseQuery, queryBody, remaining, parseSelect, fromItems, fromRest]
  | succ f ih =>
    obtain ⟨ihQ, ihB, ihR, ihS, ihF, ihT⟩ := ih
    refine ⟨?_, ?_, ?_, ?_, ?_, ?_⟩
    · -- parseQuery
      intro d ts q rest h hp
      cases d with
      | zero => simp [parseQuery] at h
      | succ d =>
        simp only [parseQuery] at h
        split at h
        · simp at h
        · split at h
          · simp at h
          · rename_i body ts1 hb
            split at h
            · simp at h
            · rename_i qt ts2 ht
              simp at h; obtain ⟨rfl, rfl⟩ := h
              simp only [Query.printable, Bool.and_eq_true] at hp
              simp [Query.flatten, Query.pieces, cont_append, pc_append, ihB _ _ _ _ _ hb hp.1,
                queryTail_content _ _ _ _ _ _ ht hp.2]
    · -- queryBody
      intro d prec ts n rest h hp
      unfold queryBody at h
      split at h
      · simp at h
      · rename_i t r
        split at h
        · rename_i hsel
          split at h
          · simp at h
          · rename_i s ts1 hs
            exact ihR _ _ _ _ _ _ h (fun hps => ihS _ _ _ _ _ (isKw_content hsel) hs hps) hp
        · split at h
          · split at h
            · simp at h
            · rename_i q ts1 hq
              split at h
              · rename_i ts2
                refine ihR _ _ _ _ _ _ h (fun hps => ?_) hp
                simp only [QNode.printable, Bool.and_eq_true] at hps
                have := ihQ _ _ _ _ hq (by simp [Query.printable, hps.1, hps.2])
                simp only [Query.flatten, Query.pieces, cont_append, pc_append] at this
                simp [QNode.flatten, QNode.pieces, cont_cons, cont_append, contentOf_sym, pc_append, pc_cons_symP,
                  pc_glued, cont_nil, pc_nil, this]
              · simp at h
          · split at h <;> simp at h
    · -- remaining
      intro d e prec ts n rest h he hp
      unfold remaining at h
      split at h
      · simp at h; obtain ⟨rfl, rfl⟩ := h; exact he hp
      · rename_i t r
        split at h
        · simp at h; obtain ⟨rfl, rfl⟩ := h; exact he hp
        · rename_i o ho
          split at h
          · simp at h; obtain ⟨rfl, rfl⟩ := h; exact he hp
          · split at h
            · simp at h
            · rename_i rr ts1 hb
              refine ihR _ _ _ _ _ _ h (fun hps => ?_) hp
              simp only [QNode.printable, Bool.and_eq_true] at hps
              have hop : ∀ ps, pc (opPiece o :: ps) = pc ps := fun ps => by
                have := pc_append [opPiece o] ps; simpa [pc_opPiece] using this
              simp [QNode.flatten, QNode.pieces, cont_append, cont_cons, setOpOf_content ho, setQuant_content,
                pc_append, hop, pc_quantPieces, pc_spaced, he hps.1, ihB _ _ _ _ _ hb hps.2]
    · -- parseSelect
      intro d sel ts n rest hsel h hp
      simp only [parseSelect] at h
      split at h
      · simp at h
      · rename_i hd ts1 hh
        split at h
        · rename_i kw r hk
          split at h
          · simp at h
          · rename_i fr ts2 hf
            split at h
            · simp at h
            · rename_i tl ts3 ht
              simp at h; obtain ⟨rfl, rfl⟩ := h
              simp only [QNode.printable, Bool.and_eq_true] at hp
              have h1 := selHead_content _ _ _ _ hsel _ _ _ hh hp.1.1
              have h2 := ihF _ (.from kw) _ _ _ (by simp [Conn.toks, cont_cons, eatKw_content hk, cont_nil]) hf hp.1.2
              have h3 := selTail_content _ _ _ _ _ _ ht hp.2
              simp only [QNode.flatten, QNode.pieces, cont_append, h2, h3, h1]
              simp only [pc_append, List.append_assoc]
        · split at h
          · simp at h
          · rename_i tl ts3 ht
            simp at h; obtain ⟨rfl, rfl⟩ := h
            simp only [QNode.printable, Bool.and_eq_true] at hp
            have h1 := selHead_content _ _ _ _ hsel _ _ _ hh hp.1.1
            have h3 := selTail_content _ _ _ _ _ _ ht hp.2
            simp only [QNode.flatten, QNode.pieces, cont_append, h3, h1]
            simp only [pc_append, List.append_assoc, cont_nil, List.nil_append]
    · -- fromItems
      intro d conn ts n rest hconn h hp
      simp only [fromItems] at h
      split at h
      · simp at h
      · split at h
        · simp at h
        · rename_i name al r hfh
          split at h
          · simp at h
          · rename_i k rs ts' hr
            simp at h; obtain ⟨rfl, rfl⟩ := h
            simp only [QNode.printable, Bool.and_eq_true] at hp
            obtain ⟨a1, a2⟩ := ihT _ _ _ _ _ _ hr hp.1 hp.2
            simp [QNode.flatten, QNode.pieces, cont_append, pc_append, hconn, pc_connPieces, pc_spaced,
              ← name_content, factorHead_table_content _ _ _ _ _ hfh, a1, a2]
        · rename_i lp r hfh
          split at h
          · simp at h
          · simp at h
          · simp at h
          · rename_i q r1 hq
            split at h
            · rename_i r2
              split at h
              · simp at h
              · rename_i al r3 ha
                split at h
                · simp at h
                · split at h
                  · simp at h
                  · rename_i k rs ts' hr
                    simp at h; obtain ⟨rfl, rfl⟩ := h
                    simp only [QNode.printable, Bool.and_eq_true] at hp
                    obtain ⟨a1, a2⟩ := ihT _ _ _ _ _ _ hr hp.1.2 hp.2
                    have hq' := ihQ _ _ _ _ hq (by simp [Query.printable, hp.1.1.1, hp.1.1.2])
                    simp only [Query.flatten, Query.pieces, cont_append, pc_append] at hq'
                    simp only [QNode.flatten, QNode.pieces, cont_append, cont_cons, pc_append, hconn, pc_connPieces,
                      factorHead_paren_content _ _ _ _ hfh, contentOf_sym, pc_cons_symP, pc_glued,
                      optTableAlias_content _ _ _ ha, a1, a2, Option.toList, List.nil_append, List.append_nil,
                      cont_nil]
                    rw [hq']
                    simp only [pc_nil, List.nil_append, List.append_nil]
            · simp at h
    · -- fromRest
      intro d b ts k n rest h hpk hpn
      simp only [fromRest] at h
      split at h
      · simp at h
      · rename_i k1 ts1 hc
        split at h
        · simp at h
        · rename_i jk toks r hj
          split at h
          · simp at h
          · rename_i rs ts2 hf
            simp at h; obtain ⟨⟨rfl, rfl⟩, rfl⟩ := h
            exact ⟨optCstr_content _ _ _ _ _ _ _ hc hpk,
              ihF _ (.join jk toks) _ _ _ (by simpa [Conn.toks] using joinHead_content _ _ _ _ hj) hf hpn⟩
        · split at h
          · rename_i r
            split at h
            · simp at h; obtain ⟨⟨rfl, rfl⟩, rfl⟩ := h
              exact ⟨optCstr_content _ _ _ _ _ _ _ hc hpk, by simp [QNode.flatten, QNode.pieces, cont_cons, contentOf_sym, cont_nil, pc_nil]⟩
            · split at h
              · simp at h
              · rename_i rs ts2 hf
                simp at h; obtain ⟨⟨rfl, rfl⟩, rfl⟩ := h
                exact ⟨optCstr_content _ _ _ _ _ _ _ hc hpk,
                  ihF _ (.comma (.sym .Comma)) _ _ _ (by simp [Conn.toks, cont_cons, contentOf_sym, cont_nil]) hf hpn⟩
          · simp at h; obtain ⟨⟨rfl, rfl⟩, rfl⟩ := h
            exact ⟨optCstr_content _ _ _ _ _ _ _ hc hpk, rfl⟩

end SqlVerif.Query

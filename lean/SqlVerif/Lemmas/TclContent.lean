import SqlVerif.Lemmas.TclLemmas
import SqlVerif.Lemmas.DdlContent
/-!
Content preservation on the third statement model: the sequence of content tokens (identifiers with
their quoting, numbers, string payloads, placeholders — `contentOf`) of what a parser function of
`Model/Tcl.lean` consumed is that of the printed tokens of what it built (`Model/TclPrint.lean`), for
`printable` trees; on top of `Lemmas/DdlContent.lean` (the fall-through arm) and `Lemmas/QueryContent.lean`.

The transaction-control statements, `SET ROLE`, `USE`, `DISCARD`, `DEALLOCATE`, `CLOSE` need no side
condition (keywords come and go, the one identifier stays).  `SET … NAMES` / `SET … CHARACTERISTICS` print
the variable in upper case although it is no keyword, and `SET NAMES` writes a charset / collation name that
is one plain non-keyword word WITHOUT quotes and any other name as a single-quoted string: `Stmt.printable`
asks that the variable was written in upper case without quotes and that the charset / collation are either
an unquoted plain word or a '…' / "…" string whose text is not a plain word (`rawOk`).
-/
set_option linter.unusedSimpArgs false
namespace SqlVerif.Tcl
open SqlVerif.Pratt SqlVerif.Query SqlVerif.Dml SqlVerif.Ddl SqlVerif.Gen

-- ------------------------------------------------------------------ printable
/-- a charset / collation token that `Display` writes back with the same content: an unquoted word that is
`plainName` (written as it is), or a string literal whose text is NOT `plainName` (written as a '…' string; a
string whose text is a plain word loses its quotes, a quoted or non-ASCII word gains them) -/
def rawOk : Tok → Bool
  | .word v none none => plainName v
  | .sqs s => !plainName s
  | .dqs s => !plainName s
  | _ => false

/-- what `tcl_content_preserved_partial` covers -/
def Stmt.printable : Stmt → Bool
  | .setVar _ _ _ _ _ _ vs _ => vs.all (fun p => p.1.printable)
  | .setTimeZone _ _ _ tg e => (cont tg.flatten == []) && e.printable
  | .setNamesDefault _ _ _ name _ => cont name == [.ident (str "NAMES") none]
  | .setNames _ _ _ name cs co =>
    cont name == [.ident (str "NAMES") none] && rawOk cs && (match co.getLast? with | some t => rawOk t | none => true)
  | .setTx _ _ _ head session _ =>
    if session then cont head == [.ident (str "CHARACTERISTICS") none] else cont head == []
  | .assert _ e _ m => e.printable && optPrintable m
  | .ddl s => s.printable
  | _ => true

-- ------------------------------------------------------------------ helpers
theorem oneOfTail_content (ks : List Nat) (ts : List Tok) : cont (oneOfTail ks ts).1 = [] := by
  induction ks with
  | nil => rfl
  | cons k ks ih =>
    unfold oneOfTail
    split
    · rename_i t r hk; simp [cont_cons, eatKw_content hk, cont_nil]
    · exact ih

theorem cont_single_none {t : Tok} (h : contentOf t = none) : cont [t] = [] := by
  simp [cont_cons, h, cont_nil]

theorem pc_isoLevel (l : IsoLevel) : pc l.pieces = [] := by cases l <;> rfl

theorem pc_TMode (m : TMode) : pc m.pieces = [] := by
  cases m with
  | iso t l => simp [TMode.pieces, pc_cons_kwP, pc_isoLevel]
  | readOnly t => rfl
  | readWrite t => rfl

theorem pc_sepModes : ∀ ms : Sep TMode, pc (sepPieces TMode.pieces ms) = []
  | [] => rfl
  | [p] => pc_TMode p.1
  | p :: q :: rest => by
    simp only [sepPieces, pc_append, pc_spaced, pc_symP, pc_TMode, pc_sepModes (q :: rest), List.append_nil]

theorem pc_modesPieces (ms : Sep TMode) : pc (modesPieces ms) = [] := by
  simp [modesPieces, pc_spaced, pc_sepModes]

-- ------------------------------------------------------------------ transaction modes
theorem isoLevel_content (il ts : List Tok) (hil : cont il = []) (m : TMode) (rest : List Tok)
    (h : isoLevel il ts = .ok (m, rest)) : cont m.flatten = [] := by
  unfold isoLevel at h
  split at h
  · rename_i l r hk
    simp at h; obtain ⟨rfl, rfl⟩ := h; simp [TMode.flatten, cont_append, hil, eatKws_content _ hk]
  · split at h
    · rename_i l r hk
      simp at h; obtain ⟨rfl, rfl⟩ := h; simp [TMode.flatten, cont_append, hil, eatKws_content _ hk]
    · split at h
      · rename_i l r hk
        simp at h; obtain ⟨rfl, rfl⟩ := h; simp [TMode.flatten, cont_append, hil, eatKws_content _ hk]
      · split at h
        · rename_i t r hk
          simp at h; obtain ⟨rfl, rfl⟩ := h
          simp [TMode.flatten, cont_append, hil, cont_cons, eatKw_content hk, cont_nil]
        · simp at h

theorem modeHead_content (ts : List Tok) (m : TMode) (rest : List Tok) (h : modeHead ts = .ok (some m, rest)) :
    cont m.flatten = [] := by
  unfold modeHead at h
  split at h
  · rename_i il r hk
    split at h
    · simp at h
    · rename_i m' r1 hm
      simp at h; obtain ⟨rfl, rfl⟩ := h
      exact isoLevel_content _ _ (eatKws_content _ hk) _ _ hm
  · split at h
    · rename_i l r hk
      simp at h; obtain ⟨rfl, rfl⟩ := h; simp [TMode.flatten, eatKws_content _ hk]
    · split at h
      · rename_i l r hk
        simp at h; obtain ⟨rfl, rfl⟩ := h; simp [TMode.flatten, eatKws_content _ hk]
      · simp at h

/-- the consumed mode keywords and commas have no content -/
theorem modesLoop_content : ∀ (n : Nat) (req : Bool) (ts : List Tok) (ms : Sep TMode) (rest : List Tok),
    modesLoop n req ts = .ok (ms, rest) → cont (sepFlat TMode.flatten ms) = [] := by
  intro n
  induction n with
  | zero => intro req ts ms rest h; simp [modesLoop] at h
  | succ n ih =>
    intro req ts ms rest h
    simp only [modesLoop] at h
    split at h
    · simp at h
    · split at h
      · simp at h
      · simp at h; obtain ⟨rfl, rfl⟩ := h; rfl
    · rename_i m r hm
      have h0 := modeHead_content _ _ _ hm
      split at h
      · rename_i cm r1 hc
        split at h
        · simp at h
        · rename_i ms' r2 hr
          have h1 := ih _ _ _ _ hr
          simp at h; obtain ⟨rfl, rfl⟩ := h
          simp [sepFlat, cont_append, cont_cons, h0, h1, eatSym_content hc, cont_nil]
      · split at h
        · simp at h
        · rename_i ms' r2 hr
          have h1 := ih _ _ _ _ hr
          simp at h; obtain ⟨rfl, rfl⟩ := h
          simp [sepFlat, cont_append, h0, h1, cont_nil]

theorem parseModes_content (f : Nat) (ts : List Tok) (ms : Sep TMode) (rest : List Tok)
    (h : parseModes f ts = .ok (ms, rest)) : cont (sepFlat TMode.flatten ms) = [] :=
  modesLoop_content _ _ _ _ _ h

-- ------------------------------------------------------------------ START / BEGIN / COMMIT / ROLLBACK / SAVEPOINT / RELEASE
theorem parseStart_content (f : Nat) (kw : Tok) (hkw : contentOf kw = none) (ts : List Tok) (s : Stmt) (rest : List Tok)
    (h : parseStart f kw ts = .ok (s, rest)) : cont s.flatten = pc s.pieces := by
  unfold parseStart at h
  split at h
  · simp at h
  · rename_i tk r hk
    split at h
    · simp at h
    · rename_i ms r1 hm
      simp at h; obtain ⟨rfl, rfl⟩ := h
      simp [Stmt.flatten, Stmt.pieces, cont_cons, hkw, eatKw_content hk, parseModes_content _ _ _ _ hm, pc_cons_kwP,
        pc_modesPieces]

theorem beginModifierTail_content (c : TCfg) (ts : List Tok) : cont (beginModifierTail c ts).1 = [] := by
  unfold beginModifierTail
  split
  · exact oneOfTail_content _ _
  · rfl

theorem parseBegin_content (c : TCfg) (f : Nat) (kw : Tok) (hkw : contentOf kw = none) (ts : List Tok) (s : Stmt)
    (rest : List Tok) (h : parseBegin c f kw ts = .ok (s, rest)) : cont s.flatten = pc s.pieces := by
  unfold parseBegin at h
  split at h
  · simp at h
  · rename_i ms r1 hm
    simp at h; obtain ⟨rfl, rfl⟩ := h
    simp [Stmt.flatten, Stmt.pieces, cont_cons, cont_append, hkw, beginModifierTail_content, oneOfTail_content,
      parseModes_content _ _ _ _ hm, pc_append, pc_cons_kwP, pc_map_kwTokP, pc_modesPieces, pc_nil]

theorem chainPart_content (ts ch rest : List Tok) (h : chainPart ts = .ok (ch, rest)) : cont ch = [] := by
  unfold chainPart at h
  split at h
  · simp at h; obtain ⟨rfl, rfl⟩ := h; rfl
  · rename_i a r hk
    split at h
    · simp at h
    · rename_i ck r1 hc
      simp at h; obtain ⟨rfl, rfl⟩ := h
      simp [cont_cons, cont_append, eatKw_content hk, eatKw_content hc, kwTail_content, cont_nil]

theorem pc_chainPieces (ch : List Tok) : pc (chainPieces ch) = [] := by
  unfold chainPieces
  split <;> rfl

theorem parseCommit_content (kw : Tok) (hkw : contentOf kw = none) (ts : List Tok) (s : Stmt) (rest : List Tok)
    (h : parseCommit kw ts = .ok (s, rest)) : cont s.flatten = pc s.pieces := by
  unfold parseCommit at h
  split at h
  · simp at h
  · rename_i ch r hc
    simp at h; obtain ⟨rfl, rfl⟩ := h
    simp [Stmt.flatten, Stmt.pieces, cont_cons, cont_append, hkw, oneOfTail_content, chainPart_content _ _ _ hc,
      pc_cons_kwP, pc_chainPieces]

theorem rollbackSavepoint_content (ts sp rest : List Tok) (h : rollbackSavepoint ts = .ok (sp, rest)) :
    cont sp = pc (savepointPieces sp) := by
  unfold rollbackSavepoint at h
  split at h
  · simp at h; obtain ⟨rfl, rfl⟩ := h; rfl
  · rename_i t r hk
    split at h
    · simp at h
    · rename_i n r1 hi
      simp at h; obtain ⟨rfl, rfl⟩ := h
      have hl : (t :: ((kwTail TK.SAVEPOINT r).1 ++ [n])).getLast? = some n := by
        rw [← List.cons_append]; exact List.getLast?_concat
      simp only [savepointPieces, hl]
      simp [cont_cons, cont_append, eatKw_content hk, kwTail_content, pc_cons_kwP, pc_idPiece, cont_nil]

theorem parseRollback_content (kw : Tok) (hkw : contentOf kw = none) (ts : List Tok) (s : Stmt) (rest : List Tok)
    (h : parseRollback kw ts = .ok (s, rest)) : cont s.flatten = pc s.pieces := by
  unfold parseRollback at h
  split at h
  · simp at h
  · rename_i ch r hc
    split at h
    · simp at h
    · rename_i sp r1 hs
      simp at h; obtain ⟨rfl, rfl⟩ := h
      simp [Stmt.flatten, Stmt.pieces, cont_cons, cont_append, hkw, oneOfTail_content, chainPart_content _ _ _ hc,
        rollbackSavepoint_content _ _ _ hs, pc_append, pc_cons_kwP, pc_chainPieces]

theorem parseSavepoint_content (kw : Tok) (hkw : contentOf kw = none) (ts : List Tok) (s : Stmt) (rest : List Tok)
    (h : parseSavepoint kw ts = .ok (s, rest)) : cont s.flatten = pc s.pieces := by
  unfold parseSavepoint at h
  split at h
  · simp at h
  · rename_i n r hi
    simp at h; obtain ⟨rfl, rfl⟩ := h
    simp [Stmt.flatten, Stmt.pieces, cont_cons, hkw, pc_cons_kwP, pc_idPiece, cont_nil]

theorem parseRelease_content (kw : Tok) (hkw : contentOf kw = none) (ts : List Tok) (s : Stmt) (rest : List Tok)
    (h : parseRelease kw ts = .ok (s, rest)) : cont s.flatten = pc s.pieces := by
  unfold parseRelease at h
  split at h
  · simp at h
  · rename_i n r hi
    simp at h; obtain ⟨rfl, rfl⟩ := h
    simp [Stmt.flatten, Stmt.pieces, cont_cons, cont_append, hkw, kwTail_content, pc_cons_kwP, pc_idPiece, cont_nil]

-- ------------------------------------------------------------------ SET
theorem hivevarColon_content (md ts colon rest : List Tok) (h : hivevarColon md ts = .ok (colon, rest)) :
    cont colon = [] := by
  unfold hivevarColon at h
  split at h
  · split at h
    · rename_i cl r hc
      simp at h; obtain ⟨rfl, rfl⟩ := h; simp [cont_cons, eatSym_content hc, cont_nil]
    · simp at h
  · simp at h; obtain ⟨rfl, rfl⟩ := h; rfl

theorem setTarget_content (c : TCfg) (f : Nat) (ts : List Tok) (tg : SetTarget) (rest : List Tok)
    (h : setTarget c f ts = .ok (tg, rest)) : cont tg.flatten = pc tg.pieces := by
  unfold setTarget at h
  split at h
  · rename_i tz r hk
    simp at h; obtain ⟨rfl, rfl⟩ := h
    simp [SetTarget.flatten, SetTarget.pieces, eatKws_content _ hk, pc_kwP]
  · split at h
    · rename_i lp r hl
      have hl' : eatSym ts .LParen = some (lp, r) := by
        split at hl
        · exact hl
        · simp at hl
      split at h
      · simp at h
      · rename_i ids r1 hc
        split at h
        · rename_i rp r2 hr
          simp at h; obtain ⟨rfl, rfl⟩ := h
          have := identElem_seps _ _ _ _ _ hc
          simp [SetTarget.flatten, SetTarget.pieces, cont_cons, cont_append, eatSym_content hl', eatSym_content hr,
            cont_nil, this, pc_append, pc_cons_symP, pc_glued, pc_symP, pc_nil]
        · simp at h
    · split at h
      · simp at h
      · rename_i name r hn
        split at h
        · simp at h
        · simp at h; obtain ⟨rfl, rfl⟩ := h
          simp [SetTarget.flatten, SetTarget.pieces, name_content]

theorem pc_plainWordP (sp : Bool) (n : String) : pc [plainWordP sp n] = [.ident (str n) none] := rfl

theorem pc_cons_plainWordP (sp : Bool) (n : String) (l : List Piece) :
    pc (plainWordP sp n :: l) = .ident (str n) none :: pc l := by
  have := pc_append [plainWordP sp n] l
  simpa [pc_plainWordP] using this

theorem pc_rawPiece (sp : Bool) {t : Tok} (h : rawOk t = true) : pc [namesPartPiece sp t] = cont [t] := by
  unfold rawOk at h
  split at h
  · simp [namesPartPiece, litValue, h]; rfl
  · simp at h; simp [namesPartPiece, litValue, h]; rfl
  · simp at h; simp [namesPartPiece, litValue, h]; rfl
  · simp at h

theorem pc_cons_rawPiece (sp : Bool) {t : Tok} (h : rawOk t = true) (l : List Piece) :
    pc (namesPartPiece sp t :: l) = cont [t] ++ pc l := by
  have := pc_append [namesPartPiece sp t] l
  simpa [pc_rawPiece sp h] using this

theorem collatePart_content (ts co rest : List Tok) (h : collatePart ts = .ok (co, rest))
    (hp : (match co.getLast? with | some t => rawOk t | none => true) = true) : cont co = pc (collatePieces co) := by
  unfold collatePart at h
  split at h
  · simp at h; obtain ⟨rfl, rfl⟩ := h; rfl
  · rename_i ck r hk
    split at h
    · simp at h
    · rename_i t r1 hl
      simp at h; obtain ⟨rfl, rfl⟩ := h
      have hp' : rawOk t = true := by simpa using hp
      simp [collatePieces, cont_cons, eatKw_content hk, pc_cons_kwP, pc_rawPiece true hp', cont_nil]

theorem parseSetNames_content (kw : Tok) (hkw : contentOf kw = none) (md colon name : List Tok) (hmd : cont md = [])
    (hcl : cont colon = []) (ts : List Tok) (s : Stmt) (rest : List Tok)
    (h : parseSetNames kw md colon name ts = .ok (s, rest)) (hp : s.printable = true) : cont s.flatten = pc s.pieces := by
  unfold parseSetNames at h
  split at h
  · rename_i dk r hk
    simp at h; obtain ⟨rfl, rfl⟩ := h
    have hn : cont name = [.ident (str "NAMES") none] := by simpa [Stmt.printable] using hp
    simp [Stmt.flatten, Stmt.pieces, cont_cons, cont_append, hkw, hmd, hcl, hn, eatKw_content hk, pc_cons_kwP,
      pc_cons_plainWordP, pc_kwP, cont_nil, pc_nil]
  · split at h
    · simp at h
    · rename_i cs r hl
      split at h
      · simp at h
      · rename_i co r1 hc
        simp at h; obtain ⟨rfl, rfl⟩ := h
        simp only [Stmt.printable, Bool.and_eq_true, beq_iff_eq] at hp
        obtain ⟨⟨hn, hcs⟩, hco⟩ := hp
        have h2 := collatePart_content _ _ _ hc hco
        simp [Stmt.flatten, Stmt.pieces, cont_cons, cont_append, hkw, hmd, hcl, hn, h2, pc_append, pc_cons_kwP,
          pc_cons_plainWordP, pc_cons_rawPiece true hcs, cont_cons, cont_nil]

theorem setValue_content (c : TCfg) (f d : Nat) (ts : List Tok) (e : Expr) (rest : List Tok)
    (h : setValue c f d ts = .ok (e, rest)) (hp : e.printable = true) : cont e.flatten = pc e.pieces := by
  unfold setValue at h
  split at h
  · simp at h
  · exact parseE_content _ _ _ _ _ _ h hp

theorem eqOrTo_content {ts : List Tok} {t : Tok} {r : List Tok} (h : eqOrTo ts = some (t, r)) : contentOf t = none := by
  unfold eqOrTo at h
  split at h
  · rename_i p hp
    simp at h; subst h
    exact eatSym_content hp
  · exact eatKw_content h

theorem optLParen_content (m : Bool) (ts lp rest : List Tok) (h : optLParen m ts = .ok (lp, rest)) : cont lp = [] := by
  unfold optLParen at h
  split at h
  · split at h
    · rename_i t r hc
      simp at h; obtain ⟨rfl, rfl⟩ := h; simp [cont_cons, eatSym_content hc, cont_nil]
    · simp at h
  · simp at h; obtain ⟨rfl, rfl⟩ := h; rfl

theorem optRParen_content (m : Bool) (ts rp rest : List Tok) (h : optRParen m ts = .ok (rp, rest)) : cont rp = [] := by
  unfold optRParen at h
  split at h
  · split at h
    · rename_i t r hc
      simp at h; obtain ⟨rfl, rfl⟩ := h; simp [cont_cons, eatSym_content hc, cont_nil]
    · simp at h
  · simp at h; obtain ⟨rfl, rfl⟩ := h; rfl

theorem pc_localPieces (md : List Tok) : pc (localPieces md) = [] := by
  unfold localPieces
  split <;> rfl

theorem pc_ctxPieces (md : List Tok) : pc (ctxPieces md) = [] := by
  unfold ctxPieces
  split
  · rfl
  · split <;> rfl

theorem pc_setVarPieces (md : List Tok) (tg : SetTarget) (vs : Sep Expr) :
    pc (setVarPieces md tg vs) = pc tg.pieces ++ pc (sepPieces Expr.pieces vs) := by
  have e1 : pc (if isHivevar md then [kwP true "HIVEVAR", symP false .Colon] ++ glued tg.pieces else spaced tg.pieces) =
      pc tg.pieces := by
    split
    · simp [pc_append, pc_cons_kwP, pc_cons_symP, pc_glued, pc_symP, pc_nil]
    · exact pc_spaced _
  have e2 : pc (if tg.isMany then [symP true .LParen] ++ glued (sepPieces Expr.pieces vs) ++ [symP false .RParen]
      else spaced (sepPieces Expr.pieces vs)) = pc (sepPieces Expr.pieces vs) := by
    split
    · simp [pc_append, pc_cons_symP, pc_glued, pc_symP, pc_nil]
    · exact pc_spaced _
  simp only [setVarPieces, pc_append]
  rw [e1, e2]
  simp [pc_kwP, pc_symP, pc_localPieces]

theorem parseSetValues_content (c : TCfg) (f d : Nat) (kw : Tok) (hkw : contentOf kw = none) (md colon : List Tok)
    (hmd : cont md = []) (hcl : cont colon = []) (tg : SetTarget) (htg : cont tg.flatten = pc tg.pieces) (eq : Tok)
    (heq : contentOf eq = none) (ts : List Tok) (s : Stmt) (rest : List Tok)
    (h : parseSetValues c f d kw md colon tg eq ts = .ok (s, rest)) (hp : s.printable = true) :
    cont s.flatten = pc s.pieces := by
  unfold parseSetValues at h
  split at h
  · simp at h
  · rename_i lp r hl
    have h0 := optLParen_content _ _ _ _ hl
    split at h
    · simp at h
    · rename_i vs r1 hc
      split at h
      · simp at h
      · rename_i rp r2 hr
        have h2 := optRParen_content _ _ _ _ hr
        simp at h; obtain ⟨rfl, rfl⟩ := h
        have h1 := commaSepE_content _ _ Expr.flatten Expr.pieces (fun e => e.printable = true)
          (fun ts v rest hh hv => setValue_content c f d ts v rest hh hv) _ _ _ _ hc
          (fun p hpm => by simpa using (List.all_eq_true.1 hp) p hpm)
        simp [Stmt.flatten, Stmt.pieces, pc_setVarPieces, cont_cons, cont_append, hkw, hmd, hcl, htg, heq, h0, h1, h2]

theorem parseSetCharacteristics_content (f : Nat) (kw : Tok) (hkw : contentOf kw = none) (md colon name : List Tok)
    (hmd : cont md = []) (hcl : cont colon = []) (ts : List Tok) (s : Stmt) (rest : List Tok)
    (h : parseSetCharacteristics f kw md colon name ts = .ok (s, rest)) (hp : s.printable = true) :
    cont s.flatten = pc s.pieces := by
  unfold parseSetCharacteristics at h
  split at h
  · simp at h
  · rename_i at_ r hk
    split at h
    · simp at h
    · rename_i ms r1 hm
      simp at h; obtain ⟨rfl, rfl⟩ := h
      have hn : cont (name ++ at_) = [.ident (str "CHARACTERISTICS") none] := by simpa [Stmt.printable] using hp
      simp only [Stmt.flatten, Stmt.pieces, setTxPieces, cont_cons, cont_append, pc_append] at hn ⊢
      simp [hkw, hmd, hcl, hn, parseModes_content _ _ _ _ hm, pc_cons_kwP, pc_cons_plainWordP, pc_kwP, pc_modesPieces, pc_nil]

theorem parseSetTransaction_content (f : Nat) (kw : Tok) (hkw : contentOf kw = none) (md colon name : List Tok)
    (hmd : cont md = []) (hcl : cont colon = []) (ts : List Tok) (s : Stmt) (rest : List Tok)
    (h : parseSetTransaction f kw md colon name ts = .ok (s, rest)) (hp : s.printable = true) :
    cont s.flatten = pc s.pieces := by
  unfold parseSetTransaction at h
  split at h
  · simp at h
  · split at h
    · simp at h
    · rename_i ms r1 hm
      simp at h; obtain ⟨rfl, rfl⟩ := h
      have hn : cont name = [] := by simpa [Stmt.printable] using hp
      simp [Stmt.flatten, Stmt.pieces, setTxPieces, cont_cons, cont_append, hkw, hmd, hcl, hn,
        parseModes_content _ _ _ _ hm, pc_append, pc_cons_kwP, pc_kwP, pc_modesPieces]

theorem parseSetOther_content (c : TCfg) (f d : Nat) (kw : Tok) (hkw : contentOf kw = none) (md colon : List Tok)
    (hmd : cont md = []) (hcl : cont colon = []) (tg : SetTarget) (ts : List Tok) (s : Stmt) (rest : List Tok)
    (h : parseSetOther c f d kw md colon tg ts = .ok (s, rest)) (hp : s.printable = true) :
    cont s.flatten = pc s.pieces := by
  unfold parseSetOther at h
  split at h
  · simp at h
  · split at h
    · split at h
      · simp at h
      · rename_i e r he
        simp at h; obtain ⟨rfl, rfl⟩ := h
        simp only [Stmt.printable, Bool.and_eq_true, beq_iff_eq] at hp
        have h1 := parseE_content _ _ _ _ _ _ he hp.2
        simp [Stmt.flatten, Stmt.pieces, cont_cons, cont_append, hkw, hmd, hcl, hp.1, h1, pc_append, pc_cons_kwP,
          pc_localPieces, pc_spaced]
    · split at h
      · exact parseSetCharacteristics_content _ _ hkw _ _ _ hmd hcl _ _ _ h hp
      · split at h
        · exact parseSetTransaction_content _ _ hkw _ _ _ hmd hcl _ _ _ h hp
        · simp at h

theorem parseSetVar_content (c : TCfg) (f d : Nat) (kw : Tok) (hkw : contentOf kw = none) (md colon : List Tok)
    (hmd : cont md = []) (hcl : cont colon = []) (ts : List Tok) (s : Stmt) (rest : List Tok)
    (h : parseSetVar c f d kw md colon ts = .ok (s, rest)) (hp : s.printable = true) : cont s.flatten = pc s.pieces := by
  unfold parseSetVar at h
  split at h
  · simp at h
  · rename_i tg r ht
    have h0 := setTarget_content _ _ _ _ _ ht
    split at h
    · exact parseSetNames_content _ hkw _ _ _ hmd hcl _ _ _ h hp
    · split at h
      · rename_i eq r1 he
        exact parseSetValues_content _ _ _ _ hkw _ _ hmd hcl _ h0 _ (eqOrTo_content he) _ _ _ h hp
      · exact parseSetOther_content _ _ _ _ hkw _ _ hmd hcl _ _ _ _ h hp

theorem parseSetRole_content (kw : Tok) (hkw : contentOf kw = none) (md : List Tok) (hmd : cont md = []) (rk : Tok)
    (hrk : contentOf rk = none) (ts : List Tok) (s : Stmt) (rest : List Tok)
    (h : parseSetRole kw md rk ts = .ok (s, rest)) : cont s.flatten = pc s.pieces := by
  unfold parseSetRole at h
  split at h
  · simp at h
  · rename_i n r hi
    simp at h; obtain ⟨rfl, rfl⟩ := h
    have e : pc [if n.isKw TK.NONE = true then kwP true "NONE" else idPiece true n] = cont [n] := by
      split
      · rename_i hk; simp [pc_kwP, cont_cons, isKw_content hk, cont_nil]
      · exact pc_idPiece _ _
    simp only [Stmt.flatten, Stmt.pieces, cont_cons, cont_append, pc_append, pc_cons_kwP, e]
    simp [hkw, hmd, hrk, pc_kwP, pc_ctxPieces, cont_cons, cont_nil, pc_nil]

theorem roleAhead_content {md ts : List Tok} {rk : Tok} {r : List Tok} (h : roleAhead md ts = some (rk, r)) :
    contentOf rk = none := by
  unfold roleAhead at h
  split at h
  · simp at h
  · exact eatKw_content h

theorem parseSetTail_content (c : TCfg) (f d : Nat) (kw : Tok) (hkw : contentOf kw = none) (md : List Tok)
    (hmd : cont md = []) (ts : List Tok) (s : Stmt) (rest : List Tok)
    (h : parseSetTail c f d kw md ts = .ok (s, rest)) (hp : s.printable = true) : cont s.flatten = pc s.pieces := by
  unfold parseSetTail at h
  split at h
  · rename_i rk r hr
    exact parseSetRole_content _ hkw _ hmd _ (roleAhead_content hr) _ _ _ h
  · split at h
    · simp at h
    · rename_i colon r hc
      exact parseSetVar_content _ _ _ _ hkw _ _ hmd (hivevarColon_content _ _ _ _ hc) _ _ _ h hp

theorem parseSet_content (c : TCfg) (f d : Nat) (kw : Tok) (hkw : contentOf kw = none) (ts : List Tok) (s : Stmt)
    (rest : List Tok) (h : parseSet c f d kw ts = .ok (s, rest)) (hp : s.printable = true) :
    cont s.flatten = pc s.pieces := by
  unfold parseSet at h
  exact parseSetTail_content _ _ _ _ hkw _ (oneOfTail_content _ _) _ _ _ h hp

-- ------------------------------------------------------------------ USE / DISCARD / DEALLOCATE / CLOSE / ASSERT
theorem useKindTail_content (c : TCfg) (ts : List Tok) : cont (useKindTail c ts).1 = [] := by
  unfold useKindTail
  split
  · exact oneOfTail_content _ _
  · split
    · exact oneOfTail_content _ _
    · rfl

theorem useDefaultAhead_content {c : TCfg} {ts : List Tok} {dk : Tok} {r : List Tok}
    (h : useDefaultAhead c ts = some (dk, r)) : contentOf dk = none := by
  unfold useDefaultAhead at h
  split at h
  · exact eatKw_content h
  · simp at h

theorem parseUse_content (c : TCfg) (kw : Tok) (hkw : contentOf kw = none) (ts : List Tok) (s : Stmt) (rest : List Tok)
    (h : parseUse c kw ts = .ok (s, rest)) : cont s.flatten = pc s.pieces := by
  unfold parseUse at h
  split at h
  · rename_i dk r hd
    simp at h; obtain ⟨rfl, rfl⟩ := h
    simp [Stmt.flatten, Stmt.pieces, cont_cons, hkw, useDefaultAhead_content hd, pc_cons_kwP, pc_kwP, cont_nil, pc_nil]
  · split at h
    · simp at h
    · rename_i name r hn
      split at h
      · simp at h
      · simp at h; obtain ⟨rfl, rfl⟩ := h
        simp [Stmt.flatten, Stmt.pieces, cont_cons, cont_append, hkw, useKindTail_content, pc_append, pc_cons_kwP,
          pc_map_kwTokP, pc_spaced, ← name_content]

theorem parseDiscard_content (kw : Tok) (hkw : contentOf kw = none) (ts : List Tok) (s : Stmt) (rest : List Tok)
    (h : parseDiscard kw ts = .ok (s, rest)) : cont s.flatten = pc s.pieces := by
  unfold parseDiscard at h
  split at h
  · simp at h
  · rename_i t r
    split at h
    · rename_i hk
      simp at h; obtain ⟨rfl, rfl⟩ := h
      obtain ⟨k, -, hk'⟩ := List.any_eq_true.1 hk
      have e : pc [if t.isKw TK.TEMPORARY = true then kwP true "TEMP" else kwTokP true t] = [] := by
        split
        · rfl
        · exact pc_kwTokP hk' _
      simp only [Stmt.flatten, Stmt.pieces, cont_cons, pc_cons_kwP, e]
      simp [hkw, isKw_content hk', cont_nil]
    · simp at h

theorem parseDeallocate_content (kw : Tok) (hkw : contentOf kw = none) (ts : List Tok) (s : Stmt) (rest : List Tok)
    (h : parseDeallocate kw ts = .ok (s, rest)) : cont s.flatten = pc s.pieces := by
  unfold parseDeallocate at h
  split at h
  · simp at h
  · rename_i n r hi
    simp at h; obtain ⟨rfl, rfl⟩ := h
    simp only [Stmt.flatten, Stmt.pieces, cont_cons, cont_append, pc_append, pc_cons_kwP, pc_if_kw1, pc_idPiece]
    simp [hkw, kwTail_content, cont_cons, cont_nil, pc_nil]

theorem parseClose_content (kw : Tok) (hkw : contentOf kw = none) (ts : List Tok) (s : Stmt) (rest : List Tok)
    (h : parseClose kw ts = .ok (s, rest)) : cont s.flatten = pc s.pieces := by
  unfold parseClose at h
  split at h
  · simp at h
  · rename_i n r hi
    simp at h; obtain ⟨rfl, rfl⟩ := h
    have e : pc [if n.isKw TK.ALL = true then kwP true "ALL" else idPiece true n] = cont [n] := by
      split
      · rename_i hk; simp [pc_kwP, cont_cons, isKw_content hk, cont_nil]
      · exact pc_idPiece _ _
    simp only [Stmt.flatten, Stmt.pieces, cont_cons, pc_cons_kwP, e]
    simp [hkw]

theorem pc_assertMsgPieces (m : Option Expr) :
    pc (assertMsgPieces m) = (match m with | some e => pc e.pieces | none => []) := by
  cases m <;> simp [assertMsgPieces, pc_cons_kwP, pc_spaced, pc_nil]

theorem parseAssert_content (c : TCfg) (f d : Nat) (kw : Tok) (hkw : contentOf kw = none) (ts : List Tok) (s : Stmt)
    (rest : List Tok) (h : parseAssert c f d kw ts = .ok (s, rest)) (hp : s.printable = true) :
    cont s.flatten = pc s.pieces := by
  unfold parseAssert at h
  split at h
  · simp at h
  · rename_i e r he
    split at h
    · simp at h
    · rename_i m r1 hm
      simp at h; obtain ⟨rfl, rfl⟩ := h
      simp only [Stmt.printable, Bool.and_eq_true] at hp
      have h1 := parseE_content _ _ _ _ _ _ he hp.1
      obtain ⟨h2, h3⟩ := kwExprPart_content _ _ _ _ _ _ _ hm hp.2
      obtain ⟨m1, m2⟩ := m
      simp only at h2 h3
      cases m2 with
      | none =>
        simp [Stmt.flatten, Stmt.pieces, optFlat, cont_cons, cont_append, hkw, h1, h2, pc_append, pc_cons_kwP, pc_spaced,
          pc_assertMsgPieces, pc_nil, cont_nil]
      | some v =>
        simp only [optFlat] at h3
        simp [Stmt.flatten, Stmt.pieces, optFlat, cont_cons, cont_append, hkw, h1, h2, h3, pc_append, pc_cons_kwP,
          pc_spaced, pc_assertMsgPieces, pc_nil, cont_nil]

/-- **content**: the content tokens of what a statement parse consumed are those of the printed statement -/
theorem parseStmt_content (c : TCfg) (f limit : Nat) (ts : List Tok) (s : Stmt) (rest : List Tok)
    (h : parseStmt c f limit ts = .ok (s, rest)) (hp : s.printable = true) : cont s.flatten = pc s.pieces := by
  unfold parseStmt at h
  cases limit with
  | zero => simp at h
  | succ d =>
    simp only at h
    cases ts with
    | nil => simp at h
    | cons t r =>
      simp only at h
      by_cases hSTART : t.isKw TK.START = true
      · rw [if_pos hSTART] at h; exact parseStart_content _ _ (isKw_content hSTART) _ _ _ h
      rw [if_neg hSTART] at h
      by_cases hBEGIN : t.isKw TK.BEGIN = true
      · rw [if_pos hBEGIN] at h; exact parseBegin_content _ _ _ (isKw_content hBEGIN) _ _ _ h
      rw [if_neg hBEGIN] at h
      by_cases hEND_ : t.isKw TK.END_ = true
      · rw [if_pos hEND_] at h; exact parseCommit_content _ (isKw_content hEND_) _ _ _ h
      rw [if_neg hEND_] at h
      by_cases hCOMMIT : t.isKw TK.COMMIT = true
      · rw [if_pos hCOMMIT] at h; exact parseCommit_content _ (isKw_content hCOMMIT) _ _ _ h
      rw [if_neg hCOMMIT] at h
      by_cases hROLLBACK : t.isKw TK.ROLLBACK = true
      · rw [if_pos hROLLBACK] at h; exact parseRollback_content _ (isKw_content hROLLBACK) _ _ _ h
      rw [if_neg hROLLBACK] at h
      by_cases hSAVEPOINT : t.isKw TK.SAVEPOINT = true
      · rw [if_pos hSAVEPOINT] at h; exact parseSavepoint_content _ (isKw_content hSAVEPOINT) _ _ _ h
      rw [if_neg hSAVEPOINT] at h
      by_cases hRELEASE : t.isKw TK.RELEASE = true
      · rw [if_pos hRELEASE] at h; exact parseRelease_content _ (isKw_content hRELEASE) _ _ _ h
      rw [if_neg hRELEASE] at h
      by_cases hSET : t.isKw TK.SET = true
      · rw [if_pos hSET] at h; exact parseSet_content _ _ _ _ (isKw_content hSET) _ _ _ h hp
      rw [if_neg hSET] at h
      by_cases hUSE : t.isKw TK.USE = true
      · rw [if_pos hUSE] at h; exact parseUse_content _ _ (isKw_content hUSE) _ _ _ h
      rw [if_neg hUSE] at h
      by_cases hDISCARD : t.isKw TK.DISCARD = true
      · rw [if_pos hDISCARD] at h; exact parseDiscard_content _ (isKw_content hDISCARD) _ _ _ h
      rw [if_neg hDISCARD] at h
      by_cases hDEALLOCATE : t.isKw TK.DEALLOCATE = true
      · rw [if_pos hDEALLOCATE] at h; exact parseDeallocate_content _ (isKw_content hDEALLOCATE) _ _ _ h
      rw [if_neg hDEALLOCATE] at h
      by_cases hCLOSE : t.isKw TK.CLOSE = true
      · rw [if_pos hCLOSE] at h; exact parseClose_content _ (isKw_content hCLOSE) _ _ _ h
      rw [if_neg hCLOSE] at h
      by_cases hASSERT : t.isKw TK.ASSERT = true
      · rw [if_pos hASSERT] at h; exact parseAssert_content _ _ _ _ (isKw_content hASSERT) _ _ _ h hp
      rw [if_neg hASSERT] at h
      obtain ⟨v, hv, rfl⟩ := mapRes_ok h
      exact SqlVerif.Ddl.parseStmt_content _ _ _ _ _ _ hv hp

end SqlVerif.Tcl

import SqlVerif.Lemmas.DmlDT
import SqlVerif.Lemmas.QuerySim
import SqlVerif.Model.Dml
/-!
The data-type parser (`Model/DataType.lean`) on the non-recursive keyword arms depends only on a
coarse token image: `DTy.dqc` forgets the spelling and the quote of every word (the keyword class is
kept) and reads `==` as `=`.  On a token list whose first word selects a leaf-keyword arm other than
`DATETIME64` (`headLeaf`) the run on the list and the run on its image fail together or succeed with
the SAME type and the image of the rest (`parseDataType_dqc`).  The custom-name arm (`parseCustom`)
reads spellings and is excluded; `parseDataType_leafNC` recovers `headLeaf` from the shape of the
result.  Part 2 transports this to `Dml.colType` and the query-layer image `Query.qc`
(`colType_qc`, `colType_leafNC`).
-/
set_option linter.unusedSectionVars false
set_option linter.unusedSimpArgs false
set_option linter.unusedVariables false
namespace SqlVerif.DTy
open SqlVerif.Pratt (W Sym str wordDisplay)

/-- forget the spelling of words (keep the keyword class); `==` = `=` -/
def dqc : Tok → Tok
  | .word _ _ k => .word [] none k
  | .sym .DoubleEq => .sym .Eq
  | t => t

/-- results on a token list and on its image: fail together, or succeed with the SAME value and the
image of the rest -/
def RelD {α : Type} : Except Err (α × List Tok) → Except Err (α × List Tok) → Prop
  | .ok p, .ok p' => p' = (p.1, p.2.map dqc)
  | .error _, .error _ => True
  | _, _ => False

@[simp] theorem relD_ok_ok {α : Type} (p p' : α × List Tok) :
    RelD (.ok p) (.ok p') ↔ p' = (p.1, p.2.map dqc) := Iff.rfl
@[simp] theorem relD_err_err {α : Type} (e e' : Err) :
    RelD (.error e : Except Err (α × List Tok)) (.error e') ↔ True := Iff.rfl
@[simp] theorem relD_ok_err {α : Type} (p : α × List Tok) (e' : Err) :
    RelD (.ok p) (.error e') ↔ False := Iff.rfl
@[simp] theorem relD_err_ok {α : Type} (e : Err) (p' : α × List Tok) :
    RelD (.error e : Except Err (α × List Tok)) (.ok p') ↔ False := Iff.rfl

theorem RelD.elim {α : Type} {x y : Except Err (α × List Tok)} (h : RelD x y) :
    (∃ v r, x = .ok (v, r) ∧ y = .ok (v, r.map dqc)) ∨ (∃ e e', x = .error e ∧ y = .error e') := by
  cases x with
  | error e =>
    cases y with
    | error e' => exact Or.inr ⟨e, e', rfl, rfl⟩
    | ok p' => exact absurd h (by simp)
  | ok p =>
    cases y with
    | error e' => exact absurd h (by simp)
    | ok p' =>
      simp at h; subst h
      exact Or.inl ⟨p.1, p.2, rfl, rfl⟩

theorem relD_err {α : Type} (e e' : Err) : RelD (.error e : Except Err (α × List Tok)) (.error e') := trivial
theorem relD_ok {α : Type} (v : α) (r : List Tok) : RelD (.ok (v, r)) (.ok (v, r.map dqc)) := rfl
theorem relD_pure {α : Type} (v : α) (r : List Tok) :
    RelD (pure (v, r) : Except Err (α × List Tok)) (pure (v, r.map dqc)) := rfl

/-- the same relation for parsers that return only the rest -/
def RelL : Except Err (List Tok) → Except Err (List Tok) → Prop
  | .ok r, .ok r' => r' = r.map dqc
  | .error _, .error _ => True
  | _, _ => False

@[simp] theorem relL_ok_ok (p p' : List Tok) : RelL (.ok p) (.ok p') ↔ p' = p.map dqc := Iff.rfl
@[simp] theorem relL_err_err (e e' : Err) : RelL (.error e) (.error e') ↔ True := Iff.rfl
@[simp] theorem relL_ok_err (p : List Tok) (e' : Err) : RelL (.ok p) (.error e') ↔ False := Iff.rfl
@[simp] theorem relL_err_ok (e : Err) (p' : List Tok) : RelL (.error e) (.ok p') ↔ False := Iff.rfl

theorem relD_bind {α β : Type} {x y : Except Err (α × List Tok)} {f g : α × List Tok → Except Err (β × List Tok)}
    (h : RelD x y) (hf : ∀ a r, RelD (f (a, r)) (g (a, r.map dqc))) : RelD (x >>= f) (y >>= g) := by
  rcases h.elim with ⟨v, r, rfl, rfl⟩ | ⟨e, e', rfl, rfl⟩
  · exact hf v r
  · trivial

theorem relL_bind {β : Type} {x y : Except Err (List Tok)} {f g : List Tok → Except Err (β × List Tok)}
    (h : RelL x y) (hf : ∀ r, RelD (f r) (g (r.map dqc))) : RelD (x >>= f) (y >>= g) := by
  cases x with
  | error e => cases y with
    | error e' => trivial
    | ok p' => exact absurd h (by simp)
  | ok p => cases y with
    | error e' => exact absurd h (by simp)
    | ok p' => simp at h; subst h; exact hf p

theorem relL_bindL {x y : Except Err (List Tok)} {f g : List Tok → Except Err (List Tok)}
    (h : RelL x y) (hf : ∀ r, RelL (f r) (g (r.map dqc))) : RelL (x >>= f) (y >>= g) := by
  cases x with
  | error e => cases y with
    | error e' => trivial
    | ok p' => exact absurd h (by simp)
  | ok p => cases y with
    | error e' => exact absurd h (by simp)
    | ok p' => simp at h; subst h; exact hf p

theorem dqc_isSym (t : Tok) (s : Sym) (h1 : s ≠ .Eq) (h2 : s ≠ .DoubleEq) : (dqc t).isSym s = t.isSym s := by
  cases t with
  | sym x =>
    by_cases hx : x = .DoubleEq
    · subst hx; simp only [dqc, Tok.isSym]
      have a : (Sym.Eq == s) = false := by simp; exact fun h => h1 h.symm
      have b : (Sym.DoubleEq == s) = false := by simp; exact fun h => h2 h.symm
      rw [a, b]
    · have : dqc (.sym x) = .sym x := by cases x <;> first | rfl | exact absurd rfl hx
      rw [this]
  | _ => rfl

theorem expectSym_dqc (s : Sym) (h1 : s ≠ .Eq) (h2 : s ≠ .DoubleEq) (ts : List Tok) :
    RelL (expectSym s ts) (expectSym s (ts.map dqc)) := by
  cases ts with
  | nil => trivial
  | cons t r =>
    simp only [List.map_cons, expectSym, dqc_isSym _ _ h1 h2]
    split
    · rfl
    · trivial

theorem consumeSym_dqc (s : Sym) (h1 : s ≠ .Eq) (h2 : s ≠ .DoubleEq) (ts : List Tok) :
    consumeSym s (ts.map dqc) = (consumeSym s ts).map (List.map dqc) := by
  cases ts with
  | nil => rfl
  | cons t r => simp only [List.map_cons, consumeSym, dqc_isSym _ _ h1 h2]; split <;> rfl

theorem peekKw_dqc (ts : List Tok) (k : DKw) : peekKw (ts.map dqc) k = peekKw ts k := by
  cases ts with
  | nil => rfl
  | cons t r =>
    cases t with
    | sym s => cases s <;> rfl
    | _ => rfl

theorem tail_dqc (ts : List Tok) : (ts.map dqc).tail = ts.tail.map dqc := by
  cases ts <;> rfl

theorem expectKw_dqc (k : DKw) (n : String) (ts : List Tok) :
    RelL (expectKw k n ts) (expectKw k n (ts.map dqc)) := by
  unfold expectKw
  rw [peekKw_dqc, tail_dqc]
  split
  · rfl
  · trivial

theorem literalUint_dqc (ts : List Tok) : RelD (literalUint ts) (literalUint (ts.map dqc)) := by
  cases ts with
  | nil => trivial
  | cons t r =>
    cases t with
    | number s l =>
      simp only [List.map_cons, dqc, literalUint]
      cases hp : parseU64 s with
      | error e => trivial
      | ok m => rfl
    | sym s => cases s <;> trivial
    | _ => trivial

theorem optPrecision_dqc (ts : List Tok) : RelD (optPrecision ts) (optPrecision (ts.map dqc)) := by
  unfold optPrecision
  rw [consumeSym_dqc _ (by simp) (by simp)]
  cases hc : consumeSym .LParen ts with
  | none => exact relD_pure _ _
  | some r0 =>
    simp only [Option.map]
    refine relD_bind (literalUint_dqc r0) fun n r1 => ?_
    refine relL_bind (expectSym_dqc _ (by simp) (by simp) r1) fun r2 => ?_
    exact relD_pure _ _

theorem optCharLen_dqc (ts : List Tok) : RelD (optCharLen ts) (optCharLen (ts.map dqc)) := by
  unfold optCharLen
  rw [consumeSym_dqc _ (by simp) (by simp)]
  cases hc : consumeSym .LParen ts with
  | none => exact relD_pure _ _
  | some r0 =>
    simp only [Option.map, peekKw_dqc, tail_dqc]
    cases hm : peekKw r0 .MAX with
    | true =>
      simp only [↓reduceIte]
      refine relL_bind (expectSym_dqc _ (by simp) (by simp) _) fun r2 => ?_
      exact relD_pure _ _
    | false =>
      simp only [↓reduceIte, Bool.false_eq_true]
      refine relD_bind (literalUint_dqc r0) fun n r1 => ?_
      simp only [peekKw_dqc, tail_dqc]
      cases h1 : peekKw r1 .CHARACTERS with
      | true =>
        simp only [↓reduceIte]
        refine relL_bind (expectSym_dqc _ (by simp) (by simp) _) fun r2 => ?_
        exact relD_pure _ _
      | false =>
        simp only [↓reduceIte, Bool.false_eq_true]
        cases h2 : peekKw r1 .OCTETS with
        | true =>
          simp only [↓reduceIte]
          refine relL_bind (expectSym_dqc _ (by simp) (by simp) _) fun r2 => ?_
          exact relD_pure _ _
        | false =>
          simp only [↓reduceIte, Bool.false_eq_true]
          refine relL_bind (expectSym_dqc _ (by simp) (by simp) _) fun r2 => ?_
          exact relD_pure _ _

theorem optNumInfo_dqc (ts : List Tok) : RelD (optNumInfo ts) (optNumInfo (ts.map dqc)) := by
  unfold optNumInfo
  rw [consumeSym_dqc _ (by simp) (by simp)]
  cases hc : consumeSym .LParen ts with
  | none => exact relD_pure _ _
  | some r0 =>
    simp only [Option.map]
    refine relD_bind (literalUint_dqc r0) fun n r1 => ?_
    simp only [consumeSym_dqc _ (show Sym.Comma ≠ .Eq by simp) (show Sym.Comma ≠ .DoubleEq by simp)]
    cases hc2 : consumeSym .Comma r1 with
    | none =>
      simp only [Option.map]
      refine relL_bind (expectSym_dqc _ (by simp) (by simp) _) fun r2 => ?_
      exact relD_pure _ _
    | some r2 =>
      simp only [Option.map]
      refine relD_bind (literalUint_dqc r2) fun n r3 => ?_
      refine relL_bind (expectSym_dqc _ (by simp) (by simp) _) fun r2 => ?_
      exact relD_pure _ _

theorem optTz_dqc (ts : List Tok) : RelD (optTz ts) (optTz (ts.map dqc)) := by
  unfold optTz
  simp only [peekKw_dqc, tail_dqc]
  cases h1 : peekKw ts .WITH with
  | true =>
    simp only [↓reduceIte]
    refine relL_bind (expectKw_dqc _ _ _) fun r1 => ?_
    refine relL_bind (expectKw_dqc _ _ _) fun r2 => ?_
    exact relD_pure _ _
  | false =>
    simp only [↓reduceIte, Bool.false_eq_true]
    cases h2 : peekKw ts .WITHOUT with
    | true =>
      simp only [↓reduceIte]
      refine relL_bind (expectKw_dqc _ _ _) fun r1 => ?_
      refine relL_bind (expectKw_dqc _ _ _) fun r2 => ?_
      exact relD_pure _ _
    | false =>
      simp only [↓reduceIte, Bool.false_eq_true]
      exact relD_pure _ _

theorem afterCommaEnds_dqc (tc : Bool) (r : List Tok) : afterCommaEnds tc (r.map dqc) = afterCommaEnds tc r := by
  cases r with
  | nil => rfl
  | cons a b =>
    cases a <;> try rfl
    rename_i s; cases s <;> rfl

theorem strVals_dqc (c : Cfg) : ∀ (n : Nat) (ts : List Tok), ts.length ≤ n → RelD (strVals c ts) (strVals c (ts.map dqc)) := by
  intro n
  induction n with
  | zero =>
    intro ts hl
    have : ts = [] := by cases ts <;> simp_all
    subst this; trivial
  | succ n ih =>
    intro ts hl
    cases ts with
    | nil => trivial
    | cons t r =>
      cases t with
      | sqs v =>
        cases r with
        | nil => exact relD_pure _ _
        | cons t2 r2 =>
          have hl' : r2.length ≤ n := by simp at hl; omega
          cases t2 with
          | sym s =>
            cases s <;> try (simp only [List.map_cons, dqc, strVals]; exact relD_pure _ (_ :: _))
            · simp only [List.map_cons, dqc, strVals, afterCommaEnds_dqc]
              cases afterCommaEnds c.trailingCommas r2 with
              | true => exact relD_pure _ _
              | false =>
                simp only [Bool.false_eq_true, ↓reduceIte]
                refine relD_bind (ih r2 hl') fun vs r' => ?_
                exact relD_pure _ _
          | _ => simp only [List.map_cons, dqc, strVals]; exact relD_pure _ (_ :: _)
      | sym s => cases s <;> trivial
      | _ => trivial

theorem stringValues_dqc (c : Cfg) (ts : List Tok) : RelD (stringValues c ts) (stringValues c (ts.map dqc)) := by
  unfold stringValues
  refine relL_bind (expectSym_dqc _ (by simp) (by simp) _) fun r => ?_
  refine relD_bind (strVals_dqc c _ r (Nat.le_refl _)) fun vs r1 => ?_
  refine relL_bind (expectSym_dqc _ (by simp) (by simp) _) fun r2 => ?_
  exact relD_pure _ _
theorem charFamily_dqc (plain varying : CharKind) (large : LenKind) (ts : List Tok) :
    RelD (charFamily plain varying large ts) (charFamily plain varying large (ts.map dqc)) := by
  unfold charFamily
  simp only [peekKw_dqc, tail_dqc]
  cases h1 : peekKw ts .VARYING with
  | true =>
    simp only [↓reduceIte]
    refine relD_bind (optCharLen_dqc _) fun l r => ?_
    exact relD_pure _ _
  | false =>
    simp only [↓reduceIte, Bool.false_eq_true]
    cases h2 : (peekKw ts .LARGE && peekKw ts.tail .OBJECT) with
    | true =>
      simp only [↓reduceIte]
      refine relD_bind (optPrecision_dqc _) fun l r => ?_
      exact relD_pure _ _
    | false =>
      simp only [↓reduceIte, Bool.false_eq_true]
      refine relD_bind (optCharLen_dqc _) fun l r => ?_
      exact relD_pure _ _

theorem ite_dqc {α : Type} (b : Bool) (v w : α) (r s : List Tok) :
    RelD (if b = true then pure (v, r) else pure (w, s) : Except Err (α × List Tok))
      (if b = true then pure (v, r.map dqc) else pure (w, s.map dqc)) := by
  cases b <;> exact relD_pure _ _

/-- the non-recursive keyword arms (other than `DATETIME64`, which reads a string literal that may be
a word) give related results on a token list and on its image -/
theorem parseLeaf_dqc (c : Cfg) (kw : DKw) (hk : kw ≠ .DATETIME64) (ts : List Tok) :
    match parseLeaf c kw ts, parseLeaf c kw (ts.map dqc) with
    | some x, some y => RelD x y
    | none, none => True
    | _, _ => False := by
  cases kw <;> simp only [parseLeaf, simpleOfKw, lenOfKw, intOfKw, numOfKw, peekKw_dqc, tail_dqc] <;>
    first
    | exact absurd rfl hk
    | trivial
    | exact relD_pure _ _
    | exact ite_dqc _ _ _ _ _
    | exact charFamily_dqc _ _ _ _
    | exact relD_bind (optCharLen_dqc _) fun l r => relD_pure _ _
    | exact relD_bind (optPrecision_dqc _) fun l r => relD_pure _ _
    | exact relD_bind (optNumInfo_dqc _) fun l r => relD_pure _ _
    | exact relD_bind (stringValues_dqc _ _) fun l r => relD_pure _ _
    | exact relD_bind (optPrecision_dqc _) fun l r => relD_bind (optTz_dqc _) fun l r => relD_pure _ _
    | exact relD_bind (optPrecision_dqc _) fun l r => (by simp only [peekKw_dqc, tail_dqc]; exact ite_dqc _ _ _ _ _)
    | exact relL_bind (expectSym_dqc _ (by simp) (by simp) _) fun r =>
        relD_bind (literalUint_dqc _) fun n r1 => relL_bind (expectSym_dqc _ (by simp) (by simp) _) fun r2 => relD_pure _ _

theorem suffixLoop_dqc (c : Cfg) : ∀ (f : Nat) (t : DT) (ts : List Tok),
    RelD (suffixLoop c f t ts) (suffixLoop c f t (ts.map dqc)) := by
  intro f
  induction f with
  | zero => intro t ts; trivial
  | succ f ih =>
    intro t ts
    simp only [suffixLoop, consumeSym_dqc _ (show Sym.LBracket ≠ .Eq by simp) (show Sym.LBracket ≠ .DoubleEq by simp)]
    cases hc : consumeSym .LBracket ts with
    | none => exact relD_pure _ _
    | some r0 =>
      simp only [Option.map]
      have hE : ∀ r1, RelL (expectSym .RBracket r1) (expectSym .RBracket (r1.map dqc)) :=
        expectSym_dqc _ (by simp) (by simp)
      cases hb : (c.isGeneric || c.isDuckDb || c.isPostgres) with
      | true =>
        simp only [↓reduceIte]
        have hl := literalUint_dqc r0
        cases h1 : literalUint r0 with
        | ok q =>
          obtain ⟨n, r1⟩ := q
          rw [h1] at hl
          cases h2 : literalUint (r0.map dqc) with
          | error e => rw [h2] at hl; exact absurd hl (by simp)
          | ok q' =>
            rw [h2] at hl; simp at hl; subst hl
            simp only []
            have he := hE r1
            cases h3 : expectSym .RBracket r1 with
            | error e =>
              rw [h3] at he
              cases h4 : expectSym .RBracket (r1.map dqc) with
              | error e' => trivial
              | ok x => rw [h4] at he; exact absurd he (by simp)
            | ok r2 =>
              rw [h3] at he
              cases h4 : expectSym .RBracket (r1.map dqc) with
              | error e' => rw [h4] at he; exact absurd he (by simp)
              | ok x => rw [h4] at he; simp at he; subst he; exact ih _ _
        | error e =>
          rw [h1] at hl
          cases h2 : literalUint (r0.map dqc) with
          | ok q' => rw [h2] at hl; exact absurd hl (by simp)
          | error e' =>
            simp only []
            have he := hE r0
            cases h3 : expectSym .RBracket r0 with
            | error e =>
              rw [h3] at he
              cases h4 : expectSym .RBracket (r0.map dqc) with
              | error e' => trivial
              | ok x => rw [h4] at he; exact absurd he (by simp)
            | ok r2 =>
              rw [h3] at he
              cases h4 : expectSym .RBracket (r0.map dqc) with
              | error e' => rw [h4] at he; exact absurd he (by simp)
              | ok x => rw [h4] at he; simp at he; subst he; exact ih _ _
      | false =>
        simp only [↓reduceIte, Bool.false_eq_true]
        have he := hE r0
        cases h3 : expectSym .RBracket r0 with
        | error e =>
          rw [h3] at he
          cases h4 : expectSym .RBracket (r0.map dqc) with
          | error e' => trivial
          | ok x => rw [h4] at he; exact absurd he (by simp)
        | ok r2 =>
          rw [h3] at he
          cases h4 : expectSym .RBracket (r0.map dqc) with
          | error e' => rw [h4] at he; exact absurd he (by simp)
          | ok x => rw [h4] at he; simp at he; subst he; exact ih _ _

/-- the relation for `finish` / `parseHelper` results (value, flag, rest) -/
def RelF : Except Err (DT × Bool × List Tok) → Except Err (DT × Bool × List Tok) → Prop
  | .ok p, .ok p' => p' = (p.1, p.2.1, p.2.2.map dqc)
  | .error _, .error _ => True
  | _, _ => False

theorem finish_dqc (c : Cfg) (f : Nat) (t : DT) (tr : Bool) (ts : List Tok) :
    RelF (finish c f t tr ts) (finish c f t tr (ts.map dqc)) := by
  unfold finish
  rcases (suffixLoop_dqc c f t ts).elim with ⟨v, r, h1, h2⟩ | ⟨e, e', h1, h2⟩
  · rw [h1, h2]; rfl
  · rw [h1, h2]; trivial

theorem parseLeaf_some (c : Cfg) (kw : DKw) (r : List Tok) (h : leafKw kw = true) :
    (parseLeaf c kw r).isSome = true := by
  cases hp : parseLeaf c kw r with
  | some x => rfl
  | none =>
    exfalso
    cases kw <;> first
      | (simp [leafKw, simpleOfKw, lenOfKw, intOfKw, numOfKw] at h; done)
      | (simp [parseLeaf, simpleOfKw, lenOfKw, intOfKw, numOfKw] at hp; done)

/-- the first token is a word whose keyword class selects a non-recursive keyword arm other than
`DATETIME64` -/
def headLeaf (c : Cfg) : List Tok → Bool
  | .word _ _ kw :: _ => (headOf c kw).isNone && leafKw kw && kw != .DATETIME64
  | _ => false

theorem headLeaf_plain (c : Cfg) {ts : List Tok} (h : headLeaf c ts = true) : headPlain c ts = true := by
  cases ts with
  | nil => simp [headLeaf] at h
  | cons t r => cases t <;> simp_all [headLeaf, headPlain]

theorem headLeaf_dqc (c : Cfg) (ts : List Tok) : headLeaf c (ts.map dqc) = headLeaf c ts := by
  cases ts with
  | nil => rfl
  | cons t r =>
    cases t with
    | sym s => cases s <;> rfl
    | _ => rfl

theorem flat_dqc (c : Cfg) (ts : List Tok) (h : headLeaf c ts = true) :
    RelD (flat c ts) (flat c (ts.map dqc)) := by
  cases ts with
  | nil => simp [headLeaf] at h
  | cons t r =>
    cases t with
    | word v q kw =>
      simp only [headLeaf, Bool.and_eq_true, bne_iff_ne, ne_eq] at h
      obtain ⟨⟨_, hl⟩, hk⟩ := h
      have key := parseLeaf_dqc c kw hk r
      have hs1 := parseLeaf_some c kw r hl
      have hs2 := parseLeaf_some c kw (r.map dqc) hl
      simp only [List.map_cons, dqc, flat]
      cases h1 : parseLeaf c kw r with
      | none => simp [h1] at hs1
      | some x =>
        cases h2 : parseLeaf c kw (r.map dqc) with
        | none => simp [h2] at hs2
        | some y => rw [h1, h2] at key; exact key
    | _ => simp [headLeaf] at h

/-- **the data-type parser on a leaf-keyword type depends only on the coarse token image** -/
theorem parseDataType_dqc (c : Cfg) (f d : Nat) (ts : List Tok) (h : headLeaf c ts = true) :
    RelD (parseDataType c f d ts) (parseDataType c f d (ts.map dqc)) := by
  have h' : headLeaf c (ts.map dqc) = true := by rw [headLeaf_dqc]; exact h
  cases f with
  | zero => simp [parseDataType, parseHelper]
  | succ f =>
    cases d with
    | zero => simp [parseDataType, parseHelper]
    | succ d =>
      unfold parseDataType
      rw [helper_flat2 c f d _ (headPlain_flat c (headLeaf_plain c h)),
        helper_flat2 c f d _ (headPlain_flat c (headLeaf_plain c h'))]
      rcases (flat_dqc c ts h).elim with ⟨v, r, h1, h2⟩ | ⟨e, e', h1, h2⟩
      · rw [h1, h2]
        simp only []
        have hf := finish_dqc c f v false r
        cases h3 : finish c f v false r with
        | error e =>
          rw [h3] at hf
          cases h4 : finish c f v false (r.map dqc) with
          | error e' => trivial
          | ok x => rw [h4] at hf; exact absurd hf (by simp [RelF])
        | ok p =>
          rw [h3] at hf
          cases h4 : finish c f v false (r.map dqc) with
          | error e' => rw [h4] at hf; exact absurd hf (by simp [RelF])
          | ok x =>
            rw [h4] at hf; simp only [RelF] at hf; subst hf
            obtain ⟨t', tr, r2⟩ := p
            cases tr <;> simp
      · rw [h1, h2]; trivial

def cfgG : Cfg := ⟨true, false, false, false, false, false, false, false, false⟩
def exToks : List Tok :=
  [.word (str "VarChar") none .VARCHAR, .sym .LParen, .number [51] false, .sym .RParen, .sym .LBracket, .sym .RBracket,
    .word (str "x") none .noKw, .sym .DoubleEq]

/-- non-vacuity: `VarChar(3)[] x ==` is a leaf type; its image run drops the spellings and reads `=` -/
example : headLeaf cfgG exToks = true := by decide
example : parseDataType cfgG 5 5 exToks =
    .ok (.arraySquare (.charLike .varchar (some (.int 3 none))) none, [.word (str "x") none .noKw, .sym .DoubleEq]) := by
  unfold parseDataType
  rw [helper_flat2 cfgG 4 4 _ (by decide)]
  rfl
example : parseDataType cfgG 5 5 (exToks.map dqc) =
    .ok (.arraySquare (.charLike .varchar (some (.int 3 none))) none, [.word [] none .noKw, .sym .Eq]) := by
  unfold parseDataType
  rw [helper_flat2 cfgG 4 4 _ (by decide)]
  rfl

-- ------------------------------------------------------------------ the shape of the result
/-- leaf type other than a custom name, possibly with `[]` suffixes -/
def tyLeafNC : DT → Bool
  | .simple _ | .withLen _ _ | .int _ _ _ | .charLike _ _ | .exactNum _ _ | .time _ _ _ | .fixedString _
  | .enum _ | .set _ => true
  | .arraySquare t _ => tyLeafNC t
  | _ => false

theorem parseCustom_shape (c : Cfg) {ts : List Tok} {t : DT} {r : List Tok} (h : parseCustom c ts = .ok (t, r)) :
    ∃ n m, t = .custom n m := by
  unfold parseCustom at h
  cases ho : objName ts with
  | error e => simp [ho, bind, Except.bind] at h
  | ok q =>
    obtain ⟨name, r0⟩ := q
    simp only [ho, bind, Except.bind] at h
    cases hc : consumeSym .LParen r0 with
    | none => simp [hc, pure, Except.pure] at h; exact ⟨_, _, h.1.symm⟩
    | some r1 =>
      simp only [hc] at h
      cases hm : modLoop r1 with
      | error e => simp [hm] at h
      | ok q => simp [hm, pure, Except.pure] at h; exact ⟨_, _, h.1.symm⟩

theorem suffixLoop_shape (c : Cfg) : ∀ (f : Nat) (t0 : DT) (ts : List Tok) (t : DT) (r : List Tok),
    suffixLoop c f t0 ts = .ok (t, r) → tyLeafNC t = true → tyLeafNC t0 = true := by
  intro f
  induction f with
  | zero => intro t0 ts t r h; simp [suffixLoop] at h
  | succ f ih =>
    intro t0 ts t r h hl
    simp only [suffixLoop] at h
    cases hc : consumeSym .LBracket ts with
    | none => simp [hc, pure, Except.pure] at h; rw [h.1]; exact hl
    | some r0 =>
      simp only [hc] at h
      split at h
      · simp at h
      · rename_i r2 he
        have := ih _ _ _ _ h hl
        simpa [tyLeafNC] using this

/-- a successful run whose result is a keyword leaf type (with `[]` suffixes) started at a leaf keyword -/
theorem parseDataType_leafNC (c : Cfg) (f d : Nat) (ts : List Tok) (t : DT) (r : List Tok)
    (hh : headPlain c ts = true) (h : parseDataType c f d ts = .ok (t, r)) (hl : tyLeafNC t = true) :
    headLeaf c ts = true := by
  cases f with
  | zero => simp [parseDataType, parseHelper] at h
  | succ f =>
    cases d with
    | zero => simp [parseDataType, parseHelper] at h
    | succ d =>
      unfold parseDataType at h
      rw [helper_flat2 c f d _ (headPlain_flat c hh)] at h
      cases ts with
      | nil => simp [headPlain] at hh
      | cons x r0 =>
        cases x with
        | word v q kw =>
          simp only [headPlain, Bool.and_eq_true] at hh
          simp only [headLeaf, Bool.and_eq_true]
          refine ⟨⟨hh.1, ?_⟩, hh.2⟩
          cases hk : leafKw kw with
          | true => rfl
          | false =>
            exfalso
            simp only [flat, parseLeaf_none c kw r0 hk] at h
            cases hp : parseCustom c (.word v q kw :: r0) with
            | error e => simp [hp] at h
            | ok p =>
              obtain ⟨t0, r1⟩ := p
              obtain ⟨n, m, rfl⟩ := parseCustom_shape c hp
              simp only [hp, finish] at h
              cases hs : suffixLoop c f (.custom n m) r1 with
              | error e => simp [hs] at h
              | ok p2 =>
                obtain ⟨t2, r2⟩ := p2
                simp [hs] at h
                obtain ⟨rfl, rfl⟩ := h
                have := suffixLoop_shape c f _ _ _ _ hs hl
                simp [tyLeafNC] at this
        | _ => simp [headPlain] at hh
end SqlVerif.DTy

namespace SqlVerif.Dml
open SqlVerif.Pratt SqlVerif.Query

theorem dqc_toDTok_qc (t : Tok) : SqlVerif.DTy.dqc (toDTok (qc t)) = SqlVerif.DTy.dqc (toDTok t) := by
  cases t with
  | word v q kw => cases kw <;> rfl
  | sym s => cases s <;> rfl
  | _ => rfl

theorem map_dqc_toDTok_qc (ts : List Tok) :
    ((ts.map qc).map toDTok).map SqlVerif.DTy.dqc = (ts.map toDTok).map SqlVerif.DTy.dqc := by
  simp only [List.map_map]
  apply List.map_congr_left
  intro t _
  exact dqc_toDTok_qc t

theorem typeHeadForeign_qc (c : DCfg) (ts : List Tok) : typeHeadForeign c (ts.map qc) = typeHeadForeign c ts := by
  cases ts with
  | nil => rfl
  | cons t r =>
    cases t with
    | word v q kw => cases kw <;> rfl
    | sym s => cases s <;> rfl
    | _ => rfl

/-- the type starts with a word whose keyword selects a non-recursive keyword arm -/
def typeHeadLeaf (ts : List Tok) : Bool :=
  match ts with
  | .word _ _ kw :: _ => SqlVerif.DTy.leafKw (dkwOf kw)
  | _ => false

theorem typeHeadLeaf_qc (ts : List Tok) : typeHeadLeaf (ts.map qc) = typeHeadLeaf ts := by
  cases ts with
  | nil => rfl
  | cons t r =>
    cases t with
    | word v q kw => cases kw <;> rfl
    | sym s => cases s <;> rfl
    | _ => rfl

theorem headLeaf_toDTok (c : DCfg) (ts : List Tok) :
    SqlVerif.DTy.headLeaf c.dt (ts.map toDTok) = (!typeHeadForeign c ts && typeHeadLeaf ts) := by
  cases ts with
  | nil => rfl
  | cons t r =>
    cases t with
    | word v q kw =>
      simp only [List.map_cons, toDTok, SqlVerif.DTy.headLeaf, typeHeadForeign, typeHeadLeaf]
      cases (SqlVerif.DTy.headOf c.dt (dkwOf kw)) <;> cases SqlVerif.DTy.leafKw (dkwOf kw) <;>
        cases hq : (dkwOf kw == SqlVerif.DTy.DKw.DATETIME64) <;> simp [bne, hq]
    | _ => simp [toDTok, SqlVerif.DTy.headLeaf, typeHeadForeign, typeHeadLeaf]

/-- `colType` respects the token image `qc` when the type starts with a leaf keyword -/
theorem colType_qc (c : DCfg) (f d : Nat) (ts : List Tok) (h : typeHeadLeaf ts = true) :
    Rel2 (fun p : SqlVerif.DTy.DT × List Tok => (p.1, p.2.map qc)) (colType c f d ts) (colType c f d (ts.map qc)) := by
  unfold colType
  rw [typeHeadForeign_qc]
  cases hf : typeHeadForeign c ts with
  | true => simp
  | false =>
    simp only [Bool.false_eq_true, ↓reduceIte]
    have h1 : SqlVerif.DTy.headLeaf c.dt (ts.map toDTok) = true := by rw [headLeaf_toDTok, hf, h]; rfl
    have h2 : SqlVerif.DTy.headLeaf c.dt ((ts.map qc).map toDTok) = true := by
      rw [headLeaf_toDTok, typeHeadForeign_qc, typeHeadLeaf_qc, hf, h]; rfl
    have R1 := SqlVerif.DTy.parseDataType_dqc c.dt f d _ h1
    have R2 := SqlVerif.DTy.parseDataType_dqc c.dt f d _ h2
    rw [map_dqc_toDTok_qc] at R2
    rcases R1.elim with ⟨v, r, a1, a2⟩ | ⟨e, e', a1, a2⟩
    · rcases R2.elim with ⟨v', r', b1, b2⟩ | ⟨e, e', b1, b2⟩
      · rw [a2] at b2
        simp only [Except.ok.injEq, Prod.mk.injEq] at b2
        obtain ⟨rfl, hr⟩ := b2
        have hlen : r'.length = r.length := by
          have := congrArg List.length hr
          simpa using this.symm
        rw [a1, b1]
        simp only [rel2_ok_ok, mp, List.length_map, hlen, List.map_take, List.map_drop]
      · rw [a2] at b2; simp at b2
    · rcases R2.elim with ⟨v', r', b1, b2⟩ | ⟨e2, e2', b1, b2⟩
      · rw [a2] at b2; simp at b2
      · rw [a1, b1]; simp

theorem colType_leafNC (c : DCfg) (f d : Nat) (ts : List Tok) (t : SqlVerif.DTy.DT) (tt r : List Tok)
    (h : colType c f d ts = .ok ((t, tt), r)) (hl : SqlVerif.DTy.tyLeafNC t = true) : typeHeadLeaf ts = true := by
  unfold colType at h
  cases hf : typeHeadForeign c ts with
  | true => simp [hf] at h
  | false =>
    simp only [hf, Bool.false_eq_true, ↓reduceIte] at h
    cases hp : SqlVerif.DTy.parseDataType c.dt f d (ts.map toDTok) with
    | error e => simp [hp] at h
    | ok p =>
      obtain ⟨t0, rest⟩ := p
      simp only [hp, Except.ok.injEq, Prod.mk.injEq] at h
      obtain ⟨⟨rfl, _⟩, _⟩ := h
      have hh : SqlVerif.DTy.headPlain c.dt (ts.map toDTok) = true := by
        cases ts with
        | nil => simp [SqlVerif.DTy.parseDataType] at hp; cases f <;> cases d <;> simp [SqlVerif.DTy.parseHelper, SqlVerif.DTy.expectedAt] at hp
        | cons x r0 =>
          cases x with
          | word v q kw =>
            simp only [typeHeadForeign, Bool.or_eq_false_iff] at hf
            simp only [List.map_cons, toDTok, SqlVerif.DTy.headPlain, Bool.and_eq_true]
            refine ⟨by simpa using hf.1, by simpa [bne] using hf.2⟩
          | _ =>
            exfalso
            cases f <;> cases d <;>
              simp [SqlVerif.DTy.parseDataType, toDTok, SqlVerif.DTy.parseHelper, SqlVerif.DTy.expectedAt] at hp
      have := SqlVerif.DTy.parseDataType_leafNC c.dt f d _ _ _ hh hp hl
      rw [headLeaf_toDTok, hf] at this
      simpa using this

-- non-vacuity: `VarChar ( 3 ) ==` starts with a leaf keyword
set_option maxRecDepth 200000 in
example : typeHeadLeaf [.word (str "VarChar") none (some (kwIndex "VARCHAR")), .sym .LParen, .number [51] false,
    .sym .RParen, .sym .DoubleEq] = true := by decide
end SqlVerif.Dml

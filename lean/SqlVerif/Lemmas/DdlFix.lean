import SqlVerif.Lemmas.DdlSim
import SqlVerif.Lemmas.DdlNorm
import SqlVerif.Lemmas.DdlFaith
import SqlVerif.Lemmas.DmlFix
/-!
parse → print → parse on the second statement fragment: `stmt_reparse_sub` — an accepted statement that
is `printableQ`, of `normal` shape and made of lexer-like tokens re-parses from its printed tokens (in front
of any continuation with the same image as the original one) to its normal form `s.norm`.

The new statement kinds go through the norm-invariance theorem (`parseStmt_sim2`), the yield theorem and
`stmt_inj`, exactly as in `Lemmas/DmlFix.lean`; a statement of the first fragment (`.dml s`) re-parses by
`Dml.stmt_reparse_of_faithful`, and the dispatcher of `Model/Ddl.lean` takes the same branch on the printed
tokens because they have the image of the consumed ones (`dispatch_dml_sim`).
-/
namespace SqlVerif.Ddl
open SqlVerif.Pratt SqlVerif.Query SqlVerif.Dml SqlVerif.Gen
set_option linter.unusedSimpArgs false

/-- the consumed tokens of an accepted statement are lexer-like when the input is -/
theorem stmt_flatten_tokOk (c : XCfg) (f limit : Nat) (ts : List Tok) (s : Stmt) (rest : List Tok)
    (h : parseStmt c f limit ts = .ok (s, rest)) (ht : ts.all tokOk = true) : s.flatten.all tokOk = true := by
  have y := parseStmt_yield c f limit ts s rest h
  rw [y, List.all_append, Bool.and_eq_true] at ht
  exact ht.1

/-- what the parser builds of normal shape prints as its normal form's yield -/
theorem normal_showOk (s : Stmt) (hw : s.WF) (hn : s.normal = true) : s.showOk := by
  cases s with
  | dml s0 => exact wf_headsOk s0 hw
  | _ => trivial

/-- **the dispatcher respects the image**: if `parseStmt` hands `a` to the first fragment, it hands every
list with the same image to it -/
theorem dispatch_dml_sim (c : XCfg) (f limit : Nat) {a b : List Tok} (hs : a.map qc = b.map qc) {s0 : SqlVerif.Dml.Stmt}
    {r : List Tok} (h : parseStmt c f limit a = .ok (.dml s0, r)) :
    parseStmt c f limit b = mapRes .dml (SqlVerif.Dml.parseStmt c.d f limit b) := by
  unfold parseStmt at h ⊢
  cases limit with
  | zero => simp at h
  | succ d =>
    simp only at h ⊢
    cases a with
    | nil => simp at h
    | cons t ra =>
      cases b with
      | nil => simp at hs
      | cons t' rb =>
        simp only [List.map_cons, List.cons.injEq] at hs
        obtain ⟨hq, hsr⟩ := hs
        have hk : ∀ k, t'.isKw k = t.isKw k := fun k => sim_isKw hq.symm k
        simp only [hk] at h ⊢
        split at h
        · rename_i hc
          simp only [hc, if_true]
          split at h
          · obtain ⟨v, _, hv⟩ := mapRes_ok h; cases hv
          · obtain ⟨v, _, hv⟩ := mapRes_ok h; cases hv
          · rename_i hh
            rw [createHead_sim_other hsr hh]
        · rename_i hc
          simp only [hc, if_false]
          split at h
          · obtain ⟨v, _, hv⟩ := mapRes_ok h; cases hv
          · rename_i ha
            simp only [ha, if_false]
            split at h
            · obtain ⟨v, _, hv⟩ := mapRes_ok h; cases hv
            · rename_i htr
              simp only [htr, if_false]
              split at h
              · rename_i hdr
                simp only [hdr, if_true]
                split at h
                · obtain ⟨v, _, hv⟩ := mapRes_ok h; cases hv
                · rename_i hh
                  rw [dropHead_sim_none hsr hh]
                  simp
              · rename_i hdr
                simp [hdr]

/-- an accepted `.dml` statement was accepted by the first fragment's parser -/
theorem parseStmt_dml (c : XCfg) (f limit : Nat) (ts : List Tok) (s0 : SqlVerif.Dml.Stmt) (rest : List Tok)
    (h : parseStmt c f limit ts = .ok (.dml s0, rest)) : SqlVerif.Dml.parseStmt c.d f limit ts = .ok (s0, rest) := by
  have := dispatch_dml_sim c f limit (rfl : ts.map qc = ts.map qc) h
  rw [this] at h
  obtain ⟨v, hv, he⟩ := mapRes_ok h
  cases he
  exact hv

/-- re-parsing the printed tokens in front of any continuation that looks like the original one:
if the normal form has the image of the tree, the parser reads the normal form back -/
theorem stmt_reparse_of_faithful (c : XCfg) (f limit : Nat) (ts : List Tok) (s : Stmt) (rest rest' : List Tok)
    (h : parseStmt c f limit ts = .ok (s, rest)) (hl : s.typesLeaf = true) (hn : s.normal = true)
    (hf : s.norm.mapT qc = s.mapT qc) (hr : rest.map qc = rest'.map qc) :
    parseStmt c f limit (s.showToks ++ rest') = .ok (s.norm, rest') := by
  have hw := parseStmt_wf c f limit ts s rest h
  have hshow := stmt_showToks_eq_norm s (normal_showOk s hw hn)
  have y : ts = s.flatten ++ rest := parseStmt_yield c f limit ts s rest h
  have hs : ts.map qc = (s.showToks ++ rest').map qc := by
    rw [y, hshow, List.map_append, List.map_append, ← stmt_flatten_qc, ← stmt_flatten_qc, hf, hr]
  cases s with
  | dml s0 =>
    have h0 := parseStmt_dml c f limit ts s0 rest h
    simp only [Stmt.norm, Stmt.mapT, Stmt.dml.injEq] at hf
    have := SqlVerif.Dml.stmt_reparse_of_faithful c.d f limit ts s0 rest rest' h0 hl hn hf hr
    rw [dispatch_dml_sim c f limit hs h]
    simp only [Stmt.showToks, Stmt.pieces] at this ⊢
    change mapRes Stmt.dml (SqlVerif.Dml.parseStmt c.d f limit (s0.showToks ++ rest')) = _
    rw [this]; rfl
  | _ =>
    all_goals (
      obtain ⟨s', r', h', hq', hr'⟩ := parseStmt_sim2 c f limit hs h hl (by intro s0 he; cases he)
      have y' := parseStmt_yield c f limit _ s' r' h'
      have hlen : rest'.length = r'.length := by
        have h1 := len_of_map hr'
        have h2 := len_of_map hr
        omega
      obtain ⟨a1, a2⟩ := List.append_inj' y' hlen
      have hss := stmt_inj s' _ (hq'.trans hf.symm) (by rw [← a1, hshow])
      rw [h', hss, a2])

/-- **parse → print → parse** on the statement fragment, in front of a continuation -/
theorem stmt_reparse_sub (c : XCfg) (f limit : Nat) (ts : List Tok) (s : Stmt) (rest rest' : List Tok)
    (h : parseStmt c f limit ts = .ok (s, rest)) (hp : s.printableQ = true) (hn : s.normal = true)
    (ht : ts.all tokOk = true) (hr : rest.map qc = rest'.map qc) :
    parseStmt c f limit (s.showToks ++ rest') = .ok (s.norm, rest') :=
  stmt_reparse_of_faithful c f limit ts s rest rest' h (printableQ_typesLeaf s hp) hn
    (stmt_faith s (parseStmt_wf c f limit ts s rest h) hn hp (stmt_flatten_tokOk c f limit ts s rest h ht)) hr

end SqlVerif.Ddl

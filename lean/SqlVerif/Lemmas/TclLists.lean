import SqlVerif.Lemmas.TclLemmas
import SqlVerif.Lemmas.QueryLists
/-!
The lists of the third statement fragment (`Model/Tcl.lean`) against `parse_comma_separated`:

* the value loop of `parse_set`, written in the real code as an ad-hoc `loop` around
  `is_parse_comma_separated_end`, IS `parse_comma_separated` (`setValuesLoop_eq_commaSepE`: same answer
  on every input, errors included);
* the loop of `parse_transaction_modes` is NOT: `modeElem` is its element parser, `modesLoop_comma_commits`
  says that a consumed comma commits the loop to a further mode (whatever `trailing_commas`: the function
  does not see the option), `modesLoop_no_comma` that the loop goes on without a comma.
-/
namespace SqlVerif.Tcl
open SqlVerif.Pratt SqlVerif.Query SqlVerif.Dml SqlVerif.Ddl SqlVerif.Gen

theorem eatSym_comma_cons (t : Tok) (r : List Tok) :
    eatSym (t :: r) .Comma = if t = .sym .Comma then some (t, r) else none := by
  unfold eatSym
  cases t with
  | sym s => cases s <;> simp [Tok.isSym]
  | _ => simp [Tok.isSym]

/-- **the SET value loop is `parse_comma_separated`**: the loop of the real code (a value, then
`is_parse_comma_separated_end`) and `commaSepE` over the same element parser agree on every input -/
theorem setValuesLoop_eq_commaSepE (c : TCfg) (f d : Nat) :
    ∀ (n : Nat) (ts : List Tok), setValuesLoop c f d n ts = commaSepE c.tc (setValue c f d) n ts := by
  intro n
  induction n with
  | zero => intro ts; rfl
  | succ n ih =>
    intro ts
    simp only [setValuesLoop, commaSepE]
    cases hv : setValue c f d ts with
    | error er => rfl
    | ok p =>
      obtain ⟨v, rest⟩ := p
      simp only
      cases rest with
      | nil => simp [eatSym]
      | cons t r =>
        rw [eatSym_comma_cons]
        by_cases ht : t = .sym .Comma
        · subst ht
          simp only [if_true]
          rw [ih]
          split
          · rfl
          · cases commaSepE c.tc (setValue c f d) n r with
            | error er => rfl
            | ok p => rfl
        · simp only [ht, if_false]
          split
          · rename_i r' heq
            simp at heq; exact (ht heq.1).elim
          · rfl

/-- the element parser of the loop of `parse_transaction_modes` -/
def modeElem (ts : List Tok) : Res TMode :=
  match modeHead ts with
  | .error er => .error er
  | .ok (none, _) => .error (syn "transaction mode")
  | .ok (some m, r) => .ok (m, r)

/-- **a comma commits the loop to a further mode**: after `mode ,` a token list that begins no mode is an
error — for every fuel, whether or not a mode was required, and whatever the `trailing_commas` option
(the loop has no access to it) -/
theorem modesLoop_comma_commits (n : Nat) (req : Bool) (ts : List Tok) (m : TMode) (cm : Tok) (r r' : List Tok)
    (h1 : modeHead ts = .ok (some m, cm :: r)) (hc : cm.isSym .Comma = true) (h2 : modeHead r = .ok (none, r')) :
    modesLoop (n + 2) req ts = .error (syn "transaction mode") := by
  simp [modesLoop, h1, eatSym, hc, h2]

/-- **the comma is optional**: when no comma follows a mode the loop simply goes on -/
theorem modesLoop_no_comma (n : Nat) (req : Bool) (ts : List Tok) (m : TMode) (r : List Tok)
    (h1 : modeHead ts = .ok (some m, r)) (hc : eatSym r .Comma = none) :
    modesLoop (n + 1) req ts =
      (match modesLoop n false r with
       | .error er => .error er
       | .ok (ms, r2) => .ok ((m, []) :: ms, r2)) := by
  cases hm : modesLoop n false r <;> simp [modesLoop, h1, hc, hm]

/-- with a comma the next round requires a mode -/
theorem modesLoop_comma (n : Nat) (req : Bool) (ts : List Tok) (m : TMode) (cm : Tok) (r : List Tok)
    (h1 : modeHead ts = .ok (some m, cm :: r)) (hc : cm.isSym .Comma = true) :
    modesLoop (n + 1) req ts =
      (match modesLoop n true r with
       | .error er => .error er
       | .ok (ms, r2) => .ok ((m, [cm]) :: ms, r2)) := by
  cases hm : modesLoop n true r <;> simp [modesLoop, h1, eatSym, hc, hm]

/-- no mode ahead and none required: the empty list -/
theorem modesLoop_none (n : Nat) (ts r : List Tok) (h1 : modeHead ts = .ok (none, r)) :
    modesLoop (n + 1) false ts = .ok ([], ts) := by
  simp [modesLoop, h1]

end SqlVerif.Tcl

import SqlVerif.Lemmas.TclFixBase
import SqlVerif.Lemmas.DdlExt
/-! Inversion of the dispatcher of `Model/Tcl.lean` (a `.ddl` tree comes from the second model only) and the C01
fixpoint for the statements of the first two fragments through this dispatcher (`stmt_reparse_ddl`). -/
namespace SqlVerif.Tcl
open SqlVerif.Pratt SqlVerif.Query SqlVerif.Dml SqlVerif.Ddl SqlVerif.Gen

/-- a statement of the first two fragments -/
def Stmt.isDdl : Stmt → Bool
  | .ddl _ => true
  | _ => false

theorem parseStart_notDdl {f : Nat} {kw : Tok} {ts : List Tok} {s : Stmt} {rest : List Tok}
    (h : parseStart f kw ts = .ok (s, rest)) : s.isDdl = false := by
  unfold parseStart at h
  repeat' (split at h)
  all_goals (first | (simp at h; done) | (simp at h; obtain ⟨rfl, -⟩ := h; rfl))
theorem parseBegin_notDdl {c : TCfg} {f : Nat} {kw : Tok} {ts : List Tok} {s : Stmt} {rest : List Tok}
    (h : parseBegin c f kw ts = .ok (s, rest)) : s.isDdl = false := by
  unfold parseBegin at h
  repeat' (split at h)
  all_goals (first | (simp at h; done) | (simp at h; obtain ⟨rfl, -⟩ := h; rfl))
theorem parseCommit_notDdl {kw : Tok} {ts : List Tok} {s : Stmt} {rest : List Tok}
    (h : parseCommit kw ts = .ok (s, rest)) : s.isDdl = false := by
  unfold parseCommit at h
  repeat' (split at h)
  all_goals (first | (simp at h; done) | (simp at h; obtain ⟨rfl, -⟩ := h; rfl))
theorem parseRollback_notDdl {kw : Tok} {ts : List Tok} {s : Stmt} {rest : List Tok}
    (h : parseRollback kw ts = .ok (s, rest)) : s.isDdl = false := by
  unfold parseRollback at h
  repeat' (split at h)
  all_goals (first | (simp at h; done) | (simp at h; obtain ⟨rfl, -⟩ := h; rfl))
theorem parseSavepoint_notDdl {kw : Tok} {ts : List Tok} {s : Stmt} {rest : List Tok}
    (h : parseSavepoint kw ts = .ok (s, rest)) : s.isDdl = false := by
  unfold parseSavepoint at h
  repeat' (split at h)
  all_goals (first | (simp at h; done) | (simp at h; obtain ⟨rfl, -⟩ := h; rfl))
theorem parseRelease_notDdl {kw : Tok} {ts : List Tok} {s : Stmt} {rest : List Tok}
    (h : parseRelease kw ts = .ok (s, rest)) : s.isDdl = false := by
  unfold parseRelease at h
  repeat' (split at h)
  all_goals (first | (simp at h; done) | (simp at h; obtain ⟨rfl, -⟩ := h; rfl))
theorem parseUse_notDdl {c : TCfg} {kw : Tok} {ts : List Tok} {s : Stmt} {rest : List Tok}
    (h : parseUse c kw ts = .ok (s, rest)) : s.isDdl = false := by
  unfold parseUse at h
  repeat' (split at h)
  all_goals (first | (simp at h; done) | (simp at h; obtain ⟨rfl, -⟩ := h; rfl))
theorem parseDiscard_notDdl {kw : Tok} {ts : List Tok} {s : Stmt} {rest : List Tok}
    (h : parseDiscard kw ts = .ok (s, rest)) : s.isDdl = false := by
  unfold parseDiscard at h
  repeat' (split at h)
  all_goals (first | (simp at h; done) | (simp at h; obtain ⟨rfl, -⟩ := h; rfl))
theorem parseDeallocate_notDdl {kw : Tok} {ts : List Tok} {s : Stmt} {rest : List Tok}
    (h : parseDeallocate kw ts = .ok (s, rest)) : s.isDdl = false := by
  unfold parseDeallocate at h
  repeat' (split at h)
  all_goals (first | (simp at h; done) | (simp at h; obtain ⟨rfl, -⟩ := h; rfl))
theorem parseClose_notDdl {kw : Tok} {ts : List Tok} {s : Stmt} {rest : List Tok}
    (h : parseClose kw ts = .ok (s, rest)) : s.isDdl = false := by
  unfold parseClose at h
  repeat' (split at h)
  all_goals (first | (simp at h; done) | (simp at h; obtain ⟨rfl, -⟩ := h; rfl))
theorem parseAssert_notDdl {c : TCfg} {f d : Nat} {kw : Tok} {ts : List Tok} {s : Stmt} {rest : List Tok}
    (h : parseAssert c f d kw ts = .ok (s, rest)) : s.isDdl = false := by
  unfold parseAssert at h
  repeat' (split at h)
  all_goals (first | (simp at h; done) | (simp at h; obtain ⟨rfl, -⟩ := h; rfl))
theorem parseAssert_notFix {c : TCfg} {f d : Nat} {kw : Tok} {ts : List Tok} {s : Stmt} {rest : List Tok}
    (h : parseAssert c f d kw ts = .ok (s, rest)) : s.fixKind = false := by
  unfold parseAssert at h
  repeat' (split at h)
  all_goals (first | (simp at h; done) | (simp at h; obtain ⟨rfl, -⟩ := h; rfl))
theorem parseSetRole_notDdl {kw : Tok} {md : List Tok} {rk : Tok} {ts : List Tok} {s : Stmt} {rest : List Tok}
    (h : parseSetRole kw md rk ts = .ok (s, rest)) : s.isDdl = false := by
  unfold parseSetRole at h
  repeat' (split at h)
  all_goals (first | (simp at h; done) | (simp at h; obtain ⟨rfl, -⟩ := h; rfl))
theorem parseSetNames_notDdl {kw : Tok} {md colon name ts : List Tok} {s : Stmt} {rest : List Tok}
    (h : parseSetNames kw md colon name ts = .ok (s, rest)) : s.isDdl = false := by
  unfold parseSetNames at h
  repeat' (split at h)
  all_goals (first | (simp at h; done) | (simp at h; obtain ⟨rfl, -⟩ := h; rfl))
theorem parseSetValues_notDdl {c : TCfg} {f d : Nat} {kw : Tok} {md colon : List Tok} {tg : SetTarget} {eq : Tok} {ts : List Tok}
    {s : Stmt} {rest : List Tok} (h : parseSetValues c f d kw md colon tg eq ts = .ok (s, rest)) : s.isDdl = false := by
  unfold parseSetValues at h
  repeat' (split at h)
  all_goals (first | (simp at h; done) | (simp at h; obtain ⟨rfl, -⟩ := h; rfl))
theorem parseSetCharacteristics_notDdl {f : Nat} {kw : Tok} {md colon name ts : List Tok} {s : Stmt} {rest : List Tok}
    (h : parseSetCharacteristics f kw md colon name ts = .ok (s, rest)) : s.isDdl = false := by
  unfold parseSetCharacteristics at h
  repeat' (split at h)
  all_goals (first | (simp at h; done) | (simp at h; obtain ⟨rfl, -⟩ := h; rfl))
theorem parseSetTransaction_notDdl {f : Nat} {kw : Tok} {md colon name ts : List Tok} {s : Stmt} {rest : List Tok}
    (h : parseSetTransaction f kw md colon name ts = .ok (s, rest)) : s.isDdl = false := by
  unfold parseSetTransaction at h
  repeat' (split at h)
  all_goals (first | (simp at h; done) | (simp at h; obtain ⟨rfl, -⟩ := h; rfl))

theorem parseSetOther_notDdl {c : TCfg} {f d : Nat} {kw : Tok} {md colon : List Tok} {tg : SetTarget} {ts : List Tok}
    {s : Stmt} {rest : List Tok} (h : parseSetOther c f d kw md colon tg ts = .ok (s, rest)) : s.isDdl = false := by
  unfold parseSetOther at h
  split at h
  · simp at h
  · split at h
    · split at h
      · simp at h
      · simp at h; obtain ⟨rfl, -⟩ := h; rfl
    · split at h
      · exact parseSetCharacteristics_notDdl h
      · split at h
        · exact parseSetTransaction_notDdl h
        · simp at h

theorem parseSetVar_notDdl {c : TCfg} {f d : Nat} {kw : Tok} {md colon ts : List Tok} {s : Stmt} {rest : List Tok}
    (h : parseSetVar c f d kw md colon ts = .ok (s, rest)) : s.isDdl = false := by
  unfold parseSetVar at h
  split at h
  · simp at h
  · split at h
    · exact parseSetNames_notDdl h
    · split at h
      · exact parseSetValues_notDdl h
      · exact parseSetOther_notDdl h

theorem parseSet_notDdl {c : TCfg} {f d : Nat} {kw : Tok} {ts : List Tok} {s : Stmt} {rest : List Tok}
    (h : parseSet c f d kw ts = .ok (s, rest)) : s.isDdl = false := by
  unfold parseSet parseSetTail at h
  split at h
  · exact parseSetRole_notDdl h
  · split at h
    · simp at h
    · exact parseSetVar_notDdl h

/-- a `.ddl` result comes from the second model, on a first token that is none of the thirteen keywords -/
theorem parseStmt_ddl_inv (c : TCfg) (f limit : Nat) (ts : List Tok) (s0 : SqlVerif.Ddl.Stmt) (rest : List Tok)
    (h : parseStmt c f limit ts = .ok (.ddl s0, rest)) : SqlVerif.Ddl.parseStmt c.x f limit ts = .ok (s0, rest) := by
  unfold parseStmt at h
  cases limit with
  | zero => simp at h
  | succ d =>
    simp only at h
    cases ts with
    | nil => simp at h
    | cons t r =>
      simp only at h
      by_cases h1 : t.isKw TK.START = true
      · rw [if_pos h1] at h; exact absurd (parseStart_notDdl h) (by simp [Stmt.isDdl])
      rw [if_neg h1] at h
      by_cases h2 : t.isKw TK.BEGIN = true
      · rw [if_pos h2] at h; exact absurd (parseBegin_notDdl h) (by simp [Stmt.isDdl])
      rw [if_neg h2] at h
      by_cases h3 : t.isKw TK.END_ = true
      · rw [if_pos h3] at h; exact absurd (parseCommit_notDdl h) (by simp [Stmt.isDdl])
      rw [if_neg h3] at h
      by_cases h4 : t.isKw TK.COMMIT = true
      · rw [if_pos h4] at h; exact absurd (parseCommit_notDdl h) (by simp [Stmt.isDdl])
      rw [if_neg h4] at h
      by_cases h5 : t.isKw TK.ROLLBACK = true
      · rw [if_pos h5] at h; exact absurd (parseRollback_notDdl h) (by simp [Stmt.isDdl])
      rw [if_neg h5] at h
      by_cases h6 : t.isKw TK.SAVEPOINT = true
      · rw [if_pos h6] at h; exact absurd (parseSavepoint_notDdl h) (by simp [Stmt.isDdl])
      rw [if_neg h6] at h
      by_cases h7 : t.isKw TK.RELEASE = true
      · rw [if_pos h7] at h; exact absurd (parseRelease_notDdl h) (by simp [Stmt.isDdl])
      rw [if_neg h7] at h
      by_cases h8 : t.isKw TK.SET = true
      · rw [if_pos h8] at h; exact absurd (parseSet_notDdl h) (by simp [Stmt.isDdl])
      rw [if_neg h8] at h
      by_cases h9 : t.isKw TK.USE = true
      · rw [if_pos h9] at h; exact absurd (parseUse_notDdl h) (by simp [Stmt.isDdl])
      rw [if_neg h9] at h
      by_cases h10 : t.isKw TK.DISCARD = true
      · rw [if_pos h10] at h; exact absurd (parseDiscard_notDdl h) (by simp [Stmt.isDdl])
      rw [if_neg h10] at h
      by_cases h11 : t.isKw TK.DEALLOCATE = true
      · rw [if_pos h11] at h; exact absurd (parseDeallocate_notDdl h) (by simp [Stmt.isDdl])
      rw [if_neg h11] at h
      by_cases h12 : t.isKw TK.CLOSE = true
      · rw [if_pos h12] at h; exact absurd (parseClose_notDdl h) (by simp [Stmt.isDdl])
      rw [if_neg h12] at h
      by_cases h13 : t.isKw TK.ASSERT = true
      · rw [if_pos h13] at h; exact absurd (parseAssert_notDdl h) (by simp [Stmt.isDdl])
      rw [if_neg h13] at h
      obtain ⟨v, hv, hs⟩ := mapRes_ok h
      simp only [Stmt.ddl.injEq] at hs
      rw [hs]; exact hv

/-- **the fixpoint for the statements of the first two fragments, through this dispatcher**: what
`Ddl.stmt_reparse_sub` proves for `Ddl.parseStmt` holds for `Tcl.parseStmt` on the printed tokens -/
theorem stmt_reparse_ddl (c : TCfg) (f limit : Nat) (ts : List Tok) (s0 : SqlVerif.Ddl.Stmt) (rest rest' : List Tok)
    (h : parseStmt c f limit ts = .ok (.ddl s0, rest)) (hp : s0.printableQ = true) (hn : s0.normal = true)
    (ht : ts.all tokOk = true) (hr : rest.map qc = rest'.map qc) :
    parseStmt c f limit ((Stmt.ddl s0).showToks ++ rest') = .ok ((Stmt.ddl s0).norm, rest') := by
  have h0 := parseStmt_ddl_inv c f limit ts s0 rest h
  have h1 := SqlVerif.Ddl.stmt_reparse_sub c.x f limit ts s0 rest rest' h0 hp hn ht hr
  obtain ⟨t, r, hs, -⟩ := SqlVerif.Ddl.parseStmt_starts c.x f limit _ _ _ h1
  have hs' : (Stmt.ddl s0).showToks ++ rest' = t :: r := hs
  rw [hs'] at ⊢
  rw [hs] at h1
  cases limit with
  | zero => simp [SqlVerif.Ddl.parseStmt] at h1
  | succ d =>
    rw [dispatch_ddl c f d t r (ddl_head_foreign c.x f (d + 1) t r _ _ h1), h1]
    rfl

end SqlVerif.Tcl

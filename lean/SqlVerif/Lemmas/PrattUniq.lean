import SqlVerif.Lemmas.PrattLemmas
/-!
Part 3 of the Pratt lemmas: uniqueness of the well-shaped bracketing for trees made of identifiers
and binary operators (`unique_pure`), independent of the parser.
-/
namespace SqlVerif.Pratt

/-- operand token of a pure chain: a word that is not a keyword (quoted or not) -/
def atomTok : Tok → Bool
  | .word _ _ none => true
  | _ => false

/-- the binary operator a token denotes in `parse_infix` (MySQL `DIV` included) -/
def infixOp (c : Cfg) (t : Tok) : Option BinOp :=
  if c.isMySql && t.kwc = .div then some .MyIntegerDivide
  else match binOpOf c t with
    | .op o => some o
    | _ => none

/-- trees built from identifiers and binary operators only -/
inductive PureInfix (c : Cfg) : Expr → Prop
  | atom (t : Tok) : atomTok t = true → PureInfix c (.atom .ident [t])
  | bin (o : BinOp) (l : Expr) (t : Tok) (r : Expr) :
      infixOp c t = some o → PureInfix c l → PureInfix c r → PureInfix c (.bin (.op o) l [t] r)

def opsOf : Expr → List Tok
  | .bin _ l ops r => opsOf l ++ ops ++ opsOf r
  | _ => []

def lv (c : Cfg) (t : Tok) : Nat := nextPrec c [t]

theorem atomTok_infixOp (c : Cfg) (t : Tok) (h : atomTok t = true) : infixOp c t = none := by
  cases t <;> simp [atomTok] at h
  rename_i v q kw
  cases kw <;> simp at h
  simp [infixOp, Tok.kwc, binOpOf]

theorem pure_flatten_ne_nil {c : Cfg} {e : Expr} (h : PureInfix c e) : e.flatten ≠ [] := by
  cases h <;> simp [Expr.flatten]

/-- every token of the yield is an operand or one of the tree's operators -/
theorem pure_mem_flatten {c : Cfg} {e : Expr} (h : PureInfix c e) :
    ∀ s ∈ e.flatten, atomTok s = true ∨ s ∈ opsOf e := by
  induction h with
  | atom t ht => intro s hs; simp [Expr.flatten] at hs; subst hs; exact Or.inl ht
  | bin o l t r ho hl hr ihl ihr =>
    intro s hs
    simp [Expr.flatten] at hs
    simp [opsOf]
    rcases hs with hs | rfl | hs
    · rcases ihl s hs with h | h <;> simp [h]
    · simp
    · rcases ihr s hs with h | h <;> simp [h]

theorem pure_op_mem {c : Cfg} {e : Expr} (h : PureInfix c e) (s : Tok) (hs : s ∈ e.flatten)
    (ho : infixOp c s ≠ none) : s ∈ opsOf e := by
  rcases pure_mem_flatten h s hs with h1 | h1
  · exact absurd (atomTok_infixOp c s h1) ho
  · exact h1

/-- in a well-shaped pure tree every operator binds at least as tightly as the root -/
theorem pure_ops_ge_root {c : Cfg} {e : Expr} (h : PureInfix c e) (w : WellShaped c e) :
    ∀ s ∈ opsOf e, e.level c ≤ lv c s := by
  induction h with
  | atom t ht => simp [opsOf]
  | bin o l t r ho hl hr ihl ihr =>
    obtain ⟨wl, wr, w1, w2⟩ := w
    intro s hs
    simp [opsOf] at hs
    simp only [Expr.level, binLevel]
    rcases hs with hs | rfl | hs
    · have := ihl w1 s hs
      cases hl with
      | atom => simp [opsOf] at hs
      | bin o' l' t' r' =>
        have := wl (binLevel c (.op o') [t']) (by simp [rightOpen])
        simp [Expr.level, binLevel] at *
        omega
    · simp [lv]
    · have := ihr w2 s hs
      cases hr with
      | atom => simp [opsOf] at hs
      | bin o' l' t' r' =>
        have := wr (binLevel c (.op o') [t']) (by simp [leftOpen])
        simp [Expr.level, binLevel] at *
        omega

theorem pure_ops_left {c : Cfg} {o : BinOp} {l r : Expr} {t : Tok}
    (h : PureInfix c (.bin (.op o) l [t] r)) (w : WellShaped c (.bin (.op o) l [t] r)) :
    (∀ s ∈ opsOf l, lv c t ≤ lv c s) ∧ (∀ s ∈ opsOf r, lv c t < lv c s) := by
  cases h with
  | bin _ _ _ _ ho hl hr =>
  obtain ⟨wl, wr, w1, w2⟩ := w
  constructor
  · intro s hs
    have := pure_ops_ge_root hl w1 s hs
    cases hl with
    | atom => simp [opsOf] at hs
    | bin o' l' t' r' =>
      have := wl (binLevel c (.op o') [t']) (by simp [rightOpen])
      simp [Expr.level, binLevel, lv] at *
      omega
  · intro s hs
    have := pure_ops_ge_root hr w2 s hs
    cases hr with
    | atom => simp [opsOf] at hs
    | bin o' l' t' r' =>
      have := wr (binLevel c (.op o') [t']) (by simp [leftOpen])
      simp [Expr.level, binLevel, lv] at *
      omega

/-- two well-shaped trees over identifiers and binary operators with the same yield are equal -/
theorem unique_pure (c : Cfg) (e1 : Expr) (h1 : PureInfix c e1) :
    ∀ e2, PureInfix c e2 → WellShaped c e1 → WellShaped c e2 → e1.flatten = e2.flatten → e1 = e2 := by
  induction h1 with
  | atom t ht =>
    intro e2 h2 _ _ hf
    cases h2 with
    | atom t2 _ => simp [Expr.flatten] at hf; subst hf; rfl
    | bin o2 l2 t2 r2 _ hl2 _ =>
      have := pure_flatten_ne_nil hl2
      simp [Expr.flatten] at hf
      cases hl : l2.flatten <;> simp_all
  | bin o l t r ho hl hr ihl ihr =>
    intro e2 h2 w1 w2 hf
    cases h2 with
    | atom t2 _ =>
      have := pure_flatten_ne_nil hl
      simp [Expr.flatten] at hf
      cases hl' : l.flatten <;> simp_all
    | bin o2 l2 t2 r2 ho2 hl2 hr2 =>
      have p1 := pure_ops_left (PureInfix.bin o l t r ho hl hr) w1
      have p2 := pure_ops_left (PureInfix.bin o2 l2 t2 r2 ho2 hl2 hr2) w2
      simp only [Expr.flatten, List.append_assoc, List.singleton_append] at hf
      rcases List.append_eq_append_iff.1 hf with ⟨a, ha1, ha2⟩ | ⟨a, ha1, ha2⟩
      · cases a with
        | nil =>
          simp at ha1 ha2
          obtain ⟨rfl, hr'⟩ := ha2
          have e1 := ihl l2 hl2 w1.2.2.1 w2.2.2.1 ha1.symm
          have e2 := ihr r2 hr2 w1.2.2.2 w2.2.2.2 hr'
          subst e1 e2
          have : o = o2 := by rw [ho] at ho2; exact Option.some.inj ho2
          subst this; rfl
        | cons x a =>
          simp at ha2
          obtain ⟨rfl, ha2⟩ := ha2
          -- t is inside l2, t2 is inside r
          have m1 : t ∈ opsOf l2 := pure_op_mem hl2 t (by rw [ha1]; simp) (by simp [ho])
          have m2 : t2 ∈ opsOf r := pure_op_mem hr t2 (by rw [ha2]; simp) (by simp [ho2])
          have := p2.1 t m1
          have := p1.2 t2 m2
          omega
      · cases a with
        | nil =>
          simp at ha1 ha2
          obtain ⟨rfl, hr'⟩ := ha2
          have e1 := ihl l2 hl2 w1.2.2.1 w2.2.2.1 ha1
          have e2 := ihr r2 hr2 w1.2.2.2 w2.2.2.2 hr'.symm
          subst e1 e2
          have : o = o2 := by rw [ho] at ho2; exact Option.some.inj ho2
          subst this; rfl
        | cons x a =>
          simp at ha2
          obtain ⟨rfl, ha2⟩ := ha2
          have m1 : t2 ∈ opsOf l := pure_op_mem hl t2 (by rw [ha1]; simp) (by simp [ho2])
          have m2 : t ∈ opsOf r2 := pure_op_mem hr2 t (by rw [ha2]; simp) (by simp [ho])
          have := p1.1 t2 m1
          have := p2.2 t m2
          omega

end SqlVerif.Pratt

import SqlVerif.Lemmas.DmlLemmas
import SqlVerif.Lemmas.QuerySim
/-!
The statement model (`Model/Dml.lean`) respects the token image `qc` of `Lemmas/QuerySim.lean`.

Every parser function `F` of the model outside the `UPDATE` assignments and the column types of
`CREATE TABLE` satisfies `Rel2 M (F ts) (F (ts.map qc))` (same branches on a token list and on its
image, the image of the tree, the image of the rest).  Two places of the statement grammar see more
of a token than `qc` keeps:

* `parse_assignment` expects the token `=`; `==` (which `qc` identifies with `=`, as the expression
  parser does) is rejected there;
* a column type whose first word is not a keyword of the data-type grammar is a custom type name,
  stored with its spelling (`a year` / `a YEAR`).

These are treated in `Lemmas/DmlSim2.lean` in the two-list form with the side conditions they need.
-/
namespace SqlVerif.Dml
open SqlVerif.Pratt SqlVerif.Query SqlVerif.Gen
set_option linter.unusedSimpArgs false

-- ------------------------------------------------------------------ images of statement trees
def Row.mapT (m : Tok → Tok) (r : Row) : Row := ⟨r.rowKw.map m, m r.lp, sepMap (Expr.mapT m) m r.exprs, m r.rp⟩

def ValuesQ.mapT (m : Tok → Tok) (v : ValuesQ) : ValuesQ := ⟨m v.kw, sepMap (Row.mapT m) m v.rows, v.tail.mapT m⟩

def Source.mapT (m : Tok → Tok) : Source → Source
  | .query q => .query (q.mapT m)
  | .values v => .values (v.mapT m)

def ParenIds.mapT (m : Tok → Tok) (p : ParenIds) : ParenIds := ⟨p.lp.map m, sepMap m m p.ids, p.rp.map m⟩

def InsSource.mapT (m : Tok → Tok) : InsSource → InsSource
  | .defaultValues toks => .defaultValues (toks.map m)
  | .source s => .source (s.mapT m)

def Insert.mapT (m : Tok → Tok) (i : Insert) : Insert :=
  ⟨m i.kw, i.into.map m, i.tableKw.map m, i.name.map m, i.cols.mapT m, i.src.mapT m, i.retKw.map m,
   sepMap (SelectItem.mapT m) m i.returning⟩

def AssignTarget.mapT (m : Tok → Tok) : AssignTarget → AssignTarget
  | .col name => .col (name.map m)
  | .tuple lp names rp => .tuple (m lp) (sepMap (List.map m) m names) (m rp)

def Assign.mapT (m : Tok → Tok) (a : Assign) : Assign := ⟨a.target.mapT m, m a.eq, a.value.mapT m⟩

def Update.mapT (m : Tok → Tok) (u : Update) : Update :=
  ⟨u.table.mapT m, m u.setKw, sepMap (Assign.mapT m) m u.assigns, u.fromKw.map m, u.frm.mapT m, u.whereKw.map m,
   u.selection.map (Expr.mapT m), u.retKw.map m, sepMap (SelectItem.mapT m) m u.returning⟩

def Delete.mapT (m : Tok → Tok) (d : Delete) : Delete :=
  ⟨m d.kw, sepMap (List.map m) m d.tables, d.frm.mapT m, d.usng.mapT m, d.whereKw.map m, d.selection.map (Expr.mapT m),
   d.retKw.map m, sepMap (SelectItem.mapT m) m d.returning, d.orderKw.map m, sepMap (OrderByExpr.mapT m) m d.order,
   d.limitKw.map m, d.limit.map (Expr.mapT m)⟩

def ColOpt.mapT (m : Tok → Tok) : ColOpt → ColOpt
  | .null t => .null (m t)
  | .notNull toks => .notNull (toks.map m)
  | .default kw e => .default (m kw) (e.mapT m)
  | .primaryKey toks => .primaryKey (toks.map m)
  | .unique t => .unique (m t)
  | .check kw lp e rp => .check (m kw) (m lp) (e.mapT m) (m rp)
  | .comment kw s => .comment (m kw) (m s)
  | .dialect t => .dialect (m t)
  | .references kw name cols => .references (m kw) (name.map m) (cols.mapT m)

/-- the data type itself is kept (it holds no tokens) -/
def ColDef.mapT (m : Tok → Tok) (cd : ColDef) : ColDef :=
  ⟨m cd.name, cd.ty, cd.tyToks.map m, cd.opts.map (ColOpt.mapT m), cd.dropped.map m⟩

def CreateTable.mapT (m : Tok → Tok) (ct : CreateTable) : CreateTable :=
  ⟨m ct.kw, ct.temp.map m, m ct.tableKw, ct.ifne.map m, ct.name.map m, ct.lp.map m, sepMap (ColDef.mapT m) m ct.cols,
   ct.rp.map m⟩

def Drop.mapT (m : Tok → Tok) (d : Drop) : Drop :=
  ⟨m d.kw, m d.tableKw, d.ifExists.map m, sepMap (List.map m) m d.names, d.cascade.map m, d.restrict.map m, d.purge.map m⟩

def Stmt.mapT (m : Tok → Tok) : Stmt → Stmt
  | .query s => .query (s.mapT m)
  | .insert i => .insert (i.mapT m)
  | .update u => .update (u.mapT m)
  | .delete d => .delete (d.mapT m)
  | .createTable ct => .createTable (ct.mapT m)
  | .drop d => .drop (d.mapT m)

-- ------------------------------------------------------------------ small helpers
theorem kwTail_qc (k : Nat) (ts : List Tok) : kwTail k (ts.map qc) = mp (List.map qc) (kwTail k ts) := by
  unfold kwTail
  rw [eatKw_qc]
  cases eatKw ts k <;> simp [mp]

theorem kwsTail_qc (ks : List Nat) (ts : List Tok) : kwsTail ks (ts.map qc) = mp (List.map qc) (kwsTail ks ts) := by
  unfold kwsTail
  rw [eatKws_qc]
  cases eatKws ts ks <;> simp [mp]

theorem tempTail_qc (ts : List Tok) : tempTail (ts.map qc) = mp (List.map qc) (tempTail ts) := by
  unfold tempTail
  rw [eatKw_qc]
  cases eatKw ts DK.TEMP <;> simp [mp, kwTail_qc]

theorem nameElem_qc (ts : List Tok) : Rel2 (List.map qc) (nameElem ts) (nameElem (ts.map qc)) := by
  have := objectName_qc [] ts
  simpa [nameElem] using this

theorem bqDotted_qc (c : DCfg) (name : List Tok) : bqDotted c (name.map qc) = bqDotted c name := by
  have := bigQueryNameForeign_qc name []
  simp only [List.map_nil] at this
  simp [bqDotted, this]

theorem anyDotted_qc (c : DCfg) (names : Sep (List Tok)) :
    anyDotted c (sepMap (List.map qc) qc names) = anyDotted c names := by
  simp [anyDotted, sepMap, List.any_map, Function.comp_def, bqDotted_qc]

theorem setOpAhead_qc (ts : List Tok) : setOpAhead (ts.map qc) = setOpAhead ts := peekAnyKw_qc _ _

theorem LP_ne : Sym.LParen ≠ .Eq ∧ Sym.LParen ≠ .DoubleEq := by decide
theorem RP_ne : Sym.RParen ≠ .Eq ∧ Sym.RParen ≠ .DoubleEq := by decide
theorem CM_ne : Sym.Comma ≠ .Eq ∧ Sym.Comma ≠ .DoubleEq := by decide

theorem eatLP_qc (ts : List Tok) : eatSym (ts.map qc) .LParen = (eatSym ts .LParen).map (mp qc) :=
  eatSym_qc ts _ LP_ne.1 LP_ne.2
theorem eatRP_qc (ts : List Tok) : eatSym (ts.map qc) .RParen = (eatSym ts .RParen).map (mp qc) :=
  eatSym_qc ts _ RP_ne.1 RP_ne.2
theorem eatCM_qc (ts : List Tok) : eatSym (ts.map qc) .Comma = (eatSym ts .Comma).map (mp qc) :=
  eatSym_qc ts _ CM_ne.1 CM_ne.2
theorem peekLP_qc (ts : List Tok) : peekSym (ts.map qc) .LParen = peekSym ts .LParen :=
  peekSym_qc ts _ LP_ne.1 LP_ne.2

/-- the `if b then eatSym r s else none` idiom -/
theorem condEat_qc (b : Bool) (r : List Tok) (s : Sym) (h1 : s ≠ .Eq) (h2 : s ≠ .DoubleEq) :
    (if b then eatSym (r.map qc) s else none) = (if b then eatSym r s else none).map (mp qc) := by
  cases b <;> simp [eatSym_qc _ _ h1 h2]

-- ------------------------------------------------------------------ VALUES
theorem rowBody_qc (c : DCfg) (f d : Nat) (rk ts : List Tok) :
    Rel2 (Row.mapT qc) (rowBody c f d rk ts) (rowBody c f d (rk.map qc) (ts.map qc)) := by
  unfold rowBody
  rw [eatLP_qc]
  cases h : eatSym ts .LParen with
  | none => simp
  | some p =>
    obtain ⟨lp, r⟩ := p
    simp only [Option.map_some, mp]
    rw [condEat_qc _ _ _ RP_ne.1 RP_ne.2]
    cases h2 : (if c.isMySql then eatSym r .RParen else none) with
    | some p2 => obtain ⟨rp, r'⟩ := p2; simp [mp, Row.mapT, sepMap]
    | none =>
      simp only [Option.map_none]
      rcases (commaSepE_qc c.tc _ _ _ (parseE_qc c.q f d) f r).elim with ⟨es, r1, h3, h4⟩ | ⟨er, er', h3, h4⟩
      · rw [h3, h4]
        simp only [eatRP_qc]
        cases h5 : eatSym r1 .RParen with
        | none => simp
        | some p3 => obtain ⟨rp, r2⟩ := p3; simp [mp, Row.mapT]
      · rw [h3, h4]; simp

theorem valuesRow_qc (c : DCfg) (f d : Nat) (ts : List Tok) :
    Rel2 (Row.mapT qc) (valuesRow c f d ts) (valuesRow c f d (ts.map qc)) := by
  unfold valuesRow
  rw [kwTail_qc]
  exact rowBody_qc c f d _ _

theorem valuesQuery_qc (c : DCfg) (f d : Nat) (kw : Tok) (ts : List Tok) :
    Rel2 (ValuesQ.mapT qc) (valuesQuery c f d kw ts) (valuesQuery c f d (qc kw) (ts.map qc)) := by
  unfold valuesQuery
  cases d with
  | zero => simp
  | succ d =>
    simp only
    rcases (commaSepE_qc c.tc _ _ _ (valuesRow_qc c f d) f ts).elim with ⟨rows, r1, h1, h2⟩ | ⟨er, er', h1, h2⟩
    · rw [h1, h2]
      simp only [setOpAhead_qc]
      split
      · simp
      · rcases (queryTail_qc c.q f d r1).elim with ⟨qt, r2, h3, h4⟩ | ⟨er, er', h3, h4⟩
        · rw [h3, h4]; simp [mp, ValuesQ.mapT]
        · rw [h3, h4]; simp
    · rw [h1, h2]; simp

theorem parseSource_qc (c : DCfg) (f d : Nat) (ts : List Tok) :
    Rel2 (Source.mapT qc) (parseSource c f d ts) (parseSource c f d (ts.map qc)) := by
  unfold parseSource
  rw [eatKw_qc]
  cases h : eatKw ts DK.VALUES with
  | some p =>
    obtain ⟨kw, r⟩ := p
    simp only [Option.map_some, mp]
    rcases (valuesQuery_qc c f d kw r).elim with ⟨v, r', h1, h2⟩ | ⟨er, er', h1, h2⟩
    · rw [h1, h2]; simp [mp, Source.mapT]
    · rw [h1, h2]; simp
  | none =>
    simp only [Option.map_none]
    rcases ((query_qc_all c.q f).1 d ts).elim with ⟨q, r', h1, h2⟩ | ⟨er, er', h1, h2⟩
    · rw [h1, h2]; simp [mp, Source.mapT]
    · rw [h1, h2]; simp

-- ------------------------------------------------------------------ shared clauses
theorem parenIds_qc (c : DCfg) (f : Nat) (ae : Bool) (ts : List Tok) :
    Rel2 (ParenIds.mapT qc) (parenIds c f ae ts) (parenIds c f ae (ts.map qc)) := by
  unfold parenIds
  rw [eatLP_qc]
  cases h : eatSym ts .LParen with
  | none => simp [mp, ParenIds.mapT, ParenIds.none, sepMap]
  | some p =>
    obtain ⟨lp, r⟩ := p
    simp only [Option.map_some, mp]
    rw [condEat_qc _ _ _ RP_ne.1 RP_ne.2]
    cases h2 : (if ae then eatSym r .RParen else none) with
    | some p2 => obtain ⟨rp, r'⟩ := p2; simp [mp, ParenIds.mapT, sepMap]
    | none =>
      simp only [Option.map_none]
      rcases (commaSepE_qc c.tc _ _ _ identElem_qc f r).elim with ⟨ids, r1, h3, h4⟩ | ⟨er, er', h3, h4⟩
      · rw [h3, h4]
        simp only [eatRP_qc]
        cases h5 : eatSym r1 .RParen with
        | none => simp
        | some p3 => obtain ⟨rp, r2⟩ := p3; simp [mp, ParenIds.mapT]
      · rw [h3, h4]; simp

theorem retPart_qc (c : DCfg) (f d : Nat) (ts : List Tok) :
    Rel2 (fun p => (p.1.map qc, sepMap (SelectItem.mapT qc) qc p.2)) (retPart c f d ts) (retPart c f d (ts.map qc)) := by
  unfold retPart
  rw [eatKw_qc]
  cases h : eatKw ts DK.RETURNING with
  | none => simp [mp, sepMap]
  | some p =>
    obtain ⟨kw, r⟩ := p
    simp only [Option.map_some, mp]
    rcases (commaSepE_qc c.tc _ _ _ (selectItem_qc c.q f d) f r).elim with ⟨items, r', h1, h2⟩ | ⟨er, er', h1, h2⟩
    · rw [h1, h2]; simp [mp]
    · rw [h1, h2]; simp

-- ------------------------------------------------------------------ INSERT
theorem insertHeadForeign_qc (ts : List Tok) : insertHeadForeign (ts.map qc) = insertHeadForeign ts := peekAnyKw_qc _ _

theorem insertBody_qc (c : DCfg) (f d : Nat) (ts : List Tok) :
    Rel2 (fun p => (p.1.mapT qc, p.2.mapT qc)) (insertBody c f d ts) (insertBody c f d (ts.map qc)) := by
  unfold insertBody
  rw [eatKws_qc]
  cases h : eatKws ts [DK.DEFAULT, DK.VALUES] with
  | some p => obtain ⟨toks, r⟩ := p; simp [mp, ParenIds.mapT, ParenIds.none, InsSource.mapT, sepMap]
  | none =>
    simp only [Option.map_none]
    rcases (parenIds_qc c f c.isMySql ts).elim with ⟨cols, r1, h1, h2⟩ | ⟨er, er', h1, h2⟩
    · rw [h1, h2]
      simp only [peekKw_qc, peekLP_qc]
      split
      · simp
      · split
        · simp
        · rcases (parseSource_qc c f d r1).elim with ⟨s, r2, h3, h4⟩ | ⟨er, er', h3, h4⟩
          · rw [h3, h4]; simp [mp, InsSource.mapT]
          · rw [h3, h4]; simp
    · rw [h1, h2]; simp

theorem parseInsert_qc (c : DCfg) (f d : Nat) (kw : Tok) (ts : List Tok) :
    Rel2 (Insert.mapT qc) (parseInsert c f d kw ts) (parseInsert c f d (qc kw) (ts.map qc)) := by
  unfold parseInsert
  simp only [insertHeadForeign_qc, kwTail_qc, mp, peekAnyKw_qc]
  split
  · simp
  · split
    · simp
    · rcases (nameElem_qc (kwTail DK.TABLE (kwTail DK.INTO ts).2).2).elim with ⟨name, r1, h1, h2⟩ | ⟨er, er', h1, h2⟩
      · rw [h1, h2]
        simp only [bqDotted_qc, peekKw_qc]
        split
        · simp
        · split
          · simp
          · rcases (insertBody_qc c f d r1).elim with ⟨cs, r2, h3, h4⟩ | ⟨er, er', h3, h4⟩
            · rw [h3, h4]
              simp only [peekAnyKw_qc]
              split
              · simp
              · rcases (retPart_qc c f d r2).elim with ⟨ret, r3, h5, h6⟩ | ⟨er, er', h5, h6⟩
                · rw [h5, h6]; simp [mp, Insert.mapT]
                · rw [h5, h6]; simp
            · rw [h3, h4]; simp
      · rw [h1, h2]; simp

-- ------------------------------------------------------------------ UPDATE (without the assignments)
def Factor.mapT (m : Tok → Tok) : Factor → Factor
  | .table name al => .table (name.map m) (al.map m)
  | .derived lp body qt rp al => .derived (m lp) (body.mapT m) (qt.mapT m) (m rp) (al.map m)

theorem Factor.node_mapT (fac : Factor) (conn : Conn) (k : JoinCstr) (rest : QNode) :
    (fac.node conn k rest).mapT qc = (fac.mapT qc).node (conn.mapT qc) (k.mapT qc) (rest.mapT qc) := by
  cases fac <;> rfl

theorem factorPart_qc (c : QCfg) (f d : Nat) (ts : List Tok) :
    Rel2 (Factor.mapT qc) (factorPart c f d ts) (factorPart c f d (ts.map qc)) := by
  unfold factorPart
  split
  · simp
  · rcases (factorHead_qc c ts).elim with ⟨fh, h1, h2⟩ | ⟨er, er', h1, h2⟩
    · rw [h1, h2]
      cases fh with
      | table name al r => simp [FactorHead.mapT, mp, Factor.mapT]
      | paren lp r =>
        simp only [FactorHead.mapT]
        rcases ((query_qc_all c f).1 (d - 1) r).elim with ⟨q, r1, h3, h4⟩ | ⟨er, er', h3, h4⟩
        · rw [h3, h4]
          simp only [eatRP_qc]
          cases h5 : eatSym r1 .RParen with
          | none => simp
          | some p =>
            obtain ⟨rp, r2⟩ := p
            simp only [Option.map_some, mp]
            rcases (optTableAlias_qc r2).elim with ⟨al, r3, h6, h7⟩ | ⟨er, er', h6, h7⟩
            · rw [h6, h7]
              simp only [peekAnyKw_qc]
              split <;> simp [mp, Factor.mapT, Query.mapT]
            · rw [h6, h7]; simp
        · rw [h3, h4]
          cases er <;> cases er' <;> simp
    · rw [h1, h2]; simp

theorem twj_qc (c : QCfg) : ∀ (f d : Nat) (conn : Conn) (ts : List Tok),
    Rel2 (QNode.mapT qc) (twj c f d conn ts) (twj c f d (conn.mapT qc) (ts.map qc)) := by
  intro f
  induction f with
  | zero => intro d conn ts; simp [twj]
  | succ f ih =>
    intro d conn ts
    simp only [twj, conn_hasCstr_qc]
    rcases (factorPart_qc c f d ts).elim with ⟨fac, r, h1, h2⟩ | ⟨er, er', h1, h2⟩
    · rw [h1, h2]
      simp only
      rcases (optCstr_qc c f d conn.hasCstr r).elim with ⟨k, ts1, h3, h4⟩ | ⟨er, er', h3, h4⟩
      · rw [h3, h4]
        simp only
        rcases (joinHead_qc' ts1).elim with ⟨jh, h5, h6⟩ | ⟨er, er', h5, h6⟩
        · rw [h5, h6]
          cases jh with
          | stop => simp [JoinHead.mapT, mp, Factor.node_mapT, QNode.mapT]
          | join jk toks r2 =>
            simp only [JoinHead.mapT]
            have h0 := ih d (.join jk toks) r2
            simp only [Conn.mapT] at h0
            rcases h0.elim with ⟨rest, ts2, h7, h8⟩ | ⟨er, er', h7, h8⟩
            · rw [h7, h8]; simp [mp, Factor.node_mapT]
            · rw [h7, h8]; simp
        · rw [h5, h6]; simp
      · rw [h3, h4]; simp
    · rw [h1, h2]; simp

theorem assignTarget_qc (c : DCfg) (f : Nat) (ts : List Tok) :
    Rel2 (AssignTarget.mapT qc) (assignTarget c f ts) (assignTarget c f (ts.map qc)) := by
  unfold assignTarget
  rw [eatLP_qc]
  cases h : eatSym ts .LParen with
  | some p =>
    obtain ⟨lp, r⟩ := p
    simp only [Option.map_some, mp]
    rcases (commaSepE_qc c.tc _ _ _ nameElem_qc f r).elim with ⟨names, r1, h1, h2⟩ | ⟨er, er', h1, h2⟩
    · rw [h1, h2]
      simp only [eatRP_qc]
      cases h5 : eatSym r1 .RParen with
      | none => simp
      | some p3 =>
        obtain ⟨rp, r2⟩ := p3
        simp only [Option.map_some, mp, anyDotted_qc]
        split <;> simp [mp, AssignTarget.mapT]
    · rw [h1, h2]; simp
  | none =>
    simp only [Option.map_none]
    rcases (nameElem_qc ts).elim with ⟨name, r, h1, h2⟩ | ⟨er, er', h1, h2⟩
    · rw [h1, h2]
      simp only [bqDotted_qc]
      split <;> simp [mp, AssignTarget.mapT]
    · rw [h1, h2]; simp

theorem updateFromPart_qc (c : DCfg) (f d : Nat) (ts : List Tok) :
    Rel2 (fun p => (p.1.map qc, p.2.mapT qc)) (updateFromPart c f d ts) (updateFromPart c f d (ts.map qc)) := by
  unfold updateFromPart
  rw [eatKw_qc]
  cases h : eatKw ts DK.FROM with
  | none => simp [mp, QNode.mapT]
  | some p =>
    obtain ⟨kw, r⟩ := p
    simp only [Option.map_some, mp]
    split
    · have h0 := twj_qc c.q f d (.from kw) r
      simp only [Conn.mapT] at h0
      rcases h0.elim with ⟨n, r', h1, h2⟩ | ⟨er, er', h1, h2⟩
      · rw [h1, h2]; simp [mp]
      · rw [h1, h2]; simp
    · simp [mp, QNode.mapT]

-- ------------------------------------------------------------------ DELETE
theorem deleteHead_qc (c : DCfg) (f : Nat) (ts : List Tok) :
    Rel2 (fun p => (sepMap (List.map qc) qc p.1, qc p.2)) (deleteHead c f ts) (deleteHead c f (ts.map qc)) := by
  unfold deleteHead
  rw [eatKw_qc]
  cases h : eatKw ts DK.FROM with
  | some p => obtain ⟨fk, r⟩ := p; simp [mp, sepMap]
  | none =>
    simp only [Option.map_none]
    split
    · simp
    · rcases (commaSepE_qc c.tc _ _ _ nameElem_qc f ts).elim with ⟨names, r1, h1, h2⟩ | ⟨er, er', h1, h2⟩
      · rw [h1, h2]
        simp only [eatKw_qc]
        cases h3 : eatKw r1 DK.FROM with
        | none => simp
        | some p =>
          obtain ⟨fk, r2⟩ := p
          simp only [Option.map_some, mp, anyDotted_qc]
          split <;> simp [mp]
      · rw [h1, h2]; simp

theorem usingPart_qc (c : DCfg) (f d : Nat) (ts : List Tok) :
    Rel2 (QNode.mapT qc) (usingPart c f d ts) (usingPart c f d (ts.map qc)) := by
  unfold usingPart
  rw [eatKw_qc]
  cases h : eatKw ts DK.USING with
  | none => simp [mp, QNode.mapT]
  | some p =>
    obtain ⟨kw, r⟩ := p
    simp only [Option.map_some, mp]
    have h0 := (query_qc_all c.q f).2.2.2.2.1 d (.from kw) r
    simpa only [Conn.mapT] using h0

theorem deleteOrderPart_qc (c : DCfg) (f d : Nat) (ts : List Tok) :
    Rel2 (fun p => (p.1.map qc, sepMap (OrderByExpr.mapT qc) qc p.2)) (deleteOrderPart c f d ts)
      (deleteOrderPart c f d (ts.map qc)) := by
  unfold deleteOrderPart
  rw [eatKws_qc]
  cases h : eatKws ts [DK.ORDER, DK.BY] with
  | none => simp [mp, sepMap]
  | some p =>
    obtain ⟨kws, r⟩ := p
    simp only [Option.map_some, mp]
    rcases (commaSepE_qc c.tc _ _ _ (orderByElem_qc c.q f d) f r).elim with ⟨os, r', h1, h2⟩ | ⟨er, er', h1, h2⟩
    · rw [h1, h2]; simp [mp]
    · rw [h1, h2]; simp

theorem deleteLimitPart_qc (c : DCfg) (f d : Nat) (ts : List Tok) :
    Rel2 (fun p => (p.1.map qc, p.2.map (Expr.mapT qc))) (deleteLimitPart c f d ts) (deleteLimitPart c f d (ts.map qc)) := by
  unfold deleteLimitPart
  rw [eatKw_qc]
  cases h : eatKw ts DK.LIMIT with
  | none => simp [mp]
  | some p =>
    obtain ⟨kw, r⟩ := p
    simp only [Option.map_some, mp, eatKw_qc]
    cases h2 : eatKw r DK.ALL with
    | some p2 => obtain ⟨a, r'⟩ := p2; simp [mp]
    | none =>
      simp only [Option.map_none]
      rcases (parseE_qc c.q f d r).elim with ⟨e, r', h1, h2⟩ | ⟨er, er', h1, h2⟩
      · rw [h1, h2]; simp [mp]
      · rw [h1, h2]; simp

theorem parseDelete_qc (c : DCfg) (f d : Nat) (kw : Tok) (ts : List Tok) :
    Rel2 (Delete.mapT qc) (parseDelete c f d kw ts) (parseDelete c f d (qc kw) (ts.map qc)) := by
  unfold parseDelete
  rcases (deleteHead_qc c f ts).elim with ⟨hd, r1, h1, h2⟩ | ⟨er, er', h1, h2⟩
  · rw [h1, h2]
    simp only
    have h0 := (query_qc_all c.q f).2.2.2.2.1 d (.from hd.2) r1
    simp only [Conn.mapT] at h0
    rcases h0.elim with ⟨frm, r2, h3, h4⟩ | ⟨er, er', h3, h4⟩
    · rw [h3, h4]
      simp only
      rcases (usingPart_qc c f d r2).elim with ⟨us, r3, h5, h6⟩ | ⟨er, er', h5, h6⟩
      · rw [h5, h6]
        simp only
        rcases (kwExprPart_qc c.q f d DK.WHERE r3).elim with ⟨w, r4, h7, h8⟩ | ⟨er, er', h7, h8⟩
        · rw [h7, h8]
          simp only
          rcases (retPart_qc c f d r4).elim with ⟨ret, r5, h9, h10⟩ | ⟨er, er', h9, h10⟩
          · rw [h9, h10]
            simp only
            rcases (deleteOrderPart_qc c f d r5).elim with ⟨ob, r6, h11, h12⟩ | ⟨er, er', h11, h12⟩
            · rw [h11, h12]
              simp only
              rcases (deleteLimitPart_qc c f d r6).elim with ⟨lim, r7, h13, h14⟩ | ⟨er, er', h13, h14⟩
              · rw [h13, h14]; simp [mp, Delete.mapT]
              · rw [h13, h14]; simp
            · rw [h11, h12]; simp
          · rw [h9, h10]; simp
        · rw [h7, h8]; simp
      · rw [h5, h6]; simp
    · rw [h3, h4]; simp
  · rw [h1, h2]; simp

-- ------------------------------------------------------------------ DROP TABLE
theorem dropOtherObject_qc (ts : List Tok) : dropOtherObject (ts.map qc) = dropOtherObject ts := peekAnyKw_qc _ _

theorem parseDrop_qc (c : DCfg) (f : Nat) (kw : Tok) (ts : List Tok) :
    Rel2 (Drop.mapT qc) (parseDrop c f kw ts) (parseDrop c f (qc kw) (ts.map qc)) := by
  unfold parseDrop
  simp only [peekAnyKw_qc, eatKw_qc, dropOtherObject_qc]
  split
  · simp
  · cases h : eatKw ts DK.TABLE with
    | none => simp only [Option.map_none]; split <;> simp
    | some p =>
      obtain ⟨tk, r0⟩ := p
      simp only [Option.map_some, mp, kwsTail_qc]
      rcases (commaSepE_qc c.tc _ _ _ nameElem_qc f (kwsTail [DK.IF, DK.EXISTS] r0).2).elim with
        ⟨names, r1, h1, h2⟩ | ⟨er, er', h1, h2⟩
      · rw [h1, h2]
        simp only [anyDotted_qc, kwTail_qc, mp, List.isEmpty_map]
        split
        · simp
        · split <;> simp [mp, Drop.mapT]
      · rw [h1, h2]; simp

-- ------------------------------------------------------------------ column options
def OptRes.mapT (m : Tok → Tok) : OptRes → OptRes
  | .opt o => .opt (o.mapT m)
  | .none dr => .none (dr.map m)

theorem ccForeign_qc (ts : List Tok) : ccForeign (ts.map qc) = ccForeign ts := by
  unfold ccForeign
  simp only [peekAnyKw_qc, eatKws_qc, Option.isSome_map]

theorem dialectOpt_qc (ok : Bool) (t : Tok) (r : List Tok) :
    Rel2 (OptRes.mapT qc) (dialectOpt ok t r) (dialectOpt ok (qc t) (r.map qc)) := by
  unfold dialectOpt
  simp only [peekAnyKw_qc]
  split
  · simp [mp, OptRes.mapT, ColOpt.mapT]
  · split <;> simp [mp, OptRes.mapT]

theorem colOptionTail_qc (c : DCfg) (ts : List Tok) :
    Rel2 (OptRes.mapT qc) (colOptionTail c ts) (colOptionTail c (ts.map qc)) := by
  unfold colOptionTail
  simp only [eatKw_qc, peekAnyKw_qc]
  cases h1 : eatKw ts DK.AUTO_INCREMENT with
  | some p => exact dialectOpt_qc _ _ _
  | none =>
    cases h2 : eatKw ts DK.AUTOINCREMENT with
    | some p => exact dialectOpt_qc _ _ _
    | none =>
      cases h3 : eatKw ts DK.ASC with
      | some p => exact dialectOpt_qc _ _ _
      | none =>
        cases h4 : eatKw ts DK.DESC with
        | some p => exact dialectOpt_qc _ _ _
        | none =>
          simp only [Option.map_none]
          split <;> simp [mp, OptRes.mapT]

theorem commentTail_qc (kw : Tok) (ts : List Tok) :
    Rel2 (OptRes.mapT qc) (commentTail kw ts) (commentTail (qc kw) (ts.map qc)) := by
  unfold commentTail
  cases ts with
  | nil => simp
  | cons t r =>
    cases t with
    | sqs s => simp [qc, mp, OptRes.mapT, ColOpt.mapT]
    | sym s => cases s <;> simp [qc]
    | word a b kw2 => cases kw2 <;> simp [qc]
    | _ => simp [qc]

theorem checkTail_qc (c : DCfg) (f d : Nat) (kw : Tok) (ts : List Tok) :
    Rel2 (OptRes.mapT qc) (checkTail c f d kw ts) (checkTail c f d (qc kw) (ts.map qc)) := by
  unfold checkTail
  rw [eatLP_qc]
  cases h : eatSym ts .LParen with
  | none => simp
  | some p =>
    obtain ⟨lp, r⟩ := p
    simp only [Option.map_some, mp]
    rcases (parseE_qc c.q f d r).elim with ⟨e, r1, h1, h2⟩ | ⟨er, er', h1, h2⟩
    · rw [h1, h2]
      simp only [eatRP_qc]
      cases h5 : eatSym r1 .RParen with
      | none => simp
      | some p3 => obtain ⟨rp, r2⟩ := p3; simp [mp, OptRes.mapT, ColOpt.mapT]
    · rw [h1, h2]; simp

theorem referencesTail_qc (c : DCfg) (f : Nat) (kw : Tok) (ts : List Tok) :
    Rel2 (OptRes.mapT qc) (referencesTail c f kw ts) (referencesTail c f (qc kw) (ts.map qc)) := by
  unfold referencesTail
  rcases (nameElem_qc ts).elim with ⟨name, r, h1, h2⟩ | ⟨er, er', h1, h2⟩
  · rw [h1, h2]
    simp only [bqDotted_qc]
    split
    · simp
    · rcases (parenIds_qc c f false r).elim with ⟨cols, r1, h3, h4⟩ | ⟨er, er', h3, h4⟩
      · rw [h3, h4]
        simp only [peekKw_qc, ccForeign_qc]
        split <;> simp [mp, OptRes.mapT, ColOpt.mapT]
      · rw [h3, h4]; simp
  · rw [h1, h2]; simp

theorem defaultTail_qc (c : DCfg) (f d : Nat) (kw : Tok) (ts : List Tok) :
    Rel2 (OptRes.mapT qc) (defaultTail c f d kw ts) (defaultTail c f d (qc kw) (ts.map qc)) := by
  unfold defaultTail
  rcases (parseE_qc c.q f d ts).elim with ⟨e, r1, h1, h2⟩ | ⟨er, er', h1, h2⟩
  · rw [h1, h2]; simp [mp, OptRes.mapT, ColOpt.mapT]
  · rw [h1, h2]; simp

theorem ccTail_qc (o : ColOpt) (ts : List Tok) :
    Rel2 (OptRes.mapT qc) (ccTail o ts) (ccTail (o.mapT qc) (ts.map qc)) := by
  unfold ccTail
  rw [ccForeign_qc]
  split <;> simp [mp, OptRes.mapT]

theorem colOption_qc (c : DCfg) (f d : Nat) (ts : List Tok) :
    Rel2 (OptRes.mapT qc) (colOption c f d ts) (colOption c f d (ts.map qc)) := by
  unfold colOption
  simp only [eatKws_qc, eatKw_qc, peekAnyKw_qc, Option.isSome_map]
  split
  · simp
  cases h1 : eatKws ts [DK.NOT, DK.NULL] with
  | some p => obtain ⟨toks, r⟩ := p; simp [mp, OptRes.mapT, ColOpt.mapT]
  | none =>
  cases h2 : eatKw ts DK.COMMENT with
  | some p => exact commentTail_qc _ _
  | none =>
  cases h3 : eatKw ts DK.NULL with
  | some p => obtain ⟨t, r⟩ := p; simp [mp, OptRes.mapT, ColOpt.mapT]
  | none =>
  cases h4 : eatKw ts DK.DEFAULT with
  | some p => exact defaultTail_qc _ _ _ _ _
  | none =>
  simp only [Option.map_none]
  split
  · simp
  cases h5 : eatKws ts [DK.PRIMARY, DK.KEY] with
  | some p => exact ccTail_qc (.primaryKey p.1) p.2
  | none =>
  cases h6 : eatKw ts DK.UNIQUE with
  | some p => exact ccTail_qc (.unique p.1) p.2
  | none =>
  cases h7 : eatKw ts DK.REFERENCES with
  | some p => exact referencesTail_qc _ _ _ _
  | none =>
  cases h8 : eatKw ts DK.CHECK with
  | some p => exact checkTail_qc _ _ _ _ _
  | none => exact colOptionTail_qc c ts

theorem colOpts_qc (c : DCfg) (f d : Nat) : ∀ (n : Nat) (ts : List Tok),
    Rel2 (fun p => (p.1.map (ColOpt.mapT qc), p.2.map qc)) (colOpts c f d n ts) (colOpts c f d n (ts.map qc)) := by
  intro n
  induction n with
  | zero => intro ts; simp [colOpts]
  | succ n ih =>
    intro ts
    simp only [colOpts, peekKw_qc]
    split
    · simp
    · rcases (colOption_qc c f d ts).elim with ⟨o, r, h1, h2⟩ | ⟨er, er', h1, h2⟩
      · rw [h1, h2]
        cases o with
        | none dr =>
          simp only [OptRes.mapT, peekKw_qc]
          split <;> simp [mp]
        | opt o =>
          simp only [OptRes.mapT]
          rcases (ih r).elim with ⟨od, r', h3, h4⟩ | ⟨er, er', h3, h4⟩
          · rw [h3, h4]; simp [mp]
          · rw [h3, h4]; simp
      · rw [h1, h2]; simp

-- ------------------------------------------------------------------ CREATE TABLE: everything around the column types
theorem sqliteUnspecified_qc (ts : List Tok) : sqliteUnspecified (ts.map qc) = sqliteUnspecified ts := by
  cases ts with
  | nil => rfl
  | cons t r =>
    have := peekAnyKw_qc (t :: r) [DK.CONSTRAINT, DK.PRIMARY, DK.NOT, DK.UNIQUE, DK.CHECK, DK.DEFAULT, DK.COLLATE, DK.REFERENCES,
      DK.GENERATED, DK.AS]
    cases t with
    | word v q kw => cases kw <;> simpa [sqliteUnspecified, qc] using this
    | sym s => cases s <;> rfl
    | _ => rfl

theorem constraintAhead_qc (ts : List Tok) : constraintAhead (ts.map qc) = constraintAhead ts := peekAnyKw_qc _ _
theorem createHeadForeign_qc (ts : List Tok) : createHeadForeign (ts.map qc) = createHeadForeign ts := peekAnyKw_qc _ _
theorem afterCreateNameForeign_qc (ts : List Tok) : afterCreateNameForeign (ts.map qc) = afterCreateNameForeign ts :=
  peekAnyKw_qc _ _
theorem createTailForeign_qc (ts : List Tok) : createTailForeign (ts.map qc) = createTailForeign ts := peekAnyKw_qc _ _
theorem createOtherObject_qc (ts : List Tok) : createOtherObject (ts.map qc) = createOtherObject ts := peekAnyKw_qc _ _

theorem peekWord_qc (ts : List Tok) : peekWord (ts.map qc) = peekWord ts := by
  cases ts with
  | nil => rfl
  | cons t r =>
    cases t with
    | word v q kw => cases kw <;> rfl
    | sym s => cases s <;> rfl
    | _ => rfl

def ColEnd.mapT (m : Tok → Tok) : ColEnd → ColEnd
  | .more cm r => .more (cm.map m) (r.map m)
  | .close cm rp r => .close (cm.map m) (m rp) (r.map m)
  | .bad => .bad

theorem colEnd_qc (tc : Bool) (ts : List Tok) : colEnd tc (ts.map qc) = (colEnd tc ts).mapT qc := by
  unfold colEnd
  rw [eatCM_qc, eatRP_qc]
  cases h : eatSym ts .Comma with
  | some p =>
    obtain ⟨cm, r⟩ := p
    simp only [Option.map_some, mp]
    rw [condEat_qc _ _ _ RP_ne.1 RP_ne.2]
    cases h2 : (if tc then eatSym r .RParen else none) with
    | some p2 => rfl
    | none => rfl
  | none =>
    simp only [Option.map_none]
    cases h2 : eatSym ts .RParen with
    | some p2 => rfl
    | none => rfl

end SqlVerif.Dml

import SqlVerif.Lemmas.DmlExt
import SqlVerif.Lemmas.QueryLists
/-!
The column list of `CREATE TABLE` (`parse_columns`, an ad-hoc loop — `colLoop` of `Model/Dml.lean`)
on texts `c₁ , c₂ , … cₙ [,] ) tail` whose elements are complete column definitions.
-/
set_option linter.unusedSimpArgs false
namespace SqlVerif.Dml
open SqlVerif.Pratt SqlVerif.Query SqlVerif.Gen SqlVerif.Lists

abbrev comma : Tok := .sym .Comma
abbrev rparen : Tok := .sym .RParen

/-- the separators `parse_columns` records: a comma after every column but the last, and after the
last one too when the list had a trailing comma -/
def colSeps (trail : Bool) : List ColDef → Sep ColDef
  | [] => []
  | [cd] => [(cd, if trail then [comma] else [])]
  | cd :: cd2 :: rest => (cd, [comma]) :: colSeps trail (cd2 :: rest)

theorem peekWord_ne_nil {ts : List Tok} (h : peekWord ts = true) : ts ≠ [] := by
  intro h0; subst h0; simp [peekWord] at h

theorem constraintAhead_ext (S : List Tok) {ts : List Tok} (h : ts ≠ []) : constraintAhead (ts ++ S) = constraintAhead ts := by
  cases ts with
  | nil => exact absurd rfl h
  | cons a b => simp [constraintAhead, peekAnyKw, peekKw]

theorem eatSym_word_none {ts : List Tok} (h : peekWord ts = true) (s : Sym) (S : List Tok) : eatSym (ts ++ S) s = none := by
  cases ts with
  | nil => simp [peekWord] at h
  | cons a b => cases a <;> simp_all [peekWord, eatSym, Tok.isSym]

theorem colEnd_rparen (tc : Bool) (tail : List Tok) : colEnd tc (rparen :: tail) = .close [] rparen tail := by
  simp [colEnd, eatSym, Tok.isSym]

theorem colEnd_comma_rparen (tail : List Tok) : colEnd true (comma :: rparen :: tail) = .close [comma] rparen tail := by
  simp [colEnd, eatSym, Tok.isSym]

theorem colEnd_comma_word (tc : Bool) {r0 : List Tok} (h : ∀ S, eatSym (r0 ++ S) .RParen = none) (S : List Tok) :
    colEnd tc (comma :: (r0 ++ S)) = .more [comma] (r0 ++ S) := by
  have h1 : eatSym (comma :: (r0 ++ S)) .Comma = some (comma, r0 ++ S) := by simp [eatSym, Tok.isSym]
  unfold colEnd
  rw [h1]
  cases tc <;> simp [h S]

/-- the column loop on `c₁ , c₂ , … cₙ [,] ) tail` -/
theorem colLoop_join (c : DCfg) (f d : Nat) (tail : List Tok) (trail : Bool) (htr : trail = true → c.tc = true) :
    ∀ (es : List (List Tok × ColDef)), es ≠ [] →
      (∀ e ∈ es, columnDef c f d e.1 = .ok (e.2, [])) →
      (∀ e ∈ es, peekWord e.1 = true ∧ constraintAhead e.1 = false) →
      ∀ n, es.length ≤ n →
        colLoop c f d n (joinWith comma (es.map (·.1)) ++ ((if trail then [comma] else []) ++ rparen :: tail)) =
          .ok ((colSeps trail (es.map (·.2)), rparen), tail) := by
  intro es
  induction es with
  | nil => intro h; exact absurd rfl h
  | cons e rest ih =>
    intro _ hacc hw n hn
    cases n with
    | zero => simp at hn
    | succ n =>
      have he := hacc e (by simp)
      obtain ⟨hw1, hw2⟩ := hw e (by simp)
      have hne := peekWord_ne_nil hw1
      cases rest with
      | nil =>
        simp only [List.map_cons, List.map_nil, joinWith, colSeps]
        cases trail with
        | false =>
          simp only [Bool.false_eq_true, if_false, List.nil_append]
          simp only [colLoop, constraintAhead_ext _ hne, hw2, peekWord_ext _ hw1]
          have := columnDef_ext (x := rparen) (by rfl) c tail f d e.1 e.2 [] he
          simp only [List.nil_append] at this
          simp [this, colEnd_rparen]
        | true =>
          simp only [if_true, List.cons_append, List.nil_append]
          simp only [colLoop, constraintAhead_ext _ hne, hw2, peekWord_ext _ hw1]
          have := columnDef_ext (x := comma) (by rfl) c (rparen :: tail) f d e.1 e.2 [] he
          simp only [List.nil_append] at this
          simp [this, htr rfl, colEnd_comma_rparen]
      | cons e2 rest2 =>
        simp only [List.map_cons, joinWith, colSeps, List.append_assoc, List.cons_append]
        simp only [colLoop, constraintAhead_ext _ hne, hw2, peekWord_ext _ hw1]
        have := columnDef_ext (x := comma) (by rfl) c
          (joinWith comma (e2.1 :: rest2.map (·.1)) ++ ((if trail then [comma] else []) ++ rparen :: tail)) f d e.1 e.2 [] he
        simp only [List.nil_append] at this
        have ih' := ih (by simp) (fun x hx => hacc x (by simp [hx])) (fun x hx => hw x (by simp [hx])) n
          (by simp at hn ⊢; omega)
        simp only [List.map_cons] at ih'
        have hnext : ∀ S, eatSym (joinWith comma (e2.1 :: rest2.map (·.1)) ++ S) .RParen = none := by
          intro S
          have hw3 := (hw e2 (by simp)).1
          cases rest2 with
          | nil => simpa [joinWith] using eatSym_word_none hw3 .RParen S
          | cons e3 r3 =>
            simp only [List.map_cons, joinWith, List.append_assoc, List.cons_append]
            exact eatSym_word_none hw3 .RParen _
        simp only [this, Bool.not_true, Bool.false_eq_true, if_false, colEnd_comma_word c.tc hnext, ih']

theorem colEnd_comma_off (r0 : List Tok) : colEnd false (comma :: r0) = .more [comma] r0 := by
  simp [colEnd, eatSym, Tok.isSym]

/-- with the option off the column loop goes on after `, )` and fails at the `)` -/
theorem colLoop_join_off (c : DCfg) (f d : Nat) (tail : List Tok) (htc : c.tc = false) :
    ∀ (es : List (List Tok × ColDef)), es ≠ [] →
      (∀ e ∈ es, columnDef c f d e.1 = .ok (e.2, [])) →
      (∀ e ∈ es, peekWord e.1 = true ∧ constraintAhead e.1 = false) →
      ∀ n, es.length + 1 ≤ n →
        colLoop c f d n (joinWith comma (es.map (·.1)) ++ comma :: rparen :: tail) =
          .error (syn "column name or constraint definition") := by
  intro es
  induction es with
  | nil => intro h; exact absurd rfl h
  | cons e rest ih =>
    intro _ hacc hw n hn
    cases n with
    | zero => simp at hn
    | succ n =>
      have he := hacc e (by simp)
      obtain ⟨hw1, hw2⟩ := hw e (by simp)
      have hne := peekWord_ne_nil hw1
      cases rest with
      | nil =>
        simp only [List.map_cons, List.map_nil, joinWith]
        simp only [colLoop, constraintAhead_ext _ hne, hw2, peekWord_ext _ hw1]
        have := columnDef_ext (x := comma) (by rfl) c (rparen :: tail) f d e.1 e.2 [] he
        simp only [List.nil_append] at this
        simp only [this, htc, colEnd_comma_off, Bool.not_true, Bool.false_eq_true, if_false]
        cases n with
        | zero => simp at hn
        | succ n => simp [colLoop, constraintAhead, peekAnyKw, peekKw, Tok.isKw, peekWord]
      | cons e2 rest2 =>
        simp only [List.map_cons, joinWith, List.append_assoc, List.cons_append]
        simp only [colLoop, constraintAhead_ext _ hne, hw2, peekWord_ext _ hw1]
        have := columnDef_ext (x := comma) (by rfl) c
          (joinWith comma (e2.1 :: rest2.map (·.1)) ++ comma :: rparen :: tail) f d e.1 e.2 [] he
        simp only [List.nil_append] at this
        have ih' := ih (by simp) (fun x hx => hacc x (by simp [hx])) (fun x hx => hw x (by simp [hx])) n
          (by simp at hn ⊢; omega)
        simp only [List.map_cons] at ih'
        simp only [this, htc, colEnd_comma_off, Bool.not_true, Bool.false_eq_true, if_false, ih']

end SqlVerif.Dml

import SqlVerif.Lemmas.DdlNorm
import SqlVerif.Lemmas.DmlIdem
/-!
The printed normal form of the second statement model is a normal form: `Ddl.Stmt.norm` is idempotent
(`stmt_norm_idem`, for every tree — no well-formedness needed), hence the normal form prints as the tree
itself (`stmt_show_norm`).  The analogue of `Lemmas/DmlIdem.lean`.
-/
namespace SqlVerif.Ddl
open SqlVerif.Pratt SqlVerif.Query SqlVerif.Dml SqlVerif.Gen
set_option linter.unusedSimpArgs false

theorem optKws_idem (l : List Tok) (a : String) (rest : List String) :
    optKws (optKws l (a :: rest)) (a :: rest) = optKws l (a :: rest) := by
  unfold optKws; cases l.isEmpty <;> rfl

theorem viewCol_norm_idem (v : ViewCol) : v.norm.norm = v.norm := rfl

theorem createView_norm_idem (v : CreateView) : v.norm.norm = v.norm := by
  simp only [CreateView.norm, optKws_idem, sepNorm_isEmpty', sepNorm_idem _ viewCol_norm_idem, source_norm_idem]

theorem usingNorm_idem (toks : List Tok) : usingNorm (usingNorm toks) = usingNorm toks := by
  unfold usingNorm
  cases h : toks.getLast? with
  | none => rfl
  | some t => rfl

theorem nullsDNorm_idem (nulls : List Tok) : nullsDNorm (nullsDNorm nulls) = nullsDNorm nulls := by
  match nulls with
  | [] => rfl
  | [_] => rfl
  | [_, _] => rfl
  | _ :: _ :: _ :: _ => rfl

theorem idxHead_norm_idem (hd : IdxHead) : hd.norm.norm = hd.norm := by
  simp only [IdxHead.norm, optKws_idem, usingNorm_idem]

theorem parenIds_norm_ids_isEmpty (p : ParenIds) : p.norm.ids.isEmpty = p.ids.isEmpty := by
  unfold ParenIds.norm
  cases h : p.ids.isEmpty
  · simp [sepNorm_isEmpty', h]
  · rfl

theorem idxTail_norm_idem (tl : IdxTail) : tl.norm.norm = tl.norm := by
  simp only [IdxTail.norm, parenIds_norm_ids_isEmpty, parenIds_norm_idem, nullsDNorm_idem, whereKwNorm_norm, optNorm_idem]

theorem createIndex_norm_idem (i : CreateIndex) : i.norm.norm = i.norm := by
  simp only [CreateIndex.norm, idxKws_len, idxHead_norm_idem, sepNorm_idem _ order_norm_idem, idxTail_norm_idem]

theorem colOp_norm_idem (op : AlterColOp) : op.norm.norm = op.norm := by
  cases op <;> simp [AlterColOp.norm, norm_norm]

theorem colOp_kwsNorm_norm (op : AlterColOp) : op.norm.kwsNorm = op.kwsNorm := by
  cases op <;> rfl

theorem alterOp_norm_idem (o : AlterOp) : o.norm.norm = o.norm := by
  cases o with
  | addColumn k i1 ck i2 keep cd =>
    simp only [AlterOp.norm, optKws_isEmpty, optKws_idem, addIfne_norm, colDef_norm_idem]
  | dropColumn k sw ck ie n cas => simp only [AlterOp.norm, optKws_idem]
  | renameColumn k ck o t n => rfl
  | renameTable k t name => rfl
  | alterColumn k ck n ops op => simp only [AlterOp.norm, colOp_norm_idem, colOp_kwsNorm_norm]

theorem alterTable_norm_idem (a : AlterTable) : a.norm.norm = a.norm := by
  simp only [AlterTable.norm, optKws_idem, sepNorm_idem _ alterOp_norm_idem]

theorem kwNormTok_idem (t : Tok) : kwNormTok (kwNormTok t) = kwNormTok t := by
  cases t with
  | word v q kw => cases kw <;> rfl
  | _ => rfl

theorem kwNormToks_idem (l : List Tok) : (l.map kwNormTok).map kwNormTok = l.map kwNormTok := by
  simp [List.map_map, Function.comp_def, kwNormTok_idem]

theorem truncate_norm_idem (t : Truncate) : t.norm.norm = t.norm := by
  simp only [Truncate.norm, optKws_idem, sepNorm_idem id (fun _ => rfl), kwNormToks_idem]

theorem dropObj_norm_idem (d : Drop) : dropObjNorm (dropObjNorm d) = dropObjNorm d := by
  simp only [dropObjNorm, optKws_idem, sepNorm_idem id (fun _ => rfl), kwNormTok_idem]

/-- the printed normal form is a normal form (for every tree) -/
theorem stmt_norm_idem (s : Stmt) : s.norm.norm = s.norm := by
  cases s with
  | createView v => simp only [Stmt.norm, createView_norm_idem]
  | createIndex i => simp only [Stmt.norm, createIndex_norm_idem]
  | alterTable a => simp only [Stmt.norm, alterTable_norm_idem]
  | truncate t => simp only [Stmt.norm, truncate_norm_idem]
  | dropObj d => simp only [Stmt.norm, dropObj_norm_idem]
  | dml s => simp only [Stmt.norm, Dml.stmt_norm_idem]

theorem optKws_eq_nil (l : List Tok) (names : List String) (h : l = []) : optKws l names = [] := by rw [h]; rfl

theorem showOk_norm (s : Stmt) (h : s.showOk) : s.norm.showOk := by
  cases s with
  | dml s => exact headsOk_norm s h
  | _ => trivial

/-- **printing is idempotent on normal forms**: the normal form prints as the tree itself -/
theorem stmt_show_norm (s : Stmt) (h : s.showOk) : s.norm.showToks = s.showToks := by
  rw [stmt_showToks_eq_norm _ (showOk_norm s h), stmt_norm_idem, stmt_showToks_eq_norm _ h]

end SqlVerif.Ddl

import SqlVerif.Lemmas.QueryNorm
/-!
The printer of the query fragment is faithful to what the parser stored.

* `tokOk`            what every lexer-made keyword token satisfies: unquoted, no leading underscore, no
                     period, spelled `from` (up to case) exactly when it is the keyword `FROM`;
* `Query.normal`     decidable: the shapes whose printed form is a token-by-token image of the source
                     (alias written with `AS`, no `SELECT ALL`, no `INNER` / `OUTER`, no trailing comma,
                     `LIMIT` before `OFFSET`, no `LIMIT ALL`, no `LIMIT a, b`);
* `Query.WF`         what the parser guarantees of the trees it builds (every keyword slot holds its
                     keyword, every expression is a faithful parse result) — `parse_wf`;
* `norm_faithful`    `WF`, `printable`, `normal` and `tokOk` tokens ⇒ `q.norm.mapT qc = q.mapT qc`.
-/
namespace SqlVerif.Query
open SqlVerif.Pratt SqlVerif.Gen
open SqlVerif.SetClimb (Op SQuant precOf)
set_option linter.unusedSimpArgs false

-- ------------------------------------------------------------------ tokens
/-- a keyword token as a lexer makes it (nothing is asked of other tokens) -/
def kwTokOk : Tok → Bool
  | .word v q (some k) => q.isNone && !v.contains 46 && ((asciiLower v == str "from") == (k == K.FROM))
  | _ => true

def tokOk (t : Tok) : Bool := kwClean t && kwTokOk t

theorem qc_of_kw {t t' : Tok} {k : Nat} (h : t.isKw k = true) (h' : t'.isKw k = true) (ht : tokOk t = true)
    (ht' : tokOk t' = true) : qc t = qc t' := by
  cases t with
  | word v q kw =>
    cases kw with
    | none => simp [Tok.isKw] at h
    | some k1 =>
      cases t' with
      | word v' q' kw' =>
        cases kw' with
        | none => simp [Tok.isKw] at h'
        | some k2 =>
          simp only [Tok.isKw, beq_iff_eq] at h h'
          subst h; subst h'
          simp only [tokOk, kwClean, kwTokOk, Bool.and_eq_true, Bool.not_eq_true', Option.isNone_iff_eq_none,
            beq_iff_eq] at ht ht'
          obtain ⟨a1, ⟨a2, a3⟩, a4⟩ := ht
          obtain ⟨b1, ⟨b2, b3⟩, b4⟩ := ht'
          subst a2; subst b2
          simp only [qc, encV, a1, b1, a3, b3, a4, b4]
      | _ => simp [Tok.isKw] at h'
  | _ => simp [Tok.isKw] at h

theorem canon1_sym (s : Sym) : canon1 (.sym s) = .sym (if s = .DoubleEq then .Eq else s) := by
  cases s <;> rfl

theorem map_qc_of_canon1 : ∀ (a b : List Tok), a.map canon1 = b.map canon1 → a.all kwTokOk = true → b.all kwTokOk = true →
    a.map qc = b.map qc := by
  intro a
  induction a with
  | nil => intro b h _ _; cases b <;> simp_all
  | cons t r ih =>
    intro b h ha hb
    cases b with
    | nil => simp at h
    | cons t' r' =>
      simp only [List.map_cons, List.cons.injEq, List.all_cons, Bool.and_eq_true] at h ha hb ⊢
      refine ⟨?_, ih r' h.2 ha.2 hb.2⟩
      have h1 := h.1
      have ha1 := ha.1
      have hb1 := hb.1
      cases t with
      | word v q kw =>
        cases kw with
        | none =>
          cases t' with
          | word v' q' kw' =>
            cases kw' with
            | none => simp only [canon1] at h1; rw [h1]
            | some k' => simp [canon1] at h1
          | sym s => cases s <;> simp [canon1] at h1
          | _ => simp [canon1] at h1
        | some k =>
          cases t' with
          | word v' q' kw' =>
            cases kw' with
            | none => simp [canon1] at h1
            | some k' =>
              simp only [canon1, Tok.word.injEq, Option.some.injEq, true_and] at h1
              obtain ⟨h1a, h1b⟩ := h1
              subst h1b
              simp only [kwTokOk, Bool.and_eq_true, Bool.not_eq_true', Option.isNone_iff_eq_none, beq_iff_eq] at ha1 hb1
              obtain ⟨⟨a2, a3⟩, a4⟩ := ha1
              obtain ⟨⟨b2, b3⟩, b4⟩ := hb1
              subst a2; subst b2
              have hh : (v.head? == some 95) = (v'.head? == some 95) := by
                cases x : (v.head? == some 95) <;> cases y : (v'.head? == some 95) <;> simp [x, y] at h1a ⊢
              simp only [qc, encV, a3, b3, a4, b4, hh]
          | sym s => cases s <;> simp [canon1] at h1
          | _ => simp [canon1] at h1
      | sym s =>
        cases t' with
        | sym s' => rw [qc_sym, qc_sym]; rw [canon1_sym, canon1_sym] at h1; exact h1
        | word v' q' kw' => cases kw' <;> cases s <;> simp [canon1] at h1
        | _ => cases s <;> simp [canon1] at h1
      | _ =>
        cases t' with
        | word v' q' kw' => cases kw' <;> simp [canon1] at h1
        | sym s' => cases s' <;> simp [canon1] at h1
        | _ => simp only [canon1] at h1; rw [h1]

-- ------------------------------------------------------------------ printed expression tokens are lexer-like
theorem kwTokOk_table : (SqlVerif.Gen.keywordsList.zipIdx).all
    (fun p => !p.1.contains 46 && ((asciiLower p.1 == str "from") == (p.2 == K.FROM))) = true := by decide +kernel

theorem kwTokOk_kwTi (k : Nat) : kwTokOk (kwTi k) = true := by
  by_cases h : k < SqlVerif.Gen.keywordsList.length
  · have hm : (SqlVerif.Gen.keywordsList[k], k) ∈ SqlVerif.Gen.keywordsList.zipIdx := by
      simp [List.mem_zipIdx_iff_getElem?]
    have := List.all_eq_true.1 kwTokOk_table _ hm
    have hn : kwName k = SqlVerif.Gen.keywordsList[k] := by
      unfold kwName
      rw [List.getD_eq_getElem?_getD, List.getElem?_eq_getElem h]; rfl
    simp only [kwTi, kwTokOk, hn]
    simpa using this
  · have hn : kwName k = [] := by
      unfold kwName
      rw [List.getD_eq_getElem?_getD, List.getElem?_eq_none (by omega)]; rfl
    have hk : (k == K.FROM) = false := by
      have : K.FROM < SqlVerif.Gen.keywordsList.length := by decide +kernel
      simp only [beq_eq_false_iff_ne, ne_eq]
      intro hh; rw [hh] at h; exact h this
    simp only [kwTi, kwTokOk, hn, hk]
    decide

theorem binop_tok_ok (o : BinOp) : kwTokOk o.tok = true := by
  cases o <;> first | (simp only [BinOp.tok, kwTokOk]; done) | decide +kernel
theorem unop_tok_ok (o : UnOp) : kwTokOk o.tok = true := by
  cases o <;> first | (simp only [UnOp.tok, kwTokOk]; done) | decide +kernel
theorem quant_tok_ok (q : Quant) : kwTokOk q.piece.tok = true := by cases q <;> decide +kernel

theorem tokOk_IS : tokOk (kwT "IS") = true := by decide +kernel
theorem tokOk_DISTINCT : tokOk (kwT "DISTINCT") = true := by decide +kernel
theorem tokOk_FROM : tokOk (kwT "FROM") = true := by decide +kernel
theorem tokOk_AT : tokOk (kwT "AT") = true := by decide +kernel
theorem tokOk_TIME : tokOk (kwT "TIME") = true := by decide +kernel
theorem tokOk_ZONE : tokOk (kwT "ZONE") = true := by decide +kernel
theorem tokOk_BETWEEN : tokOk (kwT "BETWEEN") = true := by decide +kernel
theorem tokOk_AND : tokOk (kwT "AND") = true := by decide +kernel
theorem tokOk_IN : tokOk (kwT "IN") = true := by decide +kernel
theorem tokOk_ANY : tokOk (kwT "ANY") = true := by decide +kernel
theorem tokOk_NOT : tokOk (kwT "NOT") = true := by decide +kernel
theorem tokOk_ESCAPE : tokOk (kwT "ESCAPE") = true := by decide +kernel
theorem tokOk_NULL : tokOk (kwT "NULL") = true := by decide +kernel
theorem tokOk_AS : tokOk (kwT "AS") = true := by decide +kernel
theorem tokOk_ASC : tokOk (kwT "ASC") = true := by decide +kernel
theorem tokOk_DESC : tokOk (kwT "DESC") = true := by decide +kernel
theorem tokOk_NULLS : tokOk (kwT "NULLS") = true := by decide +kernel
theorem tokOk_FIRST : tokOk (kwT "FIRST") = true := by decide +kernel
theorem tokOk_LAST : tokOk (kwT "LAST") = true := by decide +kernel
theorem tokOk_ROW : tokOk (kwT "ROW") = true := by decide +kernel
theorem tokOk_ROWS : tokOk (kwT "ROWS") = true := by decide +kernel
theorem tokOk_ORDER : tokOk (kwT "ORDER") = true := by decide +kernel
theorem tokOk_BY : tokOk (kwT "BY") = true := by decide +kernel
theorem tokOk_LIMIT : tokOk (kwT "LIMIT") = true := by decide +kernel
theorem tokOk_OFFSET : tokOk (kwT "OFFSET") = true := by decide +kernel
theorem tokOk_SELECT : tokOk (kwT "SELECT") = true := by decide +kernel
theorem tokOk_WHERE : tokOk (kwT "WHERE") = true := by decide +kernel
theorem tokOk_GROUP : tokOk (kwT "GROUP") = true := by decide +kernel
theorem tokOk_HAVING : tokOk (kwT "HAVING") = true := by decide +kernel
theorem tokOk_ON : tokOk (kwT "ON") = true := by decide +kernel
theorem tokOk_USING : tokOk (kwT "USING") = true := by decide +kernel
theorem tokOk_JOIN : tokOk (kwT "JOIN") = true := by decide +kernel
theorem tokOk_LEFT : tokOk (kwT "LEFT") = true := by decide +kernel
theorem tokOk_RIGHT : tokOk (kwT "RIGHT") = true := by decide +kernel
theorem tokOk_FULL : tokOk (kwT "FULL") = true := by decide +kernel
theorem tokOk_CROSS : tokOk (kwT "CROSS") = true := by decide +kernel
theorem tokOk_UNION : tokOk (kwT "UNION") = true := by decide +kernel
theorem tokOk_EXCEPT : tokOk (kwT "EXCEPT") = true := by decide +kernel
theorem tokOk_INTERSECT : tokOk (kwT "INTERSECT") = true := by decide +kernel
theorem tokOk_ALL : tokOk (kwT "ALL") = true := by decide +kernel
theorem tokOk_NAME : tokOk (kwT "NAME") = true := by decide +kernel

theorem tokOk_kwTokOk {t : Tok} (h : tokOk t = true) : kwTokOk t = true := by
  simp only [tokOk, Bool.and_eq_true] at h; exact h.2
theorem tokOk_kwClean {t : Tok} (h : tokOk t = true) : kwClean t = true := by
  simp only [tokOk, Bool.and_eq_true] at h; exact h.1

theorem notP_ok (neg : Bool) : (toksOf (notP neg)).all kwTokOk = true := by
  cases neg
  · rfl
  · simp [notP, tokOk_kwTokOk tokOk_NOT]

theorem likeKind_ok (k : LikeKind) : (toksOf k.pieces).all kwTokOk = true := by
  cases k <;> decide +kernel

theorem isKind_ok (k : IsKind) : (toksOf k.pieces).all kwTokOk = true := by
  cases k <;> decide +kernel

theorem anyP_ok (any : Bool) : (toksOf (if any = true then [kwP true "ANY"] else [])).all kwTokOk = true := by
  cases any
  · rfl
  · simp [tokOk_kwTokOk tokOk_ANY]

theorem cast_ok (ops : List Tok) : (toksOf (castPieces ops)).all kwTokOk = true := by
  unfold castPieces
  split
  · simp only [Pratt.toksOf_cons, Pratt.toksOf_nil, symP_tok, List.all_cons, List.all_nil, kwTokOk_kwTi, Bool.and_true]; rfl
  · rfl

theorem esc_ok (esc : List Tok) : (toksOf (escPieces esc)).all kwTokOk = true := by
  unfold escPieces
  split <;>
    (simp only [Pratt.toksOf_cons, Pratt.toksOf_nil, kwP_tok, List.all_cons, List.all_nil, tokOk_kwTokOk tokOk_ESCAPE,
      Bool.and_true, Bool.true_and]; rfl)

theorem atom_ok (k : AtomKind) (toks : List Tok) (hp : atomPrintable k toks = true) (h : toks.all kwTokOk = true) :
    (toksOf (atomPieces k toks)).all kwTokOk = true := by
  fun_cases atomPieces k toks
  all_goals first
    | (simpa [toksOf, Function.comp_def] using h; done)
    | (simp [toksOf, kwTokOk]; done)
    | skip
  · decide +kernel
  · decide +kernel
  · simp [tokOk_kwTokOk tokOk_NULL]

theorem sepComma_ok (b : Bool) : (if b = true then [] else [Tok.sym Sym.Comma]).all kwTokOk = true := by
  cases b <;> rfl

theorem norm_kwTokOk (e : Expr) (hp : e.printable = true) (h : e.flatten.all kwTokOk = true) :
    e.norm.flatten.all kwTokOk = true := by
  have kIS := tokOk_kwTokOk tokOk_IS
  have kDI := tokOk_kwTokOk tokOk_DISTINCT
  have kFR := tokOk_kwTokOk tokOk_FROM
  have kAT := tokOk_kwTokOk tokOk_AT
  have kTI := tokOk_kwTokOk tokOk_TIME
  have kZO := tokOk_kwTokOk tokOk_ZONE
  have kBE := tokOk_kwTokOk tokOk_BETWEEN
  have kAN := tokOk_kwTokOk tokOk_AND
  have kIN := tokOk_kwTokOk tokOk_IN
  have kL : kwTokOk (.sym .LParen) = true := rfl
  have kR : kwTokOk (.sym .RParen) = true := rfl
  have kE : kwTokOk (.sym .ExclamationMark) = true := rfl
  fun_induction Expr.norm e <;>
    simp only [Expr.flatten, Expr.printable, List.all_append, List.all_cons, List.all_nil, Bool.and_eq_true, Bool.and_true,
      likeOps, Pratt.toksOf_append, Pratt.toksOf_cons, Pratt.toksOf_nil, kwP_tok, symP_tok] at hp h ⊢
  case case1 k toks => exact atom_ok k toks hp.1 h
  case case7 k neg any l ops r ih2 ih1 =>
    have hp' : l.printable = true ∧ r.printable = true := by
      cases k <;> simp only [Expr.printable, Bool.and_eq_true] at hp <;> first | exact ⟨hp.1.2, hp.2⟩ | exact ⟨hp.1.2, hp.2⟩
    exact ⟨⟨ih2 hp'.1 h.1.1, ⟨notP_ok _, likeKind_ok _⟩, anyP_ok _⟩, ih1 hp'.2 h.2⟩
  all_goals
    simp only [kIS, kDI, kFR, kAT, kTI, kZO, kBE, kAN, kIN, kL, kR, kE, notP_ok, likeKind_ok, isKind_ok, anyP_ok, cast_ok,
      esc_ok, binop_tok_ok, unop_tok_ok, quant_tok_ok, sepComma_ok, and_true, true_and]
  all_goals first
    | (rename_i ih1; exact ih1 (by simp only [hp]) (by simp only [h]))
    | (rename_i ih2 ih1; exact ⟨ih2 (by simp only [hp]) (by simp only [h]), ih1 (by simp only [hp]) (by simp only [h])⟩)
    | (rename_i ih3 ih2 ih1
       exact ⟨⟨ih3 (by simp only [hp]) (by simp only [h]), ih2 (by simp only [hp]) (by simp only [h])⟩,
         ih1 (by simp only [hp]) (by simp only [h])⟩)
    | trace_state

/-- a faithful parse result (`faithful_all`) has the same image as its printed normal form -/
theorem expr_faith (e : Expr) (hw : e.norm.mapT canon1 = e.mapT canon1) (hp : e.printable = true)
    (ht : e.flatten.all kwTokOk = true) : e.norm.mapT qc = e.mapT qc := by
  apply mapT_flatten_inj canon
  · rw [mapT_canon_qc, mapT_canon_qc]; exact mapT_canon_of_canon1 hw
  · rw [flatten_mapT_qc, flatten_mapT_qc]
    apply map_qc_of_canon1 _ _ _ (norm_kwTokOk e hp ht) ht
    rw [← flatten_mapT_canon1, ← flatten_mapT_canon1, hw]

-- ------------------------------------------------------------------ normal shapes (decidable)
def sepNormal {α : Type} (p : α → Bool) : Sep α → Bool
  | [] => true
  | [x] => p x.1 && x.2.isEmpty
  | x :: y :: rest => p x.1 && sepNormal p (y :: rest)

/-- an alias is absent or written with `AS` -/
def aliasNormal (al : List Tok) : Bool := al.length != 1

def SelectItem.normal : SelectItem → Bool
  | .expr _ al => aliasNormal al
  | _ => true

/-- `[LIMIT e] [OFFSET e]` in this order, nothing else -/
def limsNormal : List LimClause → Bool
  | [] => true
  | [.limit _ _] => true
  | [.offset _ _ _] => true
  | [.limit _ _, .offset _ _ _] => true
  | _ => false

def QueryTail.normal (qt : QueryTail) : Bool := sepNormal (fun _ => true) qt.order && limsNormal qt.lims

/-- no `SELECT ALL`; no trailing comma -/
def SelHead.normal (hd : SelHead) : Bool := (hd.distinct || hd.quant.isEmpty) && sepNormal SelectItem.normal hd.proj

def SelTail.normal (tl : SelTail) : Bool := sepNormal (fun _ => true) tl.group

/-- join keywords without `INNER` / `OUTER` -/
def Conn.normal : Conn → Bool
  | .join k toks => toks.length == k.pieces.length
  | _ => true

def JoinCstr.normal : JoinCstr → Bool
  | .using _ _ cols _ => sepNormal (fun _ => true) cols
  | _ => true

/-- The shapes whose printed form is a token-by-token image of the source: aliases written with
`AS`, no `SELECT ALL`, joins without `INNER` / `OUTER`, no trailing commas, `LIMIT` before `OFFSET`,
no `LIMIT ALL`, no `LIMIT a, b`. -/
def QNode.normal : QNode → Bool
  | .select hd frm tl => hd.normal && frm.normal && tl.normal
  | .paren _ body qt _ => body.normal && qt.normal
  | .setOp l _ _ _ r => l.normal && r.normal
  | .fnil trail => trail.isEmpty
  | .ftable conn _ al cstr rest => conn.normal && aliasNormal al && cstr.normal && rest.normal
  | .fderived conn _ body qt _ al cstr rest =>
    conn.normal && body.normal && qt.normal && aliasNormal al && cstr.normal && rest.normal

def Query.normal (q : Query) : Bool := q.body.normal && q.tail.normal

-- ------------------------------------------------------------------ what the parser guarantees
/-- the tokens are the keywords `ks`, one by one -/
def isKwL : List Tok → List Nat → Prop
  | [], [] => True
  | t :: ts, k :: ks => t.isKw k = true ∧ isKwL ts ks
  | _, _ => False

def ExprWF (e : Expr) : Prop := e.printable = true → e.norm.mapT canon1 = e.mapT canon1

def aliasWF (al : List Tok) : Prop := al = [] ∨ (∃ t, al = [t]) ∨ (∃ a t, al = [a, t] ∧ a.isKw K.AS = true)

def sepWF {α : Type} (P : α → Prop) : Sep α → Prop
  | [] => True
  | [x] => P x.1 ∧ (x.2 = [] ∨ x.2 = [.sym .Comma])
  | x :: y :: rest => P x.1 ∧ x.2 = [.sym .Comma] ∧ sepWF P (y :: rest)

def SelectItem.WF : SelectItem → Prop
  | .expr e al => ExprWF e ∧ aliasWF al
  | .wildcard t => t = .sym .Mul
  | .qualified _ => True

def dirWF (dir : List Tok) : Prop := dir = [] ∨ ∃ t, dir = [t] ∧ (t.isKw K.ASC = true ∨ t.isKw K.DESC = true)
def nullsWF (n : List Tok) : Prop :=
  n = [] ∨ ∃ a b, n = [a, b] ∧ a.isKw K.NULLS = true ∧ (b.isKw K.FIRST = true ∨ b.isKw K.LAST = true)
def rowsWF (rows : List Tok) : Prop := rows = [] ∨ ∃ t, rows = [t] ∧ (t.isKw K.ROW = true ∨ t.isKw K.ROWS = true)

def OrderByExpr.WF (o : OrderByExpr) : Prop := ExprWF o.e ∧ dirWF o.dir ∧ nullsWF o.nulls

def LimClause.WF : LimClause → Prop
  | .limit kw e => kw.isKw K.LIMIT = true ∧ ExprWF e
  | .limitAll _ _ => True
  | .offset kw e rows => kw.isKw K.OFFSET = true ∧ ExprWF e ∧ rowsWF rows
  | .comma _ _ => True

def QueryTail.WF (qt : QueryTail) : Prop :=
  ((qt.orderKw = [] ∧ qt.order = []) ∨ (isKwL qt.orderKw [K.ORDER, K.BY] ∧ qt.order ≠ [])) ∧
  sepWF OrderByExpr.WF qt.order ∧ ∀ cl ∈ qt.lims, cl.WF

def SelHead.WF (hd : SelHead) : Prop :=
  hd.sel.isKw K.SELECT = true ∧ (hd.distinct = true → ∃ t, hd.quant = [t] ∧ t.isKw K.DISTINCT = true) ∧
  sepWF SelectItem.WF hd.proj

def kwExprWF (k : Nat) (kws : List Tok) (oe : Option Expr) : Prop :=
  (kws = [] ∧ oe = none) ∨ ∃ t e, kws = [t] ∧ t.isKw k = true ∧ oe = some e ∧ ExprWF e

def SelTail.WF (tl : SelTail) : Prop :=
  kwExprWF K.WHERE tl.whereKw tl.selection ∧
  ((tl.groupKw = [] ∧ tl.group = []) ∨ (isKwL tl.groupKw [K.GROUP, K.BY] ∧ tl.group ≠ [])) ∧
  sepWF ExprWF tl.group ∧ kwExprWF K.HAVING tl.havingKw tl.having

def joinToksWF : JoinKind → List Tok → Prop
  | .inner, toks => isKwL toks [K.JOIN] ∨ isKwL toks [K.INNER, K.JOIN]
  | .left, toks => isKwL toks [K.LEFT, K.JOIN] ∨ isKwL toks [K.LEFT, K.OUTER, K.JOIN]
  | .right, toks => isKwL toks [K.RIGHT, K.JOIN] ∨ isKwL toks [K.RIGHT, K.OUTER, K.JOIN]
  | .full, toks => isKwL toks [K.FULL, K.JOIN] ∨ isKwL toks [K.FULL, K.OUTER, K.JOIN]
  | .cross, toks => isKwL toks [K.CROSS, K.JOIN]

def Conn.WF : Conn → Prop
  | .from t => t.isKw K.FROM = true
  | .comma t => t = .sym .Comma
  | .join k toks => joinToksWF k toks

def JoinCstr.WF : JoinCstr → Prop
  | .none => True
  | .on kw e => kw.isKw K.ON = true ∧ ExprWF e
  | .using kw lp cols rp => kw.isKw K.USING = true ∧ lp = .sym .LParen ∧ rp = .sym .RParen ∧ sepWF (fun _ => True) cols

def quantWF : SQuant → List Tok → Prop
  | .none, qs => qs = []
  | .all, qs => isKwL qs [K.ALL]
  | .distinct, qs => isKwL qs [K.DISTINCT]
  | .byName, qs => isKwL qs [K.BY, K.NAME]
  | .allByName, qs => isKwL qs [K.ALL, K.BY, K.NAME]
  | .distinctByName, qs => isKwL qs [K.DISTINCT, K.BY, K.NAME]

def setOpsWF (o : Op) (q : SQuant) (ops : List Tok) : Prop :=
  ∃ t qs, ops = t :: qs ∧ setOpOf t = some o ∧ quantWF q qs

def QNode.WF : QNode → Prop
  | .select hd frm tl => hd.WF ∧ frm.WF ∧ tl.WF
  | .paren lp body qt rp => lp = .sym .LParen ∧ rp = .sym .RParen ∧ body.WF ∧ qt.WF
  | .setOp l o q ops r => l.WF ∧ r.WF ∧ setOpsWF o q ops
  | .fnil trail => trail = [] ∨ trail = [.sym .Comma]
  | .ftable conn _ al cstr rest => conn.WF ∧ aliasWF al ∧ cstr.WF ∧ rest.WF
  | .fderived conn lp body qt rp al cstr rest =>
    conn.WF ∧ lp = .sym .LParen ∧ rp = .sym .RParen ∧ body.WF ∧ qt.WF ∧ aliasWF al ∧ cstr.WF ∧ rest.WF

def Query.WF (q : Query) : Prop := q.body.WF ∧ q.tail.WF

-- ------------------------------------------------------------------ structural faithfulness
theorem kwT_isKw (n : String) : (kwT n).isKw (kwIndex n) = true := by simp [kwT, Tok.isKw]

theorem qc_kwT {t : Tok} {n : String} (h : t.isKw (kwIndex n) = true) (ht : tokOk t = true) (hn : tokOk (kwT n) = true) :
    qc (kwT n) = qc t := qc_of_kw (kwT_isKw n) h hn ht

theorem isKw_unique {t : Tok} {k k' : Nat} (h : t.isKw k = true) (h' : t.isKw k' = true) : k = k' := by
  cases t with
  | word v q kw =>
    cases kw with
    | none => simp [Tok.isKw] at h
    | some i => simp only [Tok.isKw, beq_iff_eq] at h h'; rw [← h, ← h']
  | _ => simp [Tok.isKw] at h

theorem alias_faith (al : List Tok) (hw : aliasWF al) (hn : aliasNormal al = true) (ht : al.all tokOk = true) :
    (aliasNorm al).map qc = al.map qc := by
  rcases hw with rfl | ⟨t, rfl⟩ | ⟨a, t, rfl, ha⟩
  · rfl
  · simp [aliasNormal] at hn
  · simp only [List.all_cons, Bool.and_eq_true] at ht
    simp [aliasNorm, qc_kwT (n := "AS") ha ht.1 tokOk_AS]

theorem sep_faith {α : Type} (P : α → Prop) (p : α → Bool) (fl : α → List Tok) (M N : α → α)
    (hel : ∀ v, P v → p v = true → (fl v).all tokOk = true → M (N v) = M v) :
    ∀ l : Sep α, sepWF P l → sepNormal p l = true → (sepFlat fl l).all tokOk = true →
      sepMap M qc (sepNorm N l) = sepMap M qc l := by
  intro l
  induction l with
  | nil => intro _ _ _; rfl
  | cons x rest ih =>
    intro hw hn ht
    cases rest with
    | nil =>
      simp only [sepWF, sepNormal, Bool.and_eq_true, List.isEmpty_iff, sepFlat, List.all_append] at hw hn ht
      simp only [sepNorm, sepMap, List.map_cons, List.map_nil, hel _ hw.1 hn.1 ht.1.1, hn.2]
    | cons y rest2 =>
      simp only [sepWF, sepNormal, Bool.and_eq_true, sepFlat, List.all_append] at hw hn ht ih
      have := ih hw.2.2 hn.2 (by simpa [sepFlat, List.all_append, Bool.and_eq_true] using ht.2)
      simp only [sepNorm, sepMap, List.map_cons, hel _ hw.1 hn.1 ht.1.1, hw.2.1] at this ⊢
      rw [this]

theorem item_faith (v : SelectItem) (hw : v.WF) (hn : v.normal = true) (hp : v.printable = true)
    (ht : v.flatten.all tokOk = true) : v.norm.mapT qc = v.mapT qc := by
  cases v with
  | expr e al =>
    simp only [SelectItem.WF, SelectItem.normal, SelectItem.printable, SelectItem.flatten, List.all_append,
      Bool.and_eq_true] at hw hn hp ht
    have hk : e.flatten.all kwTokOk = true :=
      List.all_eq_true.2 fun t h => tokOk_kwTokOk (List.all_eq_true.1 ht.1 t h)
    simp only [SelectItem.norm, SelectItem.mapT, expr_faith e (hw.1 hp) hp hk, alias_faith al hw.2 hn ht.2]
  | wildcard t =>
    simp only [SelectItem.WF] at hw
    subst hw; rfl
  | qualified toks => rfl

theorem flatten_kwTokOk {l : List Tok} (h : l.all tokOk = true) : l.all kwTokOk = true :=
  List.all_eq_true.2 fun t ht => tokOk_kwTokOk (List.all_eq_true.1 h t ht)

theorem ASC_ne_DESC : K.ASC ≠ K.DESC := by decide +kernel
theorem FIRST_ne_LAST : K.FIRST ≠ K.LAST := by decide +kernel
theorem ROW_ne_ROWS : K.ROW ≠ K.ROWS := by decide +kernel

theorem dir_faith (dir : List Tok) (hw : dirWF dir) (ht : dir.all tokOk = true) : (dirNorm dir).map qc = dir.map qc := by
  rcases hw with rfl | ⟨t, rfl, h | h⟩
  · rfl
  · simp only [List.all_cons, List.all_nil, Bool.and_true] at ht
    simp [dirNorm, h, qc_kwT (n := "ASC") h ht tokOk_ASC]
  · simp only [List.all_cons, List.all_nil, Bool.and_true] at ht
    have : t.isKw K.ASC = false := by
      cases hh : t.isKw K.ASC
      · rfl
      · exact absurd (isKw_unique hh h) ASC_ne_DESC
    simp [dirNorm, this, qc_kwT (n := "DESC") h ht tokOk_DESC]

theorem nulls_faith (n : List Tok) (hw : nullsWF n) (ht : n.all tokOk = true) : (nullsNorm n).map qc = n.map qc := by
  rcases hw with rfl | ⟨a, b, rfl, ha, h | h⟩
  · rfl
  · simp only [List.all_cons, List.all_nil, Bool.and_true, Bool.and_eq_true] at ht
    simp [nullsNorm, h, qc_kwT (n := "NULLS") ha ht.1 tokOk_NULLS, qc_kwT (n := "FIRST") h ht.2 tokOk_FIRST]
  · simp only [List.all_cons, List.all_nil, Bool.and_true, Bool.and_eq_true] at ht
    have : b.isKw K.FIRST = false := by
      cases hh : b.isKw K.FIRST
      · rfl
      · exact absurd (isKw_unique hh h) FIRST_ne_LAST
    simp [nullsNorm, this, qc_kwT (n := "NULLS") ha ht.1 tokOk_NULLS, qc_kwT (n := "LAST") h ht.2 tokOk_LAST]

theorem rows_faith (rows : List Tok) (hw : rowsWF rows) (ht : rows.all tokOk = true) : (rowsNorm rows).map qc = rows.map qc := by
  rcases hw with rfl | ⟨t, rfl, h | h⟩
  · rfl
  · simp only [List.all_cons, List.all_nil, Bool.and_true] at ht
    simp [rowsNorm, h, qc_kwT (n := "ROW") h ht tokOk_ROW]
  · simp only [List.all_cons, List.all_nil, Bool.and_true] at ht
    have : t.isKw K.ROW = false := by
      cases hh : t.isKw K.ROW
      · rfl
      · exact absurd (isKw_unique hh h) ROW_ne_ROWS
    simp [rowsNorm, this, qc_kwT (n := "ROWS") h ht tokOk_ROWS]

theorem order_faith (o : OrderByExpr) (hw : o.WF) (hp : o.e.printable = true) (ht : o.flatten.all tokOk = true) :
    o.norm.mapT qc = o.mapT qc := by
  obtain ⟨e, dir, nulls⟩ := o
  simp only [OrderByExpr.WF, OrderByExpr.flatten, List.all_append, Bool.and_eq_true] at hw hp ht
  simp only [OrderByExpr.norm, OrderByExpr.mapT, expr_faith e (hw.1 hp) hp (flatten_kwTokOk ht.1.1),
    dir_faith dir hw.2.1 ht.1.2, nulls_faith nulls hw.2.2 ht.2]

theorem sepNormal_and {α : Type} (p q : α → Bool) : ∀ l : Sep α, sepNormal p l = true → l.all (fun x => q x.1) = true →
    sepNormal (fun v => p v && q v) l = true := by
  intro l
  induction l with
  | nil => intro _ _; rfl
  | cons x rest ih =>
    intro h1 h2
    cases rest with
    | nil => simp_all [sepNormal]
    | cons y r2 =>
      simp only [sepNormal, Bool.and_eq_true, List.all_cons] at h1 h2 ih ⊢
      exact ⟨⟨h1.1, h2.1⟩, ih h1.2 (by simpa using h2.2)⟩

theorem limsNormal_cases (lims : List LimClause) (h : limsNormal lims = true) :
    lims = [] ∨ (∃ kw e, lims = [.limit kw e]) ∨ (∃ kw e rows, lims = [.offset kw e rows]) ∨
      (∃ kw e kw2 e2 rows, lims = [.limit kw e, .offset kw2 e2 rows]) := by
  unfold limsNormal at h
  split at h <;> simp_all

theorem lims_faith (lims : List LimClause) (hw : ∀ cl ∈ lims, cl.WF) (hn : limsNormal lims = true)
    (hp : lims.all LimClause.printable = true) (ht : (limsFlat lims).all tokOk = true) :
    (limsNorm (limSem lims)).map (LimClause.mapT qc) = lims.map (LimClause.mapT qc) := by
  rcases limsNormal_cases lims hn with rfl | ⟨kw, e, rfl⟩ | ⟨kw, e, rows, rfl⟩ | ⟨kw, e, kw2, e2, rows, rfl⟩
  · rfl
  ·
    have h1 := hw _ (List.mem_cons_self ..)
    simp only [LimClause.WF, limsFlat, LimClause.flatten, List.all_append, List.all_cons, List.all_nil, Bool.and_eq_true,
      Bool.and_true, LimClause.printable] at h1 hp ht
    simp [limSem, limsNorm, LimClause.mapT, expr_faith e (h1.2 hp) hp (flatten_kwTokOk ht.2),
      qc_kwT (n := "LIMIT") h1.1 ht.1 tokOk_LIMIT]
  ·
    have h1 := hw _ (List.mem_cons_self ..)
    simp only [LimClause.WF, limsFlat, LimClause.flatten, List.all_append, List.all_cons, List.all_nil, Bool.and_eq_true,
      Bool.and_true, LimClause.printable] at h1 hp ht
    simp [limSem, limsNorm, LimClause.mapT, expr_faith e (h1.2.1 hp) hp (flatten_kwTokOk ht.1.2),
      qc_kwT (n := "OFFSET") h1.1 ht.1.1 tokOk_OFFSET, rows_faith rows h1.2.2 ht.2]
  ·
    have h1 := hw _ (List.mem_cons_self ..)
    have h2 := hw (.offset kw2 e2 rows) (by simp)
    simp only [LimClause.WF, limsFlat, LimClause.flatten, List.all_append, List.all_cons, List.all_nil, Bool.and_eq_true,
      Bool.and_true, LimClause.printable] at h1 h2 hp ht
    simp [limSem, limsNorm, LimClause.mapT, expr_faith e (h1.2 hp.1) hp.1 (flatten_kwTokOk ht.1.2),
      qc_kwT (n := "LIMIT") h1.1 ht.1.1 tokOk_LIMIT, expr_faith e2 (h2.2.1 hp.2) hp.2 (flatten_kwTokOk ht.2.1.2),
      qc_kwT (n := "OFFSET") h2.1 ht.2.1.1 tokOk_OFFSET, rows_faith rows h2.2.2 ht.2.2]

theorem kwL2_faith {toks : List Tok} {n1 n2 : String} (h : isKwL toks [kwIndex n1, kwIndex n2])
    (ht : toks.all tokOk = true) (h1 : tokOk (kwT n1) = true) (h2 : tokOk (kwT n2) = true) :
    [qc (kwT n1), qc (kwT n2)] = toks.map qc := by
  match toks, h with
  | [a, b], h =>
    simp only [isKwL, and_true] at h
    simp only [List.all_cons, List.all_nil, Bool.and_true, Bool.and_eq_true] at ht
    simp [qc_kwT h.1 ht.1 h1, qc_kwT h.2 ht.2 h2]

theorem tail_faith (qt : QueryTail) (hw : qt.WF) (hn : qt.normal = true) (hp : qt.printable = true)
    (ht : qt.flatten.all tokOk = true) : qt.norm.mapT qc = qt.mapT qc := by
  obtain ⟨ok, order, lims⟩ := qt
  simp only [QueryTail.WF, QueryTail.normal, QueryTail.printable, QueryTail.flatten, List.all_append, Bool.and_eq_true]
    at hw hn hp ht
  have hs := sep_faith OrderByExpr.WF (fun o => true && o.e.printable) OrderByExpr.flatten (OrderByExpr.mapT qc)
    OrderByExpr.norm (fun v h1 h2 h3 => order_faith v h1 (by simpa using h2) h3) order hw.2.1
    (sepNormal_and _ _ _ hn.1 hp.1.1) ht.1.2
  have hl := lims_faith lims hw.2.2 hn.2 hp.1.2 ht.2
  simp only [QueryTail.norm, QueryTail.mapT, hs, hl, QueryTail.mk.injEq, and_true]
  rcases hw.1 with ⟨rfl, rfl⟩ | ⟨hk, hne⟩
  · rfl
  · have : order.isEmpty = false := by cases order <;> simp_all
    simp only [this, Bool.false_eq_true, if_false, List.map_cons, List.map_nil]
    exact kwL2_faith (n1 := "ORDER") (n2 := "BY") hk ht.1.1 tokOk_ORDER tokOk_BY

theorem head_faith (hd : SelHead) (hw : hd.WF) (hn : hd.normal = true) (hp : hd.printable = true)
    (ht : hd.flatten.all tokOk = true) : hd.norm.mapT qc = hd.mapT qc := by
  obtain ⟨sel, quant, distinct, proj⟩ := hd
  simp only [SelHead.WF, SelHead.normal, SelHead.printable, SelHead.flatten, List.all_append, List.all_cons,
    Bool.and_eq_true, Bool.or_eq_true] at hw hn hp ht
  have hs := sep_faith SelectItem.WF (fun v => v.normal && v.printable) SelectItem.flatten (SelectItem.mapT qc)
    SelectItem.norm (fun v h1 h2 h3 => by
      simp only [Bool.and_eq_true] at h2
      exact item_faith v h1 h2.1 h2.2 h3) proj hw.2.2 (sepNormal_and _ _ _ hn.2 hp) ht.2
  simp only [SelHead.norm, SelHead.mapT, hs, SelHead.mk.injEq, and_true, qc_kwT (n := "SELECT") hw.1 ht.1.1 tokOk_SELECT,
    true_and]
  cases distinct with
  | true =>
    obtain ⟨t, rfl, hk⟩ := hw.2.1 rfl
    simp only [List.all_cons, List.all_nil, Bool.and_true] at ht
    simp [qc_kwT (n := "DISTINCT") hk ht.1.2 tokOk_DISTINCT]
  | false =>
    rcases hn.1 with h | h
    · cases h
    · have : quant = [] := by simpa using h
      subst this; simp

theorem kwExpr_faith {n : String} (kws : List Tok) (oe : Option Expr) (hw : kwExprWF (kwIndex n) kws oe)
    (hn : tokOk (kwT n) = true) (hp : optPrintable oe = true) (ht : kws.all tokOk = true)
    (ht2 : (optFlat oe).all tokOk = true) :
    (match oe with | some _ => [kwT n] | none => []).map qc = kws.map qc ∧
      (oe.map Expr.norm).map (Expr.mapT qc) = oe.map (Expr.mapT qc) := by
  rcases hw with ⟨rfl, rfl⟩ | ⟨t, e, rfl, hk, rfl, he⟩
  · exact ⟨rfl, rfl⟩
  · simp only [List.all_cons, List.all_nil, Bool.and_true, optPrintable, optFlat] at ht hp ht2
    simp [qc_kwT hk ht hn, expr_faith e (he hp) hp (flatten_kwTokOk ht2)]

theorem selTail_faith (tl : SelTail) (hw : tl.WF) (hn : tl.normal = true) (hp : tl.printable = true)
    (ht : tl.flatten.all tokOk = true) : tl.norm.mapT qc = tl.mapT qc := by
  obtain ⟨wk, sel, gk, grp, hk, hav⟩ := tl
  simp only [SelTail.WF, SelTail.normal, SelTail.printable, SelTail.flatten, List.all_append, Bool.and_eq_true]
    at hw hn hp ht
  have h1 := kwExpr_faith (n := "WHERE") wk sel hw.1 tokOk_WHERE hp.1.1 ht.1.1.1.1.1 ht.1.1.1.1.2
  have h3 := kwExpr_faith (n := "HAVING") hk hav hw.2.2.2 tokOk_HAVING hp.2 ht.1.2 ht.2
  have hs := sep_faith ExprWF (fun e => true && e.printable) Expr.flatten (Expr.mapT qc) Expr.norm
    (fun v h1 h2 h3 => by
      have hp' : v.printable = true := by simpa using h2
      exact expr_faith v (h1 hp') hp' (flatten_kwTokOk h3)) grp hw.2.2.1 (sepNormal_and _ _ _ hn hp.1.2) ht.1.1.2
  simp only [SelTail.norm, SelTail.mapT, hs, h1.2, h3.2, SelTail.mk.injEq, and_true, true_and]
  refine ⟨h1.1, ?_, h3.1⟩
  rcases hw.2.1 with ⟨rfl, rfl⟩ | ⟨hkk, hne⟩
  · rfl
  · have : grp.isEmpty = false := by cases grp <;> simp_all
    simp only [this, Bool.false_eq_true, if_false, List.map_cons, List.map_nil]
    exact kwL2_faith (n1 := "GROUP") (n2 := "BY") hkk ht.1.1.1.2 tokOk_GROUP tokOk_BY

theorem kwL1_faith {toks : List Tok} {n1 : String} (h : isKwL toks [kwIndex n1])
    (ht : toks.all tokOk = true) (h1 : tokOk (kwT n1) = true) : [qc (kwT n1)] = toks.map qc := by
  match toks, h with
  | [a], h =>
    simp only [isKwL, and_true] at h
    simp only [List.all_cons, List.all_nil, Bool.and_true] at ht
    simp [qc_kwT h ht h1]

theorem kwL3_faith {toks : List Tok} {n1 n2 n3 : String} (h : isKwL toks [kwIndex n1, kwIndex n2, kwIndex n3])
    (ht : toks.all tokOk = true) (h1 : tokOk (kwT n1) = true) (h2 : tokOk (kwT n2) = true) (h3 : tokOk (kwT n3) = true) :
    [qc (kwT n1), qc (kwT n2), qc (kwT n3)] = toks.map qc := by
  match toks, h with
  | [a, b, c], h =>
    simp only [isKwL, and_true] at h
    simp only [List.all_cons, List.all_nil, Bool.and_true, Bool.and_eq_true] at ht
    simp [qc_kwT h.1 ht.1 h1, qc_kwT h.2.1 ht.2.1 h2, qc_kwT h.2.2 ht.2.2 h3]

theorem isKwL_length {toks : List Tok} {ks : List Nat} (h : isKwL toks ks) : toks.length = ks.length := by
  induction toks generalizing ks with
  | nil => cases ks <;> simp_all [isKwL]
  | cons t r ih =>
    cases ks with
    | nil => simp [isKwL] at h
    | cons k ks => simp only [isKwL] at h; simp [ih h.2]

theorem conn_faith (conn : Conn) (hw : conn.WF) (hn : conn.normal = true) (ht : conn.toks.all tokOk = true) :
    conn.norm.mapT qc = conn.mapT qc := by
  cases conn with
  | «from» t =>
    simp only [Conn.WF, Conn.toks, List.all_cons, List.all_nil, Bool.and_true] at hw ht
    simp [Conn.norm, Conn.mapT, qc_kwT (n := "FROM") hw ht tokOk_FROM]
  | comma t => simp only [Conn.WF] at hw; subst hw; rfl
  | join k toks =>
    simp only [Conn.WF, Conn.normal, Conn.toks, beq_iff_eq] at hw hn ht
    simp only [Conn.norm, Conn.mapT, Conn.join.injEq, true_and]
    cases k with
    | inner =>
      rcases hw with h | h
      · exact kwL1_faith (n1 := "JOIN") h ht tokOk_JOIN
      · have := isKwL_length h; rw [this] at hn; simp [JoinKind.pieces] at hn
    | left =>
      rcases hw with h | h
      · exact kwL2_faith (n1 := "LEFT") (n2 := "JOIN") h ht tokOk_LEFT tokOk_JOIN
      · have := isKwL_length h; rw [this] at hn; simp [JoinKind.pieces] at hn
    | right =>
      rcases hw with h | h
      · exact kwL2_faith (n1 := "RIGHT") (n2 := "JOIN") h ht tokOk_RIGHT tokOk_JOIN
      · have := isKwL_length h; rw [this] at hn; simp [JoinKind.pieces] at hn
    | full =>
      rcases hw with h | h
      · exact kwL2_faith (n1 := "FULL") (n2 := "JOIN") h ht tokOk_FULL tokOk_JOIN
      · have := isKwL_length h; rw [this] at hn; simp [JoinKind.pieces] at hn
    | cross => exact kwL2_faith (n1 := "CROSS") (n2 := "JOIN") hw ht tokOk_CROSS tokOk_JOIN

theorem cstr_faith (k : JoinCstr) (hw : k.WF) (hn : k.normal = true) (hp : k.printable = true)
    (ht : k.flatten.all tokOk = true) : k.norm.mapT qc = k.mapT qc := by
  cases k with
  | none => rfl
  | on kw e =>
    simp only [JoinCstr.WF, JoinCstr.printable, JoinCstr.flatten, List.all_cons, Bool.and_eq_true] at hw hp ht
    simp [JoinCstr.norm, JoinCstr.mapT, qc_kwT (n := "ON") hw.1 ht.1 tokOk_ON,
      expr_faith e (hw.2 hp) hp (flatten_kwTokOk ht.2)]
  | «using» kw lp cols rp =>
    simp only [JoinCstr.WF, JoinCstr.normal, JoinCstr.flatten, List.all_cons, List.all_append, Bool.and_eq_true] at hw hn ht
    obtain ⟨h1, rfl, rfl, h4⟩ := hw
    have hs := sep_faith (fun _ => True) (fun _ => true) (fun t => [t]) qc id (fun v _ _ _ => rfl) cols h4 hn ht.1.2.2
    simp [JoinCstr.norm, JoinCstr.mapT, qc_kwT (n := "USING") h1 ht.1.1 tokOk_USING, hs]

theorem setOp_tok_faith (t : Tok) (o : Op) (h : setOpOf t = some o) (ht : tokOk t = true) : qc (opPiece o).tok = qc t := by
  unfold setOpOf at h
  split at h
  · rename_i hk; simp at h; subst h; exact qc_kwT (n := "UNION") hk ht tokOk_UNION
  · split at h
    · rename_i hk; simp at h; subst h; exact qc_kwT (n := "EXCEPT") hk ht tokOk_EXCEPT
    · split at h
      · rename_i hk; simp at h; subst h; exact qc_kwT (n := "INTERSECT") hk ht tokOk_INTERSECT
      · simp at h

theorem quant_faith (q : SQuant) (qs : List Tok) (h : quantWF q qs) (ht : qs.all tokOk = true) :
    (toksOf (quantPieces q)).map qc = qs.map qc := by
  cases q with
  | none => simp only [quantWF] at h; subst h; rfl
  | all => exact kwL1_faith (n1 := "ALL") h ht tokOk_ALL
  | distinct => exact kwL1_faith (n1 := "DISTINCT") h ht tokOk_DISTINCT
  | byName => exact kwL2_faith (n1 := "BY") (n2 := "NAME") h ht tokOk_BY tokOk_NAME
  | allByName => exact kwL3_faith (n1 := "ALL") (n2 := "BY") (n3 := "NAME") h ht tokOk_ALL tokOk_BY tokOk_NAME
  | distinctByName =>
    exact kwL3_faith (n1 := "DISTINCT") (n2 := "BY") (n3 := "NAME") h ht tokOk_DISTINCT tokOk_BY tokOk_NAME

theorem node_faith (n : QNode) (hw : n.WF) (hn : n.normal = true) (hp : n.printable = true)
    (ht : n.flatten.all tokOk = true) : n.norm.mapT qc = n.mapT qc := by
  induction n with
  | select hd frm tl ih =>
    simp only [QNode.WF, QNode.normal, QNode.printable, QNode.flatten, List.all_append, Bool.and_eq_true] at hw hn hp ht
    simp only [QNode.norm, QNode.mapT, head_faith hd hw.1 hn.1.1 hp.1.1 ht.1.1, ih hw.2.1 hn.1.2 hp.1.2 ht.1.2,
      selTail_faith tl hw.2.2 hn.2 hp.2 ht.2]
  | paren lp body qt rp ih =>
    simp only [QNode.WF, QNode.normal, QNode.printable, QNode.flatten, List.all_append, List.all_cons, Bool.and_eq_true]
      at hw hn hp ht
    obtain ⟨rfl, rfl, h3, h4⟩ := hw
    simp only [QNode.norm, QNode.mapT, ih h3 hn.1 hp.1 ht.1.1.2, tail_faith qt h4 hn.2 hp.2 ht.1.2]
  | setOp l o q ops r ihl ihr =>
    simp only [QNode.WF, QNode.normal, QNode.printable, QNode.flatten, List.all_append, Bool.and_eq_true] at hw hn hp ht
    obtain ⟨h1, h2, t, qs, rfl, h3, h4⟩ := hw
    simp only [List.all_cons, Bool.and_eq_true] at ht
    simp only [QNode.norm, QNode.mapT, ihl h1 hn.1 hp.1 ht.1.1, ihr h2 hn.2 hp.2 ht.2, List.map_cons,
      setOp_tok_faith t o h3 ht.1.2.1, quant_faith q qs h4 ht.1.2.2]
  | fnil trail =>
    simp only [QNode.normal, List.isEmpty_iff] at hn
    subst hn; rfl
  | ftable conn name al cstr rest ih =>
    simp only [QNode.WF, QNode.normal, QNode.printable, QNode.flatten, List.all_append, Bool.and_eq_true] at hw hn hp ht
    simp only [QNode.norm, QNode.mapT, conn_faith conn hw.1 hn.1.1.1 ht.1.1.1.1, alias_faith al hw.2.1 hn.1.1.2 ht.1.1.2,
      cstr_faith cstr hw.2.2.1 hn.1.2 hp.1 ht.1.2, ih hw.2.2.2 hn.2 hp.2 ht.2]
  | fderived conn lp body qt rp al cstr rest ihb ihr =>
    simp only [QNode.WF, QNode.normal, QNode.printable, QNode.flatten, List.all_append, List.all_cons, Bool.and_eq_true]
      at hw hn hp ht
    obtain ⟨h1, rfl, rfl, h4, h5, h6, h7, h8⟩ := hw
    simp only [QNode.norm, QNode.mapT, conn_faith conn h1 hn.1.1.1.1.1 ht.1.1.1.1.1.1, ihb h4 hn.1.1.1.1.2 hp.1.1.1 ht.1.1.1.1.1.2.2,
      tail_faith qt h5 hn.1.1.1.2 hp.1.1.2 ht.1.1.1.1.2, alias_faith al h6 hn.1.1.2 ht.1.1.2,
      cstr_faith cstr h7 hn.1.2 hp.1.2 ht.1.2, ihr h8 hn.2 hp.2 ht.2]

/-- **faithfulness**: for a tree the parser can build (`WF`), printable, of normal shape and made of
lexer-like tokens, the printed normal form has the same image, slot by slot -/
theorem norm_faithful (q : Query) (hw : q.WF) (hn : q.normal = true) (hp : q.printable = true)
    (ht : q.flatten.all tokOk = true) : q.norm.mapT qc = q.mapT qc := by
  obtain ⟨b, t⟩ := q
  simp only [Query.WF, Query.normal, Query.printable, Query.flatten, List.all_append, Bool.and_eq_true] at hw hn hp ht
  simp only [Query.norm, Query.mapT, node_faith b hw.1 hn.1 hp.1 ht.1, tail_faith t hw.2 hn.2 hp.2 ht.2]

end SqlVerif.Query

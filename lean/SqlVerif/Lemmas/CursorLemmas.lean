import SqlVerif.Model.Cursor
namespace SqlVerif.Cursor

variable {τ : Type}

/-- `absPos` by recursion on the token list (used in proofs) -/
def absPosR (isWs : τ → Bool) : List (TL τ) → Nat → Nat
  | [], i => i
  | _ :: _, 0 => 0
  | t :: rest, i + 1 => (if isWs t.tok then 0 else 1) + absPosR isWs rest i

theorem absPos_eq_absPosR (isWs : τ → Bool) : ∀ (T : List (TL τ)) (i : Nat), absPos isWs T i = absPosR isWs T i := by
  intro T
  induction T with
  | nil => intro i; simp [absPos, absPosR]
  | cons t rest ih =>
    intro i
    cases i with
    | zero => simp [absPos, absPosR]
    | succ i =>
      have := ih i
      simp only [absPos, absPosR, List.take_succ_cons, List.filter_cons, List.length_cons] at this ⊢
      cases h : isWs t.tok <;> simp <;> omega

theorem absPosR_zero (isWs : τ → Bool) (T : List (TL τ)) : absPosR isWs T 0 = 0 := by
  cases T <;> rfl

/-- `peek_nth_token` sees exactly the non-whitespace tokens -/
theorem peekFrom_nonWs (isWs : τ → Bool) : ∀ (l : List (TL τ)) (n : Nat), peekFrom isWs l n = (nonWs isWs l)[n]? := by
  intro l
  induction l with
  | nil => intro n; simp [peekFrom, nonWs]
  | cons t rest ih =>
    intro n
    simp only [peekFrom, nonWs, List.filter_cons]
    cases h : isWs t.tok with
    | true => simpa [nonWs] using ih n
    | false =>
      cases n with
      | zero => simp
      | succ n => simpa [nonWs] using ih n

theorem peek_abs (isWs : τ → Bool) : ∀ (T : List (TL τ)) (i n : Nat),
    peekFrom isWs (T.drop i) n = (nonWs isWs T)[absPosR isWs T i + n]? := by
  intro T
  induction T with
  | nil => intro i n; simp [peekFrom, nonWs]
  | cons t rest ih =>
    intro i n
    cases i with
    | zero => simp [absPosR, peekFrom_nonWs]
    | succ i =>
      simp only [List.drop_succ_cons, absPosR, ih i n, nonWs, List.filter_cons]
      cases h : isWs t.tok with
      | true => simp
      | false =>
        simp only [Bool.not_false, ↓reduceIte, Bool.false_eq_true]
        have : 1 + absPosR isWs rest i + n = (absPosR isWs rest i + n) + 1 := by omega
        rw [this, List.getElem?_cons_succ]

theorem nextFrom_fst (isWs : τ → Bool) : ∀ (l : List (TL τ)) (k : Nat), (nextFrom isWs l k).1 = peekFrom isWs l 0 := by
  intro l
  induction l with
  | nil => intro k; rfl
  | cons t rest ih =>
    intro k
    simp only [nextFrom, peekFrom]
    cases h : isWs t.tok with
    | true => simpa using ih (k + 1)
    | false => simp

theorem nextFrom_snd (isWs : τ → Bool) : ∀ (l : List (TL τ)) (k : Nat), (nextFrom isWs l k).2 = k + (nextFrom isWs l 0).2 := by
  intro l
  induction l with
  | nil => intro k; simp [nextFrom]
  | cons t rest ih =>
    intro k
    simp only [nextFrom]
    cases h : isWs t.tok with
    | true =>
      simp only [↓reduceIte]
      rw [ih (k + 1), ih (0 + 1)]; omega
    | false => simp

/-- `next_token` moves the abstract position by exactly one -/
theorem next_abs (isWs : τ → Bool) : ∀ (T : List (TL τ)) (i : Nat),
    absPosR isWs T (i + (nextFrom isWs (T.drop i) 0).2) = absPosR isWs T i + 1 := by
  intro T
  induction T with
  | nil => intro i; simp [nextFrom, absPosR]
  | cons t rest ih =>
    intro i
    cases i with
    | zero =>
      simp only [List.drop_zero, nextFrom, Nat.zero_add]
      cases h : isWs t.tok with
      | true =>
        simp only [↓reduceIte]
        rw [nextFrom_snd]
        have := ih 0
        simp only [List.drop_zero, Nat.zero_add, absPosR_zero] at this
        have e : 0 + 1 + (nextFrom isWs rest 0).2 = (nextFrom isWs rest 0).2 + 1 := by omega
        rw [e]
        simp [absPosR, h, this]
      | false => simp [absPosR, h, absPosR_zero]
    | succ i =>
      have := ih i
      simp only [List.drop_succ_cons]
      have e : i + 1 + (nextFrom isWs (List.drop i rest) 0).2 = (i + (nextFrom isWs (List.drop i rest) 0).2) + 1 := by omega
      rw [e]
      simp only [absPosR, this]
      omega

/-- one step of the index: a whitespace token adds nothing, anything else (incl. past the end) adds one -/
theorem absPosR_succ (isWs : τ → Bool) : ∀ (T : List (TL τ)) (i : Nat),
    absPosR isWs T (i + 1) = absPosR isWs T i +
      (match T[i]? with | some t => if isWs t.tok then 0 else 1 | none => 1) := by
  intro T
  induction T with
  | nil => intro i; simp [absPosR]
  | cons t rest ih =>
    intro i
    cases i with
    | zero => simp [absPosR, absPosR_zero]
    | succ i =>
      simp only [absPosR, ih i, List.getElem?_cons_succ]
      omega

/-- `prev_token`: panics exactly at abstract position 0, otherwise moves back by one -/
theorem prev_abs (isWs : τ → Bool) (T : List (TL τ)) : ∀ (i : Nat),
    match prevIdx isWs T i with
    | none => absPosR isWs T i = 0
    | some j => absPosR isWs T j + 1 = absPosR isWs T i := by
  intro i
  induction i with
  | zero => simp [prevIdx, absPosR_zero]
  | succ i ih =>
    simp only [prevIdx]
    have hs := absPosR_succ isWs T i
    cases hg : T[i]? with
    | none => simp [hg] at hs ⊢; omega
    | some t =>
      simp only [hg] at hs ⊢
      cases hw : isWs t.tok with
      | true =>
        simp only [hw, ↓reduceIte] at hs ⊢
        cases hp : prevIdx isWs T i with
        | none => simp [hp] at ih ⊢; omega
        | some j => simp [hp] at ih ⊢; omega
      | false => simp [hw] at hs ⊢; omega

/-- outcomes agree: same value / same error with the same location / both panic; the final
concrete index abstracts to the final abstract position -/
def RelRes {α : Type} (isWs : τ → Bool) (T : List (TL τ)) : Res α → Res α → Prop
  | .ok a i, .ok b j => a = b ∧ absPosR isWs T i = j
  | .err m l, .err m' l' => m = m' ∧ l = l'
  | .panic, .panic => True
  | _, _ => False

/-- **Refinement**: a program that never uses the no-skip operations behaves on the raw token
vector exactly as on the list of non-whitespace tokens. -/
theorem runC_refines_runA {α : Type} (isWs : τ → Bool) (T : List (TL τ)) (p : Prog τ α) (hp : Skipping p) :
    ∀ (i : Nat) (regs aregs : Nat → Nat) (log : List Loc),
      (∀ slot, absPosR isWs T (regs slot) = aregs slot) →
      RelRes isWs T (runC isWs p ⟨T, i⟩ regs log) (runA p ⟨nonWs isWs T, absPosR isWs T i⟩ aregs log) := by
  induction hp with
  | ret a => intro i regs aregs log _; simp [runC, runA, RelRes]
  | err m h => intro i regs aregs log _; cases h <;> simp [runC, runA, RelRes]
  | peek n k _ ih =>
    intro i regs aregs log hr
    simp only [runC, runA, peekNth]
    rw [peek_abs isWs T i n]
    exact ih _ i regs aregs _ hr
  | next k _ ih =>
    intro i regs aregs log hr
    simp only [runC, runA, next]
    rw [nextFrom_fst, peek_abs isWs T i 0]
    have := next_abs isWs T i
    simp only [Nat.add_zero]
    have h2 := ih ((nonWs isWs T)[absPosR isWs T i]?.map (·.tok)) (i + (nextFrom isWs (T.drop i) 0).2) regs aregs
      (log ++ [locOf (nonWs isWs T)[absPosR isWs T i]?]) hr
    rw [this] at h2
    exact h2
  | prev p _ ih =>
    intro i regs aregs log hr
    simp only [runC, runA, prev]
    have := prev_abs isWs T i
    cases hp : prevIdx isWs T i with
    | none =>
      simp only [hp] at this
      simp [this, RelRes]
    | some j =>
      simp only [hp] at this
      simp only [Option.map_some]
      have h2 := ih j regs aregs log hr
      rw [← this]
      simpa using h2
  | save slot p _ ih =>
    intro i regs aregs log hr
    simp only [runC, runA]
    apply ih
    intro x
    by_cases hx : x = slot <;> simp [hx, hr]
  | restore slot p _ ih =>
    intro i regs aregs log hr
    simp only [runC, runA]
    have := ih (regs slot) regs aregs log hr
    rw [hr slot] at this
    exact this

end SqlVerif.Cursor

namespace SqlVerif.Cursor
variable {τ : Type}

theorem getElem?_map_tok_eq {A A' : List (TL τ)} (h : A.map (·.tok) = A'.map (·.tok)) (i : Nat) :
    A[i]?.map (·.tok) = A'[i]?.map (·.tok) := by
  have := congrArg (fun l => l[i]?) h
  simpa [List.getElem?_map] using this

/-- the abstract run does not depend on locations: same token kinds ⇒ same value / same error
message / same final position (only the reported location may differ) -/
theorem runA_loc_irrelevant {α : Type} (p : Prog τ α) :
    ∀ (A A' : List (TL τ)) (pos : Nat) (regs : Nat → Nat) (log log' : List Loc),
      A.map (·.tok) = A'.map (·.tok) →
      (runA p ⟨A, pos⟩ regs log).shape = (runA p ⟨A', pos⟩ regs log').shape ∧
      (∀ a j, runA p ⟨A, pos⟩ regs log = .ok a j → runA p ⟨A', pos⟩ regs log' = .ok a j) := by
  induction p with
  | ret a => intro A A' pos regs log log' _; simp [runA, Res.shape]
  | err m h => intro A A' pos regs log log' _; cases h <;> simp [runA, Res.shape]
  | peek n k ih =>
    intro A A' pos regs log log' h
    simp only [runA]
    rw [getElem?_map_tok_eq h (pos + n)]
    exact ih _ A A' pos regs _ _ h
  | next k ih =>
    intro A A' pos regs log log' h
    simp only [runA]
    rw [getElem?_map_tok_eq h pos]
    exact ih _ A A' (pos + 1) regs _ _ h
  | prev p ih =>
    intro A A' pos regs log log' h
    cases pos with
    | zero => simp [runA, Res.shape]
    | succ n => simpa [runA] using ih A A' n regs log log' h
  | save slot p ih => intro A A' pos regs log log' h; simpa [runA] using ih A A' pos _ log log' h
  | restore slot p ih => intro A A' pos regs log log' h; simpa [runA] using ih A A' _ regs log log' h
  | peekNoSkip n k _ => intro A A' pos regs log log' _; simp [runA, Res.shape]
  | nextNoSkip k _ => intro A A' pos regs log log' _; simp [runA, Res.shape]

theorem RelRes.shape_eq {α : Type} {isWs : τ → Bool} {T : List (TL τ)} {r r' : Res α}
    (h : RelRes isWs T r r') : r.shape = r'.shape := by
  cases r <;> cases r' <;> simp_all [RelRes, Res.shape]

theorem locOf_mem (T : List (TL τ)) (o : Option (TL τ)) (h : ∀ t, o = some t → t ∈ T) :
    locOf o = eofLoc ∨ locOf o ∈ T.map (·.loc) := by
  cases o with
  | none => exact Or.inl rfl
  | some t => exact Or.inr (List.mem_map.2 ⟨t, h t rfl, rfl⟩)

theorem peekFrom_mem (isWs : τ → Bool) : ∀ (l : List (TL τ)) (n : Nat) (t : TL τ), peekFrom isWs l n = some t → t ∈ l := by
  intro l
  induction l with
  | nil => intro n t h; simp [peekFrom] at h
  | cons x rest ih =>
    intro n t h
    simp only [peekFrom] at h
    split at h
    · exact List.mem_cons_of_mem _ (ih n t h)
    · cases n with
      | zero => simp at h; subst h; exact List.mem_cons_self ..
      | succ n => exact List.mem_cons_of_mem _ (ih n t h)

/-- every location the concrete run can report is the location of a token of the input
(one the program was handed), or the EOF sentinel (0,0) -/
theorem loc_sound {α : Type} (isWs : τ → Bool) (T : List (TL τ)) (p : Prog τ α) :
    ∀ (i : Nat) (regs : Nat → Nat) (log : List Loc),
      (∀ l ∈ log, l = eofLoc ∨ l ∈ T.map (·.loc)) →
      ∀ m l, runC isWs p ⟨T, i⟩ regs log = .err m l → l = eofLoc ∨ l ∈ T.map (·.loc) := by
  have hget : ∀ (log : List Loc) (h : Nat), (∀ l ∈ log, l = eofLoc ∨ l ∈ T.map (·.loc)) →
      log.getD h eofLoc = eofLoc ∨ log.getD h eofLoc ∈ T.map (·.loc) := by
    intro log h hl
    by_cases hh : h < log.length
    · have : log.getD h eofLoc = log[h] := by simp [List.getD_eq_getElem?_getD, List.getElem?_eq_getElem hh]
      rw [this]; exact hl _ (List.getElem_mem hh)
    · left; simp [List.getD_eq_getElem?_getD, List.getElem?_eq_none (by omega : log.length ≤ h)]
  have hsnoc : ∀ (log : List Loc) (x : Loc), (∀ l ∈ log, l = eofLoc ∨ l ∈ T.map (·.loc)) →
      (x = eofLoc ∨ x ∈ T.map (·.loc)) → ∀ l ∈ log ++ [x], l = eofLoc ∨ l ∈ T.map (·.loc) := by
    intro log x hl hx l hm
    rcases List.mem_append.1 hm with h | h
    · exact hl l h
    · simp at h; subst h; exact hx
  induction p with
  | ret a => intro i regs log _ m l h; simp [runC] at h
  | err m' h =>
    intro i regs log hl m l he
    cases h with
    | none => simp [runC] at he; exact Or.inl he.2.symm
    | some hh => simp [runC] at he; rw [← he.2]; exact hget log hh hl
  | peek n k ih =>
    intro i regs log hl m l he
    simp only [runC] at he
    refine ih _ i regs _ (hsnoc log _ hl (locOf_mem T _ ?_)) m l he
    intro t ht
    exact List.mem_of_mem_drop (peekFrom_mem isWs _ n t ht)
  | next k ih =>
    intro i regs log hl m l he
    simp only [runC, next] at he
    refine ih _ _ regs _ (hsnoc log _ hl (locOf_mem T _ ?_)) m l he
    intro t ht
    rw [nextFrom_fst] at ht
    exact List.mem_of_mem_drop (peekFrom_mem isWs _ 0 t ht)
  | prev p ih =>
    intro i regs log hl m l he
    simp only [runC, prev] at he
    cases hp : prevIdx isWs T i with
    | none => simp [hp] at he
    | some j => simp [hp] at he; exact ih j regs log hl m l he
  | save slot p ih => intro i regs log hl m l he; exact ih i _ log hl m l (by simpa [runC] using he)
  | restore slot p ih => intro i regs log hl m l he; exact ih _ regs log hl m l (by simpa [runC] using he)
  | peekNoSkip n k ih =>
    intro i regs log hl m l he
    simp only [runC, peekNthNoSkip] at he
    refine ih _ i regs _ (hsnoc log _ hl (locOf_mem T _ ?_)) m l he
    intro t ht
    exact List.mem_of_getElem? ht
  | nextNoSkip k ih =>
    intro i regs log hl m l he
    simp only [runC, nextNoSkip] at he
    refine ih _ _ regs _ (hsnoc log _ hl (locOf_mem T _ ?_)) m l he
    intro t ht
    exact List.mem_of_getElem? ht

end SqlVerif.Cursor

namespace SqlVerif.Cursor
variable {τ : Type}

/-- replace every location by the dummy (0,0): what `Parser::with_tokens` does -/
def eraseLocs (T : List (TL τ)) : List (TL τ) := T.map fun t => ⟨t.tok, eofLoc⟩

theorem peekFrom_erase (isWs : τ → Bool) : ∀ (l : List (TL τ)) (n : Nat),
    (peekFrom isWs (eraseLocs l) n).map (·.tok) = (peekFrom isWs l n).map (·.tok) := by
  intro l
  induction l with
  | nil => intro n; rfl
  | cons t rest ih =>
    intro n
    simp only [eraseLocs, List.map_cons, peekFrom]
    cases h : isWs t.tok with
    | true => simpa [eraseLocs] using ih n
    | false =>
      cases n with
      | zero => simp
      | succ n => simpa [eraseLocs] using ih n

theorem nextFrom_erase (isWs : τ → Bool) : ∀ (l : List (TL τ)) (k : Nat),
    (nextFrom isWs (eraseLocs l) k).2 = (nextFrom isWs l k).2 := by
  intro l
  induction l with
  | nil => intro k; rfl
  | cons t rest ih =>
    intro k
    simp only [eraseLocs, List.map_cons, nextFrom]
    cases h : isWs t.tok with
    | true => simpa [eraseLocs] using ih (k + 1)
    | false => simp

theorem prevIdx_erase (isWs : τ → Bool) (T : List (TL τ)) : ∀ i, prevIdx isWs (eraseLocs T) i = prevIdx isWs T i := by
  intro i
  induction i with
  | zero => rfl
  | succ i ih =>
    simp only [prevIdx, eraseLocs, List.getElem?_map]
    cases h : T[i]? with
    | none => simp
    | some t =>
      simp only [Option.map_some]
      cases hw : isWs t.tok <;> simp
      simpa [eraseLocs] using ih

theorem eraseLocs_drop (T : List (TL τ)) (i : Nat) : (eraseLocs T).drop i = eraseLocs (T.drop i) := by
  simp [eraseLocs, List.map_drop]

/-- erasing all locations changes nothing but the reported locations — for every program -/
theorem runC_erase {α : Type} (isWs : τ → Bool) (p : Prog τ α) :
    ∀ (T : List (TL τ)) (i : Nat) (regs : Nat → Nat) (log log' : List Loc),
      (runC isWs p ⟨eraseLocs T, i⟩ regs log).shape = (runC isWs p ⟨T, i⟩ regs log').shape := by
  induction p with
  | ret a => intro T i regs log log'; simp [runC, Res.shape]
  | err m h => intro T i regs log log'; cases h <;> simp [runC, Res.shape]
  | peek n k ih =>
    intro T i regs log log'
    simp only [runC, peekNth, eraseLocs_drop]
    rw [peekFrom_erase]
    exact ih _ T i regs _ _
  | next k ih =>
    intro T i regs log log'
    simp only [runC, next, eraseLocs_drop]
    rw [nextFrom_fst, nextFrom_fst, peekFrom_erase, nextFrom_erase]
    exact ih _ T _ regs _ _
  | prev p ih =>
    intro T i regs log log'
    simp only [runC, prev, prevIdx_erase]
    cases hp : prevIdx isWs T i with
    | none => rfl
    | some j => simpa using ih T j regs log log'
  | save slot p ih => intro T i regs log log'; simpa [runC] using ih T i _ log log'
  | restore slot p ih => intro T i regs log log'; simpa [runC] using ih T _ regs log log'
  | peekNoSkip n k ih =>
    intro T i regs log log'
    simp only [runC, peekNthNoSkip]
    have : ((eraseLocs T)[i + n]?).map (·.tok) = (T[i + n]?).map (·.tok) := by
      simp only [eraseLocs, List.getElem?_map, Option.map_map]; rfl
    rw [this]
    exact ih _ T i regs _ _
  | nextNoSkip k ih =>
    intro T i regs log log'
    simp only [runC, nextNoSkip]
    have : ((eraseLocs T)[i]?).map (·.tok) = (T[i]?).map (·.tok) := by
      simp only [eraseLocs, List.getElem?_map, Option.map_map]; rfl
    rw [this]
    exact ih _ T _ regs _ _

end SqlVerif.Cursor

import SqlVerif.Lemmas.QueryLemmas
import SqlVerif.Lemmas.PrattExt
/-!
Extension lemmas for the query model (`Model/Query.lean`), on top of `Lemmas/PrattExt.lean`.

* element level (any stopper token `x`): a select item / GROUP BY element / ORDER BY element that
  was parsed completely is parsed to the same value in front of `x` — the locality hypothesis of
  the list theorems of C13;
* statement level (`x` = `;`): every parser function of the model, run on `ts ++ ; :: r`, repeats
  its successful run on `ts` and leaves `; :: r` untouched — the locality hypothesis of the script
  theorem of C11.
-/
namespace SqlVerif.Query
open SqlVerif.Pratt SqlVerif.Gen
open SqlVerif.SetClimb (Op SQuant precOf)

theorem peekAnyKw_ext {x : Tok} (ks : List Nat) (hks : ∀ k ∈ ks, x.isKw k = false) (ts r : List Tok) :
    peekAnyKw (ts ++ x :: r) ks = peekAnyKw ts ks := by
  unfold peekAnyKw
  induction ks with
  | nil => rfl
  | cons k ks ih =>
    simp only [List.any_cons]
    rw [ih (fun k hk => hks k (by simp [hk])), peekKw_ext' (hks k (by simp))]

theorem parseE_ext (c : QCfg) {x : Tok} (hx : stopper x = true) (r : List Tok) (f d : Nat) (ts : List Tok) (e : Expr)
    (rest : List Tok) (h : parseE c f d ts = .ok (e, rest)) : parseE c f d (ts ++ x :: r) = .ok (e, rest ++ x :: r) :=
  parseSubexpr_ext c.e hx r f d _ ts e rest h

/-- what happens to a `(value, rest)` result when tokens are appended to the input -/
def app {α : Type} (s : List Tok) (p : α × List Tok) : α × List Tok := (p.1, p.2 ++ s)

theorem eatKw_app {x : Tok} {k : Nat} (hk : x.isKw k = false) (ts r : List Tok) :
    eatKw (ts ++ x :: r) k = (eatKw ts k).map (app (x :: r)) := by
  cases h : eatKw ts k with
  | none => simp [eatKw_none' hk h]
  | some p => obtain ⟨t, rest⟩ := p; simp [eatKw_ext h, app]

theorem eatKws_app {x : Tok} (ks : List Nat) (hks : ∀ k ∈ ks, x.isKw k = false) (hne : ks ≠ []) (ts r : List Tok) :
    eatKws (ts ++ x :: r) ks = (eatKws ts ks).map (app (x :: r)) := by
  cases h : eatKws ts ks with
  | none => simp [eatKws_none' r ks hks hne h]
  | some p => obtain ⟨ops, rest⟩ := p; simp [eatKws_ext ks h, app]

theorem dirTail_app {x : Tok} (hA : x.isKw K.ASC = false) (hD : x.isKw K.DESC = false) (ts r : List Tok) :
    dirTail (ts ++ x :: r) = app (x :: r) (dirTail ts) := by
  unfold dirTail
  rw [eatKw_app hA, eatKw_app hD]
  cases eatKw ts K.ASC <;> cases eatKw ts K.DESC <;> simp [app]

theorem rowsTail_app {x : Tok} (h1 : x.isKw K.ROW = false) (h2 : x.isKw K.ROWS = false) (ts r : List Tok) :
    rowsTail (ts ++ x :: r) = app (x :: r) (rowsTail ts) := by
  unfold rowsTail
  rw [eatKw_app h1, eatKw_app h2]
  cases eatKw ts K.ROW <;> cases eatKw ts K.ROWS <;> simp [app]

theorem allTail_app {x : Tok} (h1 : x.isKw K.ALL = false) (ts r : List Tok) :
    allTail (ts ++ x :: r) = app (x :: r) (allTail ts) := by
  unfold allTail
  rw [eatKw_app h1]
  cases eatKw ts K.ALL <;> simp [app]

theorem nullsTail_app {x : Tok} (h1 : x.isKw K.NULLS = false) (h2 : x.isKw K.FIRST = false) (h3 : x.isKw K.LAST = false)
    (ts r : List Tok) : nullsTail (ts ++ x :: r) = app (x :: r) (nullsTail ts) := by
  unfold nullsTail
  rw [eatKws_app [K.NULLS, K.FIRST] (by simp [h1, h2]) (by simp), eatKws_app [K.NULLS, K.LAST] (by simp [h1, h3]) (by simp)]
  cases eatKws ts [K.NULLS, K.FIRST] <;> cases eatKws ts [K.NULLS, K.LAST] <;> simp [app]

theorem optAlias_ext (res : List Nat) {x : Tok} (r : List Tok) (hxa : optAlias res (x :: r) = .ok ([], x :: r))
    (ts al rest : List Tok) (h : optAlias res ts = .ok (al, rest)) :
    optAlias res (ts ++ x :: r) = .ok (al, rest ++ x :: r) := by
  cases ts with
  | nil =>
    simp [optAlias, eatKw] at h; obtain ⟨rfl, rfl⟩ := h
    simpa using hxa
  | cons t r0 =>
    simp only [List.cons_append]
    unfold optAlias at h ⊢
    simp only [eatKw] at h ⊢
    split at h
    · rename_i asT r1 hk
      split at hk
      · simp at hk; obtain ⟨rfl, rfl⟩ := hk
        rename_i hk'
        simp only [hk', if_true]
        split at h
        · simp at h
        · rename_i t2 r2
          simp only [List.cons_append]
          split at h
          · rename_i hi; simp at h; obtain ⟨rfl, rfl⟩ := h; simp [hi]
          · simp at h
      · simp at hk
    · rename_i hk
      split at hk
      · simp at hk
      · rename_i hk'
        simp only [hk']
        repeat' split at h
        all_goals first
          | (simp at h; done)
          | (simp at h; obtain ⟨rfl, rfl⟩ := h; simp_all)

/-- a stopper is never taken for a column alias -/
theorem optAlias_stopper {x : Tok} (hx : stopper x = true) (r : List Tok) :
    optAlias reservedForColumnAlias (x :: r) = .ok ([], x :: r) := by
  have hAS : x.isKw K.AS = false := stopper_isKw hx (by simp [exprKws, K.AS])
  rcases stopper_shape hx with ⟨s, rfl, hs⟩ | ⟨v, q, k, rfl, hk⟩
  · rcases hs with rfl | rfl | rfl | rfl | rfl <;> simp [optAlias, eatKw, Tok.isKw]
  · simp [optAlias, eatKw, hAS]; exact List.contains_iff_mem.1 hk

theorem qualScan_ext {x : Tok} (hx : stopper x = true) (r : List Tok) :
    ∀ (n : Nat) (ts acc : List Tok), ts.length ≤ n →
      (∀ toks rest, qualScan acc ts = .wild toks rest → qualScan acc (ts ++ x :: r) = .wild toks (rest ++ x :: r)) ∧
      (qualScan acc ts = .notWild → qualScan acc (ts ++ x :: r) = .notWild) := by
  intro n
  induction n with
  | zero =>
    intro ts acc hl
    have : ts = [] := by cases ts <;> simp_all
    subst this; simp [qualScan]
  | succ n ih =>
    intro ts acc hl
    cases ts with
    | nil => simp [qualScan]
    | cons t ts1 =>
      constructor
      · intro toks rest h
        unfold qualScan at h
        simp only [List.cons_append]
        unfold qualScan
        split at h
        · split at h
          · rename_i rest'
            simp only [List.cons_append]
            exact (ih rest' _ (by simp at hl ⊢; omega)).1 _ _ h
          · simp at h
        · split at h
          · rename_i rest'
            simp only [List.cons_append]
            exact (ih rest' _ (by simp at hl ⊢; omega)).1 _ _ h
          · simp at h
        · simp at h; obtain ⟨rfl, rfl⟩ := h; rfl
        · simp at h
      · intro h
        unfold qualScan at h
        simp only [List.cons_append]
        unfold qualScan
        split at h
        · split at h
          · rename_i rest'
            simp only [List.cons_append]
            exact (ih rest' _ (by simp at hl ⊢; omega)).2 h
          · rename_i hnp
            split
            · rename_i rest' heq; exact (not_period_head_ext hx _ r hnp _ heq).elim
            · rfl
        · split at h
          · rename_i rest'
            simp only [List.cons_append]
            exact (ih rest' _ (by simp at hl ⊢; omega)).2 h
          · rename_i hnp
            split
            · rename_i rest' heq; exact (not_period_head_ext hx _ r hnp _ heq).elim
            · rfl
        · simp at h
        · simp at h

/-- keywords (not reserved) the query layer tests directly after a list element -/
def elemKws : List Nat :=
  [K.ILIKE, K.EXCLUDE, K.REPLACE, K.RENAME, K.GROUPING, K.CUBE, K.ROLLUP, K.AS, K.ASC, K.DESC, K.NULLS, K.FIRST, K.LAST, K.FILL]

theorem elemKws_sub : ∀ k ∈ elemKws, k ∈ exprKws := by
  intro k hk
  have : elemKws.all (fun k => exprKws.contains k) = true := by decide +kernel
  exact List.contains_iff_mem.1 (List.all_eq_true.1 this k hk)

theorem stopper_elemKw {x : Tok} (hx : stopper x = true) {k : Nat} (hk : k ∈ elemKws) : x.isKw k = false :=
  stopper_isKw hx (elemKws_sub k hk)

theorem parseE_ne_nil (c : QCfg) (f d : Nat) (ts : List Tok) (e : Expr) (rest : List Tok)
    (h : parseE c f d ts = .ok (e, rest)) : ts ≠ [] := parseSubexpr_ne_nil _ _ _ _ _ _ _ h

theorem itemViaExpr_ext (c : QCfg) {x : Tok} (hx : stopper x = true) (r : List Tok) (f d : Nat) (ts : List Tok)
    (v : SelectItem) (rest : List Tok) (h : itemViaExpr c f d ts = .ok (v, rest)) :
    itemViaExpr c f d (ts ++ x :: r) = .ok (v, rest ++ x :: r) := by
  unfold itemViaExpr at h ⊢
  split at h
  · simp at h
  · rename_i e r1 he
    rw [parseE_ext c hx r _ _ _ _ _ he]
    simp only
    split at h
    · simp at h
    · rename_i hb
      simp only [hb]
      split at h
      · simp at h
      · rename_i al r2 ha
        rw [optAlias_ext _ r (optAlias_stopper hx r) _ _ _ ha]
        simp at h; obtain ⟨rfl, rfl⟩ := h; rfl

theorem wildcardForeign_ext (c : QCfg) {x : Tok} (hx : stopper x = true)
    (hw : c.wildcardExcept = true → x.isKw K.EXCEPT = false) (ts r : List Tok) :
    wildcardForeign c (ts ++ x :: r) = wildcardForeign c ts := by
  unfold wildcardForeign
  rw [peekAnyKw_ext _ (by
    intro k hk
    simp only [List.mem_cons, List.mem_nil_iff, or_false] at hk
    rcases hk with h | h | h | h <;>
      (rw [h]; exact stopper_elemKw hx (by simp only [elemKws, List.mem_cons, true_or, or_true])))]
  cases hc : c.wildcardExcept with
  | false => simp
  | true => rw [peekKw_ext' (hw hc)]

/-- the item is `*` or `a.b.*` -/
def SelectItem.isWild : SelectItem → Bool
  | .expr _ _ => false
  | _ => true

/-- a select item parsed completely is parsed to the same item in front of any stopper token;
for wildcards in dialects with `* EXCEPT (…)` the stopper must not be the keyword `EXCEPT` -/
theorem selectItem_ext (c : QCfg) {x : Tok} (hx : stopper x = true) (r : List Tok) (f d : Nat) (ts : List Tok)
    (v : SelectItem) (rest : List Tok) (h : selectItem c f d ts = .ok (v, rest))
    (hw : v.isWild = true → c.wildcardExcept = true → x.isKw K.EXCEPT = false) :
    selectItem c f d (ts ++ x :: r) = .ok (v, rest ++ x :: r) := by
  cases ts with
  | nil =>
    unfold selectItem at h
    simp only at h
    unfold itemViaExpr at h
    split at h
    · simp at h
    · rename_i e r1 he; exact absurd rfl (parseE_ne_nil _ _ _ _ _ _ he)
  | cons t rest0 =>
    simp only [List.cons_append]
    unfold selectItem at h ⊢
    simp only at h ⊢
    split at h
    · -- `*`
      split at h
      · simp at h
      · rename_i hf; simp at h; obtain ⟨rfl, rfl⟩ := h
        rw [wildcardForeign_ext c hx (hw rfl)]; simp [hf]
    · -- word
      split at h
      · rename_i rest'
        simp only [List.cons_append]
        split at h
        · rename_i toks r2 hq
          rw [(qualScan_ext hx r _ _ _ (Nat.le_refl _)).1 _ _ hq]
          simp only
          split at h
          · simp at h
          · rename_i hf; simp at h; obtain ⟨rfl, rfl⟩ := h
            rw [wildcardForeign_ext c hx (hw rfl)]; simp [hf]
        · rename_i hq
          rw [(qualScan_ext hx r _ _ _ (Nat.le_refl _)).2 hq]
          exact itemViaExpr_ext c hx r _ _ _ _ _ h
        · simp at h
      · rename_i hnp
        have := itemViaExpr_ext c hx r _ _ _ _ _ h
        split
        · rename_i rest' heq; exact (not_period_head_ext hx _ r hnp _ heq).elim
        · exact this
    · -- sqs
      split at h
      · rename_i rest'
        simp only [List.cons_append]
        split at h
        · rename_i toks r2 hq
          rw [(qualScan_ext hx r _ _ _ (Nat.le_refl _)).1 _ _ hq]
          simp only
          split at h
          · simp at h
          · rename_i hf; simp at h; obtain ⟨rfl, rfl⟩ := h
            rw [wildcardForeign_ext c hx (hw rfl)]; simp [hf]
        · rename_i hq
          rw [(qualScan_ext hx r _ _ _ (Nat.le_refl _)).2 hq]
          exact itemViaExpr_ext c hx r _ _ _ _ _ h
        · simp at h
      · rename_i hnp
        have := itemViaExpr_ext c hx r _ _ _ _ _ h
        split
        · rename_i rest' heq; exact (not_period_head_ext hx _ r hnp _ heq).elim
        · exact this
    · exact itemViaExpr_ext c hx r _ _ _ _ _ h

theorem emptyTupleAhead_ext (c : QCfg) (f d : Nat) (ts : List Tok) (e : Expr) (rest : List Tok)
    (h : parseE c f d ts = .ok (e, rest)) (s : List Tok) : emptyTupleAhead (ts ++ s) = false ∧ emptyTupleAhead ts = false := by
  cases ts with
  | nil => exact absurd rfl (parseE_ne_nil _ _ _ _ _ _ h)
  | cons a rest0 =>
    by_cases ha : a = .sym .LParen
    · subst ha
      obtain ⟨h1, h2⟩ := parseSubexpr_lparen _ _ _ _ _ _ _ h
      cases rest0 with
      | nil => exact absurd rfl h1
      | cons a b =>
        constructor
        · simp only [List.cons_append]
          unfold emptyTupleAhead
          split
          · rename_i heq; simp at heq; exact absurd (by rw [heq.1]) (h2 b)
          · rfl
        · unfold emptyTupleAhead
          split
          · rename_i heq; simp at heq; exact absurd (by rw [heq.1]) (h2 b)
          · rfl
    · constructor
      · simp only [List.cons_append]
        unfold emptyTupleAhead
        split
        · rename_i heq; simp at heq; exact absurd heq.1 ha
        · rfl
      · unfold emptyTupleAhead
        split
        · rename_i heq; simp at heq; exact absurd heq.1 ha
        · rfl

theorem groupByElem_ext (c : QCfg) {x : Tok} (hx : stopper x = true) (r : List Tok) (f d : Nat) (ts : List Tok)
    (e : Expr) (rest : List Tok) (h : groupByElem c f d ts = .ok (e, rest)) :
    groupByElem c f d (ts ++ x :: r) = .ok (e, rest ++ x :: r) := by
  unfold groupByElem at h ⊢
  split at h
  · simp at h
  · rename_i hf
    have he := emptyTupleAhead_ext _ _ _ _ _ _ h (x :: r)
    have hp := parseE_ext c hx r _ _ _ _ _ h
    have : groupByForeign c (ts ++ x :: r) = groupByForeign c ts := by
      unfold groupByForeign
      rw [peekAnyKw_ext _ (by
        intro k hk
        simp only [List.mem_cons, List.mem_nil_iff, or_false] at hk
        rcases hk with h | h | h <;>
          (rw [h]; exact stopper_elemKw hx (by simp only [elemKws, List.mem_cons, true_or, or_true]))), he.1, he.2]
    rw [this]
    simp [hf, hp]

/-- an ORDER BY element parsed completely is parsed to the same value in front of any stopper token;
in ClickHouse / Generic (`WITH FILL`) the stopper must not be the keyword `WITH`, which the element
parser looks into -/
theorem orderByElem_ext (c : QCfg) {x : Tok} (hx : stopper x = true) (hwf : c.chOrGeneric = true → x.isKw K.WITH = false)
    (r : List Tok) (f d : Nat) (ts : List Tok) (o : OrderByExpr) (rest : List Tok)
    (h : orderByElem c f d ts = .ok (o, rest)) : orderByElem c f d (ts ++ x :: r) = .ok (o, rest ++ x :: r) := by
  have k1 : x.isKw K.ASC = false := stopper_elemKw hx (by simp only [elemKws, List.mem_cons, true_or, or_true])
  have k2 : x.isKw K.DESC = false := stopper_elemKw hx (by simp only [elemKws, List.mem_cons, true_or, or_true])
  have k3 : x.isKw K.NULLS = false := stopper_elemKw hx (by simp only [elemKws, List.mem_cons, true_or, or_true])
  have k4 : x.isKw K.FIRST = false := stopper_elemKw hx (by simp only [elemKws, List.mem_cons, true_or, or_true])
  have k5 : x.isKw K.LAST = false := stopper_elemKw hx (by simp only [elemKws, List.mem_cons, true_or, or_true])
  have k6 : x.isKw K.FILL = false := stopper_elemKw hx (by simp only [elemKws, List.mem_cons, true_or, or_true])
  have hwfa : ∀ ts, withFillAhead c (ts ++ x :: r) = withFillAhead c ts := by
    intro ts
    unfold withFillAhead
    cases hc : c.chOrGeneric with
    | false => simp
    | true =>
      rw [eatKws_app [K.WITH, K.FILL] (by
        intro k hk
        simp only [List.mem_cons, List.mem_nil_iff, or_false] at hk
        rcases hk with h | h
        · rw [h]; exact hwf hc
        · rw [h]; exact k6) (by simp)]
      cases eatKws ts [K.WITH, K.FILL] <;> simp
  unfold orderByElem at h ⊢
  split at h
  · simp at h
  · rename_i e r0 he
    rw [parseE_ext c hx r _ _ _ _ _ he]
    simp only [dirTail_app k1 k2, nullsTail_app k3 k4 k5, app, hwfa]
    split at h
    · simp at h
    · rename_i hf
      simp at h; obtain ⟨rfl, rfl⟩ := h
      simp [hf]

/-- the statement separator -/
abbrev semi : Tok := .sym .SemiColon

theorem semi_stopper : stopper semi = true := rfl
theorem semi_isKw (k : Nat) : semi.isKw k = false := rfl

theorem peekAnyKw_semi (ks : List Nat) (ts r : List Tok) : peekAnyKw (ts ++ semi :: r) ks = peekAnyKw ts ks :=
  peekAnyKw_ext ks (fun k _ => semi_isKw k) ts r

theorem peekKw_semi (k : Nat) (ts r : List Tok) : peekKw (ts ++ semi :: r) k = peekKw ts k :=
  peekKw_ext' (semi_isKw k) ts r

theorem eatKw_semi (k : Nat) (ts r : List Tok) : eatKw (ts ++ semi :: r) k = (eatKw ts k).map (app (semi :: r)) :=
  eatKw_app (semi_isKw k) ts r

theorem eatKws_semi (ks : List Nat) (hne : ks ≠ []) (ts r : List Tok) :
    eatKws (ts ++ semi :: r) ks = (eatKws ts ks).map (app (semi :: r)) :=
  eatKws_app ks (fun k _ => semi_isKw k) hne ts r

theorem peekSym_semi (s : Sym) (hs : s ≠ .SemiColon) (ts r : List Tok) : peekSym (ts ++ semi :: r) s = peekSym ts s :=
  peekSym_ext (by simp [Tok.isSym]; exact fun h => hs h.symm) ts r

theorem listEnds_semi (ts r : List Tok) : listEnds (ts ++ semi :: r) = listEnds ts := by
  cases ts with
  | nil => rfl
  | cons a b => rfl

/-- `parse_comma_separated` in front of `;` -/
theorem commaSepE_semi {α : Type} (tc : Bool) (elem : List Tok → Res α) (r : List Tok)
    (hel : ∀ ts v rest, elem ts = .ok (v, rest) → elem (ts ++ semi :: r) = .ok (v, rest ++ semi :: r)) :
    ∀ (n : Nat) (ts : List Tok) (vs : Sep α) (rest : List Tok),
      commaSepE tc elem n ts = .ok (vs, rest) → commaSepE tc elem n (ts ++ semi :: r) = .ok (vs, rest ++ semi :: r) := by
  intro n
  induction n with
  | zero => intro ts vs rest h; simp [commaSepE] at h
  | succ n ih =>
    intro ts vs rest h
    simp only [commaSepE] at h ⊢
    split at h
    · simp at h
    · rename_i v r1 he
      rw [hel _ _ _ he]
      simp only
      split at h
      · rename_i r2
        simp only [List.cons_append, listEnds_semi]
        split at h
        · rename_i hc
          simp at h; obtain ⟨rfl, rfl⟩ := h
          simp [hc]
        · rename_i hc
          simp only [hc]
          split at h
          · simp at h
          · rename_i vs' r3 hr
            simp at h; obtain ⟨rfl, rfl⟩ := h
            rw [ih _ _ _ hr]
            simp
      · rename_i hnc
        simp at h; obtain ⟨rfl, rfl⟩ := h
        cases r1 with
        | nil => simp
        | cons a b =>
          simp only [List.cons_append]
          split
          · rename_i r2 heq; simp at heq; exact (hnc b (by rw [heq.1])).elim
          · rfl

theorem parseE_semi (c : QCfg) (r : List Tok) (f d : Nat) (ts : List Tok) (e : Expr) (rest : List Tok)
    (h : parseE c f d ts = .ok (e, rest)) : parseE c f d (ts ++ semi :: r) = .ok (e, rest ++ semi :: r) :=
  parseE_ext c semi_stopper r f d ts e rest h

theorem limPart_semi (c : QCfg) (r : List Tok) (f d : Nat) (cs : List LimClause) (ts : List Tok) (cs' : List LimClause)
    (rest : List Tok) (h : limPart c f d cs ts = .ok (cs', rest)) :
    limPart c f d cs (ts ++ semi :: r) = .ok (cs', rest ++ semi :: r) := by
  unfold limPart at h ⊢
  split at h
  · rename_i hl
    simp only [hl, if_true, eatKw_semi]
    split at h
    · rename_i kw r1 hk
      simp only [hk, Option.map, app, eatKw_semi]
      split at h
      · rename_i a r' ha
        simp at h; obtain ⟨rfl, rfl⟩ := h
        simp [ha]
      · rename_i ha
        simp only [ha]
        split at h
        · simp at h
        · rename_i e r' he
          rw [parseE_semi c r _ _ _ _ _ he]
          simp at h; obtain ⟨rfl, rfl⟩ := h; rfl
    · rename_i hk
      simp at h; obtain ⟨rfl, rfl⟩ := h
      simp [hk]
  · rename_i hl
    simp at h; obtain ⟨rfl, rfl⟩ := h
    simp [hl]

theorem offPart_semi (c : QCfg) (r : List Tok) (f d : Nat) (cs : List LimClause) (ts : List Tok) (cs' : List LimClause)
    (rest : List Tok) (h : offPart c f d cs ts = .ok (cs', rest)) :
    offPart c f d cs (ts ++ semi :: r) = .ok (cs', rest ++ semi :: r) := by
  unfold offPart at h ⊢
  split at h
  · rename_i hl
    simp only [hl, if_true, eatKw_semi]
    split at h
    · rename_i kw r1 hk
      simp only [hk, Option.map, app]
      split at h
      · simp at h
      · rename_i e r' he
        rw [parseE_semi c r _ _ _ _ _ he]
        simp at h; obtain ⟨rfl, rfl⟩ := h
        simp [rowsTail_app (semi_isKw _) (semi_isKw _), app]
    · rename_i hk
      simp at h; obtain ⟨rfl, rfl⟩ := h
      simp [hk]
  · rename_i hl
    simp at h; obtain ⟨rfl, rfl⟩ := h
    simp [hl]

theorem commaPart_semi (c : QCfg) (r : List Tok) (f d : Nat) (cs : List LimClause) (ts : List Tok) (cs' : List LimClause)
    (rest : List Tok) (h : commaPart c f d cs ts = .ok (cs', rest)) :
    commaPart c f d cs (ts ++ semi :: r) = .ok (cs', rest ++ semi :: r) := by
  unfold commaPart at h ⊢
  split at h
  · rename_i hl
    simp only [hl, if_true]
    split at h
    · rename_i r1
      simp only [List.cons_append]
      split at h
      · simp at h
      · rename_i e r' he
        rw [parseE_semi c r _ _ _ _ _ he]
        simp at h; obtain ⟨rfl, rfl⟩ := h; rfl
    · rename_i hnc
      simp at h; obtain ⟨rfl, rfl⟩ := h
      cases ts with
      | nil => rfl
      | cons a b =>
        simp only [List.cons_append]
        split
        · rename_i r2 heq; simp at heq; exact (hnc b (by rw [heq.1])).elim
        · rfl
  · rename_i hl
    simp at h; obtain ⟨rfl, rfl⟩ := h
    simp [hl]

theorem limStep_semi (c : QCfg) (r : List Tok) (f d : Nat) (cs : List LimClause) (ts : List Tok) (cs' : List LimClause)
    (rest : List Tok) (h : limStep c f d cs ts = .ok (cs', rest)) :
    limStep c f d cs (ts ++ semi :: r) = .ok (cs', rest ++ semi :: r) := by
  unfold limStep at h ⊢
  split at h
  · simp at h
  · rename_i cs1 ts1 h1
    rw [limPart_semi c r _ _ _ _ _ _ h1]
    simp only
    split at h
    · simp at h
    · rename_i cs2 ts2 h2
      rw [offPart_semi c r _ _ _ _ _ _ h2]
      exact commaPart_semi c r _ _ _ _ _ _ h

theorem orderByElem_semi (c : QCfg) (r : List Tok) (f d : Nat) (ts : List Tok) (o : OrderByExpr) (rest : List Tok)
    (h : orderByElem c f d ts = .ok (o, rest)) : orderByElem c f d (ts ++ semi :: r) = .ok (o, rest ++ semi :: r) :=
  orderByElem_ext c semi_stopper (fun _ => semi_isKw _) r f d ts o rest h

theorem orderPart_semi (c : QCfg) (r : List Tok) (f d : Nat) (ts : List Tok) (ko : List Tok × Sep OrderByExpr)
    (rest : List Tok) (h : orderPart c f d ts = .ok (ko, rest)) :
    orderPart c f d (ts ++ semi :: r) = .ok (ko, rest ++ semi :: r) := by
  unfold orderPart at h ⊢
  rw [eatKws_semi _ (by simp)]
  split at h
  · rename_i kws r1 hk
    simp only [hk, Option.map, app]
    split at h
    · simp at h
    · rename_i os r' hl
      rw [commaSepE_semi _ _ r (orderByElem_semi c r f d) _ _ _ _ hl]
      simp only [peekKw_semi]
      split at h
      · simp at h
      · rename_i hi
        simp at h; obtain ⟨rfl, rfl⟩ := h
        simp [hi]
  · rename_i hk
    simp at h; obtain ⟨rfl, rfl⟩ := h
    simp [hk]

theorem queryTail_semi (c : QCfg) (r : List Tok) (f d : Nat) (ts : List Tok) (qt : QueryTail) (rest : List Tok)
    (h : queryTail c f d ts = .ok (qt, rest)) : queryTail c f d (ts ++ semi :: r) = .ok (qt, rest ++ semi :: r) := by
  unfold queryTail at h ⊢
  split at h
  · simp at h
  · rename_i ko ts1 ho
    rw [orderPart_semi c r _ _ _ _ _ ho]
    simp only
    split at h
    · simp at h
    · rename_i cs1 ts2 h1
      rw [limStep_semi c r _ _ _ _ _ _ h1]
      simp only
      split at h
      · simp at h
      · rename_i cs2 ts3 h2
        rw [limStep_semi c r _ _ _ _ _ _ h2]
        simp only [queryTailForeign, peekAnyKw_semi]
        split at h
        · simp at h
        · rename_i hf
          simp at h; obtain ⟨rfl, rfl⟩ := h
          simp [queryTailForeign] at hf
          simp [hf]

theorem setQuant_semi (ts r : List Tok) :
    setQuant (ts ++ semi :: r) = ((setQuant ts).1, (setQuant ts).2.1, (setQuant ts).2.2 ++ semi :: r) := by
  unfold setQuant
  rw [eatKws_semi _ (by simp), eatKws_semi _ (by simp), eatKw_semi, eatKw_semi]
  cases h1 : eatKws ts [K.DISTINCT, K.BY, K.NAME] with
  | some p => simp [app]
  | none =>
    cases h2 : eatKws ts [K.BY, K.NAME] with
    | some p => simp [app]
    | none =>
      cases h3 : eatKw ts K.ALL with
      | some p =>
        simp only [Option.map, app]
        rw [eatKws_semi _ (by simp)]
        cases h4 : eatKws p.2 [K.BY, K.NAME] with
        | some q => simp [app]
        | none => simp
      | none =>
        cases h4 : eatKw ts K.DISTINCT with
        | some p => simp [app]
        | none => simp

theorem setOpOf_semi : setOpOf semi = none := rfl

theorem optAlias_semi (res : List Nat) (r ts al rest : List Tok) (h : optAlias res ts = .ok (al, rest)) :
    optAlias res (ts ++ semi :: r) = .ok (al, rest ++ semi :: r) :=
  optAlias_ext res r (by simp [optAlias, eatKw, Tok.isKw]) ts al rest h

theorem optTableAlias_semi (r ts al rest : List Tok) (h : optTableAlias ts = .ok (al, rest)) :
    optTableAlias (ts ++ semi :: r) = .ok (al, rest ++ semi :: r) := by
  unfold optTableAlias at h ⊢
  split at h
  · simp at h
  · rename_i al' r1 ha
    rw [optAlias_semi _ r _ _ _ ha]
    simp only [peekSym_semi .LParen (by simp)]
    split at h
    · simp at h
    · rename_i hc
      simp at h; obtain ⟨rfl, rfl⟩ := h
      simp [hc]

theorem identElem_semi (r ts : List Tok) (t : Tok) (rest : List Tok) (h : identElem ts = .ok (t, rest)) :
    identElem (ts ++ semi :: r) = .ok (t, rest ++ semi :: r) := by
  unfold identElem at h
  split at h
  · simp at h
  · split at h
    · rename_i hi; simp at h; obtain ⟨rfl, rfl⟩ := h; simp [identElem, hi]
    · simp at h

theorem joinCstr_semi (c : QCfg) (r : List Tok) (f d : Nat) (ts : List Tok) (k : JoinCstr) (rest : List Tok)
    (h : joinCstr c f d ts = .ok (k, rest)) : joinCstr c f d (ts ++ semi :: r) = .ok (k, rest ++ semi :: r) := by
  unfold joinCstr at h ⊢
  rw [eatKw_semi, eatKw_semi]
  split at h
  · rename_i kw r1 hk
    simp only [hk, Option.map, app]
    split at h
    · simp at h
    · rename_i e r' he
      rw [parseE_semi c r _ _ _ _ _ he]
      simp at h; obtain ⟨rfl, rfl⟩ := h; rfl
  · rename_i hk
    simp only [hk, Option.map]
    split at h
    · rename_i kw r1 hu
      simp only [hu, app]
      split at h
      · rename_i r2
        simp only [List.cons_append]
        split at h
        · simp at h
        · rename_i cols r3 hl
          rw [commaSepE_semi _ _ r (identElem_semi r) _ _ _ _ hl]
          simp only
          split at h
          · rename_i r4
            simp at h; obtain ⟨rfl, rfl⟩ := h; rfl
          · simp at h
      · simp at h
    · rename_i hu
      simp at h; obtain ⟨rfl, rfl⟩ := h
      simp [hu]

theorem optCstr_semi (c : QCfg) (r : List Tok) (f d : Nat) (b : Bool) (ts : List Tok) (k : JoinCstr) (rest : List Tok)
    (h : optCstr c f d b ts = .ok (k, rest)) : optCstr c f d b (ts ++ semi :: r) = .ok (k, rest ++ semi :: r) := by
  cases b with
  | true => simp only [optCstr, if_true] at h ⊢; exact joinCstr_semi c r _ _ _ _ _ h
  | false => simp [optCstr] at h ⊢; obtain ⟨rfl, rfl⟩ := h; exact ⟨rfl, rfl⟩

theorem allOrDistinct_semi (r ts : List Tok) (qd : List Tok × Bool) (rest : List Tok)
    (h : allOrDistinct ts = .ok (qd, rest)) : allOrDistinct (ts ++ semi :: r) = .ok (qd, rest ++ semi :: r) := by
  unfold allOrDistinct at h ⊢
  simp only [allTail_app (semi_isKw _), app, eatKw_semi]
  split at h
  · rename_i hk
    simp at h; obtain ⟨rfl, rfl⟩ := h
    simp [hk]
  · rename_i t r1 hk
    simp only [hk, Option.map, app, peekKw_semi]
    split at h
    · simp at h
    · rename_i hne
      split at h
      · simp at h
      · rename_i hon
        simp at h; obtain ⟨rfl, rfl⟩ := h
        simp at hne
        simp [hne, hon]

theorem kwExprPart_semi (c : QCfg) (r : List Tok) (f d k : Nat) (ts : List Tok) (w : List Tok × Option Expr)
    (rest : List Tok) (h : kwExprPart c f d k ts = .ok (w, rest)) :
    kwExprPart c f d k (ts ++ semi :: r) = .ok (w, rest ++ semi :: r) := by
  unfold kwExprPart at h ⊢
  rw [eatKw_semi]
  split at h
  · rename_i kw r1 hk
    simp only [hk, Option.map, app]
    split at h
    · simp at h
    · rename_i e r' he
      rw [parseE_semi c r _ _ _ _ _ he]
      simp at h; obtain ⟨rfl, rfl⟩ := h; rfl
  · rename_i hk
    simp at h; obtain ⟨rfl, rfl⟩ := h
    simp [hk]

theorem groupPart_semi (c : QCfg) (r : List Tok) (f d : Nat) (ts : List Tok) (g : List Tok × Sep Expr)
    (rest : List Tok) (h : groupPart c f d ts = .ok (g, rest)) :
    groupPart c f d (ts ++ semi :: r) = .ok (g, rest ++ semi :: r) := by
  unfold groupPart at h ⊢
  rw [eatKws_semi _ (by simp)]
  split at h
  · rename_i kws r1 hk
    simp only [hk, Option.map, app, peekKw_semi]
    split at h
    · simp at h
    · rename_i hall
      simp only [hall]
      split at h
      · simp at h
      · rename_i es r' hl
        rw [commaSepE_semi _ _ r (fun ts v rest h => groupByElem_ext c semi_stopper r f d ts v rest h) _ _ _ _ hl]
        simp only [peekKw_semi]
        split at h
        · simp at h
        · rename_i hw
          simp at h; obtain ⟨rfl, rfl⟩ := h
          simp [hw]
  · rename_i hk
    simp at h; obtain ⟨rfl, rfl⟩ := h
    simp [hk]

theorem afterFromForeign_semi (ts r : List Tok) : afterFromForeign (ts ++ semi :: r) = afterFromForeign ts :=
  peekAnyKw_semi _ ts r
theorem afterGroupForeign_semi (ts r : List Tok) : afterGroupForeign (ts ++ semi :: r) = afterGroupForeign ts :=
  peekAnyKw_semi _ ts r
theorem afterHavingForeign_semi (ts r : List Tok) : afterHavingForeign (ts ++ semi :: r) = afterHavingForeign ts :=
  peekAnyKw_semi _ ts r

theorem selTail_semi (c : QCfg) (r : List Tok) (f d : Nat) (ts : List Tok) (tl : SelTail) (rest : List Tok)
    (hh : selTail c f d ts = .ok (tl, rest)) : selTail c f d (ts ++ semi :: r) = .ok (tl, rest ++ semi :: r) := by
  unfold selTail at hh ⊢
  rw [afterFromForeign_semi]
  split at hh
  · simp at hh
  · rename_i h0
    simp only [h0]
    split at hh
    · simp at hh
    · rename_i w ts1 hw
      rw [kwExprPart_semi c r _ _ _ _ _ _ hw]
      simp only
      split at hh
      · simp at hh
      · rename_i g ts2 hg
        rw [groupPart_semi c r _ _ _ _ _ hg]
        simp only [afterGroupForeign_semi]
        split at hh
        · simp at hh
        · rename_i h1
          simp only [h1]
          split at hh
          · simp at hh
          · rename_i hv ts3 hhv
            rw [kwExprPart_semi c r _ _ _ _ _ _ hhv]
            simp only [afterHavingForeign_semi]
            split at hh
            · simp at hh
            · rename_i h2
              simp at hh; obtain ⟨rfl, rfl⟩ := hh
              simp [h2]

theorem selHead_semi (c : QCfg) (r : List Tok) (f d : Nat) (sel : Tok) (ts : List Tok) (hd : SelHead) (rest : List Tok)
    (h : selHead c f d sel ts = .ok (hd, rest)) : selHead c f d sel (ts ++ semi :: r) = .ok (hd, rest ++ semi :: r) := by
  unfold selHead at h ⊢
  simp only [peekKw_semi]
  split at h
  · simp at h
  · rename_i h0
    simp only [h0]
    split at h
    · simp at h
    · rename_i qd ts1 hq
      rw [allOrDistinct_semi r _ _ _ hq]
      simp only [peekKw_semi]
      split at h
      · simp at h
      · rename_i h1
        simp only [h1]
        split at h
        · simp at h
        · rename_i proj ts2 hp
          rw [commaSepE_semi _ _ r (fun ts v rest h =>
            selectItem_ext _ semi_stopper r f d ts v rest h (fun _ _ => semi_isKw _)) _ _ _ _ hp]
          simp only [peekKw_semi]
          split at h
          · simp at h
          · rename_i h2
            simp at h; obtain ⟨rfl, rfl⟩ := h
            simp [h2]

def JoinHead.ext (s : List Tok) : JoinHead → JoinHead
  | .stop => .stop
  | .join k toks rest => .join k toks (rest ++ s)

/-- one step of a statement-level extension proof: split the hypothesis, discard failing branches,
reduce the goal with the fact just learnt -/
macro "semi_step" h:ident : tactic =>
  `(tactic| (split at $h:ident <;> first
      | (simp at $h:ident; done)
      | (rename_i heq $h:ident; simp only [heq, Option.map_some, Option.map_none, app, eatKw_semi, peekKw_semi, Bool.false_eq_true, if_false, if_true])))

theorem leftRightTail_semi (k0 : JoinKind) (t : Tok) (r0 r : List Tok) (jh : JoinHead)
    (h : leftRightTail k0 t r0 = .ok jh) : leftRightTail k0 t (r0 ++ semi :: r) = .ok (jh.ext (semi :: r)) := by
  unfold leftRightTail at h ⊢
  simp only [eatKw_semi, peekKw_semi]
  repeat' semi_step h
  all_goals (simp at h; subst h; simp [JoinHead.ext])

theorem joinHead_semi (r ts : List Tok) (jh : JoinHead) (h : joinHead ts = .ok jh) :
    joinHead (ts ++ semi :: r) = .ok (jh.ext (semi :: r)) := by
  unfold joinHead at h ⊢
  simp only [eatKw_semi, peekKw_semi]
  repeat' semi_step h
  all_goals first
    | (simp at h; subst h; simp [JoinHead.ext]; done)
    | exact leftRightTail_semi _ _ _ _ _ h

theorem objectName_semi (r : List Tok) :
    ∀ (n : Nat) (ts acc name rest : List Tok), ts.length ≤ n → objectName acc ts = .ok (name, rest) →
      objectName acc (ts ++ semi :: r) = .ok (name, rest ++ semi :: r) := by
  intro n
  induction n with
  | zero =>
    intro ts acc name rest hl h
    have : ts = [] := by cases ts <;> simp_all
    subst this; simp [objectName] at h
  | succ n ih =>
    intro ts acc name rest hl h
    cases ts with
    | nil => simp [objectName] at h
    | cons t ts1 =>
      unfold objectName at h
      simp only [List.cons_append]
      unfold objectName
      split at h
      · rename_i hi
        simp only [hi, if_true]
        split at h
        · rename_i rest'
          simp only [List.cons_append]
          exact ih rest' _ _ _ (by simp at hl ⊢; omega) h
        · rename_i hnp
          simp at h; obtain ⟨rfl, rfl⟩ := h
          split
          · rename_i rest' heq; exact (not_period_head_ext semi_stopper _ r hnp _ heq).elim
          · rfl
      · simp at h

def FactorHead.ext (s : List Tok) : FactorHead → FactorHead
  | .paren lp rest => .paren lp (rest ++ s)
  | .table name al rest => .table name al (rest ++ s)

theorem eatSym_semi (s : Sym) (hs : s ≠ .SemiColon) (ts r : List Tok) :
    eatSym (ts ++ semi :: r) s = (eatSym ts s).map (app (semi :: r)) := by
  cases ts with
  | nil =>
    have : semi.isSym s = false := by simp [Tok.isSym]; exact fun h => hs h.symm
    simp [eatSym, this]
  | cons a b =>
    simp only [List.cons_append, eatSym]
    split <;> simp [app]

theorem valuesParenAhead_semi (ts r : List Tok) : valuesParenAhead (ts ++ semi :: r) = valuesParenAhead ts := by
  unfold valuesParenAhead
  rw [peekKw_semi]
  match ts with
  | [] => simp [peekKw]
  | [a] => simp [semi]
  | a :: b :: rest =>
    congr 1
    simp only [List.cons_append]
    split <;> split <;> simp_all

theorem bigQueryNameForeign_semi (name ts r : List Tok) :
    bigQueryNameForeign name (ts ++ semi :: r) = bigQueryNameForeign name ts := by
  unfold bigQueryNameForeign
  rw [peekSym_semi .Minus (by simp)]

theorem afterNameForeign_semi (ts r : List Tok) : afterNameForeign (ts ++ semi :: r) = afterNameForeign ts := by
  unfold afterNameForeign
  rw [peekAnyKw_semi, peekSym_semi .LParen (by simp)]

theorem afterAliasForeign_semi (ts r : List Tok) : afterAliasForeign (ts ++ semi :: r) = afterAliasForeign ts :=
  peekAnyKw_semi _ ts r

theorem factorHead_semi (c : QCfg) (r ts : List Tok) (fh : FactorHead) (h : factorHead c ts = .ok fh) :
    factorHead c (ts ++ semi :: r) = .ok (fh.ext (semi :: r)) := by
  unfold factorHead at h ⊢
  rw [peekAnyKw_semi, eatSym_semi .LParen (by simp), valuesParenAhead_semi]
  split at h
  · simp at h
  · rename_i h0
    simp only [h0]
    split at h
    · rename_i lp rest hl
      simp at h; subst h
      simp [hl, app, FactorHead.ext]
    · rename_i hl
      simp only [hl, Option.map_none]
      split at h
      · simp at h
      · rename_i hv
        simp only [hv]
        split at h
        · simp at h
        · rename_i name r1 hn
          rw [objectName_semi r _ _ _ _ _ (Nat.le_refl _) hn]
          simp only [bigQueryNameForeign_semi, afterNameForeign_semi]
          split at h
          · simp at h
          · rename_i hb
            simp only [hb]
            split at h
            · simp at h
            · rename_i ha
              simp only [ha]
              split at h
              · simp at h
              · rename_i al r' hal
                rw [optTableAlias_semi r _ _ _ hal]
                simp only [afterAliasForeign_semi]
                split at h
                · simp at h
                · rename_i hf
                  simp at h; subst h
                  simp [hf, FactorHead.ext]

theorem query_semi_all (c : QCfg) (r : List Tok) (f : Nat) :
    (∀ d ts q rest, parseQuery c f d ts = .ok (q, rest) →
      parseQuery c f d (ts ++ semi :: r) = .ok (q, rest ++ semi :: r)) ∧
    (∀ d prec ts n rest, queryBody c f d prec ts = .ok (n, rest) →
      queryBody c f d prec (ts ++ semi :: r) = .ok (n, rest ++ semi :: r)) ∧
    (∀ d e prec ts n rest, remaining c f d e prec ts = .ok (n, rest) →
      remaining c f d e prec (ts ++ semi :: r) = .ok (n, rest ++ semi :: r)) ∧
    (∀ d sel ts n rest, parseSelect c f d sel ts = .ok (n, rest) →
      parseSelect c f d sel (ts ++ semi :: r) = .ok (n, rest ++ semi :: r)) ∧
    (∀ d conn ts n rest, fromItems c f d conn ts = .ok (n, rest) →
      fromItems c f d conn (ts ++ semi :: r) = .ok (n, rest ++ semi :: r)) ∧
    (∀ d b ts kn rest, fromRest c f d b ts = .ok (kn, rest) →
      fromRest c f d b (ts ++ semi :: r) = .ok (kn, rest ++ semi :: r)) := by
  induction f with
  | zero => simp [parseQuery, queryBody, remaining, parseSelect, fromItems, fromRest]
  | succ f ih =>
    obtain ⟨ihQ, ihB, ihR, ihS, ihF, ihT⟩ := ih
    refine ⟨?_, ?_, ?_, ?_, ?_, ?_⟩
    · -- parseQuery
      intro d ts q rest h
      cases d with
      | zero => simp [parseQuery] at h
      | succ d =>
        simp only [parseQuery] at h ⊢
        rw [peekAnyKw_semi]
        split at h
        · simp at h
        · rename_i h0
          simp only [h0]
          split at h
          · simp at h
          · rename_i body ts1 hb
            rw [ihB _ _ _ _ _ hb]
            simp only
            split at h
            · simp at h
            · rename_i qt ts2 ht
              rw [queryTail_semi c r _ _ _ _ _ ht]
              simp at h; obtain ⟨rfl, rfl⟩ := h; rfl
    · -- queryBody
      intro d prec ts n rest h
      cases ts with
      | nil => simp [queryBody] at h
      | cons t ts0 =>
        simp only [List.cons_append]
        unfold queryBody at h ⊢
        simp only at h ⊢
        split at h
        · rename_i hsel
          simp only [hsel, if_true]
          split at h
          · simp at h
          · rename_i s ts1 hs
            rw [ihS _ _ _ _ _ hs]
            exact ihR _ _ _ _ _ _ h
        · rename_i hsel
          simp only [hsel]
          split at h
          · split at h
            · simp at h
            · rename_i q ts1 hq
              rw [ihQ _ _ _ _ hq]
              simp only
              split at h
              · rename_i ts2
                simp only [List.cons_append]
                exact ihR _ _ _ _ _ _ h
              · simp at h
          · split at h <;> simp at h
    · -- remaining
      intro d e prec ts n rest h
      cases ts with
      | nil =>
        unfold remaining at h
        simp at h; obtain ⟨rfl, rfl⟩ := h
        simp only [List.nil_append]
        unfold remaining
        simp [setOpOf_semi]
      | cons t ts0 =>
        simp only [List.cons_append]
        unfold remaining at h ⊢
        simp only at h ⊢
        split at h
        · simp at h; obtain ⟨rfl, rfl⟩ := h
          rfl
        · rename_i o ho
          split at h
          · rename_i hp
            simp at h; obtain ⟨rfl, rfl⟩ := h
            simp [hp]
          · rename_i hp
            simp only [hp, if_false, setQuant_semi]
            split at h
            · simp at h
            · rename_i rr ts1 hb
              rw [ihB _ _ _ _ _ hb]
              exact ihR _ _ _ _ _ _ h
    · -- parseSelect
      intro d sel ts n rest h
      simp only [parseSelect] at h ⊢
      split at h
      · simp at h
      · rename_i hd ts1 hh
        rw [selHead_semi c r _ _ _ _ _ _ hh]
        simp only [eatKw_semi]
        split at h
        · rename_i kw r1 hk
          simp only [hk, Option.map_some, app]
          split at h
          · simp at h
          · rename_i fr ts2 hf
            rw [ihF _ _ _ _ _ hf]
            simp only
            split at h
            · simp at h
            · rename_i tl ts3 ht
              rw [selTail_semi c r _ _ _ _ _ ht]
              simp at h; obtain ⟨rfl, rfl⟩ := h; rfl
        · rename_i hk
          simp only [hk, Option.map_none]
          split at h
          · simp at h
          · rename_i tl ts3 ht
            rw [selTail_semi c r _ _ _ _ _ ht]
            simp at h; obtain ⟨rfl, rfl⟩ := h; rfl
    · -- fromItems
      intro d conn ts n rest h
      simp only [fromItems] at h ⊢
      split at h
      · simp at h
      · rename_i hd0
        simp only [hd0, if_false]
        split at h
        · simp at h
        · rename_i name al r1 hfh
          rw [factorHead_semi c r _ _ hfh]
          simp only [FactorHead.ext]
          split at h
          · simp at h
          · rename_i k rs ts' hr
            rw [ihT _ _ _ _ _ hr]
            simp at h; obtain ⟨rfl, rfl⟩ := h; rfl
        · rename_i lp r1 hfh
          rw [factorHead_semi c r _ _ hfh]
          simp only [FactorHead.ext]
          split at h
          · simp at h
          · simp at h
          · simp at h
          · rename_i q r2 hq
            rw [ihQ _ _ _ _ hq]
            simp only
            split at h
            · rename_i r3
              simp only [List.cons_append]
              split at h
              · simp at h
              · rename_i al r4 ha
                rw [optTableAlias_semi r _ _ _ ha]
                simp only [peekAnyKw_semi]
                split at h
                · simp at h
                · rename_i hpv
                  simp only [hpv]
                  split at h
                  · simp at h
                  · rename_i k rs ts' hr
                    rw [ihT _ _ _ _ _ hr]
                    simp at h; obtain ⟨rfl, rfl⟩ := h; rfl
            · simp at h
    · -- fromRest
      intro d b ts kn rest h
      simp only [fromRest] at h ⊢
      split at h
      · simp at h
      · rename_i k1 ts1 hc
        rw [optCstr_semi c r _ _ _ _ _ _ hc]
        simp only
        split at h
        · simp at h
        · rename_i jk toks r1 hj
          rw [joinHead_semi r _ _ hj]
          simp only [JoinHead.ext]
          split at h
          · simp at h
          · rename_i rs ts2 hf
            rw [ihF _ _ _ _ _ hf]
            simp at h; obtain ⟨rfl, rfl⟩ := h; rfl
        · rename_i hj
          rw [joinHead_semi r _ _ hj]
          simp only [JoinHead.ext]
          split at h
          · rename_i r1
            simp only [List.cons_append, listEnds_semi]
            split at h
            · rename_i htc
              simp at h; obtain ⟨rfl, rfl⟩ := h
              simp [htc]
            · rename_i htc
              simp only [htc]
              split at h
              · simp at h
              · rename_i rs ts2 hf
                rw [ihF _ _ _ _ _ hf]
                simp at h; obtain ⟨rfl, rfl⟩ := h; rfl
          · rename_i hnc
            simp at h; obtain ⟨rfl, rfl⟩ := h
            cases ts1 with
            | nil => rfl
            | cons a b =>
              simp only [List.cons_append]
              split
              · rename_i r2 heq; simp at heq; exact (hnc b (by rw [heq.1])).elim
              · rfl

/-- **statement-level extension**: a statement accepted by the model is accepted, with the same
tree, in front of `;` and anything after it -/
theorem parseStatement_semi (c : QCfg) (r : List Tok) (f limit : Nat) (ts : List Tok) (q : Query) (rest : List Tok)
    (h : parseStatement c f limit ts = .ok (q, rest)) :
    parseStatement c f limit (ts ++ semi :: r) = .ok (q, rest ++ semi :: r) := by
  unfold parseStatement at h ⊢
  cases limit with
  | zero => simp at h
  | succ d =>
    simp only at h ⊢
    cases ts with
    | nil => simp at h
    | cons t ts0 =>
      simp only [List.cons_append] at h ⊢
      split at h
      · rename_i hs
        simp only [hs, if_true]
        exact (query_semi_all c r f).1 _ _ _ _ h
      · rename_i hs
        simp only [hs]
        split at h
        · exact (query_semi_all c r f).1 _ _ _ _ h
        · simp at h
        · simp at h

/-- an accepted statement starts with `SELECT` or `(`: never with the separator -/
theorem parseStatement_starts (c : QCfg) (f limit : Nat) (ts : List Tok) (q : Query) (rest : List Tok)
    (h : parseStatement c f limit ts = .ok (q, rest)) : ∃ t r, ts = t :: r ∧ t.isSym .SemiColon = false := by
  unfold parseStatement at h
  cases limit with
  | zero => simp at h
  | succ d =>
    simp only at h
    cases ts with
    | nil => simp at h
    | cons t ts0 =>
      refine ⟨t, ts0, rfl, ?_⟩
      simp only at h
      split at h
      · rename_i hs
        unfold Tok.isKw at hs
        split at hs <;> simp_all [Tok.isSym]
      · split at h
        · simp [Tok.isSym]
        · simp at h
        · simp at h

end SqlVerif.Query

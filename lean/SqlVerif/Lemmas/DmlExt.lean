import SqlVerif.Lemmas.DmlLemmas
import SqlVerif.Lemmas.DmlDT
import SqlVerif.Lemmas.QueryExt
/-!
Extension lemmas for the statement model (`Model/Dml.lean`), on top of `Lemmas/PrattExt.lean`,
`Lemmas/QueryExt.lean` and `Lemmas/DmlDT.lean`:

* element level: a `VALUES` row, an assignment, a name, an identifier (any stopper token `x`) and a
  column definition (`x` = `,` `)` `;`) that was parsed completely is parsed to the same value in
  front of `x` — the locality hypothesis of the list theorems of C13;
* statement level (`x` = `;`): every parser function of the model, run on `ts ++ ; :: r`, repeats
  its successful run on `ts` and leaves `; :: r` untouched — the locality hypothesis of the script
  theorem of C11.
-/
set_option linter.unusedSimpArgs false
namespace SqlVerif.Dml
open SqlVerif.Pratt SqlVerif.Query SqlVerif.Gen

/-- a payload-free token that separates list elements / column definitions / statements: `,` `)` `;` -/
def colSep : Tok → Bool
  | .sym .Comma | .sym .RParen | .sym .SemiColon => true
  | _ => false

theorem colSep_shape {x : Tok} (h : colSep x = true) : x = .sym .Comma ∨ x = .sym .RParen ∨ x = .sym .SemiColon := by
  unfold colSep at h
  split at h <;> simp_all

theorem colSep_stopper {x : Tok} (h : colSep x = true) : stopper x = true := by
  rcases colSep_shape h with rfl | rfl | rfl <;> rfl

theorem colSep_isKw {x : Tok} (h : colSep x = true) (k : Nat) : x.isKw k = false := by
  rcases colSep_shape h with rfl | rfl | rfl <;> rfl

theorem colSep_isSym {x : Tok} (h : colSep x = true) {s : Sym} (hs : s ≠ .Comma ∧ s ≠ .RParen ∧ s ≠ .SemiColon) :
    x.isSym s = false := by
  rcases colSep_shape h with rfl | rfl | rfl <;> simp [Tok.isSym] <;> intro h' <;> simp_all

theorem colSep_toDTok {x : Tok} (h : colSep x = true) : SqlVerif.DTy.sepTok (toDTok x) = true := by
  rcases colSep_shape h with rfl | rfl | rfl <;> rfl

-- ------------------------------------------------------------------ generic helpers
theorem eatSym_ext {ts : List Tok} {s : Sym} {t : Tok} {rest : List Tok} (h : eatSym ts s = some (t, rest)) (S : List Tok) :
    eatSym (ts ++ S) s = some (t, rest ++ S) := by
  cases ts with
  | nil => simp [eatSym] at h
  | cons a b =>
    simp only [eatSym, List.cons_append] at h ⊢
    split at h
    · rename_i hs; simp at h; obtain ⟨rfl, rfl⟩ := h; simp [hs]
    · simp at h

theorem eatSym_ext_none {ts : List Tok} {s : Sym} {x : Tok} (hx : x.isSym s = false) (h : eatSym ts s = none) (r : List Tok) :
    eatSym (ts ++ x :: r) s = none := by
  cases ts with
  | nil => simp [eatSym, hx]
  | cons a b =>
    simp only [eatSym, List.cons_append] at h ⊢
    split at h
    · simp at h
    · rename_i hs; simp [hs]

/-- `eatSym` failed on a non-empty input: it fails on every extension -/
theorem eatSym_ext_none' {ts : List Tok} {s : Sym} (hne : ts ≠ []) (h : eatSym ts s = none) (S : List Tok) :
    eatSym (ts ++ S) s = none := by
  cases ts with
  | nil => exact absurd rfl hne
  | cons a b =>
    simp only [eatSym, List.cons_append] at h ⊢
    split at h
    · simp at h
    · rename_i hs; simp [hs]

theorem kwTail_app {x : Tok} {k : Nat} (hk : x.isKw k = false) (ts r : List Tok) :
    kwTail k (ts ++ x :: r) = app (x :: r) (kwTail k ts) := by
  unfold kwTail
  rw [eatKw_app hk]
  cases eatKw ts k <;> simp [app]

theorem kwsTail_app {x : Tok} (ks : List Nat) (hks : ∀ k ∈ ks, x.isKw k = false) (hne : ks ≠ []) (ts r : List Tok) :
    kwsTail ks (ts ++ x :: r) = app (x :: r) (kwsTail ks ts) := by
  unfold kwsTail
  rw [eatKws_app ks hks hne]
  cases eatKws ts ks <;> simp [app]

theorem listEnds_ext {x : Tok} (ts r : List Tok) (h : ts ≠ [] ∨ endsList x = true) :
    listEnds (ts ++ x :: r) = listEnds ts := by
  cases ts with
  | nil => rcases h with h | h
           · exact absurd rfl h
           · simp [listEnds, h]
  | cons a b => rfl

/-- `parse_comma_separated` in front of a stopper token `x`: the list is repeated when it did not end
at the very end of the input, or `x` is itself a list-ending token (not a comma) -/
theorem commaSepE_ext {α : Type} (tc : Bool) (elem : List Tok → Res α) {x : Tok} (r : List Tok)
    (hel : ∀ ts v rest, elem ts = .ok (v, rest) → elem (ts ++ x :: r) = .ok (v, rest ++ x :: r)) :
    ∀ (n : Nat) (ts : List Tok) (vs : Sep α) (rest : List Tok),
      commaSepE tc elem n ts = .ok (vs, rest) → (rest ≠ [] ∨ (endsList x = true ∧ x.isSym .Comma = false)) →
      commaSepE tc elem n (ts ++ x :: r) = .ok (vs, rest ++ x :: r) := by
  intro n
  induction n with
  | zero => intro ts vs rest h; simp [commaSepE] at h
  | succ n ih =>
    intro ts vs rest h hne
    simp only [commaSepE] at h ⊢
    split at h
    · simp at h
    · rename_i v r1 he
      rw [hel _ _ _ he]
      simp only
      split at h
      · rename_i r2
        simp only [List.cons_append]
        split at h
        · rename_i hc
          simp at h; obtain ⟨rfl, rfl⟩ := h
          have : listEnds (r2 ++ x :: r) = listEnds r2 := listEnds_ext _ _ (by
            rcases hne with h | h
            · exact Or.inl h
            · exact Or.inr h.1)
          simp [this, hc]
        · rename_i hc
          have : (tc && listEnds (r2 ++ x :: r)) = false := by
            cases tc with
            | false => rfl
            | true =>
              simp at hc
              cases r2 with
              | nil => simp [listEnds] at hc
              | cons a b => simpa [listEnds] using hc
          simp only [this]
          split at h
          · simp at h
          · rename_i vs' r3 hr
            simp at h; obtain ⟨rfl, rfl⟩ := h
            rw [ih _ _ _ hr hne]
            simp
      · rename_i hnc
        simp at h; obtain ⟨rfl, rfl⟩ := h
        cases r1 with
        | nil =>
          rcases hne with h | h
          · exact absurd rfl h
          · simp only [List.nil_append]
            split
            · rename_i r2 heq
              simp at heq
              rw [heq.1] at h; simp [Tok.isSym] at h
            · rfl
        | cons a b =>
          simp only [List.cons_append]
          split
          · rename_i r2 heq; simp at heq; exact (hnc b (by rw [heq.1])).elim
          · rfl

theorem objectName_ext {x : Tok} (hx : stopper x = true) (r : List Tok) :
    ∀ (n : Nat) (ts acc name rest : List Tok), ts.length ≤ n → objectName acc ts = .ok (name, rest) →
      objectName acc (ts ++ x :: r) = .ok (name, rest ++ x :: r) := by
  intro n
  induction n with
  | zero =>
    intro ts acc name rest hl h
    have : ts = [] := by cases ts <;> simp_all
    subst this; simp [objectName] at h
  | succ n ih =>
    intro ts acc name rest hl h
    cases ts with
    | nil => simp [objectName] at h
    | cons t ts1 =>
      unfold objectName at h
      simp only [List.cons_append]
      unfold objectName
      split at h
      · rename_i hi
        simp only [hi, if_true]
        split at h
        · rename_i rest'
          simp only [List.cons_append]
          exact ih rest' _ _ _ (by simp at hl ⊢; omega) h
        · rename_i hnp
          simp at h; obtain ⟨rfl, rfl⟩ := h
          split
          · rename_i rest' heq; exact (not_period_head_ext hx _ r hnp _ heq).elim
          · rfl
      · simp at h

theorem nameElem_ext {x : Tok} (hx : stopper x = true) (r ts name rest : List Tok) (h : nameElem ts = .ok (name, rest)) :
    nameElem (ts ++ x :: r) = .ok (name, rest ++ x :: r) :=
  objectName_ext hx r _ _ _ _ _ (Nat.le_refl _) h

theorem identElem_ext (S ts : List Tok) (t : Tok) (rest : List Tok) (h : identElem ts = .ok (t, rest)) :
    identElem (ts ++ S) = .ok (t, rest ++ S) := by
  unfold identElem at h
  split at h
  · simp at h
  · split at h
    · rename_i hi; simp at h; obtain ⟨rfl, rfl⟩ := h; simp [identElem, hi]
    · simp at h

theorem nameElem_ne_nil {ts name rest : List Tok} (h : nameElem ts = .ok (name, rest)) : ts ≠ [] := by
  intro h0; subst h0; simp [nameElem, objectName] at h


theorem parseE_ne_nil' {c : QCfg} {f d : Nat} {ts : List Tok} {e : Expr} {rest : List Tok}
    (h : parseE c f d ts = .ok (e, rest)) : ts ≠ [] := parseE_ne_nil _ _ _ _ _ _ h

theorem commaSepE_ne_nil {α : Type} {tc : Bool} {elem : List Tok → Res α} (hel : ∀ v rest, elem [] ≠ .ok (v, rest))
    {n : Nat} {ts : List Tok} {vs : Sep α} {rest : List Tok} (h : commaSepE tc elem n ts = .ok (vs, rest)) : ts ≠ [] := by
  intro h0; subst h0
  cases n with
  | zero => simp [commaSepE] at h
  | succ n =>
    simp only [commaSepE] at h
    split at h
    · simp at h
    · rename_i v r1 he; exact hel _ _ he

-- ------------------------------------------------------------------ VALUES rows (any stopper)
theorem rowBody_ext (c : DCfg) {x : Tok} (hx : stopper x = true) (r : List Tok) (f d : Nat) (rk ts : List Tok) (row : Row)
    (rest : List Tok) (h : rowBody c f d rk ts = .ok (row, rest)) :
    rowBody c f d rk (ts ++ x :: r) = .ok (row, rest ++ x :: r) := by
  unfold rowBody at h ⊢
  split at h
  · simp at h
  · rename_i lp r0 hl
    rw [eatSym_ext hl]
    simp only
    split at h
    · rename_i rp r' he
      split at he
      · rename_i hm
        simp only [hm, if_true, eatSym_ext he]
        simp at h; obtain ⟨rfl, rfl⟩ := h; rfl
      · simp at he
    · rename_i he
      split at h
      · simp at h
      · rename_i es r1 hes
        have hne : r0 ≠ [] := commaSepE_ne_nil (by
          intro v rest hh; exact absurd rfl (parseE_ne_nil' hh)) hes
        have he' : (if c.isMySql = true then eatSym (r0 ++ x :: r) .RParen else none) = none := by
          split at he
          · rename_i hm; simp only [hm, if_true]; exact eatSym_ext_none' hne he _
          · rename_i hm; simp [hm]
        simp only [he']
        split at h
        · rename_i rp r2 hr
          have hr1 : r1 ≠ [] := by intro h0; subst h0; simp [eatSym] at hr
          rw [commaSepE_ext _ _ r (fun ts v rest hh => parseE_ext c.q hx r f d ts v rest hh) _ _ _ _ hes (Or.inl hr1)]
          simp only [eatSym_ext hr]
          simp at h; obtain ⟨rfl, rfl⟩ := h; rfl
        · simp at h

theorem valuesRow_ext (c : DCfg) {x : Tok} (hx : stopper x = true) (r : List Tok) (f d : Nat)
    (ts : List Tok) (row : Row) (rest : List Tok) (h : valuesRow c f d ts = .ok (row, rest)) :
    valuesRow c f d (ts ++ x :: r) = .ok (row, rest ++ x :: r) := by
  cases ts with
  | nil => simp [valuesRow, kwTail, eatKw, rowBody, eatSym] at h
  | cons a b =>
    unfold valuesRow at h ⊢
    have : kwTail DK.ROW (a :: b ++ x :: r) = app (x :: r) (kwTail DK.ROW (a :: b)) := by
      simp only [kwTail, eatKw, List.cons_append]
      cases a.isKw DK.ROW <;> simp [app]
    rw [this]
    exact rowBody_ext c hx r f d _ _ _ _ h

-- ------------------------------------------------------------------ identifier lists in parentheses
theorem identElem_nil (v : Tok) (rest : List Tok) : identElem [] ≠ .ok (v, rest) := by simp [identElem]

theorem parenIds_ext (c : DCfg) {x : Tok} (hlp : x.isSym .LParen = false) (r : List Tok) (f : Nat)
    (ae : Bool) (ts : List Tok) (p : ParenIds) (rest : List Tok) (h : parenIds c f ae ts = .ok (p, rest)) :
    parenIds c f ae (ts ++ x :: r) = .ok (p, rest ++ x :: r) := by
  unfold parenIds at h ⊢
  split at h
  · rename_i hl
    simp at h; obtain ⟨rfl, rfl⟩ := h
    simp [eatSym_ext_none hlp hl]
  · rename_i lp r0 hl
    rw [eatSym_ext hl]
    simp only
    split at h
    · rename_i rp r' he
      split at he
      · rename_i hm
        simp only [hm, if_true, eatSym_ext he]
        simp at h; obtain ⟨rfl, rfl⟩ := h; rfl
      · simp at he
    · rename_i he
      split at h
      · simp at h
      · rename_i ids r1 hes
        have hne : r0 ≠ [] := commaSepE_ne_nil identElem_nil hes
        have he' : (if ae = true then eatSym (r0 ++ x :: r) .RParen else none) = none := by
          split at he
          · rename_i hm; simp only [hm, if_true]; exact eatSym_ext_none' hne he _
          · rename_i hm; simp [hm]
        simp only [he']
        split at h
        · rename_i rp r2 hr
          have hr1 : r1 ≠ [] := by intro h0; subst h0; simp [eatSym] at hr
          rw [commaSepE_ext _ _ r (fun ts v rest hh => identElem_ext _ ts v rest hh) _ _ _ _ hes (Or.inl hr1)]
          simp only [eatSym_ext hr]
          simp at h; obtain ⟨rfl, rfl⟩ := h; rfl
        · simp at h

-- ------------------------------------------------------------------ assignments (any stopper)
theorem nameElem_nil (v rest : List Tok) : nameElem [] ≠ .ok (v, rest) := by simp [nameElem, objectName]

theorem assignTarget_ext (c : DCfg) {x : Tok} (hx : stopper x = true) (r : List Tok) (f : Nat) (ts : List Tok)
    (tg : AssignTarget) (rest : List Tok) (h : assignTarget c f ts = .ok (tg, rest)) :
    assignTarget c f (ts ++ x :: r) = .ok (tg, rest ++ x :: r) := by
  unfold assignTarget at h ⊢
  split at h
  · rename_i lp r0 hl
    rw [eatSym_ext hl]
    simp only
    split at h
    · simp at h
    · rename_i names r1 hn
      split at h
      · simp at h
      · rename_i rp r2 hr
        have hr1 : r1 ≠ [] := by intro h0; subst h0; simp [eatSym] at hr
        rw [commaSepE_ext _ _ r (fun ts v rest hh => nameElem_ext hx r ts v rest hh) _ _ _ _ hn (Or.inl hr1)]
        simp only [eatSym_ext hr]
        split at h
        · simp at h
        · rename_i hd
          simp at h; obtain ⟨rfl, rfl⟩ := h
          simp [hd]
  · rename_i hl
    split at h
    · simp at h
    · rename_i name r0 hn
      have hne := nameElem_ne_nil hn
      rw [eatSym_ext_none' hne hl, nameElem_ext hx r _ _ _ hn]
      simp only
      split at h
      · simp at h
      · rename_i hd
        simp at h; obtain ⟨rfl, rfl⟩ := h
        simp [hd]

theorem assignment_ext (c : DCfg) {x : Tok} (hx : stopper x = true) (r : List Tok) (f d : Nat) (ts : List Tok)
    (a : Assign) (rest : List Tok) (h : assignment c f d ts = .ok (a, rest)) :
    assignment c f d (ts ++ x :: r) = .ok (a, rest ++ x :: r) := by
  unfold assignment at h ⊢
  split at h
  · simp at h
  · rename_i tg r0 ht
    rw [assignTarget_ext c hx r _ _ _ _ ht]
    simp only
    split at h
    · simp at h
    · rename_i eq r1 he
      rw [eatSym_ext he]
      simp only
      split at h
      · simp at h
      · rename_i e r2 hp
        rw [parseE_ext c.q hx r _ _ _ _ _ hp]
        simp at h; obtain ⟨rfl, rfl⟩ := h; rfl


-- ------------------------------------------------------------------ column types
theorem parseDataType_nil (c : SqlVerif.DTy.Cfg) (f d : Nat) (p : SqlVerif.DTy.DT × List SqlVerif.DTy.Tok) :
    SqlVerif.DTy.parseDataType c f d [] ≠ .ok p := by
  cases f with
  | zero => simp [SqlVerif.DTy.parseDataType, SqlVerif.DTy.parseHelper]
  | succ f =>
    cases d with
    | zero => simp [SqlVerif.DTy.parseDataType, SqlVerif.DTy.parseHelper]
    | succ d => simp [SqlVerif.DTy.parseDataType, SqlVerif.DTy.parseHelper, SqlVerif.DTy.expectedAt]

theorem parseDataType_word (c : SqlVerif.DTy.Cfg) (f d : Nat) (t : SqlVerif.DTy.Tok) (r0 : List SqlVerif.DTy.Tok)
    (p : SqlVerif.DTy.DT × List SqlVerif.DTy.Tok) (h : SqlVerif.DTy.parseDataType c f d (t :: r0) = .ok p) : t.isWord = true := by
  cases f with
  | zero => simp [SqlVerif.DTy.parseDataType, SqlVerif.DTy.parseHelper] at h
  | succ f =>
    cases d with
    | zero => simp [SqlVerif.DTy.parseDataType, SqlVerif.DTy.parseHelper] at h
    | succ d =>
      cases t <;> first
        | rfl
        | simp [SqlVerif.DTy.parseDataType, SqlVerif.DTy.parseHelper, SqlVerif.DTy.expectedAt] at h

theorem colType_ext (c : DCfg) {x : Tok} (hx : colSep x = true) (r : List Tok) (f d : Nat) (ts : List Tok)
    (ty : SqlVerif.DTy.DT × List Tok) (rest : List Tok) (h : colType c f d ts = .ok (ty, rest)) :
    colType c f d (ts ++ x :: r) = .ok (ty, rest ++ x :: r) := by
  unfold colType at h ⊢
  split at h
  · simp at h
  · rename_i hf
    split at h
    · simp at h
    · rename_i t rest' hp
      cases ts with
      | nil => exact absurd hp (parseDataType_nil _ _ _ _)
      | cons a b =>
        have hw := parseDataType_word _ _ _ _ _ _ hp
        have hf' : typeHeadForeign c (a :: b ++ x :: r) = typeHeadForeign c (a :: b) := by
          cases a <;> rfl
        rw [hf']
        simp only [hf]
        have hplain : SqlVerif.DTy.headPlain c.dt ((a :: b).map toDTok) = true := by
          cases a <;> simp [toDTok, SqlVerif.DTy.Tok.isWord] at hw
          rename_i v q kw
          simp [typeHeadForeign] at hf
          simp [SqlVerif.DTy.headPlain, toDTok, hf]
        have := SqlVerif.DTy.parseDataType_ext (colSep_toDTok hx) (r.map toDTok) c.dt f d hplain hp
        have hm : (a :: b ++ x :: r).map toDTok = (a :: b).map toDTok ++ toDTok x :: r.map toDTok := by simp
        rw [hm, this]
        simp only
        simp at h; obtain ⟨⟨rfl, rfl⟩, rfl⟩ := h
        have hn : (a :: b ++ x :: r).length - (rest' ++ toDTok x :: r.map toDTok).length = (a :: b).length - rest'.length := by
          simp; omega
        rw [hn]
        have hle : (a :: b).length - rest'.length ≤ (a :: b).length := Nat.sub_le _ _
        rw [List.take_append_of_le_length hle, List.drop_append_of_le_length hle]
        simp


-- ------------------------------------------------------------------ rewriting in front of `,` `)` `;`
section Sep
variable {x : Tok} (hx : colSep x = true)
include hx

theorem eatKw_sep (k : Nat) (ts r : List Tok) : eatKw (ts ++ x :: r) k = (eatKw ts k).map (app (x :: r)) :=
  eatKw_app (colSep_isKw hx k) ts r

theorem eatKws_sep (ks : List Nat) (hne : ks ≠ []) (ts r : List Tok) :
    eatKws (ts ++ x :: r) ks = (eatKws ts ks).map (app (x :: r)) :=
  eatKws_app ks (fun k _ => colSep_isKw hx k) hne ts r

theorem peekKw_sep (k : Nat) (ts r : List Tok) : peekKw (ts ++ x :: r) k = peekKw ts k :=
  peekKw_ext' (colSep_isKw hx k) ts r

theorem peekAnyKw_sep (ks : List Nat) (ts r : List Tok) : peekAnyKw (ts ++ x :: r) ks = peekAnyKw ts ks :=
  peekAnyKw_ext ks (fun k _ => colSep_isKw hx k) ts r

theorem ccForeign_sep (ts r : List Tok) : ccForeign (ts ++ x :: r) = ccForeign ts := by
  unfold ccForeign
  rw [peekAnyKw_sep hx, eatKws_sep hx _ (by simp), eatKws_sep hx _ (by simp)]
  cases eatKws ts [DK.NOT, DK.DEFERRABLE] <;> cases eatKws ts [DK.NOT, DK.ENFORCED] <;> simp

/-- what happens to an option result when tokens are appended to the input -/
theorem dialectOpt_ext (ok : Bool) (t : Tok) (r0 r : List Tok) (o : OptRes) (rest : List Tok)
    (h : dialectOpt ok t r0 = .ok (o, rest)) : dialectOpt ok t (r0 ++ x :: r) = .ok (o, rest ++ x :: r) := by
  unfold dialectOpt at h ⊢
  rw [peekAnyKw_sep hx]
  split at h
  · rename_i hok; simp at h; obtain ⟨rfl, rfl⟩ := h; simp [hok]
  · rename_i hok
    split at h
    · simp at h
    · rename_i hl; simp at h; obtain ⟨rfl, rfl⟩ := h; simp [hok, hl]

theorem colOptionTail_ext (c : DCfg) (r ts : List Tok) (o : OptRes) (rest : List Tok)
    (h : colOptionTail c ts = .ok (o, rest)) : colOptionTail c (ts ++ x :: r) = .ok (o, rest ++ x :: r) := by
  unfold colOptionTail at h ⊢
  simp only [eatKw_sep hx, peekAnyKw_sep hx]
  split at h
  · rename_i t r0 hk
    simp only [hk, Option.map, app]
    exact dialectOpt_ext hx _ _ _ _ _ _ h
  · rename_i hk
    simp only [hk, Option.map]
    split at h
    · rename_i t r0 hk2
      simp only [hk2, app]
      exact dialectOpt_ext hx _ _ _ _ _ _ h
    · rename_i hk2
      simp only [hk2]
      split at h
      · rename_i t r0 hk3
        simp only [hk3, app]
        exact dialectOpt_ext hx _ _ _ _ _ _ h
      · rename_i hk3
        simp only [hk3]
        split at h
        · rename_i t r0 hk4
          simp only [hk4, app]
          exact dialectOpt_ext hx _ _ _ _ _ _ h
        · rename_i hk4
          simp only [hk4]
          split at h
          · simp at h
          · rename_i hl
            simp at h; obtain ⟨rfl, rfl⟩ := h
            simp [hl]

omit hx in
theorem commentTail_ext (kw : Tok) (S ts : List Tok) (o : OptRes) (rest : List Tok)
    (h : commentTail kw ts = .ok (o, rest)) : commentTail kw (ts ++ S) = .ok (o, rest ++ S) := by
  unfold commentTail at h
  split at h
  · simp at h; obtain ⟨rfl, rfl⟩ := h; simp [commentTail]
  · simp at h

theorem checkTail_ext (c : DCfg) (f d : Nat) (kw : Tok) (r ts : List Tok) (o : OptRes) (rest : List Tok)
    (h : checkTail c f d kw ts = .ok (o, rest)) : checkTail c f d kw (ts ++ x :: r) = .ok (o, rest ++ x :: r) := by
  unfold checkTail at h ⊢
  split at h
  · simp at h
  · rename_i lp r0 hl
    rw [eatSym_ext hl]
    simp only
    split at h
    · simp at h
    · rename_i e r1 he
      rw [parseE_ext c.q (colSep_stopper hx) r _ _ _ _ _ he]
      simp only
      split at h
      · simp at h
      · rename_i rp r2 hr
        rw [eatSym_ext hr]
        simp at h; obtain ⟨rfl, rfl⟩ := h; rfl

theorem referencesTail_ext (c : DCfg) (f : Nat) (kw : Tok) (r ts : List Tok) (o : OptRes) (rest : List Tok)
    (h : referencesTail c f kw ts = .ok (o, rest)) : referencesTail c f kw (ts ++ x :: r) = .ok (o, rest ++ x :: r) := by
  unfold referencesTail at h ⊢
  split at h
  · simp at h
  · rename_i name r0 hn
    rw [nameElem_ext (colSep_stopper hx) r _ _ _ hn]
    simp only
    split at h
    · simp at h
    · rename_i hd
      simp only [hd]
      split at h
      · simp at h
      · rename_i cols r1 hc
        rw [parenIds_ext c (colSep_isSym hx (by simp)) r _ _ _ _ _ hc]
        simp only [peekKw_sep hx, ccForeign_sep hx]
        split at h
        · simp at h
        · rename_i hon
          simp at h; obtain ⟨rfl, rfl⟩ := h
          simp at hon
          simp [hon]

theorem defaultTail_ext (c : DCfg) (f d : Nat) (kw : Tok) (r ts : List Tok) (o : OptRes) (rest : List Tok)
    (h : defaultTail c f d kw ts = .ok (o, rest)) : defaultTail c f d kw (ts ++ x :: r) = .ok (o, rest ++ x :: r) := by
  unfold defaultTail at h ⊢
  split at h
  · simp at h
  · rename_i e r0 he
    rw [parseE_ext c.q (colSep_stopper hx) r _ _ _ _ _ he]
    simp at h; obtain ⟨rfl, rfl⟩ := h; rfl

theorem ccTail_ext (o0 : ColOpt) (r ts : List Tok) (o : OptRes) (rest : List Tok)
    (h : ccTail o0 ts = .ok (o, rest)) : ccTail o0 (ts ++ x :: r) = .ok (o, rest ++ x :: r) := by
  unfold ccTail at h ⊢
  rw [ccForeign_sep hx]
  split at h
  · simp at h
  · rename_i hc; simp at h; obtain ⟨rfl, rfl⟩ := h; simp [hc]

theorem colOption_ext (c : DCfg) (f d : Nat) (r ts : List Tok) (o : OptRes) (rest : List Tok)
    (h : colOption c f d ts = .ok (o, rest)) : colOption c f d (ts ++ x :: r) = .ok (o, rest ++ x :: r) := by
  unfold colOption at h ⊢
  simp only [eatKw_sep hx, peekAnyKw_sep hx, eatKws_sep hx [DK.CHARACTER, DK.SET] (by simp),
    eatKws_sep hx [DK.NOT, DK.NULL] (by simp), eatKws_sep hx [DK.PRIMARY, DK.KEY] (by simp)]
  split at h
  · simp at h
  · rename_i h0
    have h0' : ((eatKws ts [DK.CHARACTER, DK.SET]).map (app (x :: r))).isSome = false := by
      cases hh : eatKws ts [DK.CHARACTER, DK.SET] <;> simp_all
    simp only [h0', Bool.false_eq_true, if_false]
    split at h
    · rename_i toks r0 hk
      simp only [hk, Option.map, app]
      simp at h; obtain ⟨rfl, rfl⟩ := h; rfl
    · rename_i hk
      simp only [hk, Option.map]
      split at h
      · rename_i kw r0 hk2
        simp only [hk2, app]
        exact commentTail_ext _ _ _ _ _ h
      · rename_i hk2
        simp only [hk2]
        split at h
        · rename_i t r0 hk3
          simp only [hk3, app]
          simp at h; obtain ⟨rfl, rfl⟩ := h; rfl
        · rename_i hk3
          simp only [hk3]
          split at h
          · rename_i kw r0 hk4
            simp only [hk4, app]
            exact defaultTail_ext hx _ _ _ _ _ _ _ _ h
          · rename_i hk4
            simp only [hk4]
            split at h
            · simp at h
            · rename_i hm
              simp only [hm, if_false]
              split at h
              · rename_i toks r0 hk5
                simp only [hk5, app]
                exact ccTail_ext hx _ _ _ _ _ h
              · rename_i hk5
                simp only [hk5]
                split at h
                · rename_i t r0 hk6
                  simp only [hk6, app]
                  exact ccTail_ext hx _ _ _ _ _ h
                · rename_i hk6
                  simp only [hk6]
                  split at h
                  · rename_i kw r0 hk7
                    simp only [hk7, app]
                    exact referencesTail_ext hx _ _ _ _ _ _ _ h
                  · rename_i hk7
                    simp only [hk7]
                    split at h
                    · rename_i kw r0 hk8
                      simp only [hk8, app]
                      exact checkTail_ext hx _ _ _ _ _ _ _ _ h
                    · rename_i hk8
                      simp only [hk8]
                      exact colOptionTail_ext hx _ _ _ _ _ h

theorem colOpts_ext (c : DCfg) (f d : Nat) (r : List Tok) : ∀ (n : Nat) (ts : List Tok) (od : List ColOpt × List Tok)
    (rest : List Tok), colOpts c f d n ts = .ok (od, rest) → colOpts c f d n (ts ++ x :: r) = .ok (od, rest ++ x :: r) := by
  intro n
  induction n with
  | zero => intro ts od rest h; simp [colOpts] at h
  | succ n ih =>
    intro ts od rest h
    simp only [colOpts, peekKw_sep hx] at h ⊢
    split at h
    · simp at h
    · rename_i hc
      simp only [hc, if_false]
      split at h
      · simp at h
      · rename_i dr r0 ho
        rw [colOption_ext hx _ _ _ _ _ _ _ ho]
        simp only [peekKw_sep hx]
        split at h
        · simp at h
        · rename_i hcl
          simp at h; obtain ⟨rfl, rfl⟩ := h
          simp [hcl]
      · rename_i o r0 ho
        rw [colOption_ext hx _ _ _ _ _ _ _ ho]
        simp only
        split at h
        · simp at h
        · rename_i od' r' hr
          rw [ih _ _ _ hr]
          simp at h; obtain ⟨rfl, rfl⟩ := h; rfl

theorem sqliteUnspecified_sep (ts r : List Tok) : sqliteUnspecified (ts ++ x :: r) = sqliteUnspecified ts := by
  cases ts with
  | nil => rcases colSep_shape hx with rfl | rfl | rfl <;> rfl
  | cons a b => cases a <;> simp [sqliteUnspecified, peekAnyKw, peekKw]

theorem colTypePart_ext (c : DCfg) (r : List Tok) (f d : Nat) (ts : List Tok)
    (ty : SqlVerif.DTy.DT × List Tok) (rest : List Tok) (h : colTypePart c f d ts = .ok (ty, rest)) :
    colTypePart c f d (ts ++ x :: r) = .ok (ty, rest ++ x :: r) := by
  unfold colTypePart at h ⊢
  rw [sqliteUnspecified_sep hx]
  split at h
  · rename_i hs; simp at h; obtain ⟨rfl, rfl⟩ := h; simp [hs]
  · rename_i hs
    simp only [hs, if_false]
    exact colType_ext c hx r f d ts ty rest h

/-- **a column definition is repeated in front of `,` `)` `;`** -/
theorem columnDef_ext (c : DCfg) (r : List Tok) (f d : Nat) (ts : List Tok) (cd : ColDef) (rest : List Tok)
    (h : columnDef c f d ts = .ok (cd, rest)) : columnDef c f d (ts ++ x :: r) = .ok (cd, rest ++ x :: r) := by
  unfold columnDef at h ⊢
  split at h
  · simp at h
  · rename_i name r0 hn
    rw [identElem_ext _ _ _ _ hn]
    simp only
    split at h
    · simp at h
    · rename_i ty r1 ht
      rw [colTypePart_ext hx c r _ _ _ _ _ ht]
      simp only [peekKw_sep hx]
      split at h
      · simp at h
      · rename_i hc
        simp only [hc, if_false]
        split at h
        · simp at h
        · rename_i od r2 ho
          rw [colOpts_ext hx _ _ _ _ _ _ _ _ ho]
          simp at h; obtain ⟨rfl, rfl⟩ := h; rfl
end Sep

-- ------------------------------------------------------------------ statement level: in front of `;`
theorem semi_colSep : colSep semi = true := rfl

theorem kwTail_semi (k : Nat) (ts r : List Tok) : kwTail k (ts ++ semi :: r) = app (semi :: r) (kwTail k ts) :=
  kwTail_app (semi_isKw k) ts r

theorem kwsTail_semi (ks : List Nat) (hne : ks ≠ []) (ts r : List Tok) :
    kwsTail ks (ts ++ semi :: r) = app (semi :: r) (kwsTail ks ts) :=
  kwsTail_app ks (fun k _ => semi_isKw k) hne ts r

theorem setOpAhead_semi (ts r : List Tok) : setOpAhead (ts ++ semi :: r) = setOpAhead ts := peekAnyKw_semi _ ts r

theorem valuesRow_semi (c : DCfg) (r : List Tok) (f d : Nat) (ts : List Tok) (row : Row) (rest : List Tok)
    (h : valuesRow c f d ts = .ok (row, rest)) : valuesRow c f d (ts ++ semi :: r) = .ok (row, rest ++ semi :: r) :=
  valuesRow_ext c semi_stopper r f d ts row rest h

theorem valuesQuery_semi (c : DCfg) (r : List Tok) (f d : Nat) (kw : Tok) (ts : List Tok) (v : ValuesQ) (rest : List Tok)
    (h : valuesQuery c f d kw ts = .ok (v, rest)) : valuesQuery c f d kw (ts ++ semi :: r) = .ok (v, rest ++ semi :: r) := by
  unfold valuesQuery at h ⊢
  split at h
  · simp at h
  · rename_i d'
    split at h
    · simp at h
    · rename_i rows r1 hr
      rw [commaSepE_semi _ _ r (valuesRow_semi c r f d') _ _ _ _ hr]
      simp only [setOpAhead_semi]
      split at h
      · simp at h
      · rename_i hs
        simp only [hs, if_false]
        split at h
        · simp at h
        · rename_i qt r2 hq
          rw [queryTail_semi c.q r _ _ _ _ _ hq]
          simp at h; obtain ⟨rfl, rfl⟩ := h; rfl

theorem parseSource_semi (c : DCfg) (r : List Tok) (f d : Nat) (ts : List Tok) (s : Source) (rest : List Tok)
    (h : parseSource c f d ts = .ok (s, rest)) : parseSource c f d (ts ++ semi :: r) = .ok (s, rest ++ semi :: r) := by
  unfold parseSource at h ⊢
  rw [eatKw_semi]
  split at h
  · rename_i kw r0 hk
    simp only [hk, Option.map, app]
    split at h
    · simp at h
    · rename_i v r' hv
      rw [valuesQuery_semi c r _ _ _ _ _ _ hv]
      simp at h; obtain ⟨rfl, rfl⟩ := h; rfl
  · rename_i hk
    simp only [hk, Option.map]
    split at h
    · simp at h
    · rename_i q r' hq
      rw [(query_semi_all c.q r f).1 _ _ _ _ hq]
      simp at h; obtain ⟨rfl, rfl⟩ := h; rfl

theorem retPart_semi (c : DCfg) (r : List Tok) (f d : Nat) (ts : List Tok) (ret : List Tok × Sep SelectItem) (rest : List Tok)
    (h : retPart c f d ts = .ok (ret, rest)) : retPart c f d (ts ++ semi :: r) = .ok (ret, rest ++ semi :: r) := by
  unfold retPart at h ⊢
  rw [eatKw_semi]
  split at h
  · rename_i kw r0 hk
    simp only [hk, Option.map, app]
    split at h
    · simp at h
    · rename_i items r' hi
      rw [commaSepE_semi _ _ r (fun ts v rest hh =>
        selectItem_ext _ semi_stopper r f d ts v rest hh (fun _ _ => semi_isKw _)) _ _ _ _ hi]
      simp at h; obtain ⟨rfl, rfl⟩ := h; rfl
  · rename_i hk
    simp at h; obtain ⟨rfl, rfl⟩ := h
    simp [hk]

theorem parenIds_semi (c : DCfg) (r : List Tok) (f : Nat) (ae : Bool) (ts : List Tok) (p : ParenIds) (rest : List Tok)
    (h : parenIds c f ae ts = .ok (p, rest)) : parenIds c f ae (ts ++ semi :: r) = .ok (p, rest ++ semi :: r) :=
  parenIds_ext c (by rfl) r f ae ts p rest h

theorem insertBody_semi (c : DCfg) (r : List Tok) (f d : Nat) (ts : List Tok) (cs : ParenIds × InsSource) (rest : List Tok)
    (h : insertBody c f d ts = .ok (cs, rest)) : insertBody c f d (ts ++ semi :: r) = .ok (cs, rest ++ semi :: r) := by
  unfold insertBody at h ⊢
  rw [eatKws_semi _ (by simp)]
  split at h
  · rename_i toks r0 hk
    simp only [hk, Option.map, app]
    simp at h; obtain ⟨rfl, rfl⟩ := h; rfl
  · rename_i hk
    simp only [hk, Option.map]
    split at h
    · simp at h
    · rename_i cols r1 hc
      rw [parenIds_semi c r _ _ _ _ _ hc]
      simp only [peekKw_semi, peekSym_semi .LParen (by simp)]
      split at h
      · simp at h
      · rename_i hp
        simp only [hp, if_false]
        split at h
        · simp at h
        · rename_i hh
          simp only [hh, if_false]
          split at h
          · simp at h
          · rename_i s r2 hs
            rw [parseSource_semi c r _ _ _ _ _ hs]
            simp at h; obtain ⟨rfl, rfl⟩ := h; rfl

theorem nameElem_semi (r ts name rest : List Tok) (h : nameElem ts = .ok (name, rest)) :
    nameElem (ts ++ semi :: r) = .ok (name, rest ++ semi :: r) := nameElem_ext semi_stopper r ts name rest h

theorem parseInsert_semi (c : DCfg) (r : List Tok) (f d : Nat) (kw : Tok) (ts : List Tok) (i : Insert) (rest : List Tok)
    (h : parseInsert c f d kw ts = .ok (i, rest)) : parseInsert c f d kw (ts ++ semi :: r) = .ok (i, rest ++ semi :: r) := by
  unfold parseInsert at h ⊢
  simp only [insertHeadForeign, peekAnyKw_semi, kwTail_semi, app]
  split at h
  · simp at h
  · rename_i h0
    simp only [insertHeadForeign] at h0
    simp only [h0, if_false]
    split at h
    · simp at h
    · rename_i h1
      simp only [h1, if_false]
      split at h
      · simp at h
      · rename_i name r1 hn
        rw [nameElem_semi r _ _ _ hn]
        simp only [peekKw_semi]
        split at h
        · simp at h
        · rename_i h2
          simp only [h2, if_false]
          split at h
          · simp at h
          · rename_i h3
            simp only [h3, if_false]
            split at h
            · simp at h
            · rename_i cs r2 hb
              rw [insertBody_semi c r _ _ _ _ _ hb]
              simp only [peekAnyKw_semi]
              split at h
              · simp at h
              · rename_i h4
                simp only [h4, if_false]
                split at h
                · simp at h
                · rename_i ret r3 hr
                  rw [retPart_semi c r _ _ _ _ _ hr]
                  simp at h; obtain ⟨rfl, rfl⟩ := h; rfl


-- ------------------------------------------------------------------ UPDATE
theorem factorPart_semi (c : QCfg) (r : List Tok) (f d : Nat) (ts : List Tok) (fac : Factor) (rest : List Tok)
    (h : factorPart c f d ts = .ok (fac, rest)) : factorPart c f d (ts ++ semi :: r) = .ok (fac, rest ++ semi :: r) := by
  unfold factorPart at h ⊢
  split at h
  · simp at h
  · rename_i hd
    simp only [hd, if_false]
    split at h
    · simp at h
    · rename_i name al r0 hf
      rw [factorHead_semi c r _ _ hf]
      simp only [FactorHead.ext]
      simp at h; obtain ⟨rfl, rfl⟩ := h; rfl
    · rename_i lp r0 hf
      rw [factorHead_semi c r _ _ hf]
      simp only [FactorHead.ext]
      split at h
      · simp at h
      · simp at h
      · simp at h
      · rename_i q r1 hq
        rw [(query_semi_all c r f).1 _ _ _ _ hq]
        simp only
        split at h
        · simp at h
        · rename_i rp r2 hr
          rw [eatSym_ext hr]
          simp only
          split at h
          · simp at h
          · rename_i al r3 ha
            rw [optTableAlias_semi r _ _ _ ha]
            simp only [peekAnyKw_semi]
            split at h
            · simp at h
            · rename_i hp
              simp at h; obtain ⟨rfl, rfl⟩ := h
              simp [hp]

theorem twj_semi (c : QCfg) (r : List Tok) : ∀ (f d : Nat) (conn : Conn) (ts : List Tok) (n : QNode) (rest : List Tok),
    twj c f d conn ts = .ok (n, rest) → twj c f d conn (ts ++ semi :: r) = .ok (n, rest ++ semi :: r) := by
  intro f
  induction f with
  | zero => intro d conn ts n rest h; simp [twj] at h
  | succ f ih =>
    intro d conn ts n rest h
    simp only [twj] at h ⊢
    split at h
    · simp at h
    · rename_i fac r0 hf
      rw [factorPart_semi c r _ _ _ _ _ hf]
      simp only
      split at h
      · simp at h
      · rename_i k ts1 hc
        rw [optCstr_semi c r _ _ _ _ _ _ hc]
        simp only
        split at h
        · simp at h
        · rename_i hj
          rw [joinHead_semi r _ _ hj]
          simp only [JoinHead.ext]
          simp at h; obtain ⟨rfl, rfl⟩ := h; rfl
        · rename_i jk toks r2 hj
          rw [joinHead_semi r _ _ hj]
          simp only [JoinHead.ext]
          split at h
          · simp at h
          · rename_i rs ts2 hr
            rw [ih _ _ _ _ _ hr]
            simp at h; obtain ⟨rfl, rfl⟩ := h; rfl

theorem assignment_semi (c : DCfg) (r : List Tok) (f d : Nat) (ts : List Tok) (a : Assign) (rest : List Tok)
    (h : assignment c f d ts = .ok (a, rest)) : assignment c f d (ts ++ semi :: r) = .ok (a, rest ++ semi :: r) :=
  assignment_ext c semi_stopper r f d ts a rest h

theorem updateFromPart_semi (c : DCfg) (r : List Tok) (f d : Nat) (ts : List Tok) (fr : List Tok × QNode) (rest : List Tok)
    (h : updateFromPart c f d ts = .ok (fr, rest)) : updateFromPart c f d (ts ++ semi :: r) = .ok (fr, rest ++ semi :: r) := by
  unfold updateFromPart at h ⊢
  rw [eatKw_semi]
  split at h
  · rename_i hk
    simp at h; obtain ⟨rfl, rfl⟩ := h
    simp [hk]
  · rename_i kw r0 hk
    simp only [hk, Option.map, app]
    split at h
    · rename_i hu
      simp only [hu, if_true]
      split at h
      · simp at h
      · rename_i n r' ht
        rw [twj_semi c.q r _ _ _ _ _ _ ht]
        simp at h; obtain ⟨rfl, rfl⟩ := h; rfl
    · rename_i hu
      simp at h; obtain ⟨rfl, rfl⟩ := h
      simp [hu]

theorem parseUpdate_semi (c : DCfg) (r : List Tok) (f d : Nat) (kw : Tok) (ts : List Tok) (u : Update) (rest : List Tok)
    (h : parseUpdate c f d kw ts = .ok (u, rest)) : parseUpdate c f d kw (ts ++ semi :: r) = .ok (u, rest ++ semi :: r) := by
  unfold parseUpdate at h ⊢
  split at h
  · simp at h
  · rename_i tbl r1 ht
    rw [twj_semi c.q r _ _ _ _ _ _ ht]
    simp only [eatKw_semi]
    split at h
    · simp at h
    · rename_i setKw r2 hs
      simp only [hs, Option.map, app]
      split at h
      · simp at h
      · rename_i as r3 ha
        rw [commaSepE_semi _ _ r (assignment_semi c r f d) _ _ _ _ ha]
        simp only
        split at h
        · simp at h
        · rename_i fr r4 hfr
          rw [updateFromPart_semi c r _ _ _ _ _ hfr]
          simp only
          split at h
          · simp at h
          · rename_i w r5 hw
            rw [kwExprPart_semi c.q r _ _ _ _ _ _ hw]
            simp only
            split at h
            · simp at h
            · rename_i ret r6 hr
              rw [retPart_semi c r _ _ _ _ _ hr]
              simp at h; obtain ⟨rfl, rfl⟩ := h; rfl

-- ------------------------------------------------------------------ DELETE
theorem deleteHead_semi (c : DCfg) (r : List Tok) (f : Nat) (ts : List Tok) (hd : Sep (List Tok) × Tok) (rest : List Tok)
    (h : deleteHead c f ts = .ok (hd, rest)) : deleteHead c f (ts ++ semi :: r) = .ok (hd, rest ++ semi :: r) := by
  unfold deleteHead at h ⊢
  rw [eatKw_semi]
  split at h
  · rename_i fk r0 hk
    simp only [hk, Option.map, app]
    simp at h; obtain ⟨rfl, rfl⟩ := h; rfl
  · rename_i hk
    simp only [hk, Option.map]
    split at h
    · simp at h
    · rename_i hb
      simp only [hb, if_false]
      split at h
      · simp at h
      · rename_i names r1 hn
        rw [commaSepE_semi _ _ r (nameElem_semi r) _ _ _ _ hn]
        simp only [eatKw_semi]
        split at h
        · simp at h
        · rename_i fk r2 hk2
          simp only [hk2, Option.map, app]
          split at h
          · simp at h
          · rename_i hd0
            simp at h; obtain ⟨rfl, rfl⟩ := h
            simp [hd0]

theorem usingPart_semi (c : DCfg) (r : List Tok) (f d : Nat) (ts : List Tok) (n : QNode) (rest : List Tok)
    (h : usingPart c f d ts = .ok (n, rest)) : usingPart c f d (ts ++ semi :: r) = .ok (n, rest ++ semi :: r) := by
  unfold usingPart at h ⊢
  rw [eatKw_semi]
  split at h
  · rename_i kw r0 hk
    simp only [hk, Option.map, app]
    exact (query_semi_all c.q r f).2.2.2.2.1 _ _ _ _ _ h
  · rename_i hk
    simp at h; obtain ⟨rfl, rfl⟩ := h
    simp [hk]

theorem deleteOrderPart_semi (c : DCfg) (r : List Tok) (f d : Nat) (ts : List Tok) (ob : List Tok × Sep OrderByExpr)
    (rest : List Tok) (h : deleteOrderPart c f d ts = .ok (ob, rest)) :
    deleteOrderPart c f d (ts ++ semi :: r) = .ok (ob, rest ++ semi :: r) := by
  unfold deleteOrderPart at h ⊢
  rw [eatKws_semi _ (by simp)]
  split at h
  · rename_i kws r0 hk
    simp only [hk, Option.map, app]
    split at h
    · simp at h
    · rename_i os r' ho
      rw [commaSepE_semi _ _ r (orderByElem_semi c.q r f d) _ _ _ _ ho]
      simp at h; obtain ⟨rfl, rfl⟩ := h; rfl
  · rename_i hk
    simp at h; obtain ⟨rfl, rfl⟩ := h
    simp [hk]

theorem deleteLimitPart_semi (c : DCfg) (r : List Tok) (f d : Nat) (ts : List Tok) (lim : List Tok × Option Expr)
    (rest : List Tok) (h : deleteLimitPart c f d ts = .ok (lim, rest)) :
    deleteLimitPart c f d (ts ++ semi :: r) = .ok (lim, rest ++ semi :: r) := by
  unfold deleteLimitPart at h ⊢
  rw [eatKw_semi]
  split at h
  · rename_i kw r0 hk
    simp only [hk, Option.map, app, eatKw_semi]
    split at h
    · rename_i a r' ha
      simp only [ha, Option.map, app]
      simp at h; obtain ⟨rfl, rfl⟩ := h; rfl
    · rename_i ha
      simp only [ha, Option.map]
      split at h
      · simp at h
      · rename_i e r' he
        rw [parseE_semi c.q r _ _ _ _ _ he]
        simp at h; obtain ⟨rfl, rfl⟩ := h; rfl
  · rename_i hk
    simp at h; obtain ⟨rfl, rfl⟩ := h
    simp [hk]

theorem parseDelete_semi (c : DCfg) (r : List Tok) (f d : Nat) (kw : Tok) (ts : List Tok) (dl : Delete) (rest : List Tok)
    (h : parseDelete c f d kw ts = .ok (dl, rest)) : parseDelete c f d kw (ts ++ semi :: r) = .ok (dl, rest ++ semi :: r) := by
  unfold parseDelete at h ⊢
  split at h
  · simp at h
  · rename_i hd r1 hh
    rw [deleteHead_semi c r _ _ _ _ hh]
    simp only
    split at h
    · simp at h
    · rename_i frm r2 hf
      rw [(query_semi_all c.q r f).2.2.2.2.1 _ _ _ _ _ hf]
      simp only
      split at h
      · simp at h
      · rename_i us r3 hu
        rw [usingPart_semi c r _ _ _ _ _ hu]
        simp only
        split at h
        · simp at h
        · rename_i w r4 hw
          rw [kwExprPart_semi c.q r _ _ _ _ _ _ hw]
          simp only
          split at h
          · simp at h
          · rename_i ret r5 hr
            rw [retPart_semi c r _ _ _ _ _ hr]
            simp only
            split at h
            · simp at h
            · rename_i ob r6 ho
              rw [deleteOrderPart_semi c r _ _ _ _ _ ho]
              simp only
              split at h
              · simp at h
              · rename_i lim r7 hl
                rw [deleteLimitPart_semi c r _ _ _ _ _ hl]
                simp at h; obtain ⟨rfl, rfl⟩ := h; rfl


-- ------------------------------------------------------------------ CREATE TABLE
def ColEnd.ext (S : List Tok) : ColEnd → ColEnd
  | .more cm rest => .more cm (rest ++ S)
  | .close cm rp rest => .close cm rp (rest ++ S)
  | .bad => .bad

/-- after a complete column definition the end test is repeated, unless it failed at the very end of
the input (`bad` on `[]`), which a successful run excludes -/
theorem colEnd_semi (tc : Bool) (ts r : List Tok) (h : colEnd tc ts ≠ .bad) :
    colEnd tc (ts ++ semi :: r) = (colEnd tc ts).ext (semi :: r) := by
  unfold colEnd at h ⊢
  cases hc : eatSym ts .Comma with
  | some p =>
    obtain ⟨cm, r0⟩ := p
    rw [eatSym_ext hc]
    simp only [hc] at h ⊢
    cases tc with
    | false => simp [ColEnd.ext]
    | true =>
      simp only [if_true] at h ⊢
      cases hr : eatSym r0 .RParen with
      | some q =>
        obtain ⟨rp, r1⟩ := q
        rw [eatSym_ext hr]
        simp [ColEnd.ext]
      | none =>
        rw [eatSym_ext_none (by rfl) hr]
        simp [ColEnd.ext]
  | none =>
    simp only [hc] at h
    rw [eatSym_ext_none (by rfl) hc]
    simp only
    cases hr : eatSym ts .RParen with
    | some q =>
      obtain ⟨rp, r1⟩ := q
      rw [eatSym_ext hr]
      simp [ColEnd.ext]
    | none => simp [hr] at h

theorem constraintAhead_semi (ts r : List Tok) : constraintAhead (ts ++ semi :: r) = constraintAhead ts :=
  peekAnyKw_semi _ ts r

theorem peekWord_ext (S : List Tok) {ts : List Tok} (h : peekWord ts = true) : peekWord (ts ++ S) = true := by
  cases ts with
  | nil => simp [peekWord] at h
  | cons a b => cases a <;> simp_all [peekWord]

theorem colLoop_semi (c : DCfg) (f d : Nat) (r : List Tok) : ∀ (n : Nat) (ts : List Tok) (cr : Sep ColDef × Tok) (rest : List Tok),
    colLoop c f d n ts = .ok (cr, rest) → colLoop c f d n (ts ++ semi :: r) = .ok (cr, rest ++ semi :: r) := by
  intro n
  induction n with
  | zero => intro ts cr rest h; simp [colLoop] at h
  | succ n ih =>
    intro ts cr rest h
    simp only [colLoop, constraintAhead_semi] at h ⊢
    split at h
    · simp at h
    · rename_i hca
      simp only [hca, if_false]
      split at h
      · simp at h
      · rename_i hw
        simp at hw
        simp only [peekWord_ext _ hw]
        simp only [Bool.not_true, Bool.false_eq_true, if_false]
        split at h
        · simp at h
        · rename_i cd r1 hc
          rw [columnDef_ext semi_colSep c r _ _ _ _ _ hc]
          simp only
          have hne : colEnd c.tc r1 ≠ .bad := by
            intro hb; simp [hb] at h
          rw [colEnd_semi _ _ _ hne]
          split at h
          · simp at h
          · rename_i cm rp r2 he
            simp only [he, ColEnd.ext]
            simp at h; obtain ⟨rfl, rfl⟩ := h; rfl
          · rename_i cm r2 he
            simp only [he, ColEnd.ext]
            split at h
            · simp at h
            · rename_i cr' r3 hr
              rw [ih _ _ _ hr]
              simp at h; obtain ⟨rfl, rfl⟩ := h; rfl

theorem parseColumns_semi (c : DCfg) (f d : Nat) (r ts : List Tok) (cols : List Tok × Sep ColDef × List Tok) (rest : List Tok)
    (h : parseColumns c f d ts = .ok (cols, rest)) : parseColumns c f d (ts ++ semi :: r) = .ok (cols, rest ++ semi :: r) := by
  unfold parseColumns at h ⊢
  split at h
  · rename_i hl
    rw [eatSym_ext_none (by rfl) hl]
    simp at h; obtain ⟨rfl, rfl⟩ := h; rfl
  · rename_i lp r0 hl
    rw [eatSym_ext hl]
    simp only
    split at h
    · rename_i rp r' hr
      rw [eatSym_ext hr]
      simp at h; obtain ⟨rfl, rfl⟩ := h; rfl
    · rename_i hr
      rw [eatSym_ext_none (by rfl) hr]
      simp only
      split at h
      · simp at h
      · rename_i cr r' hc
        rw [colLoop_semi c f d r _ _ _ _ hc]
        simp at h; obtain ⟨rfl, rfl⟩ := h; rfl

theorem tempTail_semi (ts r : List Tok) : tempTail (ts ++ semi :: r) = app (semi :: r) (tempTail ts) := by
  unfold tempTail
  rw [eatKw_semi, kwTail_semi]
  cases eatKw ts DK.TEMP <;> simp [app]

theorem parseCreate_semi (c : DCfg) (r : List Tok) (f d : Nat) (kw : Tok) (ts : List Tok) (ct : CreateTable) (rest : List Tok)
    (h : parseCreate c f d kw ts = .ok (ct, rest)) : parseCreate c f d kw (ts ++ semi :: r) = .ok (ct, rest ++ semi :: r) := by
  unfold parseCreate at h ⊢
  simp only [createHeadForeign, peekAnyKw_semi, tempTail_semi, app, peekKw_semi, eatKw_semi]
  split at h
  · simp at h
  · rename_i h0
    simp only [h0, if_false]
    split at h
    · simp at h
    · rename_i h1
      simp only [createHeadForeign] at h1
      simp only [h1, if_false]
      split at h
      · simp at h
      · rename_i h2
        simp only [h2, if_false]
        split at h
        · split at h <;> simp at h
        · rename_i tk r0 hk
          simp only [hk, Option.map, app, kwsTail_semi [DK.IF, DK.NOT, DK.EXISTS] (by simp)]
          split at h
          · simp at h
          · rename_i name r1 hn
            rw [nameElem_semi r _ _ _ hn]
            simp only [bigQueryNameForeign_semi, afterCreateNameForeign, peekAnyKw_semi]
            split at h
            · simp at h
            · rename_i h3
              simp only [h3, if_false]
              split at h
              · simp at h
              · rename_i h4
                simp only [afterCreateNameForeign] at h4
                simp only [h4, if_false]
                split at h
                · simp at h
                · rename_i cols r2 hc
                  rw [parseColumns_semi c f d r _ _ _ hc]
                  simp only [createTailForeign, peekAnyKw_semi]
                  split at h
                  · simp at h
                  · rename_i h5
                    simp only [createTailForeign] at h5
                    simp at h; obtain ⟨rfl, rfl⟩ := h
                    simp [h5]

-- ------------------------------------------------------------------ DROP TABLE
theorem parseDrop_semi (c : DCfg) (r : List Tok) (f : Nat) (kw : Tok) (ts : List Tok) (dr : Drop) (rest : List Tok)
    (h : parseDrop c f kw ts = .ok (dr, rest)) : parseDrop c f kw (ts ++ semi :: r) = .ok (dr, rest ++ semi :: r) := by
  unfold parseDrop at h ⊢
  simp only [peekAnyKw_semi, eatKw_semi]
  split at h
  · simp at h
  · rename_i h0
    simp only [h0, if_false]
    split at h
    · split at h <;> simp at h
    · rename_i tk r0 hk
      simp only [hk, Option.map, app, kwsTail_semi [DK.IF, DK.EXISTS] (by simp)]
      split at h
      · simp at h
      · rename_i names r1 hn
        rw [commaSepE_semi _ _ r (nameElem_semi r) _ _ _ _ hn]
        simp only [kwTail_semi, app]
        split at h
        · simp at h
        · rename_i h1
          simp only [h1, if_false]
          split at h
          · simp at h
          · rename_i h2
            simp only [h2, if_false]
            simp at h; obtain ⟨rfl, rfl⟩ := h; rfl

-- ------------------------------------------------------------------ statements
theorem mapRes_semi {α β : Type} (g : α → β) {p q : Res α} {S : List Tok}
    (hpq : ∀ v rest, p = .ok (v, rest) → q = .ok (v, rest ++ S)) {v : β} {rest : List Tok}
    (h : mapRes g p = .ok (v, rest)) : mapRes g q = .ok (v, rest ++ S) := by
  obtain ⟨a, ha, rfl⟩ := mapRes_ok h
  rw [hpq _ _ ha]; rfl

/-- **statement-level extension**: a statement accepted by the model is accepted, with the same
tree, in front of `;` and anything after it -/
theorem parseStmt_semi (c : DCfg) (r : List Tok) (f limit : Nat) (ts : List Tok) (s : Stmt) (rest : List Tok)
    (h : parseStmt c f limit ts = .ok (s, rest)) : parseStmt c f limit (ts ++ semi :: r) = .ok (s, rest ++ semi :: r) := by
  unfold parseStmt at h ⊢
  cases limit with
  | zero => simp at h
  | succ d =>
    simp only at h ⊢
    cases ts with
    | nil => simp at h
    | cons t ts0 =>
      simp only [List.cons_append] at h ⊢
      split at h
      · rename_i hs
        simp only [hs, if_true]
        exact mapRes_semi _ (fun v rest hh => (query_semi_all c.q r f).1 _ _ _ _ hh) h
      · rename_i hs
        simp only [hs, if_false]
        split at h
        · rename_i hv
          simp only [hv, if_true]
          exact mapRes_semi _ (fun v rest hh => valuesQuery_semi c r _ _ _ _ _ _ hh) h
        · rename_i hv
          simp only [hv, if_false]
          split at h
          · rename_i hi
            simp only [hi, if_true]
            exact mapRes_semi _ (fun v rest hh => parseInsert_semi c r _ _ _ _ _ _ hh) h
          · rename_i hi
            simp only [hi, if_false]
            split at h
            · rename_i hu
              simp only [hu, if_true]
              exact mapRes_semi _ (fun v rest hh => parseUpdate_semi c r _ _ _ _ _ _ hh) h
            · rename_i hu
              simp only [hu, if_false]
              split at h
              · rename_i hdl
                simp only [hdl, if_true]
                exact mapRes_semi _ (fun v rest hh => parseDelete_semi c r _ _ _ _ _ _ hh) h
              · rename_i hdl
                simp only [hdl, if_false]
                split at h
                · rename_i hcr
                  simp only [hcr, if_true]
                  exact mapRes_semi _ (fun v rest hh => parseCreate_semi c r _ _ _ _ _ _ hh) h
                · rename_i hcr
                  simp only [hcr, if_false]
                  split at h
                  · rename_i hdr
                    simp only [hdr, if_true]
                    exact mapRes_semi _ (fun v rest hh => parseDrop_semi c r _ _ _ _ _ hh) h
                  · rename_i hdr
                    simp only [hdr, if_false]
                    split at h
                    · exact mapRes_semi _ (fun v rest hh => (query_semi_all c.q r f).1 _ _ _ _ hh) h
                    · simp at h
                    · simp at h

/-- an accepted statement never starts with the separator -/
theorem parseStmt_starts (c : DCfg) (f limit : Nat) (ts : List Tok) (s : Stmt) (rest : List Tok)
    (h : parseStmt c f limit ts = .ok (s, rest)) : ∃ t r, ts = t :: r ∧ t.isSym .SemiColon = false := by
  unfold parseStmt at h
  cases limit with
  | zero => simp at h
  | succ d =>
    simp only at h
    cases ts with
    | nil => simp at h
    | cons t ts0 =>
      refine ⟨t, ts0, rfl, ?_⟩
      cases t with
      | sym s =>
        cases s <;> first
          | rfl
          | (simp [Tok.isKw, mapRes] at h)
      | _ => rfl

end SqlVerif.Dml

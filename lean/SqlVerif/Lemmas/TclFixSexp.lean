import SqlVerif.Lemmas.TclFixBase
import SqlVerif.Lemmas.QueryFix
/-!
`s.norm` holds the AST of `s` (`Stmt.sexp`) for every statement kind of `Model/Tcl.lean` whose modifier slot
holds at most one token (`Stmt.mdOk`, which the parser guarantees: `parseStmt_mdOk`).
-/
set_option linter.unusedSimpArgs false
namespace SqlVerif.Tcl
open SqlVerif.Pratt SqlVerif.Query SqlVerif.Dml SqlVerif.Ddl SqlVerif.Gen

/-- the modifier slot of a `SET` variable statement holds at most one token -/
def Stmt.mdOk : Stmt → Prop
  | .setVar _ md _ _ _ _ _ _ => md = [] ∨ ∃ t, md = [t]
  | _ => True

theorem sx_closed :
    isLocal [kwT "LOCAL"] = true ∧ isHivevar [kwT "LOCAL"] = false ∧ isLocal [kwT "HIVEVAR"] = false ∧
    isHivevar [kwT "HIVEVAR"] = true ∧ isLocal [] = false ∧ isHivevar [] = false ∧
    nameSexp [kwT "TIMEZONE"] = "(name (id " ++ hx (str "TIMEZONE") ++ " -))" := by decide +kernel

theorem target_sexp_norm (tg : SetTarget) : tg.norm.sexp = tg.sexp := by
  cases tg with
  | one name => rfl
  | timeZone tz =>
    show ("(one " ++ nameSexp [kwT "TIMEZONE"] ++ ")") = ("(one (name (id " ++ hx (str "TIMEZONE") ++ " -)))")
    decide +kernel
  | many lp ids rp => simp [SetTarget.norm, SetTarget.sexp, sepSexp_norm idSexp id (fun _ => rfl)]


/-- **the norm holds the same AST** -/
theorem stmt_sexp_norm (s : Stmt) (hm : s.mdOk) : s.norm.sexp = s.sexp := by
  obtain ⟨l1, l2, l3, l4, l5, l6, -⟩ := sx_closed
  cases s with
  | setVar kw md colon tg eq lp vs rp =>
    simp only [Stmt.norm, Stmt.sexp, target_sexp_norm, sepSexp_norm _ _ norm_sexp]
    have hmd : isLocal (varMdNorm md) = isLocal md ∧ isHivevar (varMdNorm md) = isHivevar md := by
      rcases hm with rfl | ⟨t, rfl⟩
      · simp [varMdNorm, l5, l6]
      · unfold varMdNorm
        by_cases h1 : isLocal [t] = true
        · have h2 : isHivevar [t] = false := by
            simp only [isLocal, isHivevar, List.any_cons, List.any_nil, Bool.or_false] at h1 ⊢
            exact isKw_excl h1 (by decide +kernel)
          simp [h1, h2, l1, l2]
        · by_cases h2 : isHivevar [t] = true
          · simp [h1, h2, l3, l4]
          · simp [h1, h2, l5, l6]
    rw [hmd.1, hmd.2]
  | setTimeZone kw md colon tg e =>
    simp only [Stmt.norm, Stmt.sexp, norm_sexp]
    by_cases h1 : isLocal md = true
    · simp [h1, l1]
    · simp [h1, l5]
  | assert kw e ak m => simp [Stmt.norm, Stmt.sexp, norm_sexp, optExprSexp_norm]
  | ddl s0 => simp [Stmt.norm, Stmt.sexp, SqlVerif.Ddl.stmt_sexp_norm]
  | startTx _ _ _ => exact stmt_sexp_norm_fix _ rfl
  | «begin» _ _ _ _ => exact stmt_sexp_norm_fix _ rfl
  | commit _ _ _ => exact stmt_sexp_norm_fix _ rfl
  | rollback _ _ _ _ => exact stmt_sexp_norm_fix _ rfl
  | savepoint _ _ => exact stmt_sexp_norm_fix _ rfl
  | release _ _ _ => exact stmt_sexp_norm_fix _ rfl
  | setRole _ _ _ _ => exact stmt_sexp_norm_fix _ rfl
  | setNamesDefault _ _ _ _ _ => exact stmt_sexp_norm_fix _ rfl
  | setNames _ _ _ _ _ _ => exact stmt_sexp_norm_fix _ rfl
  | setTx _ _ _ _ _ _ => exact stmt_sexp_norm_fix _ rfl
  | useObj _ _ _ => exact stmt_sexp_norm_fix _ rfl
  | useDefault _ _ => exact stmt_sexp_norm_fix _ rfl
  | discard _ _ => exact stmt_sexp_norm_fix _ rfl
  | deallocate _ _ _ => exact stmt_sexp_norm_fix _ rfl
  | close _ _ => exact stmt_sexp_norm_fix _ rfl

theorem oneOfTail_shape (ks : List Nat) (ts : List Tok) : (oneOfTail ks ts).1 = [] ∨ ∃ t, (oneOfTail ks ts).1 = [t] := by
  induction ks with
  | nil => left; rfl
  | cons k ks ih =>
    unfold oneOfTail
    split
    · right; exact ⟨_, rfl⟩
    · exact ih

end SqlVerif.Tcl

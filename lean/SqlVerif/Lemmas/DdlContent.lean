import SqlVerif.Lemmas.DdlLemmas
import SqlVerif.Lemmas.DmlContent
/-!
Content preservation on the second statement model: the sequence of content tokens (identifiers with
their quoting, numbers, string payloads, placeholders — `contentOf`) of what a parser function of
`Model/Ddl.lean` consumed is that of the printed tokens of what it built (`Model/DdlPrint.lean`), for
`printable` trees; on top of `Lemmas/DmlContent.lean` (column definitions, sources, name lists).
-/
set_option linter.unusedSimpArgs false
namespace SqlVerif.Ddl
open SqlVerif.Pratt SqlVerif.Query SqlVerif.Dml SqlVerif.Gen

-- ------------------------------------------------------------------ printable
/-- a view column: no data type, or (ClickHouse) a keyword-only type written with keyword tokens -/
def ViewCol.printable (v : ViewCol) : Bool :=
  match v.ty with
  | none => true
  | some t => typePlain t && v.tyToks.all (fun t => (contentOf t).isNone)

def CreateView.printable (v : CreateView) : Bool := v.cols.all (fun p => p.1.printable) && v.query.printable

def CreateIndex.printable (i : CreateIndex) : Bool := i.cols.all (fun p => p.1.e.printable) && optPrintable i.tl.pred

def AlterColOp.printable : AlterColOp → Bool
  | .setDefault e => e.printable
  | _ => true

def AlterOp.printable : AlterOp → Bool
  | .addColumn _ _ _ _ _ cd => cd.printable
  | .alterColumn _ _ _ _ op => op.printable
  | _ => true

def AlterTable.printable (a : AlterTable) : Bool := a.ops.all (fun p => p.1.printable)

/-- what `ddl_content_preserved_partial` covers -/
def Stmt.printable : Stmt → Bool
  | .createView v => v.printable
  | .createIndex i => i.printable
  | .alterTable a => a.printable
  | .truncate _ => true
  | .dropObj _ => true
  | .dml s => s.printable

-- ------------------------------------------------------------------ helpers
theorem pc_if_kw1 (b : Prop) [Decidable b] (sp : Bool) (n : String) : pc (if b then [] else [kwP sp n]) = [] := by
  split <;> rfl
theorem pc_if_kw2 (b : Prop) [Decidable b] (s1 s2 : Bool) (n1 n2 : String) :
    pc (if b then [] else [kwP s1 n1, kwP s2 n2]) = [] := by split <;> rfl
theorem pc_if_kw3 (b : Prop) [Decidable b] (s1 s2 s3 : Bool) (n1 n2 n3 : String) :
    pc (if b then [] else [kwP s1 n1, kwP s2 n2, kwP s3 n3]) = [] := by split <;> rfl
theorem pc_if_kw1' (b : Prop) [Decidable b] (sp : Bool) (n : String) : pc (if b then [kwP sp n] else []) = [] := by
  split <;> rfl
theorem pc_if_kw3' (b : Prop) [Decidable b] (s1 s2 s3 : Bool) (n1 n2 n3 : String) :
    pc (if b then [kwP s1 n1, kwP s2 n2, kwP s3 n3] else []) = [] := by split <;> rfl

theorem pc_idPiece (sp : Bool) (t : Tok) : pc [idPiece sp t] = cont [t] := by simp [pc, toksOf, idPiece_tok]

theorem pc_cons_idPiece (sp : Bool) (t : Tok) (l : List Piece) : pc (idPiece sp t :: l) = cont [t] ++ pc l := by
  have := pc_append [idPiece sp t] l
  simpa [pc_idPiece] using this

theorem pc_sepPiecesTight {α : Type} (f : α → List Piece) : ∀ l : Sep α, pc (sepPiecesTight f l) = pc (sepPieces f l)
  | [] => rfl
  | [_] => rfl
  | p :: q :: rest => by
    simp only [sepPiecesTight, sepPieces, pc_append, pc_glued, pc_spaced, pc_sepPiecesTight f (q :: rest)]

theorem pc_kwTokP {t : Tok} {k : Nat} (h : t.isKw k = true) (sp : Bool) : pc [kwTokP sp t] = [] := by
  unfold Tok.isKw at h
  split at h
  · rename_i v q k'
    simp only [kwTokP, pc, toksOf, List.map_cons, List.map_nil, kwTi, cont_cons, contentOf, cont_nil]
    rfl
  · simp at h

theorem viewIfneTail_content (c : XCfg) (ts : List Tok) : cont (viewIfneTail c ts).1 = [] := by
  unfold viewIfneTail
  split
  · exact kwsTail_content _ _
  · rfl

theorem addIneTail_content (c : XCfg) (ts : List Tok) : cont (addIneTail c ts).1 = [] := by
  unfold addIneTail
  split
  · exact kwsTail_content _ _
  · rfl

theorem identElem_seps (tc : Bool) (n : Nat) (ts : List Tok) (ids : Sep Tok) (rest : List Tok)
    (h : commaSepE tc identElem n ts = .ok (ids, rest)) :
    cont (sepFlat (fun t => [t]) ids) = pc (sepPieces (fun t => [idPiece false t]) ids) :=
  sep_tok_content ids (commaSepE_seps _ _ _ _ _ _ h)

-- ------------------------------------------------------------------ CREATE VIEW
theorem viewCol_content (c : XCfg) (f d : Nat) (ts : List Tok) (v : ViewCol) (rest : List Tok)
    (h : viewCol c f d ts = .ok (v, rest)) (hp : v.printable = true) : cont v.flatten = pc v.pieces := by
  unfold viewCol at h
  split at h
  · simp at h
  · rename_i name r hn
    split at h
    · simp at h
    · split at h
      · split at h
        · simp at h
        · rename_i ty r1 ht
          simp at h; obtain ⟨rfl, rfl⟩ := h
          simp only [ViewCol.printable, Bool.and_eq_true] at hp
          simp [ViewCol.flatten, ViewCol.pieces, pc_cons_idPiece, pc_spaced,
            pc_dtPieces_plain _ hp.1, cont_cons, cont_of_all_none _ hp.2, cont_nil]
      · simp at h; obtain ⟨rfl, rfl⟩ := h
        simp [ViewCol.flatten, ViewCol.pieces, pc_cons_idPiece, pc_nil, cont_cons, cont_nil]

theorem viewColumns_content (c : XCfg) (f d : Nat) (ts : List Tok) (cols : List Tok × Sep ViewCol × List Tok) (rest : List Tok)
    (h : viewColumns c f d ts = .ok (cols, rest)) (hp : cols.2.1.all (fun p => p.1.printable) = true) :
    cont (cols.1 ++ sepFlat ViewCol.flatten cols.2.1 ++ cols.2.2) = pc (sepPieces ViewCol.pieces cols.2.1) := by
  unfold viewColumns at h
  split at h
  · simp at h; obtain ⟨rfl, rfl⟩ := h; rfl
  · rename_i lp r hl
    have hlp := eatSym_content hl
    split at h
    · rename_i rp r' hr
      have hrp := eatSym_content hr
      simp at h; obtain ⟨rfl, rfl⟩ := h
      simp [sepFlat, sepPieces, cont_cons, hlp, hrp, cont_nil, pc_nil]
    · split at h
      · simp at h
      · rename_i cs r1 hc
        split at h
        · rename_i rp r2 hr
          have hrp := eatSym_content hr
          simp at h; obtain ⟨rfl, rfl⟩ := h
          have := commaSepE_content _ _ ViewCol.flatten ViewCol.pieces (fun v => v.printable = true)
            (fun ts v rest hh hv => viewCol_content c f d ts v rest hh hv) _ _ _ _ hc
            (fun p hpm => by simpa using (List.all_eq_true.1 hp) p hpm)
          simp [cont_cons, cont_append, hlp, hrp, cont_nil, this]
        · simp at h

theorem viewBody_content (c : XCfg) (f d : Nat) (ts : List Tok) (b : Tok × Source) (rest : List Tok)
    (h : viewBody c f d ts = .ok (b, rest)) (hp : b.2.printable = true) :
    contentOf b.1 = none ∧ cont b.2.flatten = pc b.2.pieces := by
  unfold viewBody at h
  split at h
  · simp at h
  · split at h
    · simp at h
    · rename_i asKw r hk
      split at h
      · simp at h
      · rename_i q r1 hq
        split at h
        · simp at h
        · simp at h; obtain ⟨rfl, rfl⟩ := h
          exact ⟨eatKw_content hk, parseSource_content _ _ _ _ _ _ hq hp⟩

theorem pc_viewColsPieces (cols : Sep ViewCol) :
    pc (if cols.isEmpty then [] else [symP true .LParen] ++ glued (sepPieces ViewCol.pieces cols) ++ [symP false .RParen]) =
      pc (sepPieces ViewCol.pieces cols) := by
  split
  · rename_i he
    have : cols = [] := by simpa using he
    subst this; rfl
  · simp [pc_append, pc_cons_symP, pc_glued, pc_symP, pc_nil]

theorem parseCreateView_content (c : XCfg) (f d : Nat) (kw : Tok) (hkw : contentOf kw = none) (orRep temp : List Tok)
    (ho : cont orRep = []) (htm : cont temp = []) (ts : List Tok) (v : CreateView) (rest : List Tok)
    (h : parseCreateView c f d kw orRep temp ts = .ok (v, rest)) (hp : v.printable = true) :
    cont v.flatten = pc v.pieces := by
  unfold parseCreateView at h
  split at h
  · simp at h
  · rename_i vk r0 hk
    split at h
    · simp at h
    · rename_i name r1 hn
      split at h
      · simp at h
      · split at h
        · simp at h
        · rename_i cols r2 hc
          split at h
          · simp at h
          · rename_i b r3 hb
            simp at h; obtain ⟨rfl, rfl⟩ := h
            simp only [CreateView.printable, Bool.and_eq_true] at hp
            have h2 := viewColumns_content _ _ _ _ _ _ hc hp.1
            obtain ⟨h3, h4⟩ := viewBody_content _ _ _ _ _ _ hb hp.2
            simp only [cont_append] at h2
            simp only [CreateView.flatten, CreateView.pieces, cont_cons, cont_append, pc_append]
            rw [pc_viewColsPieces, ← h2]
            simp [hkw, ho, htm, kwTail_content, eatKw_content hk, viewIfneTail_content, h3, pc_cons_kwP, pc_spaced, pc_if_kw1,
              pc_if_kw2, pc_if_kw3, pc_kwP, ← name_content, h4, pc_nil]

-- ------------------------------------------------------------------ CREATE INDEX
theorem indexName_content (ifne : Bool) (ts : List Tok) (nm : List Tok × Tok) (rest : List Tok)
    (h : indexName ifne ts = .ok (nm, rest)) : contentOf nm.2 = none := by
  unfold indexName at h
  split at h
  · rename_i on r ho
    split at ho
    · simp at ho
    · simp at h; obtain ⟨rfl, rfl⟩ := h; exact eatKw_content ho
  · split at h
    · simp at h
    · split at h
      · simp at h
      · rename_i on r1 ho
        simp at h; obtain ⟨rfl, rfl⟩ := h; exact eatKw_content ho

theorem indexUsing_content (ts us rest : List Tok) (h : indexUsing ts = .ok (us, rest)) : cont us = pc (usingPieces us) := by
  unfold indexUsing at h
  split at h
  · simp at h; obtain ⟨rfl, rfl⟩ := h; rfl
  · rename_i u r hu
    split at h
    · simp at h
    · rename_i m r1 hm
      simp at h; obtain ⟨rfl, rfl⟩ := h
      simp [usingPieces, cont_cons, eatKw_content hu, pc_cons_kwP, pc_idPiece, cont_nil]

theorem indexHead_content (c : XCfg) (ts : List Tok) (hd : IdxHead) (rest : List Tok)
    (h : indexHead c ts = .ok (hd, rest)) :
    cont hd.flatten = pc (namePieces hd.name) ++ pc (namePieces hd.table) ++ pc (usingPieces hd.usingToks) ∧
      cont hd.conc = [] ∧ cont hd.ifne = [] := by
  unfold indexHead at h
  split at h
  · simp at h
  · rename_i nm r1 hn
    have h1 := indexName_content _ _ _ _ hn
    split at h
    · simp at h
    · rename_i table r2 ht
      split at h
      · simp at h
      · split at h
        · simp at h
        · rename_i us r3 hu
          have h3 := indexUsing_content _ _ _ hu
          split at h
          · simp at h
          · rename_i lp r4 hl
            have h4 := eatSym_content hl
            simp at h; obtain ⟨rfl, rfl⟩ := h
            refine ⟨?_, kwTail_content _ _, kwsTail_content _ _⟩
            simp only [IdxHead.flatten, cont_cons, cont_append, kwTail_content, kwsTail_content, h1, h3, h4, Option.toList,
              List.nil_append, List.append_nil, ← name_content, cont_nil, List.append_assoc]

theorem includePart_content (c : XCfg) (f : Nat) (ts : List Tok) (inc : List Tok × ParenIds) (rest : List Tok)
    (h : includePart c f ts = .ok (inc, rest)) :
    cont (inc.1 ++ inc.2.flatten) = pc (sepPieces (fun t => [idPiece false t]) inc.2.ids) := by
  unfold includePart at h
  split at h
  · simp at h; obtain ⟨rfl, rfl⟩ := h; rfl
  · rename_i k r hk
    split at h
    · simp at h
    · rename_i lp r1 hl
      have hlp := eatSym_content hl
      split at h
      · simp at h
      · rename_i ids r2 hi
        split at h
        · simp at h
        · rename_i rp r3 hr
          have hrp := eatSym_content hr
          simp at h; obtain ⟨rfl, rfl⟩ := h
          have := identElem_seps _ _ _ _ _ hi
          simp [ParenIds.flatten, cont_cons, cont_append, eatKw_content hk, hlp, hrp, cont_nil, this]

theorem nullsDistinct_content (ts nl rest : List Tok) (h : nullsDistinct ts = .ok (nl, rest)) : cont nl = [] := by
  unfold nullsDistinct at h
  split at h
  · simp at h; obtain ⟨rfl, rfl⟩ := h; rfl
  · rename_i n r hn
    split at h
    · simp at h
    · rename_i dk r1 hd
      simp at h; obtain ⟨rfl, rfl⟩ := h
      simp [cont_cons, cont_append, eatKw_content hn, eatKw_content hd, kwTail_content, cont_nil]

theorem pc_nullsPieces (nulls : List Tok) : pc (nullsPieces nulls) = [] := by
  unfold nullsPieces
  split <;> rfl

theorem pc_includePieces (ids : Sep Tok) :
    pc (if ids.isEmpty then []
        else [kwP true "INCLUDE", symP true .LParen] ++ glued (sepPiecesTight (fun t => [idPiece false t]) ids) ++ [symP false .RParen]) =
      pc (sepPieces (fun t => [idPiece false t]) ids) := by
  split
  · rename_i he
    have : ids = [] := by simpa using he
    subst this; rfl
  · simp [pc_append, pc_cons_kwP, pc_cons_symP, pc_glued, pc_symP, pc_nil, pc_sepPiecesTight]

theorem indexTail_content (c : XCfg) (f d : Nat) (ts : List Tok) (tl : IdxTail) (rest : List Tok)
    (h : indexTail c f d ts = .ok (tl, rest)) (hp : optPrintable tl.pred = true) :
    cont tl.flatten = pc (sepPieces (fun t => [idPiece false t]) tl.incl.ids) ++ pc (wherePieces tl.pred) := by
  unfold indexTail at h
  split at h
  · simp at h
  · rename_i inc r1 hi
    have h1 := includePart_content _ _ _ _ _ hi
    split at h
    · simp at h
    · rename_i nl r2 hn
      have h2 := nullsDistinct_content _ _ _ hn
      split at h
      · simp at h
      · split at h
        · simp at h
        · rename_i w r3 hw
          simp at h; obtain ⟨rfl, rfl⟩ := h
          have h3 := kwExprPart_content' _ _ _ _ _ _ _ hw hp
          simp only [cont_append] at h1 h3
          simp only [IdxTail.flatten, cont_append, h2, List.nil_append, List.append_nil]
          rw [← h3, ← h1]
          simp [List.append_assoc]

theorem parseCreateIndex_content (c : XCfg) (f d : Nat) (kw : Tok) (hkw : contentOf kw = none) (temp ik : List Tok)
    (htm : cont temp = []) (hik : cont ik = []) (ts : List Tok) (i : CreateIndex) (rest : List Tok)
    (h : parseCreateIndex c f d kw temp ik ts = .ok (i, rest)) (hp : i.printable = true) :
    cont i.flatten = pc i.pieces := by
  unfold parseCreateIndex at h
  split at h
  · simp at h
  · rename_i hd r1 hh
    obtain ⟨h1, h1c, h1i⟩ := indexHead_content _ _ _ _ hh
    split at h
    · simp at h
    · rename_i cols r2 hc
      split at h
      · simp at h
      · rename_i rp r3 hr
        have hrp := eatSym_content hr
        split at h
        · simp at h
        · rename_i tl r4 ht
          simp at h; obtain ⟨rfl, rfl⟩ := h
          simp only [CreateIndex.printable, Bool.and_eq_true] at hp
          have h2 := commaSepE_content _ _ OrderByExpr.flatten OrderByExpr.pieces (fun o => o.e.printable = true)
            (fun ts v rest hh hv => orderByElem_content c.d.q f d ts v rest hh hv) _ _ _ _ hc
            (fun p hpm => by simpa using (List.all_eq_true.1 hp.1) p hpm)
          have h4 := indexTail_content _ _ _ _ _ _ ht hp.2
          have en : pc (if hd.name.isEmpty then [] else spaced (namePieces hd.name)) = pc (namePieces hd.name) := by
            split
            · rename_i he
              have : hd.name = [] := by simpa using he
              rw [this]; rfl
            · exact pc_spaced _
          simp only [CreateIndex.flatten, CreateIndex.pieces, cont_cons, cont_append, pc_append]
          rw [pc_includePieces, en]
          simp [hkw, htm, hik, h1, h2, hrp, h4, pc_cons_kwP, pc_cons_symP, pc_spaced, pc_glued, pc_if_kw1, pc_if_kw1',
            pc_if_kw3, pc_kwP, pc_symP, pc_sepPiecesTight, pc_nullsPieces, pc_nil]

-- ------------------------------------------------------------------ ALTER TABLE
theorem addOp_content (c : XCfg) (f d : Nat) (k : Tok) (hk : contentOf k = none) (ts : List Tok) (op : AlterOp) (rest : List Tok)
    (h : addOp c f d k ts = .ok (op, rest)) (hp : op.printable = true) : cont op.flatten = pc op.pieces := by
  unfold addOp at h
  split at h
  · simp at h
  · split at h
    · simp at h
    · split at h
      · simp at h
      · split at h
        · simp at h
        · rename_i cd r hc
          split at h
          · simp at h
          · simp at h; obtain ⟨rfl, rfl⟩ := h
            have h4 := columnDef_content _ _ _ _ _ _ hc (by simpa [AlterOp.printable] using hp)
            simp only [AlterOp.flatten, AlterOp.pieces, cont_cons, cont_append, hk, kwsTail_content, kwTail_content,
              addIneTail_content, h4, Option.toList, List.nil_append, pc_append, pc_cons_kwP, pc_spaced, pc_if_kw1,
              pc_if_kw3', pc_kwP, pc_nil]

theorem dropOp_content (c : XCfg) (k : Tok) (hk : contentOf k = none) (ts : List Tok) (op : AlterOp) (rest : List Tok)
    (h : dropOp c k ts = .ok (op, rest)) : cont op.flatten = pc op.pieces := by
  unfold dropOp at h
  split at h
  · simp at h
  · split at h
    · simp at h
    · split at h
      · simp at h
      · split at h
        · simp at h
        · rename_i name r hn
          simp at h; obtain ⟨rfl, rfl⟩ := h
          simp only [AlterOp.flatten, AlterOp.pieces, cont_cons, cont_append, hk, kwsTail_content, kwTail_content,
            Option.toList, List.nil_append, List.append_nil, pc_append, pc_cons_kwP, pc_if_kw1, pc_if_kw2, pc_idPiece,
            cont_nil, List.cons_append]

theorem renameColOp_content (k : Tok) (hk : contentOf k = none) (ts : List Tok) (op : AlterOp) (rest : List Tok)
    (h : renameColOp k ts = .ok (op, rest)) : cont op.flatten = pc op.pieces := by
  unfold renameColOp at h
  split at h
  · simp at h
  · rename_i old r ho
    split at h
    · simp at h
    · rename_i toKw r1 ht
      split at h
      · simp at h
      · rename_i new r2 hn
        simp at h; obtain ⟨rfl, rfl⟩ := h
        simp [AlterOp.flatten, AlterOp.pieces, cont_cons, cont_append, hk, kwTail_content, eatKw_content ht,
          pc_cons_kwP, pc_cons_idPiece, pc_idPiece, cont_nil, pc_nil]

theorem renameOp_content (c : XCfg) (k : Tok) (hk : contentOf k = none) (ts : List Tok) (op : AlterOp) (rest : List Tok)
    (h : renameOp c k ts = .ok (op, rest)) : cont op.flatten = pc op.pieces := by
  unfold renameOp at h
  split at h
  · simp at h
  · split at h
    · rename_i toKw r ht
      split at h
      · simp at h
      · rename_i name r1 hn
        split at h
        · simp at h
        · simp at h; obtain ⟨rfl, rfl⟩ := h
          simp only [AlterOp.flatten, AlterOp.pieces, cont_cons, hk, eatKw_content ht, Option.toList, List.nil_append,
            List.cons_append, pc_cons_kwP, pc_spaced, ← name_content]
    · exact renameColOp_content _ hk _ _ _ h

theorem alterColTail_content (c : XCfg) (f d : Nat) (ts : List Tok) (p : List Tok × AlterColOp) (rest : List Tok)
    (h : alterColTail c f d ts = .ok (p, rest)) (hp : p.2.printable = true) :
    cont (p.1 ++ p.2.flatten) = pc p.2.pieces := by
  unfold alterColTail at h
  split at h
  · rename_i toks r hk
    simp at h; obtain ⟨rfl, rfl⟩ := h
    simp [AlterColOp.flatten, AlterColOp.pieces, cont_append, eatKws_content _ hk, cont_nil, pc_cons_kwP, pc_nil]
  · split at h
    · rename_i toks r hk
      simp at h; obtain ⟨rfl, rfl⟩ := h
      simp [AlterColOp.flatten, AlterColOp.pieces, cont_append, eatKws_content _ hk, cont_nil, pc_cons_kwP, pc_nil]
    · split at h
      · rename_i toks r hk
        split at h
        · simp at h
        · rename_i e r1 he
          simp at h; obtain ⟨rfl, rfl⟩ := h
          have := parseE_content _ _ _ _ _ _ he (by simpa [AlterColOp.printable] using hp)
          simp [AlterColOp.flatten, AlterColOp.pieces, cont_append, eatKws_content _ hk, this, pc_append, pc_cons_kwP, pc_spaced]
      · split at h
        · rename_i toks r hk
          simp at h; obtain ⟨rfl, rfl⟩ := h
          simp [AlterColOp.flatten, AlterColOp.pieces, cont_append, eatKws_content _ hk, cont_nil, pc_cons_kwP, pc_nil]
        · split at h <;> simp at h

theorem alterColOp_content (c : XCfg) (f d : Nat) (k : Tok) (hk : contentOf k = none) (ts : List Tok) (op : AlterOp)
    (rest : List Tok) (h : alterColOp c f d k ts = .ok (op, rest)) (hp : op.printable = true) :
    cont op.flatten = pc op.pieces := by
  unfold alterColOp at h
  split at h
  · simp at h
  · rename_i name r hn
    split at h
    · simp at h
    · rename_i p r1 hpp
      simp at h; obtain ⟨rfl, rfl⟩ := h
      have := alterColTail_content _ _ _ _ _ _ hpp (by simpa [AlterOp.printable] using hp)
      simp only [cont_append] at this
      simp only [AlterOp.flatten, AlterOp.pieces, cont_cons, cont_append, hk, kwTail_content, Option.toList,
        List.nil_append, List.cons_append, pc_cons_kwP, pc_cons_idPiece, cont_nil, List.append_nil]
      rw [← this]
      simp [List.append_assoc]

theorem alterOp_content (c : XCfg) (f d : Nat) (ts : List Tok) (op : AlterOp) (rest : List Tok)
    (h : alterOp c f d ts = .ok (op, rest)) (hp : op.printable = true) : cont op.flatten = pc op.pieces := by
  unfold alterOp at h
  split at h
  · rename_i k r hk
    exact addOp_content _ _ _ _ (eatKw_content hk) _ _ _ h hp
  · split at h
    · rename_i k r hk
      exact renameOp_content _ _ (eatKw_content hk) _ _ _ h
    · split at h
      · rename_i k r hk
        exact dropOp_content _ _ (eatKw_content hk) _ _ _ h
      · split at h
        · rename_i k r hk
          exact alterColOp_content _ _ _ _ (eatKw_content hk) _ _ _ h hp
        · split at h <;> simp at h

theorem parseAlter_content (c : XCfg) (f d : Nat) (kw : Tok) (hkw : contentOf kw = none) (ts : List Tok) (a : AlterTable)
    (rest : List Tok) (h : parseAlter c f d kw ts = .ok (a, rest)) (hp : a.printable = true) :
    cont a.flatten = pc a.pieces := by
  unfold parseAlter at h
  split at h
  · split at h <;> simp at h
  · rename_i tk r0 hk
    split at h
    · simp at h
    · rename_i name r1 hn
      split at h
      · simp at h
      · split at h
        · simp at h
        · split at h
          · simp at h
          · rename_i ops r2 ho
            split at h
            · simp at h
            · simp at h; obtain ⟨rfl, rfl⟩ := h
              have h4 := commaSepE_content _ _ AlterOp.flatten AlterOp.pieces (fun o => o.printable = true)
                (fun ts v rest hh hv => alterOp_content c f d ts v rest hh hv) _ _ _ _ ho
                (fun p hpm => by simpa using (List.all_eq_true.1 hp) p hpm)
              simp only [AlterTable.flatten, AlterTable.pieces, cont_cons, cont_append, hkw, eatKw_content hk,
                kwsTail_content, kwTail_content, h4, Option.toList, List.nil_append, pc_append, pc_cons_kwP, pc_spaced,
                pc_if_kw1, pc_if_kw2, pc_kwP, ← name_content, pc_nil]

-- ------------------------------------------------------------------ TRUNCATE, DROP
theorem truncIdentity_content (c : XCfg) (ts : List Tok) : cont (truncIdentity c ts).1 = [] := by
  unfold truncIdentity
  split
  · split
    · rename_i p hp; exact eatKws_content _ hp
    · exact kwsTail_content _ _
  · rfl

theorem truncCascade_content (c : XCfg) (ts : List Tok) : cont (truncCascade c ts).1 = [] := by
  unfold truncCascade
  split
  · split
    · rename_i t r hk; simp [cont_cons, eatKw_content hk, cont_nil]
    · exact kwTail_content _ _
  · rfl

theorem pc_map_kwTokP (l : List Tok) : pc (l.map (kwTokP true)) = [] := by
  induction l with
  | nil => rfl
  | cons t rest ih =>
    have := pc_append [kwTokP true t] (rest.map (kwTokP true))
    simp only [List.map_cons, List.singleton_append] at this ⊢
    rw [this, ih, List.append_nil]
    cases t with
    | word v q k =>
      cases k with
      | none => rfl
      | some k => rfl
    | _ => rfl

theorem parseTruncate_content (c : XCfg) (f : Nat) (kw : Tok) (hkw : contentOf kw = none) (ts : List Tok) (t : Truncate)
    (rest : List Tok) (h : parseTruncate c f kw ts = .ok (t, rest)) : cont t.flatten = pc t.pieces := by
  unfold parseTruncate at h
  split at h
  · simp at h
  · rename_i names r1 hn
    split at h
    · simp at h
    · split at h
      · simp at h
      · split at h
        · simp at h
        · simp at h; obtain ⟨rfl, rfl⟩ := h
          have h1 := names_content _ _ _ _ _ hn
          simp only [Truncate.flatten, Truncate.pieces, cont_cons, cont_append, hkw, kwTail_content, truncIdentity_content,
            truncCascade_content, h1, Option.toList, List.nil_append, List.append_nil, pc_append, pc_cons_kwP, pc_spaced,
            pc_if_kw1, pc_map_kwTokP, pc_nil]

theorem parseDropObj_content (c : XCfg) (f : Nat) (kw kind : Tok) (hkw : contentOf kw = none) (hkind : contentOf kind = none)
    (ts : List Tok) (dr : Drop) (rest : List Tok) (h : parseDropObj c f kw kind ts = .ok (dr, rest)) :
    cont dr.flatten = pc (dropObjPieces dr) := by
  unfold parseDropObj at h
  split at h
  · simp at h
  · rename_i names r1 hn
    split at h
    · simp at h
    · split at h
      · simp at h
      · split at h
        · simp at h
        · simp at h; obtain ⟨rfl, rfl⟩ := h
          have h1 := names_content _ _ _ _ _ hn
          have e0 : pc [kwTokP true kind] = [] := by
            cases kind with
            | word v q k =>
              cases k with
              | none => simp [contentOf] at hkind
              | some k => rfl
            | _ => rfl
          have e0' : ∀ l, pc (kwTokP true kind :: l) = pc l := fun l => by
            have := pc_append [kwTokP true kind] l
            simpa [e0] using this
          simp only [Drop.flatten, dropObjPieces, cont_cons, cont_append, hkw, hkind, kwsTail_content, kwTail_content, h1,
            Option.toList, List.nil_append, List.append_nil, pc_append, pc_cons_kwP, e0', pc_spaced, pc_if_kw1, pc_if_kw2,
            List.cons_append, pc_nil]

-- ------------------------------------------------------------------ statements
theorem dropHead_content {ts : List Tok} {kind : Tok} {r : List Tok} (h : dropHead ts = some (kind, r)) :
    contentOf kind = none := by
  unfold dropHead at h
  split at h
  · split at h
    · rename_i hk
      simp at h; obtain ⟨rfl, rfl⟩ := h
      obtain ⟨k, -, hk'⟩ := List.any_eq_true.1 hk
      exact isKw_content hk'
    · simp at h
  · simp at h

theorem indexKws_content {ts ik r : List Tok} (h : indexKws ts = some (ik, r)) : cont ik = [] := by
  unfold indexKws at h
  split at h
  · rename_i t r' hk
    simp at h; obtain ⟨rfl, rfl⟩ := h
    simp [cont_cons, eatKw_content hk, cont_nil]
  · exact eatKws_content _ h

theorem createHeadTail_view_content {orRep ts o t r : List Tok} (h : createHeadTail orRep ts = .view o t r) : cont t = [] := by
  unfold createHeadTail at h
  split at h
  · simp at h
  · split at h
    · simp at h; obtain ⟨-, rfl, -⟩ := h; exact tempTail_content ts
    · split at h
      · simp at h
      · split at h <;> simp at h

theorem createHeadTail_index_content {orRep ts t ik r : List Tok} (h : createHeadTail orRep ts = .index t ik r) :
    cont t = [] ∧ cont ik = [] := by
  unfold createHeadTail at h
  split at h
  · simp at h
  · split at h
    · simp at h
    · split at h
      · simp at h
      · split at h
        · rename_i ik' r' hk
          simp at h; obtain ⟨rfl, rfl, rfl⟩ := h
          exact ⟨tempTail_content ts, indexKws_content hk⟩
        · simp at h

theorem createHead_view_content {ts o t r : List Tok} (h : createHead ts = .view o t r) : cont o = [] ∧ cont t = [] := by
  unfold createHead at h
  obtain ⟨rfl, -⟩ := createHeadTail_view h
  exact ⟨kwsTail_content _ _, createHeadTail_view_content h⟩

theorem createHead_index_content {ts t ik r : List Tok} (h : createHead ts = .index t ik r) : cont t = [] ∧ cont ik = [] := by
  unfold createHead at h
  exact createHeadTail_index_content h

/-- **content**: the content tokens of what a statement parse consumed are those of the printed statement -/
theorem parseStmt_content (c : XCfg) (f limit : Nat) (ts : List Tok) (s : Stmt) (rest : List Tok)
    (h : parseStmt c f limit ts = .ok (s, rest)) (hp : s.printable = true) : cont s.flatten = pc s.pieces := by
  unfold parseStmt at h
  cases limit with
  | zero => simp at h
  | succ d =>
    simp only at h
    cases ts with
    | nil => simp at h
    | cons t r =>
      simp only at h
      split at h
      · rename_i hk
        split at h
        · rename_i o tm r1 hh
          obtain ⟨v, hv, rfl⟩ := mapRes_ok h
          obtain ⟨h1, h2⟩ := createHead_view_content hh
          exact parseCreateView_content _ _ _ _ (isKw_content hk) _ _ h1 h2 _ _ _ hv hp
        · rename_i tm ik r1 hh
          obtain ⟨v, hv, rfl⟩ := mapRes_ok h
          obtain ⟨h1, h2⟩ := createHead_index_content hh
          exact parseCreateIndex_content _ _ _ _ (isKw_content hk) _ _ h1 h2 _ _ _ hv hp
        · obtain ⟨v, hv, rfl⟩ := mapRes_ok h
          exact SqlVerif.Dml.parseStmt_content _ _ _ _ _ _ hv hp
      · split at h
        · rename_i hk
          obtain ⟨v, hv, rfl⟩ := mapRes_ok h
          exact parseAlter_content _ _ _ _ (isKw_content hk) _ _ _ hv hp
        · split at h
          · rename_i hk
            obtain ⟨v, hv, rfl⟩ := mapRes_ok h
            exact parseTruncate_content _ _ _ (isKw_content hk) _ _ _ hv
          · split at h
            · rename_i hk
              split at h
              · rename_i kind r1 hh
                obtain ⟨v, hv, rfl⟩ := mapRes_ok h
                exact parseDropObj_content _ _ _ _ (isKw_content hk) (dropHead_content hh) _ _ _ hv
              · obtain ⟨v, hv, rfl⟩ := mapRes_ok h
                exact SqlVerif.Dml.parseStmt_content _ _ _ _ _ _ hv hp
            · obtain ⟨v, hv, rfl⟩ := mapRes_ok h
              exact SqlVerif.Dml.parseStmt_content _ _ _ _ _ _ hv hp

end SqlVerif.Ddl

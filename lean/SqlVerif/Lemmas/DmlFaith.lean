import SqlVerif.Lemmas.DmlWF
import SqlVerif.Lemmas.DmlSim2
/-!
The printer of the statement fragment is faithful to what the parser stored.

* `Stmt.normal`      decidable: the shapes whose printed form is a token-by-token image of the source;
* `Stmt.printableQ`  decidable: every expression printable (C01), LIMIT / OFFSET in printing order,
                     column types are keyword types (implied by `Stmt.printable` of `Lemmas/DmlContent.lean`);
* `stmt_faith`       `WF`, `printableQ`, `normal` and `tokOk` tokens ⇒ `s.norm.mapT qc = s.mapT qc`.
-/
namespace SqlVerif.Dml
open SqlVerif.Pratt SqlVerif.Query SqlVerif.Gen
set_option linter.unusedSimpArgs false

-- ------------------------------------------------------------------ normal shapes (decidable)
def Row.normal (r : Row) : Bool := sepNormal (fun _ => true) r.exprs

/-- no trailing comma; `ROW` on every row or on none -/
def ValuesQ.normal (v : ValuesQ) : Bool :=
  sepNormal (fun r => r.normal && (r.rowKw.isEmpty != explicitRow v.rows)) v.rows && v.tail.normal

def Source.normal : Source → Bool
  | .query q => q.normal
  | .values v => v.normal

/-- absent, or `( a, b )` with at least one name and no trailing comma -/
def ParenIds.normal (p : ParenIds) : Bool := (p.lp.isEmpty || !p.ids.isEmpty) && sepNormal (fun _ => true) p.ids

def InsSource.normal : InsSource → Bool
  | .defaultValues _ => true
  | .source s => s.normal

def Insert.normal (i : Insert) : Bool := i.cols.normal && i.src.normal && sepNormal SelectItem.normal i.returning

def AssignTarget.normal : AssignTarget → Bool
  | .col _ => true
  | .tuple _ names _ => sepNormal (fun _ => true) names

/-- no `FROM` swallowed without a table (dialects outside the eight); no trailing commas -/
def Update.normal (u : Update) : Bool :=
  u.table.normal && sepNormal (fun a => a.target.normal) u.assigns && u.fromKw.isEmpty && u.frm.normal &&
    sepNormal SelectItem.normal u.returning

/-- no `LIMIT ALL`; no trailing commas -/
def Delete.normal (d : Delete) : Bool :=
  sepNormal (fun _ => true) d.tables && d.frm.normal && d.usng.normal && sepNormal SelectItem.normal d.returning &&
    sepNormal (fun _ => true) d.order && (d.limitKw.length != 2)

def ColOpt.normal : ColOpt → Bool
  | .references _ _ cols => cols.normal
  | _ => true

/-- the type is written as `Display` prints it, up to keyword case (`VARCHAR(010)` is not) -/
def ColDef.tyNormal (cd : ColDef) : Bool := cd.tyToks.map qc == (toksOf (dtPiecesD cd.ty)).map qc

/-- no keyword swallowed by a failed dialect test (`a INT ASC` where the dialect has no `ASC`) -/
def ColDef.normal (cd : ColDef) : Bool := cd.tyNormal && cd.opts.all ColOpt.normal && cd.dropped.isEmpty

/-- `TEMPORARY` rather than `TEMP`; the column list is written (possibly `()`); no trailing comma -/
def CreateTable.normal (ct : CreateTable) : Bool :=
  ct.temp.all (fun t => t.isKw DK.TEMPORARY) && !ct.lp.isEmpty && sepNormal ColDef.normal ct.cols

def Drop.normal (d : Drop) : Bool := sepNormal (fun _ => true) d.names

/-- The shapes whose printed form is a token-by-token image of the source (beyond `Query.normal`):
`VALUES` with `ROW` on every row or on none; no `()` column list in `INSERT` / `REFERENCES`; no trailing
commas; no `FROM` swallowed by `UPDATE`; no `LIMIT ALL` in `DELETE`; `TEMPORARY`, not `TEMP`; the column
list of `CREATE TABLE` written; column types spelled as `Display` spells them (numbers in decimal without
leading zeros); no option keyword swallowed by a failed dialect test. -/
def Stmt.normal : Stmt → Bool
  | .query s => s.normal
  | .insert i => i.normal
  | .update u => u.normal
  | .delete d => d.normal
  | .createTable ct => ct.normal
  | .drop d => d.normal

-- ------------------------------------------------------------------ printable (C01 variant)
/-- like `ColDef.printable`, with any keyword type (numbers, string labels and `[]` suffixes allowed) -/
def ColDef.printableQ (cd : ColDef) : Bool := SqlVerif.DTy.tyLeafNC cd.ty && cd.opts.all ColOpt.printable

def Stmt.printableQ : Stmt → Bool
  | .createTable ct => ct.cols.all (fun p => p.1.printableQ)
  | s => s.printable

theorem typePlain_leafNC (t : SqlVerif.DTy.DT) (h : typePlain t = true) : SqlVerif.DTy.tyLeafNC t = true := by
  cases t <;> simp_all [typePlain, SqlVerif.DTy.tyLeafNC]

theorem printableQ_of_printable (s : Stmt) (h : s.printable = true) : s.printableQ = true := by
  cases s with
  | createTable ct =>
    simp only [Stmt.printable, CreateTable.printable, Stmt.printableQ, List.all_eq_true] at h ⊢
    intro p hp
    have := h p hp
    simp only [ColDef.printable, ColDef.printableQ, Bool.and_eq_true] at this ⊢
    exact ⟨typePlain_leafNC _ this.1.1, this.2⟩
  | _ => exact h

theorem printableQ_typesLeaf (s : Stmt) (h : s.printableQ = true) : s.typesLeaf = true := by
  cases s with
  | createTable ct =>
    simp only [Stmt.printableQ, Stmt.typesLeaf, colsLeaf, List.all_eq_true] at h ⊢
    intro p hp
    have := h p hp
    simp only [ColDef.printableQ, Bool.and_eq_true] at this
    exact this.1
  | _ => rfl

-- ------------------------------------------------------------------ keyword tokens
theorem tokOk_INSERT : tokOk (kwT "INSERT") = true := by decide +kernel
theorem tokOk_INTO : tokOk (kwT "INTO") = true := by decide +kernel
theorem tokOk_TABLE : tokOk (kwT "TABLE") = true := by decide +kernel
theorem tokOk_DEFAULT : tokOk (kwT "DEFAULT") = true := by decide +kernel
theorem tokOk_VALUES : tokOk (kwT "VALUES") = true := by decide +kernel
theorem tokOk_RETURNING : tokOk (kwT "RETURNING") = true := by decide +kernel
theorem tokOk_UPDATE : tokOk (kwT "UPDATE") = true := by decide +kernel
theorem tokOk_SET : tokOk (kwT "SET") = true := by decide +kernel
theorem tokOk_DELETE : tokOk (kwT "DELETE") = true := by decide +kernel
theorem tokOk_CREATE : tokOk (kwT "CREATE") = true := by decide +kernel
theorem tokOk_TEMPORARY : tokOk (kwT "TEMPORARY") = true := by decide +kernel
theorem tokOk_IF : tokOk (kwT "IF") = true := by decide +kernel
theorem tokOk_EXISTS : tokOk (kwT "EXISTS") = true := by decide +kernel
theorem tokOk_COMMENT : tokOk (kwT "COMMENT") = true := by decide +kernel
theorem tokOk_PRIMARY : tokOk (kwT "PRIMARY") = true := by decide +kernel
theorem tokOk_KEY : tokOk (kwT "KEY") = true := by decide +kernel
theorem tokOk_UNIQUE : tokOk (kwT "UNIQUE") = true := by decide +kernel
theorem tokOk_CHECK : tokOk (kwT "CHECK") = true := by decide +kernel
theorem tokOk_REFERENCES : tokOk (kwT "REFERENCES") = true := by decide +kernel
theorem tokOk_DROP : tokOk (kwT "DROP") = true := by decide +kernel
theorem tokOk_CASCADE : tokOk (kwT "CASCADE") = true := by decide +kernel
theorem tokOk_RESTRICT : tokOk (kwT "RESTRICT") = true := by decide +kernel
theorem tokOk_PURGE : tokOk (kwT "PURGE") = true := by decide +kernel

theorem optKw_faith {n : String} (l : List Tok) (hw : optKwWF (kwIndex n) l) (ht : l.all tokOk = true)
    (hn : tokOk (kwT n) = true) : (if l.isEmpty then [] else [kwT n]).map qc = l.map qc := by
  rcases hw with rfl | ⟨t, rfl, hk⟩
  · rfl
  · simp only [List.all_cons, List.all_nil, Bool.and_true] at ht
    simp [qc_kwT hk ht hn]

theorem names_faith (l : Sep (List Tok)) (hw : sepWF (fun _ => True) l) (hn : sepNormal (fun _ => true) l = true)
    (ht : (sepFlat (fun n => n) l).all tokOk = true) :
    sepMap (List.map qc) qc (sepNorm id l) = sepMap (List.map qc) qc l :=
  sep_faith (fun _ => True) (fun _ => true) (fun n => n) (List.map qc) id (fun _ _ _ _ => rfl) l hw hn ht

theorem ids_faith (l : Sep Tok) (hw : sepWF (fun _ => True) l) (hn : sepNormal (fun _ => true) l = true)
    (ht : (sepFlat (fun t => [t]) l).all tokOk = true) : sepMap qc qc (sepNorm id l) = sepMap qc qc l :=
  sep_faith (fun _ => True) (fun _ => true) (fun t => [t]) qc id (fun _ _ _ _ => rfl) l hw hn ht

theorem exprs_faith (l : Sep Expr) (hw : sepWF ExprWF l) (hn : sepNormal (fun _ => true) l = true)
    (hp : l.all (fun p => p.1.printable) = true) (ht : (sepFlat Expr.flatten l).all tokOk = true) :
    sepMap (Expr.mapT qc) qc (sepNorm Expr.norm l) = sepMap (Expr.mapT qc) qc l :=
  sep_faith ExprWF (fun e => true && e.printable) Expr.flatten (Expr.mapT qc) Expr.norm
    (fun v h1 h2 h3 => by
      have hp' : v.printable = true := by simpa using h2
      exact expr_faith v (h1 hp') hp' (flatten_kwTokOk h3)) l hw (sepNormal_and _ _ _ hn hp) ht

theorem items_faith (l : Sep SelectItem) (hw : sepWF SelectItem.WF l) (hn : sepNormal SelectItem.normal l = true)
    (hp : itemsPrintable l = true) (ht : (sepFlat SelectItem.flatten l).all tokOk = true) :
    sepMap (SelectItem.mapT qc) qc (sepNorm SelectItem.norm l) = sepMap (SelectItem.mapT qc) qc l :=
  sep_faith SelectItem.WF (fun v => v.normal && v.printable) SelectItem.flatten (SelectItem.mapT qc) SelectItem.norm
    (fun v h1 h2 h3 => by
      simp only [Bool.and_eq_true] at h2
      exact item_faith v h1 h2.1 h2.2 h3) l hw (sepNormal_and _ _ _ hn hp) ht

theorem orders_faith (l : Sep OrderByExpr) (hw : sepWF OrderByExpr.WF l) (hn : sepNormal (fun _ => true) l = true)
    (hp : l.all (fun p => p.1.e.printable) = true) (ht : (sepFlat OrderByExpr.flatten l).all tokOk = true) :
    sepMap (OrderByExpr.mapT qc) qc (sepNorm OrderByExpr.norm l) = sepMap (OrderByExpr.mapT qc) qc l :=
  sep_faith OrderByExpr.WF (fun o => true && o.e.printable) OrderByExpr.flatten (OrderByExpr.mapT qc) OrderByExpr.norm
    (fun v h1 h2 h3 => order_faith v h1 (by simpa using h2) h3) l hw (sepNormal_and _ _ _ hn hp) ht

theorem ret_faith (kw : List Tok) (items : Sep SelectItem) (hw : retWF kw items)
    (hn : sepNormal SelectItem.normal items = true) (hp : itemsPrintable items = true) (ht1 : kw.all tokOk = true)
    (ht2 : (sepFlat SelectItem.flatten items).all tokOk = true) :
    (retKwNorm items).map qc = kw.map qc ∧
      sepMap (SelectItem.mapT qc) qc (sepNorm SelectItem.norm items) = sepMap (SelectItem.mapT qc) qc items := by
  refine ⟨?_, items_faith items hw.2 hn hp ht2⟩
  rcases hw.1 with ⟨rfl, rfl⟩ | ⟨t, rfl, hk, hne⟩
  · rfl
  · simp only [List.all_cons, List.all_nil, Bool.and_true] at ht1
    have : items.isEmpty = false := by cases items <;> simp_all
    simp [retKwNorm, this, qc_kwT (n := "RETURNING") hk ht1 tokOk_RETURNING]

theorem where_faith (kws : List Tok) (oe : Option Expr) (hw : kwExprWF DK.WHERE kws oe) (hp : optPrintable oe = true)
    (ht : kws.all tokOk = true) (ht2 : (optFlat oe).all tokOk = true) :
    (whereKwNorm oe).map qc = kws.map qc ∧ (oe.map Expr.norm).map (Expr.mapT qc) = oe.map (Expr.mapT qc) := by
  have := kwExpr_faith (n := "WHERE") kws oe hw tokOk_WHERE hp ht ht2
  refine ⟨?_, this.2⟩
  cases oe <;> exact this.1

-- ------------------------------------------------------------------ VALUES, sources
theorem tokOk_ROW' : tokOk (kwT "ROW") = true := by decide +kernel

theorem row_faith (ex : Bool) (r : Row) (hw : r.WF) (hn : r.normal = true) (hx : (r.rowKw.isEmpty != ex) = true)
    (hp : r.printable = true) (ht : r.flatten.all tokOk = true) : (Row.norm ex r).mapT qc = r.mapT qc := by
  obtain ⟨rk, lp, es, rp⟩ := r
  simp only [Row.WF, Row.normal, Row.printable] at hw hn hp hx
  obtain ⟨h1, rfl, rfl, h4⟩ := hw
  simp only [Row.flatten, List.all_append, List.all_cons, List.all_nil, Bool.and_eq_true, Bool.and_true, and_assoc] at ht
  have hs := exprs_faith es h4 hn hp ht.2.2.1
  simp only [Row.norm, Row.mapT, hs, Row.mk.injEq, and_true, true_and]
  rcases h1 with rfl | ⟨t, rfl, hk⟩
  · cases ex
    · rfl
    · simp at hx
  · cases ex
    · simp at hx
    · simp only [List.all_cons, List.all_nil, Bool.and_true] at ht
      simp [qc_kwT (n := "ROW") hk ht.1 tokOk_ROW']

theorem values_faith (v : ValuesQ) (hw : v.WF) (hn : v.normal = true) (hp : v.printable = true)
    (ht : v.flatten.all tokOk = true) : v.norm.mapT qc = v.mapT qc := by
  obtain ⟨kw, rows, tl⟩ := v
  simp only [ValuesQ.WF, ValuesQ.normal, ValuesQ.printable, Bool.and_eq_true] at hw hn hp
  simp only [ValuesQ.flatten, List.all_append, List.all_cons, List.all_nil, Bool.and_eq_true, Bool.and_true, and_assoc] at ht
  have hs := sep_faith Row.WF (fun r => (r.normal && (r.rowKw.isEmpty != explicitRow rows)) && r.printable) Row.flatten
    (Row.mapT qc) (Row.norm (explicitRow rows))
    (fun r h1 h2 h3 => by
      simp only [Bool.and_eq_true] at h2
      exact row_faith _ r h1 h2.1.1 h2.1.2 h2.2 h3) rows hw.2.1 (sepNormal_and _ _ _ hn.1 hp.1) ht.2.1
  simp only [ValuesQ.norm, ValuesQ.mapT, hs, tail_faith tl hw.2.2 hn.2 hp.2 ht.2.2,
    qc_kwT (n := "VALUES") hw.1 ht.1 tokOk_VALUES]

theorem source_faith (s : Source) (hw : s.WF) (hn : s.normal = true) (hp : s.printable = true)
    (ht : s.flatten.all tokOk = true) : s.norm.mapT qc = s.mapT qc := by
  cases s with
  | query q => simp only [Source.norm, Source.mapT, norm_faithful q hw hn hp ht]
  | values v => simp only [Source.norm, Source.mapT, values_faith v hw hn hp ht]

-- ------------------------------------------------------------------ INSERT
theorem parenIds_faith (p : ParenIds) (hw : p.WF) (hn : p.normal = true) (ht : p.flatten.all tokOk = true) :
    p.norm.mapT qc = p.mapT qc := by
  obtain ⟨lp, ids, rp⟩ := p
  simp only [ParenIds.WF, ParenIds.normal, Bool.and_eq_true, Bool.or_eq_true] at hw hn
  rcases hw with ⟨rfl, rfl, rfl⟩ | ⟨rfl, rfl, h3⟩
  · rfl
  · simp only [ParenIds.flatten, List.all_append, List.all_cons, List.all_nil, Bool.and_eq_true, Bool.and_true, and_assoc] at ht
    have hne : ids.isEmpty = false := by
      rcases hn.1 with h | h
      · simp at h
      · simpa using h
    simp only [ParenIds.norm, hne, Bool.false_eq_true, if_false, ParenIds.mapT, ids_faith ids h3 hn.2 ht.2.1]

theorem tokOk_DEFAULT_VALUES {toks : List Tok} (h : isKwL toks [DK.DEFAULT, DK.VALUES]) (ht : toks.all tokOk = true) :
    [qc (kwT "DEFAULT"), qc (kwT "VALUES")] = toks.map qc :=
  kwL2_faith (n1 := "DEFAULT") (n2 := "VALUES") h ht tokOk_DEFAULT tokOk_VALUES

theorem insSource_faith (s : InsSource) (hw : s.WF) (hn : s.normal = true) (hp : s.printable = true)
    (ht : s.flatten.all tokOk = true) : s.norm.mapT qc = s.mapT qc := by
  cases s with
  | defaultValues toks =>
    simp only [InsSource.norm, InsSource.mapT, InsSource.defaultValues.injEq, List.map_cons, List.map_nil]
    exact tokOk_DEFAULT_VALUES hw ht
  | source s => simp only [InsSource.norm, InsSource.mapT, source_faith s hw hn hp ht]

theorem insert_faith (i : Insert) (hw : i.WF) (hn : i.normal = true) (hp : i.printable = true)
    (ht : i.flatten.all tokOk = true) : i.norm.mapT qc = i.mapT qc := by
  obtain ⟨kw, into, tk, name, cols, src, rk, ret⟩ := i
  simp only [Insert.WF, Insert.normal, Insert.printable, Bool.and_eq_true] at hw hn hp
  simp only [Insert.flatten, List.all_append, List.all_cons, List.all_nil, Bool.and_eq_true, Bool.and_true, and_assoc] at ht
  obtain ⟨h1, h2, h3, h4, h5, h6⟩ := hw
  obtain ⟨t1, t2, t3, t4, t5, t6, t7, t8⟩ := ht
  have hr := ret_faith rk ret h6 hn.2 hp.2 t7 t8
  simp only [Insert.norm, Insert.mapT, qc_kwT (n := "INSERT") h1 t1 tokOk_INSERT,
    optKw_faith (n := "INTO") into h2 t2 tokOk_INTO, optKw_faith (n := "TABLE") tk h3 t3 tokOk_TABLE,
    parenIds_faith cols h4 hn.1.1 t5, insSource_faith src h5 hn.1.2 hp.1 t6, hr.1, hr.2]

-- ------------------------------------------------------------------ FROM-item lists under another keyword
theorem norm_setHead (t : Tok) (n : QNode) : (setHead t n).norm = n.norm := by
  cases n with
  | ftable conn name al cstr rest => cases conn <;> rfl
  | fderived conn lp body qt rp al cstr rest => cases conn <;> rfl
  | _ => rfl

theorem normal_setHead (t : Tok) (n : QNode) : (setHead t n).normal = n.normal := by
  cases n with
  | ftable conn name al cstr rest => cases conn <;> rfl
  | fderived conn lp body qt rp al cstr rest => cases conn <;> rfl
  | _ => rfl

theorem printable_setHead (t : Tok) (n : QNode) : (setHead t n).printable = n.printable := by
  cases n with
  | ftable conn name al cstr rest => cases conn <;> rfl
  | fderived conn lp body qt rp al cstr rest => cases conn <;> rfl
  | _ => rfl

theorem mapT_setHead (m : Tok → Tok) (t : Tok) (n : QNode) : (setHead t n).mapT m = setHead (m t) (n.mapT m) := by
  cases n with
  | ftable conn name al cstr rest => cases conn <;> rfl
  | fderived conn lp body qt rp al cstr rest => cases conn <;> rfl
  | _ => rfl

theorem setHead_setHead (t t' : Tok) (n : QNode) : setHead t (setHead t' n) = setHead t n := by
  cases n with
  | ftable conn name al cstr rest => cases conn <;> rfl
  | fderived conn lp body qt rp al cstr rest => cases conn <;> rfl
  | _ => rfl

theorem tokOk_setHead (t : Tok) (n : QNode) (ht : tokOk t = true) (h : n.flatten.all tokOk = true) :
    (setHead t n).flatten.all tokOk = true := by
  cases n with
  | ftable conn name al cstr rest =>
    cases conn <;> simp_all [setHead, QNode.flatten, Conn.toks]
  | fderived conn lp body qt rp al cstr rest =>
    cases conn <;> simp_all [setHead, QNode.flatten, Conn.toks]
  | _ => exact h

theorem headTok_ok (t : Tok) (n : QNode) (hf : headFrom n = true) (he : n = setHead t n) (h : n.flatten.all tokOk = true) :
    tokOk t = true := by
  cases n with
  | ftable conn name al cstr rest =>
    cases conn <;> simp [headFrom] at hf
    simp only [setHead, QNode.ftable.injEq, Conn.from.injEq, and_true] at he
    subst he
    simp_all [QNode.flatten, Conn.toks]
  | fderived conn lp body qt rp al cstr rest =>
    cases conn <;> simp [headFrom] at hf
    simp only [setHead, QNode.fderived.injEq, Conn.from.injEq, and_true] at he
    subst he
    simp_all [QNode.flatten, Conn.toks]
  | _ => simp [headFrom] at hf

/-- a FROM-item list under the keyword `name`: the re-headed normal form has the image of the list -/
theorem head_faith {name : String} (n : QNode) (hw : HeadWF (kwIndex name) n) (hn : n.normal = true)
    (hp : n.printable = true) (ht : n.flatten.all tokOk = true) (hname : tokOk (kwT name) = true) :
    (setHead (kwT name) n.norm).mapT qc = n.mapT qc := by
  rcases hw with rfl | ⟨hf, ⟨t, hk, he⟩, hwf⟩
  · rfl
  · have h1 := node_faith (setHead (kwT "FROM") n) hwf (by rw [normal_setHead]; exact hn)
      (by rw [printable_setHead]; exact hp) (tokOk_setHead _ _ tokOk_FROM ht)
    rw [norm_setHead] at h1
    rw [mapT_setHead, h1, mapT_setHead, setHead_setHead, qc_kwT hk (headTok_ok t n hf he ht) hname, ← mapT_setHead, ← he]

theorem setHead_norm_FROM (n : QNode) (h : headFrom n = true ∨ n = .fnil []) : setHead (kwT "FROM") n.norm = n.norm := by
  cases n with
  | ftable conn name al cstr rest =>
    cases conn <;> simp [headFrom] at h
    rfl
  | fderived conn lp body qt rp al cstr rest =>
    cases conn <;> simp [headFrom] at h
    rfl
  | fnil t => rfl
  | _ => simp [headFrom] at h

theorem from_faith (n : QNode) (hw : HeadWF DK.FROM n) (hn : n.normal = true) (hp : n.printable = true)
    (ht : n.flatten.all tokOk = true) : n.norm.mapT qc = n.mapT qc := by
  have := head_faith (name := "FROM") n hw hn hp ht tokOk_FROM
  rw [setHead_norm_FROM] at this
  · exact this
  · rcases hw with h | h
    · exact Or.inr h
    · exact Or.inl h.1

-- ------------------------------------------------------------------ UPDATE
theorem target_faith (t : AssignTarget) (hw : t.WF) (hn : t.normal = true) (ht : t.flatten.all tokOk = true) :
    t.norm.mapT qc = t.mapT qc := by
  cases t with
  | col name => rfl
  | tuple lp names rp =>
    simp only [AssignTarget.WF, AssignTarget.normal] at hw hn
    obtain ⟨rfl, rfl, h3⟩ := hw
    simp only [AssignTarget.flatten, List.all_append, List.all_cons, List.all_nil, Bool.and_eq_true, Bool.and_true, and_assoc] at ht
    simp only [AssignTarget.norm, AssignTarget.mapT, names_faith names h3 hn ht.2.1]

theorem assign_faith (a : Assign) (hw : a.WF) (hn : a.target.normal = true) (hp : a.value.printable = true)
    (ht : a.flatten.all tokOk = true) : a.norm.mapT qc = a.mapT qc := by
  obtain ⟨tg, eq, v⟩ := a
  simp only [Assign.WF] at hw hn hp
  obtain ⟨h1, rfl, h3⟩ := hw
  simp only [Assign.flatten, List.all_append, List.all_cons, Bool.and_eq_true, and_assoc] at ht
  simp only [Assign.norm, Assign.mapT, target_faith tg h1 hn ht.1, expr_faith v (h3 hp) hp (flatten_kwTokOk ht.2.2)]

theorem update_faith (u : Update) (hw : u.WF) (hn : u.normal = true) (hp : u.printable = true)
    (ht : u.flatten.all tokOk = true) : u.norm.mapT qc = u.mapT qc := by
  obtain ⟨tbl, setKw, as, fk, frm, wk, sel, rk, ret⟩ := u
  simp only [Update.WF, Update.normal, Update.printable, Bool.and_eq_true, List.isEmpty_iff] at hw hn hp
  simp only [Update.flatten, List.all_append, List.all_cons, List.all_nil, Bool.and_eq_true, Bool.and_true, and_assoc] at ht
  obtain ⟨h1, -, h2, h3, h4, h5, h6, h7⟩ := hw
  obtain ⟨⟨⟨⟨n1, n2⟩, n3⟩, n4⟩, n5⟩ := hn
  obtain ⟨⟨⟨⟨p1, p2⟩, p3⟩, p4⟩, p5⟩ := hp
  obtain ⟨t1, t2, t3, t4, t5, t6, t7, t8, t9⟩ := ht
  subst n3
  have hs := sep_faith Assign.WF (fun a => a.target.normal && a.value.printable) Assign.flatten (Assign.mapT qc) Assign.norm
    (fun a h1 h2 h3 => by
      simp only [Bool.and_eq_true] at h2
      exact assign_faith a h1 h2.1 h2.2 h3) as h3 (sepNormal_and _ _ _ n2 p2) t3
  have hwh := where_faith wk sel h6 p4 t6 t7
  have hr := ret_faith rk ret h7 n5 p5 t8 t9
  simp only [Update.norm, Update.mapT, head_faith (name := "UPDATE") tbl h1 n1 p1 t1 tokOk_UPDATE,
    qc_kwT (n := "SET") h2 t2 tokOk_SET, hs, from_faith frm h5 n4 p3 t5, hwh.1, hwh.2, hr.1, hr.2, List.map_nil]

-- ------------------------------------------------------------------ DELETE
theorem delete_faith (d : Delete) (hw : d.WF) (hn : d.normal = true) (hp : d.printable = true)
    (ht : d.flatten.all tokOk = true) : d.norm.mapT qc = d.mapT qc := by
  obtain ⟨kw, tables, frm, us, wk, sel, rk, ret, ok, order, lk, lim⟩ := d
  simp only [Delete.WF, Delete.normal, Delete.printable, Bool.and_eq_true] at hw hn hp
  simp only [Delete.flatten, List.all_append, List.all_cons, List.all_nil, Bool.and_eq_true, Bool.and_true, and_assoc] at ht
  obtain ⟨h1, h2, h3, h4, h5, h6, h7, h8, h9⟩ := hw
  obtain ⟨⟨⟨⟨⟨n1, n2⟩, n3⟩, n4⟩, n5⟩, n6⟩ := hn
  obtain ⟨⟨⟨⟨⟨p1, p2⟩, p3⟩, p4⟩, p5⟩, p6⟩ := hp
  obtain ⟨t1, t2, t3, t4, t5, t6, t7, t8, t9, t10, t11, t12⟩ := ht
  have hwh := where_faith wk sel h5 p3 t5 t6
  have hr := ret_faith rk ret h6 n4 p4 t7 t8
  have ho := orders_faith order h8 n5 p5 t10
  have hok : (if order.isEmpty then [] else [kwT "ORDER", kwT "BY"]).map qc = ok.map qc := by
    rcases h7 with ⟨rfl, rfl⟩ | ⟨hk, hne⟩
    · rfl
    · have : order.isEmpty = false := by cases order <;> simp_all
      simp only [this, Bool.false_eq_true, if_false, List.map_cons, List.map_nil]
      exact kwL2_faith (n1 := "ORDER") (n2 := "BY") hk t9 tokOk_ORDER tokOk_BY
  have hlim : (limitKwNorm lim).map qc = lk.map qc ∧
      (lim.map Expr.norm).map (Expr.mapT qc) = lim.map (Expr.mapT qc) := by
    rcases h9 with ⟨rfl, rfl⟩ | ⟨t, e, rfl, hk, rfl, he⟩ | ⟨hl, _⟩
    · exact ⟨rfl, rfl⟩
    · simp only [List.all_cons, List.all_nil, Bool.and_true, optPrintable, optFlat] at t11 p6 t12
      simp [limitKwNorm, qc_kwT (n := "LIMIT") hk t11 tokOk_LIMIT, expr_faith e (he p6) p6 (flatten_kwTokOk t12)]
    · simp [hl] at n6
  simp only [Delete.norm, Delete.mapT, qc_kwT (n := "DELETE") h1 t1 tokOk_DELETE, names_faith tables h2 n1 t2,
    from_faith frm h3 n2 p1 t3, head_faith (name := "USING") us h4 n3 p2 t4 tokOk_USING, hwh.1, hwh.2, hr.1, hr.2, hok, ho,
    hlim.1, hlim.2]

-- ------------------------------------------------------------------ CREATE TABLE
theorem tokOk_dialect : tokOk (kwTi DK.AUTO_INCREMENT) = true ∧ tokOk (kwTi DK.AUTOINCREMENT) = true ∧
    tokOk (kwTi DK.ASC) = true ∧ tokOk (kwTi DK.DESC) = true := by decide +kernel

theorem kwTi_isKw (k : Nat) : (kwTi k).isKw k = true := by simp [kwTi, Tok.isKw]

theorem dialect_faith (t : Tok) (k : Nat) (hk : t.isKw k = true) (ht : tokOk t = true) (hk' : tokOk (kwTi k) = true) :
    qc (dialectNorm t) = qc t := by
  unfold dialectNorm
  cases t with
  | word v q kw =>
    cases kw with
    | none => simp [Tok.isKw] at hk
    | some k' =>
      have : k' = k := by simpa [Tok.isKw] using hk
      subst this
      exact qc_of_kw (kwTi_isKw _) hk hk' ht
  | _ => simp [Tok.isKw] at hk

theorem colOpt_faith (o : ColOpt) (hw : o.WF) (hn : o.normal = true) (hp : o.printable = true)
    (ht : o.flatten.all tokOk = true) : o.norm.mapT qc = o.mapT qc := by
  cases o with
  | null t =>
    simp only [ColOpt.WF, ColOpt.flatten, List.all_cons, List.all_nil, Bool.and_true] at hw ht
    simp only [ColOpt.norm, ColOpt.mapT, qc_kwT (n := "NULL") hw ht tokOk_NULL]
  | notNull toks =>
    simp only [ColOpt.WF, ColOpt.flatten] at hw ht
    simp only [ColOpt.norm, ColOpt.mapT, ColOpt.notNull.injEq, List.map_cons, List.map_nil]
    exact kwL2_faith (n1 := "NOT") (n2 := "NULL") hw ht tokOk_NOT tokOk_NULL
  | default kw e =>
    simp only [ColOpt.WF, ColOpt.printable, ColOpt.flatten, List.all_cons, Bool.and_eq_true] at hw hp ht
    simp only [ColOpt.norm, ColOpt.mapT, qc_kwT (n := "DEFAULT") hw.1 ht.1 tokOk_DEFAULT,
      expr_faith e (hw.2 hp) hp (flatten_kwTokOk ht.2)]
  | primaryKey toks =>
    simp only [ColOpt.WF, ColOpt.flatten] at hw ht
    simp only [ColOpt.norm, ColOpt.mapT, ColOpt.primaryKey.injEq, List.map_cons, List.map_nil]
    exact kwL2_faith (n1 := "PRIMARY") (n2 := "KEY") hw ht tokOk_PRIMARY tokOk_KEY
  | unique t =>
    simp only [ColOpt.WF, ColOpt.flatten, List.all_cons, List.all_nil, Bool.and_true] at hw ht
    simp only [ColOpt.norm, ColOpt.mapT, qc_kwT (n := "UNIQUE") hw ht tokOk_UNIQUE]
  | check kw lp e rp =>
    simp only [ColOpt.WF, ColOpt.printable] at hw hp
    obtain ⟨h1, rfl, rfl, h4⟩ := hw
    simp only [ColOpt.flatten, List.all_append, List.all_cons, List.all_nil, Bool.and_eq_true, Bool.and_true, and_assoc] at ht
    simp only [ColOpt.norm, ColOpt.mapT, qc_kwT (n := "CHECK") h1 ht.1 tokOk_CHECK,
      expr_faith e (h4 hp) hp (flatten_kwTokOk ht.2.2.1)]
  | comment kw s =>
    simp only [ColOpt.WF, ColOpt.flatten, List.all_cons, List.all_nil, Bool.and_true, Bool.and_eq_true] at hw ht
    obtain ⟨h1, v, rfl⟩ := hw
    simp only [ColOpt.norm, ColOpt.mapT, qc_kwT (n := "COMMENT") h1 ht.1 tokOk_COMMENT]
  | dialect t =>
    simp only [ColOpt.WF, ColOpt.flatten, List.all_cons, List.all_nil, Bool.and_true] at hw ht
    simp only [ColOpt.norm, ColOpt.mapT, ColOpt.dialect.injEq]
    rcases hw with h | h | h | h
    · exact dialect_faith t _ h ht tokOk_dialect.1
    · exact dialect_faith t _ h ht tokOk_dialect.2.1
    · exact dialect_faith t _ h ht tokOk_dialect.2.2.1
    · exact dialect_faith t _ h ht tokOk_dialect.2.2.2
  | references kw name cols =>
    simp only [ColOpt.WF, ColOpt.normal] at hw hn
    simp only [ColOpt.flatten, List.all_append, List.all_cons, Bool.and_eq_true, and_assoc] at ht
    simp only [ColOpt.norm, ColOpt.mapT, qc_kwT (n := "REFERENCES") hw.1 ht.1 tokOk_REFERENCES,
      parenIds_faith cols hw.2 hn ht.2.2]

theorem opts_faith : ∀ (l : List ColOpt), (∀ o ∈ l, o.WF) → l.all ColOpt.normal = true → l.all ColOpt.printable = true →
    (optsFlat l).all tokOk = true → (l.map ColOpt.norm).map (ColOpt.mapT qc) = l.map (ColOpt.mapT qc) := by
  intro l
  induction l with
  | nil => intro _ _ _ _; rfl
  | cons o rest ih =>
    intro hw hn hp ht
    simp only [List.all_cons, Bool.and_eq_true, optsFlat, List.all_append] at hn hp ht
    simp only [List.map_cons, colOpt_faith o (hw o (List.mem_cons_self ..)) hn.1 hp.1 ht.1,
      ih (fun o' ho' => hw o' (List.mem_cons_of_mem _ ho')) hn.2 hp.2 ht.2]

theorem colDef_faith (cd : ColDef) (hw : cd.WF) (hn : cd.normal = true) (hp : cd.printableQ = true)
    (ht : cd.flatten.all tokOk = true) : cd.norm.mapT qc = cd.mapT qc := by
  obtain ⟨name, ty, tt, opts, dr⟩ := cd
  simp only [ColDef.WF, ColDef.normal, ColDef.tyNormal, ColDef.printableQ, Bool.and_eq_true, beq_iff_eq,
    List.isEmpty_iff] at hw hn hp
  simp only [ColDef.flatten, List.all_append, List.all_cons, Bool.and_eq_true, and_assoc] at ht
  obtain ⟨⟨n1, n2⟩, rfl⟩ := hn
  simp only [ColDef.norm, ColDef.mapT, ← n1, opts_faith opts hw n2 hp.2 ht.2.2.1, List.map_nil]

theorem create_faith (ct : CreateTable) (hw : ct.WF) (hn : ct.normal = true)
    (hp : ct.cols.all (fun p => p.1.printableQ) = true) (ht : ct.flatten.all tokOk = true) : ct.norm.mapT qc = ct.mapT qc := by
  obtain ⟨kw, temp, tk, ifne, name, lp, cols, rp⟩ := ct
  simp only [CreateTable.WF, CreateTable.normal, Bool.and_eq_true, Bool.not_eq_true'] at hw hn hp
  simp only [CreateTable.flatten, List.all_append, List.all_cons, Bool.and_eq_true, and_assoc] at ht
  obtain ⟨h1, h2, h3, h4, h5, h6⟩ := hw
  obtain ⟨⟨n1, n2⟩, n3⟩ := hn
  obtain ⟨t1, t2, t3, t4, t5, t6, t7, t8⟩ := ht
  have hs := sep_faith ColDef.WF (fun cd => cd.normal && cd.printableQ) ColDef.flatten (ColDef.mapT qc) ColDef.norm
    (fun cd h1 h2 h3 => by
      simp only [Bool.and_eq_true] at h2
      exact colDef_faith cd h1 h2.1 h2.2 h3) cols h6 (sepNormal_and _ _ _ n3 hp) t7
  have htemp : (if temp.isEmpty then [] else [kwT "TEMPORARY"]).map qc = temp.map qc := by
    rcases h2 with rfl | ⟨t, rfl, _⟩
    · rfl
    · simp only [List.all_cons, List.all_nil, Bool.and_true] at n1 t2
      simp [qc_kwT (n := "TEMPORARY") n1 t2 tokOk_TEMPORARY]
  have hif : (if ifne.isEmpty then [] else [kwT "IF", kwT "NOT", kwT "EXISTS"]).map qc = ifne.map qc := by
    rcases h4 with rfl | h
    · rfl
    · have : ifne.isEmpty = false := by
        have := isKwL_length h
        cases ifne <;> simp_all
      simp only [this, Bool.false_eq_true, if_false, List.map_cons, List.map_nil]
      exact kwL3_faith (n1 := "IF") (n2 := "NOT") (n3 := "EXISTS") h t4 tokOk_IF tokOk_NOT tokOk_EXISTS
  have hpar : lp = [.sym .LParen] ∧ rp = [.sym .RParen] := by
    rcases h5 with ⟨rfl, _, _⟩ | h
    · simp at n2
    · exact h
  obtain ⟨rfl, rfl⟩ := hpar
  simp only [CreateTable.norm, CreateTable.mapT, qc_kwT (n := "CREATE") h1 t1 tokOk_CREATE, htemp,
    qc_kwT (n := "TABLE") h3 t3 tokOk_TABLE, hif, hs]

-- ------------------------------------------------------------------ DROP TABLE
theorem drop_faith (d : Drop) (hw : d.WF) (hn : d.normal = true) (ht : d.flatten.all tokOk = true) :
    d.norm.mapT qc = d.mapT qc := by
  obtain ⟨kw, tk, ie, names, ca, re, pu⟩ := d
  simp only [Drop.WF, Drop.normal] at hw hn
  simp only [Drop.flatten, List.all_append, List.all_cons, Bool.and_eq_true, and_assoc] at ht
  obtain ⟨h1, h2, h3, h4, h5, h6, h7⟩ := hw
  obtain ⟨t1, t2, t3, t4, t5, t6, t7⟩ := ht
  have hif : (if ie.isEmpty then [] else [kwT "IF", kwT "EXISTS"]).map qc = ie.map qc := by
    rcases h3 with rfl | h
    · rfl
    · have : ie.isEmpty = false := by
        have := isKwL_length h
        cases ie <;> simp_all
      simp only [this, Bool.false_eq_true, if_false, List.map_cons, List.map_nil]
      exact kwL2_faith (n1 := "IF") (n2 := "EXISTS") h t3 tokOk_IF tokOk_EXISTS
  simp only [Drop.norm, Drop.mapT, qc_kwT (n := "DROP") h1 t1 tokOk_DROP, qc_kwT (n := "TABLE") h2 t2 tokOk_TABLE, hif,
    names_faith names h4 hn t4, optKw_faith (n := "CASCADE") ca h5 t5 tokOk_CASCADE,
    optKw_faith (n := "RESTRICT") re h6 t6 tokOk_RESTRICT, optKw_faith (n := "PURGE") pu h7 t7 tokOk_PURGE]

-- ------------------------------------------------------------------ statements
/-- **faithfulness**: for a tree the statement parser can build (`WF`), printable, of normal shape and
made of lexer-like tokens, the printed normal form has the same image, slot by slot -/
theorem stmt_faith (s : Stmt) (hw : s.WF) (hn : s.normal = true) (hp : s.printableQ = true)
    (ht : s.flatten.all tokOk = true) : s.norm.mapT qc = s.mapT qc := by
  cases s with
  | query src => simp only [Stmt.norm, Stmt.mapT, source_faith src hw hn hp ht]
  | insert i => simp only [Stmt.norm, Stmt.mapT, insert_faith i hw hn hp ht]
  | update u => simp only [Stmt.norm, Stmt.mapT, update_faith u hw hn hp ht]
  | delete d => simp only [Stmt.norm, Stmt.mapT, delete_faith d hw hn hp ht]
  | createTable ct => simp only [Stmt.norm, Stmt.mapT, create_faith ct hw hn hp ht]
  | drop d => simp only [Stmt.norm, Stmt.mapT, drop_faith d hw hn ht]

end SqlVerif.Dml

import SqlVerif.Lemmas.DdlExt
import SqlVerif.Props.C11Dml
/-!
# C11 on the second statement fragment — CREATE VIEW / CREATE INDEX / ALTER TABLE / TRUNCATE / DROP are local, scripts of them (and of the first fragment) concatenate

`Model/Ddl.lean` mirrors `parse_statement` → `parse_create` → `parse_create_view` /
`parse_create_index`, `parse_alter` → `parse_alter_table_operation`, `parse_truncate`, `parse_drop`
(kinds other than TABLE) on real tokens and hands every other statement to the statement model of
`Model/Dml.lean` (stream `ddl`: S-expressions and `to_string()` against the real
`parse_statements()`, all 13 dialects, both values of the trailing-comma option).  For EVERY
configuration record, fuel, recursion limit and token list:

* `ddl_yield`: a successful statement parse consumes a prefix of the tokens — exactly the tokens
  the returned tree keeps (`Stmt.flatten`);
* `ddl_local`: if the modelled statement parser accepts the text `s` completely, it is *local* on
  `s` (`SqlVerif.Stmts.LocalOn`): followed by EOF or by `;` and anything else it returns the same
  tree and stops exactly in front of the `;` (`ddl_semi` is the same for a statement that stops
  earlier).  Proof: every parser function of the model repeats a successful run when `; …` is
  appended (`Lemmas/DdlExt.lean`, on top of `Lemmas/DmlExt.lean`);
* `script_concat_ddl`: hence (`script_concat` of `Props/C11.lean`) a script
  `;* s₁ ;+ s₂ ;+ … sₙ ;*` of accepted statements of BOTH fragments, in any separator layout, parses
  — with the REAL loop model `parseStatements` around the statement model — to `[a₁, …, aₙ]`.

Partial: the statement kinds of the two fragments; the other statement parsers are decided by the
follower oracle on the real code.
-/
namespace SqlVerif.Props.C11Ddl
open SqlVerif.Pratt SqlVerif.Query SqlVerif.Dml SqlVerif.Ddl SqlVerif.Stmts

/-- **yield**: a successful statement parse consumes a prefix of the tokens: `ts = pre ++ rest`,
and `pre` is the in-order token yield of the returned tree -/
theorem ddl_yield (c : XCfg) (fuel limit : Nat) (ts : List Tok) (s : Ddl.Stmt) (rest : List Tok)
    (h : Ddl.parseStmt c fuel limit ts = .ok (s, rest)) : ∃ pre, ts = pre ++ rest ∧ pre = s.flatten :=
  ⟨s.flatten, Ddl.parseStmt_yield c fuel limit ts s rest h, rfl⟩

/-- a statement parsed on `pre` completely is parsed identically on `pre ++ ; :: anything` -/
theorem ddl_semi (c : XCfg) (fuel limit : Nat) (pre : List Tok) (s : Ddl.Stmt) (anything : List Tok)
    (h : Ddl.parseStmt c fuel limit pre = .ok (s, [])) :
    Ddl.parseStmt c fuel limit (pre ++ semi :: anything) = .ok (s, semi :: anything) := by
  simpa using Ddl.parseStmt_semi c anything fuel limit pre s [] h

/-- the general form: a statement that stops in front of `rest` stops there in front of `rest ++ ; …` too -/
theorem ddl_semi_rest (c : XCfg) (fuel limit : Nat) (ts : List Tok) (s : Ddl.Stmt) (rest anything : List Tok)
    (h : Ddl.parseStmt c fuel limit ts = .ok (s, rest)) :
    Ddl.parseStmt c fuel limit (ts ++ semi :: anything) = .ok (s, rest ++ semi :: anything) :=
  Ddl.parseStmt_semi c anything fuel limit ts s rest h

/-- **the modelled statement parser is local** on every statement text it accepts completely -/
theorem ddl_local (c : XCfg) (fuel limit : Nat) (s : List Tok) (a : Ddl.Stmt)
    (h : Ddl.parseStmt c fuel limit s = .ok (a, [])) :
    LocalOn stmtClass (Ddl.parseStmt c fuel limit) s a := by
  intro fo hf
  rcases hf with rfl | ⟨t, r, rfl, ht⟩
  · simpa using h
  · rw [SqlVerif.Props.C11Dml.isSemi_eq ht]
    exact ddl_semi c fuel limit s a r h

/-- an accepted statement text begins a statement -/
theorem ddl_starts (c : XCfg) (fuel limit : Nat) (s : List Tok) (a : Ddl.Stmt) (rest : List Tok)
    (h : Ddl.parseStmt c fuel limit s = .ok (a, rest)) : StartsStmt stmtClass s := by
  obtain ⟨t, r, hs, hn⟩ := Ddl.parseStmt_starts c fuel limit s a rest h
  exact ⟨t, r, hs, hn⟩

/-- **a script of modelled statements parses to the list of their trees**, whatever the layout of
separators (leading, trailing, repeated `;`) -/
theorem script_concat_ddl (c : XCfg) (fuel limit : Nat) (items : List (List Tok × Ddl.Stmt × List Tok))
    (sep0 : List Tok) (hs0 : AllSemis stmtClass sep0) (hsep : ∀ it ∈ items, AllSemis stmtClass it.2.2)
    (hacc : ∀ it ∈ items, Ddl.parseStmt c fuel limit it.1 = .ok (it.2.1, []))
    (hinner : InnerSepsNonEmpty (items.map fun it => (it.1, it.2.2))) :
    Ddl.parseScript c fuel limit (script sep0 (items.map fun it => (it.1, it.2.2))) = .ok (items.map (·.2.1)) :=
  SqlVerif.Props.C11.script_concat stmtClass (Ddl.parseStmt c fuel limit) items sep0 hs0 hsep
    (fun it hit => ddl_starts c fuel limit _ _ _ (hacc it hit))
    (fun it hit => ddl_local c fuel limit _ _ (hacc it hit)) hinner

/-- the fragment extends the first one: what `Model/Dml.lean` accepts and is not one of the new
statement kinds is accepted with the same tree -/
theorem ddl_extends_dml (c : XCfg) (fuel limit : Nat) (t : Tok) (r : List Tok) (s : Dml.Stmt) (rest : List Tok)
    (hc : t.isKw XK.CREATE = false) (ha : t.isKw XK.ALTER = false) (htr : t.isKw XK.TRUNCATE = false)
    (hd : t.isKw XK.DROP = false) (h : Dml.parseStmt c.d fuel limit (t :: r) = .ok (s, rest)) :
    Ddl.parseStmt c fuel limit (t :: r) = .ok (.dml s, rest) := by
  cases limit with
  | zero => simp [Dml.parseStmt] at h
  | succ d => simp [Ddl.parseStmt, hc, ha, htr, hd, h, mapRes]

-- ------------------------------------------------------------------ non-vacuity
section Examples
open SqlVerif.Gen
def g : XCfg := XCfg.ofRow dialect_generic
def pg : XCfg := XCfg.ofRow dialect_postgresql
def wd (s : String) : Tok := .word (str s) none none
def kw (s : String) : Tok := .word (str s) none (some (kwIndex s))
def num (s : String) : Tok := .number (str s) false
def lp : Tok := .sym .LParen
def rp : Tok := .sym .RParen
def cm : Tok := .sym .Comma

/-- `CREATE OR REPLACE VIEW s.v (a, b) AS SELECT x, 1 FROM t WHERE y > 2` -/
def s1 : List Tok :=
  [kw "CREATE", kw "OR", kw "REPLACE", kw "VIEW", wd "s", .sym .Period, wd "v", lp, wd "a", cm, wd "b", rp, kw "AS",
   kw "SELECT", wd "x", cm, num "1", kw "FROM", wd "t", kw "WHERE", wd "y", .sym .Gt, num "2"]
/-- `CREATE UNIQUE INDEX IF NOT EXISTS i ON t USING btree (a DESC, b + 1 NULLS LAST) INCLUDE (c) NULLS NOT DISTINCT WHERE d` -/
def s2 : List Tok :=
  [kw "CREATE", kw "UNIQUE", kw "INDEX", kw "IF", kw "NOT", kw "EXISTS", wd "i", kw "ON", wd "t", kw "USING", wd "btree", lp,
   wd "a", kw "DESC", cm, wd "b", .sym .Plus, num "1", kw "NULLS", kw "LAST", rp, kw "INCLUDE", lp, wd "c", rp,
   kw "NULLS", kw "NOT", kw "DISTINCT", kw "WHERE", wd "d"]
/-- `ALTER TABLE IF EXISTS t ADD COLUMN a INT NOT NULL, DROP b CASCADE, RENAME c TO d, ALTER COLUMN e SET DEFAULT 1, RENAME TO u` -/
def s3 : List Tok :=
  [kw "ALTER", kw "TABLE", kw "IF", kw "EXISTS", wd "t", kw "ADD", kw "COLUMN", wd "a", kw "INT", kw "NOT", kw "NULL", cm,
   kw "DROP", wd "b", kw "CASCADE", cm, kw "RENAME", wd "c", kw "TO", wd "d", cm,
   kw "ALTER", kw "COLUMN", wd "e", kw "SET", kw "DEFAULT", num "1", cm, kw "RENAME", kw "TO", wd "u"]
/-- `TRUNCATE TABLE t, s.u RESTART IDENTITY CASCADE` -/
def s4 : List Tok :=
  [kw "TRUNCATE", kw "TABLE", wd "t", cm, wd "s", .sym .Period, wd "u", kw "RESTART", kw "IDENTITY", kw "CASCADE"]
/-- `DROP VIEW IF EXISTS a, s.b CASCADE` -/
def s5 : List Tok :=
  [kw "DROP", kw "VIEW", kw "IF", kw "EXISTS", wd "a", cm, wd "s", .sym .Period, wd "b", kw "CASCADE"]
/-- `INSERT INTO t VALUES (1)` (a statement of the first fragment) -/
def s6 : List Tok := [kw "INSERT", kw "INTO", wd "t", kw "VALUES", lp, num "1", rp]

def accepts (s : List Tok) : Bool := match Ddl.parseStmt g 400 50 s with | .ok (_, []) => true | _ => false

example : accepts s1 = true ∧ accepts s2 = true ∧ accepts s3 = true ∧ accepts s4 = true ∧ accepts s5 = true ∧
    accepts s6 = true := by
  decide +kernel

/-- the script `; s1 ;; s2 ; s5 ; s6` parses to the four trees, the tokens of each statement are its
yield, and `s4 s5` without a separator is rejected by the loop -/
example :
    (match Ddl.parseScript g 400 50 ([semi] ++ s1 ++ [semi, semi] ++ s2 ++ [semi] ++ s5 ++ [semi] ++ s6),
        Ddl.parseStmt g 400 50 s1, Ddl.parseStmt g 400 50 s2, Ddl.parseStmt g 400 50 s5, Ddl.parseStmt g 400 50 s6 with
     | .ok [a, b, d, e], .ok (a', []), .ok (b', []), .ok (d', []), .ok (e', []) =>
       a == a' && b == b' && d == d' && e == e' && a.flatten == s1 && b.flatten == s2 && d.flatten == s5 && e.flatten == s6
     | _, _, _, _, _ => false) = true ∧
    (match Ddl.parseScript g 400 50 (s4 ++ s5) with | .error .expectedEnd => true | _ => false) = true := by
  decide +kernel

/-- `ddl_yield` on a statement that stops early: `ALTER TABLE t DROP a b` consumes `ALTER TABLE t DROP a`;
and the swallowed keywords belong to the yield: PostgreSQL reads `ALTER TABLE t DROP PRIMARY KEY a`
as dropping the column `a` and keeps all six tokens -/
example :
    (match Ddl.parseStmt g 100 50 [kw "ALTER", kw "TABLE", wd "t", kw "DROP", wd "a", wd "b"] with
     | .ok (s, rest) => s.flatten == [kw "ALTER", kw "TABLE", wd "t", kw "DROP", wd "a"] && rest == [wd "b"]
     | _ => false) = true ∧
    (match Ddl.parseStmt pg 100 50 [kw "ALTER", kw "TABLE", wd "t", kw "DROP", kw "PRIMARY", kw "KEY", wd "a"] with
     | .ok (.alterTable a, []) =>
       a.ops.map (·.1) == [.dropColumn (kw "DROP") [kw "PRIMARY", kw "KEY"] [] [] (wd "a") []] &&
         (Ddl.Stmt.alterTable a).flatten.length == 7
     | _ => false) = true := by decide +kernel
end Examples

/-- The full property: every statement kind of every dialect is local (not proved: only the
statement kinds of the two fragments are modelled; the rest is searched by the follower oracle). -/
def FullStatement : Prop :=
  ∀ (ps : List Tok → Except Err (Ddl.Stmt × List Tok)) (s : List Tok) (a : Ddl.Stmt),
    ps s = .ok (a, []) → LocalOn stmtClass ps s a

end SqlVerif.Props.C11Ddl

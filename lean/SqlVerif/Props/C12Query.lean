import SqlVerif.Lemmas.QueryLimit
import SqlVerif.Lemmas.DmlLimit
import SqlVerif.Props.C12
/-!
# C12 on the query and statement models — the recursion limit only surfaces as the limit error

Models: `Model/Query.lean` (`parse_statement` → `parse_query` → `parse_query_body` / `parse_select` /
`parse_table_and_joins` / `parse_table_factor`, stream `queries`) and `Model/Dml.lean` (`parse_statement`
for queries / `VALUES` / `INSERT` / `UPDATE` / `DELETE` / `CREATE TABLE` / `DROP TABLE`, stream `dml`;
column types through `Model/DataType.lean`), each with the loop of `parse_statements`
(`Model/Stmts.lean`).  The expression layer (`Model/Pratt.lean`) is `Props/C12.lean`.

For EVERY configuration record, EVERY fuel and EVERY token list:

* `*_limit_only_rle` (the property itself): for limits `L ≤ L'` the outcome under `L` is `Err.rle` or is
  *identical* (same tree and rest, or same error) to the outcome under `L'`.
* `*_limit_monotone`: a tree accepted under `L` is the tree under every `L' ≥ L`;
  `*_limit_ok_below`: a tree accepted under `L'` is, under a smaller `L`, the same tree or exactly
  `Err.rle`; `*_limit_error_is_real`: a syntax error reported under `L` is the error under every larger
  limit.
* `limit_irrelevant_above` / `dml_limit_irrelevant_above` (and the script / expression forms): with

      limitBound ts = ts.length + 3        (expressions: `ts.length + 2`)

  every limit `≥ limitBound ts` gives the same outcome, and that outcome is never `Err.rle`
  (`*_never_rle_above`): every recursion level a run holds is paid for by a consumed token (`(`,
  prefix / infix operator, `,`, `SELECT`, table name …), except the levels of `parse_statement`,
  `parse_query` / `parse_subexpr` and the free level `parse_prefix` needs.  The limit cannot matter
  beyond the nesting a text of that length can contain.

How the models thread the depth (`Lemmas/QueryLimit.lean`, `Lemmas/DmlLimit.lean`): `parseStatement` /
`parseStmt`, `parseQuery`, `valuesQuery`, `parseSubexpr` hold a level (`d + 1 ↦ d`); `fromItems` /
`factorPart` (`parse_table_factor`) test `d = 0` and hand `d - 1` to the derived-table query;
`parsePrefix`, `infixHead` (`::`) and `DTy.parseDataType` test `d = 0` only; every other function
passes `d` through.

**No swallowing site in the models.**  The three places where the real code discards an error
(`maybe_parse(parse_derived_table_factor)` in `parse_table_factor` — twice in the models: `fromItems`
and `factorPart` —, `parse_optional_table_alias` behind it, the DuckDB `STRUCT(` body) are modelled with
an explicit `.error .rle => .error .rle` arm in front of the `.error _ => .error .unsupported` arm
(CURRENT `maybe_parse` passes `RecursionLimitExceeded` on); column types with recursive heads are
outside the statement fragment (the whole data-type parser is limit-monotone on its own:
`datatype_limit_only_rle`).  Hence the positive theorems need NO side condition, and no negative
witness exists for these models (a model of the OLD `maybe_parse` would fail exactly as
`C12.spec_limit_swallowed_*` show).  Whole grammar: oracle `C12` on the real code.
-/
namespace SqlVerif.Props.C12Query
open SqlVerif.Pratt SqlVerif.Query SqlVerif.Gen
open SqlVerif.Dml (DCfg Stmt parseStmt)

/-- a limit beyond which the recursion guard cannot fire on `ts` -/
def limitBound (ts : List Tok) : Nat := ts.length + 3

-- ------------------------------------------------------------------ (b) the property: queries
/-- **C12 for query statements**: the outcome under `L` is the limit error or the outcome under any `L' ≥ L` -/
theorem query_limit_only_rle (c : QCfg) (fuel L L' : Nat) (ts : List Tok) (h : L ≤ L') :
    parseStatement c fuel L ts = .error .rle ∨ parseStatement c fuel L ts = parseStatement c fuel L' ts :=
  parseStatement_lim c fuel h ts

/-- the same for the six functions of the query layer's mutual block (remaining depths `d ≤ d'`) -/
theorem query_limit_only_rle_all (c : QCfg) (fuel d d' : Nat) (h : d ≤ d') :
    (∀ ts, parseQuery c fuel d ts = .error .rle ∨ parseQuery c fuel d ts = parseQuery c fuel d' ts) ∧
    (∀ p ts, queryBody c fuel d p ts = .error .rle ∨ queryBody c fuel d p ts = queryBody c fuel d' p ts) ∧
    (∀ e p ts, remaining c fuel d e p ts = .error .rle ∨ remaining c fuel d e p ts = remaining c fuel d' e p ts) ∧
    (∀ s ts, parseSelect c fuel d s ts = .error .rle ∨ parseSelect c fuel d s ts = parseSelect c fuel d' s ts) ∧
    (∀ cn ts, fromItems c fuel d cn ts = .error .rle ∨ fromItems c fuel d cn ts = fromItems c fuel d' cn ts) ∧
    (∀ b ts, fromRest c fuel d b ts = .error .rle ∨ fromRest c fuel d b ts = fromRest c fuel d' b ts) :=
  qlim_mono_all c fuel d d' h

/-- (a) **raising the limit never changes a successful result** -/
theorem query_limit_monotone (c : QCfg) (fuel L L' : Nat) (ts : List Tok) (r : Query × List Tok) (h : L ≤ L')
    (hr : parseStatement c fuel L ts = .ok r) : parseStatement c fuel L' ts = .ok r := by
  rcases query_limit_only_rle c fuel L L' ts h with h1 | h1
  · rw [hr] at h1; cases h1
  · rw [← h1, hr]

/-- no limit pressure: an outcome that is not the limit error is the outcome under every larger limit -/
theorem query_limit_stable (c : QCfg) (fuel L L' : Nat) (ts : List Tok) (h : L ≤ L')
    (hr : parseStatement c fuel L ts ≠ .error .rle) : parseStatement c fuel L' ts = parseStatement c fuel L ts :=
  ((query_limit_only_rle c fuel L L' ts h).resolve_left hr).symm

/-- (b) a text that parses under `L'` gives, under a smaller limit, the same tree or exactly the
limit error — never a different tree, never a syntax error -/
theorem query_limit_ok_below (c : QCfg) (fuel L L' : Nat) (ts : List Tok) (r : Query × List Tok) (h : L ≤ L')
    (hr : parseStatement c fuel L' ts = .ok r) :
    parseStatement c fuel L ts = .ok r ∨ parseStatement c fuel L ts = .error .rle := by
  rcases query_limit_only_rle c fuel L L' ts h with h1 | h1
  · exact Or.inr h1
  · exact Or.inl (by rw [h1, hr])

/-- a syntax error reported under a small limit is the syntax error of every larger limit -/
theorem query_limit_error_is_real (c : QCfg) (fuel L L' : Nat) (ts : List Tok) (msg : W) (h : L ≤ L')
    (he : parseStatement c fuel L ts = .error (.syntax msg)) : parseStatement c fuel L' ts = .error (.syntax msg) := by
  rw [query_limit_stable c fuel L L' ts h (by simp [he]), he]

-- ------------------------------------------------------------------ (c) statements (INSERT / UPDATE / DELETE / CREATE / DROP)
/-- **C12 for the statement model** -/
theorem dml_limit_only_rle (c : DCfg) (fuel L L' : Nat) (ts : List Tok) (h : L ≤ L') :
    parseStmt c fuel L ts = .error .rle ∨ parseStmt c fuel L ts = parseStmt c fuel L' ts :=
  SqlVerif.Dml.parseStmt_lim c fuel h ts

theorem dml_limit_monotone (c : DCfg) (fuel L L' : Nat) (ts : List Tok) (r : Stmt × List Tok) (h : L ≤ L')
    (hr : parseStmt c fuel L ts = .ok r) : parseStmt c fuel L' ts = .ok r := by
  rcases dml_limit_only_rle c fuel L L' ts h with h1 | h1
  · rw [hr] at h1; cases h1
  · rw [← h1, hr]

theorem dml_limit_stable (c : DCfg) (fuel L L' : Nat) (ts : List Tok) (h : L ≤ L')
    (hr : parseStmt c fuel L ts ≠ .error .rle) : parseStmt c fuel L' ts = parseStmt c fuel L ts :=
  ((dml_limit_only_rle c fuel L L' ts h).resolve_left hr).symm

theorem dml_limit_ok_below (c : DCfg) (fuel L L' : Nat) (ts : List Tok) (r : Stmt × List Tok) (h : L ≤ L')
    (hr : parseStmt c fuel L' ts = .ok r) :
    parseStmt c fuel L ts = .ok r ∨ parseStmt c fuel L ts = .error .rle := by
  rcases dml_limit_only_rle c fuel L L' ts h with h1 | h1
  · exact Or.inr h1
  · exact Or.inl (by rw [h1, hr])

theorem dml_limit_error_is_real (c : DCfg) (fuel L L' : Nat) (ts : List Tok) (msg : W) (h : L ≤ L')
    (he : parseStmt c fuel L ts = .error (.syntax msg)) : parseStmt c fuel L' ts = .error (.syntax msg) := by
  rw [dml_limit_stable c fuel L L' ts h (by simp [he]), he]

/-- column types: the data-type parser on a type without a recursive head (what the statement
fragment allows) looks at the depth only in the guard of the call itself -/
theorem dml_column_type_limit_only_rle (c : DCfg) (fuel d d' : Nat) (ts : List Tok) (h : d ≤ d') :
    SqlVerif.Dml.colType c fuel d ts = .error .rle ∨
    SqlVerif.Dml.colType c fuel d ts = SqlVerif.Dml.colType c fuel d' ts :=
  SqlVerif.Dml.colType_lim c fuel h ts

/-- the WHOLE data-type parser (`Parser::parse_data_type`, every recursive arm: ARRAY / STRUCT / UNION /
MAP / NESTED / TUPLE / Nullable / LowCardinality, any nesting) is limit-monotone as well -/
theorem datatype_limit_only_rle (c : SqlVerif.DTy.Cfg) (fuel d d' : Nat) (ts : List SqlVerif.DTy.Tok) (h : d ≤ d') :
    SqlVerif.DTy.parseDataType c fuel d ts = .error .rle ∨
    SqlVerif.DTy.parseDataType c fuel d ts = SqlVerif.DTy.parseDataType c fuel d' ts :=
  SqlVerif.DTy.parseDataType_lim c fuel h ts

theorem datatype_limit_monotone (c : SqlVerif.DTy.Cfg) (fuel d d' : Nat) (ts : List SqlVerif.DTy.Tok)
    (r : SqlVerif.DTy.DT × List SqlVerif.DTy.Tok) (h : d ≤ d')
    (hr : SqlVerif.DTy.parseDataType c fuel d ts = .ok r) : SqlVerif.DTy.parseDataType c fuel d' ts = .ok r := by
  rcases datatype_limit_only_rle c fuel d d' ts h with h1 | h1
  · rw [hr] at h1; cases h1
  · rw [← h1, hr]

-- ------------------------------------------------------------------ (c) scripts
/-- **C12 for `parse_statements`** (query layer): the limit error of a script is the limit error of
one of its statements -/
theorem query_script_limit_only_rle (c : QCfg) (fuel L L' : Nat) (ts : List Tok) (h : L ≤ L') :
    Query.parseScript c fuel L ts = .error (.stmt .rle) ∨
    Query.parseScript c fuel L ts = Query.parseScript c fuel L' ts :=
  Query.parseScript_lim c fuel h ts

theorem query_script_limit_monotone (c : QCfg) (fuel L L' : Nat) (ts : List Tok) (qs : List Query) (h : L ≤ L')
    (hr : Query.parseScript c fuel L ts = .ok qs) : Query.parseScript c fuel L' ts = .ok qs := by
  rcases query_script_limit_only_rle c fuel L L' ts h with h1 | h1
  · rw [hr] at h1; cases h1
  · rw [← h1, hr]

theorem query_script_limit_ok_below (c : QCfg) (fuel L L' : Nat) (ts : List Tok) (qs : List Query) (h : L ≤ L')
    (hr : Query.parseScript c fuel L' ts = .ok qs) :
    Query.parseScript c fuel L ts = .ok qs ∨ Query.parseScript c fuel L ts = .error (.stmt .rle) := by
  rcases query_script_limit_only_rle c fuel L L' ts h with h1 | h1
  · exact Or.inr h1
  · exact Or.inl (by rw [h1, hr])

theorem dml_script_limit_only_rle (c : DCfg) (fuel L L' : Nat) (ts : List Tok) (h : L ≤ L') :
    SqlVerif.Dml.parseScript c fuel L ts = .error (.stmt .rle) ∨
    SqlVerif.Dml.parseScript c fuel L ts = SqlVerif.Dml.parseScript c fuel L' ts :=
  SqlVerif.Dml.parseScript_lim c fuel h ts

theorem dml_script_limit_monotone (c : DCfg) (fuel L L' : Nat) (ts : List Tok) (ss : List Stmt) (h : L ≤ L')
    (hr : SqlVerif.Dml.parseScript c fuel L ts = .ok ss) : SqlVerif.Dml.parseScript c fuel L' ts = .ok ss := by
  rcases dml_script_limit_only_rle c fuel L L' ts h with h1 | h1
  · rw [hr] at h1; cases h1
  · rw [← h1, hr]

theorem dml_script_limit_ok_below (c : DCfg) (fuel L L' : Nat) (ts : List Tok) (ss : List Stmt) (h : L ≤ L')
    (hr : SqlVerif.Dml.parseScript c fuel L' ts = .ok ss) :
    SqlVerif.Dml.parseScript c fuel L ts = .ok ss ∨ SqlVerif.Dml.parseScript c fuel L ts = .error (.stmt .rle) := by
  rcases dml_script_limit_only_rle c fuel L L' ts h with h1 | h1
  · exact Or.inr h1
  · exact Or.inl (by rw [h1, hr])

-- ------------------------------------------------------------------ (d) beyond the nesting a text can contain
/-- the expression parser never reports the limit once it exceeds the number of tokens by two -/
theorem expr_never_rle_above (c : Cfg) (fuel L : Nat) (ts : List Tok) (h : ts.length + 2 ≤ L) :
    parseExpr c fuel L ts ≠ .error .rle :=
  (norle_all c fuel).1 _ _ _ h

theorem expr_limit_irrelevant_above (c : Cfg) (fuel L L' : Nat) (ts : List Tok)
    (h : ts.length + 2 ≤ L) (h' : ts.length + 2 ≤ L') : parseExpr c fuel L ts = parseExpr c fuel L' ts := by
  have hB := fun m (hm : ts.length + 2 ≤ m) =>
    ((mono_all c fuel).1 (ts.length + 2) m c.prec.unknown ts hm).resolve_left
      (expr_never_rle_above c fuel _ ts (Nat.le_refl _))
  exact (hB L h).symm.trans (hB L' h')

theorem query_never_rle_above (c : QCfg) (fuel L : Nat) (ts : List Tok) (h : limitBound ts ≤ L) :
    parseStatement c fuel L ts ≠ .error .rle :=
  parseStatement_norle c fuel ts h

/-- (d) **all limits `≥ ts.length + 3` give the same outcome** (query statements) -/
theorem limit_irrelevant_above (c : QCfg) (fuel L L' : Nat) (ts : List Tok)
    (h : limitBound ts ≤ L) (h' : limitBound ts ≤ L') :
    parseStatement c fuel L ts = parseStatement c fuel L' ts := by
  rw [query_limit_stable c fuel (limitBound ts) L ts h (query_never_rle_above c fuel _ ts (Nat.le_refl _)),
      query_limit_stable c fuel (limitBound ts) L' ts h' (query_never_rle_above c fuel _ ts (Nat.le_refl _))]

theorem dml_never_rle_above (c : DCfg) (fuel L : Nat) (ts : List Tok) (h : limitBound ts ≤ L) :
    parseStmt c fuel L ts ≠ .error .rle :=
  SqlVerif.Dml.parseStmt_norle c fuel ts h

/-- (d) the same for the statement model -/
theorem dml_limit_irrelevant_above (c : DCfg) (fuel L L' : Nat) (ts : List Tok)
    (h : limitBound ts ≤ L) (h' : limitBound ts ≤ L') :
    parseStmt c fuel L ts = parseStmt c fuel L' ts := by
  rw [dml_limit_stable c fuel (limitBound ts) L ts h (dml_never_rle_above c fuel _ ts (Nat.le_refl _)),
      dml_limit_stable c fuel (limitBound ts) L' ts h' (dml_never_rle_above c fuel _ ts (Nat.le_refl _))]

theorem query_script_never_rle_above (c : QCfg) (fuel L : Nat) (ts : List Tok) (h : limitBound ts ≤ L) :
    Query.parseScript c fuel L ts ≠ .error (.stmt .rle) :=
  Query.parseScript_norle c fuel ts h

/-- (d) scripts: every statement of the script is parsed from a suffix of `ts`, so the bound of the
whole text serves all of them -/
theorem query_script_limit_irrelevant_above (c : QCfg) (fuel L L' : Nat) (ts : List Tok)
    (h : limitBound ts ≤ L) (h' : limitBound ts ≤ L') :
    Query.parseScript c fuel L ts = Query.parseScript c fuel L' ts := by
  have hB := fun m (hm : limitBound ts ≤ m) =>
    (query_script_limit_only_rle c fuel (limitBound ts) m ts hm).resolve_left
      (query_script_never_rle_above c fuel _ ts (Nat.le_refl _))
  exact (hB L h).symm.trans (hB L' h')

theorem dml_script_never_rle_above (c : DCfg) (fuel L : Nat) (ts : List Tok) (h : limitBound ts ≤ L) :
    SqlVerif.Dml.parseScript c fuel L ts ≠ .error (.stmt .rle) :=
  SqlVerif.Dml.parseScript_norle c fuel ts h

theorem dml_script_limit_irrelevant_above (c : DCfg) (fuel L L' : Nat) (ts : List Tok)
    (h : limitBound ts ≤ L) (h' : limitBound ts ≤ L') :
    SqlVerif.Dml.parseScript c fuel L ts = SqlVerif.Dml.parseScript c fuel L' ts := by
  have hB := fun m (hm : limitBound ts ≤ m) =>
    (dml_script_limit_only_rle c fuel (limitBound ts) m ts hm).resolve_left
      (dml_script_never_rle_above c fuel _ ts (Nat.le_refl _))
  exact (hB L h).symm.trans (hB L' h')

/-- the sharper thresholds of the query layer's mutual block (`n` = remaining tokens): `n + 2`, for
`queryBody` `n + 1` -/
theorem query_never_rle_above_all (c : QCfg) (fuel : Nat) :
    (∀ d ts, ts.length + 2 ≤ d → parseQuery c fuel d ts ≠ .error .rle) ∧
    (∀ d p ts, ts.length + 1 ≤ d → queryBody c fuel d p ts ≠ .error .rle) ∧
    (∀ d e p ts, ts.length + 2 ≤ d → remaining c fuel d e p ts ≠ .error .rle) ∧
    (∀ d s ts, ts.length + 2 ≤ d → parseSelect c fuel d s ts ≠ .error .rle) ∧
    (∀ d cn ts, ts.length + 2 ≤ d → fromItems c fuel d cn ts ≠ .error .rle) ∧
    (∀ d b ts, ts.length + 2 ≤ d → fromRest c fuel d b ts ≠ .error .rle) :=
  qnorle_all c fuel

/-- the models are instances of the whole-grammar statement of `Props/C12.lean` -/
theorem fullStatement_query_fragment (c : QCfg) (d : DCfg) (fuel : Nat) (ts : List Tok) :
    SqlVerif.Props.C12.FullStatement (Outcome := Query.Res Query) (· = .error .rle)
      (fun l (_ : List Nat) => parseStatement c fuel l ts) ∧
    SqlVerif.Props.C12.FullStatement (Outcome := Query.Res Stmt) (· = .error .rle)
      (fun l (_ : List Nat) => parseStmt d fuel l ts) :=
  ⟨fun n m _ h => query_limit_only_rle c fuel n m ts h, fun n m _ h => dml_limit_only_rle d fuel n m ts h⟩

-- ------------------------------------------------------------------ non-vacuity
section Examples
deriving instance DecidableEq for Except
def gq : QCfg := QCfg.ofRow dialect_generic
def gd : DCfg := DCfg.ofRow dialect_generic
def wd (s : String) : Tok := .word (str s) none none
def kw (s : String) : Tok := .word (str s) none (some (kwIndex s))
def lp : Tok := .sym .LParen
def rp : Tok := .sym .RParen
def num (s : String) : Tok := .number (str s) false
def isOk {ε α : Type} : Except ε α → Bool | .ok _ => true | _ => false
/-- `SELECT * FROM (SELECT 1) AS t` (the witness of the OLD `maybe_parse` defect) -/
def sub : List Tok := [kw "SELECT", .sym .Mul, kw "FROM", lp, kw "SELECT", num "1", rp, kw "AS", wd "t"]
/-- `INSERT INTO t SELECT * FROM (SELECT 1) AS t` -/
def ins : List Tok := [kw "INSERT", kw "INTO", wd "t"] ++ sub
/-- `UPDATE t SET a = ((1))` -/
def upd : List Tok := [kw "UPDATE", wd "t", kw "SET", wd "a", .sym .Eq, lp, lp, num "1", rp, rp]
/-- `CREATE TABLE t (a INT DEFAULT (1))` -/
def crt : List Tok := [kw "CREATE", kw "TABLE", wd "t", lp, wd "a", kw "INT", kw "DEFAULT", lp, num "1", rp, rp]
/-- `SELECT 1 WHERE ((1 1` — a syntax error behind the nesting -/
def bad : List Tok := [kw "SELECT", num "1", kw "WHERE", lp, lp, num "1", num "1"]

-- the nested subquery: every limit ≤ 5 answers `rle` (in particular 2), every limit ≥ 6 the same tree
example : (List.range 6).all (fun l => parseStatement gq 100 l sub == .error .rle) = true ∧
    isOk (parseStatement gq 100 6 sub) = true ∧
    (List.range 8).all (fun l => parseStatement gq 100 (6 + l) sub == parseStatement gq 100 6 sub) = true := by
  decide +kernel
-- … and `limitBound sub = 12`: from there on the theorem (not evaluation) gives equality, e.g. 12 vs 5000
example : parseStatement gq 100 5000 sub = parseStatement gq 100 12 sub :=
  limit_irrelevant_above gq 100 5000 12 sub (by decide) (by decide)
-- a syntax error is reported under exactly the limits that reach it
example : parseStatement gq 100 5 bad = .error .rle ∧
    parseStatement gq 100 6 bad = .error (.syntax (str "Expected: ), found: 1")) ∧
    parseStatement gq 100 60 bad = .error (.syntax (str "Expected: ), found: 1")) := by
  decide +kernel
-- statements: INSERT … SELECT needs 6 levels, UPDATE with `((1))` 5, CREATE TABLE with `DEFAULT (1)` 4
example : parseStmt gd 100 5 ins = .error .rle ∧ parseStmt gd 100 2 ins = .error .rle ∧ isOk (parseStmt gd 100 6 ins) = true ∧
    parseStmt gd 100 50 ins = parseStmt gd 100 6 ins := by
  decide +kernel
example : parseStmt gd 100 4 upd = .error .rle ∧ isOk (parseStmt gd 100 5 upd) = true := by
  decide +kernel
example : parseStmt gd 100 3 crt = .error .rle ∧ isOk (parseStmt gd 100 4 crt) = true := by
  decide +kernel
-- scripts: the second statement decides
example : Query.parseScript gq 100 5 ([kw "SELECT", num "1", .sym .SemiColon] ++ sub) = .error (.stmt .rle) ∧
    isOk (Query.parseScript gq 100 6 ([kw "SELECT", num "1", .sym .SemiColon] ++ sub)) = true := by
  decide +kernel
example : SqlVerif.Dml.parseScript gd 100 5 (upd ++ [.sym .SemiColon] ++ ins) = .error (.stmt .rle) ∧
    isOk (SqlVerif.Dml.parseScript gd 100 6 (upd ++ [.sym .SemiColon] ++ ins)) = true := by
  decide +kernel
-- column types: one level for `parse_data_type`
example : SqlVerif.Dml.colType gd 100 0 [kw "INT"] = .error .rle ∧ isOk (SqlVerif.Dml.colType gd 100 1 [kw "INT"]) = true := by
  decide +kernel
-- nested types: `ARRAY<ARRAY<INT>>` (Generic) and `STRUCT(a STRUCT(b INT))` (DuckDB) need three levels
open SqlVerif.DTy in
example :
    let gc := SqlVerif.Dml.dtCfgOfRow dialect_generic
    let duck := SqlVerif.Dml.dtCfgOfRow dialect_duckdb
    let arr : List SqlVerif.DTy.Tok := [kwTok "ARRAY" .ARRAY, LtT, kwTok "ARRAY" .ARRAY, LtT, kwTok "INT" .INT, ShrT]
    let st : List SqlVerif.DTy.Tok := [kwTok "STRUCT" .STRUCT, LParen, .word (str "a") none .noKw, kwTok "STRUCT" .STRUCT, LParen,
      .word (str "b") none .noKw, kwTok "INT" .INT, RParen, RParen]
    parseDataType gc 50 2 arr = .error .rle ∧ parseDataType gc 50 3 arr = .ok (.arrayAngle (.arrayAngle (.int .int none false)), []) ∧
    parseDataType duck 50 2 st = .error .rle ∧ isOk (parseDataType duck 50 3 st) = true := by
  decide +kernel
end Examples

end SqlVerif.Props.C12Query

import SqlVerif.Lemmas.PrintFaithful
import SqlVerif.Model.Stmts
import SqlVerif.Model.StmtsSql
/-!
# C05 — nothing the user wrote is lost, nothing invented (expression fragment + statements loop)

* `content_preserved_partial`: for every configuration, fuel, limit and token list, if the
  expression parser (`Model/Pratt.lean`) accepts a prefix `pre` of the input and returns `e`
  (printable, see `Props/C01.lean`), the sequence — hence the multiset — of content tokens
  (identifiers with their quoting, numbers, string payloads, placeholders: `contentOf`, the `Content`
  of the whole-grammar oracle) of `pre` is exactly that of the printed tokens `showToks e`
  (`Model/ExprPrint.lean`, tied to `to_string()` by stream `exprprint`): nothing lost, nothing
  invented, nothing reordered.  It is a corollary of `yield` (the tree holds exactly the consumed
  tokens) and of the printer emitting, token by token, the stored tokens up to keyword spelling.
* `content_excluded_*`: the two printable-excluded shapes that DO change the content bag on the
  current code, as kernel-checked witnesses: `ESCAPE c` (an identifier comes back as the string 'c')
  and `:"x"` (a quoted identifier comes back unquoted).
* `loop_consumes_all`: the statements loop (`Model/Stmts.lean`, stream `stmts`) returns `Ok` only
  when nothing but separators is left, or — the deviation kept visible, see `Props/C11.lean`
  `end_keyword_drops_tail` — directly after a complete statement at a word whose keyword is `END`;
  every other token is consumed by a separator skip or handed to the statement parser.

`_partial`: expression fragment and statements loop only; the whole grammar is decided by the
oracle `C05` on the real code (content bags of input and printed output under the real tokenizer).
-/
namespace SqlVerif.Props.C05
open SqlVerif.Pratt SqlVerif.Gen

/-- the content tokens of the consumed input are exactly those of the printed tree, in order -/
theorem content_preserved_partial (c : Cfg) (fuel depth p : Nat) (ts : List Tok) (e : Expr) (rest : List Tok)
    (h : parseSubexpr c fuel depth p ts = .ok (e, rest)) (hp : e.printable = true) :
    ∃ pre, ts = pre ++ rest ∧ pre.filterMap contentOf = (showToks e).filterMap contentOf :=
  ⟨e.flatten, (yield_all c fuel).1 _ _ _ _ _ h, faithful_content c fuel depth p ts e rest h hp⟩

/-- the same for a whole expression, and as a statement about multisets (`List.Perm`) -/
theorem content_preserved_expr (c : Cfg) (fuel limit : Nat) (ts : List Tok) (e : Expr)
    (h : parseExpr c fuel limit ts = .ok (e, [])) (hp : e.printable = true) :
    ts.filterMap contentOf = (showToks e).filterMap contentOf ∧
    (ts.filterMap contentOf).Perm ((showToks e).filterMap contentOf) := by
  obtain ⟨pre, h1, h2⟩ := content_preserved_partial c fuel limit c.prec.unknown ts e [] h hp
  simp at h1; subst h1
  exact ⟨h2, h2 ▸ List.Perm.refl _⟩

/-- keyword and operator tokens are not content: what the printer adds or respells is never an
identifier or a literal -/
theorem keywords_are_not_content (name : String) (s : Sym) :
    contentOf (kwT name) = none ∧ contentOf (.sym s) = none := ⟨rfl, rfl⟩

section Witnesses
def g : Cfg := Cfg.ofRow dialect_generic
def wd (s : String) : Tok := .word (str s) none none
def kw (s : String) : Tok := .word (str s) none (some (kwIndex s))
def contentIO (ts : List Tok) : Option (Bool × List Content × List Content) :=
  (parseExpr g 100 50 ts).toOption.map fun r => (r.1.printable, ts.filterMap contentOf, (showToks r.1).filterMap contentOf)

/-- non-vacuity: `"A" + 1 >= ? AND x.y LIKE 'p'` keeps its five content tokens -/
example : contentIO [.word (str "A") (some 34) none, .sym .Plus, .number (str "1") false, .sym .GtEq,
      .placeholder (str "?"), kw "AND", wd "x", .sym .Period, wd "y", kw "LIKE", .sqs (str "p")] =
    some (true,
      [.ident (str "A") (some 34), .num (str "1"), .ph (str "?"), .ident (str "x") none, .ident (str "y") none, .str (str "p")],
      [.ident (str "A") (some 34), .num (str "1"), .ph (str "?"), .ident (str "x") none, .ident (str "y") none, .str (str "p")]) := by
  decide +kernel

/-- excluded shape, current code: the bare-word operand of `ESCAPE` is printed as a string literal -/
theorem content_excluded_escape_word :
    contentIO [wd "a", kw "LIKE", wd "b", kw "ESCAPE", wd "c"] =
      some (false, [.ident (str "a") none, .ident (str "b") none, .ident (str "c") none],
                   [.ident (str "a") none, .ident (str "b") none, .str (str "c")]) := by decide +kernel

/-- a quoted placeholder name keeps its quotes (since fix 736fcf6; before, `:"x"` printed `:x` and the
quoted identifier came back unquoted).  The shape is still outside `printable` (first component false). -/
theorem content_quoted_placeholder_kept :
    contentIO [.sym .Colon, .word (str "x") (some 34) none] =
      some (false, [.ident (str "x") (some 34)], [.ident (str "x") (some 34)]) := by decide +kernel
end Witnesses

-- ------------------------------------------------------------------ statements loop
section Loop
open SqlVerif.Stmts

variable {τ α ε : Type}

/-- a successful run of the statements loop, as a derivation: the loop says `Ok` only
(`eof`) when nothing but separators is left, or (`endKw`) directly after a complete statement, with
no separator in between, at a word whose keyword is `END` — everything from there on is dropped;
every other token is consumed by a separator skip or by a statement-parser call (`step`) -/
inductive Run (c : TokClass τ) (ps : List τ → Except ε (α × List τ)) : Bool → List τ → List α → Prop
  | eof (expecting : Bool) (ts : List τ) : (dropSemis c ts).2 = [] → Run c ps expecting ts []
  | endKw (ts : List τ) (t : τ) (r : List τ) : dropSemis c ts = (false, t :: r) → c.isEndKw t = true →
      Run c ps true ts []
  | step (expecting : Bool) (ts : List τ) (t : τ) (r rest' : List τ) (a : α) (out : List α) :
      (dropSemis c ts).2 = t :: r → ((dropSemis c ts).1 = true ∨ expecting = false) →
      ps (t :: r) = .ok (a, rest') → Run c ps true rest' out → Run c ps expecting ts (a :: out)

theorem loop_run (c : TokClass τ) (ps : List τ → Except ε (α × List τ)) :
    ∀ (fuel : Nat) (expecting : Bool) (ts : List τ) (acc res : List α),
      Stmts.loop c ps fuel expecting ts acc = .ok res → ∃ out, res = acc ++ out ∧ Run c ps expecting ts out := by
  intro fuel
  induction fuel with
  | zero => intro e ts acc res h; simp [Stmts.loop] at h
  | succ fuel ih =>
    intro e ts acc res h
    simp only [Stmts.loop] at h
    cases hd : (dropSemis c ts).2 with
    | nil =>
      rw [hd] at h
      simp at h; subst h
      exact ⟨[], by simp, .eof _ _ hd⟩
    | cons t rest =>
      rw [hd] at h
      simp only at h
      cases hb : (dropSemis c ts).1 with
      | true =>
        rw [hb] at h
        simp at h
        split at h
        · simp at h
        · rename_i a rest' hps
          obtain ⟨out, rfl, hrun⟩ := ih _ _ _ _ h
          exact ⟨a :: out, by simp, .step _ _ t rest rest' a out hd (Or.inl hb) hps hrun⟩
      | false =>
        rw [hb] at h
        simp at h
        cases e with
        | true =>
          simp at h
          split at h
          · rename_i hend
            simp at h; subst h
            exact ⟨[], by simp, .endKw ts t rest (by rw [← hd, ← hb]) hend⟩
          · simp at h
        | false =>
          simp at h
          split at h
          · simp at h
          · rename_i a rest' hps
            obtain ⟨out, rfl, hrun⟩ := ih _ _ _ _ h
            exact ⟨a :: out, by simp, .step _ _ t rest rest' a out hd (Or.inr rfl) hps hrun⟩


/-- the statements loop returns `Ok` only at EOF or (block bodies) at an `END` keyword directly after a complete
statement; the statements returned are exactly those the statement parser produced on the way -/
theorem loop_consumes_all (c : TokClass τ) (ps : List τ → Except ε (α × List τ)) (ts : List τ) (res : List α)
    (h : parseStatements c ps ts = .ok res) : Run c ps false ts res := by
  obtain ⟨out, h1, h2⟩ := loop_run c ps _ _ _ _ _ h
  simp at h1; subst h1; exact h2

/-- before the first statement only EOF ends the loop: `END` alone is handed to the statement parser -/
theorem no_statement_only_at_eof (c : TokClass τ) (ps : List τ → Except ε (α × List τ)) (ts : List τ)
    (h : Run c ps false ts []) : (dropSemis c ts).2 = [] := by
  cases h with
  | eof _ _ hd => exact hd

/-- a successful run of a SCRIPT: no `endKw` case — every token is consumed by a separator skip or by
a statement-parser call -/
inductive RunScript (c : TokClass τ) (ps : List τ → Except ε (α × List τ)) : Bool → List τ → List α → Prop
  | eof (expecting : Bool) (ts : List τ) : (dropSemis c ts).2 = [] → RunScript c ps expecting ts []
  | step (expecting : Bool) (ts : List τ) (t : τ) (r rest' : List τ) (a : α) (out : List α) :
      (dropSemis c ts).2 = t :: r → ((dropSemis c ts).1 = true ∨ expecting = false) →
      ps (t :: r) = .ok (a, rest') → RunScript c ps true rest' out → RunScript c ps expecting ts (a :: out)

/-- Since the repair of the END tail-drop (fix cc0dcb4) the top-level loop uses a class that never
recognises END (`sqlClass`, `Query.stmtClass`): then `Ok` means that the WHOLE token list was consumed
— nothing is dropped by the loop. -/
theorem script_consumes_all (c : TokClass τ) (hc : ∀ t, c.isEndKw t = false)
    (ps : List τ → Except ε (α × List τ)) (ts : List τ) (res : List α)
    (h : parseStatements c ps ts = .ok res) : RunScript c ps false ts res := by
  have key : ∀ (e : Bool) (ts : List τ) (out : List α), Run c ps e ts out → RunScript c ps e ts out := by
    intro e ts out hr
    induction hr with
    | eof e ts hd => exact .eof e ts hd
    | endKw ts t r _ he => rw [hc t] at he; cases he
    | step e ts t r rest' a out hd hor hps _ ih => exact .step e ts t r rest' a out hd hor hps ih
  exact key _ _ _ (loop_consumes_all c ps ts res h)

-- non-vacuity: in a block body the END case is an instance of `Run.endKw` after one `step`; a script
-- with the same tokens is rejected, and an accepted script is a `RunScript`
example : parseStatements sqlBlockClass parseSelect [.select, .num 1, .endKw, .other] = .ok ["1"] ∧
    Run sqlBlockClass parseSelect false [.select, .num 1, .endKw, .other] ["1"] :=
  ⟨rfl, loop_consumes_all _ _ _ _ rfl⟩
example : parseStatements sqlClass parseSelect [.select, .num 1, .endKw, .other] = .error .expectedEnd := rfl
example : RunScript sqlClass parseSelect false [.select, .num 1, .semi, .endKw] ["1", "COMMIT"] :=
  script_consumes_all _ (fun _ => rfl) _ _ _ rfl
end Loop

end SqlVerif.Props.C05

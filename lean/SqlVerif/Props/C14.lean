import SqlVerif.Lemmas.CursorLemmas
/-!
# C14 — all public entry points agree on the same text (cursor half)

Entry points differ only in how the token vector reaches the cursor: `parse_sql` /
`try_with_sql` feed `tokenize_with_location`, `with_tokens` feeds the same tokens with dummy
(0,0) locations, `with_tokens_with_locations` feeds them as given.  For every program over the
cursor API the outcome is the same up to reported locations, and re-targeting a parser replaces
the whole cursor state.  That standalone `parse_expr`/`parse_data_type`/`parse_object_name` give
the embedded subtree, and that the option/state/depth fields are restored, is decided on the real
code by the route and reuse oracles.
-/
namespace SqlVerif.Props.C14
open SqlVerif.Cursor

variable {τ α : Type}

/-- tokens without locations (`with_tokens`) give the same value / the same error message / a panic
iff a panic, as tokens with locations — for every program, including no-skip ones -/
theorem with_tokens_agrees (isWs : τ → Bool) (p : Prog τ α) (T : List (TL τ)) :
    (runC isWs p ⟨eraseLocs T, 0⟩ (fun _ => 0) []).shape = (runC isWs p ⟨T, 0⟩ (fun _ => 0) []).shape :=
  runC_erase isWs p T 0 _ [] []

/-- a parser value as far as the cursor is concerned -/
structure Session (τ : Type) where
  cur : CState τ

/-- `with_tokens_with_locations`: replaces the vector and resets the index -/
def retarget (_ : Session τ) (T : List (TL τ)) : Session τ := ⟨⟨T, 0⟩⟩

/-- after any history of earlier runs, the outcome on new tokens is that of a fresh parser -/
theorem retarget_forgets (isWs : τ → Bool) (p : Prog τ α) (history : List (List (TL τ)))
    (s₀ : Session τ) (T : List (TL τ)) :
    runC isWs p (retarget (history.foldl retarget s₀) T).cur (fun _ => 0) [] =
    runC isWs p ⟨T, 0⟩ (fun _ => 0) [] := rfl

-- non-vacuity
private def mk (l : List Nat) : List (TL Nat) := l.zipIdx.map fun (t, i) => ⟨t, ⟨1, i + 1⟩⟩
example : (runC (α := Nat) (· == 0) (.next fun a => .ret (a.getD 0)) ⟨eraseLocs (mk [0, 7]), 0⟩ (fun _ => 0) []).shape
    = some (.inl 7) := by decide

def FullStatement : Prop :=
  ∀ (isWs : τ → Bool) (p : Prog τ α) (T : List (TL τ)),
    (runC isWs p ⟨eraseLocs T, 0⟩ (fun _ => 0) []).shape = (runC isWs p ⟨T, 0⟩ (fun _ => 0) []).shape

end SqlVerif.Props.C14

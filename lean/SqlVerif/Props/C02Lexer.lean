import SqlVerif.Props.C09
/-!
# C02 (lexer part) — the tokenizer terminates, does linear work and never panics

Model: `Model/Tokenizer.lean` + `Model/Scan.lean` (validated against `src/tokenizer.rs` 500-1881 by the
`tok` correspondence stream).  Every theorem holds for every `Env` (all dialect rows, both un-escape
modes, arbitrary character predicates) and every input unless a hypothesis says otherwise.

* **termination** (`tok_total`).  `tokenize`/`tokenizeSpans` are total Lean functions by construction
  (structural recursion on a fuel argument that is set to `|s| + 1`); the only way the model could
  fail to mirror a terminating run is the artificial `TokErr.fuel` outcome, and it never occurs.
* **linear work** (`tok_work_linear`, `loop_work`).  `tokLoopWork` is the loop of
  `tokenize_with_location_into_buf` instrumented with two counters: `calls` = number of calls of
  `next_token`, `chars` = characters consumed by the successful ones.  It computes the same result as
  `tokLoop`, and for EVERY outcome (success or lexical error) `calls ≤ chars + 1 ≤ |s| + 1`; on
  success `calls = #tokens + 1`, `chars = |s|`, every token consumes at least one character and the
  slice lengths add up to `|s|`.  The cost of one `next_token` call is not modelled by a counter: each
  loop inside `next_token` advances the iterator it reads and the iterator is never rewound (the one
  re-walk, 943-945, goes over the ≤ 2 characters of `exponent_part` already seen on a clone), so a
  call costs O(consumed characters + look-ahead).  Look-ahead on a clone happens at
  three places: `U&'` (810-812: 2 characters), the exponent (928-940: at most 3 characters: `e`, sign,
  one digit) and `Dialect::is_proper_identifier_inside_quotes` (886).  The last one is the constant
  `true` for every dialect but Redshift (`src/dialect/mod.rs` 137-139), where it skips a whole run of
  whitespace (`src/dialect/redshift.rs` 43-50, `Env.properIdentInsideQuotes`): unbounded for one call,
  still linear in total because the runs skipped for two different opening `"`/`[` are disjoint
  (`lookahead_window` below is the per-call fact; the summation is NOT proved here).
* **no panic**.  The panic sites of `src/tokenizer.rs` 500-1881 reachable from
  `tokenize_with_location` are
  1. `Word::matching_end_quote` (390-397, called at 890): `panic!` on a quote other than `"`, `[`,
     backquote.  This is the only `panic` of the model (`LexErr.panic` in `lexQuotedIdent`).
     `no_panic_of_delims`: it cannot fire when `is_delimited_identifier_start` accepts only those three
     characters; `builtin_delims`/`no_panic_builtin`: so it is for the 13 tabulated dialect rows.
     A user-defined `Dialect` accepting e.g. `@` does panic (`panic_reachable`).
  2. `char_clone.next().unwrap()` (929): guarded by `chars.peek() == Some(&'e') || … 'E'` (927) on the
     iterator just cloned: `exponent_peek_safe` (the character exists and is the head of the input).
     The follow-up loop `for _ in 0..exponent_part.len() { chars.next(); }` (943-945) ignores the
     `Option`, cannot panic, and skips exactly `exponent_part` because that string is an ASCII prefix
     of the input (byte length = number of characters): also `exponent_peek_safe`.
  3. `assert_eq!(ch, '\n')` (1389) in `tokenize_single_line_comment`: `line_comment_assert_safe`.
  4. `ALL_KEYWORDS_INDEX[x]` (352, in `Token::make_word`, outside 500-1881 but called for every word):
     `x` is the `Ok` index of `ALL_KEYWORDS.binary_search`, hence `< ALL_KEYWORDS.len()`, and both
     slices are expanded from the same macro repetition (`src/keywords.rs` 62-69), hence have the
     same length.  Model-level fact: `keyword_index_safe`.
  No other `unwrap()`/`expect`/`unreachable!`/`panic!`/slice indexing occurs in 500-1881
  (`grep -nE 'unwrap\(|expect\(|unreachable!|panic!|assert'`: 929 and 1389 only; the `unwrap_or`s at
  1269, 1537, 1697 are total).  Arithmetic that would panic on overflow in a debug build:
  `line += 1`/`col += 1` (513/516, `u64`: needs 2^64 characters); `num_opening_quotes += 1` (1436,
  `u8`, at most 3 iterations); `num_consecutive_quotes += 1` (1582, `u8`): in mode `One` a quote never
  reaches that arm, in mode `Many(3)` the arm at 1521 catches the quote when the counter is 2, so the
  counter stays ≤ 2 (`tripleBody`'s `n + 1 = 3` test); `nested += 1` (1606, `i32`: needs 2^31 `/*`),
  `nested -= 1` (1608) stays ≥ 0 because the loop is left when it reaches 0; `result * 16 + digit`
  (1875, `u32`, at most 6 hex digits: < 2^24); `n & 0xFF` (1744) total.  `s.pop()` (1610),
  `buf.next_back()` (1531), `u32::from_str_radix`, `char::from_u32` return `Option`/`Result`.
  There is no recursion in the tokenizer, hence no stack overflow.  Allocation failure is out of scope.
-/
namespace SqlVerif.Props.C02Lexer
open SqlVerif.Tok SqlVerif.Scan SqlVerif.Gen SqlVerif.Keywords

/-! ## 1. termination -/

/-- **tok_total**: the tokenizer model is a total function (structural recursion on fuel
`|s| + 1`) and its artificial "out of fuel" outcome never occurs: every run ends with a token list or
with an error raised by `next_token` (restates `C09.never_out_of_fuel`, and extends it to the public
`tokenize`) -/
theorem tok_total (env : Env) (s : List Nat) :
    tokenizeSpans env s ≠ .error .fuel ∧ tokenize env s ≠ .error .fuel := by
  have h := C09.never_out_of_fuel env s
  refine ⟨h, ?_⟩
  rw [C09.tokenize_forgets]
  split
  · rename_i e he
    intro hc
    simp only [Except.error.injEq] at hc
    subst hc
    exact h he
  · simp

/-- successful run and failing run of the model (errors are values, located) -/
example : (tokenize (C09.genericEnv true) C09.sample).toOption.map List.length = some 9 := by
  decide +kernel
example : C09.errOf (tokenize (C09.genericEnv true) [97, 32, 39, 98]) =
    some (.lex (str "Unterminated string literal") ⟨1, 3⟩) := by decide +kernel

/-! ## 2. linear work -/

/-- counters of the instrumented loop -/
structure Work where
  /-- calls of the token function (`next_token`), including the last one (end of input or error) -/
  calls : Nat
  /-- characters consumed by the successful calls -/
  chars : Nat
deriving Repr, DecidableEq

/-- `tokLoop` instrumented: same recursion, same result, plus the two counters, on every path -/
def tokLoopWork {T : Type} (next : List Nat → Except LexErr (Option (T × List Nat))) :
    Nat → List Nat → Loc → Except TokErr (List (Entry T)) × Work
  | 0, _, _ => (.error .fuel, ⟨0, 0⟩)
  | fuel + 1, s, loc =>
    match next s with
    | .error e => (.error (e.locate s loc), ⟨1, 0⟩)
    | .ok none => (.ok [], ⟨1, 0⟩)
    | .ok (some (t, rest)) =>
      let r := tokLoopWork next fuel rest (advance loc (consumed s rest))
      (match r.1 with
        | .error e => .error e
        | .ok ts => .ok ((t, loc, consumed s rest) :: ts),
       ⟨r.2.calls + 1, r.2.chars + (consumed s rest).length⟩)

/-- the instrumented loop computes the result of the loop, for every token function -/
theorem loop_work_result {T : Type} (next : List Nat → Except LexErr (Option (T × List Nat))) :
    ∀ (fuel : Nat) (s : List Nat) (loc : Loc),
      (tokLoopWork next fuel s loc).1 = tokLoop next fuel s loc := by
  intro fuel
  induction fuel with
  | zero => intro s loc; rfl
  | succ n ih =>
    intro s loc
    simp only [tokLoop, tokLoopWork]
    cases next s with
    | error e => rfl
    | ok o =>
      cases o with
      | none => rfl
      | some p =>
        obtain ⟨t, rest⟩ := p
        dsimp only
        rw [ih]
        cases tokLoop next n rest (advance loc (consumed s rest)) <;> rfl

/-- **loop_work**: for a token function that makes progress (`NextOK`), whatever the fuel and whatever
the outcome: `calls ≤ chars + 1` and `chars ≤ |s|` (hence `calls ≤ |s| + 1`) -/
theorem loop_work {T : Type} {next : List Nat → Except LexErr (Option (T × List Nat))}
    (h : NextOK next) : ∀ (fuel : Nat) (s : List Nat) (loc : Loc),
      (tokLoopWork next fuel s loc).2.calls ≤ (tokLoopWork next fuel s loc).2.chars + 1 ∧
      (tokLoopWork next fuel s loc).2.chars ≤ s.length := by
  intro fuel
  induction fuel with
  | zero => intro s loc; simp [tokLoopWork]
  | succ n ih =>
    intro s loc
    simp only [tokLoopWork]
    split
    · simp
    · simp
    · rename_i t rest hn
      obtain ⟨pre, hne, hs⟩ := h.progress _ _ _ hn
      subst hs
      have hp : 0 < pre.length := List.length_pos_iff.2 hne
      obtain ⟨h1, h2⟩ := ih rest (advance loc (consumed (pre ++ rest) rest))
      dsimp only
      rw [consumed_append] at h1 h2 ⊢
      refine ⟨by omega, ?_⟩
      rw [List.length_append]; omega

/-- on success the counters are exact: one call per token plus the final one that sees the end of
input, and every character is consumed -/
theorem loop_work_ok {T : Type} {next : List Nat → Except LexErr (Option (T × List Nat))}
    (h : NextOK next) : ∀ (fuel : Nat) (s : List Nat) (loc : Loc) (ts : List (Entry T)),
      tokLoop next fuel s loc = .ok ts →
      (tokLoopWork next fuel s loc).2 = ⟨ts.length + 1, s.length⟩ := by
  intro fuel
  induction fuel with
  | zero => intro s loc ts e; simp [tokLoop] at e
  | succ n ih =>
    intro s loc ts e
    rcases tokLoop_step h e with ⟨hs, ht⟩ | ⟨t, pre, rest, ts', _, hs, hn, hrec, ht⟩
    · subst hs ht
      have hnil : next [] = .ok none := by
        simp only [tokLoop] at e
        split at e
        · simp at e
        · assumption
        · split at e <;> simp at e
      simp [tokLoopWork, hnil]
    · subst hs ht
      have := ih _ _ _ hrec
      simp only [tokLoopWork, hn, consumed_append, this]
      simp only [List.length_cons, List.length_append, Work.mk.injEq, true_and]
      omega

private theorem mem_takeWhile_true (p : Nat → Bool) : ∀ (l : List Nat) (c : Nat),
    c ∈ l.takeWhile p → p c = true
  | [], _, h => by simp at h
  | a :: l, c, h => by
    by_cases ha : p a = true
    · simp only [List.takeWhile_cons, ha, ↓reduceIte, List.mem_cons] at h
      rcases h with rfl | h
      · exact ha
      · exact mem_takeWhile_true p l c h
    · simp [ha] at h

private theorem sum_slice_lengths {T : Type} : ∀ ts : List (Entry T),
    (ts.map fun x => x.slice.length).sum = (slices ts).length
  | [] => rfl
  | x :: ts => by simp [sum_slice_lengths ts]

/-- **tok_work_linear**: the instrumented tokenizer returns what `tokenizeSpans` returns, and
* for every outcome (tokens or lexical error): `calls ≤ chars + 1`, `chars ≤ |s|`, so at most
  `|s| + 1` calls of `next_token`;
* on success: `calls = #tokens + 1`, `chars = |s|`, every token consumed ≥ 1 character, and the
  lengths of the consumed slices add up to `|s|` (no character is read by two tokens). -/
theorem tok_work_linear (env : Env) (s : List Nat) :
    (tokLoopWork (nextToken env) (s.length + 1) s ⟨1, 1⟩).1 = tokenizeSpans env s ∧
    (tokLoopWork (nextToken env) (s.length + 1) s ⟨1, 1⟩).2.calls ≤
      (tokLoopWork (nextToken env) (s.length + 1) s ⟨1, 1⟩).2.chars + 1 ∧
    (tokLoopWork (nextToken env) (s.length + 1) s ⟨1, 1⟩).2.chars ≤ s.length ∧
    (tokLoopWork (nextToken env) (s.length + 1) s ⟨1, 1⟩).2.calls ≤ s.length + 1 ∧
    ∀ ts : List (Entry Token), tokenizeSpans env s = .ok ts →
      (tokLoopWork (nextToken env) (s.length + 1) s ⟨1, 1⟩).2 = ⟨ts.length + 1, s.length⟩ ∧
      (∀ x ∈ ts, 1 ≤ x.slice.length) ∧
      (ts.map fun x => x.slice.length).sum = s.length := by
  have hw := loop_work (nextToken_ok env) (s.length + 1) s ⟨1, 1⟩
  refine ⟨loop_work_result _ _ _ _, hw.1, hw.2, by omega, ?_⟩
  intro ts hts
  refine ⟨loop_work_ok (nextToken_ok env) _ _ _ _ hts, ?_, ?_⟩
  · intro x hx
    exact List.length_pos_iff.2 ((C09.progress env s ts hts).1 x hx)
  · rw [sum_slice_lengths, C09.tile env s ts hts]

/-- the bound `|s| + 1` is attained: `a b` is three one-character tokens, four calls -/
example : (tokLoopWork (nextToken (C09.genericEnv true)) 4 [97, 32, 98] ⟨1, 1⟩).2 = ⟨4, 3⟩ := by
  decide +kernel
/-- the 22 characters of the C09 sample: 9 tokens, 10 calls -/
example : (tokLoopWork (nextToken (C09.genericEnv true)) 23 C09.sample ⟨1, 1⟩).2 = ⟨10, 22⟩ := by
  decide +kernel
/-- error path: `a 'b` fails in the third call after two characters were consumed -/
example : (tokLoopWork (nextToken (C09.genericEnv true)) 5 [97, 32, 39, 98] ⟨1, 1⟩).2 = ⟨3, 2⟩ ∧
    C09.errOf (tokLoopWork (nextToken (C09.genericEnv true)) 5 [97, 32, 39, 98] ⟨1, 1⟩).1 =
      some (.lex (str "Unterminated string literal") ⟨1, 3⟩) := by decide +kernel

/-! ### look-ahead of `is_proper_identifier_inside_quotes` -/

private theorem dropWhile_run (p : Nat → Bool) : ∀ (ws : List Nat) (d : Nat) (r : List Nat),
    (∀ c ∈ ws, p c = true) → p d = false → (ws ++ d :: r).dropWhile p = d :: r
  | [], d, r, _, hd => by simp [hd]
  | w :: ws, d, r, hws, hd => by
    have hw : p w = true := hws w (List.mem_cons_self ..)
    simp only [List.cons_append, List.dropWhile_cons, hw, ↓reduceIte]
    exact dropWhile_run p ws d r (fun c hc => hws c (List.mem_cons_of_mem _ hc)) hd

/-- **lookahead_window**: the look-ahead of the delimited-identifier arm (886) reads nothing for a
dialect other than Redshift, and for Redshift exactly the quote, the whitespace run `ws` after it and
the first character `d` after the run: the text `r` behind `d` does not influence the answer -/
theorem lookahead_window (env : Env) :
    (env.isRedshift = false → ∀ s, env.properIdentInsideQuotes s = true) ∧
    (∀ (q : Nat) (ws : List Nat) (d : Nat) (r : List Nat),
      (∀ c ∈ ws, env.isWhitespace c = true) → env.isWhitespace d = false → env.isRedshift = true →
      env.properIdentInsideQuotes (q :: (ws ++ d :: r)) = env.isIdentStart d) := by
  refine ⟨fun h s => by simp [Env.properIdentInsideQuotes, h], ?_⟩
  intro q ws d r hws hd hr
  simp only [Env.properIdentInsideQuotes, hr, ↓reduceIte, List.drop_succ_cons, List.drop_zero]
  rw [dropWhile_run _ ws d r hws hd]

/-- Redshift, `[  a]`: two spaces are skipped on the clone, `a` decides -/
example : ({ C09.genericEnv true with row := dialect_redshift } : Env).properIdentInsideQuotes
    [91, 32, 32, 97, 93] = true := by decide +kernel
example : ({ C09.genericEnv true with row := dialect_redshift } : Env).properIdentInsideQuotes
    [91, 32, 32, 49, 93] = false := by decide +kernel

/-! ## 3. no panic -/

/-! ### (a) `Word::matching_end_quote` -/

private theorem np_ofScan (f : List Nat → Token) (x) (m) : ofScan f x ≠ .error (.panic m) := by
  cases x with
  | error e => simp [ofScan]
  | ok y => obtain ⟨a, b⟩ := y; simp [ofScan]

private theorem np_singleOrTriple (env q bs f g s m) :
    singleOrTriple env q bs f g s ≠ .error (.panic m) := by
  unfold singleOrTriple; split <;> simp

private theorem np_wordFrom (env f cs m) : wordFrom env f cs ≠ .error (.panic m) := by
  simp [wordFrom]

private theorem np_identOrKeyword (env f cs m) : identOrKeyword env f cs ≠ .error (.panic m) := by
  unfold identOrKeyword; dsimp only; split <;> simp

private theorem np_binop (env p d cs m) : binop env p d cs ≠ .error (.panic m) := by
  simp [binop, startBinop]

private theorem np_lineComment (p cs m) : lineComment p cs ≠ .error (.panic m) := by
  simp [lineComment]

private theorem np_lexMultiLineComment (cs m) : lexMultiLineComment cs ≠ .error (.panic m) :=
  np_ofScan _ _ _

/-- split every `match`/`if` of an unfolded branch function; no leaf is a panic -/
local macro "np_tac" : tactic =>
  `(tactic| ((repeat' split) <;>
      simp [np_ofScan, np_singleOrTriple, np_wordFrom, np_identOrKeyword, np_binop, np_lineComment,
        np_lexMultiLineComment]))

private theorem np_lexByte (env b cs m) : lexByte env b cs ≠ .error (.panic m) := by
  unfold lexByte; np_tac
private theorem np_lexRaw (env b cs m) : lexRaw env b cs ≠ .error (.panic m) := by
  unfold lexRaw; np_tac
private theorem np_lexPrefixed (env f c cs m) : lexPrefixed env f c cs ≠ .error (.panic m) := by
  unfold lexPrefixed; np_tac
private theorem np_lexEscaped (env c cs m) : lexEscaped env c cs ≠ .error (.panic m) := by
  unfold lexEscaped; np_tac
private theorem np_lexUnicode (env c cs m) : lexUnicode env c cs ≠ .error (.panic m) := by
  unfold lexUnicode; np_tac
private theorem np_lexQuote (env q f g s m) : lexQuote env q f g s ≠ .error (.panic m) := by
  unfold lexQuote; dsimp only; np_tac
private theorem np_lexNumberTail (env s2 r2 m) : lexNumberTail env s2 r2 ≠ .error (.panic m) := by
  unfold lexNumberTail; dsimp only; np_tac
private theorem np_lexNumber (env s m) : lexNumber env s ≠ .error (.panic m) := by
  unfold lexNumber; dsimp only; (repeat' split) <;> simp [np_lexNumberTail]
private theorem np_lexDollar (env cs m) : lexDollar env cs ≠ .error (.panic m) := by
  unfold lexDollar; dsimp only; np_tac
private theorem np_lexMinus (env cs m) : lexMinus env cs ≠ .error (.panic m) := by
  unfold lexMinus; np_tac
private theorem np_lexSlash (env cs m) : lexSlash env cs ≠ .error (.panic m) := by
  unfold lexSlash; np_tac
private theorem np_lexPercent (env cs m) : lexPercent env cs ≠ .error (.panic m) := by
  unfold lexPercent; np_tac
private theorem np_lexPipe (env cs m) : lexPipe env cs ≠ .error (.panic m) := by
  unfold lexPipe; np_tac
private theorem np_lexEq (cs m) : lexEq cs ≠ .error (.panic m) := by
  unfold lexEq; np_tac
private theorem np_lexBang (cs m) : lexBang cs ≠ .error (.panic m) := by
  unfold lexBang; np_tac
private theorem np_lexLt (env cs m) : lexLt env cs ≠ .error (.panic m) := by
  unfold lexLt; np_tac
private theorem np_lexGt (env cs m) : lexGt env cs ≠ .error (.panic m) := by
  unfold lexGt; np_tac
private theorem np_lexColon (cs m) : lexColon cs ≠ .error (.panic m) := by
  unfold lexColon; np_tac
private theorem np_lexAmp (env cs m) : lexAmp env cs ≠ .error (.panic m) := by
  unfold lexAmp; np_tac
private theorem np_lexCaret (cs m) : lexCaret cs ≠ .error (.panic m) := by
  unfold lexCaret; np_tac
private theorem np_lexTilde (env cs m) : lexTilde env cs ≠ .error (.panic m) := by
  unfold lexTilde; np_tac
private theorem np_lexSharp (env cs m) : lexSharp env cs ≠ .error (.panic m) := by
  unfold lexSharp; np_tac
private theorem np_lexAt (env cs m) : lexAt env cs ≠ .error (.panic m) := by
  unfold lexAt; np_tac
private theorem np_lexQuestionPg (cs m) : lexQuestionPg cs ≠ .error (.panic m) := by
  unfold lexQuestionPg; np_tac
private theorem np_lexQuestion (env cs m) : lexQuestion env cs ≠ .error (.panic m) := by
  simp [lexQuestion]

private theorem np_ite (c : Prop) [Decidable c] (a b x : Res) :
    (if c then a else b) ≠ x ↔ (c → a ≠ x) ∧ (¬ c → b ≠ x) := by
  by_cases h : c <;> simp [h]

private theorem np_lexOp (env c cs m) : lexOp env c cs ≠ .error (.panic m) := by
  unfold lexOp
  repeat' (rw [np_ite]; refine ⟨fun _ => ?_, fun _ => ?_⟩)
  all_goals
    simp [np_identOrKeyword, np_lineComment, np_lexSlash, np_lexPercent, np_lexPipe, np_lexEq, np_lexBang,
      np_lexLt, np_lexGt, np_lexColon, np_lexAmp, np_lexCaret, np_lexTilde, np_lexSharp, np_lexAt,
      np_lexQuestionPg, np_lexQuestion, np_lexDollar]

/-- the only `panic` of the model: `lexQuotedIdent` on a quote that `matchingEndQuote` rejects -/
private theorem np_lexQuotedIdent (env c cs m) (hc : c = 34 ∨ c = 91 ∨ c = 96) :
    lexQuotedIdent env c cs ≠ .error (.panic m) := by
  unfold lexQuotedIdent
  split
  · rename_i h
    rcases hc with rfl | rfl | rfl <;> simp [matchingEndQuote] at h
  · split <;> simp

private theorem np_lexHead (env : Env)
    (hd : ∀ c, env.isDelimStart c = true → c = 34 ∨ c = 91 ∨ c = 96) (c cs m) :
    lexHead env c cs ≠ .error (.panic m) := by
  unfold lexHead
  repeat' (rw [np_ite]; refine ⟨fun h => ?_, fun _ => ?_⟩)
  all_goals (try split)
  all_goals first
    | exact np_lexQuotedIdent env c cs m (hd c (by assumption : _ ∧ _).1)
    | simp [np_lexByte, np_lexRaw, np_lexPrefixed, np_lexEscaped, np_lexUnicode, np_lexQuote, np_lexNumber,
        np_lexMinus, np_lexOp]

/-- **loop_no_panic**: the loop of `tokenize_with_location` has no panic of its own: if the token
function never panics, neither does the loop (any fuel, any start location) -/
theorem loop_no_panic {T : Type} {next : List Nat → Except LexErr (Option (T × List Nat))}
    (h : ∀ s m, next s ≠ .error (.panic m)) :
    ∀ (fuel : Nat) (s : List Nat) (loc : Loc) (m : List Nat),
      tokLoop next fuel s loc ≠ .error (.panic m) := by
  intro fuel
  induction fuel with
  | zero => intro s loc m; simp [tokLoop]
  | succ n ih =>
    intro s loc m
    simp only [tokLoop]
    split
    · rename_i e he
      cases e with
      | err e => simp [LexErr.locate]
      | panic m' => exact absurd he (h s m')
    · simp
    · split
      · rename_i e he
        intro hc
        simp only [Except.error.injEq] at hc
        subst hc
        exact ih _ _ _ he
      · simp

/-- **no_panic_of_delims**: `Word::matching_end_quote` accepts exactly `"` (34), `[` (91) and
backquote (96) (`Keywords.matchingEndQuote`).  If the dialect's `is_delimited_identifier_start`
accepts no other character, then neither `next_token` nor the tokenizer panics, on any input -/
theorem no_panic_of_delims (env : Env)
    (hd : ∀ c, env.isDelimStart c = true → c = 34 ∨ c = 91 ∨ c = 96) (s m : List Nat) :
    nextToken env s ≠ .error (.panic m) ∧
    tokenizeSpans env s ≠ .error (.panic m) ∧
    tokenize env s ≠ .error (.panic m) := by
  have hn : ∀ s m, nextToken env s ≠ .error (.panic m) := by
    intro s m
    unfold nextToken
    split
    · simp
    · rename_i c cs
      split
      · rename_i e he
        intro hc
        simp only [Except.error.injEq] at hc
        subst hc
        exact np_lexHead env hd c cs m he
      · simp
  have hs : tokenizeSpans env s ≠ .error (.panic m) := loop_no_panic hn _ _ _ _
  refine ⟨hn s m, hs, ?_⟩
  rw [C09.tokenize_forgets]
  split
  · rename_i e he
    intro hc
    simp only [Except.error.injEq] at hc
    subst hc
    exact hs he
  · simp

/-- the hypothesis of `no_panic_of_delims` is exactly the domain of `matchingEndQuote` -/
theorem matchingEndQuote_dom (c : Nat) :
    (matchingEndQuote c).isSome = true ↔ c = 34 ∨ c = 91 ∨ c = 96 := by
  unfold matchingEndQuote
  constructor
  · intro h
    by_cases h1 : c = 34
    · exact Or.inl h1
    · by_cases h2 : c = 91
      · exact Or.inr (Or.inl h2)
      · by_cases h3 : c = 96
        · exact Or.inr (Or.inr h3)
        · simp [h1, h2, h3] at h
  · rintro (rfl | rfl | rfl) <;> rfl

/-- the panic message of a result, if it is a panic -/
def panicOf {α : Type} : Except LexErr α → Option (List Nat)
  | .error (.panic m) => some m
  | _ => none

/-- **panic_reachable** (the hypothesis is needed): a dialect that declares `@` a delimited
identifier start makes the model of `next_token` panic on `@a`, like the code -/
theorem panic_reachable :
    panicOf (nextToken { C09.genericEnv true with isDelimStart := fun c => c == 64 } [64, 97]) =
      some (str "unexpected quoting style!") := by decide +kernel

/-- **builtin_delims**: in the table of `is_delimited_identifier_start` on ASCII, tabulated from the
running code for each of the 13 dialects, only `"`, `[` and backquote are set -/
theorem builtin_delims : ∀ r ∈ dialects, ∀ c, c < 128 →
    r.asciiDelimStart.getD c false = true → c = 34 ∨ c = 91 ∨ c = 96 := by decide +kernel

/-- the 13 tables have 128 entries, so the same holds for every index (outside the table `getD`
answers `false`) -/
theorem builtin_delims_all : ∀ r ∈ dialects, ∀ c,
    r.asciiDelimStart.getD c false = true → c = 34 ∨ c = 91 ∨ c = 96 := by
  have hlen : ∀ r ∈ dialects, r.asciiDelimStart.length = 128 := by decide +kernel
  intro r hr c hc
  by_cases h : c < 128
  · exact builtin_delims r hr c h hc
  · have : r.asciiDelimStart.length ≤ c := by rw [hlen r hr]; omega
    simp [List.getD_eq_getElem?_getD, List.getElem?_eq_none this] at hc

/-- every built-in dialect does declare `"` or backquote (the tables are not empty) -/
example : ∀ r ∈ dialects, r.asciiDelimStart.getD 34 false = true ∨
    r.asciiDelimStart.getD 96 false = true := by decide +kernel
example : dialect_mssql.asciiDelimStart.getD 91 false = true := by decide +kernel

/-- **no_panic_builtin**: for any environment whose `is_delimited_identifier_start` agrees on ASCII
with the table of one of the 13 built-in dialects and answers `false` on every non-ASCII character,
nothing panics.

What is assumed about non-ASCII characters is `hnon`; it holds for every built-in dialect because all
implementations are disjunctions of comparisons with ASCII characters: default `"`/backquote
(`src/dialect/mod.rs` 127-129: ansi, clickhouse, duckdb, snowflake), generic.rs 26-28, hive.rs 25-27
(same), bigquery.rs 26-28, databricks.rs 29-31, mysql.rs 48-50 (backquote), postgresql.rs 63-65
(`"`), mssql.rs 25-27, redshift.rs 35-37 (`"`/`[`), sqlite.rs 36-38 (all three). -/
theorem no_panic_builtin (env : Env) (r : DialectRow) (hr : r ∈ dialects)
    (hascii : ∀ c, c < 128 → env.isDelimStart c = r.asciiDelimStart.getD c false)
    (hnon : ∀ c, 128 ≤ c → env.isDelimStart c = false) (s m : List Nat) :
    nextToken env s ≠ .error (.panic m) ∧
    tokenizeSpans env s ≠ .error (.panic m) ∧
    tokenize env s ≠ .error (.panic m) := by
  refine no_panic_of_delims env ?_ s m
  intro c hc
  by_cases h : c < 128
  · rw [hascii c h] at hc
    exact builtin_delims r hr c h hc
  · rw [hnon c (by omega)] at hc
    cases hc

/-- the Generic environment of C09 satisfies the hypotheses: it never panics, on any input -/
example (un : Bool) (s m : List Nat) : tokenize (C09.genericEnv un) s ≠ .error (.panic m) :=
  (no_panic_of_delims (C09.genericEnv un)
    (builtin_delims_all dialect_generic (List.mem_cons_self ..)) s m).2.2
example (un : Bool) (s m : List Nat) : tokenize (C09.genericEnv un) s ≠ .error (.panic m) :=
  (no_panic_builtin (C09.genericEnv un) dialect_generic (List.mem_cons_self ..) (fun _ _ => rfl)
    (fun c hc => by
      have hlen : dialect_generic.asciiDelimStart.length = 128 := by decide +kernel
      show dialect_generic.asciiDelimStart.getD c false = false
      simp [List.getD_eq_getElem?_getD, List.getElem?_eq_none (by rw [hlen]; exact hc)]) s m).2.2
/-- and delimited identifiers are really tokenized on that path: `"a"` and an unterminated one -/
example : (tokenize (C09.genericEnv true) [34, 97, 34]).toOption.map (fun ts => ts.map (·.1)) =
    some [.word ⟨[97], some 34, none⟩] := by decide +kernel
example : C09.errOf (tokenize (C09.genericEnv true) [96, 97]) =
    some (.lex (str "Expected close delimiter '`' before EOF.") ⟨1, 1⟩) := by decide +kernel

/-! ### (b) the exponent look-ahead (925-953) -/

private theorem expSign_ascii (r : List Nat) : ∀ c ∈ expSign r, c < 128 := by
  unfold expSign
  split
  · rename_i sg _
    split
    · rename_i h
      intro c hc
      simp only [List.mem_singleton] at hc
      omega
    · simp
  · simp

private theorem takeWhile_digit_ascii (l : List Nat) : ∀ c ∈ l.takeWhile isAsciiDigit, c < 128 := by
  intro c hc
  have := mem_takeWhile_true _ _ _ hc
  simp only [isAsciiDigit, decide_eq_true_eq] at this
  omega

/-- **exponent_peek_safe**.  With `part` = `exponent_part`, `s4` = the number text and `r4` = the
input left after the exponent code (925-953) ran on text `s3` and remaining input `r3`:
1. `part` is a prefix of `r3`: every character pushed to it was really there;
2. `part` is non-empty exactly when `r3` starts with `e`/`E`: the `char_clone.next().unwrap()` at 929
   is executed only under the test at 927, on a clone whose next character exists (it is then the
   head of `part` and of `r3`);
3. either nothing was consumed (`s4 = s3`, `r4 = r3`: "not an exponent, discard the work done"), or
   the exponent was committed and then exactly `part` was skipped: `s4 = s3 ++ part`,
   `r3 = part ++ r4` (the `chars.next()` loop at 943-945 and the `peeking_take_while` after it stay
   inside the input);
4. all characters of `part` are ASCII, so `exponent_part.len()` (bytes) is its number of characters,
   which is what the loop at 943 counts with. -/
theorem exponent_peek_safe (s3 r3 : List Nat) :
    (scanExponent s3 r3).1 <+: r3 ∧
    ((scanExponent s3 r3).1 ≠ [] ↔ ∃ e r, r3 = e :: r ∧ (e = 101 ∨ e = 69)) ∧
    (((scanExponent s3 r3).2.1 = s3 ∧ (scanExponent s3 r3).2.2 = r3) ∨
      ((scanExponent s3 r3).2.1 = s3 ++ (scanExponent s3 r3).1 ∧
        (scanExponent s3 r3).1 ++ (scanExponent s3 r3).2.2 = r3)) ∧
    (∀ c ∈ (scanExponent s3 r3).1, c < 128) := by
  unfold scanExponent
  split
  · simp
  · rename_i e r
    split
    · rename_i he
      have hs := expSign_split r
      have ha := expSign_ascii r
      have he' : e < 128 := by omega
      have hpre : e :: expSign r <+: e :: r :=
        ⟨r.drop (expSign r).length, by simp only [List.cons_append, hs]⟩
      dsimp only
      generalize hr : List.drop _ r = r' at hs hpre
      split
      · rename_i d r''
        split
        · refine ⟨?_, ?_, Or.inr ⟨rfl, ?_⟩, ?_⟩
          · refine ⟨List.dropWhile isAsciiDigit (d :: r''), ?_⟩
            rw [List.append_assoc, List.takeWhile_append_dropWhile]
            simp only [List.cons_append, hs]
          · simp only [List.cons_append, ne_eq, reduceCtorEq, not_false_eq_true, true_iff]
            exact ⟨e, r, rfl, he⟩
          · rw [List.append_assoc, List.takeWhile_append_dropWhile]
            simp only [List.cons_append, hs]
          · intro c hc
            simp only [List.cons_append, List.mem_cons, List.mem_append] at hc
            rcases hc with rfl | hc | hc
            · exact he'
            · exact ha c hc
            · exact takeWhile_digit_ascii _ c hc
        · refine ⟨hpre, ?_, Or.inl ⟨rfl, rfl⟩, ?_⟩
          · simp only [ne_eq, reduceCtorEq, not_false_eq_true, true_iff]
            exact ⟨e, r, rfl, he⟩
          · intro c hc
            rcases List.mem_cons.1 hc with rfl | hc
            · exact he'
            · exact ha c hc
      · refine ⟨hpre, ?_, Or.inl ⟨rfl, rfl⟩, ?_⟩
        · simp only [ne_eq, reduceCtorEq, not_false_eq_true, true_iff]
          exact ⟨e, r, rfl, he⟩
        · intro c hc
          rcases List.mem_cons.1 hc with rfl | hc
          · exact he'
          · exact ha c hc
    · rename_i he
      refine ⟨List.nil_prefix, ?_, Or.inl ⟨rfl, rfl⟩, by simp⟩
      simp only [ne_eq, not_true_eq_false, false_iff, not_exists, not_and]
      intro e' r' h
      simp only [List.cons.injEq] at h
      rw [← h.1]
      exact he

/-- `1` then `e+5;`: committed, `part = e+5`; `1` then `e+;`: discarded, `part = e+` is still a prefix;
`1` then `;`: no exponent code at all -/
example : scanExponent [49] [101, 43, 53, 59] = ([101, 43, 53], [49, 101, 43, 53], [59]) := by
  decide +kernel
example : scanExponent [49] [101, 43, 59] = ([101, 43], [49], [101, 43, 59]) := by decide +kernel
example : scanExponent [49] [59] = ([], [49], [59]) := by decide +kernel
/-- through the whole tokenizer: `1e+5;` is one number and `;`, `1e+;` is `1`, the word `e`, `+`, `;` -/
example : (tokenizeSpans (C09.genericEnv true) [49, 101, 43, 53, 59]).toOption.map
    (fun ts => ts.map fun (x : Entry Token) => x.slice) = some [[49, 101, 43, 53], [59]] := by
  decide +kernel
example : (tokenizeSpans (C09.genericEnv true) [49, 101, 43, 59]).toOption.map
    (fun ts => ts.map fun (x : Entry Token) => x.slice) = some [[49], [101], [43], [59]] := by
  decide +kernel

/-! ### (c) `assert_eq!(ch, '\n')` in `tokenize_single_line_comment` (1386-1393) -/

private theorem dropWhile_head_false (p : Nat → Bool) : ∀ (s : List Nat) (ch : Nat) (rest : List Nat),
    s.dropWhile p = ch :: rest → p ch = false
  | [], _, _, h => by simp at h
  | a :: s, ch, rest, h => by
    by_cases ha : p a = true
    · simp only [List.dropWhile_cons, ha, ↓reduceIte] at h
      exact dropWhile_head_false p s ch rest h
    · simp only [List.dropWhile_cons, ha, Bool.false_eq_true, ↓reduceIte, List.cons.injEq] at h
      rw [← h.1]
      simpa using ha

/-- **line_comment_assert_safe**.  `tokenize_single_line_comment` takes characters while they differ
from `\n` and then asserts that the next character, if there is one, is `\n`.
1. The asserted fact: whatever `chars.next()` returns after `peeking_take_while(|ch| ch != '\n')` is
   `\n` (the remaining input is `s.dropWhile (· ≠ '\n')`);
2. comment and rest split the input;
3. the comment is either the whole input, which then contains no `\n` and nothing is left, or a body
   without `\n` followed by the one `\n` consumed. -/
theorem line_comment_assert_safe (s : List Nat) :
    (∀ ch rest, s.dropWhile (fun c => c != 10) = ch :: rest → ch = 10) ∧
    (singleLineComment s).1 ++ (singleLineComment s).2 = s ∧
    ((10 ∉ s ∧ singleLineComment s = (s, [])) ∨
      ∃ body, 10 ∉ body ∧ (singleLineComment s).1 = body ++ [10]) := by
  have h1 : ∀ ch rest, s.dropWhile (fun c => c != 10) = ch :: rest → ch = 10 := by
    intro ch rest h
    simpa using dropWhile_head_false _ s ch rest h
  have hbody : 10 ∉ s.takeWhile (fun c => c != 10) := by
    intro hc
    simpa using mem_takeWhile_true _ _ _ hc
  refine ⟨h1, singleLineComment_split s, ?_⟩
  unfold singleLineComment
  split
  · rename_i h
    have hs := List.takeWhile_append_dropWhile (p := fun c => c != 10) (l := s)
    rw [h, List.append_nil] at hs
    left
    rw [hs] at hbody ⊢
    exact ⟨hbody, rfl⟩
  · rename_i c r h
    right
    exact ⟨_, hbody, by rw [h1 c r h]⟩

/-- `ab⏎c`: comment `ab⏎`, rest `c`; `ab`: comment `ab`, nothing asserted -/
example : singleLineComment [97, 98, 10, 99] = ([97, 98, 10], [99]) := by decide +kernel
example : singleLineComment [97, 98] = ([97, 98], []) := by decide +kernel
/-- through the tokenizer: `--x⏎1` -/
example : (tokenize (C09.genericEnv true) [45, 45, 120, 10, 49]).toOption.map (fun ts => ts.map (·.1)) =
    some [.whitespace (.singleLineComment [120, 10] [45, 45]), .number [49] false] := by decide +kernel

/-! ### (d) `ALL_KEYWORDS_INDEX[x]` in `Token::make_word` (352) -/

private theorem bsearchGo_bounds (table : Array W) (w : W) : ∀ (fuel lo hi i : Nat),
    bsearchGo table w fuel lo hi = some i → lo ≤ i ∧ i < hi := by
  intro fuel
  induction fuel with
  | zero => intro lo hi i h; simp [bsearchGo] at h
  | succ n ih =>
    intro lo hi i h
    simp only [bsearchGo] at h
    split at h
    · split at h
      · simp only [Option.some.injEq] at h
        omega
      · split at h
        · have := ih _ _ _ h; omega
        · have := ih _ _ _ h; omega
    · simp at h

/-- **keyword_index_safe**: the keyword index stored in a word is an index of the keyword table (the
binary search only answers positions it probed), so indexing the parallel table `ALL_KEYWORDS_INDEX`,
which has the same length, cannot be out of bounds -/
theorem keyword_index_safe (table : Array W) (upper : W → W) (word : W) (quote : Option Nat) (i : Nat)
    (h : (makeWord table upper word quote).keyword = some i) : i < table.size := by
  simp only [makeWord] at h
  split at h
  · exact (bsearchGo_bounds table _ _ _ _ _ h).2
  · simp at h

/-- `SELECT` is found, at a position inside the generated table -/
example : ((makeWord keywords (C09.genericEnv true).upper [115, 101, 108, 101, 99, 116] none).keyword.map
    fun i => decide (i < keywords.size)) = some true := by decide +kernel

end SqlVerif.Props.C02Lexer

import SqlVerif.Lemmas.ListsLemmas
import SqlVerif.Model.ListsSql
/-!
# C13 — a trailing comma is pure syntax where the option or dialect allows it

Generic theorems about `parse_comma_separated` (`Model/Lists.lean`), for every token type, every
classification of tokens into commas / list-ending tokens, every element parser `f` that is *local*
on the elements of the list (consumes exactly the element whatever admissible follower comes next)
and every fuel.  The end set of the real helper is tabulated (`Gen/Reserved.lean`).

The property's "clause keyword" is wider than the helper's end set; that gap is not a theorem but a
list of known findings produced by the oracle (`end-set-incomplete/kw:…`).
-/
namespace SqlVerif.Props.C13
open SqlVerif.Lists

variable {τ α : Type}

/-- With the option on, a trailing comma before a list-ending token (or EOF) is a no-op: same
values, cursor left at the same token, as for the text without it. -/
theorem trailing_comma_noop (c : TokClass τ) (f : List τ → Option (α × List τ)) (comma : τ)
    (hc : c.isComma comma = true) (tail : List τ) (ht : EndTail c tail)
    (es : List (List τ × α)) (hne : es ≠ [])
    (hloc : ∀ e ∈ es, LocalOn c f e.1 e.2)
    (hplain : ∀ e ∈ es.tail, StartsPlain c e.1)
    (fuel : Nat) (hfuel : es.length ≤ fuel) :
    commaSep c true f fuel (joinWith comma (es.map (·.1)) ++ comma :: tail) = some (es.map (·.2), tail) ∧
    commaSep c true f fuel (joinWith comma (es.map (·.1)) ++ tail) = some (es.map (·.2), tail) := by
  constructor
  · simpa using commaSep_join_gen c true f comma hc tail ht true (fun _ => rfl) es hne hloc
      (fun _ => hplain) fuel hfuel
  · simpa using commaSep_join_gen c true f comma hc tail ht false (by simp) es hne hloc
      (fun _ => hplain) fuel hfuel

/-- Enabling the option does not change the parse of a list without a trailing comma, provided no
element after a comma begins with a list-ending token (the documented ambiguity). -/
theorem option_inert (c : TokClass τ) (f : List τ → Option (α × List τ)) (comma : τ)
    (hc : c.isComma comma = true) (tail : List τ) (ht : EndTail c tail)
    (es : List (List τ × α)) (hne : es ≠ [])
    (hloc : ∀ e ∈ es, LocalOn c f e.1 e.2)
    (hplain : ∀ e ∈ es.tail, StartsPlain c e.1)
    (fuel : Nat) (hfuel : es.length ≤ fuel) :
    commaSep c true f fuel (joinWith comma (es.map (·.1)) ++ tail) =
    commaSep c false f fuel (joinWith comma (es.map (·.1)) ++ tail) := by
  have h1 := commaSep_join_gen c true f comma hc tail ht false (by simp) es hne hloc (fun _ => hplain) fuel hfuel
  have h2 := commaSep_join_gen c false f comma hc tail ht false (by simp) es hne hloc (by simp) fuel hfuel
  simp only [Bool.false_eq_true, ↓reduceIte] at h1 h2
  rw [h1, h2]

/-- With the option off a trailing comma is never accepted silently: the element parser is run on
what follows the comma. -/
theorem option_off_comma_continues (c : TokClass τ) (f : List τ → Option (α × List τ)) (comma : τ)
    (hc : c.isComma comma = true) (rest : List τ) : commaSepEnd c false (comma :: rest) = (false, rest) := by
  simp [commaSepEnd, hc]

/-- `parse_comma_separated0`: an immediate end token gives the empty list and consumes nothing;
with the option on, `, end` gives the empty list and consumes the comma only. -/
theorem sep0_empty [DecidableEq τ] (c : TokClass τ) (tc : Bool) (f : List τ → Option (α × List τ))
    (endTok comma : τ) (hc : c.isComma comma = true) (hne : comma ≠ endTok) (rest : List τ) (fuel : Nat) :
    commaSep0 c tc f endTok fuel (endTok :: rest) = some ([], endTok :: rest) ∧
    commaSep0 c true f endTok fuel (comma :: endTok :: rest) = some ([], endTok :: rest) := by
  simp [commaSep0, hc, hne]

/-- `parse_projection` hands back the option it was given, on success and on failure -/
theorem projection_flag_restored (c : TokClass τ) (dflag : Bool) (f : List τ → Option (α × List τ))
    (fuel : Nat) (tc : Bool) (ts : List τ) : (projection c dflag f fuel tc ts).2 = tc := rfl

/-- and it parses the projection exactly as the option `tc || dialect flag` would -/
theorem projection_uses_widened_option (c : TokClass τ) (dflag : Bool) (f : List τ → Option (α × List τ))
    (fuel : Nat) (tc : Bool) (ts : List τ) :
    (projection c dflag f fuel tc ts).1 = commaSep c (tc || dflag) f fuel ts := rfl

/-- instance for SQL tokens: identifiers are local elements -/
theorem parseIdent_local (s : List Nat) (k : Option Nat) : LocalOn sqlClass parseIdent [STok.word s k] s := by
  intro t _; rfl

-- non-vacuity on the concrete SQL instance: `a, b, )` and `a, b )` with the option on
example : commaSep sqlClass true parseIdent 5 [.word [97] none, .comma, .word [98] none, .comma, .rparen]
    = some ([[97], [98]], [.rparen]) := by decide
example : commaSep sqlClass true parseIdent 5 [.word [97] none, .comma, .word [98] none, .rparen]
    = some ([[97], [98]], [.rparen]) := by decide
-- the documented ambiguity: with the option on, a reserved word after a comma ends the list
example : ∃ k, k ∈ SqlVerif.Gen.reservedForColumnAlias ∧
    commaSep sqlClass true parseIdent 5 [.word [97] none, .comma, .word [102] (some k)] =
      some ([[97]], [.word [102] (some k)]) ∧
    commaSep sqlClass false parseIdent 5 [.word [97] none, .comma, .word [102] (some k)] =
      some ([[97], [102]], []) := by
  refine ⟨SqlVerif.Gen.reservedForColumnAlias.head!, ?_⟩
  decide

/-- The full property (not proved here): for every list position of every accepted text, with
"clause keyword" meaning any keyword that can follow the list in the grammar. -/
def FullStatement : Prop :=
  ∀ (c : TokClass τ) (f : List τ → Option (α × List τ)) (comma : τ) (tail : List τ)
    (es : List (List τ × α)) (fuel : Nat), c.isComma comma = true → es ≠ [] → es.length ≤ fuel →
    (∀ e ∈ es, LocalOn c f e.1 e.2) →
    commaSep c true f fuel (joinWith comma (es.map (·.1)) ++ comma :: tail) = some (es.map (·.2), tail)

end SqlVerif.Props.C13

import SqlVerif.Model.Tokenizer
import SqlVerif.Model.Pratt
import SqlVerif.Gen.Dialects
/-!
# C15 — behaviour depends on a dialect only through the dialect interface

The tokenizer and expression-parser models take the dialect as a record of interface values
(`DialectRow`: every capability method, the precedence table, the character predicates, and the
identity that `dialect()` reports).  There is no field for the concrete Rust type, so the models
*cannot* consult it.  `DialectRow.forward` (generated from the current trait definition) is what a
user-defined dialect does when it forwards every method to a built-in one.

The tie is what makes this meaningful: the `tok`, `prec` and `chains` streams of this check run the
REAL code under the generated forwarding wrapper `Wrapped(D)` against the model under D's own
record, so any consultation of the concrete type by the code shows up as a disagreement; the
inventory lists every `type_id()`/downcast in `src/`.
-/
namespace SqlVerif.Props.C15
open SqlVerif.Gen

/-- forwarding every capability gives back the same record -/
theorem flags_forward_eq (f : DialectFlags) : f.forward = f := by cases f; rfl

/-- a forwarding dialect that reports the inner identity has the same interface record -/
theorem row_forward_eq (r : DialectRow) : r.forward = r := by
  cases r; simp [DialectRow.forward, flags_forward_eq]

/-- … hence tokenizes every input exactly like the built-in one -/
theorem wrapped_tokenizes_alike (env : SqlVerif.Tok.Env) (s : List Nat) :
    SqlVerif.Tok.tokenize { env with row := env.row.forward } s = SqlVerif.Tok.tokenize env s := by
  rw [row_forward_eq]

/-- … and parses every token list exactly like the built-in one -/
theorem wrapped_parses_alike (r : DialectRow) (fuel limit : Nat) (ts : List SqlVerif.Pratt.Tok) :
    SqlVerif.Pratt.parseExpr (SqlVerif.Pratt.Cfg.ofRow r.forward) fuel limit ts =
    SqlVerif.Pratt.parseExpr (SqlVerif.Pratt.Cfg.ofRow r) fuel limit ts := by
  rw [row_forward_eq]

/-- interface-only dependence, stated outright: two dialect records with the same interface values
are indistinguishable for every function of the models -/
theorem interface_only {β : Type} (f : DialectRow → β) (r r' : DialectRow)
    (h : r.name = r'.name ∧ r.idx = r'.idx ∧ r.flags = r'.flags ∧ r.prec = r'.prec ∧
      r.asciiIdentStart = r'.asciiIdentStart ∧ r.asciiIdentPart = r'.asciiIdentPart ∧
      r.asciiDelimStart = r'.asciiDelimStart ∧ r.asciiCustomOp = r'.asciiCustomOp) : f r = f r' := by
  cases r; cases r'; simp_all

-- non-vacuity: the generated rows are distinct records (so "same record" is not vacuous)
example : dialect_mysql.flags ≠ dialect_ansi.flags := by decide
example : dialect_postgresql.forward = dialect_postgresql := row_forward_eq _

/-- The full property is about the real parser and tokenizer under a user-defined forwarding
dialect, for every input; beyond the modelled tokenizer/expression fragment it is decided by the
real-vs-real wrapper oracle. -/
def FullStatement : Prop := ∀ (r : DialectRow), r.forward = r

end SqlVerif.Props.C15

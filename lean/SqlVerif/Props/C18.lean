import SqlVerif.Lemmas.DataTypeRoundtrip
import SqlVerif.Lemmas.EscapeLemmas
/-!
# C18 — every data type prints to SQL that parses back

Model: `Model/DataType.lean` — `DT` mirrors `enum DataType` (every constructor; a `Nested` column is
name + type), `pre`/`retok`/`printDT` mirror `Display for DataType` followed by the lexer AT TOKEN
LEVEL (`retok` = the lexer's merge of adjacent `>` into `>>`, and into ONE custom operator for a run
of three or more where `>` is an operator character, i.e. PostgreSQL), `parseHelper`/`parseDT` mirror
`parse_data_type_helper`/`parse_data_type` branch by branch, with the recursion guard, the
`MatchedTrailingBracket` bookkeeping and the `dialect_of!` tests.  Tied to the code by the streams
`dtparse` and `dtprint`.

All theorems hold for EVERY configuration `c : Cfg` (the 13 dialects are instances), every
environment `env` (keyword class of unquoted identifiers, lexing of the custom-type modifier texts),
both values of `gtOp` (`is_custom_operator_part('>')`, true for PostgreSQL), every fuel / recursion
depth above an explicit bound in the type, and unbounded nesting depth.

* `closing_brackets_balance`  the lexer turns the printed pre-tokens of a type followed by `k` more
                       closing brackets into the compositional stream `emit`, in which each maximal
                       run of `>` is grouped on its TOTAL length;
* `helper_roundtrip`   `parse_data_type_helper` on `emit t k T` returns `t`, the trailing-bracket
                       flag `closers t odd ∧ k ≥ 1`, and exactly the unconsumed closers ++ `T`;
* `dt_roundtrip`       `Producible c env t → FollowOK t rest → parseDT c fuel depth
                       (printDT c env t ++ rest) = ok (t, rest)`, every constructor family, every
                       nesting depth (fuel ≥ `size t`, depth ≥ `ndepth t`);
* `dt_roundtrip_alone / _before_rparen / _before_comma`  the three contexts of the property;
* `dt_yield`           on a printed type the parser consumes exactly the printed tokens;
* custom-type modifiers (since the fix 085e5ea a string-literal modifier is stored in its SQL
  spelling, quotes included, like a quoted word): `string_modifier_stored_as_spelling` (what the
  parser stores), `custom_string_modifier_roundtrips` (`foo('a b')` comes back, for every payload
  whose spelling lexes to one string token of the same spelling, the doubled-quote quirk of the
  quote-doubling printer included), `string_modifier_spelling_lexes_back_partial` and
  `custom_string_modifier_roundtrips_lexer_partial` (that lexing condition discharged through the
  tokenizer model of C09 for every payload satisfying C06's `CleanQ`, any dialect row);
* negations with concrete witnesses for each way the round trip fails on the current code
  (`square_after_even_closers_differs`, `struct_then_comma_rejected`,
  `three_closers_rejected_where_gt_is_operator`, `custom_string_modifier_backslash_quote_breaks`,
  `custom_quoted_word_modifier_quote_breaks`, `datetime64_zone_quote_breaks`), for values the parser
  never returns
  (`handbuilt_modifier_splits`, `handbuilt_empty_modifier_vanishes`), and `fullStatement_false`.

`Producible` is the decidable description of what the parser returns and prints token by token:
which constructor exists under which dialect (`Array(None)` only Snowflake, `Array(Parenthesis)`
only ClickHouse, `STRUCT(…)` only DuckDB, `Unspecified` never, …), numbers within `u64`, label
lists non-empty, a custom name that is not a type keyword of the dialect, modifiers that lex to one
word, number or single-quoted-string token which the parser stores back as the modifier itself (a
word's `Display`, a number's text, the SQL spelling of a string literal: `modOK`), unnamed
struct/tuple fields whose type does not start with two words, and the
three exclusions that are DEFECTS of the code (witnessed below): a `[]` suffix after an even number
of closing angle brackets (`prod`), an angle-bracket struct closed by the second half of `>>` in
front of a comma (`prod` for inner positions, `FollowOK` for the follower), and three or more
closers in a row where `>` is an operator character (`Producible`'s `shortRuns` clause).
The label lists of `ENUM(..)` / `SET(..)` are `parse_comma_separated` lists of the parser (a trailing
comma is accepted with `ParserOptions::trailing_commas` on, `Cfg.trailingCommas`): the printed form
never has one, so the round trip holds under both values of the option; what the option changes on
other texts is C13's (`Props/C13Types.lean`).
Partial (by design of the token-level model): payload texts (identifiers, ENUM/SET labels, the
DateTime64 zone) are tokens here; that printing them yields text lexing back to that token is C06's
theorem for the payloads satisfying its predicates, and the stream `dtprint` for the rest.
-/
namespace SqlVerif.Props.C18
open SqlVerif.DTy
open SqlVerif.Pratt (W Sym str)

-- ------------------------------------------------------------------ the `>>` bookkeeping
/-- the lexer (`retok`) on the printed pre-tokens of `t` followed by `k` closing brackets of
enclosing constructs and then `post` is the compositional stream `emit t k (retok post)`: every
maximal run of `>` is regrouped by `run` on its total length, whatever the nesting (and whether or
not `>` is an operator character of the dialect) -/
theorem closing_brackets_balance (c : Cfg) (env : Env) (gtOp : Bool) (t : DT) (h : prod c env t = true) (k : Nat)
    (post : List Tok) (hp : post.head? ≠ some GtT) :
    retok gtOp (pre c env t ++ (gts k ++ post)) = emit c env gtOp t k (retok gtOp post) :=
  bridge c env gtOp t h k post hp

/-- the printed tokens followed by real tokens are the `emit` stream -/
theorem print_append (c : Cfg) (env : Env) (gtOp : Bool) (t : DT) (h : prod c env t = true) (rest : List Tok) :
    printDT c env gtOp t ++ rest = emit c env gtOp t 0 rest := by
  have := bridge c env gtOp t h 0 [] (by simp)
  rw [gts_zero, List.append_nil, retok_nil] at this
  rw [printDT, this, ← emit_append]
  rfl

/-- the helper on `t` followed by `k` outer closers: value, `MatchedTrailingBracket`, and exactly
the unconsumed closers (one fewer when a `>>` was split) followed by `T` -/
theorem helper_roundtrip (c : Cfg) (env : Env) (t : DT) (hp : prod c env t = true) (k : Nat) (T : List Tok)
    (fuel depth : Nat) (hc : Ctx false t k T) (hf : size t ≤ fuel) (hd : ndepth t ≤ depth) :
    parseHelper c fuel depth (emit c env false t k T) = .ok (t, trOf t k, remOf t k T) :=
  helper_emit c env rfl t k T fuel depth hp hc hf hd

theorem ctx_of_follow {t : DT} {rest : List Tok} (h : FollowOK t rest) : Ctx false t 0 rest := by
  intro _
  refine ⟨followC_of_followTok h.1, h.2, ?_⟩
  intro hlb
  exfalso
  apply hlb
  have h1 := h.1
  cases rest with
  | nil => rfl
  | cons x r =>
    cases x <;> try rfl
    rename_i s; cases s <;> first | rfl | simp [followTok] at h1

/-- where no three `>` meet, printing does not depend on `>` being an operator character -/
theorem print_short (c : Cfg) (env : Env) (gtOp : Bool) (t : DT) (h : shortRuns 0 (pre c env t) = true) :
    printDT c env gtOp t = printDT c env false t :=
  retokGo_short gtOp (pre c env t) 0 h

-- ------------------------------------------------------------------ the round trip
/-- MAIN THEOREM.  For every producible type, any nesting depth: parsing the printed tokens followed
by anything that cannot extend the type returns the type and leaves exactly what followed. -/
theorem dt_roundtrip (c : Cfg) (env : Env) (gtOp : Bool) (t : DT) (rest : List Tok) (fuel depth : Nat)
    (hp : Producible c env gtOp t) (hfollow : FollowOK t rest) (hf : size t ≤ fuel) (hd : ndepth t ≤ depth) :
    parseDT c fuel depth (printDT c env gtOp t ++ rest) = .ok (t, rest) := by
  have hpr : printDT c env gtOp t = printDT c env false t := by
    rcases hp.2 with h | h
    · rw [h]
    · exact print_short c env gtOp t h
  rw [hpr, print_append c env false t hp.1]
  have := helper_roundtrip c env t hp.1 0 rest fuel depth (ctx_of_follow hfollow) hf hd
  simp only [parseDT, parseDataType, this]
  simp [trOf, remOf]

/-- standing alone -/
theorem dt_roundtrip_alone (c : Cfg) (env : Env) (gtOp : Bool) (t : DT) (fuel depth : Nat)
    (hp : Producible c env gtOp t) (hf : size t ≤ fuel) (hd : ndepth t ≤ depth) :
    parseDT c fuel depth (printDT c env gtOp t) = .ok (t, []) := by
  have := dt_roundtrip c env gtOp t [] fuel depth hp ⟨rfl, by simp⟩ hf hd
  simpa using this

/-- inside a cast (`CAST(a AS t)`) or as the last column: a `)` follows -/
theorem dt_roundtrip_before_rparen (c : Cfg) (env : Env) (gtOp : Bool) (t : DT) (rest : List Tok) (fuel depth : Nat)
    (hp : Producible c env gtOp t) (hf : size t ≤ fuel) (hd : ndepth t ≤ depth) :
    parseDT c fuel depth (printDT c env gtOp t ++ RParen :: rest) = .ok (t, RParen :: rest) :=
  dt_roundtrip c env gtOp t _ fuel depth hp ⟨rfl, by simp [RParen, Comma]⟩ hf hd

/-- in a column definition followed by another column: a `,` follows.  The extra hypothesis is
necessary: see `struct_then_comma_rejected`. -/
theorem dt_roundtrip_before_comma (c : Cfg) (env : Env) (gtOp : Bool) (t : DT) (rest : List Tok) (fuel depth : Nat)
    (hp : Producible c env gtOp t) (hs : structEven t = false) (hf : size t ≤ fuel) (hd : ndepth t ≤ depth) :
    parseDT c fuel depth (printDT c env gtOp t ++ Comma :: rest) = .ok (t, Comma :: rest) :=
  dt_roundtrip c env gtOp t _ fuel depth hp ⟨rfl, by simp [hs]⟩ hf hd

/-- yield: on a printed type (followed by anything that cannot extend it) the parser consumes
exactly the printed tokens of the value it returns — the consumed prefix IS `printDT` of the
result (`INT` and `INTEGER`, `ARRAY<t>` and `t[]` are distinct constructors, so this is exact) -/
theorem dt_yield (c : Cfg) (env : Env) (gtOp : Bool) (t : DT) (rest : List Tok) (fuel depth : Nat)
    (hp : Producible c env gtOp t) (hfollow : FollowOK t rest) (hf : size t ≤ fuel) (hd : ndepth t ≤ depth) :
    ∃ t' rest', parseDT c fuel depth (printDT c env gtOp t ++ rest) = .ok (t', rest') ∧
      printDT c env gtOp t ++ rest = printDT c env gtOp t' ++ rest' ∧ rest' = rest :=
  ⟨t, rest, dt_roundtrip c env gtOp t rest fuel depth hp hfollow hf hd, rfl, rfl⟩

/-- NOT PROVED (kept as a statement): yield for ARBITRARY input — whatever tokens the parser accepts,
what it leaves is a suffix of its input and the consumed prefix equals the print of the result up
to the normal forms the parser erases (letter case and quoting of keyword words, `007` vs `7` and the
`L` suffix of numbers, the token kind of a DateTime64 zone, optional commas between custom modifiers,
a trailing comma in DuckDB lists, `> >` vs `>>`, BigQuery's split of dotted quoted names).  Missing:
an induction over the PARSER's run (every arm, every loop) instead of over the printed type; the tie
for non-printed inputs is the stream `dtparse` (token count left after the type is compared). -/
def YieldFullStatement : Prop :=
  ∀ (c : Cfg) (fuel depth : Nat) (ts rest : List Tok) (t : DT),
    parseDT c fuel depth ts = .ok (t, rest) → ∃ consumed, ts = consumed ++ rest ∧ consumed ≠ []

/-- printing is injective on producible types: different types print differently -/
theorem print_injective (c : Cfg) (env : Env) (gtOp : Bool) (t u : DT) (ht : Producible c env gtOp t)
    (hu : Producible c env gtOp u) (h : printDT c env gtOp t = printDT c env gtOp u) : t = u := by
  have h1 := dt_roundtrip_alone c env gtOp t (size t + size u) (ndepth t + ndepth u) ht (by omega) (by omega)
  have h2 := dt_roundtrip_alone c env gtOp u (size t + size u) (ndepth t + ndepth u) hu (by omega) (by omega)
  rw [h] at h1
  rw [h1] at h2
  cases h2
  rfl

-- ------------------------------------------------------------------ non-vacuity
def generic : Cfg :=
  { isGeneric := true, isBigQuery := false, isClickHouse := false, isDuckDb := false, isPostgres := false,
    isSnowflake := false, trailingCommas := false, dqWord := true, lbWord := false }
def bigquery : Cfg := { generic with isGeneric := false, isBigQuery := true, dqWord := false }
def clickhouse : Cfg := { generic with isGeneric := false, isClickHouse := true }
/-- PostgreSQL: `>` is a custom-operator character (`gtOp = true` below) -/
def postgres : Cfg := { generic with isGeneric := false, isPostgres := true }

/-- identifiers `a`, `b`, … are no keywords; raw modifiers are not used in the examples -/
def env0 : Env := { kwOf := fun _ => .noKw, lexMod := fun m => [.word m none .noKw] }

def INT : DT := .int .int none false
def idA : Ident := ⟨str "a", none⟩
def idB : Ident := ⟨str "b", none⟩

/-- `ARRAY<ARRAY<INT>>`: the two closers lex as ONE `>>` -/
example : printDT generic env0 false (.arrayAngle (.arrayAngle INT)) =
    [kwTok "ARRAY" .ARRAY, LtT, kwTok "ARRAY" .ARRAY, LtT, kwTok "INT" .INT, ShrT] := by decide
example : parseDT generic 10 50 (printDT generic env0 false (.arrayAngle (.arrayAngle INT))) =
    .ok (.arrayAngle (.arrayAngle INT), []) :=
  dt_roundtrip_alone generic env0 false _ 10 50 (by decide) (by decide) (by decide)

/-- the same under PostgreSQL's lexer (`>` is an operator character, two closers are still `>>`) -/
example : parseDT postgres 10 50 (printDT postgres env0 true (.arrayAngle (.arrayAngle INT))) =
    .ok (.arrayAngle (.arrayAngle INT), []) :=
  dt_roundtrip_alone postgres env0 true _ 10 50 (by decide) (by decide) (by decide)

/-- `STRUCT<a INT64, b ARRAY<STRING>>` (BigQuery): `>>` closes the array and the struct -/
def structEx : DT :=
  .struct (.cons (some idA) (.simple .int64) (.cons (some idB) (.arrayAngle (.withLen .string none)) .nil)) .angle
example : (printDT bigquery env0 false structEx).getLast? = some ShrT := by decide
example : parseDT bigquery 20 50 (printDT bigquery env0 false structEx ++ [RParen]) = .ok (structEx, [RParen]) :=
  dt_roundtrip_before_rparen bigquery env0 false _ [] 20 50 (by decide) (by decide) (by decide)

/-- `Nullable(DateTime64(3, 'UTC'))` (ClickHouse) -/
example : parseDT clickhouse 10 50 (printDT clickhouse env0 false (.nullable (.datetime64 3 (some (str "UTC"))))) =
    .ok (.nullable (.datetime64 3 (some (str "UTC"))), []) :=
  dt_roundtrip_alone clickhouse env0 false _ 10 50 (by decide) (by decide) (by decide)

/-- `INT[][]` under PostgreSQL, followed by a comma -/
example : parseDT postgres 10 50 (printDT postgres env0 true (.arraySquare (.arraySquare INT none) none) ++ [Comma]) =
    .ok (.arraySquare (.arraySquare INT none) none, [Comma]) :=
  dt_roundtrip_before_comma postgres env0 true _ [] 10 50 (by decide) (by decide) (by decide) (by decide)

/-- `ARRAY<ARRAY<ARRAY<INT>>>[3]`: `>>` then `>`; an ODD number of closers before the suffix is fine -/
example : parseDT generic 10 50 (printDT generic env0 false (.arraySquare (.arrayAngle (.arrayAngle (.arrayAngle INT))) (some 3))) =
    .ok (.arraySquare (.arrayAngle (.arrayAngle (.arrayAngle INT))) (some 3), []) :=
  dt_roundtrip_alone generic env0 false _ 10 50 (by decide) (by decide) (by decide)

-- ------------------------------------------------------------------ where the round trip fails today
/-- DEFECT 1: `ARRAY<ARRAY<INT>>[]` — after `>>` the inner `ARRAY<INT>` still holds the cursor when
the `[` arrives, so the suffix attaches one level too deep: the array of arrays-of-arrays comes back
as an array of (array-of-INT arrays). -/
theorem square_after_even_closers_differs :
    parseDT generic 10 50 (printDT generic env0 false (.arraySquare (.arrayAngle (.arrayAngle INT)) none)) =
      .ok (.arrayAngle (.arraySquare (.arrayAngle INT) none), []) ∧
    prod generic env0 (.arraySquare (.arrayAngle (.arrayAngle INT)) none) = false :=
  ⟨by with_unfolding_all rfl, by decide⟩

/-- DEFECT 2: `STRUCT<a ARRAY<INT>>` followed by a comma (next column, next struct field): the
struct's field loop takes the comma while the second half of `>>` is still pending and reports
"unmatched > in STRUCT definition". -/
theorem struct_then_comma_rejected :
    parseDT bigquery 10 50
        (printDT bigquery env0 false (.struct (.cons (some idA) (.arrayAngle INT) .nil) .angle) ++ [Comma]) =
      .error .unmatchedStruct ∧
    Producible bigquery env0 false (.struct (.cons (some idA) (.arrayAngle INT) .nil) .angle) :=
  ⟨by with_unfolding_all rfl, by decide⟩

/-- DEFECT 3: where `>` is a custom-operator character (PostgreSQL) three closers lex as ONE
operator `>>>`, and `ARRAY<ARRAY<ARRAY<INT>>>` is rejected. -/
theorem three_closers_rejected_where_gt_is_operator :
    printDT postgres env0 true (.arrayAngle (.arrayAngle (.arrayAngle INT))) =
      [kwTok "ARRAY" .ARRAY, LtT, kwTok "ARRAY" .ARRAY, LtT, kwTok "ARRAY" .ARRAY, LtT, kwTok "INT" .INT,
       .customOp [62, 62, 62]] ∧
    parseDT postgres 10 50 (printDT postgres env0 true (.arrayAngle (.arrayAngle (.arrayAngle INT)))) =
      .error (.expected (str ">") (some (.customOp [62, 62, 62]))) ∧
    prod postgres env0 (.arrayAngle (.arrayAngle (.arrayAngle INT))) = true :=
  ⟨by decide, by with_unfolding_all rfl, by decide⟩

/-- the same value is fine where `>` is no operator character -/
example : parseDT generic 10 50 (printDT generic env0 false (.arrayAngle (.arrayAngle (.arrayAngle INT)))) =
    .ok (.arrayAngle (.arrayAngle (.arrayAngle INT)), []) :=
  dt_roundtrip_alone generic env0 false _ 10 50 (by decide) (by decide) (by decide)

-- ------------------------------------------------------------------ custom-type modifiers
def foo : List Ident := [⟨str "foo", none⟩]

/-- what the parser stores for `foo('…')`, any payload `s`: the SQL spelling of the literal, quotes
included and embedded quotes doubled (`Value::SingleQuotedString(s).to_string()`), as it stores a
quoted word with its quotes -/
theorem string_modifier_stored_as_spelling (s : W) :
    parseDT generic 10 50 [.word (str "foo") none .noKw, LParen, .sqs s, RParen] =
      .ok (.custom foo [sqSpell s], []) := by
  simp [LParen, RParen, parseDT, foo, parseDataType, parseHelper, headOf, parseLeaf, simpleOfKw, lenOfKw, intOfKw,
    numOfKw, parseCustom, objName, parseIdent, bqSplit, generic, consumeSym, Tok.isSym, modLoop, suffixLoop, bind,
    Except.bind, pure, Except.pure]

/-- `sqSpell` IS `Display for Value::SingleQuotedString` of `Model/Escape` (C06's printer) -/
theorem sqSpell_eq_showValue (s : W) : sqSpell s = SqlVerif.Escape.showValue .singleQuoted s := rfl

example : sqSpell (str "a b") = str "'a b'" ∧ sqSpell [] = str "''" ∧ sqSpell (str "it's") = str "'it''s'" := by
  decide

/-- A STRING MODIFIER ROUND-TRIPS (the fix 085e5ea).  Every dialect configuration, every name the
dialect reads as a custom type, every payload `s` whose spelling `'…'` lexes to ONE string token
whose payload `s'` is spelled the same (`s' = s` for the payloads of `CleanQ`; `s' ≠ s` exactly in
the doubled-quote quirk of the quote-doubling printer, see the example below): the value is
producible, it prints as `name ( '…' )`, and parsing the print gives it back in front of every
follower that cannot extend a type. -/
theorem custom_string_modifier_roundtrips (c : Cfg) (env : Env) (gtOp : Bool) (name : List Ident) (s s' : W)
    (rest : List Tok) (fuel depth : Nat) (hn : nameOK c env name = true)
    (hl : env.lexMod (sqSpell s) = [.sqs s']) (hs : sqSpell s' = sqSpell s)
    (hfollow : followTok rest.head? = true) (hf : 2 ≤ fuel) (hd : 1 ≤ depth) :
    Producible c env gtOp (.custom name [sqSpell s]) ∧
    printDT c env gtOp (.custom name [sqSpell s]) = nameToks c env name ++ [LParen, .sqs s', RParen] ∧
    parseDT c fuel depth (printDT c env gtOp (.custom name [sqSpell s]) ++ rest) =
      .ok (.custom name [sqSpell s], rest) := by
  have hm : [sqSpell s].all (modOK env) = true := by simp [modOK, hl, hs]
  have hp : Producible c env gtOp (.custom name [sqSpell s]) := producible_custom c env gtOp name _ hn hm
  refine ⟨hp, ?_, ?_⟩
  · have h0 := retok_append_noGt gtOp _ [] (noGt_custom c env name [sqSpell s] hm)
    rw [List.append_nil, retok_nil, List.append_nil] at h0
    rw [printDT, h0]
    simp [pre, intersperse, hl]
  · exact dt_roundtrip c env gtOp _ rest fuel depth hp ⟨hfollow, by simp [structEven]⟩ (by simpa [size] using hf)
      (by simpa [ndepth] using hd)

/-- the modifier text lexed by the tokenizer model of C09 (`Model/Tokenizer`), when it is exactly one
string literal -/
def lexModOf (tenv : SqlVerif.Tok.Env) (m : W) : List Tok :=
  match SqlVerif.Tok.nextToken tenv m with
  | .ok (some (.singleQuotedString p, [])) => [.sqs p]
  | _ => []

/-- the lexing hypothesis of `custom_string_modifier_roundtrips` holds in the tokenizer model for
every dialect row and every payload satisfying C06's `CleanQ` (no two adjacent quotes, no backslash
before a quote, no backslash at all where backslash escapes; with triple-quoted strings no leading
quote): the spelling lexes back to exactly the one string token of the payload -/
theorem string_modifier_spelling_lexes_back_partial (tenv : SqlVerif.Tok.Env) (hun : tenv.unescape = true) (p : W)
    (hc : SqlVerif.Escape.CleanQ 39 tenv.row.flags.supports_string_literal_backslash_escape p)
    (ht : tenv.row.flags.supports_triple_quoted_string = true → p.head? ≠ some 39) :
    lexModOf tenv (sqSpell p) = [.sqs p] := by
  have h := SqlVerif.Escape.single_quoted_token tenv hun p [] (by simp) hc ht
  rw [List.append_nil] at h
  simp [lexModOf, sqSpell, h]

/-- … hence the round trip for every such payload, whenever the environment lexes the modifier the
way the tokenizer model does -/
theorem custom_string_modifier_roundtrips_lexer_partial (c : Cfg) (env : Env) (gtOp : Bool) (name : List Ident)
    (tenv : SqlVerif.Tok.Env) (p : W) (rest : List Tok) (fuel depth : Nat) (hn : nameOK c env name = true)
    (hun : tenv.unescape = true)
    (hc : SqlVerif.Escape.CleanQ 39 tenv.row.flags.supports_string_literal_backslash_escape p)
    (ht : tenv.row.flags.supports_triple_quoted_string = true → p.head? ≠ some 39)
    (henv : env.lexMod (sqSpell p) = lexModOf tenv (sqSpell p))
    (hfollow : followTok rest.head? = true) (hf : 2 ≤ fuel) (hd : 1 ≤ depth) :
    parseDT c fuel depth (printDT c env gtOp (.custom name [sqSpell p]) ++ rest) =
      .ok (.custom name [sqSpell p], rest) :=
  (custom_string_modifier_roundtrips c env gtOp name p p rest fuel depth hn
    (by rw [henv, string_modifier_spelling_lexes_back_partial tenv hun p hc ht]) rfl hfollow hf hd).2.2

/-- the generic dialect with Rust's character predicates on ASCII -/
def lexEnv : SqlVerif.Tok.Env :=
  let row := SqlVerif.Gen.dialect_generic
  let bit := fun (t : List Bool) (c : Nat) => t.getD c false
  { row := row, unescape := true,
    isWhitespace := bit SqlVerif.Gen.asciiIsWhitespace, isAlphabetic := bit SqlVerif.Gen.asciiIsAlphabetic,
    isNumeric := bit SqlVerif.Gen.asciiIsNumeric, isAlphanumeric := bit SqlVerif.Gen.asciiIsAlphanumeric,
    toUpper := fun c => [SqlVerif.Gen.asciiToUpper.getD c c],
    isIdentStart := bit row.asciiIdentStart, isIdentPart := bit row.asciiIdentPart,
    isDelimStart := bit row.asciiDelimStart, isCustomOpPart := bit row.asciiCustomOp }

/-- modifiers lexed by the tokenizer model of the generic dialect -/
def envLex : Env := { kwOf := fun _ => .noKw, lexMod := lexModOf lexEnv }

/-- `foo('a b')`: stored as `'a b'`, printed `foo('a b')`, parsed back (before the fix it printed
`foo(a b)` and came back with the two modifiers `a`, `b`) -/
example : parseDT generic 10 50 (printDT generic envLex false (.custom foo [str "'a b'"]) ++ [Comma]) =
    .ok (.custom foo [str "'a b'"], [Comma]) :=
  custom_string_modifier_roundtrips_lexer_partial generic envLex false foo lexEnv (str "a b") [Comma] 10 50
    (by decide) rfl (by decide) (by decide) rfl (by decide) (by decide) (by decide)

/-- `foo('')`: the empty string keeps its modifier (before the fix it printed `foo()`) -/
example : parseDT generic 10 50 (printDT generic envLex false (.custom foo [str "''"])) =
    .ok (.custom foo [str "''"], []) := by
  have := custom_string_modifier_roundtrips_lexer_partial generic envLex false foo lexEnv [] [] 10 50
    (by decide) rfl (by decide) (by decide) rfl (by decide) (by decide) (by decide)
  rw [List.append_nil] at this
  exact this

/-- the doubled-quote quirk of the quote-doubling printer (C06 `doubled_quote_collapses`) is NOT a
defect here: `foo('a''''b')` has the payload `a''b`, which is spelled `'a''b'` (the pair is taken for
an escaped quote); that text lexes to the payload `a'b`, whose spelling is `'a''b'` again: the stored
modifier is the same text and the value comes back. -/
example : sqSpell (str "a''b") = str "'a''b'" ∧ lexModOf lexEnv (str "'a''b'") = [.sqs (str "a'b")] ∧
    parseDT generic 10 50 (printDT generic envLex false (.custom foo [sqSpell (str "a''b")])) =
      .ok (.custom foo [sqSpell (str "a''b")], []) := by
  have hl : lexModOf lexEnv (str "'a''b'") = [.sqs (str "a'b")] := by decide +kernel
  refine ⟨by decide, hl, ?_⟩
  have := (custom_string_modifier_roundtrips generic envLex false foo (str "a''b") (str "a'b") [] 10 50
    (by decide) hl (by decide) (by decide) (by decide) (by decide)).2.2
  rw [List.append_nil] at this
  exact this

/-- RESIDUAL DEFECT 4 (a value the parser returns): a payload with a backslash in front of a quote.
`foo('a\''b')` in a dialect without backslash escapes has the payload `a\'b`; the quote-doubling
printer writes a quote that follows a backslash ONCE (C06 `backslash_quote_unbalanced`), so the
parser stores `'a\'b'`; printed verbatim, the lexer reads the string `a\` and is left with `b')`,
whose quote never closes: the printed type does not even lex. -/
theorem custom_string_modifier_backslash_quote_breaks :
    parseDT generic 10 50 [.word (str "foo") none .noKw, LParen, .sqs (str "a\\'b"), RParen] =
      .ok (.custom foo [str "'a\\'b'"], []) ∧
    (SqlVerif.Tok.nextToken lexEnv (str "'a\\'b'" ++ [41])).toOption =
      some (some (.singleQuotedString (str "a\\"), str "b')")) ∧
    (SqlVerif.Tok.nextToken lexEnv (str "')")).toOption = none ∧
    modOK envLex (str "'a\\'b'") = false := by
  refine ⟨?_, ?_, ?_, ?_⟩
  · have h : sqSpell (str "a\\'b") = str "'a\\'b'" := by decide
    rw [string_modifier_stored_as_spelling, h]
  all_goals decide +kernel

/-- RESIDUAL DEFECT 4' (a value the parser returns; older than the fix and untouched by it): a
QUOTED-WORD modifier is stored by `Display for Word`, which keeps the quotes but does not double an
embedded one (C06 `word_display_unescaped`): `foo("a""b")` has the word `a"b`, stored and printed as
`"a"b"`; the lexer reads the identifier `a`, the word `b`, and a quote that never closes. -/
theorem custom_quoted_word_modifier_quote_breaks :
    parseDT generic 10 50 [.word (str "foo") none .noKw, LParen, .word (str "a\"b") (some 34) .noKw, RParen] =
      .ok (.custom foo [str "\"a\"b\""], []) ∧
    (SqlVerif.Tok.nextToken lexEnv (str "\"a\"b\")")).toOption =
      some (some (.word ⟨str "a", some 34, none⟩, str "b\")")) ∧
    (SqlVerif.Tok.nextToken lexEnv (str "\")")).toOption = none := by
  refine ⟨?_, ?_, ?_⟩
  · simp [LParen, RParen, parseDT, foo, parseDataType, parseHelper, headOf, parseLeaf, simpleOfKw, lenOfKw, intOfKw,
      numOfKw, parseCustom, objName, parseIdent, bqSplit, generic, consumeSym, Tok.isSym, modLoop, suffixLoop, bind,
      Except.bind, pure, Except.pure, SqlVerif.Pratt.wordDisplay]
    decide
  all_goals decide +kernel

/-- Values the parser never returns.  `DataType::Custom` Display still prints the modifiers
verbatim, so a HAND-BUILT value whose modifier is not the text of one token does not come back: the
modifier `a b` (no quotes) prints as `foo(a b)` and is read as TWO modifiers, in the generic dialect
and every environment in which the text `a b` lexes to the two words.  Such a value is not
`Producible`. -/
theorem handbuilt_modifier_splits (env : Env) (gtOp : Bool)
    (h : env.lexMod [97, 32, 98] = [.word [97] none .noKw, .word [98] none .noKw])
    (hk : env.kwOf [102, 111, 111] = .noKw) :
    parseDT generic 10 50 (printDT generic env gtOp (.custom [⟨[102, 111, 111], none⟩] [[97, 32, 98]])) =
      .ok (.custom [⟨[102, 111, 111], none⟩] [[97], [98]], []) ∧
    prod generic env (.custom [⟨[102, 111, 111], none⟩] [[97, 32, 98]]) = false := by
  constructor
  · simp only [printDT, pre, retok]
    simp [h, hk, nameToks, intersperse, identTok, List.isEmpty, retokGo, run, LParen, RParen, Comma, GtT, ShrT, parseDT,
      parseDataType, parseHelper, headOf, parseLeaf, simpleOfKw, lenOfKw, intOfKw, numOfKw, parseCustom, objName,
      parseIdent, bqSplit, generic, consumeSym, Tok.isSym, modLoop, SqlVerif.Pratt.wordDisplay, suffixLoop, bind,
      Except.bind, pure, Except.pure]
  · simp [prod, modOK, h]

/-- the hand-built EMPTY modifier prints as `foo()` and vanishes (the parser itself never stores an
empty modifier for a string: `foo('')` is stored as `''`, see above) -/
theorem handbuilt_empty_modifier_vanishes (env : Env) (gtOp : Bool) (h : env.lexMod [] = [])
    (hk : env.kwOf [102, 111, 111] = .noKw) :
    parseDT generic 10 50 (printDT generic env gtOp (.custom [⟨[102, 111, 111], none⟩] [[]])) =
      .ok (.custom [⟨[102, 111, 111], none⟩] [], []) ∧
    prod generic env (.custom [⟨[102, 111, 111], none⟩] [[]]) = false := by
  constructor
  · simp only [printDT, pre, retok]
    simp [h, hk, nameToks, intersperse, identTok, List.isEmpty, retokGo, run, LParen, RParen, Comma, GtT, ShrT, parseDT,
      parseDataType, parseHelper, headOf, parseLeaf, simpleOfKw, lenOfKw, intOfKw, numOfKw, parseCustom, objName,
      parseIdent, bqSplit, generic, consumeSym, Tok.isSym, modLoop, suffixLoop, bind,
      Except.bind, pure, Except.pure]
  · simp [prod, modOK, h]

-- the DateTime64 zone is printed between quotes WITHOUT escaping (data_type.rs 616-631)
/-- `format_clickhouse_datetime_precision_and_timezone`: `'{time_zone}'` -/
def zoneText (z : W) : W := [39] ++ z ++ [39]

/-- DEFECT 5: a DateTime64 time zone containing a quote (`DateTime64(3, 'a''b')` gives zone `a'b`):
printed as `'a'b'`, the lexer (tokenizer model of C09) reads the zone `a` and is left with `b')`,
whose quote never closes. -/
theorem datetime64_zone_quote_breaks :
    (SqlVerif.Tok.nextToken lexEnv (zoneText [97, 39, 98] ++ [41])).toOption =
      some (some (.singleQuotedString [97], [98, 39, 41])) ∧
    (SqlVerif.Tok.nextToken lexEnv [39, 41]).toOption = none := by
  constructor <;> decide +kernel

/-- the unrestricted statement — every value the parser itself returns, followed by a comma (the
next column), with the fuel and depth of `dt_roundtrip` — is FALSE on the current code -/
def FullStatement : Prop :=
  ∀ (c : Cfg) (env : Env) (gtOp : Bool) (t : DT) (rest : List Tok) (fuel depth : Nat),
    (∃ ts, parseDT c fuel depth ts = .ok (t, [])) → rest.head? = some Comma →
    size t ≤ fuel → ndepth t ≤ depth →
    parseDT c fuel depth (printDT c env gtOp t ++ rest) = .ok (t, rest)

theorem fullStatement_false : ¬ FullStatement := by
  intro h
  -- `STRUCT<a ARRAY<INT> >` (separate `>` `>`) parses to the struct; its print ends in `>>`
  have hres := h bigquery env0 false (.struct (.cons (some idA) (.arrayAngle INT) .nil) .angle) [Comma] 10 50
    ⟨[kwTok "STRUCT" .STRUCT, LtT, .word (str "a") none .noKw, kwTok "ARRAY" .ARRAY, LtT, kwTok "INT" .INT, GtT, GtT],
      by with_unfolding_all rfl⟩ rfl (by decide) (by decide)
  rw [struct_then_comma_rejected.1] at hres
  cases hres

end SqlVerif.Props.C18

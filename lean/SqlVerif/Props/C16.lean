import SqlVerif.Lemmas.VisitLemmas
import SqlVerif.Model.Reflect
import SqlVerif.Gen.Schema
/-!
# C16 — visitors see every node once, in order, and can stop

Generic theorems about the traversal `#[derive(Visit, VisitMut)]` generates (`Model/Visit.lean`),
for ALL trees and ALL visitors (a visitor = the set of callback indices at which it returns Break).
The tree carries, per node, the type-level hook of its type and, per field, the field-level hook;
for a reflected statement these are looked up in the schema regenerated from the Rust sources
(`Model/Reflect.lean: toVisit`, `Gen/Schema.lean`), and the side conditions at the end are
re-decided by the kernel on that schema on every run.  The model's callback sequence is compared
with the real `Visit`/`VisitMut` walks by the stream `visit`.
-/
namespace SqlVerif.Props.C16
open SqlVerif.Visit

/-- the callbacks of a complete walk are well nested, and each `post` closes the `pre` of the same
    position (same hook, same node) -/
theorem balanced (v : Val) : dyck [] (fullTrace v) = true := by
  have := dyck_events [] v [] []
  rw [fullTrace_eq_events]
  simpa [dyck] using this

/-- the `pre` callbacks are exactly the hooked nodes and hooked fields of the tree, in pre-order
    (parents before children, siblings in declaration order) -/
theorem preorder (v : Val) : pres (fullTrace v) = hookedPreorder [] v := by
  rw [fullTrace_eq_events, pres_events]

/-- the `post` callbacks are the same positions in post-order (children before parents) -/
theorem postorder (v : Val) : posts (fullTrace v) = hookedPostorder [] v := by
  rw [fullTrace_eq_events, posts_events]

/-- every hooked position is entered exactly once and left exactly once; nothing else is reported -/
theorem exactly_once (v : Val) :
    (pres (fullTrace v)).Nodup ∧ (posts (fullTrace v)).Nodup ∧
    (∀ p, p ∈ pres (fullTrace v) ↔ p ∈ hookedPreorder [] v) ∧
    (∀ p, p ∈ posts (fullTrace v) ↔ p ∈ hookedPreorder [] v) := by
  rw [preorder, postorder]
  refine ⟨nodup_pre [] v, ?_, fun _ => Iff.rfl, fun p => (perm_post_pre [] v).mem_iff⟩
  exact (perm_post_pre [] v).nodup_iff.mpr (nodup_pre [] v)

/-- a hooked position lies at or below the root, and two hooked positions with the same path and
    kind are the same position: the list `hookedPreorder` names each (path, hook kind) once -/
theorem positions_distinct (v : Val) : (hookedPreorder [] v).Nodup := nodup_pre [] v

/-- Break at the k-th callback: exactly the first k+1 callbacks of the complete walk are delivered,
    the walk returns Break, nothing follows -/
theorem break_stops (brk : Nat → Bool) (v : Val) (k : Nat)
    (hbefore : ∀ j, j < k → brk j = false) (hk : brk k = true) (hlen : k < (fullTrace v).length) :
    run brk v = (true, ⟨k + 1, (fullTrace v).take (k + 1)⟩) := by
  rw [fullTrace_eq_events] at hlen ⊢
  unfold run
  rw [walk_eq_deliver, deliver_break brk _ St.init k (by simpa [St.init] using hbefore) (by simpa [St.init] using hk) hlen]
  simp [St.init]

/-- a visitor that never breaks within the walk receives the complete sequence and the walk returns Continue -/
theorem no_break_complete (brk : Nat → Bool) (v : Val)
    (h : ∀ j, j < (fullTrace v).length → brk j = false) :
    run brk v = (false, ⟨(fullTrace v).length, fullTrace v⟩) := by
  rw [fullTrace_eq_events] at h ⊢
  unfold run
  rw [walk_eq_deliver, deliver_nobreak brk _ St.init (by simpa [St.init] using h)]
  simp [St.init]

/-- the mutating walk with callbacks that change nothing delivers the same callbacks, returns the
    same Break/Continue as the read-only walk … -/
theorem visit_eq_visitmut (brk : Nat → Bool) (v : Val) :
    (runM cbId brk v).map (fun r => (r.1, r.2.2)) = some (run brk v) := by
  unfold runM run
  rw [walkM_id brk v (size v + 1) [] St.init (by omega)]
  rfl

/-- … and leaves the tree equal (also when the walk is cut short by Break) -/
theorem identity_mut (brk : Nat → Bool) (v : Val) :
    (runM cbId brk v).map (fun r => r.2.1) = some v := by
  unfold runM
  rw [walkM_id brk v (size v + 1) [] St.init (by omega)]
  rfl

/-- more fuel changes nothing -/
theorem identity_mut_any_fuel (brk : Nat → Bool) (v : Val) (fuel : Nat) (h : size v ≤ fuel) :
    walkM cbId brk fuel [] v St.init = some ((run brk v).1, v, (run brk v).2) :=
  walkM_id brk v fuel [] St.init h

/-! ## side conditions on the schema of the crate as it is now -/

open SqlVerif.Schema in
/-- type-level hook of a schema type -/
def hookOf (id : Nat) : Option Nat := (SqlVerif.Gen.Schema.schema.get? id).bind TypeDef.hook

/-- `Query`, `TableFactor`, `Expr`, `Statement` carry their type-level hooks (ids 0, 2, 3, 4) -/
theorem node_kinds_hooked :
    hookOf SqlVerif.Gen.Schema.queryId = some 0 ∧ hookOf SqlVerif.Gen.Schema.tableFactorId = some 2 ∧
    hookOf SqlVerif.Gen.Schema.exprId = some 3 ∧ hookOf SqlVerif.Gen.Schema.statementId = some 4 := by
  decide +kernel

open SqlVerif.Schema in
def relFields (t vi : Nat) : List Field → Nat → List (Nat × Nat × Nat)
  | [], _ => []
  | f :: fs, k => (match f.hook with | some 1 => [(t, vi, k)] | _ => []) ++ relFields t vi fs (k + 1)
open SqlVerif.Schema in
def relShapes (t : Nat) : List Shape → Nat → List (Nat × Nat × Nat)
  | [], _ => []
  | sh :: r, vi => relFields t vi sh.fields 0 ++ relShapes t r (vi + 1)
open SqlVerif.Schema in
def relDefs : List TypeDef → Nat → List (Nat × Nat × Nat)
  | [], _ => []
  | d :: r, t => relShapes t d.shapes 0 ++ relDefs r (t + 1)
open SqlVerif.Schema in
/-- all fields of the schema carrying the relation hook, as (type id, variant index, field index) -/
def relationFieldsOf (sch : Schema) : List (Nat × Nat × Nat) := relDefs sch.defs 0

/-- the translator's list of relation-hooked positions is exactly what the schema says -/
theorem relation_positions_consistent :
    relationFieldsOf SqlVerif.Gen.Schema.schema = SqlVerif.Gen.Schema.relationHooked ∧
    SqlVerif.Gen.Schema.relationHooked.length = SqlVerif.Gen.Schema.relationHookedNames.length := by
  decide +kernel

/-- The relation-position specification (DESIGN.md C16), written once from the property text:
    FROM/JOIN (`TableFactor::Table.name`), INSERT/REPLACE target, TRUNCATE targets, and the statement
    kinds whose table name is hooked today.  UPDATE/MERGE targets are table factors.
    One position of the property text is NOT in this table because the code does not hook it
    (known finding, reported by the oracle): `Delete.tables` (a `Vec<ObjectName>`). -/
def relationSpec : List String := [
  "TableFactor::Table.name", "Insert.table_name", "TruncateTableTarget.name",
  "CreateTable.name", "CreateIndex.table_name",
  "Statement::Analyze.table_name", "Statement::Msck.table_name", "Statement::CreateVirtualTable.name",
  "Statement::CreatePolicy.table_name", "Statement::AlterTable.name", "Statement::AlterView.name",
  "Statement::AlterPolicy.table_name", "Statement::ShowColumns.table_name",
  "Statement::ExplainTable.table_name", "Statement::Cache.table_name", "Statement::UNCache.table_name",
  "CopySource::Table.table_name", "Statement::CopyIntoSnowflake.into"]

/-- every position of the specification carries `visit(with = "visit_relation")` in the source -/
theorem relation_positions_hooked :
    relationSpec.all (fun p => SqlVerif.Gen.Schema.relationHookedNames.contains p) = true := by
  decide +kernel

/-- no hook id outside the five callback families occurs in the schema -/
theorem hooks_known :
    (SqlVerif.Gen.Schema.schema.defs.all fun d =>
      (match d.hook with | some h => decide (h < 5) | none => true) &&
      d.shapes.all fun sh => sh.fields.all fun f => match f.hook with | some h => decide (h < 5) | none => true) = true := by
  decide +kernel

/-! ## non-vacuity -/

/-- `SELECT a FROM t WHERE (SELECT 1)`-like tree: statement(4) > query(0) > [expr(3), table factor(2) with a
    relation-hooked field(1), expr(3) > query(0) > expr(3)] -/
def eLeaf : Val := .node 2 0 (some 3) [(none, .leaf 7)]
def subQuery : Val := .node 1 0 (some 0) [(none, .seq [.node 2 0 (some 3) []])]
def eSub : Val := .node 2 1 (some 3) [(none, .seq [subQuery])]
def tFactor : Val := .node 3 0 (some 2) [(some 1, .node 4 0 none [(none, .seq [.leaf 1])]), (none, .seq [])]
def demo : Val :=
  .node 84 0 (some 4) [(none, .seq [.node 1 0 (some 0) [(none, .seq [eLeaf]), (none, tFactor), (none, .seq [eSub])]])]

example : (fullTrace demo).map (fun e => (e.pos.hook, e.post)) =
    [(4, false), (0, false), (3, false), (3, true), (2, false), (1, false), (1, true), (2, true),
     (3, false), (0, false), (3, false), (3, true), (0, true), (3, true), (0, true), (4, true)] := by decide +kernel
example : (hookedPreorder [] demo).length = 8 := by decide +kernel
example : dyck [] (fullTrace demo) = true := balanced demo
/-- Break at callback 5 (the relation): 6 callbacks, nothing after -/
example : run (fun i => i == 5) demo = (true, ⟨6, (fullTrace demo).take 6⟩) :=
  break_stops _ demo 5 (by decide) (by decide) (by decide +kernel)
example : ((run (fun i => i == 5) demo).2.tr.map (fun e => (e.pos.hook, e.post))) =
    [(4, false), (0, false), (3, false), (3, true), (2, false), (1, false)] := by decide +kernel
/-- an unbalanced sequence is rejected by `dyck`, so `balanced` says something -/
example : dyck [] [⟨⟨3, false, []⟩, false⟩, ⟨⟨0, false, []⟩, true⟩] = false := by decide
/-- a mutating visitor does change the tree (so `identity_mut` is about the identity visitor, not about all) -/
example : (runM (fun h post v => if h == 3 && !post then (match v with | .node t d hk ks => .node t (d + 10) hk ks | x => x) else v)
    never (.node 2 0 (some 3) [])).map (fun r => beq r.2.1 (.node 2 0 (some 3) [])) = some false := by decide +kernel
example : (runM cbId never demo).map (fun r => beq r.2.1 demo) = some true := by decide +kernel

end SqlVerif.Props.C16

import SqlVerif.Lemmas.VisitLemmas
import SqlVerif.Model.Reflect
import SqlVerif.Gen.Schema
/-!
# C16 — visitors see every node once, in order, and can stop

Generic theorems about the traversal `#[derive(Visit, VisitMut)]` generates (`Model/Visit.lean`),
for ALL trees and ALL visitors (a visitor = the set of callback indices at which it returns Break).
The tree carries, per node, the type-level hook of its type and, per field, the field-level hook;
for a reflected statement these are looked up in the schema regenerated from the Rust sources
(`Model/Reflect.lean: toVisit`, `Gen/Schema.lean`), and the side conditions at the end are
re-decided by the kernel on that schema on every run.  The model's callback sequence is compared
with the real `Visit`/`VisitMut` walks by the stream `visit`.

A field-level hook on a `Vec` field fires around each element (the derive's `for item in field
{ pre; visit; post }`); `Model/Reflect.lean` reflects such a field as a hook-less node whose kids are
the elements, each carrying the hook, so the generic theorems cover it as they stand;
`hooked_vec_trace` spells out the resulting callback sequence and `each_positions_consistent`
checks that the model applies that reading to exactly the fields the derive does.
-/
namespace SqlVerif.Props.C16
open SqlVerif.Visit

/-- the callbacks of a complete walk are well nested, and each `post` closes the `pre` of the same
    position (same hook, same node) -/
theorem balanced (v : Val) : dyck [] (fullTrace v) = true := by
  have := dyck_events [] v [] []
  rw [fullTrace_eq_events]
  simpa [dyck] using this

/-- the `pre` callbacks are exactly the hooked nodes and hooked fields of the tree, in pre-order
    (parents before children, siblings in declaration order) -/
theorem preorder (v : Val) : pres (fullTrace v) = hookedPreorder [] v := by
  rw [fullTrace_eq_events, pres_events]

/-- the `post` callbacks are the same positions in post-order (children before parents) -/
theorem postorder (v : Val) : posts (fullTrace v) = hookedPostorder [] v := by
  rw [fullTrace_eq_events, posts_events]

/-- every hooked position is entered exactly once and left exactly once; nothing else is reported -/
theorem exactly_once (v : Val) :
    (pres (fullTrace v)).Nodup ∧ (posts (fullTrace v)).Nodup ∧
    (∀ p, p ∈ pres (fullTrace v) ↔ p ∈ hookedPreorder [] v) ∧
    (∀ p, p ∈ posts (fullTrace v) ↔ p ∈ hookedPreorder [] v) := by
  rw [preorder, postorder]
  refine ⟨nodup_pre [] v, ?_, fun _ => Iff.rfl, fun p => (perm_post_pre [] v).mem_iff⟩
  exact (perm_post_pre [] v).nodup_iff.mpr (nodup_pre [] v)

/-- a hooked position lies at or below the root, and two hooked positions with the same path and
    kind are the same position: the list `hookedPreorder` names each (path, hook kind) once -/
theorem positions_distinct (v : Val) : (hookedPreorder [] v).Nodup := nodup_pre [] v

/-- Break at the k-th callback: exactly the first k+1 callbacks of the complete walk are delivered,
    the walk returns Break, nothing follows -/
theorem break_stops (brk : Nat → Bool) (v : Val) (k : Nat)
    (hbefore : ∀ j, j < k → brk j = false) (hk : brk k = true) (hlen : k < (fullTrace v).length) :
    run brk v = (true, ⟨k + 1, (fullTrace v).take (k + 1)⟩) := by
  rw [fullTrace_eq_events] at hlen ⊢
  unfold run
  rw [walk_eq_deliver, deliver_break brk _ St.init k (by simpa [St.init] using hbefore) (by simpa [St.init] using hk) hlen]
  simp [St.init]

/-- a visitor that never breaks within the walk receives the complete sequence and the walk returns Continue -/
theorem no_break_complete (brk : Nat → Bool) (v : Val)
    (h : ∀ j, j < (fullTrace v).length → brk j = false) :
    run brk v = (false, ⟨(fullTrace v).length, fullTrace v⟩) := by
  rw [fullTrace_eq_events] at h ⊢
  unfold run
  rw [walk_eq_deliver, deliver_nobreak brk _ St.init (by simpa [St.init] using h)]
  simp [St.init]

/-- the mutating walk with callbacks that change nothing delivers the same callbacks, returns the
    same Break/Continue as the read-only walk … -/
theorem visit_eq_visitmut (brk : Nat → Bool) (v : Val) :
    (runM cbId brk v).map (fun r => (r.1, r.2.2)) = some (run brk v) := by
  unfold runM run
  rw [walkM_id brk v (size v + 1) [] St.init (by omega)]
  rfl

/-- … and leaves the tree equal (also when the walk is cut short by Break) -/
theorem identity_mut (brk : Nat → Bool) (v : Val) :
    (runM cbId brk v).map (fun r => r.2.1) = some v := by
  unfold runM
  rw [walkM_id brk v (size v + 1) [] St.init (by omega)]
  rfl

/-- more fuel changes nothing -/
theorem identity_mut_any_fuel (brk : Nat → Bool) (v : Val) (fuel : Nat) (h : size v ≤ fuel) :
    walkM cbId brk fuel [] v St.init = some ((run brk v).1, v, (run brk v).2) :=
  walkM_id brk v fuel [] St.init h

/-! ## a field-level hook on a `Vec` field: once per element, in order -/

/-- what the derive's `for item in field { pre_h(item)?; item.visit(visitor)?; post_h(item)?; }` delivers
    for the elements `xs` of a field at path `rp`, counting elements from `i` -/
def eachEvents (h : Nat) (rp : List Nat) : Nat → List Val → List Ev
  | _, [] => []
  | i, x :: r =>
    ⟨⟨h, true, i :: rp⟩, false⟩ :: (events (i :: rp) x ++ ⟨⟨h, true, i :: rp⟩, true⟩ :: eachEvents h rp (i + 1) r)

theorem eventsKids_each (h : Nat) (rp : List Nat) : ∀ (i : Nat) (xs : List Val),
    eventsKids rp i (xs.map fun e => (some h, e)) = eachEvents h rp i xs
  | _, [] => by simp [eventsKids, eachEvents]
  | i, x :: r => by simp [eventsKids, eachEvents, optEv, eventsKids_each h rp (i + 1) r]

/-- the node `Model/Reflect.lean` builds for a hooked `Vec` field delivers, for each element in
    order, `pre` of the field-level hook on the element, the element's own walk, `post` on the same
    element — and nothing around the `Vec` itself -/
theorem hooked_vec_trace (sch : SqlVerif.Schema.Schema) (h : Nat) (xs : List Val) :
    fullTrace (SqlVerif.Reflect.hookedVec sch h xs) = eachEvents h [] 0 xs := by
  rw [fullTrace_eq_events]
  simp [SqlVerif.Reflect.hookedVec, events, optEv, eventsKids_each]

/-- … so an empty `Vec` gives no callback and `n` childless elements give `n` adjacent pre/post pairs -/
theorem hooked_vec_count (sch : SqlVerif.Schema.Schema) (h : Nat) (xs : List Val) :
    (pres (fullTrace (SqlVerif.Reflect.hookedVec sch h xs))).length =
      xs.length + (hookedPreSeq [] 0 xs).length := by
  rw [preorder]
  simp only [SqlVerif.Reflect.hookedVec, hookedPreorder, optPos, List.nil_append]
  suffices ∀ (i : Nat) (ys : List Val), (hookedPreKids [] i (ys.map fun e => (some h, e))).length =
      ys.length + (hookedPreSeq [] i ys).length from this 0 xs
  intro i ys
  induction ys generalizing i with
  | nil => simp [hookedPreKids, hookedPreSeq]
  | cons y r ih => simp [hookedPreKids, hookedPreSeq, optPos, ih (i + 1)]; omega

/-- the reflection of a struct field: hook around each element for a `Vec`, around the field otherwise -/
theorem hookField_vec (sch : SqlVerif.Schema.Schema) (h : Nat) (t : SqlVerif.Schema.Ty) (xs : List Val) :
    SqlVerif.Reflect.hookField sch (some h) (.vec t) (.seq xs) = (none, SqlVerif.Reflect.hookedVec sch h xs) := rfl
theorem hookField_unhooked (sch : SqlVerif.Schema.Schema) (t : SqlVerif.Schema.Ty) (x : Val) :
    SqlVerif.Reflect.hookField sch none t x = (none, x) := by
  unfold SqlVerif.Reflect.hookField; split <;> simp_all
theorem hookField_named (sch : SqlVerif.Schema.Schema) (hk : Option Nat) (id : Nat) (x : Val) :
    SqlVerif.Reflect.hookField sch hk (.named id) x = (hk, x) := by
  unfold SqlVerif.Reflect.hookField; split <;> simp_all

/-! ## side conditions on the schema of the crate as it is now -/

open SqlVerif.Schema in
/-- type-level hook of a schema type -/
def hookOf (id : Nat) : Option Nat := (SqlVerif.Gen.Schema.schema.get? id).bind TypeDef.hook

/-- `Query`, `TableFactor`, `Expr`, `Statement` carry their type-level hooks (ids 0, 2, 3, 4) -/
theorem node_kinds_hooked :
    hookOf SqlVerif.Gen.Schema.queryId = some 0 ∧ hookOf SqlVerif.Gen.Schema.tableFactorId = some 2 ∧
    hookOf SqlVerif.Gen.Schema.exprId = some 3 ∧ hookOf SqlVerif.Gen.Schema.statementId = some 4 := by
  decide +kernel

open SqlVerif.Schema in
def relFields (t vi : Nat) : List Field → Nat → List (Nat × Nat × Nat)
  | [], _ => []
  | f :: fs, k => (match f.hook with | some 1 => [(t, vi, k)] | _ => []) ++ relFields t vi fs (k + 1)
open SqlVerif.Schema in
def relShapes (t : Nat) : List Shape → Nat → List (Nat × Nat × Nat)
  | [], _ => []
  | sh :: r, vi => relFields t vi sh.fields 0 ++ relShapes t r (vi + 1)
open SqlVerif.Schema in
def relDefs : List TypeDef → Nat → List (Nat × Nat × Nat)
  | [], _ => []
  | d :: r, t => relShapes t d.shapes 0 ++ relDefs r (t + 1)
open SqlVerif.Schema in
/-- all fields of the schema carrying the relation hook, as (type id, variant index, field index) -/
def relationFieldsOf (sch : Schema) : List (Nat × Nat × Nat) := relDefs sch.defs 0

/-- the translator's list of relation-hooked positions is exactly what the schema says -/
theorem relation_positions_consistent :
    relationFieldsOf SqlVerif.Gen.Schema.schema = SqlVerif.Gen.Schema.relationHooked ∧
    SqlVerif.Gen.Schema.relationHooked.length = SqlVerif.Gen.Schema.relationHookedNames.length := by
  decide +kernel

/-- The relation-position specification (DESIGN.md C16), written once from the property text:
    FROM/JOIN (`TableFactor::Table.name`), INSERT/REPLACE target, DELETE targets (`Delete.tables`, a
    `Vec<ObjectName>`: MySQL multi-table delete), TRUNCATE targets, and the statement kinds whose table
    name is hooked today.  UPDATE/MERGE targets are table factors. -/
def relationSpec : List String := [
  "TableFactor::Table.name", "Insert.table_name", "Delete.tables", "TruncateTableTarget.name",
  "CreateTable.name", "CreateIndex.table_name",
  "Statement::Analyze.table_name", "Statement::Msck.table_name", "Statement::CreateVirtualTable.name",
  "Statement::CreatePolicy.table_name", "Statement::AlterTable.name", "Statement::AlterView.name",
  "Statement::AlterPolicy.table_name", "Statement::ShowColumns.table_name",
  "Statement::ExplainTable.table_name", "Statement::Cache.table_name", "Statement::UNCache.table_name",
  "CopySource::Table.table_name", "Statement::CopyIntoSnowflake.into"]

/-- every position of the specification carries `visit(with = "visit_relation")` in the source -/
theorem relation_positions_hooked :
    relationSpec.all (fun p => SqlVerif.Gen.Schema.relationHookedNames.contains p) = true := by
  decide +kernel

open SqlVerif.Schema in
def eachFields (t vi : Nat) : List Field → Nat → List (Nat × Nat × Nat)
  | [], _ => []
  | f :: fs, k => (match f.hook, f.ty with | some _, .vec _ => [(t, vi, k)] | _, _ => []) ++ eachFields t vi fs (k + 1)
open SqlVerif.Schema in
def eachShapes (t : Nat) : List Shape → Nat → List (Nat × Nat × Nat)
  | [], _ => []
  | sh :: r, vi => eachFields t vi sh.fields 0 ++ eachShapes t r (vi + 1)
open SqlVerif.Schema in
def eachDefs : List TypeDef → Nat → List (Nat × Nat × Nat)
  | [], _ => []
  | d :: r, t => eachShapes t d.shapes 0 ++ eachDefs r (t + 1)
open SqlVerif.Schema in
/-- the fields on which `Model/Reflect.lean: hookField` puts the hook around each element: hooked, of
    (resolved) type `Vec<_>` -/
def eachFieldsOf (sch : Schema) : List (Nat × Nat × Nat) := eachDefs sch.defs 0

/-- … are exactly the hooked fields the derive treats that way (spelled `Vec<..>` in the source, the
    test `is_vec` of derive/src/lib.rs, read by the translator) -/
theorem each_positions_consistent :
    eachFieldsOf SqlVerif.Gen.Schema.schema = SqlVerif.Gen.Schema.eachHooked ∧
    SqlVerif.Gen.Schema.eachHooked.length = SqlVerif.Gen.Schema.eachHookedNames.length := by
  decide +kernel

open SqlVerif.Schema in
def fieldAt (sch : Schema) (pos : Nat × Nat × Nat) : Option Field :=
  (sch.get? pos.1).bind fun d => (d.shapes[pos.2.1]?).bind fun sh => sh.fields[pos.2.2]?

open SqlVerif.Schema in
/-- `ObjectName` or `Vec<ObjectName>`: what `pre_visit_relation(&ObjectName)` can be given, as the
    field or as each of its elements -/
def isRelationTy : Ty → Bool
  | .named id => id == SqlVerif.Gen.Schema.objectNameId
  | .vec (.named id) => id == SqlVerif.Gen.Schema.objectNameId
  | _ => false

open SqlVerif.Schema in
def relationField (pos : Nat × Nat × Nat) : Bool :=
  match fieldAt SqlVerif.Gen.Schema.schema pos with
  | some f => (match f.hook with | some 1 => true | _ => false) && isRelationTy f.ty
  | none => false

/-- every relation-hooked field is an `ObjectName` or a `Vec<ObjectName>` (hooked per element) -/
theorem relation_hooks_on_object_names :
    SqlVerif.Gen.Schema.relationHooked.all relationField = true := by
  decide +kernel

/-- every position of the specification, `Vec` positions included, names a field of the schema of
    type `ObjectName` or `Vec<ObjectName>` that carries the relation hook -/
theorem relation_spec_typed :
    relationSpec.all (fun p =>
      match (SqlVerif.Gen.Schema.relationHookedNames.zip SqlVerif.Gen.Schema.relationHooked).lookup p with
      | some pos => relationField pos
      | none => false) = true := by
  decide +kernel

open SqlVerif.Schema in
/-- the targets of a multi-table DELETE are a `Vec<ObjectName>` carrying the relation hook, and the
    hook is applied per element -/
theorem delete_targets_hooked_each :
    (match (SqlVerif.Gen.Schema.relationHookedNames.zip SqlVerif.Gen.Schema.relationHooked).lookup "Delete.tables" with
     | some pos => relationField pos && SqlVerif.Gen.Schema.eachHooked.contains pos &&
        (match (fieldAt SqlVerif.Gen.Schema.schema pos).map (·.ty) with | some (Ty.vec _) => true | _ => false)
     | none => false) = true ∧
    SqlVerif.Gen.Schema.eachHookedNames.contains "Delete.tables" = true := by
  decide +kernel

/-- no hook id outside the five callback families occurs in the schema -/
theorem hooks_known :
    (SqlVerif.Gen.Schema.schema.defs.all fun d =>
      (match d.hook with | some h => decide (h < 5) | none => true) &&
      d.shapes.all fun sh => sh.fields.all fun f => match f.hook with | some h => decide (h < 5) | none => true) = true := by
  decide +kernel

/-! ## non-vacuity -/

/-- `SELECT a FROM t WHERE (SELECT 1)`-like tree: statement(4) > query(0) > [expr(3), table factor(2) with a
    relation-hooked field(1), expr(3) > query(0) > expr(3)] -/
def eLeaf : Val := .node 2 0 (some 3) [(none, .leaf 7)]
def subQuery : Val := .node 1 0 (some 0) [(none, .seq [.node 2 0 (some 3) []])]
def eSub : Val := .node 2 1 (some 3) [(none, .seq [subQuery])]
def tFactor : Val := .node 3 0 (some 2) [(some 1, .node 4 0 none [(none, .seq [.leaf 1])]), (none, .seq [])]
def demo : Val :=
  .node 84 0 (some 4) [(none, .seq [.node 1 0 (some 0) [(none, .seq [eLeaf]), (none, tFactor), (none, .seq [eSub])]])]

example : (fullTrace demo).map (fun e => (e.pos.hook, e.post)) =
    [(4, false), (0, false), (3, false), (3, true), (2, false), (1, false), (1, true), (2, true),
     (3, false), (0, false), (3, false), (3, true), (0, true), (3, true), (0, true), (4, true)] := by decide +kernel
example : (hookedPreorder [] demo).length = 8 := by decide +kernel
example : dyck [] (fullTrace demo) = true := balanced demo
/-- Break at callback 5 (the relation): 6 callbacks, nothing after -/
example : run (fun i => i == 5) demo = (true, ⟨6, (fullTrace demo).take 6⟩) :=
  break_stops _ demo 5 (by decide) (by decide) (by decide +kernel)
example : ((run (fun i => i == 5) demo).2.tr.map (fun e => (e.pos.hook, e.post))) =
    [(4, false), (0, false), (3, false), (3, true), (2, false), (1, false)] := by decide +kernel
/-- `DELETE t1, t2 FROM …`-like tree: statement(4) > delete with a relation-hooked `Vec` of two names:
    one pre/post pair per element, in order; nothing for an empty `Vec`; a hook on a non-`Vec` field
    stays around the field -/
def name1 : Val := .node 4 0 none [(none, .seq [.leaf 1])]
def demoDelete (tables : List Val) : Val :=
  .node 84 3 (some 4) [(none, .node 40 0 none
    [SqlVerif.Reflect.hookField SqlVerif.Gen.Schema.schema (some 1) (.vec (.named 4)) (.seq tables), (none, eLeaf)])]
example : (fullTrace (demoDelete [name1, name1])).map (fun e => (e.pos.hook, e.post, e.pos.path)) =
    [(4, false, []), (1, false, [0, 0, 0]), (1, true, [0, 0, 0]), (1, false, [1, 0, 0]), (1, true, [1, 0, 0]),
     (3, false, [1, 0]), (3, true, [1, 0]), (4, true, [])] := by decide +kernel
example : (fullTrace (demoDelete [])).map (fun e => (e.pos.hook, e.post)) =
    [(4, false), (3, false), (3, true), (4, true)] := by decide +kernel
example : fullTrace (SqlVerif.Reflect.hookedVec SqlVerif.Gen.Schema.schema 1 [name1, eLeaf]) =
    [⟨⟨1, true, [0]⟩, false⟩, ⟨⟨1, true, [0]⟩, true⟩,
     ⟨⟨1, true, [1]⟩, false⟩, ⟨⟨3, false, [1]⟩, false⟩, ⟨⟨3, false, [1]⟩, true⟩, ⟨⟨1, true, [1]⟩, true⟩] :=
  hooked_vec_trace _ 1 [name1, eLeaf]
example : SqlVerif.Reflect.hookField SqlVerif.Gen.Schema.schema (some 1) (.named 4) name1 = (some 1, name1) :=
  hookField_named _ _ _ _
/-- Break inside the loop (at the `pre` of the second element): 4 callbacks, the rest is not delivered -/
example : ((run (fun i => i == 3) (demoDelete [name1, name1])).2.tr.map (fun e => (e.pos.hook, e.post))) =
    [(4, false), (1, false), (1, true), (1, false)] := by decide +kernel
example : SqlVerif.Gen.Schema.eachHooked ≠ [] := by decide

/-- an unbalanced sequence is rejected by `dyck`, so `balanced` says something -/
example : dyck [] [⟨⟨3, false, []⟩, false⟩, ⟨⟨0, false, []⟩, true⟩] = false := by decide
/-- a mutating visitor does change the tree (so `identity_mut` is about the identity visitor, not about all) -/
example : (runM (fun h post v => if h == 3 && !post then (match v with | .node t d hk ks => .node t (d + 10) hk ks | x => x) else v)
    never (.node 2 0 (some 3) [])).map (fun r => beq r.2.1 (.node 2 0 (some 3) [])) = some false := by decide +kernel
example : (runM cbId never demo).map (fun r => beq r.2.1 demo) = some true := by decide +kernel

end SqlVerif.Props.C16

import SqlVerif.Lemmas.CursorStateLemmas
/-!
# C14 — `state_restored`: the parser's mutable flags never outlive a call

`Model/CursorState.lean` extends the deep embedding of cursor programs by the parser fields that
survive a call — `state` (`Normal`/`ConnectBy`), `options.trailing_commas`, the remaining recursion
depth — and by the only three idioms through which `src/parser/mod.rs` writes them
(`parse_projection`'s save/`|=`/restore, `with_state`, `try_decrease()?` + `DepthGuard::drop`),
plus reading the flags anywhere and swallowing errors (`maybe_parse`, `.ok()`).
The theorems hold for EVERY such program, every token vector, every whitespace predicate, every
initial index and every initial flags.  A panic is excluded (Rust unwinding runs `DepthGuard::drop`
but not the two restoring assignments).

Tie: stream `cursorstate` (real `parse_projection`, `parse_expr` at small limits,
`parse_connect_by`, `parse_query` with CONNECT BY; outcome, index and `verif_state()` against the
model programs `CursorState.Real.*` under `runS`).  That every parse function is such a program —
i.e. that no other code writes `state`, `options` or the counter — is the translator's inventory of
assignments to these fields (meta-step, as for C07).
-/
namespace SqlVerif.Props.C14State
open SqlVerif.Cursor SqlVerif.CursorState

variable {τ α : Type}

/-- **state_restored.** After any run that does not panic — success, positioned error or the
recursion-limit error — `state`, `trailing_commas` and the remaining depth are what they were
before the run. -/
theorem state_restored (isWs : τ → Bool) (p : ProgS τ α) (T : List (TL τ)) (i : Nat) (f : Flags) :
    match runS isWs p ⟨T, i⟩ f with
    | .ok _ _ f' => f' = f
    | .err _ _ _ f' => f' = f
    | .limit _ f' => f' = f
    | .panic => True := by
  have h := run_flags isWs p ⟨⟨T, i⟩, f, fun _ => 0, []⟩
  simp only [runS]
  cases hr : run isWs p ⟨⟨T, i⟩, f, fun _ => 0, []⟩ with
  | ok a s' => exact h s'.flags (by rw [hr]; rfl)
  | err m l s' => exact h s'.flags (by rw [hr]; rfl)
  | limit s' => exact h s'.flags (by rw [hr]; rfl)
  | panic => trivial

/-- the same in one line: the flags after the run, when there are any, are the initial ones -/
theorem state_restored' (isWs : τ → Bool) (p : ProgS τ α) (c : CState τ) (f f' : Flags)
    (h : (runS isWs p c f).flags? = some f') : f' = f := by
  simp only [runS, Out.toRes_flags?] at h
  exact run_flags isWs p ⟨c, f, fun _ => 0, []⟩ f' h

/-- also in the middle of a larger program: any machine state, any saved registers, any log -/
theorem state_restored_anywhere (isWs : τ → Bool) (p : ProgS τ α) (s : St τ) (f' : Flags)
    (h : (run isWs p s).flags? = some f') : f' = s.flags :=
  run_flags isWs p s f' h

/-- flags are lost only by a panic -/
theorem flags_lost_iff_panic (isWs : τ → Bool) (p : ProgS τ α) (c : CState τ) (f : Flags) :
    (runS isWs p c f).flags? = none ↔ runS isWs p c f = .panic := by
  cases h : runS isWs p c f <;> simp [ResS.flags?]

/-- **guard_balanced.** `let _g = try_decrease()?; body` followed by `k`: at depth 0 it is the limit
error and nothing has moved; at depth `d + 1` the body runs at depth `d` and — whatever the body is
and however it ends — `drop`'s `+ 1` brings the counter back to exactly `d + 1` (and every other
flag to its value), for the continuation as well as for the error that is passed on. -/
theorem guard_balanced (isWs : τ → Bool) (body : ProgS τ α) (k : α → ProgS τ α) (s : St τ) :
    (s.flags.depth = 0 → run isWs (.withGuard body k) s = .limit s) ∧
    (∀ d, s.flags.depth = d + 1 →
      run isWs (.withGuard body k) s =
        match run isWs body (s.setDepth d) with
        | .ok a s' => run isWs (k a) { s' with flags := s.flags }
        | .err m h s' => .err m h { s' with flags := s.flags }
        | .limit s' => .limit { s' with flags := s.flags }
        | .panic => .panic) := by
  constructor
  · intro h0; simp [run, h0]
  · intro d hd
    have key : ∀ s' : St τ, s'.flags = (s.setDepth d).flags →
        s'.setDepth (s'.flags.depth + 1) = { s' with flags := s.flags } := by
      intro s' e
      simp only [St.setDepth, e]
      cases hs : s.flags
      simp_all
    simp only [run, hd]
    cases hr : run isWs body (s.setDepth d) with
    | ok a s' => simp only []; rw [key s' (run_ok_flags hr)]
    | err m h s' => simp only []; rw [key s' (run_err_flags hr)]
    | limit s' => simp only []; rw [key s' (run_limit_flags hr)]
    | panic => rfl

/-- the analogous unfolding for `parse_projection`: the continuation starts from the caller's flags -/
theorem trailing_balanced (isWs : τ → Bool) (v : Bool) (body : ProgS τ α) (k : α → ProgS τ α) (s : St τ) :
    run isWs (.withTrailing v body k) s =
      match run isWs body (s.setTrailing (s.flags.trailingCommas || v)) with
      | .ok a s' => run isWs (k a) { s' with flags := s.flags }
      | .err m h s' => .err m h { s' with flags := s.flags }
      | .limit s' => .limit { s' with flags := s.flags }
      | .panic => .panic := by
  have key : ∀ s' : St τ, s'.flags = (s.setTrailing (s.flags.trailingCommas || v)).flags →
      s'.setTrailing s.flags.trailingCommas = { s' with flags := s.flags } := by
    intro s' e
    simp only [St.setTrailing, e]
  simp only [run]
  cases hr : run isWs body (s.setTrailing (s.flags.trailingCommas || v)) with
  | ok a s' => simp only []; rw [key s' (run_ok_flags hr)]
  | err m h s' => simp only []; rw [key s' (run_err_flags hr)]
  | limit s' => simp only []; rw [key s' (run_limit_flags hr)]
  | panic => rfl

/-- … and for `with_state` -/
theorem state_balanced (isWs : τ → Bool) (n : Bool) (body : ProgS τ α) (k : α → ProgS τ α) (s : St τ) :
    run isWs (.withState n body k) s =
      match run isWs body (s.setNormal n) with
      | .ok a s' => run isWs (k a) { s' with flags := s.flags }
      | .err m h s' => .err m h { s' with flags := s.flags }
      | .limit s' => .limit { s' with flags := s.flags }
      | .panic => .panic := by
  have key : ∀ s' : St τ, s'.flags = (s.setNormal n).flags →
      s'.setNormal s.flags.stateNormal = { s' with flags := s.flags } := by
    intro s' e
    simp only [St.setNormal, e]
  simp only [run]
  cases hr : run isWs body (s.setNormal n) with
  | ok a s' => simp only []; rw [key s' (run_ok_flags hr)]
  | err m h s' => simp only []; rw [key s' (run_err_flags hr)]
  | limit s' => simp only []; rw [key s' (run_limit_flags hr)]
  | panic => rfl

/-! ### History form -/

/-- One `Parser` value used for a sequence of runs: each run re-targets the tokens
(`with_tokens_with_locations`: new vector, index 0; options, state and counter are NOT touched) and
starts from whatever flags the previous run left.  A panicking run ends the sequence (the value is
abandoned). -/
def runsThreaded (isWs : τ → Bool) (f : Flags) : List (ProgS τ α × List (TL τ)) → List (ResS α)
  | [] => []
  | (p, T) :: rest =>
    let r := runS isWs p ⟨T, 0⟩ f
    match r.flags? with
    | none => [r]
    | some f' => r :: runsThreaded isWs f' rest

/-- the same sequence with a fresh parser, configured with `f₀`, for every run -/
def runsFresh (isWs : τ → Bool) (f₀ : Flags) : List (ProgS τ α × List (TL τ)) → List (ResS α)
  | [] => []
  | (p, T) :: rest =>
    let r := runS isWs p ⟨T, 0⟩ f₀
    match r.flags? with
    | none => [r]
    | some _ => r :: runsFresh isWs f₀ rest

/-- **flags_do_not_leak_between_runs.** Whatever the earlier runs were (accepted, rejected, limit
error), every run of the sequence starts from the configured flags: the reused parser answers
exactly like a fresh one. -/
theorem flags_do_not_leak_between_runs (isWs : τ → Bool) (f₀ : Flags)
    (history : List (ProgS τ α × List (TL τ))) :
    runsThreaded isWs f₀ history = runsFresh isWs f₀ history := by
  induction history with
  | nil => rfl
  | cons x rest ih =>
    obtain ⟨p, T⟩ := x
    simp only [runsThreaded, runsFresh]
    cases h : (runS isWs p ⟨T, 0⟩ f₀).flags? with
    | none => rfl
    | some f' =>
      have := state_restored' isWs p ⟨T, 0⟩ f₀ f' h
      subst this
      simp only [ih]

/-- when no run panics, run `k` of the reused parser is the run of a fresh parser on text `k` -/
theorem reused_eq_fresh (isWs : τ → Bool) (f₀ : Flags) (history : List (ProgS τ α × List (TL τ)))
    (hnp : ∀ x ∈ history, runS isWs x.1 ⟨x.2, 0⟩ f₀ ≠ .panic) :
    runsThreaded isWs f₀ history = history.map fun x => runS isWs x.1 ⟨x.2, 0⟩ f₀ := by
  rw [flags_do_not_leak_between_runs]
  induction history with
  | nil => rfl
  | cons x rest ih =>
    obtain ⟨p, T⟩ := x
    simp only [runsFresh, List.map_cons]
    cases h : (runS isWs p ⟨T, 0⟩ f₀).flags? with
    | none =>
      exact absurd ((flags_lost_iff_panic isWs p ⟨T, 0⟩ f₀).1 h) (hnp (p, T) (List.mem_cons_self ..))
    | some f' =>
      simp only []
      rw [ih fun x hx => hnp x (List.mem_cons_of_mem _ hx)]

/-! ### The cursor theorems carry over to programs with flags -/

/-- `ProgS` extends `Cursor.Prog` conservatively: a lifted plain program has the same value, the
same positioned error, the same panic, never the limit error — and (by `state_restored`) the flags
it was started with -/
theorem lift_conservative (isWs : τ → Bool) (p : Prog τ α) (c : CState τ) (f : Flags) :
    (runS isWs (lift p) c f).core = runC isWs p c (fun _ => 0) [] :=
  (run_lift isWs p ⟨c, f, fun _ => 0, []⟩).1

/-- **Whitespace blindness with flags** (C07 lifted): two token vectors with the same
non-whitespace tokens give, for every whitespace-skipping program with flags and every initial
flags, the same value / error message / limit error / panic and the same final flags. -/
theorem layout_blind_flags (isWs : τ → Bool) (T T' : List (TL τ)) (p : ProgS τ α) (hp : SkippingS p)
    (f : Flags) (h : (nonWs isWs T).map (·.tok) = (nonWs isWs T').map (·.tok)) :
    (runS isWs p ⟨T, 0⟩ f).shape = (runS isWs p ⟨T', 0⟩ f).shape := by
  have hs := skipping_toProg p hp f
  have h1 := runC_refines_runA isWs T (toProg p f) hs 0 (fun _ => 0) (fun _ => 0) [] (by simp [absPosR_zero])
  have h2 := runC_refines_runA isWs T' (toProg p f) hs 0 (fun _ => 0) (fun _ => 0) [] (by simp [absPosR_zero])
  rw [runS_shape, runS_shape, h1.shape_eq, h2.shape_eq, absPosR_zero, absPosR_zero]
  exact congrArg _ (runA_loc_irrelevant (toProg p f) _ _ 0 _ [] [] h).1

/-- C14 `with_tokens_agrees` lifted: erasing all locations changes nothing but reported locations -/
theorem with_tokens_agrees_flags (isWs : τ → Bool) (p : ProgS τ α) (T : List (TL τ)) (f : Flags) :
    (runS isWs p ⟨eraseLocs T, 0⟩ f).shape = (runS isWs p ⟨T, 0⟩ f).shape := by
  rw [runS_shape, runS_shape]
  exact congrArg _ (runC_erase isWs (toProg p f) T 0 _ [] [])

/-- C10 `error_location_is_real` lifted: a reported location is the location of an input token, or (0,0) -/
theorem error_location_is_real_flags (isWs : τ → Bool) (p : ProgS τ α) (T : List (TL τ)) (i : Nat)
    (f f' : Flags) (m : Nat) (l : Loc) (pos : Nat) (h : runS isWs p ⟨T, i⟩ f = .err m l pos f') :
    l = eofLoc ∨ l ∈ T.map (·.loc) :=
  loc_sound isWs T (toProg p f) i (fun _ => 0) [] (by simp) m l
    (runS_err_compiled isWs p ⟨T, i⟩ f m l pos f' h)

/-! ### Non-vacuity: the model of `parse_projection` on `a , b , FROM` -/
section Examples
open SqlVerif.CursorState.Real

private def mk (l : List FTok) : List (TL FTok) := l.zipIdx.map fun (t, i) => ⟨t, ⟨1, i + 1⟩⟩
private def a : FTok := .word 0 false
private def from' : FTok := .word kFROM true

-- BigQuery/Snowflake (`v = true`), option off: two items, cursor left at FROM, option off again
example : runS FTok.isWs (projection true 8) ⟨mk [a, .comma, .ws, a, .comma, from'], 0⟩ ⟨true, false, 5⟩
    = .ok 2 5 ⟨true, false, 5⟩ := by decide +kernel
-- Generic (`v = false`): `FROM` is read as a select item and rejected; flags as before
example : (runS FTok.isWs (projection false 8) ⟨mk [a, .comma, .ws, a, .comma, from'], 0⟩ ⟨true, false, 5⟩).shape
    = .err 4 ⟨true, false, 5⟩ := by decide +kernel
-- `a , , b`: error inside the scope, option restored
example : (runS FTok.isWs (projection true 8) ⟨mk [a, .comma, .comma, a], 0⟩ ⟨true, false, 5⟩).shape
    = .err 2 ⟨true, false, 5⟩ := by decide +kernel
-- remaining depth 1: the limit error from two guards down, counter back at 1
example : runS FTok.isWs (projection true 8) ⟨mk [a], 0⟩ ⟨true, false, 1⟩ = .limit 0 ⟨true, false, 1⟩ := by decide +kernel
-- `CONNECT BY PRIOR a START WITH a`: PRIOR is an operator only inside `with_state(ConnectBy)`
example : runS FTok.isWs (connectBy 9 .ret)
    ⟨mk [.word kCONNECT false, .word kBY false, .word kPRIOR false, a, .word kSTART false, .word kWITH true, a], 0⟩
    ⟨true, false, 9⟩ = .ok 1 7 ⟨true, false, 9⟩ := by decide +kernel
example : (runS FTok.isWs (connectBy 9 .ret)
    ⟨mk [.word kSTART false, .word kWITH true, .word kPRIOR false, a], 0⟩ ⟨true, false, 9⟩).shape
    = .err 3 ⟨true, false, 9⟩ := by decide +kernel
-- a reused parser: rejected, limit error, accepted — each run from the configured flags
example : (runsThreaded FTok.isWs ⟨true, false, 3⟩
    [(projection true 8, mk [a, .comma, .comma]), (exprTop 8, mk [.lparen, .lparen, a]), (projection true 8, mk [a, .comma, from'])]).map
      ResS.shape = [.err 2 ⟨true, false, 3⟩, .limit ⟨true, false, 3⟩, .ok 1 ⟨true, false, 3⟩] := by decide +kernel
end Examples

/-- The full property clause: after any public parse call of the REAL parser the three fields are
restored.  Additionally needs the meta-step that every parse function is a `ProgS` (no write to
`state`, `options.trailing_commas` or the counter outside the three idioms). -/
def FullStatement : Prop :=
  ∀ (isWs : τ → Bool) (p : ProgS τ α) (c : CState τ) (f f' : Flags),
    (runS isWs p c f).flags? = some f' → f' = f

theorem full_statement_model : @FullStatement τ α := fun isWs p c f f' h => state_restored' isWs p c f f' h

end SqlVerif.Props.C14State

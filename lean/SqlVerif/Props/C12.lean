import SqlVerif.Lemmas.LimitLemmas
/-!
# C12 — the recursion limit only surfaces as the limit error

Model: `Model/Pratt.lean` (the expression parser with its `RecursionCounter`; every
`parse_subexpr` keeps one level, `parse_prefix` needs one free level for the typed-string probe
behind `maybe_parse`, `::type` takes one level in `parse_data_type`), tied to the code by the
streams `ladder` (fragment inputs × limits 0…60) and `chains`.

* `limit_monotone` / `limit_monotone_expr`: for EVERY configuration, fuel, context precedence,
  token list and limits `n ≤ m`: the outcome under `n` is `Err.rle` or is *identical* (same tree and
  rest, or same error) to the outcome under `m`.
* `limit_stable`: once the outcome under `n` is not the limit error it is the outcome under every
  larger limit ("no limit pressure at all").
* The model contains NO place where an `rle` error of a sub-parse is turned into something else:
  every `match … | .error er => .error er` passes errors on unchanged, and the one speculative
  parse of the fragment (`maybe_parse(parse_data_type)` at the head of `parse_prefix`) is
  modelled by `if d = 0 then .error .rle` (CURRENT code: `maybe_parse` passes
  `RecursionLimitExceeded` on).  With the OLD `maybe_parse` (any `Err` ⇒ "no match") that branch
  would fall through to the ordinary prefix parse and the theorem would be false for a model of it
  only in the sense of `spec_limit_swallowed` below: the abstract combinator language `Spec`
  shows why propagation is needed (`spec_limit_monotone` holds for `maybePropagate`, and
  `spec_limit_swallowed_*` are kernel-checked counterexamples for `maybeSwallow`).
* Whole grammar: oracle `C12` on the real code (corpus × dialects × limit ladder).
-/
namespace SqlVerif.Props.C12
open SqlVerif.Pratt SqlVerif.Gen SqlVerif.Limit

/-- the outcome under limit `n` is the limit error or the outcome under any `m ≥ n` -/
theorem limit_monotone (c : Cfg) (fuel n m p : Nat) (ts : List Tok) (h : n ≤ m) :
    parseSubexpr c fuel n p ts = .error .rle ∨ parseSubexpr c fuel n p ts = parseSubexpr c fuel m p ts :=
  (mono_all c fuel).1 n m p ts h

theorem limit_monotone_expr (c : Cfg) (fuel n m : Nat) (ts : List Tok) (h : n ≤ m) :
    parseExpr c fuel n ts = .error .rle ∨ parseExpr c fuel n ts = parseExpr c fuel m ts :=
  limit_monotone c fuel n m c.prec.unknown ts h

/-- the same for the other four functions of the mutual block -/
theorem limit_monotone_all (c : Cfg) (fuel n m : Nat) (h : n ≤ m) :
    (∀ p e ts, loop c fuel n p e ts = .error .rle ∨ loop c fuel n p e ts = loop c fuel m p e ts) ∧
    (∀ ts, parsePrefix c fuel n ts = .error .rle ∨ parsePrefix c fuel n ts = parsePrefix c fuel m ts) ∧
    (∀ e q ts, parseInfix c fuel n e q ts = .error .rle ∨ parseInfix c fuel n e q ts = parseInfix c fuel m e q ts) ∧
    (∀ ts, parseItems c fuel n ts = .error .rle ∨ parseItems c fuel n ts = parseItems c fuel m ts) :=
  ⟨fun p e ts => (mono_all c fuel).2.1 n m p e ts h, fun ts => (mono_all c fuel).2.2.1 n m ts h,
   fun e q ts => (mono_all c fuel).2.2.2.1 n m e q ts h, fun ts => (mono_all c fuel).2.2.2.2 n m ts h⟩

/-- no limit pressure: an outcome that is not the limit error is the outcome under every larger limit -/
theorem limit_stable (c : Cfg) (fuel n : Nat) (ts : List Tok) (h : parseExpr c fuel n ts ≠ .error .rle) :
    ∀ m, n ≤ m → parseExpr c fuel m ts = parseExpr c fuel n ts := by
  intro m hm
  rcases limit_monotone_expr c fuel n m ts hm with h1 | h1
  · exact absurd h1 h
  · exact h1.symm

/-- a syntax error reported under a small limit is the syntax error of the unlimited run: running out
of depth is never reported as a mismatch, and never selects another tree -/
theorem limit_error_is_real (c : Cfg) (fuel n m : Nat) (ts : List Tok) (msg : W) (h : n ≤ m)
    (he : parseExpr c fuel n ts = .error (.syntax msg)) : parseExpr c fuel m ts = .error (.syntax msg) := by
  rw [limit_stable c fuel n ts (by simp [he]) m h, he]

theorem limit_tree_is_real (c : Cfg) (fuel n m : Nat) (ts : List Tok) (e : Expr) (rest : List Tok) (h : n ≤ m)
    (he : parseExpr c fuel n ts = .ok (e, rest)) : parseExpr c fuel m ts = .ok (e, rest) := by
  rw [limit_stable c fuel n ts (by simp [he]) m h, he]

-- ------------------------------------------------------------------ why propagation matters
/-- programs built with the propagating `maybe_parse` are limit-monotone -/
theorem spec_limit_monotone (p : Prog) (n m : Nat) (ts : List Nat) (h : n ≤ m) :
    maybePropagate p n ts = .error .rle ∨ maybePropagate p n ts = maybePropagate p m ts :=
  SqlVerif.Limit.spec_limit_monotone p n m ts h

/-- `maybe_parse(guard (guard 7))`, else `8`: the shape of "try a nested form, fall back to a flat one" -/
def witness : Prog := .alt (.guard (.guard (.tok 7))) (.tok 8)
/-- both alternatives accept the input, the speculative one needs two levels -/
def witness2 : Prog := .alt (.guard (.guard (.tok 7))) (.tok 7)

/-- OLD behaviour, counterexample 1: under limit 1 the input `[7]` is *rejected with a syntax error*
although it is accepted under limit 2 — depth exhaustion inside the speculative parse is taken for
a mismatch and the error message of the fallback is reported -/
theorem spec_limit_swallowed_error :
    maybeSwallow witness 1 [7] = .error (.mismatch 1) ∧ maybeSwallow witness 2 [7] = .ok ([1001, 7], []) := by
  decide

/-- OLD behaviour, counterexample 2: under limit 1 *another interpretation* is silently selected -/
theorem spec_limit_swallowed_tree :
    maybeSwallow witness2 1 [7] = .ok ([1002, 7], []) ∧ maybeSwallow witness2 2 [7] = .ok ([1001, 7], []) := by
  decide

/-- hence limit-monotonicity FAILS for the swallowing combinator -/
theorem limit_swallowed :
    ¬ (∀ (p : Prog) (n m : Nat) (ts : List Nat), n ≤ m →
        maybeSwallow p n ts = .error .rle ∨ maybeSwallow p n ts = maybeSwallow p m ts) := by
  intro h
  have := h witness 1 2 [7] (by decide)
  rw [spec_limit_swallowed_error.1, spec_limit_swallowed_error.2] at this
  rcases this with h1 | h1 <;> cases h1

/-- … while the CURRENT combinator answers `rle` on the same witnesses -/
theorem spec_limit_propagated :
    maybePropagate witness 1 [7] = .error .rle ∧ maybePropagate witness2 1 [7] = .error .rle ∧
    maybePropagate witness 2 [7] = .ok ([1001, 7], []) := by decide

/-- The property for the whole grammar, as a predicate on a parser `parseSql limit text` (every
parse function, every statement kind).  Not proved for the real parser (the model covers the
expression fragment); decided on the real code by the oracle `C12`. -/
def FullStatement {Outcome : Type} (isRle : Outcome → Prop) (parseSql : Nat → List Nat → Outcome) : Prop :=
  ∀ n m sql, n ≤ m → isRle (parseSql n sql) ∨ parseSql n sql = parseSql m sql

/-- the expression model is an instance -/
theorem fullStatement_fragment (c : Cfg) (fuel : Nat) :
    FullStatement (Outcome := Res) (· = .error .rle) (fun l (_ : List Nat) => parseExpr c fuel l []) ∧
    ∀ ts, FullStatement (Outcome := Res) (· = .error .rle) (fun l _ => parseExpr c fuel l ts) :=
  ⟨fun n m _ h => limit_monotone_expr c fuel n m [] h, fun ts n m _ h => limit_monotone_expr c fuel n m ts h⟩

-- ------------------------------------------------------------------ non-vacuity
section Examples
def g : Cfg := Cfg.ofRow dialect_generic
def a : Tok := .word (str "a") none none
def lp : Tok := .sym .LParen
def rp : Tok := .sym .RParen
def nest (k : Nat) : List Tok := List.replicate k lp ++ [a] ++ List.replicate k rp
def nested : Nat → Expr
  | 0 => .atom .ident [a]
  | k + 1 => .nested (nested k)

-- five levels of parentheses need 5 + 2 = 7 levels: every limit below answers `rle`, every
-- limit from there on the same tree
example : (List.range 7).all (fun l => parseExpr g 200 l (nest 5) == .error .rle) = true ∧
    (List.range 8).all (fun l => parseExpr g 200 (7 + l) (nest 5) == .ok (nested 5, [])) = true := by
  decide +kernel

-- a syntax error is reported under exactly the limits that reach it: `((a a` fails at the second `a` with 4 levels
example : parseExpr g 200 3 [lp, lp, a, a] = .error .rle ∧
    parseExpr g 200 4 [lp, lp, a, a] = .error (.syntax (str "Expected: ), found: a")) ∧
    parseExpr g 200 60 [lp, lp, a, a] = .error (.syntax (str "Expected: ), found: a")) := by
  decide +kernel

-- `::` takes its extra level inside parse_infix
example : parseExpr g 200 2 [a, .sym .DoubleColon, .word (str "INT") none (some (kwIndex "INT"))] =
      .ok (.post .cast (.atom .ident [a]) [.sym .DoubleColon, .word (str "INT") none (some (kwIndex "INT"))], []) ∧
    parseExpr g 200 1 [a, .sym .DoubleColon, .word (str "INT") none (some (kwIndex "INT"))] = .error .rle := by
  decide +kernel
end Examples

end SqlVerif.Props.C12

import SqlVerif.Lemmas.QueryExt
import SqlVerif.Props.C11
/-!
# C11 on the query fragment — modelled query statements are local, scripts of them concatenate

`Model/Query.lean` mirrors `parse_statement` (query statements) → `parse_query` → `parse_query_body`
/ `parse_select` / `parse_table_and_joins` … on real tokens (stream `queries`: S-expressions and
`to_string()` against the real `parse_statements()`, all 13 dialects).  For EVERY configuration
record, fuel, recursion limit and token list:

* `query_local`: if the modelled statement parser accepts the text `s` completely
  (`parseStatement c fuel limit s = ok (q, [])`), it is *local* on `s` in the sense of
  `SqlVerif.Stmts.LocalOn`: followed by EOF or by `;` and anything else it returns the same tree and
  stops exactly in front of the `;` — it never looks past the separator.
  Proof: every parser function of the model (and of the Pratt model below it) repeats a successful
  run when `; …` is appended to its input (`Lemmas/PrattExt.lean`, `Lemmas/QueryExt.lean`:
  simultaneous fuel inductions over both mutual blocks): every peek past the end sees EOF in one run
  and `;` in the other, and all of them treat the two alike.
* `script_concat_queries`: hence (`loop_concat`) a script `;* s₁ ;+ s₂ ;+ … sₙ ;*` of accepted
  query statements, in any separator layout, parses — with the REAL loop model `parseStatements`
  of `Model/Stmts.lean` around the statement model — to exactly `[q₁, …, qₙ]`.
* `query_yield` (shared with C01/C05): the consumed tokens are exactly the yield of the tree.

Partial: query statements of the fragment only; the other ~100 statement parsers are decided by the
follower oracle on the real code.
-/
namespace SqlVerif.Props.C11Query
open SqlVerif.Pratt SqlVerif.Query SqlVerif.Stmts

/-- consumed tokens = in-order yield of the returned tree (extends `yield` of C04 to statements) -/
theorem query_yield (c : QCfg) (fuel limit : Nat) (ts : List Tok) (q : Query) (rest : List Tok)
    (h : parseStatement c fuel limit ts = .ok (q, rest)) : ts = q.flatten ++ rest :=
  parseStatement_yield c fuel limit ts q rest h

theorem isSemi_eq {t : Tok} (h : stmtClass.isSemi t = true) : t = semi := by
  simp only [stmtClass, Tok.isSym] at h
  split at h
  · simp at h; subst h; rfl
  · simp at h

/-- **the modelled statement parser is local** on every statement text it accepts completely -/
theorem query_local (c : QCfg) (fuel limit : Nat) (s : List Tok) (q : Query)
    (h : parseStatement c fuel limit s = .ok (q, [])) :
    LocalOn stmtClass (parseStatement c fuel limit) s q := by
  intro fo hf
  rcases hf with rfl | ⟨t, r, rfl, ht⟩
  · simpa using h
  · rw [isSemi_eq ht]
    simpa using parseStatement_semi c r fuel limit s q [] h

/-- an accepted statement text begins a statement -/
theorem query_starts (c : QCfg) (fuel limit : Nat) (s : List Tok) (q : Query) (rest : List Tok)
    (h : parseStatement c fuel limit s = .ok (q, rest)) : StartsStmt stmtClass s := by
  obtain ⟨t, r, hs, hn⟩ := parseStatement_starts c fuel limit s q rest h
  exact ⟨t, r, hs, hn⟩

/-- **a script of modelled query statements parses to the list of their trees**, whatever the
layout of separators (leading, trailing, repeated `;`) -/
theorem script_concat_queries (c : QCfg) (fuel limit : Nat) (items : List (List Tok × Query × List Tok))
    (sep0 : List Tok) (hs0 : AllSemis stmtClass sep0) (hsep : ∀ it ∈ items, AllSemis stmtClass it.2.2)
    (hacc : ∀ it ∈ items, parseStatement c fuel limit it.1 = .ok (it.2.1, []))
    (hinner : InnerSepsNonEmpty (items.map fun it => (it.1, it.2.2))) :
    parseScript c fuel limit (script sep0 (items.map fun it => (it.1, it.2.2))) = .ok (items.map (·.2.1)) :=
  SqlVerif.Props.C11.script_concat stmtClass (parseStatement c fuel limit) items sep0 hs0 hsep
    (fun it hit => query_starts c fuel limit _ _ _ (hacc it hit))
    (fun it hit => query_local c fuel limit _ _ (hacc it hit)) hinner

-- ------------------------------------------------------------------ non-vacuity
section Examples
open SqlVerif.Gen
def g : QCfg := QCfg.ofRow dialect_generic
def wd (s : String) : Tok := .word (str s) none none
def kw (s : String) : Tok := .word (str s) none (some (kwIndex s))

/-- `SELECT a, b x FROM t JOIN u ON a = b WHERE c ORDER BY a DESC LIMIT 1` -/
def s1 : List Tok :=
  [kw "SELECT", wd "a", .sym .Comma, wd "b", wd "x", kw "FROM", wd "t", kw "JOIN", wd "u", kw "ON", wd "a", .sym .Eq, wd "b",
   kw "WHERE", wd "c", kw "ORDER", kw "BY", wd "a", kw "DESC", kw "LIMIT", .number (str "1") false]
/-- `(SELECT 1) UNION ALL SELECT * FROM (SELECT 2) AS d` -/
def s2 : List Tok :=
  [.sym .LParen, kw "SELECT", .number (str "1") false, .sym .RParen, kw "UNION", kw "ALL", kw "SELECT", .sym .Mul, kw "FROM",
   .sym .LParen, kw "SELECT", .number (str "2") false, .sym .RParen, kw "AS", wd "d"]

def accepts (s : List Tok) : Bool := match parseStatement g 400 50 s with | .ok (_, []) => true | _ => false

example : accepts s1 = true ∧ accepts s2 = true := by decide +kernel

/-- the script `; s1 ;; s2 ;` parses to the two trees, the tokens of each statement are its yield,
and `s1 s2` without a separator is rejected by the loop -/
example :
    (match parseScript g 400 50 ([semi] ++ s1 ++ [semi, semi] ++ s2 ++ [semi]), parseStatement g 400 50 s1, parseStatement g 400 50 s2 with
     | .ok [a, b], .ok (a', []), .ok (b', []) => a == a' && b == b' && a.flatten == s1 && b.flatten == s2
     | _, _, _ => false) = true ∧
    (match parseScript g 400 50 (s1 ++ s2) with | .error .expectedEnd => true | _ => false) = true := by
  decide +kernel
end Examples

/-- The full property: every statement kind of every dialect is local (not proved: only query
statements of the fragment are modelled; the rest is searched by the follower oracle). -/
def FullStatement : Prop :=
  ∀ (ps : List Tok → Except Err (Query × List Tok)) (s : List Tok) (q : Query),
    ps s = .ok (q, []) → LocalOn stmtClass ps s q

end SqlVerif.Props.C11Query

import SqlVerif.Lemmas.PrattClimb
import SqlVerif.Lemmas.SetClimbLemmas
/-!
# C04 — operator chains group as the precedence table says

Model: `Model/Pratt.lean` (`parse_subexpr`, `get_next_precedence`, `parse_prefix` on a fragment,
`parse_infix`, …), tied to the code by the streams `prec` (exhaustive) and `chains`.
Generated: `Gen/Dialects.lean` (the 13 `prec_value` tables), `Gen/Keywords.lean`.

All theorems hold for EVERY configuration record `c : Cfg` (any precedence table, any flag
values — the 13 built-in rows are instances `Cfg.ofRow r`), every fuel, every recursion depth,
every context precedence and every token list.

* `yield`              the tokens consumed are exactly the in-order yield of the tree;
* `shape`              the tree is `WellShaped`: at every node nothing exposed on the right edge of
                       the left operand binds looser than the node, nothing exposed on the left
                       edge of the right operand binds looser-or-equal (left associativity); prefix
                       `NOT`, unary sign and the PostgreSQL prefix operators, `BETWEEN` bounds,
                       `LIKE` patterns, `AT TIME ZONE`, `IS [NOT] DISTINCT FROM`, casts sit at
                       their documented class; the loop stopped because `nextPrec rest ≤ p`;
* `unique_bracketing`  two well-shaped trees over identifiers and binary operators with the same
                       yield are equal (so a disagreement with the model on such a chain is a
                       violation, not a modelling choice);
* `parse_eq_climbSpec` on `operand (operator operand)*` the parser builds the tree of the
                       independently defined left-to-right fold `climbSpec`;
* `nested_preserved`   `( e )` is parsed as a complete expression at level `unknown`, whatever the
                       context, appears as `nested`, and closes both edges (`nested_closes`);
* `levels_consistent`, `keyword_classes` — side conditions re-decided on the generated tables.

The general uniqueness statement (prefix / postfix / mixfix nodes included) is `FullStatement`;
it is not proved here: for those chains the tie is the exhaustive pair/triple differential.

The last section states the same theorems for set operations (`setops_*`, model
`Model/SetClimb.lean`: `UNION` = `EXCEPT` = 10 < `INTERSECT` = 20, parenthesised bodies, stream `setops`).
-/
namespace SqlVerif.Props.C04
open SqlVerif.Pratt SqlVerif.Gen

-- ------------------------------------------------------------------ side conditions on Gen tables
/-- the keyword classifier of the model separates the 16 keywords it is about: in the table the
crate defines now they are 16 different entries (re-decided by the kernel on every run) -/
theorem keyword_classes :
    [KW.OR, KW.AND, KW.XOR, KW.AT, KW.NOT, KW.IS, KW.IN, KW.BETWEEN, KW.LIKE, KW.ILIKE, KW.RLIKE,
     KW.REGEXP, KW.SIMILAR, KW.OPERATOR, KW.DIV, KW.COLLATE].map kwClass =
    [.or, .and, .xor, .at, .not, .is, .in_, .between, .like, .ilike, .rlike, .regexp, .similar,
     .operator, .div, .collate] ∧
    ([KW.OR, KW.AND, KW.XOR, KW.AT, KW.NOT, KW.IS, KW.IN, KW.BETWEEN, KW.LIKE, KW.ILIKE, KW.RLIKE,
      KW.REGEXP, KW.SIMILAR, KW.OPERATOR, KW.DIV, KW.COLLATE, KW.TIME, KW.ZONE, KW.NULL, KW.TRUE,
      KW.FALSE, KW.UNKNOWN, KW.DISTINCT, KW.FROM, KW.ESCAPE, KW.ANY, KW.ALL, KW.SOME, KW.TO].all
        (· < keywordsList.length)) = true := by
  decide +kernel

/-- documented order of the classes, for each of the 13 rows -/
def rowOrdered (r : DialectRow) : Bool :=
  let p := r.prec
  decide (p.unknown < p.pOr) && decide (p.pOr < p.pAnd) && decide (p.pAnd < p.pUnaryNot) &&
  decide (p.pUnaryNot < p.pIs) && decide (p.pIs < p.pLike) && decide (p.pLike ≤ p.pBetween) &&
  decide (p.pIs < p.pEq) && decide (p.pEq ≤ p.pBetween) && decide (p.pBetween < p.pPipe) &&
  decide (p.pXor < p.pPlusMinus) && decide (p.pBetween < p.pPlusMinus) &&
  decide (p.pPlusMinus < p.pMulDivModOp) && decide (p.pMulDivModOp < p.pAtTz) &&
  decide (p.pAtTz < p.pDoubleColon) && decide (p.pUnaryNot < p.pPgOther)

theorem levels_consistent : dialects.all rowOrdered = true ∧ dialects.length = 13 := by decide

-- ------------------------------------------------------------------ main theorems
/-- consumed tokens are exactly the in-order yield -/
theorem yield (c : Cfg) (fuel depth p : Nat) (ts : List Tok) (e : Expr) (rest : List Tok)
    (h : parseSubexpr c fuel depth p ts = .ok (e, rest)) : ∃ pre, ts = pre ++ rest ∧ e.flatten = pre :=
  ⟨e.flatten, (yield_all c fuel).1 _ _ _ _ _ h, rfl⟩

/-- the tree is well shaped, exposes only levels above the context precedence on its left edge,
nothing on its right edge binds looser than what follows, and the loop stopped for the right reason -/
theorem shape (c : Cfg) (fuel depth p : Nat) (ts : List Tok) (e : Expr) (rest : List Tok)
    (h : parseSubexpr c fuel depth p ts = .ok (e, rest)) :
    WellShaped c e ∧ (∀ y ∈ leftOpen c e, p < y) ∧ (∀ x ∈ rightOpen c e, nextPrec c rest ≤ x) ∧
    nextPrec c rest ≤ p :=
  (shape_all c fuel).1 _ _ _ _ _ h

/-- what `WellShaped` says at a binary node, spelled out -/
theorem shape_binary (c : Cfg) (k : BinKind) (l r : Expr) (ops : List Tok)
    (w : WellShaped c (.bin k l ops r)) :
    (∀ x ∈ rightOpen c l, binLevel c k ops ≤ x) ∧ (∀ y ∈ leftOpen c r, binLevel c k ops < y) := ⟨w.1, w.2.1⟩

/-- `NOT`, unary sign: the operand exposes only levels above `UnaryNot` / `MulDivModOp`
(`PlusMinus` for the PostgreSQL prefix operators) -/
theorem shape_prefix (c : Cfg) (o : UnOp) (t : Tok) (e : Expr) (w : WellShaped c (.pre o t e)) :
    ∀ y ∈ leftOpen c e, prefixLevel c o < y := w.1

example (c : Cfg) : prefixLevel c .Not = c.prec.pUnaryNot ∧ prefixLevel c .Minus = c.prec.pMulDivModOp ∧
    prefixLevel c .Plus = c.prec.pMulDivModOp ∧ prefixLevel c .PGAbs = c.prec.pPlusMinus := ⟨rfl, rfl, rfl, rfl⟩

/-- `BETWEEN` bounds expose only levels above `Between`; the node itself sits at `Between` -/
theorem shape_between (c : Cfg) (neg : Bool) (l lo hi : Expr) (ops : List Tok) (a : Tok)
    (w : WellShaped c (.between neg l ops lo a hi)) :
    (∀ x ∈ rightOpen c l, c.prec.pBetween ≤ x) ∧ (∀ y ∈ leftOpen c lo, c.prec.pBetween < y) ∧
    (∀ y ∈ leftOpen c hi, c.prec.pBetween < y) := ⟨w.1, w.2.1, w.2.2.1⟩

/-- `LIKE`-family patterns (with or without `ESCAPE`) expose only levels above `Like` -/
theorem shape_like (c : Cfg) (k : LikeKind) (neg any : Bool) (l pat : Expr) (ops esc : List Tok) :
    (WellShaped c (.bin (.like k neg any) l ops pat) → ∀ y ∈ leftOpen c pat, c.prec.pLike < y) ∧
    (WellShaped c (.likeEsc k neg any l ops pat esc) → ∀ y ∈ leftOpen c pat, c.prec.pLike < y) :=
  ⟨fun w => w.2.1, fun w => w.2.1⟩

/-- casts, `IS …` tests and `AT TIME ZONE` sit at `DoubleColon`, `Is`, `AtTz` -/
theorem shape_levels (c : Cfg) (l r : Expr) (ops : List Tok) (ik : IsKind) (neg : Bool) :
    Expr.level c (.post .cast l ops) = c.prec.pDoubleColon ∧
    Expr.level c (.post (.is ik) l ops) = c.prec.pIs ∧
    Expr.level c (.bin (.isDistinct neg) l ops r) = c.prec.pIs ∧
    Expr.level c (.bin .atTz l ops r) = c.prec.pAtTz := ⟨rfl, rfl, rfl, rfl⟩

/-- two well-shaped trees over identifiers and binary operators with the same yield are equal -/
theorem unique_bracketing (c : Cfg) (e₁ e₂ : Expr) (h₁ : PureInfix c e₁) (h₂ : PureInfix c e₂)
    (w₁ : WellShaped c e₁) (w₂ : WellShaped c e₂) (hy : e₁.flatten = e₂.flatten) : e₁ = e₂ :=
  unique_pure c e₁ h₁ e₂ h₂ w₁ w₂ hy

/-- the reference fold produces a well-shaped tree with the right yield (so it is *the* tree) -/
theorem climbSpec_wellShaped (c : Cfg) (a0 : Tok) (pairs : List (Tok × Tok)) (ha0 : atomTok a0 = true)
    (hp : ∀ x ∈ pairs, infixOp c x.1 ≠ none ∧ atomTok x.2 = true) :
    ∃ e, climbSpec c a0 pairs = some e ∧ PureInfix c e ∧ WellShaped c e ∧ e.flatten = chainToks a0 pairs := by
  obtain ⟨e, he, pe, we, fe⟩ :=
    climbGo_props c pairs hp (atomE a0) (.atom _ ha0) (by simp [WellShaped, atomE])
  exact ⟨e, he, pe, we, by simp [fe, atomE, Expr.flatten, chainToks]⟩

/-- on `operand (operator operand)*` the parser's tree is the one of the reference fold -/
theorem parse_eq_climbSpec (c : Cfg) (fuel depth p : Nat) (a0 : Tok) (pairs : List (Tok × Tok)) (e : Expr)
    (ha0 : atomTok a0 = true) (hp : ∀ x ∈ pairs, infixOp c x.1 ≠ none ∧ atomTok x.2 = true)
    (h : parseSubexpr c fuel depth p (chainToks a0 pairs) = .ok (e, [])) :
    climbSpec c a0 pairs = some e :=
  SqlVerif.Pratt.parse_eq_climbSpec c fuel depth p a0 pairs e ha0 hp h

/-- parentheses: the group is parsed as a complete expression at level `unknown` whatever the
context, and appears in the tree as `nested` -/
theorem nested_preserved (c : Cfg) (fuel depth : Nat) (ts : List Tok) (e : Expr) (rest : List Tok)
    (h : parsePrefix c (fuel + 1) depth (.sym .LParen :: ts) = .ok (e, rest)) :
    ∃ inner, e = .nested inner ∧
      parseSubexpr c fuel depth c.prec.unknown ts = .ok (inner, .sym .RParen :: rest) := by
  simp only [parsePrefix] at h
  split at h
  · simp at h
  split at h
  · simp at h
  · rename_i hh; have := prefixHead_lparen _ _ _ hh; simp at this
  · rename_i hh; have := prefixHead_lparen _ _ _ hh; simp at this
  · rename_i hh
    have := prefixHead_lparen _ _ _ hh
    simp at this; subst this
    split at h
    · simp at h
    · rename_i inner rest' hs
      split at h
      · simp at h
      · split at h
        · simp at h
        · obtain ⟨rfl, rfl⟩ := collateCheck_ok h
          exact ⟨_, rfl, hs⟩
      · simp at h

/-- … and override: a parenthesised group exposes no operator on either edge, its inside is
constrained only by itself -/
theorem nested_closes (c : Cfg) (e : Expr) :
    leftOpen c (.nested e) = [] ∧ rightOpen c (.nested e) = [] ∧
    (WellShaped c (.nested e) ↔ WellShaped c e) ∧
    (Expr.nested e).flatten = .sym .LParen :: e.flatten ++ [.sym .RParen] := ⟨rfl, rfl, Iff.rfl, rfl⟩

/-- every tree the parser can return -/
def Canonical (c : Cfg) (e : Expr) : Prop :=
  ∃ fuel depth p ts rest, parseSubexpr c fuel depth p ts = .ok (e, rest)

/-- The general uniqueness statement (prefix, postfix and mixfix nodes included): the yield
determines the tree among the trees the parser returns.  Not proved here (the spine conditions for
prefix operators below the level of the infix operators to their right — `NOT a = b`,
`- a :: INT` — need a grammar predicate tying node kinds to their tokens); decided for pairs and
triples by the exhaustive `chains` differential. -/
def FullStatement : Prop :=
  ∀ (c : Cfg) (e₁ e₂ : Expr), Canonical c e₁ → Canonical c e₂ → e₁.flatten = e₂.flatten → e₁ = e₂

-- ------------------------------------------------------------------ non-vacuity
section Examples
def g : Cfg := Cfg.ofRow dialect_generic
def pg : Cfg := Cfg.ofRow dialect_postgresql
def w (s : String) : Tok := .word (str s) none none
def k (s : String) : Tok := .word (str s) none (some (kwIndex s))
def a := w "a"
def b := w "b"
def cc := w "c"
def d := w "d"
def id' (t : Tok) : Expr := .atom .ident [t]
def op (o : BinOp) (l : Expr) (t : Tok) (r : Expr) : Expr := .bin (.op o) l [t] r

-- a + b * c - d  =  (a + (b * c)) - d
example : parseExpr g 100 50 [a, .sym .Plus, b, .sym .Mul, cc, .sym .Minus, d] =
    .ok (op .Minus (op .Plus (id' a) (.sym .Plus) (op .Multiply (id' b) (.sym .Mul) (id' cc))) (.sym .Minus) (id' d), []) := by
  decide +kernel

-- … and it is the tree of the reference fold
example : climbSpec g a [(.sym .Plus, b), (.sym .Mul, cc), (.sym .Minus, d)] =
    some (op .Minus (op .Plus (id' a) (.sym .Plus) (op .Multiply (id' b) (.sym .Mul) (id' cc))) (.sym .Minus) (id' d)) := by
  decide +kernel

-- NOT a = b AND c  =  (NOT (a = b)) AND c
example : parseExpr g 100 50 [k "NOT", a, .sym .Eq, b, k "AND", cc] =
    .ok (op .And (.pre .Not (k "NOT") (op .Eq (id' a) (.sym .Eq) (id' b))) (k "AND") (id' cc), []) := by
  decide +kernel

-- a BETWEEN b AND c AND d  =  (a BETWEEN b AND c) AND d
example : parseExpr g 100 50 [a, k "BETWEEN", b, k "AND", cc, k "AND", d] =
    .ok (op .And (.between false (id' a) [k "BETWEEN"] (id' b) (k "AND") (id' cc)) (k "AND") (id' d), []) := by
  decide +kernel

-- - a :: INT  =  - (a :: INT): the unary sign parses its operand at MulDivModOp (40) < `::` (50)
example : parseExpr g 100 50 [.sym .Minus, a, .sym .DoubleColon, k "INT"] =
    .ok (.pre .Minus (.sym .Minus) (.post .cast (id' a) [.sym .DoubleColon, k "INT"]), []) := by
  decide +kernel

-- parentheses override: (a + b) * c
example : parseExpr g 100 50 [.sym .LParen, a, .sym .Plus, b, .sym .RParen, .sym .Mul, cc] =
    .ok (op .Multiply (.nested (op .Plus (id' a) (.sym .Plus) (id' b))) (.sym .Mul) (id' cc), []) := by
  decide +kernel

-- the PostgreSQL table differs: a = b LIKE c groups as a = (b LIKE c) there, (a = b) LIKE c in generic
example : parseExpr pg 100 50 [a, .sym .Eq, b, k "LIKE", cc] =
    .ok (op .Eq (id' a) (.sym .Eq) (.bin (.like .Like false false) (id' b) [k "LIKE"] (id' cc)), []) ∧
    parseExpr g 100 50 [a, .sym .Eq, b, k "LIKE", cc] =
    .ok (.bin (.like .Like false false) (op .Eq (id' a) (.sym .Eq) (id' b)) [k "LIKE"] (id' cc), []) := by
  decide +kernel

-- the recursion limit: every `parse_subexpr` keeps one level and the prefix needs one free level
-- for its typed-string probe, so two levels of parentheses around an atom need four
example : parseExpr g 100 3 [.sym .LParen, .sym .LParen, a, .sym .RParen, .sym .RParen] = .error .rle ∧
    parseExpr g 100 4 [.sym .LParen, .sym .LParen, a, .sym .RParen, .sym .RParen] =
      .ok (.nested (.nested (id' a)), []) := by
  decide +kernel

-- the hypotheses of `parse_eq_climbSpec` are satisfiable
example : atomTok a = true ∧ infixOp g (.sym .Plus) = some .Plus ∧ infixOp g (k "AND") = some .And := by
  decide +kernel
end Examples

-- ------------------------------------------------------------------ set operations
/-!
## Set operations (`parse_query_body` / `parse_remaining_set_exprs`)

Model: `Model/SetClimb.lean` over the alphabet `SELECT n`, `UNION | EXCEPT | INTERSECT`, the
quantifier words, parentheses; stream `setops`.  Levels are the literals of the code:
`UNION` = `EXCEPT` = 10 < `INTERSECT` = 20.
-/
section SetOps
open SqlVerif.SetClimb

/-- `INTERSECT` binds tighter than `UNION` / `EXCEPT`, which are on one level -/
theorem setops_levels : precOf .union = precOf .except ∧ precOf .union < precOf .intersect := by decide

theorem setops_yield (fuel depth p : Nat) (ts : List STok) (e : SetExpr) (rest : List STok)
    (h : queryBody fuel depth p ts = .ok (e, rest)) : ∃ pre, ts = pre ++ rest ∧ e.flatten = pre :=
  ⟨e.flatten, (SqlVerif.SetClimb.yield_all fuel).2.1 _ _ _ _ _ h, rfl⟩

/-- every `SetOperation` node: nothing on the right edge of its left operand binds looser, nothing
on the left edge of its right operand binds looser or equally (equal levels nest to the left);
the loop stops only at a token of level ≤ the context -/
theorem setops_shape (fuel depth p : Nat) (ts : List STok) (e : SetExpr) (rest : List STok)
    (h : queryBody fuel depth p ts = .ok (e, rest)) :
    SqlVerif.SetClimb.WellShaped e ∧ (∀ y ∈ SqlVerif.SetClimb.leftOpen e, p < y) ∧
    (∀ x ∈ SqlVerif.SetClimb.rightOpen e, SqlVerif.SetClimb.nextPrec rest ≤ x) ∧
    SqlVerif.SetClimb.nextPrec rest ≤ p :=
  (SqlVerif.SetClimb.shape_all fuel).2.1 _ _ _ _ _ h

theorem setops_unique_bracketing (e₁ e₂ : SetExpr) (h₁ : PureSet e₁) (h₂ : PureSet e₂)
    (w₁ : SqlVerif.SetClimb.WellShaped e₁) (w₂ : SqlVerif.SetClimb.WellShaped e₂)
    (hy : e₁.flatten = e₂.flatten) : e₁ = e₂ :=
  SqlVerif.SetClimb.unique_pure e₁ h₁ e₂ h₂ w₁ w₂ hy

/-- on parenthesis-free input the parser's tree is the only well-shaped tree with that yield -/
theorem setops_parse_unique (fuel depth p : Nat) (ts : List STok) (e : SetExpr)
    (hn : NoParen ts) (h : queryBody fuel depth p ts = .ok (e, [])) :
    PureSet e ∧ SqlVerif.SetClimb.WellShaped e ∧ e.flatten = ts ∧
    ∀ e', PureSet e' → SqlVerif.SetClimb.WellShaped e' → e'.flatten = ts → e' = e := by
  obtain ⟨pe, -⟩ := (SqlVerif.SetClimb.pure_all fuel).1 _ _ _ _ _ hn h
  obtain ⟨we, -, -, -⟩ := (SqlVerif.SetClimb.shape_all fuel).2.1 _ _ _ _ _ h
  have fe : e.flatten = ts := by
    have := (SqlVerif.SetClimb.yield_all fuel).2.1 _ _ _ _ _ h
    simpa using this.symm
  exact ⟨pe, we, fe, fun e' pe' we' fe' => SqlVerif.SetClimb.unique_pure e' pe' e pe we' we (by rw [fe', fe])⟩

/-- parentheses: the inside is a complete query parsed at level 0 whatever the context, and
appears as `query` (`SetExpr::Query`), which closes both edges -/
theorem setops_nested_preserved (fuel depth p : Nat) (ts : List STok) (e : SetExpr) (rest : List STok)
    (h : queryBody (fuel + 1) depth p (.lparen :: ts) = .ok (e, rest)) :
    ∃ inner rest', parseQuery fuel depth ts = .ok (inner, .rparen :: rest') ∧
      remaining fuel depth (.query inner) p rest' = .ok (e, rest) ∧
      SqlVerif.SetClimb.leftOpen (.query inner) = [] ∧ SqlVerif.SetClimb.rightOpen (.query inner) = [] := by
  unfold queryBody at h
  split at h
  · rename_i hh; simp at hh
  · rename_i hh
    simp at hh; subst hh
    split at h
    · simp at h
    · rename_i inner r1 hq
      split at h
      · split at h
        · simp at h
        · exact ⟨_, _, hq, h, rfl, rfl⟩
      · simp at h
      · simp at h
  · rename_i hh; simp at hh
  · rename_i h1 h2 h3; exact absurd rfl (h2 ts)

-- non-vacuity
def s (n : Nat) : STok := .sel n
def u : STok := .op .union
def x : STok := .op .except
def i : STok := .op .intersect
def so (l : SetExpr) (o : Op) (r : SetExpr) : SetExpr := .setOp l o .none [.op o] r

-- 1 UNION 2 INTERSECT 3 EXCEPT 4  =  (1 UNION (2 INTERSECT 3)) EXCEPT 4
example : parseQuery 50 50 [s 1, u, s 2, i, s 3, x, s 4] =
    .ok (so (so (.sel 1) .union (so (.sel 2) .intersect (.sel 3))) .except (.sel 4), []) := by
  decide +kernel

-- parentheses override and are kept: (1 UNION 2) INTERSECT 3; quantifier words stay with their operator
example : parseQuery 50 50 [.lparen, s 1, u, .all, s 2, .rparen, i, s 3] =
    .ok (so (.query (.setOp (.sel 1) .union .all [u, .all] (.sel 2))) .intersect (.sel 3), []) := by
  decide +kernel

-- the recursion limit: `parse_query` keeps one level, `SELECT n` needs two more for a moment
example : parseQuery 50 2 [s 1] = .error .rle ∧ parseQuery 50 3 [s 1] = .ok (.sel 1, []) := by decide +kernel
end SetOps

end SqlVerif.Props.C04

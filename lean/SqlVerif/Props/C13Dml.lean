import SqlVerif.Lemmas.DmlLists
import SqlVerif.Props.C13
/-!
# C13 on the statement fragment — trailing commas in INSERT / UPDATE / DELETE / CREATE TABLE / DROP lists

`trailing_comma_noop` / `option_inert` of `Props/C13.lean` are generic in the element parser and
assume it *local* on the elements.  Here the assumption is discharged for the list kinds of the
statement model (`Model/Dml.lean`, stream `dml`) that ARE `parse_comma_separated`, for EVERY
configuration, fuel, depth:

* `assignment_local`, `valuesRow_local`, `insertColumn_local`, `name_local`: an element text that the
  element parser (`parse_assignment`, the row closure of `parse_values`, `parse_identifier`,
  `parse_object_name` of the model) accepts completely is parsed to the same value in front of a
  comma, a closer, `;` or a word of `RESERVED_FOR_COLUMN_ALIAS` (`Lemmas/DmlExt.lean`);
* `assignments_trailing_comma`, `values_rows_trailing_comma`, `insert_columns_trailing_comma`,
  `names_trailing_comma` (+ `*_option_inert`): with the option on, `e1, …, en, <end>` and
  `e1, …, en <end>` give the same values and stop at the same token; without a trailing comma the
  option changes nothing unless an element after a comma begins with a list-ending token;
* `*_is_lists_model`: those lists of the model are `Lists.commaSep` on real tokens.

**The column-definition list is NOT `parse_comma_separated`**: `parse_columns` is an ad-hoc loop
(`colLoop`) that honours the option but has its own end test (only `)` ends the list):
* `columnDef_local`: a complete column definition is parsed to the same value in front of `,` `)` `;`
  (non-recursive data types; `Lemmas/DmlDT.lean`);
* `columns_trailing_comma`: option on, `c1, …, cn, )` and `c1, …, cn )` give the same columns and
  consume the `)`; `columns_trailing_comma_off`: option off, `c1, …, cn, )` is rejected;
* `columns_loop_is_ad_hoc` (kernel-checked witness): with the option on, `CREATE TABLE t (a INT, FROM INT)`
  is accepted with two columns, where `parse_comma_separated` stops in front of the reserved word `FROM`
  — the loop ignores the end set of `is_parse_comma_separated_end`.
-/
namespace SqlVerif.Props.C13Dml
open SqlVerif.Pratt SqlVerif.Query SqlVerif.Dml SqlVerif.Lists SqlVerif.Gen

-- ------------------------------------------------------------------ element locality
theorem assignment_local (c : DCfg) (fuel depth : Nat) (a : List Tok) (v : Assign)
    (hacc : assignment c fuel depth a = .ok (v, [])) :
    LocalOn listClass (asOpt (assignment c fuel depth)) a v :=
  localOn_of_ext _ a v hacc fun x r hx => by simpa using assignment_ext c hx r fuel depth a v [] hacc

theorem valuesRow_local (c : DCfg) (fuel depth : Nat) (a : List Tok) (v : Row)
    (hacc : valuesRow c fuel depth a = .ok (v, [])) :
    LocalOn listClass (asOpt (valuesRow c fuel depth)) a v :=
  localOn_of_ext _ a v hacc fun x r hx => by simpa using valuesRow_ext c hx r fuel depth a v [] hacc

theorem insertColumn_local (a : List Tok) (t : Tok) (hacc : identElem a = .ok (t, [])) :
    LocalOn listClass (asOpt identElem) a t :=
  localOn_of_ext _ a t hacc fun x r _ => by simpa using identElem_ext (x :: r) a t [] hacc

theorem name_local (a : List Tok) (n : List Tok) (hacc : nameElem a = .ok (n, [])) :
    LocalOn listClass (asOpt nameElem) a n :=
  localOn_of_ext _ a n hacc fun x r hx => by simpa using nameElem_ext hx r a n [] hacc

/-- a complete column definition is repeated in front of `,` `)` `;` -/
theorem columnDef_local (c : DCfg) (fuel depth : Nat) (a : List Tok) (cd : ColDef)
    (hacc : columnDef c fuel depth a = .ok (cd, [])) (x : Tok) (hx : colSep x = true) (r : List Tok) :
    columnDef c fuel depth (a ++ x :: r) = .ok (cd, x :: r) := by
  simpa using columnDef_ext hx c r fuel depth a cd [] hacc

theorem comma_isComma : listClass.isComma (.sym .Comma) = true := rfl

-- ------------------------------------------------------------------ the parse_comma_separated lists
/-- **UPDATE … SET assignments** (also `ON CONFLICT DO UPDATE SET`): a trailing comma before a
list-ending token (or EOF) is a no-op when the option is on -/
theorem assignments_trailing_comma (c : DCfg) (fuel depth : Nat) (es : List (List Tok × Assign)) (hne : es ≠ [])
    (hacc : ∀ e ∈ es, assignment c fuel depth e.1 = .ok (e.2, []))
    (hplain : ∀ e ∈ es.tail, StartsPlain listClass e.1)
    (tail : List Tok) (ht : EndTail listClass tail) (n : Nat) (hn : es.length ≤ n) :
    commaSep listClass true (asOpt (assignment c fuel depth)) n (joinWith (.sym .Comma) (es.map (·.1)) ++ .sym .Comma :: tail)
      = some (es.map (·.2), tail) ∧
    commaSep listClass true (asOpt (assignment c fuel depth)) n (joinWith (.sym .Comma) (es.map (·.1)) ++ tail)
      = some (es.map (·.2), tail) :=
  SqlVerif.Props.C13.trailing_comma_noop listClass _ (.sym .Comma) comma_isComma tail ht es hne
    (fun e he => assignment_local c fuel depth e.1 e.2 (hacc e he)) hplain n hn

theorem assignments_option_inert (c : DCfg) (fuel depth : Nat) (es : List (List Tok × Assign)) (hne : es ≠ [])
    (hacc : ∀ e ∈ es, assignment c fuel depth e.1 = .ok (e.2, []))
    (hplain : ∀ e ∈ es.tail, StartsPlain listClass e.1)
    (tail : List Tok) (ht : EndTail listClass tail) (n : Nat) (hn : es.length ≤ n) :
    commaSep listClass true (asOpt (assignment c fuel depth)) n (joinWith (.sym .Comma) (es.map (·.1)) ++ tail) =
    commaSep listClass false (asOpt (assignment c fuel depth)) n (joinWith (.sym .Comma) (es.map (·.1)) ++ tail) :=
  SqlVerif.Props.C13.option_inert listClass _ (.sym .Comma) comma_isComma tail ht es hne
    (fun e he => assignment_local c fuel depth e.1 e.2 (hacc e he)) hplain n hn

/-- **VALUES rows** -/
theorem values_rows_trailing_comma (c : DCfg) (fuel depth : Nat) (es : List (List Tok × Row)) (hne : es ≠ [])
    (hacc : ∀ e ∈ es, valuesRow c fuel depth e.1 = .ok (e.2, []))
    (hplain : ∀ e ∈ es.tail, StartsPlain listClass e.1)
    (tail : List Tok) (ht : EndTail listClass tail) (n : Nat) (hn : es.length ≤ n) :
    commaSep listClass true (asOpt (valuesRow c fuel depth)) n (joinWith (.sym .Comma) (es.map (·.1)) ++ .sym .Comma :: tail)
      = some (es.map (·.2), tail) ∧
    commaSep listClass true (asOpt (valuesRow c fuel depth)) n (joinWith (.sym .Comma) (es.map (·.1)) ++ tail)
      = some (es.map (·.2), tail) :=
  SqlVerif.Props.C13.trailing_comma_noop listClass _ (.sym .Comma) comma_isComma tail ht es hne
    (fun e he => valuesRow_local c fuel depth e.1 e.2 (hacc e he)) hplain n hn

theorem values_rows_option_inert (c : DCfg) (fuel depth : Nat) (es : List (List Tok × Row)) (hne : es ≠ [])
    (hacc : ∀ e ∈ es, valuesRow c fuel depth e.1 = .ok (e.2, []))
    (hplain : ∀ e ∈ es.tail, StartsPlain listClass e.1)
    (tail : List Tok) (ht : EndTail listClass tail) (n : Nat) (hn : es.length ≤ n) :
    commaSep listClass true (asOpt (valuesRow c fuel depth)) n (joinWith (.sym .Comma) (es.map (·.1)) ++ tail) =
    commaSep listClass false (asOpt (valuesRow c fuel depth)) n (joinWith (.sym .Comma) (es.map (·.1)) ++ tail) :=
  SqlVerif.Props.C13.option_inert listClass _ (.sym .Comma) comma_isComma tail ht es hne
    (fun e he => valuesRow_local c fuel depth e.1 e.2 (hacc e he)) hplain n hn

/-- **INSERT column list** (and `REFERENCES t (cols)`): `parse_parenthesized_column_list` -/
theorem insert_columns_trailing_comma (es : List (List Tok × Tok)) (hne : es ≠ [])
    (hacc : ∀ e ∈ es, identElem e.1 = .ok (e.2, []))
    (hplain : ∀ e ∈ es.tail, StartsPlain listClass e.1)
    (tail : List Tok) (ht : EndTail listClass tail) (n : Nat) (hn : es.length ≤ n) :
    commaSep listClass true (asOpt identElem) n (joinWith (.sym .Comma) (es.map (·.1)) ++ .sym .Comma :: tail)
      = some (es.map (·.2), tail) ∧
    commaSep listClass true (asOpt identElem) n (joinWith (.sym .Comma) (es.map (·.1)) ++ tail)
      = some (es.map (·.2), tail) :=
  SqlVerif.Props.C13.trailing_comma_noop listClass _ (.sym .Comma) comma_isComma tail ht es hne
    (fun e he => insertColumn_local e.1 e.2 (hacc e he)) hplain n hn

theorem insert_columns_option_inert (es : List (List Tok × Tok)) (hne : es ≠ [])
    (hacc : ∀ e ∈ es, identElem e.1 = .ok (e.2, []))
    (hplain : ∀ e ∈ es.tail, StartsPlain listClass e.1)
    (tail : List Tok) (ht : EndTail listClass tail) (n : Nat) (hn : es.length ≤ n) :
    commaSep listClass true (asOpt identElem) n (joinWith (.sym .Comma) (es.map (·.1)) ++ tail) =
    commaSep listClass false (asOpt identElem) n (joinWith (.sym .Comma) (es.map (·.1)) ++ tail) :=
  SqlVerif.Props.C13.option_inert listClass _ (.sym .Comma) comma_isComma tail ht es hne
    (fun e he => insertColumn_local e.1 e.2 (hacc e he)) hplain n hn

/-- **name lists**: `DROP TABLE a, b`, `DELETE a, b FROM`, the tuple target `(a, b) = …` -/
theorem names_trailing_comma (es : List (List Tok × List Tok)) (hne : es ≠ [])
    (hacc : ∀ e ∈ es, nameElem e.1 = .ok (e.2, []))
    (hplain : ∀ e ∈ es.tail, StartsPlain listClass e.1)
    (tail : List Tok) (ht : EndTail listClass tail) (n : Nat) (hn : es.length ≤ n) :
    commaSep listClass true (asOpt nameElem) n (joinWith (.sym .Comma) (es.map (·.1)) ++ .sym .Comma :: tail)
      = some (es.map (·.2), tail) ∧
    commaSep listClass true (asOpt nameElem) n (joinWith (.sym .Comma) (es.map (·.1)) ++ tail)
      = some (es.map (·.2), tail) :=
  SqlVerif.Props.C13.trailing_comma_noop listClass _ (.sym .Comma) comma_isComma tail ht es hne
    (fun e he => name_local e.1 e.2 (hacc e he)) hplain n hn

theorem names_option_inert (es : List (List Tok × List Tok)) (hne : es ≠ [])
    (hacc : ∀ e ∈ es, nameElem e.1 = .ok (e.2, []))
    (hplain : ∀ e ∈ es.tail, StartsPlain listClass e.1)
    (tail : List Tok) (ht : EndTail listClass tail) (n : Nat) (hn : es.length ≤ n) :
    commaSep listClass true (asOpt nameElem) n (joinWith (.sym .Comma) (es.map (·.1)) ++ tail) =
    commaSep listClass false (asOpt nameElem) n (joinWith (.sym .Comma) (es.map (·.1)) ++ tail) :=
  SqlVerif.Props.C13.option_inert listClass _ (.sym .Comma) comma_isComma tail ht es hne
    (fun e he => name_local e.1 e.2 (hacc e he)) hplain n hn

/-- the assignment list of the model IS `parse_comma_separated` of `Model/Lists.lean` on real tokens:
what `parse_update` does after `SET` -/
theorem assignments_is_lists_model (c : DCfg) (fuel depth : Nat) (kw : Tok) (ts : List Tok) (u : Update) (rest : List Tok)
    (h : parseUpdate c fuel depth kw ts = .ok (u, rest)) :
    ∃ ts1 rest1, commaSep listClass c.tc (asOpt (assignment c fuel depth)) fuel ts1 = some (u.assigns.map (·.1), rest1) := by
  unfold parseUpdate at h
  split at h
  · simp at h
  · split at h
    · simp at h
    · rename_i setKw r2 hs
      split at h
      · simp at h
      · rename_i as r3 ha
        split at h
        · simp at h
        · split at h
          · simp at h
          · split at h
            · simp at h
            · simp at h; obtain ⟨rfl, rfl⟩ := h
              exact ⟨r2, r3, commaSepE_eq_lists _ _ _ _ _ _ ha⟩

/-- the rows of a `VALUES` are `parse_comma_separated` of `Model/Lists.lean` -/
theorem values_rows_is_lists_model (c : DCfg) (fuel depth : Nat) (kw : Tok) (ts : List Tok) (v : ValuesQ) (rest : List Tok)
    (h : valuesQuery c fuel (depth + 1) kw ts = .ok (v, rest)) :
    ∃ rest1, commaSep listClass c.tc (asOpt (valuesRow c fuel depth)) fuel ts = some (v.rows.map (·.1), rest1) := by
  unfold valuesQuery at h
  simp only at h
  split at h
  · simp at h
  · rename_i rows r1 hr
    split at h
    · simp at h
    · split at h
      · simp at h
      · simp at h; obtain ⟨rfl, rfl⟩ := h
        exact ⟨r1, commaSepE_eq_lists _ _ _ _ _ _ hr⟩

-- ------------------------------------------------------------------ the ad-hoc column loop
/-- **column definitions, option on**: `c1, …, cn, )` and `c1, …, cn )` give the same columns (the
trailing comma is only recorded as the separator of the last element) and both consume the `)` -/
theorem columns_trailing_comma (c : DCfg) (htc : c.tc = true) (fuel depth : Nat) (es : List (List Tok × ColDef)) (hne : es ≠ [])
    (hacc : ∀ e ∈ es, columnDef c fuel depth e.1 = .ok (e.2, []))
    (hw : ∀ e ∈ es, peekWord e.1 = true ∧ constraintAhead e.1 = false)
    (tail : List Tok) (n : Nat) (hn : es.length ≤ n) :
    colLoop c fuel depth n (joinWith comma (es.map (·.1)) ++ comma :: rparen :: tail) =
      .ok ((colSeps true (es.map (·.2)), rparen), tail) ∧
    colLoop c fuel depth n (joinWith comma (es.map (·.1)) ++ rparen :: tail) =
      .ok ((colSeps false (es.map (·.2)), rparen), tail) ∧
    (colSeps true (es.map (·.2))).map (·.1) = (colSeps false (es.map (·.2))).map (·.1) := by
  refine ⟨?_, ?_, ?_⟩
  · simpa using colLoop_join c fuel depth tail true (fun _ => htc) es hne hacc hw n hn
  · simpa using colLoop_join c fuel depth tail false (by simp) es hne hacc hw n hn
  · generalize es.map (·.2) = l
    induction l with
    | nil => rfl
    | cons a rest ih =>
      cases rest with
      | nil => simp [colSeps]
      | cons b rest2 => simp only [colSeps, List.map_cons] at ih ⊢; rw [ih]

/-- without a trailing comma the option does not matter -/
theorem columns_option_inert (c : DCfg) (fuel depth : Nat) (es : List (List Tok × ColDef)) (hne : es ≠ [])
    (hacc : ∀ e ∈ es, columnDef c fuel depth e.1 = .ok (e.2, []))
    (hw : ∀ e ∈ es, peekWord e.1 = true ∧ constraintAhead e.1 = false)
    (tail : List Tok) (n : Nat) (hn : es.length ≤ n) :
    colLoop c fuel depth n (joinWith comma (es.map (·.1)) ++ rparen :: tail) =
      .ok ((colSeps false (es.map (·.2)), rparen), tail) := by
  simpa using colLoop_join c fuel depth tail false (by simp) es hne hacc hw n hn

/-- **column definitions, option off**: a trailing comma is rejected -/
theorem columns_trailing_comma_off (c : DCfg) (htc : c.tc = false) (fuel depth : Nat) (es : List (List Tok × ColDef))
    (hne : es ≠ []) (hacc : ∀ e ∈ es, columnDef c fuel depth e.1 = .ok (e.2, []))
    (hw : ∀ e ∈ es, peekWord e.1 = true ∧ constraintAhead e.1 = false)
    (tail : List Tok) (n : Nat) (hn : es.length + 1 ≤ n) :
    ∃ msg, colLoop c fuel depth n (joinWith comma (es.map (·.1)) ++ comma :: rparen :: tail) = .error (.syntax msg) :=
  ⟨_, colLoop_join_off c fuel depth tail htc es hne hacc hw n hn⟩

-- ------------------------------------------------------------------ non-vacuity and the ad-hoc loop
section Examples
def g1 : DCfg := (DCfg.ofRow dialect_generic).withTrailing true
def g0 : DCfg := (DCfg.ofRow dialect_generic).withTrailing false
def wd (s : String) : Tok := .word (str s) none none
def kw (s : String) : Tok := .word (str s) none (some (kwIndex s))
def num (s : String) : Tok := .number (str s) false

/-- three complete column definitions: `a INT NOT NULL`, `b VARCHAR(10) DEFAULT 'x'`, `c geometry REFERENCES u (id)` -/
def colTexts : List (List Tok) :=
  [[wd "a", kw "INT", kw "NOT", kw "NULL"],
   [wd "b", kw "VARCHAR", .sym .LParen, num "10", .sym .RParen, kw "DEFAULT", .sqs (str "x")],
   [wd "c", wd "geometry", kw "REFERENCES", wd "u", .sym .LParen, wd "id", .sym .RParen]]

def cols : List (List Tok × Option ColDef) :=
  colTexts.map fun a => (a, match columnDef g1 100 40 a with | .ok (v, []) => some v | _ => none)

example : cols.all (fun p => p.2.isSome && peekWord p.1 && !constraintAhead p.1) = true := by decide +kernel

/-- `c1, c2, c3, ) x` and `c1, c2, c3 ) x` give the same three columns and stop at `x` (option on);
with the option off the first text is a syntax error -/
example :
    let text := joinWith comma colTexts
    (match colLoop g1 100 40 10 (text ++ [comma, rparen, wd "x"]), colLoop g1 100 40 10 (text ++ [rparen, wd "x"]) with
     | .ok (a, ra), .ok (b, rb) => a.1.map (·.1) == b.1.map (·.1) && a.1.map (fun p => some p.1) == cols.map (·.2) && ra == [wd "x"] && rb == [wd "x"]
     | _, _ => false) = true ∧
    (match colLoop g0 100 40 10 (text ++ [comma, rparen, wd "x"]) with | .error (.syntax _) => true | _ => false) = true := by
  decide +kernel

/-- assignments `a = 1`, `(b, c) = d`, `t.e = e + 1`: `…, WHERE` and `… WHERE` give the same list (option on) -/
example :
    let text := [wd "a", .sym .Eq, num "1", comma, .sym .LParen, wd "b", comma, wd "c", .sym .RParen, .sym .Eq, wd "d", comma,
                 wd "t", .sym .Period, wd "e", .sym .Eq, wd "e", .sym .Plus, num "1"]
    let f := asOpt (assignment g1 100 40)
    commaSep listClass true f 5 (text ++ [comma, kw "WHERE", wd "x"]) = commaSep listClass true f 5 (text ++ [kw "WHERE", wd "x"]) ∧
    (match commaSep listClass true f 5 (text ++ [kw "WHERE", wd "x"]) with
     | some (l, r) => l.length == 3 && r == [kw "WHERE", wd "x"] | none => false) = true := by decide +kernel

/-- **`parse_columns` is an ad-hoc loop**: with the option on, `CREATE TABLE t (a INT, FROM INT)` is accepted
with the two columns `a` and `FROM`, although after the comma stands a word of `RESERVED_FOR_COLUMN_ALIAS`,
where `parse_comma_separated(parse_column_def)` would end the list (and `)` would then be missing) -/
theorem columns_loop_is_ad_hoc :
    (match parseStmt g1 200 50 [kw "CREATE", kw "TABLE", wd "t", .sym .LParen, wd "a", kw "INT", comma, kw "FROM", kw "INT", rparen] with
     | .ok (.createTable ct, []) => ct.cols.length == 2
     | _ => false) = true ∧
    (match commaSepE true (columnDef g1 200 49) 10 [wd "a", kw "INT", comma, kw "FROM", kw "INT", rparen] with
     | .ok (l, rest) => l.length == 1 && rest == [kw "FROM", kw "INT", rparen]
     | _ => false) = true := by decide +kernel
end Examples

/-- The full property for every list of the grammar (not proved: the list kinds of the statement
fragment; the rest is decided by the insertion oracle). -/
def FullStatement : Prop :=
  ∀ {α : Type} (elem : List Tok → SqlVerif.Query.Res α) (a : List Tok) (v : α),
    elem a = .ok (v, []) → LocalOn listClass (asOpt elem) a v

end SqlVerif.Props.C13Dml

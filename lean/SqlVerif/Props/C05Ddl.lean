import SqlVerif.Lemmas.DdlContent
import SqlVerif.Props.C05
/-!
# C05 on the second statement fragment — nothing the user wrote is lost, nothing invented

Extends `stmt_content_preserved_partial` (`Props/C05Dml.lean`) to the statements of `Model/Ddl.lean`
printed by `Model/DdlPrint.lean` (stream `ddl`: real `to_string()` against the model text).  For
EVERY configuration record, fuel, recursion limit and token list:

* `ddl_content_preserved_partial`: if the modelled statement parser accepts a prefix `pre` of the
  input and returns the statement `s`, and `s` is `printable`, the SEQUENCE of content tokens
  (identifiers with their quoting, numbers, string payloads, placeholders) of `pre` is exactly that
  of the printed tokens `s.showToks`: nothing lost, nothing invented, nothing reordered — although
  `Display` prints `ON t(a,b)` without blanks, inserts
  `COLUMN` into `DROP a` / `RENAME a TO b` / `ALTER a …`, and drops trailing commas, the `TEMP` of
  `CREATE TEMP INDEX`, the `IF NOT EXISTS` of `ADD` outside four dialects and the `PRIMARY KEY` /
  `PROJECTION` that `DROP` swallows.
* `Stmt.printable` (decidable, `Lemmas/DdlContent.lean`): every expression and query of the statement
  is printable, every column type (of `ADD coldef`, of a ClickHouse view column) is a keyword-only
  type written with keyword tokens; `TRUNCATE` and `DROP <kind>` are always printable; statements of
  the first fragment as in `Props/C05Dml.lean`.

What the real printer drops or rewrites inside the fragment is keywords only (kernel-checked
witnesses, same answers from the real parser in stream `ddl`): `add_if_not_exists_dropped`,
`drop_primary_key_swallowed`, `temp_index_dropped`; the one content change is the excluded type shape
`content_changed_type_number_alter`.  `view_prefix_order_kept` is the positive witness of the repair of the
`CREATE TEMPORARY MATERIALIZED VIEW` prefix order in /repo.
-/
namespace SqlVerif.Props.C05Ddl
open SqlVerif.Pratt SqlVerif.Query SqlVerif.Dml SqlVerif.Ddl SqlVerif.Gen

/-- **content preservation** for the modelled statements, as a statement about sequences -/
theorem ddl_content_preserved_partial (c : XCfg) (fuel limit : Nat) (ts : List Tok) (s : Ddl.Stmt) (rest : List Tok)
    (h : Ddl.parseStmt c fuel limit ts = .ok (s, rest)) (hp : s.printable = true) :
    ∃ pre, ts = pre ++ rest ∧ pre.filterMap contentOf = s.showToks.filterMap contentOf :=
  ⟨s.flatten, Ddl.parseStmt_yield c fuel limit ts s rest h, Ddl.parseStmt_content c fuel limit ts s rest h hp⟩

/-- the same for a complete statement, and as a statement about multisets -/
theorem ddl_content_preserved_stmt (c : XCfg) (fuel limit : Nat) (ts : List Tok) (s : Ddl.Stmt)
    (h : Ddl.parseStmt c fuel limit ts = .ok (s, [])) (hp : s.printable = true) :
    ts.filterMap contentOf = s.showToks.filterMap contentOf ∧
    (ts.filterMap contentOf).Perm (s.showToks.filterMap contentOf) := by
  obtain ⟨pre, h1, h2⟩ := ddl_content_preserved_partial c fuel limit ts s [] h hp
  simp at h1; subst h1
  exact ⟨h2, h2 ▸ List.Perm.refl _⟩

/-- `TRUNCATE` and `DROP <kind>` need no side condition -/
theorem ddl_content_preserved_truncate_drop (c : XCfg) (fuel limit : Nat) (ts : List Tok) (s : Ddl.Stmt) (rest : List Tok)
    (h : Ddl.parseStmt c fuel limit ts = .ok (s, rest))
    (hk : (match s with | .truncate _ => true | .dropObj _ => true | _ => false) = true) :
    ∃ pre, ts = pre ++ rest ∧ pre.filterMap contentOf = s.showToks.filterMap contentOf := by
  refine ddl_content_preserved_partial c fuel limit ts s rest h ?_
  cases s <;> simp_all [Ddl.Stmt.printable]

section Witnesses
def g : XCfg := XCfg.ofRow dialect_generic
def my : XCfg := XCfg.ofRow dialect_mysql
def pg : XCfg := XCfg.ofRow dialect_postgresql
def wd (s : String) : Tok := .word (str s) none none
def kw (s : String) : Tok := .word (str s) none (some (kwIndex s))
def num (s : String) : Tok := .number (str s) false
def lp : Tok := .sym .LParen
def rp : Tok := .sym .RParen
def cm : Tok := .sym .Comma

def contentIO (c : XCfg) (ts : List Tok) : Option (Bool × List Content × List Content) :=
  match Ddl.parseStmt c 300 50 ts with
  | .ok (s, []) => some (s.printable, ts.filterMap contentOf, s.showToks.filterMap contentOf)
  | _ => none

/-- non-vacuity: `CREATE UNIQUE INDEX IF NOT EXISTS s.i ON t USING btree ("A" DESC, b + 1,) INCLUDE (c, d) WHERE e > 'x'`
(trailing comma option on): printable; the nine content tokens come back in order, and the text is what
`to_string()` gives (no blank after `,`, none before `(` unless `USING` precedes) -/
example :
    (match Ddl.parseStmt (g.withTrailing true) 300 50
      [kw "CREATE", kw "UNIQUE", kw "INDEX", kw "IF", kw "NOT", kw "EXISTS", wd "s", .sym .Period, wd "i", kw "ON", wd "t",
       kw "USING", wd "btree", lp, .word (str "A") (some 34) none, kw "DESC", cm, wd "b", .sym .Plus, num "1", cm, rp,
       kw "INCLUDE", lp, wd "c", cm, wd "d", rp, kw "WHERE", wd "e", .sym .Gt, .sqs (str "x")] with
     | .ok (s, []) => (s.printable, s.showToks.filterMap contentOf == s.flatten.filterMap contentOf,
        (s.flatten.filterMap contentOf).length,
        s.showText == some (str "CREATE UNIQUE INDEX IF NOT EXISTS s.i ON t USING btree (\"A\" DESC,b + 1) INCLUDE (c,d) WHERE e > 'x'"))
     | _ => (false, false, 0, false)) = (true, true, 11, true) := by decide +kernel

/-- non-vacuity: `CREATE OR REPLACE TEMP VIEW v (a, "B") AS SELECT x y, 1 FROM t` prints `… TEMPORARY VIEW … x AS y …` -/
example :
    (match Ddl.parseStmt g 300 50
      [kw "CREATE", kw "OR", kw "REPLACE", kw "TEMP", kw "VIEW", wd "v", lp, wd "a", cm, .word (str "B") (some 34) none, rp, kw "AS",
       kw "SELECT", wd "x", wd "y", cm, num "1", kw "FROM", wd "t"] with
     | .ok (s, []) => (s.printable, s.showToks.filterMap contentOf == s.flatten.filterMap contentOf,
        (s.flatten.filterMap contentOf).length,
        s.showText == some (str "CREATE OR REPLACE TEMPORARY VIEW v (a, \"B\") AS SELECT x AS y, 1 FROM t"))
     | _ => (false, false, 0, false)) = (true, true, 7, true) := by decide +kernel

/-- non-vacuity: `ALTER TABLE ONLY s.t ADD a INT DEFAULT 1 + 2, DROP b CASCADE, RENAME c TO "D", ALTER e SET DEFAULT 'x', RENAME TO u` -/
example :
    (match Ddl.parseStmt g 300 50
      [kw "ALTER", kw "TABLE", kw "ONLY", wd "s", .sym .Period, wd "t", kw "ADD", wd "a", kw "INT", kw "DEFAULT", num "1", .sym .Plus, num "2", cm,
       kw "DROP", wd "b", kw "CASCADE", cm, kw "RENAME", wd "c", kw "TO", .word (str "D") (some 34) none, cm,
       kw "ALTER", wd "e", kw "SET", kw "DEFAULT", .sqs (str "x"), cm, kw "RENAME", kw "TO", wd "u"] with
     | .ok (s, []) => (s.printable, s.showToks.filterMap contentOf == s.flatten.filterMap contentOf,
        (s.flatten.filterMap contentOf).length,
        s.showText == some (str "ALTER TABLE ONLY s.t ADD a INT DEFAULT 1 + 2, DROP COLUMN b CASCADE, RENAME COLUMN c TO \"D\", ALTER COLUMN e SET DEFAULT 'x', RENAME TO u"))
     | _ => (false, false, 0, false)) = (true, true, 11, true) := by decide +kernel

/-- **keywords dropped, content kept**: outside PostgreSQL / BigQuery / DuckDB / Generic the `IF NOT EXISTS` of
`ADD [COLUMN]` is consumed and forgotten — MySQL prints `ALTER TABLE t ADD IF NOT EXISTS a INT` as `ALTER TABLE t ADD a INT` -/
theorem add_if_not_exists_dropped :
    (match Ddl.parseStmt my 300 50 [kw "ALTER", kw "TABLE", wd "t", kw "ADD", kw "IF", kw "NOT", kw "EXISTS", wd "a", kw "INT"] with
     | .ok (s, []) => (s.printable, s.showToks.filterMap contentOf == s.flatten.filterMap contentOf,
        s.showText == some (str "ALTER TABLE t ADD a INT"))
     | _ => (false, false, false)) = (true, true, true) ∧
    (match Ddl.parseStmt pg 300 50 [kw "ALTER", kw "TABLE", wd "t", kw "ADD", kw "IF", kw "NOT", kw "EXISTS", wd "a", kw "INT"] with
     | .ok (s, []) => s.showText == some (str "ALTER TABLE t ADD IF NOT EXISTS a INT")
     | _ => false) = true := by decide +kernel

/-- **Deviation kept visible** (keywords, not content): `parse_alter_table_operation` consumes `PRIMARY KEY`
(and `PROJECTION`) after `DROP` BEFORE it tests the dialect; outside MySQL / Generic the chain goes on and
`ALTER TABLE t DROP PRIMARY KEY a` drops the COLUMN `a` (prints `ALTER TABLE t DROP COLUMN a`), where MySQL
rejects the trailing `a` (same answers from the real parser, stream `ddl`) -/
theorem drop_primary_key_swallowed :
    (match Ddl.parseStmt pg 300 50 [kw "ALTER", kw "TABLE", wd "t", kw "DROP", kw "PRIMARY", kw "KEY", wd "a"] with
     | .ok (.alterTable a, []) =>
       (a.ops.map (fun p => match p.1 with | .dropColumn _ sw _ _ _ _ => sw.length | _ => 0),
        (Ddl.Stmt.alterTable a).showText == some (str "ALTER TABLE t DROP COLUMN a"))
     | _ => ([], false)) = ([2], true) ∧
    (match Ddl.parseStmt pg 300 50 [kw "ALTER", kw "TABLE", wd "t", kw "DROP", kw "PROJECTION", kw "IF", kw "EXISTS", wd "p"] with
     | .ok (s, []) => s.showText == some (str "ALTER TABLE t DROP COLUMN IF EXISTS p")
     | _ => false) = true := by decide +kernel

/-- **keyword dropped**: `CREATE TEMP INDEX i ON t (a)` is accepted and `TEMP` forgotten -/
theorem temp_index_dropped :
    (match Ddl.parseStmt g 300 50 [kw "CREATE", kw "TEMP", kw "INDEX", wd "i", kw "ON", wd "t", lp, wd "a", rp] with
     | .ok (s, []) => (s.printable, s.showToks.filterMap contentOf == s.flatten.filterMap contentOf,
        s.showText == some (str "CREATE INDEX i ON t(a)"))
     | _ => (false, false, false)) = (true, true, true) := by decide +kernel

/-- **repaired in /repo** ("CREATE TEMPORARY MATERIALIZED VIEW prints its modifiers in the order the parser
reads them"; before, `Display` wrote `MATERIALIZED` first and the parser rejected what it had printed):
`CREATE OR REPLACE TEMPORARY MATERIALIZED VIEW v AS SELECT 1` prints itself and the printed tokens are
accepted again with the same tree -/
theorem view_prefix_order_kept :
    (match Ddl.parseStmt g 300 50 [kw "CREATE", kw "OR", kw "REPLACE", kw "TEMPORARY", kw "MATERIALIZED", kw "VIEW", wd "v", kw "AS",
        kw "SELECT", num "1"] with
     | .ok (s, []) =>
       (s.printable, s.showToks.filterMap contentOf == s.flatten.filterMap contentOf,
        s.showText == some (str "CREATE OR REPLACE TEMPORARY MATERIALIZED VIEW v AS SELECT 1"),
        match Ddl.parseStmt g 300 50 s.showToks with | .ok (s', []) => s' == s | _ => false)
     | _ => (false, false, false, false)) = (true, true, true, true) := by decide +kernel

/-- excluded shape, current code: `ALTER TABLE t ADD a VARCHAR(010)` prints `… VARCHAR(10)` — the number
inside the type is re-rendered (the same defect as `content_changed_type_number` of `Props/C05Dml.lean`) -/
theorem content_changed_type_number_alter :
    contentIO g [kw "ALTER", kw "TABLE", wd "t", kw "ADD", wd "a", kw "VARCHAR", lp, num "010", rp] =
      some (false, [.ident (str "t") none, .ident (str "a") none, .num (str "010")],
                   [.ident (str "t") none, .ident (str "a") none, .num (str "10")]) := by decide +kernel
end Witnesses

/-- The whole-grammar property (not proved: the statement kinds of the two fragments only; decided by the
content-bag oracle on the real code). -/
def FullStatement {Ast : Type} (parse : List Tok → Option (Ast × List Tok)) (print : Ast → List Tok) : Prop :=
  ∀ ts a, parse ts = some (a, []) → (ts.filterMap contentOf).Perm ((print a).filterMap contentOf)

end SqlVerif.Props.C05Ddl

import SqlVerif.Lemmas.EscapeLemmas
/-!
# C06 — printed literals and quoted identifiers denote exactly their payload

Models: `Model/Escape.lean` (the printers of `src/ast/value.rs`, `Display for Ident`,
`Display for DollarQuotedString`, `Display for Word`) and the literal scanners of `Model/Scan.lean`
/ the tokenizer of `Model/Tokenizer.lean` (both tied to the code by stream `lits`, and the
tokenizer also by stream `tok`).  A character is its code point, a string is `List Nat`.

Every theorem quantifies over **all** payloads `p : List Nat` and all continuations `rest` that do
not start with the closing quote (a following quote would be read as a doubled quote).

* proved for every payload: `E'…'` (`escaped_roundtrip`, no precondition on the payload at all:
  a literal NUL is copied, the printer never produces an escape that denotes NUL) and `U&'…'`
  (`unicode_roundtrip`, for payloads whose non-ASCII code points are scalar values, which every
  Rust `char` is);
* `_partial`: the quote-doubling printer, the kinds printed verbatim, dollar quoting and quoted
  identifiers come back only under the decidable predicates below; each way of failing has a
  concrete witness (`doubled_quote_collapses`, …), so the full statement is **false** for the
  current code and is kept as `FullStatement`.
-/
namespace SqlVerif.Props.C06
open SqlVerif.Escape SqlVerif.Scan SqlVerif.Tok SqlVerif.Keywords SqlVerif.Gen

/-! ## `E'…'` -/

/-- **escaped_roundtrip**: for every payload the `E''` scanner gives the payload back.  The only
hypothesis is on the continuation. -/
theorem escaped_roundtrip (p rest : List Nat) (h : rest.head? ≠ some 39) :
    scanEscaped ([39] ++ escapeE p ++ [39] ++ rest) = some (p, rest) := by
  simpa [scanEscaped] using escapedBody_escapeE p rest h

/-- the same through `next_token`, in **every** dialect and both un-escape modes -/
theorem escaped_roundtrip_token (env : Env) (p rest : List Nat) (h : rest.head? ≠ some 39) :
    nextToken env (showValue .escaped p ++ rest) = .ok (some (Kind.escaped.token p, rest)) :=
  escaped_token env p rest h

/-- quote, backslash, LF, TAB, CR, NUL, BEL, non-ASCII, astral -/
example : scanEscaped (showValue .escaped [39, 92, 10, 9, 13, 0, 7, 233, 0x1D4B3, 39, 39] |>.drop 1) =
    some ([39, 92, 10, 9, 13, 0, 7, 233, 0x1D4B3, 39, 39], []) := by decide
example : showValue .escaped [39, 92, 10, 97] = str "E'\\'\\\\\\na'" := by decide

/-! ## `U&'…'` -/

/-- `{:04X}` read back by `take_char_from_hex_digits(4)`, all values below `0x10000` -/
theorem hex4_roundtrip (n : Nat) (h : n < 65536) (s : List Nat) :
    takeHexDigits 4 0 (hex4 n ++ s) = .ok (n, s) := takeHexDigits_hex4 n h s

/-- `{:06X}` read back by `take_char_from_hex_digits(6)`, all values below `2^24` -/
theorem hex6_roundtrip (n : Nat) (h : n < 16777216) (s : List Nat) :
    takeHexDigits 6 0 (hex6 n ++ s) = .ok (n, s) := takeHexDigits_hex6 n h s

/-- **unicode_roundtrip**: for every payload whose code points above 127 are scalar values
(`char::from_u32` accepts them; true of every Rust `char`) -/
theorem unicode_roundtrip (p rest : List Nat) (hp : ∀ c ∈ p, 128 ≤ c → IsScalar c)
    (h : rest.head? ≠ some 39) :
    scanUnicode ([39] ++ escapeU p ++ [39] ++ rest) = .ok (p, rest) := by
  simpa [scanUnicode] using unicodeBody_escapeU p rest hp h

/-- through `next_token`, in every dialect with `supports_unicode_string_literal` -/
theorem unicode_roundtrip_token (env : Env) (hu : env.row.flags.supports_unicode_string_literal = true)
    (p rest : List Nat) (hp : ∀ c ∈ p, 128 ≤ c → IsScalar c) (h : rest.head? ≠ some 39) :
    nextToken env (showValue .unicode p ++ rest) = .ok (some (Kind.unicode.token p, rest)) :=
  unicode_token env hu p rest hp h

/-- the hypothesis on code points is needed in the model (a surrogate is not a `char`) -/
theorem unicode_needs_scalar :
    scanUnicode ([39] ++ escapeU [0xD800] ++ [39]) ≠ .ok ([0xD800], []) := by decide

example : scanUnicode (showValue .unicode [39, 92, 10, 0, 233, 0x4E2D, 0xFFFF, 0x10000, 0x1D4B3, 0x10FFFF] |>.drop 2) =
    .ok ([39, 92, 10, 0, 233, 0x4E2D, 0xFFFF, 0x10000, 0x1D4B3, 0x10FFFF], []) := by decide
example : showValue .unicode [233, 0x1D4B3, 39] = str "U&'\\00E9\\+01D4B3'''" := by decide

/-! ## the quote-doubling printer (`'…'`, `"…"`, identifiers) -/

/-- **quoted_roundtrip_partial**: `q` the quote, `bs` whether the dialect has backslash escapes.
`CleanQ q bs p` = no two adjacent `q`, no backslash immediately before a `q`, and no backslash at
all when `bs` (decidable; see `cleanQ_spelled_out`). -/
theorem quoted_roundtrip_partial (q : Nat) (bs : Bool) (p rest : List Nat) (h : rest.head? ≠ some q)
    (hc : CleanQ q bs p) :
    scanSingleQuoted q bs true ([q] ++ escapeQ q p ++ [q] ++ rest) = .ok (p, rest) := by
  have := quoted_go q bs rest h p 0 hc (fun _ => by decide)
  simp only [scanSingleQuoted, scanQuoted, consumeOpening, List.cons_append, List.nil_append, List.append_assoc,
    ↓reduceIte, escapeQ]
  simp [this]

theorem cleanQ_spelled_out (q : Nat) (bs : Bool) (p : List Nat) :
    CleanQ q bs p ↔ (noAdj q q p = true ∧ noAdj 92 q p = true ∧ (bs = true → 92 ∉ p)) := Iff.rfl

/-- through `next_token` for `'…'`: every dialect, un-escaping on; in dialects with triple-quoted
strings additionally the payload must not start with a quote (`'''…` opens a triple-quoted string) -/
theorem single_quoted_token_partial (env : Env) (hun : env.unescape = true) (p rest : List Nat)
    (h : rest.head? ≠ some 39)
    (hc : CleanQ 39 env.row.flags.supports_string_literal_backslash_escape p)
    (ht : env.row.flags.supports_triple_quoted_string = true → p.head? ≠ some 39) :
    nextToken env (showValue .singleQuoted p ++ rest) = .ok (some (Kind.singleQuoted.token p, rest)) :=
  single_quoted_token env hun p rest h hc ht

/-- a single quote between ordinary characters, newline, percent, non-ASCII, astral -/
example : scanSingleQuoted 39 false true (showValue .singleQuoted [105, 116, 39, 115, 10, 37, 233, 0x1D4B3]) =
    .ok ([105, 116, 39, 115, 10, 37, 233, 0x1D4B3], []) := by decide
/-- a backslash not before a quote is fine where backslash is an ordinary character -/
example : CleanQ 39 false [67, 58, 92, 100] ∧ ¬ CleanQ 39 true [67, 58, 92, 100] := by decide

/-- `''` as payload: the printer takes it for an already escaped quote -/
theorem doubled_quote_collapses :
    scanSingleQuoted 39 false true (showValue .singleQuoted [39, 39]) = .ok ([39], []) := by decide

/-- `\'` as payload: the quote after a backslash is written once; without backslash escapes the
text does not even lex -/
theorem backslash_quote_unbalanced :
    showValue .singleQuoted [92, 39] = [39, 92, 39, 39] ∧
    scanSingleQuoted 39 false true (showValue .singleQuoted [92, 39]) =
      .error ⟨str "Unterminated string literal", [39, 92, 39, 39]⟩ ∧
    scanSingleQuoted 39 true true (showValue .singleQuoted [92, 39]) = .ok ([39], []) := by decide

/-- `a\nb` (backslash, letter n) in a dialect with backslash escapes comes back as `a`, LF, `b` -/
theorem backslash_dialect_reinterprets :
    scanSingleQuoted 39 true true (showValue .singleQuoted [97, 92, 110, 98]) = .ok ([97, 10, 98], []) := by
  decide

/-- with triple-quoted strings (BigQuery) a payload that starts with a quote does not lex -/
theorem leading_quote_opens_triple :
    (nextToken (envOf dialect_bigquery true) (showValue .singleQuoted [39, 97])).toOption = none := by
  decide +kernel

/-! ## kinds printed verbatim: `N'…'`, `X'…'`, `B'…'`, `R'…'`, triple-quoted -/

/-- **verbatim, single delimiters**: the body comes back **iff** it contains no quote and, when the
scanner runs with backslash escapes (`N''`/`X''`: always; `B''`/`R''`: never), no backslash -/
theorem verbatim_single_iff (q : Nat) (bs : Bool) (p rest : List Nat) (h : rest.head? ≠ some q) :
    scanSingleQuoted q bs true ([q] ++ p ++ [q] ++ rest) = .ok (p, rest) ↔ (q ∉ p ∧ (bs = true → 92 ∉ p)) := by
  rw [← verbatim1_iff q bs rest h p]
  simp only [scanSingleQuoted, scanQuoted, consumeOpening, List.cons_append, List.nil_append, List.append_assoc,
    ↓reduceIte, Bool.false_eq_true]
  cases quotedBody q bs true (p ++ q :: rest) with
  | none => simp
  | some x => simp

/-- **verbatim, triple delimiters** (scanner loop): `clean3 q 0 p` = no run of three quotes inside
and no quote at the end -/
theorem verbatim_triple_iff (q : Nat) (bs : Bool) (hq : q ≠ 92) (p rest : List Nat) :
    tripleBody q bs true 0 (p ++ [q, q, q] ++ rest) = some (p ++ [q, q], rest) ↔
      (clean3 q 0 p = true ∧ (bs = true → 92 ∉ p)) := by
  have := triple_iff q bs hq rest p 0 (by omega)
  simpa using this

theorem verbatim_triple_roundtrip (q : Nat) (bs : Bool) (hq : q ≠ 92) (p rest : List Nat)
    (hc : clean3 q 0 p = true) (hb : bs = true → 92 ∉ p) :
    scanQuoted q true 0 bs true (p ++ [q, q, q] ++ rest) = .ok (p, rest) := by
  have := (verbatim_triple_iff q bs hq p rest).2 ⟨hc, hb⟩
  simp only [scanQuoted, consumeOpening, ↓reduceIte, this, dropLast2_append]

/-- `N'…'` and `X'…'` through `next_token`, **every** dialect (backslash escapes are switched on
for them whatever the dialect says) -/
theorem national_token_iff (env : Env) (hun : env.unescape = true) (p rest : List Nat) (h : rest.head? ≠ some 39) :
    nextToken env (showValue .national p ++ rest) = .ok (some (Kind.national.token p, rest)) ↔
      (39 ∉ p ∧ 92 ∉ p) :=
  national_token env hun p rest h

/-- **verbatim_kinds_partial**: the statements above instantiated for each kind's delimiters and
the scanner call the tokenizer makes for it -/
theorem verbatim_kinds_partial (p rest : List Nat) :
    -- N'…' / X'…' : tokenize_single_quoted_string(chars, '\'', true)
    (rest.head? ≠ some 39 →
      (scanSingleQuoted 39 true true ([39] ++ p ++ [39] ++ rest) = .ok (p, rest) ↔ (39 ∉ p ∧ 92 ∉ p))) ∧
    -- B'…' / R'…' and B"…" / R"…" : no backslash escapes
    (∀ q, rest.head? ≠ some q →
      (scanSingleQuoted q false true ([q] ++ p ++ [q] ++ rest) = .ok (p, rest) ↔ q ∉ p)) ∧
    -- triple-quoted plain (dialect flag `bs`), byte and raw (no backslash escapes)
    (∀ q bs, q ≠ 92 → clean3 q 0 p = true → (bs = true → 92 ∉ p) →
      scanQuoted q true 0 bs true (p ++ [q, q, q] ++ rest) = .ok (p, rest)) := by
  refine ⟨fun h => ?_, fun q h => ?_, fun q bs hq hc hb => verbatim_triple_roundtrip q bs hq p rest hc hb⟩
  · simpa using verbatim_single_iff 39 true p rest h
  · simpa using verbatim_single_iff q false p rest h

example : clean3 39 0 [97, 39, 39, 98, 10, 39, 99] = true ∧ clean3 39 0 [97, 39] = false ∧
    clean3 39 0 [39, 39, 39, 97] = false := by decide
example : scanQuoted 39 true 0 false true ([97, 39, 39, 98, 10, 92, 99] ++ sq3 ++ [32]) =
    .ok ([97, 39, 39, 98, 10, 92, 99], [32]) := by decide

/-- `N'a'b'`: the payload quote ends the literal -/
theorem national_quote_breaks :
    (nextToken (envOf dialect_generic true) (showValue .national [97, 39, 98])).toOption =
      some (some (.nationalStringLiteral [97], [98, 39])) := by decide +kernel

/-- `N'a\nb'` lexes to `a`, LF, `b` in a dialect **without** backslash escapes -/
theorem national_backslash_breaks :
    dialect_generic.flags.supports_string_literal_backslash_escape = false ∧
    (nextToken (envOf dialect_generic true) (showValue .national [97, 92, 110, 98])).toOption =
      some (some (.nationalStringLiteral [97, 10, 98], [])) := by decide +kernel

/-- `R'''a''''`: a payload ending in a quote shifts the end of the literal -/
theorem triple_trailing_quote_breaks :
    scanQuoted 39 true 0 false true ([97, 39] ++ sq3) = .ok ([97], [39]) := by decide

/-! ## dollar quoting -/

/-- **dollar_roundtrip_partial**.  Untagged: no `$$` inside and no `$` at the end (`cleanDollar`).
Tagged (non-empty tag `t0 :: ts`): every `$` of the body is followed by a character that is neither
`$` nor `t0` (`cleanTag`); the matcher of the closing tag does not backtrack, so a partial match
inside the body loses the real end (see `dollar_partial_tag_breaks`). -/
theorem dollar_roundtrip_partial (p rest : List Nat) :
    (cleanDollar p = true → dollarUntaggedBody none (p ++ [36, 36] ++ rest) = some (p, rest)) ∧
    (∀ t0 ts, cleanTag t0 p = true →
      dollarTaggedBody (t0 :: ts) none (p ++ [36] ++ (t0 :: ts) ++ [36] ++ rest) = .ok (p, rest)) := by
  refine ⟨fun h => ?_, fun t0 ts h => ?_⟩
  · simpa using dollar_untagged_go rest p none (by decide) h
  · simpa using dollar_tagged_go t0 ts rest p h

/-- `showDollar` is `$tag$` / `$$` around the body: the texts above are what the printer emits
after the opening delimiter -/
theorem showDollar_shape (p : List Nat) (tag : List Nat) :
    showDollar p none = [36, 36] ++ (p ++ [36, 36]) ∧
    showDollar p (some tag) = [36] ++ tag ++ [36] ++ (p ++ [36] ++ tag ++ [36]) := by
  simp [showDollar]

example : cleanDollar [97, 36, 98, 39, 10, 0x1D4B3] = true ∧ cleanTag 116 [36, 120, 39, 92] = true := by decide
example : dollarTaggedBody [116, 97, 103] none ([36, 120, 39, 92, 10] ++ [36] ++ [116, 97, 103] ++ [36] ++ [59]) =
    .ok ([36, 120, 39, 92, 10], [59]) := by decide

/-- `$$a$$$`: a body ending in `$` closes one character early -/
theorem dollar_trailing_breaks :
    dollarUntaggedBody none ([97, 36] ++ [36, 36]) = some ([97], [36]) := by decide

/-- `$a$x$a$y$a$`: the tag inside the body ends the literal -/
theorem dollar_tag_inside_breaks :
    dollarTaggedBody [97] none ([120, 36, 97, 36, 121] ++ [36, 97, 36]) = .ok ([120], [121, 36, 97, 36]) := by
  decide

/-- tag `ab`, body `$a`: `$ab$` does not occur in the body, yet `$ab$$a$ab$` is unterminated,
because the characters eaten by the failed match `$a$` are not rescanned -/
theorem dollar_partial_tag_breaks :
    (dollarTaggedBody [97, 98] none ([36, 97] ++ [36, 97, 98, 36])).toOption = none := by decide

/-! ## quoted identifiers -/

/-- **ident_roundtrip_partial**: `"…"` and backquotes go through the quote-doubling printer and
`parse_quoted_ident` (no backslash escapes: `CleanQ q false`); `[…]` is printed verbatim and comes
back iff the body has no `]` -/
theorem ident_roundtrip_partial (p rest : List Nat) :
    (∀ q, rest.head? ≠ some q → CleanQ q false p →
      quotedIdentBody q true (escapeQ q p ++ [q] ++ rest) = some (p, rest)) ∧
    (rest.head? ≠ some 93 →
      (quotedIdentBody 93 true (p ++ [93] ++ rest) = some (p, rest) ↔ 93 ∉ p)) := by
  refine ⟨fun q h hc => ?_, fun h => ?_⟩
  · rw [quotedIdentBody_eq]
    simpa [escapeQ] using quoted_go q false rest h p 0 hc (fun _ => by decide)
  · rw [quotedIdentBody_eq]
    simpa using verbatim1_iff 93 false rest h p

/-- the printed identifier is the quote, the escaped body, the closing quote -/
theorem showIdent_shape (p : List Nat) :
    showIdent ⟨p, some 34⟩ = some ([34] ++ escapeQ 34 p ++ [34]) ∧
    showIdent ⟨p, some 96⟩ = some ([96] ++ escapeQ 96 p ++ [96]) ∧
    showIdent ⟨p, some 91⟩ = some ([91] ++ p ++ [93]) := by
  simp [showIdent]

example : (showIdent ⟨[97, 34, 98, 32, 92, 10, 0x4E2D], some 34⟩).map (fun t => quotedIdentBody 34 true (t.drop 1)) =
    some (some ([97, 34, 98, 32, 92, 10, 0x4E2D], [])) := by decide

/-- an identifier named `""` comes back as `"` -/
theorem ident_doubled_quote_collapses :
    (showIdent ⟨[34, 34], some 34⟩).map (fun t => quotedIdentBody 34 true (t.drop 1)) = some (some ([34], [])) := by
  decide

/-- `[a]b]`: the bracket form has no escape at all -/
theorem bracket_close_breaks :
    (showIdent ⟨[97, 93, 98], some 91⟩).map (fun t => quotedIdentBody 93 true (t.drop 1)) =
      some (some ([97], [98, 93])) := by decide

/-- `Display for Word` (the token, not the tree node) never escapes: `"a"b"` -/
theorem word_display_unescaped :
    Word.display ⟨[97, 34, 98], some 34, none⟩ = some [34, 97, 34, 98, 34] := by decide

/-! ## what is not a theorem -/

/-- The property as stated: for **every** payload, every literal kind of `Value`, every
dollar-quoted string and every quoted identifier, in every dialect that lexes the trivial
instance of the form, the printed text followed by `rest` lexes to exactly the token of that kind
with that payload.

Status: **false** for the current code (witnesses above: `doubled_quote_collapses`,
`backslash_quote_unbalanced`, `backslash_dialect_reinterprets`, `leading_quote_opens_triple`,
`national_quote_breaks`, `national_backslash_breaks`, `triple_trailing_quote_breaks`,
`dollar_*_breaks`, `ident_doubled_quote_collapses`, `bracket_close_breaks`).  Proved instances:
`escaped_roundtrip_token`, `unicode_roundtrip_token` (all payloads), `single_quoted_token_partial`,
`national_token_iff` (exact set of payloads).  Missing even under the `Clean…` predicates: the
`next_token` level for `"…"`, byte/raw/triple kinds, dollar quoting and identifiers (the dispatch
on `dialect_of!`, delimiter sets and `is_proper_identifier_inside_quotes`; decided by the oracle),
and the converse (necessity) of `CleanQ`, `cleanDollar`, `cleanTag`. -/
def FullStatement : Prop :=
  ∀ (env : Env) (k : Kind) (p rest : List Nat),
    env.unescape = true →
    nextToken env (showValue k [97]) = .ok (some (k.token [97], [])) →
    (∀ c ∈ p, IsScalar c) →
    (∀ c, rest.head? = some c → c ≠ 39 ∧ c ≠ 34) →
    nextToken env (showValue k p ++ rest) = .ok (some (k.token p, rest))

/-- the full statement fails already for the Generic dialect and the payload `''` -/
theorem fullStatement_false : ¬ FullStatement := by
  intro h
  have := h (envOf dialect_generic true) .singleQuoted [39, 39] [] rfl (by decide +kernel) (by decide) (by simp)
  revert this
  decide +kernel

end SqlVerif.Props.C06

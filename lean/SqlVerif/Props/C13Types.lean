import SqlVerif.Lemmas.DataTypeParse
import SqlVerif.Props.C13
import SqlVerif.Props.C13Dml
/-!
# C13 on data types — the label list of `ENUM(..)` / `SET(..)` is a `parse_comma_separated` list

`Parser::parse_string_values` reads `(`, then `parse_comma_separated(|p| <one single-quoted string>)`,
then `)` (model: `DTy.stringValues` / `DTy.strVals`, `Model/DataType.lean`, streams `dtparse`, `dml`,
`ddl`).  Here, for EVERY configuration and token list:

* `strVals_is_commaSep`, `enum_labels_is_lists_model`: the label list of the model IS
  `Lists.commaSep` of `Model/Lists.lean` on data-type tokens (classification `dtClass`: the comma, and
  the end set of `is_parse_comma_separated_end` = `DTy.afterCommaEnds`), with the element parser
  `labelElem`, answers and errors alike;
* `label_local`: one label is a local element (whatever follows);
* `enum_labels_trailing_comma`: with the option on, `'a', …, 'z', <end>` and `'a', …, 'z' <end>`
  give the same labels and stop at the same token (instance of `C13.trailing_comma_noop`), for the
  list helper and for the model function; `enum_type_trailing_comma`: `ENUM('a', 'b', )` and
  `ENUM('a', 'b')` (also `SET`) are the same type, everything consumed;
* `enum_labels_option_inert`: without a trailing comma the option changes nothing (a label never
  begins with a list-ending token, so the hypothesis of `C13.option_inert` is always met);
* `enum_labels_trailing_comma_off`: with the option off the trailing comma is rejected
  (`Expected: a string, found: )`);
* `enum_column_trailing_comma` (kernel-checked witness through the statement model):
  `CREATE TABLE t (a ENUM('x', 'y', ))` is accepted with the two labels when the option is on and
  rejected when it is off.
-/
namespace SqlVerif.Props.C13Types
open SqlVerif.DTy SqlVerif.Lists
open SqlVerif.Pratt (W Sym str)

/-- the classification `parse_comma_separated` uses, on the tokens of the data-type model: the end set
is `afterCommaEnds` (closers, `;`, words of `RESERVED_FOR_COLUMN_ALIAS`) -/
def dtClass : TokClass Tok where
  isComma t := t.isSym .Comma
  endsList t := afterCommaEnds true [t]

/-- the closure of `parse_string_values`: the next token must be a single-quoted string -/
def labelElem : List Tok → Option (W × List Tok)
  | .sqs v :: r => some (v, r)
  | _ => none

theorem isComma_eq {t : Tok} (h : dtClass.isComma t = true) : t = .sym .Comma := by
  simp only [dtClass, Tok.isSym] at h
  split at h
  · simp at h; subst h; rfl
  · simp at h

theorem afterCommaEnds_eq (tc : Bool) (r : List Tok) : afterCommaEnds tc r = (tc && peekEnds dtClass r) := by
  cases r with
  | nil => simp [afterCommaEnds, peekEnds]
  | cons a b =>
    cases a <;> try (simp [afterCommaEnds, peekEnds, dtClass]; done)
    rename_i s; cases s <;> simp [afterCommaEnds, peekEnds, dtClass]

/-- the list-end test of the model is `is_parse_comma_separated_end` of `Model/Lists.lean`, and it is
the one the field lists of the model (`commaEnd`) use -/
theorem commaEnd_is_commaSepEnd (c : Cfg) (ts : List Tok) :
    commaSepEnd dtClass c.trailingCommas ts = ((commaEnd c ts).1.isSome, (commaEnd c ts).2) := by
  cases ts with
  | nil => rfl
  | cons a b =>
    cases a <;> try rfl
    rename_i s
    cases s <;> try rfl
    simp only [commaSepEnd, dtClass, Tok.isSym, beq_self_eq_true, ↓reduceIte, commaEnd, consumeSym]
    cases c.trailingCommas with
    | false => rfl
    | true =>
      cases b with
      | nil => rfl
      | cons x y =>
        cases x <;> try rfl
        · rename_i v q kw; simp only [peekEnds, afterCommaEnds, Bool.true_and, ↓reduceIte]; cases kw.rca <;> rfl
        · rename_i s; cases s <;> rfl

theorem commaSepEnd_comma (tc : Bool) (r : List Tok) :
    commaSepEnd dtClass tc (.sym .Comma :: r) = (afterCommaEnds tc r, r) := by
  rw [afterCommaEnds_eq]
  cases tc <;> simp [commaSepEnd, dtClass, Tok.isSym]

theorem commaSepEnd_other {t : Tok} (h : t ≠ .sym .Comma) (tc : Bool) (r : List Tok) :
    commaSepEnd dtClass tc (t :: r) = (true, t :: r) := by
  have : dtClass.isComma t = false := by
    cases hc : dtClass.isComma t with
    | false => rfl
    | true => exact absurd (isComma_eq hc) h
  simp [commaSepEnd, this]

/-- **the label list of the model IS `parse_comma_separated`** of `Model/Lists.lean` with the element
parser `labelElem`: same labels and same rest, or both fail -/
theorem strVals_is_commaSep (c : Cfg) : ∀ (n : Nat) (ts : List Tok), ts.length < n →
    commaSep dtClass c.trailingCommas labelElem n ts = (strVals c ts).toOption := by
  intro n
  induction n with
  | zero => intro ts h; simp at h
  | succ n ih =>
    intro ts hl
    cases ts with
    | nil => rfl
    | cons t r =>
      cases t with
      | sqs v =>
        cases r with
        | nil => rfl
        | cons t2 r2 =>
          by_cases hc : t2 = .sym .Comma
          · subst hc
            simp only [commaSep, labelElem, commaSepEnd_comma, strVals]
            cases he : afterCommaEnds c.trailingCommas r2 with
            | true => rfl
            | false =>
              simp only [Bool.false_eq_true, ↓reduceIte]
              rw [ih r2 (by simp at hl; omega)]
              cases strVals c r2 with
              | error e => rfl
              | ok p => rfl
          · simp only [commaSep, labelElem, commaSepEnd_other hc]
            unfold strVals
            split
            · rename_i heq; simp at heq; exact absurd heq.2.1 hc
            · rename_i heq; simp at heq; obtain ⟨rfl, rfl⟩ := heq; rfl
            · rename_i _ hx; exact (hx _ _ rfl).elim
      | _ => rfl

theorem strVals_of_commaSep (c : Cfg) {n : Nat} {ts : List Tok} (hn : ts.length < n) {vs : List W} {rest : List Tok}
    (h : commaSep dtClass c.trailingCommas labelElem n ts = some (vs, rest)) : strVals c ts = .ok (vs, rest) := by
  rw [strVals_is_commaSep c n ts hn] at h
  cases hs : strVals c ts with
  | error e => simp [hs, Except.toOption] at h
  | ok p => simp [hs, Except.toOption] at h; subst h; rfl

theorem expectSym_ok {s : Sym} {ts r : List Tok} (h : expectSym s ts = .ok r) : ts = .sym s :: r := by
  cases ts with
  | nil => simp [expectSym, expectedAt] at h
  | cons a b =>
    simp only [expectSym] at h
    split at h
    · rename_i ha
      simp at h; subst h
      unfold Tok.isSym at ha; split at ha
      · simp at ha; subst ha; rfl
      · simp at ha
    · simp [expectedAt] at h

/-- what `parse_data_type` does after the keyword `ENUM` / `SET`: `(`, then `parse_comma_separated` of
`Model/Lists.lean` over the labels, then `)` -/
theorem enum_labels_is_lists_model (c : Cfg) (kw : DKw) (hkw : kw = .ENUM ∨ kw = .SET) (ts : List Tok) (t : DT)
    (rest : List Tok) (h : parseLeaf c kw ts = some (.ok (t, rest))) :
    ∃ ts1 vs, ts = LParen :: ts1 ∧ t = (if kw = .ENUM then .enum vs else .set vs) ∧
      commaSep dtClass c.trailingCommas labelElem ts.length ts1 = some (vs, RParen :: rest) := by
  have key : ∀ vs r, stringValues c ts = .ok (vs, r) →
      ∃ ts1, ts = LParen :: ts1 ∧ commaSep dtClass c.trailingCommas labelElem ts.length ts1 = some (vs, RParen :: r) := by
    intro vs r hs
    unfold stringValues at hs
    cases h0 : expectSym .LParen ts with
    | error e => simp [h0, bind, Except.bind] at hs
    | ok ts1 =>
      have ht := expectSym_ok h0
      subst ht
      simp only [h0, bind, Except.bind] at hs
      cases h1 : strVals c ts1 with
      | error e => simp [h1] at hs
      | ok p =>
        obtain ⟨vs1, r1⟩ := p
        simp only [h1] at hs
        cases h2 : expectSym .RParen r1 with
        | error e => simp [h2] at hs
        | ok r2 =>
          have hr := expectSym_ok h2
          subst hr
          simp [h2, pure, Except.pure] at hs; obtain ⟨rfl, rfl⟩ := hs
          refine ⟨ts1, rfl, ?_⟩
          rw [strVals_is_commaSep c _ ts1 (by simp), h1]; rfl
  rcases hkw with rfl | rfl
  · simp only [parseLeaf, Option.some.injEq] at h
    cases hs : stringValues c ts with
    | error e => simp [hs, bind, Except.bind] at h
    | ok p =>
      obtain ⟨vs, r⟩ := p
      simp [hs, bind, Except.bind, pure, Except.pure] at h; obtain ⟨rfl, rfl⟩ := h
      obtain ⟨ts1, h1, h2⟩ := key vs r hs
      exact ⟨ts1, vs, h1, by simp, h2⟩
  · simp only [parseLeaf, Option.some.injEq] at h
    cases hs : stringValues c ts with
    | error e => simp [hs, bind, Except.bind] at h
    | ok p =>
      obtain ⟨vs, r⟩ := p
      simp [hs, bind, Except.bind, pure, Except.pure] at h; obtain ⟨rfl, rfl⟩ := h
      obtain ⟨ts1, h1, h2⟩ := key vs r hs
      exact ⟨ts1, vs, h1, by simp, h2⟩

-- ------------------------------------------------------------------ element locality
/-- one label is a local element: whatever follows, exactly the string token is consumed -/
theorem label_local (v : W) : LocalOn dtClass labelElem [.sqs v] v := fun _ _ => rfl

theorem comma_isComma : dtClass.isComma Comma = true := rfl

theorem label_startsPlain (v : W) : StartsPlain dtClass [.sqs v] := ⟨.sqs v, [], rfl, rfl⟩

/-- the printed label list is the elements joined by commas -/
theorem labelsToks_eq_joinWith (ls : List W) :
    labelsToks ls = joinWith Comma ((ls.map fun l => (([Tok.sqs l] : List Tok), l)).map (·.1)) := by
  unfold labelsToks
  induction ls with
  | nil => rfl
  | cons a r ih =>
    cases r with
    | nil => rfl
    | cons b r2 =>
      simp only [List.map, intersperse, joinWith] at ih ⊢
      rw [ih]

theorem labels_values (ls : List W) : (ls.map fun l => (([Tok.sqs l] : List Tok), l)).map (·.2) = ls := by
  induction ls with
  | nil => rfl
  | cons a r ih => simp only [List.map] at ih ⊢; rw [ih]

theorem labelsToks_length (ls : List W) : ls.length ≤ (labelsToks ls).length := by
  unfold labelsToks
  induction ls with
  | nil => simp [intersperse]
  | cons a r ih =>
    cases r with
    | nil => simp [intersperse]
    | cons b r2 => simp only [List.map, intersperse, List.length_cons, List.cons_append, List.nil_append] at ih ⊢; omega

-- ------------------------------------------------------------------ the trailing comma
/-- **ENUM/SET labels, option on**: a trailing comma before a list-ending token (or EOF) is a no-op,
for `parse_comma_separated` of `Model/Lists.lean` and for the label parser of the model -/
theorem enum_labels_trailing_comma (c : Cfg) (htc : c.trailingCommas = true) (ls : List W) (hne : ls ≠ [])
    (tail : List Tok) (ht : EndTail dtClass tail) :
    (∀ n, ls.length ≤ n →
      commaSep dtClass true labelElem n (labelsToks ls ++ Comma :: tail) = some (ls, tail) ∧
      commaSep dtClass true labelElem n (labelsToks ls ++ tail) = some (ls, tail)) ∧
    strVals c (labelsToks ls ++ Comma :: tail) = .ok (ls, tail) ∧
    strVals c (labelsToks ls ++ tail) = .ok (ls, tail) := by
  have gen : ∀ n, ls.length ≤ n →
      commaSep dtClass true labelElem n (labelsToks ls ++ Comma :: tail) = some (ls, tail) ∧
      commaSep dtClass true labelElem n (labelsToks ls ++ tail) = some (ls, tail) := by
    intro n hn
    have := SqlVerif.Props.C13.trailing_comma_noop dtClass labelElem Comma comma_isComma tail ht
      (ls.map fun l => (([Tok.sqs l] : List Tok), l)) (by cases ls <;> simp_all)
      (fun e he => by
        obtain ⟨l, _, rfl⟩ := List.mem_map.1 he
        exact label_local l)
      (fun e he => by
        obtain ⟨l, _, rfl⟩ := List.mem_map.1 (List.mem_of_mem_tail he)
        exact label_startsPlain l)
      n (by simpa using hn)
    rw [← labelsToks_eq_joinWith, labels_values] at this
    exact this
  refine ⟨gen, ?_, ?_⟩
  · have h := (gen ((labelsToks ls ++ Comma :: tail).length + 1) (by
      have := labelsToks_length ls
      simp only [List.length_append]; omega)).1
    rw [← htc] at h
    exact strVals_of_commaSep c (Nat.lt_succ_self _) h
  · have h := (gen ((labelsToks ls ++ tail).length + 1) (by
      have := labelsToks_length ls
      simp only [List.length_append]; omega)).2
    rw [← htc] at h
    exact strVals_of_commaSep c (Nat.lt_succ_self _) h

/-- **`ENUM('a', 'b', )` = `ENUM('a', 'b')`** (also `SET`) with the option on: the same type, the `)`
consumed, the same rest -/
theorem enum_type_trailing_comma (c : Cfg) (htc : c.trailingCommas = true) (ls : List W) (hne : ls ≠ []) (R : List Tok) :
    parseLeaf c .ENUM (LParen :: (labelsToks ls ++ Comma :: RParen :: R)) = some (.ok (.enum ls, R)) ∧
    parseLeaf c .ENUM (LParen :: (labelsToks ls ++ RParen :: R)) = some (.ok (.enum ls, R)) ∧
    parseLeaf c .SET (LParen :: (labelsToks ls ++ Comma :: RParen :: R)) = some (.ok (.set ls, R)) ∧
    parseLeaf c .SET (LParen :: (labelsToks ls ++ RParen :: R)) = some (.ok (.set ls, R)) := by
  have ht : EndTail dtClass (RParen :: R) := Or.inr ⟨RParen, R, rfl, rfl, rfl⟩
  obtain ⟨_, h1, h2⟩ := enum_labels_trailing_comma c htc ls hne (RParen :: R) ht
  simp [parseLeaf, stringValues, expectSym, LParen, RParen, Tok.isSym, bind, Except.bind, pure, Except.pure] at h1 h2 ⊢
  simp [h1, h2]

/-- **without a trailing comma the option changes nothing**: a label never begins with a list-ending
token, so the hypothesis of `C13.option_inert` is always met -/
theorem enum_labels_option_inert (c : Cfg) (ls : List W) (hne : ls ≠ []) (tail : List Tok) (ht : EndTail dtClass tail) :
    (∀ n, ls.length ≤ n →
      commaSep dtClass true labelElem n (labelsToks ls ++ tail) = commaSep dtClass false labelElem n (labelsToks ls ++ tail)) ∧
    strVals { c with trailingCommas := true } (labelsToks ls ++ tail) =
      strVals { c with trailingCommas := false } (labelsToks ls ++ tail) := by
  have gen : ∀ n, ls.length ≤ n →
      commaSep dtClass true labelElem n (labelsToks ls ++ tail) = commaSep dtClass false labelElem n (labelsToks ls ++ tail) := by
    intro n hn
    have := SqlVerif.Props.C13.option_inert dtClass labelElem Comma comma_isComma tail ht
      (ls.map fun l => (([Tok.sqs l] : List Tok), l)) (by cases ls <;> simp_all)
      (fun e he => by
        obtain ⟨l, _, rfl⟩ := List.mem_map.1 he
        exact label_local l)
      (fun e he => by
        obtain ⟨l, _, rfl⟩ := List.mem_map.1 (List.mem_of_mem_tail he)
        exact label_startsPlain l)
      n (by simpa using hn)
    rw [← labelsToks_eq_joinWith] at this
    exact this
  refine ⟨gen, ?_⟩
  have hl : ls.length ≤ (labelsToks ls ++ tail).length + 1 := by
    have := labelsToks_length ls
    simp only [List.length_append]; omega
  have hon := (enum_labels_trailing_comma { c with trailingCommas := true } rfl ls hne tail ht).2.2
  have hoff : commaSep dtClass false labelElem ((labelsToks ls ++ tail).length + 1) (labelsToks ls ++ tail) = some (ls, tail) := by
    rw [← gen _ hl]
    exact ((enum_labels_trailing_comma { c with trailingCommas := true } rfl ls hne tail ht).1 _ hl).2
  rw [hon, strVals_of_commaSep { c with trailingCommas := false } (Nat.lt_succ_self _) hoff]

/-- **option off**: the trailing comma is not accepted — the element parser runs on the `)` that
follows it (`Expected: a string, found: )`) -/
theorem enum_labels_trailing_comma_off (c : Cfg) (htc : c.trailingCommas = false) (ls : List W) (hne : ls ≠ [])
    (R : List Tok) :
    strVals c (labelsToks ls ++ Comma :: RParen :: R) = .error (.expected (str "a string") (some RParen)) ∧
    parseLeaf c .ENUM (LParen :: (labelsToks ls ++ Comma :: RParen :: R)) =
      some (.error (.expected (str "a string") (some RParen))) := by
  have h : strVals c (labelsToks ls ++ Comma :: RParen :: R) = .error (.expected (str "a string") (some RParen)) := by
    induction ls with
    | nil => exact absurd rfl hne
    | cons a r ih =>
      cases r with
      | nil => simp [labelsToks, intersperse, strVals, Comma, RParen, afterCommaEnds, htc, expectedAt, bind, Except.bind]
      | cons b r2 =>
        have ih := ih (by simp)
        simp only [labelsToks, List.map, intersperse, Comma, RParen, List.cons_append, List.nil_append] at ih ⊢
        simp only [strVals, htc]
        have hend : afterCommaEnds false (intersperse (Tok.sym Sym.Comma) ([Tok.sqs b] :: List.map (fun l => [Tok.sqs l]) r2) ++
            Tok.sym Sym.Comma :: Tok.sym Sym.RParen :: R) = false := by
          cases r2 <;> simp [intersperse, afterCommaEnds]
        simp [hend, ih, bind, Except.bind]
  refine ⟨h, ?_⟩
  simp [parseLeaf, stringValues, expectSym, LParen, Tok.isSym, bind, Except.bind, pure, Except.pure] at h ⊢
  simp [h]

-- ------------------------------------------------------------------ non-vacuity and witnesses
section Examples
def cOn : Cfg :=
  { isGeneric := true, isBigQuery := false, isClickHouse := false, isDuckDb := false, isPostgres := false,
    isSnowflake := false, trailingCommas := true, dqWord := true, lbWord := false }
def cOff : Cfg := { cOn with trailingCommas := false }
def enumKw : Tok := .word (str "ENUM") none .ENUM
def lbl (s : String) : Tok := .sqs (str s)

/-- `ENUM('a', 'b', ) x`, `ENUM('a', 'b') x`: the same type, stopping at `x`, with the option on; with the
option off the first is the error of the element parser on `)`; a missing separator is the error of
`expect_token(')')` whatever the option; `'a', FROM` ends the list in front of the reserved word
(option on) -/
example :
    parseDataType cOn 20 10 [enumKw, LParen, lbl "a", Comma, lbl "b", Comma, RParen, .word (str "x") none .noKw]
      = .ok (.enum [str "a", str "b"], [.word (str "x") none .noKw]) ∧
    parseDataType cOn 20 10 [enumKw, LParen, lbl "a", Comma, lbl "b", RParen, .word (str "x") none .noKw]
      = .ok (.enum [str "a", str "b"], [.word (str "x") none .noKw]) ∧
    parseDataType cOff 20 10 [enumKw, LParen, lbl "a", Comma, lbl "b", Comma, RParen]
      = .error (.expected (str "a string") (some RParen)) ∧
    parseDataType cOn 20 10 [enumKw, LParen, lbl "a", lbl "b", RParen]
      = .error (.expected (str ")") (some (lbl "b"))) ∧
    parseDataType cOff 20 10 [enumKw, LParen, lbl "a", lbl "b", RParen]
      = .error (.expected (str ")") (some (lbl "b"))) ∧
    parseDataType cOn 20 10 [enumKw, LParen, lbl "a", Comma, .word (str "FROM") none .otherRca, RParen]
      = .error (.expected (str ")") (some (.word (str "FROM") none .otherRca))) := by decide +kernel

example : commaSep dtClass true labelElem 5 [lbl "a", Comma, lbl "b", Comma, RParen] = some ([str "a", str "b"], [RParen]) ∧
    commaSep dtClass false labelElem 5 [lbl "a", Comma, lbl "b", Comma, RParen] = none := by decide +kernel

open SqlVerif.Props.C13Dml (g1 g0 wd kw) in
/-- **through the statement model** (stream `dml`): `CREATE TABLE t (a ENUM('x', 'y', ))` is accepted with
the two labels when the option is on, rejected when it is off -/
theorem enum_column_trailing_comma :
    (match SqlVerif.Dml.parseStmt g1 200 50 [kw "CREATE", kw "TABLE", wd "t", .sym .LParen, wd "a", kw "ENUM", .sym .LParen,
        .sqs (str "x"), .sym .Comma, .sqs (str "y"), .sym .Comma, .sym .RParen, .sym .RParen] with
     | .ok (.createTable ct, []) => ct.cols.map (fun p => p.1.ty) == [.enum [str "x", str "y"]]
     | _ => false) = true ∧
    (match SqlVerif.Dml.parseStmt g0 200 50 [kw "CREATE", kw "TABLE", wd "t", .sym .LParen, wd "a", kw "ENUM", .sym .LParen,
        .sqs (str "x"), .sym .Comma, .sqs (str "y"), .sym .Comma, .sym .RParen, .sym .RParen] with
     | .error (.syntax _) => true
     | _ => false) = true := by decide +kernel
end Examples

/-- The full property for every list inside a data type (not proved here: the field lists of
`STRUCT<..>` / `Tuple(..)` are ad-hoc loops of the parser, the ones of `UNION(..)` / `Nested(..)` /
DuckDB `STRUCT(..)` are `parse_comma_separated` over recursive elements). -/
def FullStatement : Prop :=
  ∀ (c : Cfg) (fuel depth : Nat) (t : DT) (a R : List Tok), c.trailingCommas = true →
    parseDataType c fuel depth (a ++ RParen :: R) = .ok (t, R) →
    parseDataType c fuel depth (a ++ Comma :: RParen :: R) = .ok (t, R)

end SqlVerif.Props.C13Types

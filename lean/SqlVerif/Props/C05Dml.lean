import SqlVerif.Lemmas.DmlContent
import SqlVerif.Props.C05
/-!
# C05 on the statement fragment — nothing the user wrote is lost, nothing invented

Extends `query_content_preserved_partial` (`Props/C05Query.lean`) to the statements of
`Model/Dml.lean` printed by `Model/DmlPrint.lean` (stream `dml`: real `to_string()` against the model
text).  For EVERY configuration record, fuel, recursion limit and token list:

* `stmt_content_preserved_partial`: if the modelled statement parser accepts a prefix `pre` of the
  input and returns the statement `s`, and `s` is `printable`, the SEQUENCE of content tokens
  (identifiers with their quoting, numbers, string payloads, placeholders) of `pre` is exactly that
  of the printed tokens `s.showToks`: nothing lost, nothing invented, nothing reordered — although
  `Display` drops trailing commas, `LIMIT ALL`, the `FROM` that `UPDATE` swallows in MySQL-like
  dialects and the keyword a column option swallows before its dialect test fails, adds `AS` before
  aliases, `ROW` before every VALUES row once one had it, `()` after a table without columns, and
  respells every keyword (`TEMP` → `TEMPORARY`).
* `Stmt.printable` (decidable, `Lemmas/DmlContent.lean`): every expression and query of the
  statement is printable (see `Props/C01.lean` / `Props/C05Query.lean`), and every column type of a
  `CREATE TABLE` is a keyword-only type written with keyword tokens (`INT`, `DOUBLE PRECISION`,
  `TIMESTAMP WITH TIME ZONE`, `VARCHAR(MAX)`, … — no length, no custom name, no label).
  The excluded type shapes do change the content on the current code (kernel-checked witnesses):
  `content_changed_type_number` (`VARCHAR(010)` prints `VARCHAR(10)`: numbers inside types are
  parsed to `u64` and re-rendered); custom type names with modifiers keep their content on the
  current code (example below) but are outside `printable`.

Proof: `parseStmt_yield` and a content lemma per parser function (`Lemmas/DmlContent.lean`):
keyword and punctuation tokens carry no content, identifier / alias / name tokens are printed as
themselves, expressions by `faithful_content`, queries by `content_all`, and every word of a
keyword-only type name is in the keyword table (decided on the generated table).
-/
namespace SqlVerif.Props.C05Dml
open SqlVerif.Pratt SqlVerif.Query SqlVerif.Dml SqlVerif.Gen

/-- **content preservation** for the modelled statements, as a statement about sequences -/
theorem stmt_content_preserved_partial (c : DCfg) (fuel limit : Nat) (ts : List Tok) (s : Stmt) (rest : List Tok)
    (h : parseStmt c fuel limit ts = .ok (s, rest)) (hp : s.printable = true) :
    ∃ pre, ts = pre ++ rest ∧ pre.filterMap contentOf = s.showToks.filterMap contentOf :=
  ⟨s.flatten, parseStmt_yield c fuel limit ts s rest h, parseStmt_content c fuel limit ts s rest h hp⟩

/-- the same for a complete statement, and as a statement about multisets -/
theorem stmt_content_preserved_stmt (c : DCfg) (fuel limit : Nat) (ts : List Tok) (s : Stmt)
    (h : parseStmt c fuel limit ts = .ok (s, [])) (hp : s.printable = true) :
    ts.filterMap contentOf = s.showToks.filterMap contentOf ∧
    (ts.filterMap contentOf).Perm (s.showToks.filterMap contentOf) := by
  obtain ⟨pre, h1, h2⟩ := stmt_content_preserved_partial c fuel limit ts s [] h hp
  simp at h1; subst h1
  exact ⟨h2, h2 ▸ List.Perm.refl _⟩

section Witnesses
def g : DCfg := DCfg.ofRow dialect_generic
def my : DCfg := DCfg.ofRow dialect_mysql
def wd (s : String) : Tok := .word (str s) none none
def kw (s : String) : Tok := .word (str s) none (some (kwIndex s))
def num (s : String) : Tok := .number (str s) false
def lp : Tok := .sym .LParen
def rp : Tok := .sym .RParen
def cm : Tok := .sym .Comma

def contentIO (c : DCfg) (ts : List Tok) : Option (Bool × List Content × List Content) :=
  match parseStmt c 300 50 ts with
  | .ok (s, []) => some (s.printable, ts.filterMap contentOf, s.showToks.filterMap contentOf)
  | _ => none

/-- non-vacuity: `INSERT INTO s.t ("A", b,) VALUES ROW(1, 'x'), (c + 1, ?) RETURNING b z` (trailing
comma option on): printable; the trailing comma disappears, `ROW` and `AS` appear, the ten content
tokens come back in order, and the text is what `to_string()` gives -/
example :
    (match parseStmt (g.withTrailing true) 300 50
      [kw "INSERT", kw "INTO", wd "s", .sym .Period, wd "t", lp, .word (str "A") (some 34) none, cm, wd "b", cm, rp,
       kw "VALUES", kw "ROW", lp, num "1", cm, .sqs (str "x"), rp, cm, lp, wd "c", .sym .Plus, num "1", cm, .placeholder (str "?"), rp,
       kw "RETURNING", wd "b", wd "z"] with
     | .ok (s, []) => (s.printable, s.showToks.filterMap contentOf == s.flatten.filterMap contentOf,
        (s.flatten.filterMap contentOf).length,
        s.showText == some (str "INSERT INTO s.t (\"A\", b) VALUES ROW(1, 'x'), ROW(c + 1, ?) RETURNING b AS z"))
     | _ => (false, false, 0, false)) = (true, true, 11, true) := by decide +kernel

/-- non-vacuity: `CREATE TEMP TABLE t (a INT NOT NULL DEFAULT 1 + 2, b DOUBLE PRECISION COMMENT 'c', d TIMESTAMP WITH TIME ZONE REFERENCES u (id))` -/
example :
    (match parseStmt g 300 50
      [kw "CREATE", kw "TEMP", kw "TABLE", wd "t", lp, wd "a", kw "INT", kw "NOT", kw "NULL", kw "DEFAULT", num "1", .sym .Plus, num "2", cm,
       wd "b", kw "DOUBLE", kw "PRECISION", kw "COMMENT", .sqs (str "c"), cm,
       wd "d", kw "TIMESTAMP", kw "WITH", kw "TIME", kw "ZONE", kw "REFERENCES", wd "u", lp, wd "id", rp, rp] with
     | .ok (s, []) => (s.printable, s.showToks.filterMap contentOf == s.flatten.filterMap contentOf,
        (s.flatten.filterMap contentOf).length,
        s.showText == some (str "CREATE TEMPORARY TABLE t (a INT NOT NULL DEFAULT 1 + 2, b DOUBLE PRECISION COMMENT 'c', d TIMESTAMP WITH TIME ZONE REFERENCES u (id))"))
     | _ => (false, false, 0, false)) = (true, true, 9, true) := by decide +kernel

/-- non-vacuity, MySQL: `UPDATE t SET a = 1 FROM WHERE b` is accepted — the `FROM` is swallowed — and
prints `UPDATE t SET a = 1 WHERE b`: a keyword is dropped, the content is not -/
example :
    (match parseStmt my 300 50 [kw "UPDATE", wd "t", kw "SET", wd "a", .sym .Eq, num "1", kw "FROM", kw "WHERE", wd "b"] with
     | .ok (s, []) => (s.printable, s.showToks.filterMap contentOf == s.flatten.filterMap contentOf,
        s.showText == some (str "UPDATE t SET a = 1 WHERE b"))
     | _ => (false, false, false)) = (true, true, true) := by decide +kernel

/-- excluded shape, current code: `CREATE TABLE t (a VARCHAR(010))` prints `… VARCHAR(10)` — the
number inside the type is re-rendered -/
theorem content_changed_type_number :
    contentIO g [kw "CREATE", kw "TABLE", wd "t", lp, wd "a", kw "VARCHAR", lp, num "010", rp, rp] =
      some (false, [.ident (str "t") none, .ident (str "a") none, .num (str "010")],
                   [.ident (str "t") none, .ident (str "a") none, .num (str "10")]) := by decide +kernel

/-- an excluded shape that does keep its content since the fix "string modifiers of a custom data type keep
their quotes": `CREATE TABLE t (a foo('x', 1))` prints itself -/
example :
    (match parseStmt g 300 50 [kw "CREATE", kw "TABLE", wd "t", lp, wd "a", wd "foo", lp, .sqs (str "x"), cm, num "1", rp, rp] with
     | .ok (s, []) => (s.printable, s.showToks.filterMap contentOf == s.flatten.filterMap contentOf,
        s.showText == some (str "CREATE TABLE t (a foo('x', 1))"))
     | _ => (true, false, false)) = (false, true, true) := by decide +kernel
/-- **Deviation kept visible** (keywords, not content): outside MySQL / Generic (resp. SQLite / Generic, dialects
with `supports_asc_desc_in_column_definition`) `parse_optional_column_option` consumes `AUTO_INCREMENT`
(`AUTOINCREMENT`, `ASC`, `DESC`) BEFORE it tests the dialect, and then reports "no option": the
keyword is accepted and silently dropped — `CREATE TABLE t (a INT AUTOINCREMENT, b INT ASC)` prints
`CREATE TABLE t (a INT, b INT)` in PostgreSQL (same answers from the real parser, stream `dml`) -/
theorem option_keyword_swallowed :
    (match parseStmt (DCfg.ofRow dialect_postgresql) 300 50
      [kw "CREATE", kw "TABLE", wd "t", lp, wd "a", kw "INT", kw "AUTOINCREMENT", cm, wd "b", kw "INT", kw "ASC", rp] with
     | .ok (.createTable ct, []) =>
       (ct.cols.map (fun p => (p.1.opts.length, p.1.dropped.length)),
        (Stmt.createTable ct).showText == some (str "CREATE TABLE t (a INT, b INT)"))
     | _ => ([], false)) = ([(0, 1), (0, 1)], true) := by decide +kernel

/-- **Deviation kept visible** (a keyword, not content): `parse_update` consumes `FROM` before it tests the
dialect; in MySQL (also ANSI, ClickHouse, Databricks, Hive) `UPDATE t SET a = 1 FROM WHERE b` is accepted and
prints `UPDATE t SET a = 1 WHERE b` -/
theorem update_from_swallowed :
    (match parseStmt my 300 50 [kw "UPDATE", wd "t", kw "SET", wd "a", .sym .Eq, num "1", kw "FROM", kw "WHERE", wd "b"] with
     | .ok (.update u, []) => (u.fromKw.length, u.frm.isFnil, (Stmt.update u).showText == some (str "UPDATE t SET a = 1 WHERE b"))
     | _ => (0, false, false)) = (1, true, true) := by decide +kernel

end Witnesses

/-- The whole-grammar property (not proved: the statement kinds of the fragment only; decided by the
content-bag oracle on the real code). -/
def FullStatement {Ast : Type} (parse : List Tok → Option (Ast × List Tok)) (print : Ast → List Tok) : Prop :=
  ∀ ts a, parse ts = some (a, []) → (ts.filterMap contentOf).Perm ((print a).filterMap contentOf)

end SqlVerif.Props.C05Dml

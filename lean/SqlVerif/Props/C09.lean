import SqlVerif.Lemmas.TokLemmas
/-!
# C09 — tokens tile the input and carry true positions

Model: `Model/Tokenizer.lean` (`next_token` branch by branch, `State`, the loop of
`tokenize_with_location`) and `Model/Scan.lean` (the literal scanners).  Every theorem holds for
every `Env` (all dialect rows, both un-escape modes, arbitrary character predicates) and every
input.  They all follow from ONE fact about `next_token`, `Tok.nextToken_suffix` (a token
consumes a non-empty prefix of what was left, proved for every branch), by induction over the
loop (`Lemmas/TokLemmas.lean`, part A, generic in the token function).

`tokenizeSpans` is `tokenize` that also reports the slice each token consumed; `tokenize` forgets
the slices (`tokenize_forgets`).  An `Entry` is `(token, location, slice)`.
-/
namespace SqlVerif.Props.C09
open SqlVerif.Tok SqlVerif.Scan SqlVerif.Gen SqlVerif.Keywords

/-- `tokenize` is `tokenizeSpans` with the slices dropped -/
theorem tokenize_forgets (env : Env) (s : List Nat) :
    tokenize env s = (match tokenizeSpans env s with
      | .error e => .error e
      | .ok ts => .ok (ts.map forgetSpan)) := rfl

/-- the token function consumes a non-empty prefix (the lemma everything else rests on) -/
theorem next_token_progress (env : Env) (s : List Nat) (t : Token) (rest : List Nat)
    (h : nextToken env s = .ok (some (t, rest))) : ∃ pre, pre ≠ [] ∧ s = pre ++ rest :=
  nextToken_suffix env s t rest h

/-- **tile**: the consumed slices, concatenated in order, are exactly the input: no character is
dropped, duplicated or reordered -/
theorem tile (env : Env) (s : List Nat) (ts : List (Entry Token))
    (h : tokenizeSpans env s = .ok ts) : slices ts = s :=
  (tokLoop_inv (nextToken_ok env) _ _ _ _ h).1

/-- **progress**: every token consumes at least one character, hence at most `|s|` tokens -/
theorem progress (env : Env) (s : List Nat) (ts : List (Entry Token))
    (h : tokenizeSpans env s = .ok ts) : (∀ x ∈ ts, x.slice ≠ []) ∧ ts.length ≤ s.length := by
  have inv := tokLoop_inv (nextToken_ok env) _ _ _ _ h
  refine ⟨inv.2.1, ?_⟩
  have := length_le_of_nonempty_slices ts inv.2.1
  rw [inv.1] at this
  exact this

/-- the same bound for the public function -/
theorem token_count_le (env : Env) (s : List Nat) (ts : List (Token × Loc))
    (h : tokenize env s = .ok ts) : ts.length ≤ s.length := by
  rw [tokenize_forgets] at h
  split at h
  · simp at h
  · rename_i ts' h'
    simp at h
    rw [← h, List.length_map]
    exact (progress env s ts' h').2

/-- the loop never stops for lack of fuel: an error of `tokenize` is an error of `next_token` -/
theorem never_out_of_fuel (env : Env) (s : List Nat) : tokenizeSpans env s ≠ .error .fuel :=
  tokLoop_fuel_ok (nextToken_ok env) _ _ _ (Nat.lt_succ_self _)

/-- **loc_true**: the location reported for a token is computed from the text before it only:
line = 1 + number of `\n` in that text, column = 1 + number of characters after its last `\n`
(`locOf`); and that text is the concatenation of the earlier slices, a prefix of the input -/
theorem loc_true (env : Env) (s : List Nat) (pre : List (Entry Token)) (x : Entry Token)
    (post : List (Entry Token)) (h : tokenizeSpans env s = .ok (pre ++ x :: post)) :
    x.loc = locOf (slices pre) ∧ s = slices pre ++ (x.slice ++ slices post) := by
  have inv := tokLoop_inv (nextToken_ok env) _ _ _ _ h
  refine ⟨?_, ?_⟩
  · rw [locChain_index pre _ x post inv.2.2, advance_start]
  · rw [← inv.1]; simp

/-- `locOf` spelled out -/
theorem locOf_eq (p : List Nat) :
    locOf p = ⟨1 + p.count 10, 1 + (p.reverse.takeWhile (fun c => c != 10)).length⟩ := rfl

/-- **strictly_increasing**: locations increase strictly (lexicographically) along the token list -/
theorem strictly_increasing (env : Env) (s : List Nat) (ts : List (Entry Token))
    (h : tokenizeSpans env s = .ok ts) : ts.Pairwise (fun a b => Loc.lt a.loc b.loc) := by
  have inv := tokLoop_inv (nextToken_ok env) _ _ _ _ h
  exact locChain_pairwise ts _ inv.2.2 inv.2.1

/-- the same for the public function -/
theorem strictly_increasing_tokenize (env : Env) (s : List Nat) (ts : List (Token × Loc))
    (h : tokenize env s = .ok ts) : (ts.map (·.2)).Pairwise Loc.lt := by
  rw [tokenize_forgets] at h
  split at h
  · simp at h
  · rename_i ts' h'
    simp at h
    rw [← h, List.map_map, List.pairwise_map]
    exact strictly_increasing env s ts' h'

/-- **suffix_stable**: tokenizing the text that starts at a token boundary yields the remaining
tokens with the same slices; only the locations restart (`next_token` never reads line/col) -/
theorem suffix_stable (env : Env) (s : List Nat) (pre post : List (Entry Token))
    (h : tokenizeSpans env s = .ok (pre ++ post)) :
    s = slices pre ++ slices post ∧
    ∃ post', tokenizeSpans env (slices post) = .ok post' ∧ untimed post' = untimed post := by
  have inv := tokLoop_inv (nextToken_ok env) _ _ _ _ h
  refine ⟨by rw [← inv.1]; simp, ?_⟩
  obtain ⟨fuel', loc', h2⟩ := tokLoop_suffix (nextToken_ok env) pre _ _ _ post h
  exact tokLoop_loc_irrel (nextToken_ok env) _ _ _ _ h2 _ ⟨1, 1⟩ (Nat.lt_succ_self _)

/-- the suffix in `suffix_stable` is `s` without its first `|slices pre|` characters -/
theorem suffix_is_drop (env : Env) (s : List Nat) (pre post : List (Entry Token))
    (h : tokenizeSpans env s = .ok (pre ++ post)) : slices post = s.drop (slices pre).length := by
  rw [(suffix_stable env s pre post h).1]; simp

/-- **slice_is_text**: for every token that determines its source text (`Token.text`: unquoted
words and keywords, numbers, punctuation and operators, placeholders, custom operators, single-line
and multi-line comments, `Tab`, `Char`) the consumed slice is exactly that text.  Quoted literals,
delimited identifiers, `Neq` (`<>`/`!=`), `Newline` (`\n`, `\r`, `\r\n`), `Space` (any whitespace
character) and `HexStringLiteral` have no determined text and are not constrained here. -/
theorem slice_is_text (env : Env) (s : List Nat) (ts : List (Entry Token))
    (h : tokenizeSpans env s = .ok ts) :
    ∀ e ∈ ts, ∀ x, e.tok.text = some x → e.slice = x := by
  intro e he x hx
  obtain ⟨rest, hn⟩ := tokLoop_entries (nextToken_ok env) _ _ _ _ h e he
  have := nextToken_text env _ _ _ _ hn hx
  exact List.append_cancel_right this

/-- the one-step form: what `next_token` consumed is the text of the token it returned -/
theorem next_token_text (env : Env) (s : List Nat) (t : Token) (rest x : List Nat)
    (h : nextToken env s = .ok (some (t, rest))) (ht : t.text = some x) : s = x ++ rest :=
  nextToken_text env s t rest x h ht

/-! ## non-vacuity -/

def asciiBit (t : List Bool) (c : Nat) : Bool := t.getD c false

/-- the Generic dialect row with Rust's predicates on ASCII (as tabulated from the running code) -/
def genericEnv (un : Bool) : Env :=
  { row := dialect_generic, unescape := un,
    isWhitespace := asciiBit asciiIsWhitespace, isAlphabetic := asciiBit asciiIsAlphabetic,
    isNumeric := asciiBit asciiIsNumeric, isAlphanumeric := asciiBit asciiIsAlphanumeric,
    toUpper := fun c => [asciiToUpper.getD c c],
    isIdentStart := asciiBit dialect_generic.asciiIdentStart,
    isIdentPart := asciiBit dialect_generic.asciiIdentPart,
    isDelimStart := asciiBit dialect_generic.asciiDelimStart,
    isCustomOpPart := asciiBit dialect_generic.asciiCustomOp }

def errOf {α : Type} : Except TokErr α → Option TokErr
  | .error e => some e
  | .ok _ => none

/-- `SELECT 'a''b'⏎  FROM t` -/
def sample : List Nat :=
  [83, 69, 76, 69, 67, 84, 32, 39, 97, 39, 39, 98, 39, 10, 32, 32, 70, 82, 79, 77, 32, 116]

/-- tokens, locations and slices of the sample: two lines, a doubled quote un-escaped -/
example : (tokenizeSpans (genericEnv true) sample).toOption.map
      (fun ts => ts.map fun (x : Entry Token) => (x.loc.line, x.loc.col, x.slice)) =
    some [(1, 1, [83, 69, 76, 69, 67, 84]), (1, 7, [32]), (1, 8, [39, 97, 39, 39, 98, 39]),
      (1, 14, [10]), (2, 1, [32]), (2, 2, [32]), (2, 3, [70, 82, 79, 77]), (2, 7, [32]),
      (2, 8, [116])] := by decide +kernel

example : (tokenize (genericEnv true) sample).toOption.map (fun ts => (ts.map (·.1)).take 3) =
    some [.word ⟨[83, 69, 76, 69, 67, 84], none, (makeWord keywords (genericEnv true).upper [83, 69, 76, 69, 67, 84] none).keyword⟩,
      .whitespace .space, .singleQuotedString [97, 39, 98]] := by decide +kernel

/-- `SELECT` is recognised as a keyword in the sample -/
example : (makeWord keywords (genericEnv true).upper [83, 69, 76, 69, 67, 84] none).keyword.isSome = true := by
  decide +kernel

/-- raw mode keeps the doubled quote -/
example : (tokenize (genericEnv false) sample).toOption.map (fun ts => (ts.map (·.1)).drop 2 |>.take 1) =
    some [.singleQuotedString [97, 39, 39, 98]] := by decide +kernel

/-- restarting at the third token boundary (`'a''b'…`) gives the remaining seven tokens -/
example : (tokenizeSpans (genericEnv true) (sample.drop 7)).toOption.map
      (fun ts => ts.map fun (x : Entry Token) => (x.loc.line, x.loc.col, x.slice)) =
    some [(1, 1, [39, 97, 39, 39, 98, 39]), (1, 7, [10]), (2, 1, [32]), (2, 2, [32]),
      (2, 3, [70, 82, 79, 77]), (2, 7, [32]), (2, 8, [116])] := by decide +kernel

/-- errors are located values: an unterminated literal is reported where it starts, an unterminated
comment where the input ends (line 2) -/
example : errOf (tokenize (genericEnv true) [97, 32, 39, 98]) =
    some (.lex (str "Unterminated string literal") ⟨1, 3⟩) := by decide +kernel
example : errOf (tokenize (genericEnv true) [97, 10, 47, 42, 32, 120]) =
    some (.lex (str "Unexpected EOF while in a multi-line comment") ⟨2, 5⟩) := by decide +kernel

/-- `\r\n` is one `Newline` token whose slice has two characters (slice ≠ printed text) -/
example : (tokenizeSpans (genericEnv true) [13, 10, 97]).toOption.map
      (fun ts => ts.map fun (x : Entry Token) => (x.tok, x.loc.line, x.loc.col, x.slice)) =
    some [(Token.whitespace .newline, 1, 1, [13, 10]), (Token.word ⟨[97], none, none⟩, 2, 1, [97])] := by
  decide +kernel

/-- texts of the sample's tokens: keyword, identifier, layout and the comment of a second sample
are their slices; the string literal has no determined text -/
example : (tokenizeSpans (genericEnv true) sample).toOption.map
      (fun ts => ts.map fun (x : Entry Token) => x.tok.text) =
    some [some [83, 69, 76, 69, 67, 84], none, none, none, none, none, some [70, 82, 79, 77], none,
      some [116]] := by decide +kernel

/-- a number with exponent, a line comment up to its newline, a nested block comment and the
operator `->>` (code points below): each slice equals the token's text -/
example : (tokenizeSpans (genericEnv true)
      [49, 46, 53, 101, 51, 45, 45, 32, 99, 10, 47, 42, 32, 97, 32, 47, 42, 32, 98, 32, 42, 47, 32, 42, 47, 45, 62, 62]).toOption.map
      (fun ts => ts.map fun (x : Entry Token) => (x.tok.text == some x.slice, x.slice.length)) =
    some [(true, 5), (true, 5), (true, 15), (true, 3)] := by decide +kernel

end SqlVerif.Props.C09

import SqlVerif.Lemmas.StmtsLemmas
import SqlVerif.Model.StmtsSql
/-!
# C11 — a script parses as the concatenation of its statements

Generic theorem about the statements loop (`Model/Stmts.lean`, mirror of `parse_statements`), for
every token type, every statement parser that is *local* on the statements of the script
(followed by EOF or `;` it consumes exactly the statement), any layout of separators.
Locality of the ~100 real statement parsers is not proved here: it is searched on the real code by
the follower oracle (every corpus statement kind × dialect × followers), which is where the greedy
consumers show up (known findings).
-/
namespace SqlVerif.Props.C11
open SqlVerif.Stmts

variable {τ α ε : Type}

theorem script_length (c : TokClass τ) : ∀ (items : List (List τ × α × List τ)) (sep0 : List τ),
    (∀ it ∈ items, StartsStmt c it.1) →
    items.length ≤ (script sep0 (items.map fun it => (it.1, it.2.2))).length := by
  intro items
  induction items with
  | nil => intro sep0 _; simp
  | cons it rest ih =>
    intro sep0 hs
    obtain ⟨t, r, h, _⟩ := hs it (List.mem_cons_self ..)
    have := ih it.2.2 (fun x hx => hs x (List.mem_cons_of_mem _ hx))
    simp only [List.map_cons, script, List.length_append, List.length_cons, h] at this ⊢
    omega

/-- the script `;* s₁ ;+ s₂ ;+ … sₙ ;*` yields exactly `[a₁, …, aₙ]` -/
theorem script_concat (c : TokClass τ) (ps : List τ → Except ε (α × List τ))
    (items : List (List τ × α × List τ)) (sep0 : List τ)
    (hs0 : AllSemis c sep0) (hsep : ∀ it ∈ items, AllSemis c it.2.2)
    (hstart : ∀ it ∈ items, StartsStmt c it.1) (hloc : ∀ it ∈ items, LocalOn c ps it.1 it.2.1)
    (hinner : InnerSepsNonEmpty (items.map fun it => (it.1, it.2.2))) :
    parseStatements c ps (script sep0 (items.map fun it => (it.1, it.2.2))) = .ok (items.map (·.2.1)) := by
  have := loop_concat c ps items sep0 false [] _ hs0 hsep hstart hloc hinner (by simp)
    (Nat.lt_succ_of_le (script_length c items sep0 hstart))
  simpa [parseStatements] using this

/-- a statement must be followed by a separator or EOF (in a block body also by END, next theorem) -/
theorem requires_separator (c : TokClass τ) (ps : List τ → Except ε (α × List τ)) (fuel : Nat)
    (t : τ) (rest : List τ) (acc : List α) (h1 : c.isSemi t = false) (h2 : c.isEndKw t = false) :
    loop c ps (fuel + 1) true (t :: rest) acc = .error .expectedEnd := by
  simp [loop, dropSemis, h1, h2]

/-- In a BLOCK body (`blockClass`, CREATE PROCEDURE … BEGIN … END) the keyword `END` after a complete
statement ends the list and leaves the rest to the caller.  Until fix cc0dcb4 the top-level script loop
did the same and silently dropped the rest of the script; the script classes (`sqlClass`,
`Query.stmtClass`) now have `isEndKw = false`, so `requires_separator` applies to every token
(`script_requires_separator`). -/
theorem end_keyword_drops_tail (c : TokClass τ) (ps : List τ → Except ε (α × List τ)) (fuel : Nat)
    (t : τ) (rest : List τ) (acc : List α) (h1 : c.isSemi t = false) (h2 : c.isEndKw t = true) :
    loop c ps (fuel + 1) true (t :: rest) acc = .ok acc := by
  simp [loop, dropSemis, h1, h2]

/-- a script never ends at END: after a complete statement every token that is not `;` is an error -/
theorem script_requires_separator (ps : List STok → Except ε (α × List STok)) (fuel : Nat)
    (t : STok) (rest : List STok) (acc : List α) (h1 : t ≠ .semi) :
    loop sqlClass ps (fuel + 1) true (t :: rest) acc = .error .expectedEnd :=
  requires_separator sqlClass ps fuel t rest acc (by simp [sqlClass, h1]) rfl

theorem parseSelect_local (n : Nat) : LocalOn sqlClass parseSelect [.select, .num n] (toString n) := by
  intro f _; rfl

-- non-vacuity: `; SELECT 1 ;; SELECT 2 ;`, `SELECT 1 END other` (rejected in a script, cut in a block)
example : parseStatements sqlClass parseSelect
    [.semi, .select, .num 1, .semi, .semi, .select, .num 2, .semi] = .ok ["1", "2"] := by rfl
example : parseStatements sqlClass parseSelect [.select, .num 1, .endKw, .other] = .error .expectedEnd := by rfl
example : parseStatements sqlBlockClass parseSelect [.select, .num 1, .endKw, .other] = .ok ["1"] := by rfl
example : parseStatements sqlClass parseSelect [.select, .num 1, .select, .num 2] = .error .expectedEnd := by rfl

/-- The full property quantifies over every statement kind of every dialect being local. -/
def FullStatement : Prop :=
  ∀ (c : TokClass τ) (ps : List τ → Except ε (α × List τ)) (items : List (List τ × α × List τ)) (sep0 : List τ),
    AllSemis c sep0 → (∀ it ∈ items, AllSemis c it.2.2) → (∀ it ∈ items, StartsStmt c it.1) →
    InnerSepsNonEmpty (items.map fun it => (it.1, it.2.2)) →
    parseStatements c ps (script sep0 (items.map fun it => (it.1, it.2.2))) = .ok (items.map (·.2.1))

end SqlVerif.Props.C11

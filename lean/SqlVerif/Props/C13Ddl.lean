import SqlVerif.Lemmas.DdlExt
import SqlVerif.Props.C13Dml
import SqlVerif.Props.C13Query
/-!
# C13 on the second statement fragment — the lists of CREATE VIEW / CREATE INDEX / ALTER TABLE

All four lists of the fragment (`Model/Ddl.lean`, stream `ddl`) ARE `parse_comma_separated` lists —
none is an ad-hoc loop (contrast: `parse_columns` of CREATE TABLE, `Props/C13Dml.lean`):

* `*_is_lists_model`: the index column list (`parse_order_by_expr` elements), the INCLUDE list
  (`parse_identifier`), the view column list (`parse_view_column`) and the ALTER TABLE operation
  list (`parse_alter_table_operation`) of the model are `Lists.commaSep` on real tokens;
* element locality, for EVERY configuration, fuel, depth:
  `viewCol_local` (outside ClickHouse) and `alterOp_local` (operations other than `ADD`) are local
  in front of every follower (comma, closer, `;`, reserved word); `viewCol_local_sep` and
  `alterOp_local_sep` — ALL view columns (ClickHouse: with a data type) and ALL operations
  (`ADD coldef` included) are parsed to the same value in front of `,` `)` `;`; the index columns
  and INCLUDE identifiers re-use `orderByElem_local` / `insertColumn_local`;
* the trailing-comma instances of `Props/C13.lean`: `index_columns_trailing_comma`,
  `include_trailing_comma`, `view_columns_trailing_comma`, `alter_ops_trailing_comma`
  (+ `*_option_inert`);
* witnesses (kernel-checked): `view_columns_not_ad_hoc` — with the option on `CREATE VIEW v (a, FROM) AS …`
  is REJECTED (the list ends in front of the reserved word, then `)` is missing), where the ad-hoc
  loop of CREATE TABLE accepts `(a INT, FROM INT)`; `add_column_not_local_before_with` — an `ADD`
  operation is not local in front of a reserved word: `ADD a TIMESTAMP` followed by `WITH` fails
  (the data type reads on), which is why `alterOp_local` excludes `ADD`.
-/
namespace SqlVerif.Props.C13Ddl
open SqlVerif.Pratt SqlVerif.Query SqlVerif.Dml SqlVerif.Ddl SqlVerif.Lists SqlVerif.Gen
open SqlVerif.Props.C13Dml (comma_isComma insertColumn_local)

-- ------------------------------------------------------------------ element locality
/-- a view column (no data type: every dialect but ClickHouse) is local in front of every follower -/
theorem viewCol_local (c : XCfg) (hc : c.isClickHouse = false) (fuel depth : Nat) (a : List Tok) (v : ViewCol)
    (hacc : viewCol c fuel depth a = .ok (v, [])) :
    LocalOn listClass (asOpt (viewCol c fuel depth)) a v :=
  localOn_of_ext _ a v hacc fun x r hx => by
    simpa using viewCol_ext (stopper_ddlKw hx) (fun h => by rw [hc] at h; cases h) fuel depth r a v [] hacc

/-- every view column (ClickHouse: name and data type) is repeated in front of `,` `)` `;` -/
theorem viewCol_local_sep (c : XCfg) (fuel depth : Nat) (a : List Tok) (v : ViewCol)
    (hacc : viewCol c fuel depth a = .ok (v, [])) (x : Tok) (hx : colSep x = true) (r : List Tok) :
    viewCol c fuel depth (a ++ x :: r) = .ok (v, x :: r) := by
  simpa using viewCol_ext (colSep_ddlKw hx) (fun _ => hx) fuel depth r a v [] hacc

/-- an ALTER TABLE operation other than `ADD` is local in front of every follower -/
theorem alterOp_local (c : XCfg) (fuel depth : Nat) (a : List Tok) (op : AlterOp)
    (hadd : eatKw a XK.ADD = none) (hacc : alterOp c fuel depth a = .ok (op, [])) :
    LocalOn listClass (asOpt (alterOp c fuel depth)) a op :=
  localOn_of_ext _ a op hacc fun x r hx => by
    simpa using alterOp_ext (stopper_ddlKw hx) hx c fuel depth r a op [] (fun h => by rw [hadd] at h; cases h) hacc

/-- every ALTER TABLE operation (`ADD coldef` included) is repeated in front of `,` `)` `;` -/
theorem alterOp_local_sep (c : XCfg) (fuel depth : Nat) (a : List Tok) (op : AlterOp)
    (hacc : alterOp c fuel depth a = .ok (op, [])) (x : Tok) (hx : colSep x = true) (r : List Tok) :
    alterOp c fuel depth (a ++ x :: r) = .ok (op, x :: r) := by
  simpa using alterOp_ext (colSep_ddlKw hx) (colSep_stopper hx) c fuel depth r a op [] (fun _ => hx) hacc

-- ------------------------------------------------------------------ the lists are parse_comma_separated
/-- the column list of `CREATE INDEX` is `parse_comma_separated(parse_order_by_expr)` -/
theorem index_columns_is_lists_model (c : XCfg) (fuel depth : Nat) (kw : Tok) (temp ik ts : List Tok) (i : CreateIndex)
    (rest : List Tok) (h : parseCreateIndex c fuel depth kw temp ik ts = .ok (i, rest)) :
    ∃ ts1 rest1, commaSep listClass c.tc (asOpt (orderByElem c.d.q fuel depth)) fuel ts1 = some (i.cols.map (·.1), rest1) := by
  unfold parseCreateIndex at h
  split at h
  · simp at h
  · rename_i hd r1 hh
    split at h
    · simp at h
    · rename_i cols r2 hc
      split at h
      · simp at h
      · split at h
        · simp at h
        · simp at h; obtain ⟨rfl, rfl⟩ := h
          exact ⟨r1, r2, commaSepE_eq_lists _ _ _ _ _ _ hc⟩

/-- the INCLUDE list is `parse_comma_separated(parse_identifier)` -/
theorem include_is_lists_model (c : XCfg) (fuel : Nat) (ts : List Tok) (inc : List Tok × ParenIds) (rest : List Tok)
    (h : includePart c fuel ts = .ok (inc, rest)) (hne : inc.1 ≠ []) :
    ∃ ts1 rest1, commaSep listClass c.tc (asOpt identElem) fuel ts1 = some (inc.2.ids.map (·.1), rest1) := by
  unfold includePart at h
  split at h
  · simp at h; obtain ⟨rfl, rfl⟩ := h; simp at hne
  · split at h
    · simp at h
    · rename_i lp r1 hl
      split at h
      · simp at h
      · rename_i ids r2 hi
        split at h
        · simp at h
        · simp at h; obtain ⟨rfl, rfl⟩ := h
          exact ⟨r1, r2, commaSepE_eq_lists _ _ _ _ _ _ hi⟩

/-- a non-empty view column list is `parse_comma_separated(parse_view_column)` -/
theorem view_columns_is_lists_model (c : XCfg) (fuel depth : Nat) (ts : List Tok) (cols : List Tok × Sep ViewCol × List Tok)
    (rest : List Tok) (h : viewColumns c fuel depth ts = .ok (cols, rest)) (hne : cols.2.1 ≠ []) :
    ∃ ts1 rest1, commaSep listClass c.tc (asOpt (viewCol c fuel depth)) fuel ts1 = some (cols.2.1.map (·.1), rest1) := by
  unfold viewColumns at h
  split at h
  · simp at h; obtain ⟨rfl, rfl⟩ := h; simp at hne
  · rename_i lp r hl
    split at h
    · simp at h; obtain ⟨rfl, rfl⟩ := h; simp at hne
    · split at h
      · simp at h
      · rename_i cs r1 hc
        split at h
        · simp at h; obtain ⟨rfl, rfl⟩ := h
          exact ⟨r, r1, commaSepE_eq_lists _ _ _ _ _ _ hc⟩
        · simp at h

/-- the operation list of `ALTER TABLE` is `parse_comma_separated(parse_alter_table_operation)` -/
theorem alter_ops_is_lists_model (c : XCfg) (fuel depth : Nat) (kw : Tok) (ts : List Tok) (a : AlterTable) (rest : List Tok)
    (h : parseAlter c fuel depth kw ts = .ok (a, rest)) :
    ∃ ts1 rest1, commaSep listClass c.tc (asOpt (alterOp c fuel depth)) fuel ts1 = some (a.ops.map (·.1), rest1) := by
  unfold parseAlter at h
  split at h
  · split at h <;> simp at h
  · split at h
    · simp at h
    · rename_i name r1 hn
      split at h
      · simp at h
      · split at h
        · simp at h
        · split at h
          · simp at h
          · rename_i ops r2 ho
            split at h
            · simp at h
            · simp at h; obtain ⟨rfl, rfl⟩ := h
              exact ⟨r1, r2, commaSepE_eq_lists _ _ _ _ _ _ ho⟩

-- ------------------------------------------------------------------ trailing commas
/-- **index columns** (outside ClickHouse / Generic, where `WITH FILL` may follow an element): a
trailing comma before a list-ending token is a no-op when the option is on -/
theorem index_columns_trailing_comma (c : XCfg) (hc : c.d.q.chOrGeneric = false) (fuel depth : Nat)
    (es : List (List Tok × OrderByExpr)) (hne : es ≠ [])
    (hacc : ∀ e ∈ es, orderByElem c.d.q fuel depth e.1 = .ok (e.2, []))
    (hplain : ∀ e ∈ es.tail, StartsPlain listClass e.1)
    (tail : List Tok) (ht : EndTail listClass tail) (n : Nat) (hn : es.length ≤ n) :
    commaSep listClass true (asOpt (orderByElem c.d.q fuel depth)) n (joinWith (.sym .Comma) (es.map (·.1)) ++ .sym .Comma :: tail)
      = some (es.map (·.2), tail) ∧
    commaSep listClass true (asOpt (orderByElem c.d.q fuel depth)) n (joinWith (.sym .Comma) (es.map (·.1)) ++ tail)
      = some (es.map (·.2), tail) :=
  SqlVerif.Props.C13Query.order_by_trailing_comma c.d.q hc fuel depth es hne hacc hplain tail ht n hn

/-- **INCLUDE identifiers** -/
theorem include_trailing_comma (es : List (List Tok × Tok)) (hne : es ≠ [])
    (hacc : ∀ e ∈ es, identElem e.1 = .ok (e.2, []))
    (hplain : ∀ e ∈ es.tail, StartsPlain listClass e.1)
    (tail : List Tok) (ht : EndTail listClass tail) (n : Nat) (hn : es.length ≤ n) :
    commaSep listClass true (asOpt identElem) n (joinWith (.sym .Comma) (es.map (·.1)) ++ .sym .Comma :: tail)
      = some (es.map (·.2), tail) ∧
    commaSep listClass true (asOpt identElem) n (joinWith (.sym .Comma) (es.map (·.1)) ++ tail)
      = some (es.map (·.2), tail) :=
  SqlVerif.Props.C13Dml.insert_columns_trailing_comma es hne hacc hplain tail ht n hn

/-- **view columns** (outside ClickHouse) -/
theorem view_columns_trailing_comma (c : XCfg) (hc : c.isClickHouse = false) (fuel depth : Nat)
    (es : List (List Tok × ViewCol)) (hne : es ≠ [])
    (hacc : ∀ e ∈ es, viewCol c fuel depth e.1 = .ok (e.2, []))
    (hplain : ∀ e ∈ es.tail, StartsPlain listClass e.1)
    (tail : List Tok) (ht : EndTail listClass tail) (n : Nat) (hn : es.length ≤ n) :
    commaSep listClass true (asOpt (viewCol c fuel depth)) n (joinWith (.sym .Comma) (es.map (·.1)) ++ .sym .Comma :: tail)
      = some (es.map (·.2), tail) ∧
    commaSep listClass true (asOpt (viewCol c fuel depth)) n (joinWith (.sym .Comma) (es.map (·.1)) ++ tail)
      = some (es.map (·.2), tail) :=
  SqlVerif.Props.C13.trailing_comma_noop listClass _ (.sym .Comma) comma_isComma tail ht es hne
    (fun e he => viewCol_local c hc fuel depth e.1 e.2 (hacc e he)) hplain n hn

theorem view_columns_option_inert (c : XCfg) (hc : c.isClickHouse = false) (fuel depth : Nat)
    (es : List (List Tok × ViewCol)) (hne : es ≠ [])
    (hacc : ∀ e ∈ es, viewCol c fuel depth e.1 = .ok (e.2, []))
    (hplain : ∀ e ∈ es.tail, StartsPlain listClass e.1)
    (tail : List Tok) (ht : EndTail listClass tail) (n : Nat) (hn : es.length ≤ n) :
    commaSep listClass true (asOpt (viewCol c fuel depth)) n (joinWith (.sym .Comma) (es.map (·.1)) ++ tail) =
    commaSep listClass false (asOpt (viewCol c fuel depth)) n (joinWith (.sym .Comma) (es.map (·.1)) ++ tail) :=
  SqlVerif.Props.C13.option_inert listClass _ (.sym .Comma) comma_isComma tail ht es hne
    (fun e he => viewCol_local c hc fuel depth e.1 e.2 (hacc e he)) hplain n hn

/-- **ALTER TABLE operations** other than `ADD`: `op1, …, opn, <end>` and `op1, …, opn <end>` give the
same operations (option on) -/
theorem alter_ops_trailing_comma (c : XCfg) (fuel depth : Nat) (es : List (List Tok × AlterOp)) (hne : es ≠ [])
    (hacc : ∀ e ∈ es, alterOp c fuel depth e.1 = .ok (e.2, []))
    (hadd : ∀ e ∈ es, eatKw e.1 XK.ADD = none)
    (hplain : ∀ e ∈ es.tail, StartsPlain listClass e.1)
    (tail : List Tok) (ht : EndTail listClass tail) (n : Nat) (hn : es.length ≤ n) :
    commaSep listClass true (asOpt (alterOp c fuel depth)) n (joinWith (.sym .Comma) (es.map (·.1)) ++ .sym .Comma :: tail)
      = some (es.map (·.2), tail) ∧
    commaSep listClass true (asOpt (alterOp c fuel depth)) n (joinWith (.sym .Comma) (es.map (·.1)) ++ tail)
      = some (es.map (·.2), tail) :=
  SqlVerif.Props.C13.trailing_comma_noop listClass _ (.sym .Comma) comma_isComma tail ht es hne
    (fun e he => alterOp_local c fuel depth e.1 e.2 (hadd e he) (hacc e he)) hplain n hn

theorem alter_ops_option_inert (c : XCfg) (fuel depth : Nat) (es : List (List Tok × AlterOp)) (hne : es ≠ [])
    (hacc : ∀ e ∈ es, alterOp c fuel depth e.1 = .ok (e.2, []))
    (hadd : ∀ e ∈ es, eatKw e.1 XK.ADD = none)
    (hplain : ∀ e ∈ es.tail, StartsPlain listClass e.1)
    (tail : List Tok) (ht : EndTail listClass tail) (n : Nat) (hn : es.length ≤ n) :
    commaSep listClass true (asOpt (alterOp c fuel depth)) n (joinWith (.sym .Comma) (es.map (·.1)) ++ tail) =
    commaSep listClass false (asOpt (alterOp c fuel depth)) n (joinWith (.sym .Comma) (es.map (·.1)) ++ tail) :=
  SqlVerif.Props.C13.option_inert listClass _ (.sym .Comma) comma_isComma tail ht es hne
    (fun e he => alterOp_local c fuel depth e.1 e.2 (hadd e he) (hacc e he)) hplain n hn

-- ------------------------------------------------------------------ non-vacuity and witnesses
section Examples
def g1 : XCfg := (XCfg.ofRow dialect_generic).withTrailing true
def g0 : XCfg := (XCfg.ofRow dialect_generic).withTrailing false
def p1 : XCfg := (XCfg.ofRow dialect_postgresql).withTrailing true
def wd (s : String) : Tok := .word (str s) none none
def kw (s : String) : Tok := .word (str s) none (some (kwIndex s))
def num (s : String) : Tok := .number (str s) false
def comma : Tok := .sym .Comma
def rparen : Tok := .sym .RParen

/-- operations `DROP COLUMN a CASCADE`, `RENAME b TO c`, `ALTER COLUMN d SET DEFAULT e + 1`, `RENAME TO u`:
`…, ;` and `… ;` give the same four operations (option on); with the option off the first text fails -/
example :
    let text := [kw "DROP", kw "COLUMN", wd "a", kw "CASCADE", comma, kw "RENAME", wd "b", kw "TO", wd "c", comma,
                 kw "ALTER", kw "COLUMN", wd "d", kw "SET", kw "DEFAULT", wd "e", .sym .Plus, num "1", comma,
                 kw "RENAME", kw "TO", wd "u"]
    let f := asOpt (alterOp g1 100 40)
    commaSep listClass true f 5 (text ++ [comma, semi, wd "x"]) = commaSep listClass true f 5 (text ++ [semi, wd "x"]) ∧
    (match commaSep listClass true f 5 (text ++ [semi, wd "x"]) with
     | some (l, r) => l.length == 4 && r == [semi, wd "x"] | none => false) = true ∧
    (commaSep listClass false (asOpt (alterOp g0 100 40)) 5 (text ++ [comma, semi, wd "x"])).isNone = true := by decide +kernel

/-- a trailing comma after `ADD` operations in front of `;` (option on), through the statement parser -/
example :
    (match Ddl.parseStmt g1 200 50 [kw "ALTER", kw "TABLE", wd "t", kw "ADD", wd "a", kw "INT", comma, kw "ADD", kw "COLUMN", wd "b", kw "TEXT", comma, semi],
           Ddl.parseStmt g1 200 50 [kw "ALTER", kw "TABLE", wd "t", kw "ADD", wd "a", kw "INT", comma, kw "ADD", kw "COLUMN", wd "b", kw "TEXT", semi] with
     | .ok (.alterTable a, r1), .ok (.alterTable b, r2) => a.ops.map (·.1) == b.ops.map (·.1) && a.ops.length == 2 && r1 == [semi] && r2 == [semi]
     | _, _ => false) = true := by decide +kernel

/-- view columns `a`, `"B"`, `c`: `…, )` and `… )` give the same list (option on, PostgreSQL) -/
example :
    let text := [wd "a", comma, .word (str "B") (some 34) none, comma, wd "c"]
    let f := asOpt (viewCol p1 100 40)
    commaSep listClass true f 5 (text ++ [comma, rparen, kw "AS"]) = commaSep listClass true f 5 (text ++ [rparen, kw "AS"]) ∧
    (match commaSep listClass true f 5 (text ++ [rparen, kw "AS"]) with
     | some (l, r) => l.length == 3 && r == [rparen, kw "AS"] | none => false) = true := by decide +kernel

/-- **`parse_view_columns` is `parse_comma_separated`, not an ad-hoc loop**: with the option on,
`CREATE VIEW v (a, FROM) AS SELECT 1` is rejected — after the comma stands a word of
`RESERVED_FOR_COLUMN_ALIAS`, the list ends there and `)` is missing — while without the reserved
word (`(a, b)`, `(a, )`) the statement is accepted (cf. `columns_loop_is_ad_hoc` for CREATE TABLE) -/
theorem view_columns_not_ad_hoc :
    (match Ddl.parseStmt g1 200 50 [kw "CREATE", kw "VIEW", wd "v", .sym .LParen, wd "a", comma, kw "FROM", rparen, kw "AS", kw "SELECT", num "1"] with
     | .error (.syntax _) => true
     | _ => false) = true ∧
    (match Ddl.parseStmt g1 200 50 [kw "CREATE", kw "VIEW", wd "v", .sym .LParen, wd "a", comma, wd "b", rparen, kw "AS", kw "SELECT", num "1"],
           Ddl.parseStmt g1 200 50 [kw "CREATE", kw "VIEW", wd "v", .sym .LParen, wd "a", comma, rparen, kw "AS", kw "SELECT", num "1"] with
     | .ok (.createView v, []), .ok (.createView w, []) => v.cols.length == 2 && w.cols.length == 1
     | _, _ => false) = true ∧
    (match Ddl.parseStmt g0 200 50 [kw "CREATE", kw "VIEW", wd "v", .sym .LParen, wd "a", comma, kw "FROM", rparen, kw "AS", kw "SELECT", num "1"] with
     | .ok (.createView v, []) => v.cols.length == 2
     | _ => false) = true := by decide +kernel

/-- **`ADD coldef` is not local in front of a reserved word**: `ADD a TIMESTAMP` is a complete
operation, but in front of `WITH` (a word of `RESERVED_FOR_COLUMN_ALIAS`, hence a list follower) the
data type reads on and the operation fails — `alterOp_local` cannot include `ADD` -/
theorem add_column_not_local_before_with :
    (match alterOp g1 100 40 [kw "ADD", wd "a", kw "TIMESTAMP"] with | .ok (_, []) => true | _ => false) = true ∧
    (match alterOp g1 100 40 [kw "ADD", wd "a", kw "TIMESTAMP", kw "WITH", wd "x"] with | .error _ => true | _ => false) = true ∧
    endsList (kw "WITH") = true := by decide +kernel
end Examples

/-- The full property for every list of the grammar (not proved: the list kinds of the two statement
fragments; the rest is decided by the insertion oracle). -/
def FullStatement : Prop :=
  ∀ {α : Type} (elem : List Tok → SqlVerif.Query.Res α) (a : List Tok) (v : α),
    elem a = .ok (v, []) → LocalOn listClass (asOpt elem) a v

end SqlVerif.Props.C13Ddl

import SqlVerif.Lemmas.QueryLists
import SqlVerif.Props.C13
/-!
# C13 on the query fragment — trailing commas in the projection, GROUP BY and ORDER BY lists

`trailing_comma_noop` / `option_inert` of `Props/C13.lean` are generic in the element parser and
assume it *local* on the elements.  Here the assumption is discharged for the three list kinds of
the query model (`Model/Query.lean`, stream `queries`), for EVERY configuration, fuel, depth:

* `selectItem_local`, `groupByElem_local`, `orderByElem_local`: an element text that the element
  parser (`parse_select_item`, `parse_group_by_expr`, `parse_order_by_expr` of the model) accepts
  completely is parsed to the same value in front of a comma, a closer, `;` or a word of
  `RESERVED_FOR_COLUMN_ALIAS` — those tokens have precedence 0 for the Pratt loop, are no alias
  (the RESERVED test of `parse_optional_alias`) and end every keyword probe
  (`Lemmas/PrattExt.lean`, `Lemmas/QueryExt.lean`).
  Two real exceptions are part of the statements: after `*` / `t.*` the word `EXCEPT` is consumed by
  the wildcard options in dialects with `supports_select_wildcard_except`, and after an ORDER BY
  element `WITH` is looked into (`WITH FILL`) in ClickHouse / Generic.
* `projection_trailing_comma`, `group_by_trailing_comma`, `order_by_trailing_comma`: with the option
  on, `e1, …, en, <end>` and `e1, …, en <end>` give the same values and stop at the same token;
  `*_option_inert`: without a trailing comma the option changes nothing unless an element after a
  comma begins with a list-ending token;
* `projection_is_lists_model`: the projection of the model is `Lists.projection` (option widened by
  `supports_projection_trailing_commas`, flag handed back) around the select-item parser — **with
  the widened option also inside the items**: the flip is parser state, so in BigQuery / Snowflake /
  DuckDB `SELECT a IN (1,) FROM t` is accepted with the option off (`projection_flag_leaks`).
-/
namespace SqlVerif.Props.C13Query
open SqlVerif.Pratt SqlVerif.Query SqlVerif.Lists SqlVerif.Gen

theorem selectItem_local (c : QCfg) (fuel depth : Nat) (a : List Tok) (v : SelectItem)
    (hacc : selectItem c fuel depth a = .ok (v, []))
    (hw : v.isWild = true → c.wildcardExcept = false) :
    LocalOn listClass (asOpt (selectItem c fuel depth)) a v :=
  localOn_of_ext _ a v hacc fun x r hx => by
    simpa using selectItem_ext c hx r fuel depth a v [] hacc (fun h1 h2 => by rw [hw h1] at h2; cases h2)

theorem groupByElem_local (c : QCfg) (fuel depth : Nat) (a : List Tok) (e : Expr)
    (hacc : groupByElem c fuel depth a = .ok (e, [])) :
    LocalOn listClass (asOpt (groupByElem c fuel depth)) a e :=
  localOn_of_ext _ a e hacc fun x r hx => by simpa using groupByElem_ext c hx r fuel depth a e [] hacc

theorem orderByElem_local (c : QCfg) (hc : c.chOrGeneric = false) (fuel depth : Nat) (a : List Tok) (o : OrderByExpr)
    (hacc : orderByElem c fuel depth a = .ok (o, [])) :
    LocalOn listClass (asOpt (orderByElem c fuel depth)) a o :=
  localOn_of_ext _ a o hacc fun x r hx => by
    simpa using orderByElem_ext c hx (fun h => by rw [hc] at h; cases h) r fuel depth a o [] hacc

theorem comma_isComma : listClass.isComma (.sym .Comma) = true := rfl

/-- **projection list**: a trailing comma before a list-ending token (or EOF) is a no-op when the
option is on -/
theorem projection_trailing_comma (c : QCfg) (fuel depth : Nat) (es : List (List Tok × SelectItem)) (hne : es ≠ [])
    (hacc : ∀ e ∈ es, selectItem c fuel depth e.1 = .ok (e.2, []))
    (hw : ∀ e ∈ es, e.2.isWild = true → c.wildcardExcept = false)
    (hplain : ∀ e ∈ es.tail, StartsPlain listClass e.1)
    (tail : List Tok) (ht : EndTail listClass tail) (n : Nat) (hn : es.length ≤ n) :
    commaSep listClass true (asOpt (selectItem c fuel depth)) n (joinWith (.sym .Comma) (es.map (·.1)) ++ .sym .Comma :: tail)
      = some (es.map (·.2), tail) ∧
    commaSep listClass true (asOpt (selectItem c fuel depth)) n (joinWith (.sym .Comma) (es.map (·.1)) ++ tail)
      = some (es.map (·.2), tail) :=
  SqlVerif.Props.C13.trailing_comma_noop listClass _ (.sym .Comma) comma_isComma tail ht es hne
    (fun e he => selectItem_local c fuel depth e.1 e.2 (hacc e he) (hw e he)) hplain n hn

theorem projection_option_inert (c : QCfg) (fuel depth : Nat) (es : List (List Tok × SelectItem)) (hne : es ≠ [])
    (hacc : ∀ e ∈ es, selectItem c fuel depth e.1 = .ok (e.2, []))
    (hw : ∀ e ∈ es, e.2.isWild = true → c.wildcardExcept = false)
    (hplain : ∀ e ∈ es.tail, StartsPlain listClass e.1)
    (tail : List Tok) (ht : EndTail listClass tail) (n : Nat) (hn : es.length ≤ n) :
    commaSep listClass true (asOpt (selectItem c fuel depth)) n (joinWith (.sym .Comma) (es.map (·.1)) ++ tail) =
    commaSep listClass false (asOpt (selectItem c fuel depth)) n (joinWith (.sym .Comma) (es.map (·.1)) ++ tail) :=
  SqlVerif.Props.C13.option_inert listClass _ (.sym .Comma) comma_isComma tail ht es hne
    (fun e he => selectItem_local c fuel depth e.1 e.2 (hacc e he) (hw e he)) hplain n hn

/-- **GROUP BY list** -/
theorem group_by_trailing_comma (c : QCfg) (fuel depth : Nat) (es : List (List Tok × Expr)) (hne : es ≠ [])
    (hacc : ∀ e ∈ es, groupByElem c fuel depth e.1 = .ok (e.2, []))
    (hplain : ∀ e ∈ es.tail, StartsPlain listClass e.1)
    (tail : List Tok) (ht : EndTail listClass tail) (n : Nat) (hn : es.length ≤ n) :
    commaSep listClass true (asOpt (groupByElem c fuel depth)) n (joinWith (.sym .Comma) (es.map (·.1)) ++ .sym .Comma :: tail)
      = some (es.map (·.2), tail) ∧
    commaSep listClass true (asOpt (groupByElem c fuel depth)) n (joinWith (.sym .Comma) (es.map (·.1)) ++ tail)
      = some (es.map (·.2), tail) :=
  SqlVerif.Props.C13.trailing_comma_noop listClass _ (.sym .Comma) comma_isComma tail ht es hne
    (fun e he => groupByElem_local c fuel depth e.1 e.2 (hacc e he)) hplain n hn

theorem group_by_option_inert (c : QCfg) (fuel depth : Nat) (es : List (List Tok × Expr)) (hne : es ≠ [])
    (hacc : ∀ e ∈ es, groupByElem c fuel depth e.1 = .ok (e.2, []))
    (hplain : ∀ e ∈ es.tail, StartsPlain listClass e.1)
    (tail : List Tok) (ht : EndTail listClass tail) (n : Nat) (hn : es.length ≤ n) :
    commaSep listClass true (asOpt (groupByElem c fuel depth)) n (joinWith (.sym .Comma) (es.map (·.1)) ++ tail) =
    commaSep listClass false (asOpt (groupByElem c fuel depth)) n (joinWith (.sym .Comma) (es.map (·.1)) ++ tail) :=
  SqlVerif.Props.C13.option_inert listClass _ (.sym .Comma) comma_isComma tail ht es hne
    (fun e he => groupByElem_local c fuel depth e.1 e.2 (hacc e he)) hplain n hn

/-- **ORDER BY list** (dialects without `WITH FILL`: all but ClickHouse and Generic) -/
theorem order_by_trailing_comma (c : QCfg) (hc : c.chOrGeneric = false) (fuel depth : Nat)
    (es : List (List Tok × OrderByExpr)) (hne : es ≠ [])
    (hacc : ∀ e ∈ es, orderByElem c fuel depth e.1 = .ok (e.2, []))
    (hplain : ∀ e ∈ es.tail, StartsPlain listClass e.1)
    (tail : List Tok) (ht : EndTail listClass tail) (n : Nat) (hn : es.length ≤ n) :
    commaSep listClass true (asOpt (orderByElem c fuel depth)) n (joinWith (.sym .Comma) (es.map (·.1)) ++ .sym .Comma :: tail)
      = some (es.map (·.2), tail) ∧
    commaSep listClass true (asOpt (orderByElem c fuel depth)) n (joinWith (.sym .Comma) (es.map (·.1)) ++ tail)
      = some (es.map (·.2), tail) :=
  SqlVerif.Props.C13.trailing_comma_noop listClass _ (.sym .Comma) comma_isComma tail ht es hne
    (fun e he => orderByElem_local c hc fuel depth e.1 e.2 (hacc e he)) hplain n hn

theorem order_by_option_inert (c : QCfg) (hc : c.chOrGeneric = false) (fuel depth : Nat)
    (es : List (List Tok × OrderByExpr)) (hne : es ≠ [])
    (hacc : ∀ e ∈ es, orderByElem c fuel depth e.1 = .ok (e.2, []))
    (hplain : ∀ e ∈ es.tail, StartsPlain listClass e.1)
    (tail : List Tok) (ht : EndTail listClass tail) (n : Nat) (hn : es.length ≤ n) :
    commaSep listClass true (asOpt (orderByElem c fuel depth)) n (joinWith (.sym .Comma) (es.map (·.1)) ++ tail) =
    commaSep listClass false (asOpt (orderByElem c fuel depth)) n (joinWith (.sym .Comma) (es.map (·.1)) ++ tail) :=
  SqlVerif.Props.C13.option_inert listClass _ (.sym .Comma) comma_isComma tail ht es hne
    (fun e he => orderByElem_local c hc fuel depth e.1 e.2 (hacc e he)) hplain n hn

/-- the lists of the model ARE `parse_comma_separated` of `Model/Lists.lean` on real tokens; the
projection is `Lists.projection`: option widened by the dialect flag — for the list and inside the
items — and handed back unchanged -/
theorem projection_is_lists_model (c : QCfg) (fuel depth : Nat) (sel : Tok) (ts : List Tok) (hd : SelHead) (rest : List Tok)
    (h : selHead c fuel depth sel ts = .ok (hd, rest)) :
    ∃ ts1, ts = hd.quant ++ ts1 ∧
      projection listClass c.projTrailing
        (asOpt (selectItem (c.withTrailing (c.e.trailingCommas || c.projTrailing)) fuel depth)) fuel c.e.trailingCommas ts1
        = (some (hd.proj.map (·.1), rest), c.e.trailingCommas) := by
  unfold selHead at h
  split at h
  · simp at h
  · split at h
    · simp at h
    · rename_i qd ts1 hq
      have h1 := allOrDistinct_yield _ _ _ hq
      split at h
      · simp at h
      · split at h
        · simp at h
        · rename_i proj ts2 hp
          split at h
          · simp at h
          · simp at h; obtain ⟨rfl, rfl⟩ := h
            refine ⟨ts1, h1, ?_⟩
            simp only [projection]
            rw [commaSepE_eq_lists _ _ _ _ _ _ hp]

-- ------------------------------------------------------------------ non-vacuity and the deviation
section Examples
def bq : QCfg := (QCfg.ofRow dialect_bigquery).withTrailing false
def pg : QCfg := (QCfg.ofRow dialect_postgresql).withTrailing true
def wd (s : String) : Tok := .word (str s) none none
def kw (s : String) : Tok := .word (str s) none (some (kwIndex s))

/-- the three items `a AS x`, `t.*`, `b + 1 c` are complete select items (PostgreSQL record) … -/
def items : List (List Tok × Option SelectItem) :=
  [[wd "a", kw "AS", wd "x"], [wd "t", .sym .Period, .sym .Mul], [wd "b", .sym .Plus, .number (str "1") false, wd "c"]].map
    fun a => (a, match selectItem pg 100 40 a with | .ok (v, []) => some v | _ => none)

example : items.all (fun p => p.2.isSome) = true := by decide +kernel

/-- … and `a AS x, t.*, b + 1 c, FROM` / `… c FROM` give the same three items, stopping at FROM -/
example :
    let text := [wd "a", kw "AS", wd "x", .sym .Comma, wd "t", .sym .Period, .sym .Mul, .sym .Comma, wd "b", .sym .Plus,
                 .number (str "1") false, wd "c"]
    let f := asOpt (selectItem pg 100 40)
    commaSep listClass true f 5 (text ++ [.sym .Comma, kw "FROM", wd "t"]) = commaSep listClass true f 5 (text ++ [kw "FROM", wd "t"]) ∧
    (commaSep listClass true f 5 (text ++ [kw "FROM", wd "t"])).map (fun p => (p.1.map some, p.2)) =
      some (items.map (·.2), [kw "FROM", wd "t"]) := by decide +kernel

/-- **Deviation (parser state leaks)**: BigQuery, option OFF: the projection widens the option, so the
IN list nested in a select item accepts a trailing comma — the model answers `unsupported` there
(the real parser accepts, stream `queries`), while the same expression in WHERE is a syntax error. -/
theorem projection_flag_leaks :
    (match parseStatement bq 200 50 [kw "SELECT", wd "a", kw "IN", .sym .LParen, .number (str "1") false, .sym .Comma, .sym .RParen] with
     | .error .unsupported => true | _ => false) = true ∧
    (match parseStatement bq 200 50 [kw "SELECT", wd "b", kw "WHERE", wd "a", kw "IN", .sym .LParen, .number (str "1") false, .sym .Comma, .sym .RParen] with
     | .error (.syntax _) => true | _ => false) = true := by decide +kernel

/-- the two documented exceptions to locality, on the model: `* EXCEPT …` (BigQuery) and
`ORDER BY a WITH FILL` (Generic) look past the element -/
theorem wildcard_except_not_local :
    (match selectItem bq 100 40 [.sym .Mul], selectItem bq 100 40 [.sym .Mul, kw "EXCEPT", kw "SELECT"] with
     | .ok (_, []), .error .unsupported => true | _, _ => false) = true := by decide +kernel

theorem order_by_with_fill_not_local :
    (match orderByElem (QCfg.ofRow dialect_generic) 100 40 [wd "a"],
           orderByElem (QCfg.ofRow dialect_generic) 100 40 [wd "a", kw "WITH", kw "FILL"] with
     | .ok (_, []), .error .unsupported => true | _, _ => false) = true := by decide +kernel
end Examples

/-- The full property for every list of the grammar (not proved: only the three list kinds of the
query fragment; the rest is decided by the insertion oracle). -/
def FullStatement : Prop :=
  ∀ {α : Type} (elem : List Tok → SqlVerif.Query.Res α) (a : List Tok) (v : α),
    elem a = .ok (v, []) → LocalOn listClass (asOpt elem) a v

end SqlVerif.Props.C13Query

import SqlVerif.Props.C11Ddl
import SqlVerif.Props.C05Ddl
import SqlVerif.Props.C01Dml
import SqlVerif.Lemmas.DdlFix
import SqlVerif.Lemmas.DdlIdem
/-!
# C01 on the second statement fragment — parse → print → parse

`Model/Ddl.lean` + `Model/DdlPrint.lean` (stream `ddl`: S-expression of the real tree and the real
`to_string()` text against the model, all 13 dialects): `CREATE VIEW`, `CREATE INDEX`, `ALTER TABLE`
with ADD / DROP / RENAME / ALTER COLUMN operations, `TRUNCATE`, `DROP <kind>`, every statement of the
first fragment (`Model/Dml.lean`), the dispatcher `parseStmt` and the script loop `parseScript`.

What is proved for EVERY configuration record, fuel, recursion limit and token list:

* `ddl_norm_invariant` — the statement parser respects the token image `qc` of `Lemmas/QuerySim.lean`
  (same branches, trees with the same image slot by slot, rests with the same image) on two token lists
  with the same image, when the column types of `ADD coldef` are keyword types and view columns carry no
  data type (`Stmt.typesLeaf`); for a statement of the first fragment the conditions of
  `Props/C01Dml.lean` (`eqOk` for `UPDATE`);
* `ddl_printer_emits_normal_forms` — for an accepted statement that is `printableQ` and of `normal` shape
  over lexer-like tokens, the printed tokens are, token by token, the consumed tokens up to `qc`;
* `ddl_reparse_fixpoint_partial` (+ `_sub` with a continuation, `ddl_reparse_fixpoint_normal` in the form of
  the property) — **the statement-level fixpoint**: `parseStmt ts = ok (s, [])`, `s.printableQ`,
  `s.normal`, `LexOk ts` ⟹ `parseStmt s.showToks = ok (s.norm, [])` with the same fuel and limit, and
  `s.norm.sexp = s.sexp`;
* `ddl_script_fixpoint_partial` — the `;`-joined print of a script of such statements (of both fragments)
  re-parses, through the real loop model, to the list of the normal forms;
* `ddl_print_idempotent_partial`, `ddl_fixpoint_after_one_step` — as in `Props/C01Dml.lean`;
  `rewritten_ddl_shapes_reparse_to_norm` decides by kernel evaluation, for one instance of each shape
  excluded by `normal`, that the printed form re-parses to exactly `s.norm`.

Side conditions (all decidable, all satisfiable — `sample*_hyps`): `Stmt.printableQ`, `Stmt.normal`
(`Lemmas/DdlDefs.lean`: `TEMPORARY` not `TEMP`; no `()` view column list; no trailing commas; `CREATE INDEX` without `TEMP`; `COLUMN` written in `DROP` /
`RENAME` / `ALTER`; nothing swallowed by `DROP`; `IF NOT EXISTS` of `ADD` kept by the dialect and in the
slot where `Display` prints it), `LexOk ts`.

A former counterexample found with this model — `CREATE TEMPORARY MATERIALIZED VIEW v AS SELECT 1` printed
`CREATE MATERIALIZED TEMPORARY VIEW …`, which the parser rejects — was repaired in /repo and is now covered by
the theorem (`view_prefix_fixpoint`, positive kernel-checked witness).  No statement inside this fragment is
left whose AST is not a fixpoint.
Not covered: ClickHouse view columns with a data type, custom / recursive column types in `ADD`.
-/
namespace SqlVerif.Props.C01Ddl
open SqlVerif.Pratt SqlVerif.Query SqlVerif.Dml SqlVerif.Ddl SqlVerif.Stmts SqlVerif.Gen
open SqlVerif.Props.C01Query (LexOk)

-- ------------------------------------------------------------------ 1. norm-invariance
/-- **norm-invariance at the statement layer** for the second fragment -/
theorem ddl_norm_invariant (c : XCfg) (fuel limit : Nat) (a b : List Tok) (s : Ddl.Stmt) (r : List Tok)
    (hs : a.map qc = b.map qc) (h : Ddl.parseStmt c fuel limit a = .ok (s, r)) (hl : s.typesLeaf = true)
    (he : ∀ s0, s = .dml s0 → s0.isUpdate = true → eqOk a b = true) :
    ∃ s' r', Ddl.parseStmt c fuel limit b = .ok (s', r') ∧ s'.mapT qc = s.mapT qc ∧ r'.map qc = r.map qc :=
  Ddl.parseStmt_sim2 c fuel limit hs h hl he

-- ------------------------------------------------------------------ 2. the printer emits normal forms
/-- **the printer emits normal forms**: the printed tokens are, token by token, the consumed tokens up to `qc` -/
theorem ddl_printer_emits_normal_forms (c : XCfg) (fuel limit : Nat) (ts : List Tok) (s : Ddl.Stmt) (rest : List Tok)
    (h : Ddl.parseStmt c fuel limit ts = .ok (s, rest)) (hp : s.printableQ = true) (hn : s.normal = true) (ht : LexOk ts) :
    ∃ pre, ts = pre ++ rest ∧ pre.map qc = s.showToks.map qc := by
  have hw := Ddl.parseStmt_wf c fuel limit ts s rest h
  refine ⟨s.flatten, Ddl.parseStmt_yield c fuel limit ts s rest h, ?_⟩
  have hf := Ddl.stmt_faith s hw hn hp (Ddl.stmt_flatten_tokOk c fuel limit ts s rest h ht)
  rw [Ddl.stmt_showToks_eq_norm s (Ddl.normal_showOk s hw hn), ← Ddl.stmt_flatten_qc, ← Ddl.stmt_flatten_qc, hf]

-- ------------------------------------------------------------------ 3. the statement-level fixpoint
/-- re-parsing the printed statement in front of any continuation that looks like the original one -/
theorem ddl_reparse_fixpoint_sub (c : XCfg) (fuel limit : Nat) (ts : List Tok) (s : Ddl.Stmt) (rest rest' : List Tok)
    (h : Ddl.parseStmt c fuel limit ts = .ok (s, rest)) (hp : s.printableQ = true) (hn : s.normal = true) (ht : LexOk ts)
    (hr : rest.map qc = rest'.map qc) : Ddl.parseStmt c fuel limit (s.showToks ++ rest') = .ok (s.norm, rest') :=
  Ddl.stmt_reparse_sub c fuel limit ts s rest rest' h hp hn ht hr

/-- **parse → print → parse is a fixpoint** on the second statement fragment (token level), for EVERY
dialect record, option value, fuel, recursion limit and token list: if the statement parser accepts `ts`
completely with tree `s`, `s` is printable and of normal shape and `ts` is lexer-like, then parsing the
printed tokens — with the same fuel and limit — gives `s.norm`, the tree itself with every stored token
replaced by the printed one, and `s.norm` holds the same AST as `s` (`sexp`). -/
theorem ddl_reparse_fixpoint_partial (c : XCfg) (fuel limit : Nat) (ts : List Tok) (s : Ddl.Stmt)
    (h : Ddl.parseStmt c fuel limit ts = .ok (s, [])) (hp : s.printableQ = true) (hn : s.normal = true) (ht : LexOk ts) :
    Ddl.parseStmt c fuel limit s.showToks = .ok (s.norm, []) ∧ s.norm.sexp = s.sexp := by
  have := Ddl.stmt_reparse_sub c fuel limit ts s [] [] h hp hn ht rfl
  simp only [List.append_nil] at this
  exact ⟨this, Ddl.stmt_sexp_norm s⟩

/-- the statement-level fixpoint in the form of the property, for a shape predicate; PROVED for
`normalShape := Ddl.Stmt.normal` and lexer-like input -/
def DdlReparseFixpoint (normalShape : Ddl.Stmt → Bool) : Prop :=
  ∀ (c : XCfg) (fuel limit : Nat) (ts : List Tok) (s : Ddl.Stmt),
    Ddl.parseStmt c fuel limit ts = .ok (s, []) → LexOk ts → s.printableQ = true → normalShape s = true →
    ∃ s', Ddl.parseStmt c fuel limit s.showToks = .ok (s', []) ∧ s'.sexp = s.sexp

theorem ddl_reparse_fixpoint_normal : DdlReparseFixpoint Ddl.Stmt.normal := by
  intro c fuel limit ts s h ht hp hn
  exact ⟨s.norm, ddl_reparse_fixpoint_partial c fuel limit ts s h hp hn ht⟩

/-- **printing is idempotent on the covered shapes** -/
theorem ddl_print_idempotent_partial (c : XCfg) (fuel limit : Nat) (ts : List Tok) (s : Ddl.Stmt)
    (h : Ddl.parseStmt c fuel limit ts = .ok (s, [])) (hp : s.printableQ = true) (hn : s.normal = true) (ht : LexOk ts) :
    s.norm.showToks = s.showToks ∧ Ddl.parseStmt c fuel limit s.norm.showToks = Ddl.parseStmt c fuel limit s.showToks ∧
      Ddl.parseStmt c fuel limit s.norm.showToks = .ok (s.norm, []) := by
  have h1 := Ddl.stmt_show_norm s (Ddl.normal_showOk s (Ddl.parseStmt_wf c fuel limit ts s [] h) hn)
  have h2 := (ddl_reparse_fixpoint_partial c fuel limit ts s h hp hn ht).1
  exact ⟨h1, by rw [h1], by rw [h1]; exact h2⟩

/-- **the fixpoint after ONE normalisation step, for every shape**: for any accepted statement (`showOk`
holds for every tree the parser builds: `normal_showOk` / `wf_headsOk`) whose printed form re-parses to its normal form, the normal form prints to the same
tokens and re-parses to itself -/
theorem ddl_fixpoint_after_one_step (c : XCfg) (fuel limit : Nat) (s : Ddl.Stmt)
    (hok : s.showOk) (h1 : Ddl.parseStmt c fuel limit s.showToks = .ok (s.norm, [])) :
    s.norm.showToks = s.showToks ∧ Ddl.parseStmt c fuel limit s.norm.showToks = .ok (s.norm, []) ∧ s.norm.norm = s.norm ∧
      s.norm.sexp = s.sexp := by
  have h2 := Ddl.stmt_show_norm s hok
  exact ⟨h2, by rw [h2]; exact h1, Ddl.stmt_norm_idem s, Ddl.stmt_sexp_norm s⟩

-- ------------------------------------------------------------------ 4. scripts
/-- the printed script at token level: statements joined by `;` -/
def printScript : List Ddl.Stmt → List Tok
  | [] => []
  | [s] => s.showToks
  | s :: r :: rest => s.showToks ++ semi :: printScript (r :: rest)

/-- script items: printed statement, expected tree, separator after it (`;` between statements) -/
def items : List (Ddl.Stmt × Ddl.Stmt) → List (List Tok × Ddl.Stmt × List Tok)
  | [] => []
  | [p] => [(p.1.showToks, p.2, [])]
  | p :: r :: rest => (p.1.showToks, p.2, [semi]) :: items (r :: rest)

theorem printScript_eq : ∀ ss : List (Ddl.Stmt × Ddl.Stmt),
    printScript (ss.map (·.1)) = script [] ((items ss).map fun it => (it.1, it.2.2)) := by
  intro ss
  induction ss with
  | nil => rfl
  | cons p rest ih =>
    cases rest with
    | nil => simp [printScript, items, script]
    | cons r rest2 =>
      simp only [List.map_cons, printScript, items, script, List.nil_append] at ih ⊢
      rw [ih]
      cases rest2 <;> simp [items, script]

theorem items_trees : ∀ ss : List (Ddl.Stmt × Ddl.Stmt), (items ss).map (·.2.1) = ss.map (·.2) := by
  intro ss
  induction ss with
  | nil => rfl
  | cons p rest ih =>
    cases rest with
    | nil => rfl
    | cons r rest2 => simp only [items, List.map_cons] at ih ⊢; rw [ih]

theorem items_mem : ∀ (ss : List (Ddl.Stmt × Ddl.Stmt)) (it : List Tok × Ddl.Stmt × List Tok), it ∈ items ss →
    (∃ p ∈ ss, it.1 = p.1.showToks ∧ it.2.1 = p.2) ∧ (it.2.2 = [] ∨ it.2.2 = [semi]) := by
  intro ss
  induction ss with
  | nil => intro it h; simp [items] at h
  | cons p rest ih =>
    intro it h
    cases rest with
    | nil =>
      simp [items] at h; subst h
      exact ⟨⟨p, by simp, rfl, rfl⟩, Or.inl rfl⟩
    | cons r rest2 =>
      simp only [items, List.mem_cons] at h
      rcases h with rfl | h
      · exact ⟨⟨p, by simp, rfl, rfl⟩, Or.inr rfl⟩
      · obtain ⟨⟨q, hq, h1, h2⟩, h3⟩ := ih it (by simpa [items] using h)
        exact ⟨⟨q, by simp at hq ⊢; exact Or.inr hq, h1, h2⟩, h3⟩

theorem items_inner : ∀ ss : List (Ddl.Stmt × Ddl.Stmt), InnerSepsNonEmpty ((items ss).map fun it => (it.1, it.2.2)) := by
  intro ss
  induction ss with
  | nil => trivial
  | cons p rest ih =>
    cases rest with
    | nil => trivial
    | cons r rest2 =>
      cases rest2 with
      | nil => exact ⟨by simp, trivial⟩
      | cons r2 rest3 => exact ⟨by simp, by simpa [items] using ih⟩

/-- printed statements that re-parse one by one re-parse as a script, to the same trees in the same order -/
theorem ddl_script_reparse_partial (c : XCfg) (fuel limit : Nat) (ss : List (Ddl.Stmt × Ddl.Stmt))
    (h : ∀ p ∈ ss, Ddl.parseStmt c fuel limit p.1.showToks = .ok (p.2, [])) :
    Ddl.parseScript c fuel limit (printScript (ss.map (·.1))) = .ok (ss.map (·.2)) := by
  rw [printScript_eq, ← items_trees]
  refine SqlVerif.Props.C11Ddl.script_concat_ddl c fuel limit (items ss) [] (by intro t ht; cases ht) ?_ ?_ (items_inner ss)
  · intro it hit t ht
    rcases (items_mem ss it hit).2 with h0 | h0
    · rw [h0] at ht; cases ht
    · rw [h0] at ht; simp at ht; subst ht; rfl
  · intro it hit
    obtain ⟨⟨p, hp, h1, h2⟩, _⟩ := items_mem ss it hit
    rw [h1, h2]; exact h p hp

/-- **script level**: statements of both fragments accepted one by one (each printable, of normal shape,
lexer-like) print to a script `print s₁ ; print s₂ ; …` that the statements loop parses back to the normal
forms `[s₁.norm, …]`, which hold the same ASTs -/
theorem ddl_script_fixpoint_partial (c : XCfg) (fuel limit : Nat) (srcs : List (List Tok × Ddl.Stmt))
    (h : ∀ p ∈ srcs, Ddl.parseStmt c fuel limit p.1 = .ok (p.2, []) ∧ LexOk p.1 ∧ p.2.printableQ = true ∧ p.2.normal = true) :
    Ddl.parseScript c fuel limit (printScript (srcs.map (·.2))) = .ok (srcs.map (·.2.norm)) ∧
      (srcs.map (·.2.norm.sexp)) = srcs.map (·.2.sexp) := by
  have := ddl_script_reparse_partial c fuel limit (srcs.map fun p => (p.2, p.2.norm)) (by
    intro p hp
    simp only [List.mem_map] at hp
    obtain ⟨s, hs, rfl⟩ := hp
    obtain ⟨h1, h2, h3, h4⟩ := h s hs
    exact (ddl_reparse_fixpoint_partial c fuel limit s.1 s.2 h1 h3 h4 h2).1)
  simp only [List.map_map, Function.comp_def] at this
  exact ⟨this, by simp [Ddl.stmt_sexp_norm]⟩

-- ------------------------------------------------------------------ instances
section Examples
def g : XCfg := (XCfg.ofRow dialect_generic).withTrailing true
def my : XCfg := XCfg.ofRow dialect_mysql
def pg : XCfg := XCfg.ofRow dialect_postgresql
def wd (s : String) : Tok := .word (str s) none none
def kw (s : String) : Tok := .word (str s) none (some (kwIndex s))
def lw (s : String) (k : String) : Tok := .word (str s) none (some (kwIndex k))
def num (s : String) : Tok := .number (str s) false
def lp : Tok := .sym .LParen
def rp : Tok := .sym .RParen
def cm : Tok := .sym .Comma
def dot : Tok := .sym .Period

/-- `create or replace view s.v (a, b) as select x.a, 1 from x where y == 2` -/
def sampleV : List Tok :=
  [lw "create" "CREATE", lw "or" "OR", lw "replace" "REPLACE", lw "view" "VIEW", wd "s", dot, wd "v", lp, wd "a", cm, wd "b", rp,
   lw "as" "AS", lw "select" "SELECT", wd "x", dot, wd "a", cm, num "1", lw "from" "FROM", wd "x", lw "where" "WHERE", wd "y",
   .sym .DoubleEq, num "2"]

/-- `create unique index if not exists i on t using btree (a desc, b + 1 nulls last) include (c) nulls not distinct where d` -/
def sampleN : List Tok :=
  [lw "create" "CREATE", lw "unique" "UNIQUE", lw "index" "INDEX", lw "if" "IF", lw "not" "NOT", lw "exists" "EXISTS", wd "i",
   lw "on" "ON", wd "t", lw "using" "USING", wd "btree", lp, wd "a", lw "desc" "DESC", cm, wd "b", .sym .Plus, num "1",
   lw "nulls" "NULLS", lw "last" "LAST", rp, lw "include" "INCLUDE", lp, wd "c", rp, lw "nulls" "NULLS", lw "not" "NOT",
   lw "distinct" "DISTINCT", lw "where" "WHERE", wd "d"]

/-- `alter table if exists only t add column a int not null default 1, drop column if exists b cascade,
rename column c to d, alter column e set default e + 1, alter column f drop not null, rename to u` -/
def sampleA : List Tok :=
  [lw "alter" "ALTER", lw "table" "TABLE", lw "if" "IF", lw "exists" "EXISTS", lw "only" "ONLY", wd "t",
   lw "add" "ADD", lw "column" "COLUMN", wd "a", lw "int" "INT", lw "not" "NOT", lw "null" "NULL", lw "default" "DEFAULT", num "1", cm,
   lw "drop" "DROP", lw "column" "COLUMN", lw "if" "IF", lw "exists" "EXISTS", wd "b", lw "cascade" "CASCADE", cm,
   lw "rename" "RENAME", lw "column" "COLUMN", wd "c", lw "to" "TO", wd "d", cm,
   lw "alter" "ALTER", lw "column" "COLUMN", wd "e", lw "set" "SET", lw "default" "DEFAULT", wd "e", .sym .Plus, num "1", cm,
   lw "alter" "ALTER", lw "column" "COLUMN", wd "f", lw "drop" "DROP", lw "not" "NOT", lw "null" "NULL", cm,
   lw "rename" "RENAME", lw "to" "TO", wd "u"]

/-- `truncate table only t, s.u restart identity cascade` -/
def sampleT : List Tok :=
  [lw "truncate" "TRUNCATE", lw "table" "TABLE", lw "only" "ONLY", wd "t", cm, wd "s", dot, wd "u", lw "restart" "RESTART",
   lw "identity" "IDENTITY", lw "cascade" "CASCADE"]

/-- `drop view if exists a, s.b cascade` -/
def sampleX : List Tok :=
  [lw "drop" "DROP", lw "view" "VIEW", lw "if" "IF", lw "exists" "EXISTS", wd "a", cm, wd "s", dot, wd "b", lw "cascade" "CASCADE"]

/-- (printableQ, normal, lexer-like, printed tokens = source, normal form = tree) -/
def hyps (c : XCfg) (ts : List Tok) : Option (Bool × Bool × Bool × Bool × Bool) :=
  match Ddl.parseStmt c 400 50 ts with
  | .ok (s, []) => some (s.printableQ, s.normal, ts.all tokOk, s.showToks == ts, s.norm == s)
  | _ => none

/-- the hypotheses of `ddl_reparse_fixpoint_partial` hold on the five samples: accepted completely,
printable, of normal shape, lexer-like; the printed form differs from the source and the tree differs
from its normal form (keyword spelling, `==`) -/
theorem sampleV_hyps : hyps g sampleV = some (true, true, true, false, false) := by decide +kernel
theorem sampleN_hyps : hyps g sampleN = some (true, true, true, false, false) := by decide +kernel
theorem sampleA_hyps : hyps g sampleA = some (true, true, true, false, false) := by decide +kernel
theorem sampleT_hyps : hyps g sampleT = some (true, true, true, false, false) := by decide +kernel
theorem sampleX_hyps : hyps g sampleX = some (true, true, true, false, false) := by decide +kernel

example : ∀ s, Ddl.parseStmt g 400 50 sampleA = .ok (s, []) → s.printableQ = true → s.normal = true →
    Ddl.parseStmt g 400 50 s.showToks = .ok (s.norm, []) ∧ s.norm.sexp = s.sexp :=
  fun s h hp hn => ddl_reparse_fixpoint_partial g 400 50 sampleA s h hp hn (by decide +kernel)

example : ∀ s rest, Ddl.parseStmt g 400 50 sampleN = .ok (s, rest) → s.printableQ = true → s.normal = true →
    ∃ pre, sampleN = pre ++ rest ∧ pre.map qc = s.showToks.map qc :=
  fun s rest h hp hn => ddl_printer_emits_normal_forms g 400 50 sampleN s rest h hp hn (by decide +kernel)

/-- the same `ALTER TABLE` in another spelling: same image, other tokens -/
def sampleA' : List Tok :=
  sampleA.map fun t => match t with
    | .word v q (some k) => if v == str "alter" then .word (str "Alter") q (some k) else t
    | t => t

example : sampleA.map qc = sampleA'.map qc ∧ (sampleA == sampleA') = false := by decide +kernel

example : ∀ s r, Ddl.parseStmt g 400 50 sampleA = .ok (s, r) → s.typesLeaf = true → (∀ s0, s ≠ .dml s0) →
    ∃ s' r', Ddl.parseStmt g 400 50 sampleA' = .ok (s', r') ∧ s'.mapT qc = s.mapT qc ∧ r'.map qc = r.map qc :=
  fun s r h hl hd => ddl_norm_invariant g 400 50 sampleA sampleA' s r (by decide +kernel) h hl
    (fun s0 he => absurd he (hd s0))

/-- script level: three statements, one of them of the first fragment -/
example : ∀ s1 s2 s3, Ddl.parseStmt g 400 50 sampleV = .ok (s1, []) → s1.printableQ = true → s1.normal = true →
    Ddl.parseStmt g 400 50 sampleX = .ok (s2, []) → s2.printableQ = true → s2.normal = true →
    Ddl.parseStmt g 400 50 SqlVerif.Props.C01Dml.sampleD = .ok (s3, []) → s3.printableQ = true → s3.normal = true →
    Ddl.parseScript g 400 50 (printScript [s1, s2, s3]) = .ok [s1.norm, s2.norm, s3.norm] := by
  intro s1 s2 s3 h1 p1 n1 h2 p2 n2 h3 p3 n3
  have := (ddl_script_fixpoint_partial g 400 50 [(sampleV, s1), (sampleX, s2), (SqlVerif.Props.C01Dml.sampleD, s3)] (by
    intro p hp
    simp only [List.mem_cons, List.mem_nil_iff, or_false] at hp
    rcases hp with rfl | rfl | rfl
    · exact ⟨h1, (by decide +kernel : LexOk sampleV), p1, n1⟩
    · exact ⟨h2, (by decide +kernel : LexOk sampleX), p2, n2⟩
    · exact ⟨h3, (by decide +kernel : LexOk SqlVerif.Props.C01Dml.sampleD), p3, n3⟩)).1
  simpa using this

/-- parse, print, parse again: (printableQ, normal, the re-parsed tree is the normal form, the re-parsed
tree is printableQ and of normal shape) -/
def reparseNorm (c : XCfg) (ts : List Tok) : Option (Bool × Bool × Bool × Bool) :=
  match Ddl.parseStmt c 400 50 ts with
  | .ok (s, []) =>
    match Ddl.parseStmt c 400 50 s.showToks with
    | .ok (s', []) => some (s.printableQ, s.normal, s' == s.norm, s'.printableQ && s'.normal)
    | _ => some (s.printableQ, s.normal, false, false)
  | _ => none

/-- one instance of every shape excluded by `normal`: none of them is a token-by-token image of its printed
form, and — by evaluation — each re-parses to exactly `s.norm`, which is of the covered shape:
`CREATE TEMP VIEW`; a `()` view column list and a trailing comma; `CREATE TEMP INDEX` with a trailing comma in
the columns; `DROP a` / `RENAME a TO b` / `ALTER a …` without `COLUMN`; `ADD IF NOT EXISTS COLUMN a INT` (the
slot `Display` does not use); a trailing comma after the operations; trailing commas in `TRUNCATE` / `DROP VIEW`;
MySQL: `ADD IF NOT EXISTS a INT` (dropped); PostgreSQL: `DROP PRIMARY KEY a` (swallowed) -/
theorem rewritten_ddl_shapes_reparse_to_norm :
    [ [kw "CREATE", kw "TEMP", kw "VIEW", wd "v", kw "AS", kw "SELECT", num "1"],
      [kw "CREATE", kw "VIEW", wd "v", lp, rp, kw "AS", kw "SELECT", num "1"],
      [kw "CREATE", kw "VIEW", wd "v", lp, wd "a", cm, rp, kw "AS", kw "SELECT", num "1"],
      [kw "CREATE", kw "TEMP", kw "INDEX", wd "i", kw "ON", wd "t", lp, wd "a", cm, rp],
      [kw "ALTER", kw "TABLE", wd "t", kw "DROP", wd "a", cm, kw "RENAME", wd "b", kw "TO", wd "c", cm, kw "ALTER", wd "d",
       kw "DROP", kw "DEFAULT"],
      [kw "ALTER", kw "TABLE", wd "t", kw "ADD", kw "IF", kw "NOT", kw "EXISTS", kw "COLUMN", wd "a", kw "INT"],
      [kw "ALTER", kw "TABLE", wd "t", kw "DROP", kw "COLUMN", wd "a", cm],
      [kw "TRUNCATE", wd "t", cm],
      [kw "DROP", kw "VIEW", wd "a", cm] ].map (reparseNorm g) =
    List.replicate 9 (some (true, false, true, true)) ∧
    reparseNorm my [kw "ALTER", kw "TABLE", wd "t", kw "ADD", kw "IF", kw "NOT", kw "EXISTS", wd "a", kw "INT"] =
      some (true, false, true, true) ∧
    reparseNorm pg [kw "ALTER", kw "TABLE", wd "t", kw "DROP", kw "PRIMARY", kw "KEY", wd "a"] =
      some (true, false, true, true) := by
  decide +kernel

/-- **repaired in /repo** (fix "CREATE TEMPORARY MATERIALIZED VIEW prints its modifiers in the order the parser
reads them"; before it the printed form `CREATE MATERIALIZED TEMPORARY VIEW …` was rejected by the parser):
`CREATE TEMPORARY MATERIALIZED VIEW v AS SELECT 1` is printable and of normal shape, prints itself, and — an
instance of `ddl_reparse_fixpoint_partial` — re-parses to its normal form -/
theorem view_prefix_fixpoint :
    (match Ddl.parseStmt g 400 50 [kw "CREATE", kw "TEMPORARY", kw "MATERIALIZED", kw "VIEW", wd "v", kw "AS", kw "SELECT", num "1"] with
     | .ok (s, []) =>
       (s.printableQ, s.normal, s.showText == some (str "CREATE TEMPORARY MATERIALIZED VIEW v AS SELECT 1"),
        match Ddl.parseStmt g 400 50 s.showToks with | .ok (s', []) => s' == s.norm | _ => false)
     | _ => (false, false, false, false)) = (true, true, true, true) := by decide +kernel

/-- `ddl_fixpoint_after_one_step` on an excluded shape: `ALTER TABLE t DROP a` -/
example : ∀ s, Ddl.parseStmt g 400 50 [kw "ALTER", kw "TABLE", wd "t", kw "DROP", wd "a"] = .ok (s, []) → s.showOk →
    Ddl.parseStmt g 400 50 s.showToks = .ok (s.norm, []) →
    s.norm.showToks = s.showToks ∧ Ddl.parseStmt g 400 50 s.norm.showToks = .ok (s.norm, []) ∧ s.norm.norm = s.norm ∧
      s.norm.sexp = s.sexp :=
  fun s _ hok h1 => ddl_fixpoint_after_one_step g 400 50 s hok h1
end Examples

end SqlVerif.Props.C01Ddl

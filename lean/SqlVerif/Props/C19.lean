import SqlVerif.Model.Record
import SqlVerif.Gen.Builder
/-!
# C19 — the CREATE TABLE builder is a lossless view of the statement

Generic theorem (`Model/Record.lean`): two copy-every-field conversions whose field maps are the
identity compose to the identity, for records over any value type.  The field maps of `build()`,
`try_from` and the setters are re-extracted from the Rust source on every run
(`Gen/Builder.lean`); the side conditions below are re-decided by the kernel on what the code says now.
-/
namespace SqlVerif.Props.C19
open SqlVerif.Record SqlVerif.Gen.Builder

/-- side condition: builder and statement have the same field set, in the same order of ids -/
theorem same_field_set : builderFieldIds = List.range nFields := by decide

/-- side condition: `build()` reads every statement field from the builder field of the same name -/
theorem build_map_identity : isIdentityOn nFields buildMap = true ∧ buildMap.length = nFields := by decide

/-- side condition: `try_from` fills every builder field from the statement field of the same name -/
theorem tryfrom_map_identity : isIdentityOn nFields tryFromMap = true ∧ tryFromMap.length = nFields := by decide

/-- side condition: every setter is `self.f = param; self`, on distinct statement fields -/
theorem setters_simple :
    setters.all (fun s => s.2 && decide (s.1 < nFields)) = true ∧ (setters.map (·.1)).Nodup := by decide

/-- side condition: any other statement kind goes to the `_ => Err(..)` arm -/
theorem wildcard_arm_is_err : wildcardArmIsErr = true := by decide

/-- statement → builder → statement is the identity on every field, for any value type -/
theorem builder_roundtrip {V : Type} (junk₁ junk₂ : Rec V) (s : Rec V) (i : Nat) (hi : i < nFields) :
    copy buildMap junk₁ (copy tryFromMap junk₂ s) i = s i := by
  rw [copy_identity nFields buildMap build_map_identity.1 _ _ i hi,
      copy_identity nFields tryFromMap tryfrom_map_identity.1 _ _ i hi]

/-- builder → statement → builder is the identity on every field -/
theorem builder_roundtrip' {V : Type} (junk₁ junk₂ : Rec V) (b : Rec V) (i : Nat) (hi : i < nFields) :
    copy tryFromMap junk₁ (copy buildMap junk₂ b) i = b i := by
  rw [copy_identity nFields tryFromMap tryfrom_map_identity.1 _ _ i hi,
      copy_identity nFields buildMap build_map_identity.1 _ _ i hi]

/-- a setter changes exactly its own field to its argument, as seen through `build()` -/
theorem setter_local {V : Type} (junk : Rec V) (b : Rec V) (f : Nat) (v : V) (i : Nat) (hi : i < nFields) :
    copy buildMap junk (set f v b) i = if i = f then v else copy buildMap junk b i := by
  rw [copy_identity nFields buildMap build_map_identity.1 _ _ i hi,
      copy_identity nFields buildMap build_map_identity.1 _ _ i hi]
  rfl

-- non-vacuity: a concrete record with distinct values in every field survives the round trip
example : ∀ i, i < nFields → copy buildMap (fun _ => 0) (copy tryFromMap (fun _ => 0) (fun k => k + 7)) i = i + 7 :=
  fun i hi => builder_roundtrip _ _ _ i hi
example : 0 < nFields ∧ setters.length > 1 := by decide

end SqlVerif.Props.C19

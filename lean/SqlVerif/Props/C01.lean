import SqlVerif.Lemmas.PrintSim
import SqlVerif.Lemmas.PrintFaithful
import SqlVerif.Model.Tokenizer
/-!
# C01 — parse → print → parse is a fixpoint (expression fragment)

Models: `Model/Pratt.lean` (parser, streams `prec`/`chains`/`ladder`), `Model/ExprPrint.lean`
(`Display` of the same fragment as a list of pieces: `showToks` = the printed tokens, `showText` =
the text, blanks included; stream `exprprint`).

For EVERY configuration record `c`, fuel, recursion limit and token list:

* `norm_invariant`     the parser takes the same branches on two token lists with the same observable
                       image (`canon`: of a word only its keyword and the leading-underscore flag,
                       `==` = `=`): same number of tokens consumed, trees with the same image;
* `printer_emits_normal_forms`  every token the parser stored in the tree is, up to `canon`, the token
                       the printer emits for it (for `printable` trees);
* `reparse_fixpoint_partial`    if `parseExpr c fuel limit ts = ok (e, [])` and `e.printable`, then
                       `parseExpr c fuel limit (showToks e) = ok (e.norm, [])` — with the SAME fuel and
                       limit — where `e.norm` is `e` with its stored tokens replaced by the printed
                       ones, and `e.norm.sexp = e.sexp` (the trees the real AST compares are equal);
                       `reparse_fixpoint_sub` is the version for `parse_subexpr` with a continuation;
* `print_idempotent_partial`    printing the re-parsed tree gives the same tokens and the same text.

`_partial`: (1) the fragment of `Model/Expr.lean` only; (2) token level: the theorem starts from
the printed TOKEN list; that the printed TEXT lexes back to that list is a separate obligation
(`LexSafe`); two former counterexamples (`- - a` printed `--a`, `ILIKE ANY b ESCAPE` printed `ANYb`)
were repaired in /repo and are kept as positive witnesses below; it is otherwise decided by
the stream `exprprint` (op `exprtoks`) and the whole-grammar oracle C01 on the real code;
(3) `Expr.printable` excludes four shapes whose printed token list is not a token-by-token image of
the input (`REGEXP RLIKE`, `ESCAPE` operand not written as '…', `:"x"`, keyword tokens spelled with
a leading underscore); they do re-parse to the same tree (examples at the end, by evaluation).
-/
namespace SqlVerif.Props.C01
open SqlVerif.Pratt SqlVerif.Gen

/-- the parser takes the same branch on a token and on its printed normal form: on two lists with the
same observable image it succeeds on both or on none, consumes equally many tokens and builds
trees with the same image -/
theorem norm_invariant (c : Cfg) (fuel depth p : Nat) (ts ts' : List Tok) (e : Expr) (rest : List Tok)
    (hs : Sim ts ts') (h : parseSubexpr c fuel depth p ts = .ok (e, rest)) :
    ∃ e' rest', parseSubexpr c fuel depth p ts' = .ok (e', rest') ∧ e'.mapT canon = e.mapT canon ∧ Sim rest rest' :=
  parse_sim c fuel depth p ts ts' e rest hs h

/-- what the printer emits is, token by token, the consumed input up to `canon1` (identifiers,
numbers, strings and placeholders literally; keywords and operators up to spelling) -/
theorem printer_emits_normal_forms (c : Cfg) (fuel depth p : Nat) (ts : List Tok) (e : Expr) (rest : List Tok)
    (h : parseSubexpr c fuel depth p ts = .ok (e, rest)) (hp : e.printable = true) :
    ∃ pre, ts = pre ++ rest ∧ pre.map canon1 = (showToks e).map canon1 ∧ Sim pre (showToks e) := by
  refine ⟨e.flatten, (yield_all c fuel).1 _ _ _ _ _ h, ?_⟩
  exact faithful c fuel depth p ts e rest h hp

theorem showToks_norm (e : Expr) : showToks e = e.norm.flatten := showToks_eq e

theorem sexp_norm (e : Expr) : e.norm.sexp = e.sexp := norm_sexp e

private theorem sim_length {a b : List Tok} (h : Sim a b) : a.length = b.length := by
  have := congrArg List.length h
  simpa using this

/-- re-parsing the printed tokens in front of any continuation that looks like the original one -/
theorem reparse_fixpoint_sub (c : Cfg) (fuel depth p : Nat) (ts : List Tok) (e : Expr) (rest rest' : List Tok)
    (h : parseSubexpr c fuel depth p ts = .ok (e, rest)) (hp : e.printable = true) (hr : Sim rest rest') :
    parseSubexpr c fuel depth p (showToks e ++ rest') = .ok (e.norm, rest') := by
  have hy : ts = e.flatten ++ rest := (yield_all c fuel).1 _ _ _ _ _ h
  have hf := faithful c fuel depth p ts e rest h hp
  have hs : Sim ts (showToks e ++ rest') := by
    rw [hy]; unfold Sim at *; simp [List.map_append, hf.2, hr]
  obtain ⟨e', r', hp', he', hr'⟩ := parse_sim c fuel depth p ts _ e rest hs h
  have hy' : showToks e ++ rest' = e'.flatten ++ r' := (yield_all c fuel).1 _ _ _ _ _ hp'
  have hlen : r'.length = rest'.length := by rw [← sim_length hr', sim_length hr]
  obtain ⟨h1, h2⟩ := List.append_inj' hy' hlen.symm
  subst h2
  have hcanon : e'.mapT canon = e.norm.mapT canon := by
    rw [he']
    exact (mapT_canon_of_canon1 ((faithful_all c fuel).1 depth p ts e rest h hp)).symm
  have : e' = e.norm := mapT_flatten_inj canon e' e.norm hcanon (by rw [← h1, showToks_eq])
  rw [hp', this]

/-- **parse → print → parse is a fixpoint** on the printable expression fragment, token level, with
the same fuel and the same recursion limit: the tree read back is the tree itself with its tokens
in printed normal form, which the AST comparison (`sexp`) cannot tell from the original -/
theorem reparse_fixpoint_partial (c : Cfg) (fuel limit : Nat) (ts : List Tok) (e : Expr)
    (h : parseExpr c fuel limit ts = .ok (e, [])) (hp : e.printable = true) :
    parseExpr c fuel limit (showToks e) = .ok (e.norm, []) ∧ e.norm.sexp = e.sexp := by
  have := reparse_fixpoint_sub c fuel limit c.prec.unknown ts e [] [] h hp rfl
  simp only [List.append_nil] at this
  exact ⟨this, norm_sexp e⟩

/-- the statement in the form of the property: some tree comes back and it is equal to the first
one up to the stored source tokens -/
theorem reparse_fixpoint_partial' (c : Cfg) (fuel limit : Nat) (ts : List Tok) (e : Expr)
    (h : parseExpr c fuel limit ts = .ok (e, [])) (hp : e.printable = true) :
    ∃ e', parseExpr c fuel limit (showToks e) = .ok (e', []) ∧ e'.sexp = e.sexp :=
  ⟨e.norm, reparse_fixpoint_partial c fuel limit ts e h hp⟩

/-- printing is idempotent: the re-parsed tree prints to the same tokens and the same text, and
parsing that again changes nothing any more -/
theorem print_idempotent_partial (c : Cfg) (fuel limit : Nat) (ts : List Tok) (e : Expr)
    (h : parseExpr c fuel limit ts = .ok (e, [])) (hp : e.printable = true) :
    ∃ e', parseExpr c fuel limit (showToks e) = .ok (e', []) ∧
      showToks e' = showToks e ∧ showText e' = showText e ∧ e'.norm = e' := by
  refine ⟨e.norm, (reparse_fixpoint_partial c fuel limit ts e h hp).1, ?_, ?_, norm_norm e⟩
  · rw [toksOf_showToks, toksOf_showToks, pieces_norm]
  · unfold showText; rw [pieces_norm]

/-- The property for the whole grammar (every statement kind, text level, every dialect and option
set).  Not proved: the model covers the expression fragment at token level; decided on the real
code by the oracle `C01` (every accepted corpus (text, dialect) pair × 4 option sets). -/
def FullStatement {Ast : Type} (parse : List Nat → Option (List Ast)) (print : Ast → List Nat) : Prop :=
  ∀ s as, parse s = some as → ∀ a ∈ as, parse (print a) = some [a]

-- ------------------------------------------------------------------ text level: where the current code is not a fixpoint
section LexSafe
open SqlVerif.Tok

def asciiBit (t : List Bool) (ch : Nat) : Bool := t.getD ch false

/-- the Generic dialect with Rust's character predicates on ASCII (as tabulated from the running code) -/
def genericEnv : Env :=
  { row := dialect_generic, unescape := true,
    isWhitespace := asciiBit asciiIsWhitespace, isAlphabetic := asciiBit asciiIsAlphabetic,
    isNumeric := asciiBit asciiIsNumeric, isAlphanumeric := asciiBit asciiIsAlphanumeric,
    toUpper := fun ch => [asciiToUpper.getD ch ch],
    isIdentStart := asciiBit dialect_generic.asciiIdentStart,
    isIdentPart := asciiBit dialect_generic.asciiIdentPart,
    isDelimStart := asciiBit dialect_generic.asciiDelimStart,
    isCustomOpPart := asciiBit dialect_generic.asciiCustomOp }

def g : Cfg := Cfg.ofRow dialect_generic
def wd (s : String) : SqlVerif.Pratt.Tok := .word (str s) none none
def kw (s : String) : SqlVerif.Pratt.Tok := .word (str s) none (some (kwIndex s))

/-- tokens of the tokenizer model that are not whitespace -/
def nonWs (ts : List (Token × Loc)) : List Token :=
  (ts.map (·.1)).filter fun t => match t with | .whitespace _ => false | _ => true

/-- (was a counterexample before the `fix:` commit) `- - a` is accepted as `UnaryOp(Minus,
UnaryOp(Minus, a))`; its text is now `- -a`, which the tokenizer model (Generic dialect) reads back
as the same three tokens. -/
theorem unary_minus_minus_lexsafe :
    (parseExpr g 100 50 [.sym .Minus, .sym .Minus, wd "a"]).toOption.map (fun r => (showToks r.1, showText r.1)) =
      some ([.sym .Minus, .sym .Minus, wd "a"], some (str "- -a")) ∧
    (tokenize genericEnv (str "- -a")).toOption.map (fun ts => (nonWs ts).length) = some 3 := by
  decide +kernel

/-- (was a counterexample before the `fix:` commit) `a ILIKE ANY b ESCAPE '!'` prints with a blank
after `ANY` and lexes back to six tokens. -/
theorem ilike_any_escape_spaced :
    (parseExpr g 100 50 [wd "a", kw "ILIKE", kw "ANY", wd "b", kw "ESCAPE", .sqs (str "!")]).toOption.map
        (fun r => ((showToks r.1).length, showText r.1)) =
      some (6, some (str "a ILIKE ANY b ESCAPE '!'")) ∧
    (tokenize genericEnv (str "a ILIKE ANY b ESCAPE '!'")).toOption.map (fun ts => (nonWs ts).length) = some 6 := by
  decide +kernel

/-- the same tree with `LIKE` keeps the blank -/
example : (parseExpr g 100 50 [wd "a", kw "LIKE", kw "ANY", wd "b", kw "ESCAPE", .sqs (str "!")]).toOption.map
    (fun r => showText r.1) = some (some (str "a LIKE ANY b ESCAPE '!'")) := by decide +kernel
end LexSafe

-- ------------------------------------------------------------------ non-vacuity
section Examples
def run (ts : List SqlVerif.Pratt.Tok) : Option Expr := (parseExpr g 200 50 ts).toOption.map (·.1)

/-- `a == b and not c is null`, lower-case keywords: printable, printed in normal form, and the
printed tokens parse to the normal-form tree, whose S-expression is the original one -/
def sample : List SqlVerif.Pratt.Tok :=
  [wd "a", .sym .DoubleEq, wd "b", .word (str "and") none (some KW.AND), .word (str "not") none (some KW.NOT),
   wd "c", .word (str "is") none (some KW.IS), .word (str "null") none (some KW.NULL)]

example : (run sample).map (fun e => (e.printable, showToks e, showText e)) =
    some (true, [wd "a", .sym .Eq, wd "b", kw "AND", kw "NOT", wd "c", kw "IS", kw "NULL"],
      some (str "a = b AND NOT c IS NULL")) := by decide +kernel

example : (run sample).bind (fun e => (run (showToks e)).map fun e' => (e' == e.norm, e'.sexp == e.sexp, e' == e)) =
    some (true, true, false) := by decide +kernel

/-- the shapes excluded by `printable` re-parse to the same S-expression all the same -/
example :
    let inputs : List (List SqlVerif.Pratt.Tok) :=
      [[wd "a", kw "REGEXP", kw "RLIKE", wd "b"],
       [wd "a", kw "LIKE", wd "b", kw "ESCAPE", wd "c"],
       [wd "a", kw "LIKE", wd "b", kw "ESCAPE", .dqs (str "c")],
       [.sym .Colon, .word (str "x") (some 34) none]]
    inputs.map (fun ts => (run ts).bind fun e =>
      (run (showToks e)).map fun e' => (e.printable, e'.sexp == e.sexp)) =
    [some (false, true), some (false, true), some (false, true), some (false, true)] := by decide +kernel

/-- IN lists, BETWEEN, casts, ANY: printable and fixpoints -/
example :
    let inputs : List (List SqlVerif.Pratt.Tok) :=
      [[wd "a", kw "NOT", kw "IN", .sym .LParen, .number (str "1") false, .sym .Comma, .sqs (str "s"), .sym .RParen],
       [wd "a", kw "BETWEEN", wd "b", kw "AND", wd "c", .sym .DoubleColon, .word (str "int") none (some (kwIndex "INT"))],
       [wd "a", .sym .Neq, kw "SOME", .sym .LParen, .sym .Minus, wd "b", .sym .RParen],
       [.sym .LParen, wd "a", .sym .RParen, kw "AT", kw "TIME", kw "ZONE", .sqs (str "z")]]
    inputs.map (fun ts => (run ts).bind fun e =>
      (run (showToks e)).map fun e' => (e.printable, e' == e.norm, e'.sexp == e.sexp)) =
    [some (true, true, true), some (true, true, true), some (true, true, true), some (true, true, true)] := by
  decide +kernel
end Examples

end SqlVerif.Props.C01

import SqlVerif.Lemmas.CursorLemmas
/-!
# C10 — errors are values that point at a real token of the input (parser half)

For every program over the cursor API (`Model/Cursor.lean`) — so for every parse function, whatever
it does — a location that ends up in an error is the location of a token of the input that the
program was handed, or the (0,0) of the EOF sentinel, which prints as no position.  Programs cannot
compute with locations: they receive tokens without them and can only name the handle of an
earlier peek/next.  Which message goes with which handle at each `expected(...)` site, and the
tokenizer's error positions, are decided by the inventory/oracle and the tokenizer model.
-/
namespace SqlVerif.Props.C10
open SqlVerif.Cursor

variable {τ α : Type}

/-- every reported location is a real token's location or the EOF sentinel's (0,0) -/
theorem error_location_is_real (isWs : τ → Bool) (T : List (TL τ)) (p : Prog τ α) (i : Nat)
    (regs : Nat → Nat) (m : Nat) (l : Loc) (h : runC isWs p ⟨T, i⟩ regs [] = .err m l) :
    l = eofLoc ∨ l ∈ T.map (·.loc) :=
  loc_sound isWs T p i regs [] (by simp) m l h

/-- an error that names no token (end of input reached, recursion limit, …) carries no position -/
theorem error_without_token_has_no_position (isWs : τ → Bool) (s : CState τ) (regs : Nat → Nat)
    (log : List Loc) (m : Nat) : runC (α := α) isWs (.err m none) s regs log = .err m eofLoc := rfl

/-- peeking or reading past the end hands over EOF with the (0,0) location, and an error naming that
handle therefore prints no position -/
theorem eof_error_has_no_position (isWs : τ → Bool) (T : List (TL τ)) (m : Nat) :
    runC (α := α) isWs (.next fun _ => .err m (some 0)) ⟨T, T.length⟩ (fun _ => 0) [] = .err m eofLoc := by
  simp [runC, next, nextFrom, locOf]

/-- the run is a function of the program and the tokens: the same input yields the same error -/
theorem deterministic (isWs : τ → Bool) (p : Prog τ α) (s : CState τ) (regs : Nat → Nat) (log : List Loc)
    (r r' : Res α) (h : runC isWs p s regs log = r) (h' : runC isWs p s regs log = r') : r = r' := by
  rw [← h, ← h']

/-- `expected(msg, found)`: the message is built from the same value as the location — the model of
the helper takes ONE handle; the token shown and the position cannot come from different tokens -/
theorem expected_found_same_token (isWs : τ → Bool) (T : List (TL τ)) (i n m : Nat) (regs : Nat → Nat) :
    runC (α := α) isWs (.peek n fun _ => .err m (some 0)) ⟨T, i⟩ regs [] =
      .err m (locOf (peekNth isWs ⟨T, i⟩ n)) := by
  simp [runC]

-- non-vacuity: `a b` where the program rejects the second token: the error points at it
private def mk (l : List Nat) : List (TL Nat) := l.zipIdx.map fun (t, i) => ⟨t, ⟨1, i + 1⟩⟩
example : runC (α := Unit) (· == 0) (.next fun _ => .next fun _ => .err 9 (some 1))
    ⟨mk [5, 0, 0, 6], 0⟩ (fun _ => 0) [] = .err 9 ⟨1, 4⟩ := by decide

/-- The full property also covers the lexer's error positions and the `found: T` text of every
message; see the tokenizer model (C09) and the rejection oracle. -/
def FullStatement : Prop :=
  ∀ (isWs : τ → Bool) (T : List (TL τ)) (p : Prog τ α) (m : Nat) (l : Loc),
    runC isWs p ⟨T, 0⟩ (fun _ => 0) [] = .err m l → l = eofLoc ∨ l ∈ T.map (·.loc)

theorem full_statement_parser_half : @FullStatement τ α := fun isWs T p m l h =>
  error_location_is_real isWs T p 0 _ m l h

end SqlVerif.Props.C10

import SqlVerif.Lemmas.Bsearch
import SqlVerif.Gen.Keywords
/-!
# C08 — keywords are case-insensitive; identifier spelling is preserved

Model: `Model/Keywords.lean` (`Token::make_word`, `Word::to_ident`, `Display for Word`).
Generated: `Gen/Keywords.lean` (`ALL_KEYWORDS`, `ALL_KEYWORDS_INDEX` dumped from the running crate).
The upper-casing function `up` is a parameter (Rust's `str::to_uppercase`); every theorem holds for
all `up`, all words and all quote styles.

`FullStatement` below also covers the parser half (keyword tests made on token *text*); that part
is not a theorem here: it is decided by the text-comparison inventory and the case-flip oracle.
-/
namespace SqlVerif.Props.C08
open SqlVerif.Keywords SqlVerif.Gen

/-- side condition re-decided against the table the code defines *now* -/
theorem table_adj_sorted : adjSorted keywordsList = true := by decide +kernel

theorem table_sorted : StrictSorted keywords :=
  strictSorted_of_adjSorted keywords (by simpa [keywords] using table_adj_sorted)

/-- the index table maps position `i` to the `i`-th keyword constructor (discriminant `i+1`) -/
theorem index_table_is_identity :
    keywordIndex = List.range' 1 keywordsList.length ∧ noKeywordDiscriminant = 0 := by
  decide +kernel

/-- an unquoted word is a keyword exactly when its upper-casing is a table entry, and then the
keyword is the entry's own index -/
theorem recognised_iff (up : W → W) (w : W) (i : Nat) :
    (makeWord keywords up w none).keyword = some i ↔ i < keywords.size ∧ keywords[i]! = up w := by
  simp only [makeWord, Option.isNone_none, ↓reduceIte]
  constructor
  · exact bsearch_sound keywords (up w) i
  · intro ⟨hi, he⟩; exact bsearch_complete keywords table_sorted (up w) i hi he

/-- every word of the table is recognised in every capitalisation … -/
theorem every_entry_recognised (up : W → W) (i : Nat) (hi : i < keywords.size) (w : W)
    (h : up w = keywords[i]!) : (makeWord keywords up w none).keyword = some i :=
  (recognised_iff up w i).2 ⟨hi, h.symm⟩

/-- … and nothing else is -/
theorem nothing_else_recognised (up : W → W) (w : W)
    (h : ∀ i, i < keywords.size → keywords[i]! ≠ up w) : (makeWord keywords up w none).keyword = none := by
  simp only [makeWord, Option.isNone_none, ↓reduceIte]
  exact (bsearch_none_iff keywords table_sorted (up w)).2 h

/-- recognition depends on the word only through its upper-casing -/
theorem lookup_case_insensitive (up : W → W) (w w' : W) (q : Option Nat) (h : up w = up w') :
    (makeWord keywords up w q).keyword = (makeWord keywords up w' q).keyword := by
  simp [makeWord, h]

/-- a quoted word is never a keyword -/
theorem quoted_never_keyword (up : W → W) (w : W) (q : Nat) :
    (makeWord keywords up w (some q)).keyword = none := by
  simp [makeWord]

/-- spelling and quoting survive `make_word`, `to_ident` and printing of an unquoted word -/
theorem spelling_preserved (up : W → W) (w : W) (q : Option Nat) :
    (makeWord keywords up w q).value = w ∧ (makeWord keywords up w q).quote = q ∧
    (makeWord keywords up w q).toIdent = { value := w, quote := q } ∧
    (makeWord keywords up w none).display = some w := by
  simp [makeWord, Word.toIdent, Word.display]

/-- printing a word quoted with one of the three supported styles brackets the exact spelling -/
theorem quoted_display (up : W → W) (w : W) (q e : Nat) (h : matchingEndQuote q = some e) :
    (makeWord keywords up w (some q)).display = some ([q] ++ w ++ [e]) := by
  simp [makeWord, Word.display, h]

/-- ASCII upper-casing, used only for the non-vacuity examples -/
def asciiUpper (w : W) : W := w.map fun c => if 97 ≤ c ∧ c ≤ 122 then c - 32 else c

-- non-vacuity: `select`, `SeLeCt` and `SELECT` are recognised as the same entry; `selec` is not
example : ∃ i, (makeWord keywords asciiUpper [115,101,108,101,99,116] none).keyword = some i ∧
    (makeWord keywords asciiUpper [83,101,76,101,67,116] none).keyword = some i ∧
    keywords[i]! = [83,69,76,69,67,84] := by
  decide +kernel
example : (makeWord keywords asciiUpper [115,101,108,101,99] none).keyword = none := by decide +kernel

/-- The full property (not a theorem of this file): additionally, every keyword test the *parser*
makes is made on the `keyword` field or case-insensitively, for every accepted text. -/
def FullStatement : Prop :=
  ∀ (up : W → W) (w : W), (∃ i, (makeWord keywords up w none).keyword = some i) ↔ up w ∈ keywordsList

/-- the lexer half of the full statement -/
theorem full_statement_lexer_half : FullStatement := by
  intro up w
  constructor
  · rintro ⟨i, h⟩
    have := (recognised_iff up w i).1 h
    have hi : i < keywordsList.length := by simpa [keywords] using this.1
    have he : keywordsList[i]! = up w := by simpa [keywords] using this.2
    rw [← he, getElem!_pos keywordsList i hi]
    exact List.getElem_mem hi
  · intro h
    obtain ⟨i, hi, he⟩ := List.getElem_of_mem h
    refine ⟨i, (recognised_iff up w i).2 ⟨by simpa [keywords] using hi, ?_⟩⟩
    simp [keywords, getElem!_pos, hi, he]

end SqlVerif.Props.C08

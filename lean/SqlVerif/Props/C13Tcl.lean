import SqlVerif.Lemmas.TclExt
import SqlVerif.Lemmas.TclLists
import SqlVerif.Props.C13Ddl
/-!
# C13 on the third statement fragment — which lists of SET / transaction control are `parse_comma_separated`

The fragment (`Model/Tcl.lean`, stream `tcl`) has three lists; they are three different things:

* **the SET tuple** `SET (a, b) = …` IS `parse_comma_separated(parse_identifier)` in the real code and in
  the model (`set_tuple_is_lists_model`); an identifier is a local element (`insertColumn_local` of
  `Props/C13Dml.lean`), the trailing-comma / option-inert instances are `set_tuple_trailing_comma`,
  `set_tuple_option_inert`;
* **the SET values** `SET a = v1, v2, …` are written in the real code as an AD-HOC `loop` — but one that
  calls `is_parse_comma_separated_end` after every value; `set_values_loop_is_commaSep` proves that this
  loop IS `parse_comma_separated` over the value parser (same answer on every input, failures
  included), so the statement model may use the list model (`set_values_is_lists_model`); a value is a
  local element (`setValue_local`), with `set_values_trailing_comma`, `set_values_option_inert`; a
  sub-query value is outside the fragment;
* **the transaction modes** `READ ONLY, ISOLATION LEVEL …` are an ad-hoc loop that is NOT
  `parse_comma_separated`: the comma is optional (`modes_comma_optional`, witness
  `modes_not_comma_separated`: `READ ONLY READ WRITE` gives two modes where the list model over the same
  element parser stops after one), and a consumed comma commits the loop to a further mode whatever the
  `trailing_commas` option — the function never reads the option (`modes_comma_commits` for every fuel and
  token list; witness `modes_trailing_comma_rejected`: `START TRANSACTION READ ONLY,` is an error with the
  option on, where `SET a = 1,` is accepted).  With a comma after every mode but the last, loop and list
  model agree (`modes_with_commas_witness`).
-/
namespace SqlVerif.Props.C13Tcl
open SqlVerif.Pratt SqlVerif.Query SqlVerif.Dml SqlVerif.Ddl SqlVerif.Tcl SqlVerif.Lists SqlVerif.Gen
open SqlVerif.Props.C13Dml (comma_isComma insertColumn_local)

-- ------------------------------------------------------------------ element locality
/-- a value of `SET … =` (an expression) is local in front of every follower -/
theorem setValue_local (c : TCfg) (fuel depth : Nat) (a : List Tok) (e : Expr)
    (hacc : setValue c fuel depth a = .ok (e, [])) :
    LocalOn listClass (asOpt (setValue c fuel depth)) a e :=
  localOn_of_ext _ a e hacc fun x r hx => by simpa using setValue_ext c hx r fuel depth a e [] hacc

/-- an identifier of the SET tuple is local in front of every follower -/
theorem setTupleId_local (a : List Tok) (t : Tok) (hacc : identElem a = .ok (t, [])) :
    LocalOn listClass (asOpt identElem) a t := insertColumn_local a t hacc

-- ------------------------------------------------------------------ which lists are parse_comma_separated
/-- **the ad-hoc value loop of `parse_set` is `parse_comma_separated`**: the loop as the real code writes
it (`setValuesLoop`: a value, then `is_parse_comma_separated_end`) gives, on every input and for every
fuel, the answer of the list parser the statement model uses — failures included -/
theorem set_values_loop_is_commaSep (c : TCfg) (fuel depth n : Nat) (ts : List Tok) :
    setValuesLoop c fuel depth n ts = commaSepE c.tc (setValue c fuel depth) n ts :=
  setValuesLoop_eq_commaSepE c fuel depth n ts

/-- the value list of an accepted `SET … = values` is `Lists.commaSep` on real tokens -/
theorem set_values_is_lists_model (c : TCfg) (fuel depth : Nat) (kw : Tok) (md colon : List Tok) (tg : SetTarget) (eq : Tok)
    (ts : List Tok) (kw' : Tok) (md' colon' : List Tok) (tg' : SetTarget) (eq' : Tok) (lp : List Tok) (vs : Sep Expr)
    (rp rest : List Tok)
    (h : parseSetValues c fuel depth kw md colon tg eq ts = .ok (.setVar kw' md' colon' tg' eq' lp vs rp, rest)) :
    ∃ ts1 rest1, commaSep listClass c.tc (asOpt (setValue c fuel depth)) fuel ts1 = some (vs.map (·.1), rest1) ∧
      setValuesLoop c fuel depth fuel ts1 = .ok (vs, rest1) := by
  unfold parseSetValues at h
  split at h
  · simp at h
  · rename_i lp0 r hl
    split at h
    · simp at h
    · rename_i vs0 r1 hc
      split at h
      · simp at h
      · simp at h
        obtain ⟨⟨-, -, -, -, -, -, rfl, -⟩, -⟩ := h
        exact ⟨r, r1, commaSepE_eq_lists _ _ _ _ _ _ hc, by rw [set_values_loop_is_commaSep]; exact hc⟩

/-- the parenthesised variable list of `SET (a, b) = …` is `parse_comma_separated(parse_identifier)` -/
theorem set_tuple_is_lists_model (c : TCfg) (fuel : Nat) (ts : List Tok) (lp : Tok) (ids : Sep Tok) (rp : Tok) (rest : List Tok)
    (h : setTarget c fuel ts = .ok (.many lp ids rp, rest)) :
    ∃ ts1 rest1, commaSep listClass c.tc (asOpt identElem) fuel ts1 = some (ids.map (·.1), rest1) := by
  unfold setTarget at h
  split at h
  · simp at h
  · split at h
    · rename_i lp0 r hl
      split at h
      · simp at h
      · rename_i ids0 r1 hc
        split at h
        · simp at h; obtain ⟨⟨-, rfl, -⟩, -⟩ := h
          exact ⟨r, r1, commaSepE_eq_lists _ _ _ _ _ _ hc⟩
        · simp at h
    · split at h
      · simp at h
      · split at h <;> simp at h

-- ------------------------------------------------------------------ trailing commas
/-- **SET values**: `v1, …, vn, <end>` and `v1, …, vn <end>` give the same values when the option is on -/
theorem set_values_trailing_comma (c : TCfg) (fuel depth : Nat) (es : List (List Tok × Expr)) (hne : es ≠ [])
    (hacc : ∀ e ∈ es, setValue c fuel depth e.1 = .ok (e.2, []))
    (hplain : ∀ e ∈ es.tail, StartsPlain listClass e.1)
    (tail : List Tok) (ht : EndTail listClass tail) (n : Nat) (hn : es.length ≤ n) :
    commaSep listClass true (asOpt (setValue c fuel depth)) n (joinWith (.sym .Comma) (es.map (·.1)) ++ .sym .Comma :: tail)
      = some (es.map (·.2), tail) ∧
    commaSep listClass true (asOpt (setValue c fuel depth)) n (joinWith (.sym .Comma) (es.map (·.1)) ++ tail)
      = some (es.map (·.2), tail) :=
  SqlVerif.Props.C13.trailing_comma_noop listClass _ (.sym .Comma) comma_isComma tail ht es hne
    (fun e he => setValue_local c fuel depth e.1 e.2 (hacc e he)) hplain n hn

theorem set_values_option_inert (c : TCfg) (fuel depth : Nat) (es : List (List Tok × Expr)) (hne : es ≠ [])
    (hacc : ∀ e ∈ es, setValue c fuel depth e.1 = .ok (e.2, []))
    (hplain : ∀ e ∈ es.tail, StartsPlain listClass e.1)
    (tail : List Tok) (ht : EndTail listClass tail) (n : Nat) (hn : es.length ≤ n) :
    commaSep listClass true (asOpt (setValue c fuel depth)) n (joinWith (.sym .Comma) (es.map (·.1)) ++ tail) =
    commaSep listClass false (asOpt (setValue c fuel depth)) n (joinWith (.sym .Comma) (es.map (·.1)) ++ tail) :=
  SqlVerif.Props.C13.option_inert listClass _ (.sym .Comma) comma_isComma tail ht es hne
    (fun e he => setValue_local c fuel depth e.1 e.2 (hacc e he)) hplain n hn

/-- **SET tuple identifiers** -/
theorem set_tuple_trailing_comma (es : List (List Tok × Tok)) (hne : es ≠ [])
    (hacc : ∀ e ∈ es, identElem e.1 = .ok (e.2, []))
    (hplain : ∀ e ∈ es.tail, StartsPlain listClass e.1)
    (tail : List Tok) (ht : EndTail listClass tail) (n : Nat) (hn : es.length ≤ n) :
    commaSep listClass true (asOpt identElem) n (joinWith (.sym .Comma) (es.map (·.1)) ++ .sym .Comma :: tail)
      = some (es.map (·.2), tail) ∧
    commaSep listClass true (asOpt identElem) n (joinWith (.sym .Comma) (es.map (·.1)) ++ tail)
      = some (es.map (·.2), tail) :=
  SqlVerif.Props.C13Dml.insert_columns_trailing_comma es hne hacc hplain tail ht n hn

theorem set_tuple_option_inert (es : List (List Tok × Tok)) (hne : es ≠ [])
    (hacc : ∀ e ∈ es, identElem e.1 = .ok (e.2, []))
    (hplain : ∀ e ∈ es.tail, StartsPlain listClass e.1)
    (tail : List Tok) (ht : EndTail listClass tail) (n : Nat) (hn : es.length ≤ n) :
    commaSep listClass true (asOpt identElem) n (joinWith (.sym .Comma) (es.map (·.1)) ++ tail) =
    commaSep listClass false (asOpt identElem) n (joinWith (.sym .Comma) (es.map (·.1)) ++ tail) :=
  SqlVerif.Props.C13Dml.insert_columns_option_inert es hne hacc hplain tail ht n hn

-- ------------------------------------------------------------------ the transaction modes are an ad-hoc loop
/-- **a consumed comma commits the mode loop to a further mode**, for every fuel and every token list,
whether or not a mode was required — and whatever `trailing_commas` says: `parse_transaction_modes` never
reads the option (the model function has no configuration argument at all) -/
theorem modes_comma_commits (n : Nat) (req : Bool) (ts : List Tok) (m : TMode) (cm : Tok) (r r' : List Tok)
    (h1 : modeHead ts = .ok (some m, cm :: r)) (hc : cm.isSym .Comma = true) (h2 : modeHead r = .ok (none, r')) :
    modesLoop (n + 2) req ts = .error (syn "transaction mode") :=
  modesLoop_comma_commits n req ts m cm r r' h1 hc h2

/-- **the comma between modes is optional**: after a mode that no comma follows the loop goes on with the
next round, in which a mode is welcome but not required -/
theorem modes_comma_optional (n : Nat) (req : Bool) (ts : List Tok) (m : TMode) (r : List Tok)
    (h1 : modeHead ts = .ok (some m, r)) (hc : eatSym r .Comma = none) :
    modesLoop (n + 1) req ts =
      (match modesLoop n false r with
       | .error er => .error er
       | .ok (ms, r2) => .ok ((m, []) :: ms, r2)) :=
  modesLoop_no_comma n req ts m r h1 hc

section Witnesses
def g : TCfg := TCfg.ofRow dialect_generic
def sf : TCfg := TCfg.ofRow dialect_snowflake
def wd (s : String) : Tok := .word (str s) none none
def kw (s : String) : Tok := .word (str s) none (some (kwIndex s))
def num (s : String) : Tok := .number (str s) false
def lp : Tok := .sym .LParen
def rp : Tok := .sym .RParen
def cm : Tok := .sym .Comma

/-- non-vacuity of `setValue_local` / `set_values_trailing_comma`: `1`, `'x'`, `c + 2` are accepted values, and with
the option on `SET a = 1, 'x', c + 2,` and `SET a = 1, 'x', c + 2` are the same statement up to the comma token -/
example :
    (match setValue g 100 40 [num "1"], setValue g 100 40 [wd "c", .sym .Plus, num "2"] with
     | .ok (_, []), .ok (_, []) => true
     | _, _ => false) = true ∧
    (match Tcl.parseStmt (g.withTrailing true) 200 50 [kw "SET", wd "a", .sym .Eq, num "1", cm, .sqs (str "x"), cm, wd "c", .sym .Plus, num "2", cm],
           Tcl.parseStmt (g.withTrailing true) 200 50 [kw "SET", wd "a", .sym .Eq, num "1", cm, .sqs (str "x"), cm, wd "c", .sym .Plus, num "2"] with
     | .ok (.setVar _ _ _ _ _ _ vs _, []), .ok (.setVar _ _ _ _ _ _ vs' _, []) => vs.map (·.1) == vs'.map (·.1) && vs.length == 3
     | _, _ => false) = true ∧
    (match Tcl.parseStmt (g.withTrailing false) 200 50 [kw "SET", wd "a", .sym .Eq, num "1", cm] with
     | .error (.syntax _) => true
     | _ => false) = true := by decide +kernel

/-- non-vacuity of the tuple list: `SET (a, b,) = (1, 2,)` with the option on, rejected with it off -/
example :
    (match Tcl.parseStmt (sf.withTrailing true) 200 50 [kw "SET", lp, wd "a", cm, wd "b", cm, rp, .sym .Eq, lp, num "1", cm, num "2", cm, rp] with
     | .ok (.setVar _ _ _ (.many _ ids _) _ _ vs _, []) => ids.length == 2 && vs.length == 2
     | _ => false) = true ∧
    (match Tcl.parseStmt (sf.withTrailing false) 200 50 [kw "SET", lp, wd "a", cm, wd "b", cm, rp, .sym .Eq, lp, num "1", cm, num "2", rp] with
     | .error (.syntax _) => true
     | _ => false) = true := by decide +kernel

/-- **the mode loop is not `parse_comma_separated`** (1): `READ ONLY READ WRITE` — no comma — is read by the
loop as two modes, where the list model over the same element parser returns one mode and leaves
`READ WRITE`; the statement `START TRANSACTION READ ONLY READ WRITE` is accepted (and printed with a comma) -/
theorem modes_not_comma_separated :
    (match modesLoop 10 false [kw "READ", kw "ONLY", kw "READ", kw "WRITE"] with
     | .ok (ms, []) => ms.map (·.1) == [.readOnly [kw "READ", kw "ONLY"], .readWrite [kw "READ", kw "WRITE"]]
     | _ => false) = true ∧
    commaSep listClass true (asOpt modeElem) 10 [kw "READ", kw "ONLY", kw "READ", kw "WRITE"] =
      some ([.readOnly [kw "READ", kw "ONLY"]], [kw "READ", kw "WRITE"]) ∧
    (match Tcl.parseStmt g 100 50 [kw "START", kw "TRANSACTION", kw "READ", kw "ONLY", kw "READ", kw "WRITE"] with
     | .ok (s, []) => s.showText == some (str "START TRANSACTION READ ONLY, READ WRITE")
     | _ => false) = true := by decide +kernel

/-- **the mode loop is not `parse_comma_separated`** (2): with `trailing_commas` ON, `START TRANSACTION READ ONLY,`
is an error (the list model over the same element parser accepts `READ ONLY,` at the end of input), while the
SET value list of the same configuration accepts its trailing comma -/
theorem modes_trailing_comma_rejected :
    (match Tcl.parseStmt (g.withTrailing true) 100 50 [kw "START", kw "TRANSACTION", kw "READ", kw "ONLY", cm] with
     | .error (.syntax _) => true
     | _ => false) = true ∧
    commaSep listClass true (asOpt modeElem) 10 [kw "READ", kw "ONLY", cm] = some ([.readOnly [kw "READ", kw "ONLY"]], []) ∧
    (match Tcl.parseStmt (g.withTrailing true) 100 50 [kw "SET", wd "a", .sym .Eq, num "1", cm] with
     | .ok (_, []) => true
     | _ => false) = true := by decide +kernel

/-- where every mode but the last is followed by a comma, loop and list model agree -/
theorem modes_with_commas_witness :
    (match modesLoop 10 false [kw "READ", kw "ONLY", cm, kw "ISOLATION", kw "LEVEL", kw "READ", kw "COMMITTED"],
           commaSep listClass false (asOpt modeElem) 10 [kw "READ", kw "ONLY", cm, kw "ISOLATION", kw "LEVEL", kw "READ", kw "COMMITTED"] with
     | .ok (ms, []), some (ms', []) => ms.map (·.1) == ms' && ms.length == 2
     | _, _ => false) = true := by decide +kernel
end Witnesses

/-- The full property (not proved: decided on the real code by the trailing-comma oracle): every list of every
statement kind treats a trailing comma as a no-op under the option. -/
def FullStatement {α : Type} (elem : List Tok → Option (α × List Tok)) : Prop :=
  ∀ (es : List (List Tok × α)) (tail : List Tok) (n : Nat), es ≠ [] → es.length ≤ n → EndTail listClass tail →
    (∀ e ∈ es, elem e.1 = some (e.2, [])) →
    commaSep listClass true elem n (joinWith (.sym .Comma) (es.map (·.1)) ++ .sym .Comma :: tail) = some (es.map (·.2), tail)

end SqlVerif.Props.C13Tcl

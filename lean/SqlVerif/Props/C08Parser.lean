import SqlVerif.Lemmas.CursorKwLemmas
import SqlVerif.Props.C08
/-!
# C08, parser half — keyword tests go through the `keyword` field, never through the spelling

`Model/CursorKw.lean`: word tokens carry `(value, quote, kw)`; `Sim R` relates two programs over
the cursor API that are the same up to the spelling of the unquoted keyword words they are handed;
`KwBlind R p := Sim R p p`.  The theorems hold for all such programs, all token vectors, all start
indices.

Tie: stream `kwhelpers` (real `parse_keyword`, `parse_keywords`, `parse_one_of_keywords`,
`expect_keyword`, `expect_keywords`, `consume_token` on token vectors with table keywords in random
capitalisation, against these helper programs under `Cursor.runC`); the meta-step "every parse
function is `KwBlind`" is the translator's inventory of parser code that reads `w.value` /
`to_string()` of a word (text_compare, make_word_uses, word-value branches).
-/
namespace SqlVerif.Props.C08Parser
open SqlVerif.Cursor SqlVerif.CursorKw SqlVerif.Keywords

variable {α : Type}

/-- **case_blind.** Two token vectors that differ only in the spelling of unquoted keyword words
(same keyword, same quote, same locations) give, for every keyword-blind program, from every index:
values related by `R` (equal up to copied spellings) at the same final index, or the same error
message at the same location, or both a panic. -/
theorem case_blind (R : α → α → Prop) (p : Prog KTok α) (hp : KwBlind R p)
    (T T' : List (TL KTok)) (hT : Respelled T T') (i : Nat) (regs : Nat → Nat) (log : List Loc) :
    RelK R (runC KTok.isWs p ⟨T, i⟩ regs log) (runC KTok.isWs p ⟨T', i⟩ regs log) :=
  runC_sim R hp hT i regs log

/-- accepted and rejected alike -/
theorem case_blind_accepts (R : α → α → Prop) (p : Prog KTok α) (hp : KwBlind R p)
    (T T' : List (TL KTok)) (hT : Respelled T T') (a : α) (j : Nat)
    (hok : runC KTok.isWs p ⟨T, 0⟩ (fun _ => 0) [] = .ok a j) :
    ∃ b, R a b ∧ runC KTok.isWs p ⟨T', 0⟩ (fun _ => 0) [] = .ok b j := by
  have := case_blind R p hp T T' hT 0 (fun _ => 0) []
  rw [hok] at this
  cases hr : runC KTok.isWs p ⟨T', 0⟩ (fun _ => 0) [] with
  | ok b j' => rw [hr] at this; exact ⟨b, this.1, by rw [this.2]⟩
  | err m l => rw [hr] at this; simp [RelK] at this
  | panic => rw [hr] at this; simp [RelK] at this

theorem case_blind_rejects (R : α → α → Prop) (p : Prog KTok α) (hp : KwBlind R p)
    (T T' : List (TL KTok)) (hT : Respelled T T') (m : Nat) (l : Loc)
    (herr : runC KTok.isWs p ⟨T, 0⟩ (fun _ => 0) [] = .err m l) :
    runC KTok.isWs p ⟨T', 0⟩ (fun _ => 0) [] = .err m l := by
  have := case_blind R p hp T T' hT 0 (fun _ => 0) []
  rw [herr] at this
  cases hr : runC KTok.isWs p ⟨T', 0⟩ (fun _ => 0) [] with
  | ok b j' => rw [hr] at this; simp [RelK] at this
  | err m' l' => rw [hr] at this; simp only [RelK] at this; rw [this.1, this.2]
  | panic => rw [hr] at this; simp [RelK] at this

/-- when no spelling is copied into the result (`R` is equality): the same tree, the same index, the
same error — the same outcome -/
theorem case_blind_same_tree (p : Prog KTok α) (hp : KwBlind Eq p)
    (T T' : List (TL KTok)) (hT : Respelled T T') (i : Nat) (regs : Nat → Nat) (log : List Loc) :
    runC KTok.isWs p ⟨T, i⟩ regs log = runC KTok.isWs p ⟨T', i⟩ regs log := by
  have := case_blind Eq p hp T T' hT i regs log
  cases h1 : runC KTok.isWs p ⟨T, i⟩ regs log <;> cases h2 : runC KTok.isWs p ⟨T', i⟩ regs log <;>
    simp_all [RelK]

/-! ### the helpers are keyword-blind (congruence form: related continuations give related programs) -/

theorem peekKeyword_sim (R : α → α → Prop) (n : Nat) (K : Option Nat) (k k' : Bool → Prog KTok α)
    (hk : ∀ b, Sim R (k b) (k' b)) : Sim R (peekKeyword n K k) (peekKeyword n K k') :=
  .peek _ _ _ fun t t' h => by rw [isKw_respell h]; exact hk _

theorem parseKeyword_sim (R : α → α → Prop) (K : Option Nat) (k k' : Bool → Prog KTok α)
    (hk : ∀ b, Sim R (k b) (k' b)) : Sim R (parseKeyword K k) (parseKeyword K k') :=
  .peek _ _ _ fun t t' h => by
    rw [isKw_respell h]
    split
    · exact .next _ _ fun _ _ _ => hk true
    · exact hk false

theorem parseKeywordsLoop_sim (R : α → α → Prop) (slot : Nat) (Ks : List (Option Nat))
    (k k' : Bool → Prog KTok α) (hk : ∀ b, Sim R (k b) (k' b)) :
    Sim R (parseKeywordsLoop slot Ks k) (parseKeywordsLoop slot Ks k') := by
  induction Ks with
  | nil => exact hk true
  | cons K rest ih =>
    refine parseKeyword_sim R K _ _ fun b => ?_
    cases b
    · exact .restore _ _ _ (hk false)
    · exact ih

theorem parseKeywords_sim (R : α → α → Prop) (slot : Nat) (Ks : List (Option Nat))
    (k k' : Bool → Prog KTok α) (hk : ∀ b, Sim R (k b) (k' b)) :
    Sim R (parseKeywords slot Ks k) (parseKeywords slot Ks k') :=
  .save _ _ _ (parseKeywordsLoop_sim R slot Ks k k' hk)

theorem parseOneOfKeywords_sim (R : α → α → Prop) (Ks : List (Option Nat))
    (k k' : Option (Option Nat) → Prog KTok α) (hk : ∀ b, Sim R (k b) (k' b)) :
    Sim R (parseOneOfKeywords Ks k) (parseOneOfKeywords Ks k') :=
  .peek _ _ _ fun t t' h => by
    cases t with
    | none => cases t' <;> simp_all [optRespell]
    | some a =>
      cases t' with
      | none => simp_all [optRespell]
      | some b =>
        cases a <;> cases b <;> simp_all [optRespell, KTok.respell]
        split
        · exact .next _ _ fun _ _ _ => hk _
        · exact hk none

theorem expectKeyword_sim (R : α → α → Prop) (h : Nat) (K : Option Nat) (k k' : Prog KTok α)
    (hk : Sim R k k') : Sim R (expectKeyword h K k) (expectKeyword h K k') :=
  parseKeyword_sim R K _ _ fun b => by
    cases b
    · exact .peek _ _ _ fun _ _ _ => .err _ _
    · exact hk

theorem expectKeywords_sim (R : α → α → Prop) (Ks : List (Option Nat)) :
    ∀ (h : Nat) (k k' : Prog KTok α), Sim R k k' → Sim R (expectKeywords h Ks k) (expectKeywords h Ks k') := by
  induction Ks with
  | nil => intro h k k' hk; exact hk
  | cons K rest ih => intro h k k' hk; exact expectKeyword_sim R h K _ _ (ih (h + 2) k k' hk)

/-- **helpers_are_kw_blind.** `parse_keyword`, `parse_keywords`, `parse_one_of_keywords`,
`expect_keyword`, `expect_keywords` and the peek test `Token::Word(w) if w.keyword == K` are
keyword-blind whenever what follows them is. -/
theorem helpers_are_kw_blind (R : α → α → Prop) :
    (∀ K (k : Bool → Prog KTok α), (∀ b, KwBlind R (k b)) → KwBlind R (parseKeyword K k)) ∧
    (∀ slot Ks (k : Bool → Prog KTok α), (∀ b, KwBlind R (k b)) → KwBlind R (parseKeywords slot Ks k)) ∧
    (∀ Ks (k : Option (Option Nat) → Prog KTok α), (∀ b, KwBlind R (k b)) → KwBlind R (parseOneOfKeywords Ks k)) ∧
    (∀ h K (k : Prog KTok α), KwBlind R k → KwBlind R (expectKeyword h K k)) ∧
    (∀ h Ks (k : Prog KTok α), KwBlind R k → KwBlind R (expectKeywords h Ks k)) ∧
    (∀ n K (k : Bool → Prog KTok α), (∀ b, KwBlind R (k b)) → KwBlind R (peekKeyword n K k)) :=
  ⟨fun K k hk => parseKeyword_sim R K k k hk,
   fun slot Ks k hk => parseKeywords_sim R slot Ks k k hk,
   fun Ks k hk => parseOneOfKeywords_sim R Ks k k hk,
   fun h K k hk => expectKeyword_sim R h K k k hk,
   fun h Ks k hk => expectKeywords_sim R Ks h k k hk,
   fun n K k hk => peekKeyword_sim R n K k k hk⟩

/-- a word may be COPIED into the result (`parse_identifier`, `to_ident`): blind as long as what
follows treats respelled copies alike -/
theorem takeWord_kw_blind (R : α → α → Prop) (h : Nat) (k : KTok → Prog KTok α)
    (hk : ∀ a b, a.respell b → Sim R (k a) (k b)) : KwBlind R (takeWord h k) :=
  .next _ _ fun t t' hr => by
    match t, t', hr with
    | none, none, _ => exact .err _ _
    | some .ws, some .ws, _ => exact .err _ _
    | some (.other _), some (.other _), _ => exact .err _ _
    | some (.word v q kw), some (.word v' q' kw'), hr => exact hk _ _ hr
    | some .ws, some (.word ..), hr | some .ws, some (.other _), hr
    | some (.other _), some .ws, hr | some (.other _), some (.word ..), hr
    | some (.word ..), some .ws, hr | some (.word ..), some (.other _), hr => exact absurd hr (by simp [optRespell, KTok.respell])
    | none, some _, hr | some _, none, hr => exact absurd hr (by simp [optRespell])

/-- `consume_token(expected)` compares whole tokens; it is keyword-blind exactly for expected tokens
whose spelling cannot vary: anything but an unquoted keyword word -/
theorem consumeTok_kw_blind (R : α → α → Prop) (expected : Option KTok)
    (hexp : ∀ v kw, expected = some (.word v none kw) → kw = none)
    (k : Bool → Prog KTok α) (hk : ∀ b, KwBlind R (k b)) : KwBlind R (consumeTok expected k) :=
  .peek _ _ _ fun t t' hr => by
    have : (t = expected) ↔ (t' = expected) := by
      cases t with
      | none => cases t' <;> simp_all [optRespell]
      | some a =>
        cases t' with
        | none => simp_all [optRespell]
        | some b =>
          cases a <;> cases b <;> simp_all [optRespell, KTok.respell]
          rename_i v q kw v' q' kw'
          rcases hr with ⟨rfl, rfl, hv | ⟨rfl, hkw⟩⟩
          · simp [hv]
          · constructor
            · intro e; exact absurd (hexp _ _ e.symm) hkw
            · intro e; exact absurd (hexp _ _ e.symm) hkw
    by_cases h1 : t = expected
    · simp only [h1, this.1 h1, ↓reduceIte]; exact .next _ _ fun _ _ _ => hk true
    · have h2 : ¬ t' = expected := fun e => h1 (this.2 e)
      simp only [h1, h2, ↓reduceIte]; exact hk false

/-- … and NOT for an unquoted keyword word: `consume_token(&Token::Word(SELECT))` would tell
`SELECT` from `select` (the inventory must show that the parser has no such call) -/
theorem consume_keyword_word_not_blind :
    ¬ KwBlind Eq (consumeTok (some (.word [83] none (some 1))) fun b => (.ret b : Prog KTok Bool)) := by
  intro h
  have := case_blind_same_tree _ h [⟨.word [83] none (some 1), ⟨1, 1⟩⟩] [⟨.word [115] none (some 1), ⟨1, 1⟩⟩]
    (.cons _ _ _ _ rfl (by simp [KTok.respell]) .nil) 0 (fun _ => 0) []
  revert this
  decide

/-! ### with the lexer half: capitalisation of keywords in the TEXT is irrelevant -/

/-- a token before keyword lookup: words as spelled in the text -/
inductive RawTok where
  | ws
  | word (w : W) (quote : Option Nat)
  | other (id : Nat)

/-- `Token::make_word` on the words (table and upper-casing as in `Props.C08`) -/
def lex (up : W → W) : RawTok → KTok
  | .ws => .ws
  | .other n => .other n
  | .word w q =>
    let m := makeWord SqlVerif.Gen.keywords up w q
    .word m.value m.quote m.keyword

/-- the two texts differ only in the capitalisation of (unquoted) keywords: same upper-casing, and
the word is in the table -/
def CaseOnly (up : W → W) : RawTok → RawTok → Prop
  | .ws, .ws => True
  | .other a, .other b => a = b
  | .word w q, .word w' q' =>
    q = q' ∧ (w = w' ∨ (q = none ∧ up w = up w' ∧ (makeWord SqlVerif.Gen.keywords up w none).keyword ≠ none))
  | _, _ => False

inductive CaseOnlyL (up : W → W) : List (TL RawTok) → List (TL RawTok) → Prop
  | nil : CaseOnlyL up [] []
  | cons (t t' : TL RawTok) (l l' : List (TL RawTok)) :
      t.loc = t'.loc → CaseOnly up t.tok t'.tok → CaseOnlyL up l l' → CaseOnlyL up (t :: l) (t' :: l')

def lexAll (up : W → W) (l : List (TL RawTok)) : List (TL KTok) := l.map fun t => ⟨lex up t.tok, t.loc⟩

theorem lex_respell (up : W → W) (a b : RawTok) (h : CaseOnly up a b) : (lex up a).respell (lex up b) := by
  cases a <;> cases b <;> simp_all [CaseOnly, lex, KTok.respell]
  rename_i w q w' q'
  rcases h with ⟨rfl, rfl | ⟨rfl, hu, hk⟩⟩
  · simp [makeWord]
  · have := SqlVerif.Props.C08.lookup_case_insensitive up w w' none hu
    refine ⟨by simp [makeWord], this, Or.inr ⟨by simp [makeWord], hk⟩⟩

theorem lexAll_respelled (up : W → W) (l l' : List (TL RawTok)) (h : CaseOnlyL up l l') :
    Respelled (lexAll up l) (lexAll up l') := by
  induction h with
  | nil => exact .nil
  | cons t t' l l' hl ht _ ih => exact .cons _ _ _ _ hl (lex_respell up _ _ ht) ih

/-- **keyword_case_irrelevant.** For every upper-casing function, every keyword-blind program and
two texts whose words differ only in the capitalisation of table keywords: the same outcome up to
the copied spellings (with `lookup_case_insensitive` of the lexer half). -/
theorem keyword_case_irrelevant (up : W → W) (R : α → α → Prop) (p : Prog KTok α) (hp : KwBlind R p)
    (l l' : List (TL RawTok)) (h : CaseOnlyL up l l') :
    RelK R (runC KTok.isWs p ⟨lexAll up l, 0⟩ (fun _ => 0) []) (runC KTok.isWs p ⟨lexAll up l', 0⟩ (fun _ => 0) []) :=
  case_blind R p hp _ _ (lexAll_respelled up l l' h) 0 _ _

/-! ### non-vacuity -/
section Examples

/-- `SELECT <ident> FROM` with the identifier copied into the result; keywords 1 = SELECT, 2 = FROM -/
private def selFrom : Prog KTok (Option KTok) :=
  expectKeyword 0 (some 1) (takeWord 2 fun w => expectKeyword 3 (some 2) (.ret (some w)))

private def mk (l : List KTok) : List (TL KTok) := l.zipIdx.map fun (t, i) => ⟨t, ⟨1, i + 1⟩⟩

private theorem selFrom_blind : KwBlind (fun a b => optRespell a b) selFrom :=
  expectKeyword_sim _ _ _ _ _ (takeWord_kw_blind _ _ _ fun a b hab =>
    expectKeyword_sim _ _ _ _ _ (.ret _ _ (by simpa [optRespell] using hab)))

-- `SELECT x FROM` and `select x fRoM`: the same tree
example : runC KTok.isWs selFrom ⟨mk [.word [83,69] none (some 1), .ws, .word [120] none none, .word [70] none (some 2)], 0⟩ (fun _ => 0) []
    = .ok (some (.word [120] none none)) 4 := by decide
example : runC KTok.isWs selFrom ⟨mk [.word [115,101] none (some 1), .ws, .word [120] none none, .word [102] none (some 2)], 0⟩ (fun _ => 0) []
    = .ok (some (.word [120] none none)) 4 := by decide
-- a keyword used as the identifier: `SELECT KEY FROM` / `select key from` differ in the copied spelling only
example : runC KTok.isWs selFrom ⟨mk [.word [83] none (some 1), .word [75] none (some 7), .word [70] none (some 2)], 0⟩ (fun _ => 0) []
    = .ok (some (.word [75] none (some 7))) 3 := by decide
-- rejected alike, at the same token
example : runC KTok.isWs selFrom ⟨mk [.word [83] none (some 1), .word [120] none none, .other 5], 0⟩ (fun _ => 0) []
    = .err 3 ⟨1, 3⟩ := by decide
-- a QUOTED "select" is not the keyword
example : runC KTok.isWs selFrom ⟨mk [.word [83] (some 34) none], 0⟩ (fun _ => 0) [] = .err 3 ⟨1, 1⟩ := by decide
-- `parse_keywords` restores the index
example : runC KTok.isWs (parseKeywords 0 [some 1, some 2] fun b => (.ret b : Prog KTok Bool))
    ⟨mk [.word [83] none (some 1), .ws, .word [120] none none], 0⟩ (fun _ => 0) [] = .ok false 0 := by decide

end Examples

/-- The full parser half: every parse function of the crate is `KwBlind`.  Not a theorem: it is the
inventory obligation (no branch on `w.value`/`to_string()` of an unquoted keyword word) plus the
case-flip oracle. -/
def FullStatement : Prop :=
  ∀ (R : α → α → Prop) (p : Prog KTok α) (T T' : List (TL KTok)), KwBlind R p → Respelled T T' →
    RelK R (runC KTok.isWs p ⟨T, 0⟩ (fun _ => 0) []) (runC KTok.isWs p ⟨T', 0⟩ (fun _ => 0) [])

theorem full_statement_model : @FullStatement α := fun R p T T' hp hT => case_blind R p hp T T' hT 0 _ _

end SqlVerif.Props.C08Parser

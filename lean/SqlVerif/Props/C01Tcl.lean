import SqlVerif.Lemmas.TclFix
import SqlVerif.Props.C11Tcl
import SqlVerif.Props.C01Ddl
/-!
# C01 on the third statement fragment — parse → print → parse

`Model/Tcl.lean` + `Model/TclPrint.lean` (stream `tcl`: S-expression of the real tree and the real
`to_string()` text against the model, all 13 dialects): transaction control (`START TRANSACTION`, `BEGIN`,
`COMMIT`, `END`, `ROLLBACK`, `SAVEPOINT`, `RELEASE`), `SET …`, `USE`, `DISCARD`, `DEALLOCATE`, `CLOSE`, `ASSERT`,
every statement of the first two fragments, the dispatcher `parseStmt` and the script loop `parseScript`.

What is proved for EVERY configuration record, fuel, recursion limit and token list:

* `tcl_reparse_fixpoint_partial` (`tcl_reparse_fixpoint_normal` in the form of the property) — **the
  statement-level fixpoint**: `parseStmt ts = ok (s, [])`, `s.fixOk`, `LexOk ts` ⟹
  `parseStmt s.showToks = ok (s.norm, [])` with the SAME configuration, fuel and limit, and
  `s.norm.sexp = s.sexp` (the re-parsed tree holds the same AST).  `s.norm` is `s` with every stored token
  replaced by the printed one; `Stmt.fixOk` (decidable) is: for a statement of the first two fragments the
  conditions of `Props/C01Ddl.lean` (`printableQ`, `normal`); for `ASSERT` both operands printable; for
  `SET [LOCAL] TIME ZONE e` the value printable and its printed form not beginning with `=` / `TO`; for
  `SET variable = values` see below; NOTHING for the
  other kinds (`SET NAMES` included) — the printer's rewrites there (`BEGIN WORK` → `BEGIN TRANSACTION`, `END` → `COMMIT`, dropped noise
  words and `AND NO CHAIN`, `TO a` → `TO SAVEPOINT a`, `RELEASE a` → `RELEASE SAVEPOINT a`, mode commas inserted,
  `SET [LOCAL] CHARACTERISTICS …` → `SET SESSION CHARACTERISTICS …`, `DISCARD TEMPORARY` → `DISCARD TEMP`, keywords
  re-spelled) are all proved to re-parse to the same AST;
* `tcl_reparse_fixpoint_tx` — for the kinds without operand expression (`Stmt.fixKind`) not even `LexOk` is needed:
  the proof evaluates the parser on the printed tokens (`Lemmas/TclFixTx.lean`, `TclFixMisc.lean`);
* `tcl_script_fixpoint_partial` — the `;`-joined print of a script of such statements (of all three fragments)
  re-parses, through the real loop model, to the list of the normal forms.

Method.  The token image `qc` of `Lemmas/QuerySim.lean` forgets the spelling of keyword words, and `parse_set`
tests variable names by TEXT (`TIMEZONE`, `TRANSACTION` are keywords), so the simulation argument of
`Props/C01Ddl.lean` does not carry over to the dispatcher of this fragment; instead the parser is evaluated on
the explicit printed token lists, expression operands are re-parsed through the simulation of the expression layer
(`reparse_one`), and statements of the first two fragments go through `Ddl.stmt_reparse_sub` and the inversion of
the dispatcher (`Lemmas/TclFixDdl.lean`).

`SET variable = values` (`Lemmas/TclFixVar.lean`, `TclFixTuple.lean`) is covered for one-name, `TIME ZONE` and
parenthesised-tuple targets with any number of printable values and every modifier, under `Stmt.varNormal` /
`Stmt.tupleNormal`: no trailing comma after the values (one in the tuple of variables is fine), and — found while proving
it — when the modifier is `SESSION`, which the printer drops, a one-name variable must not begin with the word
SESSION / LOCAL / HIVEVAR:
`set_session_modifier_not_fixpoint`: `SET SESSION LOCAL = 1` is accepted (variable `LOCAL`) and prints `SET LOCAL = 1`,
which is rejected (same answers from the real parser).

`SET NAMES charset [COLLATE collation]` needs no side condition (it is a `fixKind` statement, `Lemmas/TclFixMisc.lean`
`fixMisc_setNames`): `Display` writes a name that is one plain non-keyword word (ASCII letter or `_`, then ASCII letters,
digits, `_`; not in the keyword table) as it is and every other name as a single-quoted string
(`escape_single_quote_string`), so whatever token the name was read from — word, quoted word, '…' or "…" string — the
printed token is ONE unquoted non-keyword word or ONE '…' string with the same text, which `parse_literal_string` reads
back.  `set_names_fixpoint`: `SET NAMES 'a b'`, `''`, `'select'`, `'utf8 COLLATE x'` (all four were rejected or re-parsed
to another statement while the names were written raw) print themselves and re-parse to the same AST.  The statement is
about printed TOKENS, like every theorem here; that the printed text `'…'` lexes back to the string it was made of is
the business of the lexer / escaping properties (under a dialect with backslash escapes a name that contains a
backslash does not: `escape_single_quote_string` does not double backslashes).
-/
namespace SqlVerif.Props.C01Tcl
open SqlVerif.Pratt SqlVerif.Query SqlVerif.Dml SqlVerif.Ddl SqlVerif.Tcl SqlVerif.Stmts SqlVerif.Gen
open SqlVerif.Props.C01Query (LexOk)

/-- **the statement-level fixpoint**: if the parser accepts `ts` completely with tree `s`, `s` satisfies the
decidable side condition `fixOk` and `ts` is lexer-like, then parsing the printed tokens — with the same
configuration, fuel and limit — gives `s.norm`, the tree itself with every stored token replaced by the printed
one, and `s.norm` holds the same AST as `s` (`sexp`). -/
theorem tcl_reparse_fixpoint_partial (c : TCfg) (fuel limit : Nat) (ts : List Tok) (s : Tcl.Stmt)
    (h : Tcl.parseStmt c fuel limit ts = .ok (s, [])) (hk : s.fixOk = true) (ht : LexOk ts) :
    Tcl.parseStmt c fuel limit s.showToks = .ok (s.norm, []) ∧ s.norm.sexp = s.sexp :=
  ⟨Tcl.stmt_reparse c fuel limit ts s h hk ht, Tcl.stmt_reparse_sexp c fuel limit ts s [] h⟩

/-- the statement-level fixpoint in the form of the property, for a shape predicate; PROVED for
`normalShape := Tcl.Stmt.fixOk` and lexer-like input -/
def TclReparseFixpoint (normalShape : Tcl.Stmt → Bool) : Prop :=
  ∀ (c : TCfg) (fuel limit : Nat) (ts : List Tok) (s : Tcl.Stmt),
    Tcl.parseStmt c fuel limit ts = .ok (s, []) → LexOk ts → normalShape s = true →
    ∃ s', Tcl.parseStmt c fuel limit s.showToks = .ok (s', []) ∧ s'.sexp = s.sexp

theorem tcl_reparse_fixpoint_normal : TclReparseFixpoint Tcl.Stmt.fixOk := by
  intro c fuel limit ts s h ht hk
  exact ⟨s.norm, tcl_reparse_fixpoint_partial c fuel limit ts s h hk ht⟩

/-- a `fixKind` statement satisfies `fixOk` -/
theorem fixKind_fixOk (s : Tcl.Stmt) (hk : s.fixKind = true) : s.fixOk = true := by
  cases s <;> first | rfl | (simp [Tcl.Stmt.fixKind] at hk)

/-- **no side condition on the input** for the statement kinds without an expression operand (transaction
control, `SET ROLE`, `SET NAMES …`, `SET TRANSACTION` / `SET SESSION CHARACTERISTICS`, `USE`, `DISCARD`,
`DEALLOCATE`, `CLOSE`): whatever the tokens, the printed statement re-parses to the normal form -/
theorem tcl_reparse_fixpoint_tx (c : TCfg) (fuel limit : Nat) (ts : List Tok) (s : Tcl.Stmt) (rest : List Tok)
    (h : Tcl.parseStmt c fuel limit ts = .ok (s, rest)) (hk : s.fixKind = true) :
    Tcl.parseStmt c fuel limit s.showToks = .ok (s.norm, []) ∧ s.norm.sexp = s.sexp :=
  ⟨Tcl.stmt_reparse_fixKind c fuel limit ts s rest h hk, Tcl.stmt_reparse_sexp c fuel limit ts s rest h⟩

-- ------------------------------------------------------------------ scripts
/-- the printed script at token level: statements joined by `;` -/
def printScript : List Tcl.Stmt → List Tok
  | [] => []
  | [s] => s.showToks
  | s :: r :: rest => s.showToks ++ semi :: printScript (r :: rest)

/-- script items: printed statement, expected tree, separator after it (`;` between statements) -/
def items : List (Tcl.Stmt × Tcl.Stmt) → List (List Tok × Tcl.Stmt × List Tok)
  | [] => []
  | [p] => [(p.1.showToks, p.2, [])]
  | p :: r :: rest => (p.1.showToks, p.2, [semi]) :: items (r :: rest)

theorem printScript_eq : ∀ ss : List (Tcl.Stmt × Tcl.Stmt),
    printScript (ss.map (·.1)) = script [] ((items ss).map fun it => (it.1, it.2.2)) := by
  intro ss
  induction ss with
  | nil => rfl
  | cons p rest ih =>
    cases rest with
    | nil => simp [printScript, items, script]
    | cons r rest2 =>
      simp only [List.map_cons, printScript, items, script, List.nil_append] at ih ⊢
      rw [ih]
      cases rest2 <;> simp [items, script]

theorem items_trees : ∀ ss : List (Tcl.Stmt × Tcl.Stmt), (items ss).map (·.2.1) = ss.map (·.2) := by
  intro ss
  induction ss with
  | nil => rfl
  | cons p rest ih =>
    cases rest with
    | nil => rfl
    | cons r rest2 => simp only [items, List.map_cons] at ih ⊢; rw [ih]

theorem items_mem : ∀ (ss : List (Tcl.Stmt × Tcl.Stmt)) (it : List Tok × Tcl.Stmt × List Tok), it ∈ items ss →
    (∃ p ∈ ss, it.1 = p.1.showToks ∧ it.2.1 = p.2) ∧ (it.2.2 = [] ∨ it.2.2 = [semi]) := by
  intro ss
  induction ss with
  | nil => intro it h; simp [items] at h
  | cons p rest ih =>
    intro it h
    cases rest with
    | nil =>
      simp [items] at h; subst h
      exact ⟨⟨p, by simp, rfl, rfl⟩, Or.inl rfl⟩
    | cons r rest2 =>
      simp only [items, List.mem_cons] at h
      rcases h with rfl | h
      · exact ⟨⟨p, by simp, rfl, rfl⟩, Or.inr rfl⟩
      · obtain ⟨⟨q, hq, h1, h2⟩, h3⟩ := ih it (by simpa [items] using h)
        exact ⟨⟨q, by simp at hq ⊢; exact Or.inr hq, h1, h2⟩, h3⟩

theorem items_inner : ∀ ss : List (Tcl.Stmt × Tcl.Stmt), InnerSepsNonEmpty ((items ss).map fun it => (it.1, it.2.2)) := by
  intro ss
  induction ss with
  | nil => trivial
  | cons p rest ih =>
    cases rest with
    | nil => trivial
    | cons r rest2 =>
      cases rest2 with
      | nil => exact ⟨by simp, trivial⟩
      | cons r2 rest3 => exact ⟨by simp, by simpa [items] using ih⟩

/-- printed statements that re-parse one by one re-parse as a script, to the same trees in the same order -/
theorem tcl_script_reparse_partial (c : TCfg) (fuel limit : Nat) (ss : List (Tcl.Stmt × Tcl.Stmt))
    (h : ∀ p ∈ ss, Tcl.parseStmt c fuel limit p.1.showToks = .ok (p.2, [])) :
    Tcl.parseScript c fuel limit (printScript (ss.map (·.1))) = .ok (ss.map (·.2)) := by
  rw [printScript_eq, ← items_trees]
  refine SqlVerif.Props.C11Tcl.script_concat_tcl c fuel limit (items ss) [] (by intro t ht; cases ht) ?_ ?_ (items_inner ss)
  · intro it hit t ht
    rcases (items_mem ss it hit).2 with h0 | h0
    · rw [h0] at ht; cases ht
    · rw [h0] at ht; simp at ht; subst ht; rfl
  · intro it hit
    obtain ⟨⟨p, hp, h1, h2⟩, _⟩ := items_mem ss it hit
    rw [h1, h2]; exact h p hp

/-- **script level**: statements of all three fragments accepted one by one (each `fixOk`, lexer-like) print to a
script `print s₁ ; print s₂ ; …` that the statements loop parses back to the normal forms `[s₁.norm, …]`, which
hold the same ASTs -/
theorem tcl_script_fixpoint_partial (c : TCfg) (fuel limit : Nat) (srcs : List (List Tok × Tcl.Stmt))
    (h : ∀ p ∈ srcs, Tcl.parseStmt c fuel limit p.1 = .ok (p.2, []) ∧ LexOk p.1 ∧ p.2.fixOk = true) :
    Tcl.parseScript c fuel limit (printScript (srcs.map (·.2))) = .ok (srcs.map (·.2.norm)) ∧
      (srcs.map (·.2.norm.sexp)) = srcs.map (·.2.sexp) := by
  have := tcl_script_reparse_partial c fuel limit (srcs.map fun p => (p.2, p.2.norm)) (by
    intro p hp
    simp only [List.mem_map] at hp
    obtain ⟨s, hs, rfl⟩ := hp
    obtain ⟨h1, h2, h3⟩ := h s hs
    exact (tcl_reparse_fixpoint_partial c fuel limit s.1 s.2 h1 h3 h2).1)
  simp only [List.map_map, Function.comp_def] at this
  refine ⟨this, ?_⟩
  apply List.map_congr_left
  intro p hp
  exact Tcl.stmt_reparse_sexp c fuel limit p.1 p.2 [] (h p hp).1

-- ------------------------------------------------------------------ instances
section Examples
def g : TCfg := TCfg.ofRow dialect_generic
def my : TCfg := TCfg.ofRow dialect_mysql
def lite : TCfg := TCfg.ofRow dialect_sqlite
def wd (s : String) : Tok := .word (str s) none none
def kw (s : String) : Tok := .word (str s) none (some (kwIndex s))
def num (s : String) : Tok := .number (str s) false
def cm : Tok := .sym .Comma

/-- `START TRANSACTION READ ONLY ISOLATION LEVEL SERIALIZABLE` (no comma in the source) -/
def sampleS : List Tok :=
  [kw "START", kw "TRANSACTION", kw "READ", kw "ONLY", kw "ISOLATION", kw "LEVEL", kw "SERIALIZABLE"]
/-- `ROLLBACK WORK AND NO CHAIN TO sp1` -/
def sampleR : List Tok := [kw "ROLLBACK", kw "WORK", kw "AND", kw "NO", kw "CHAIN", kw "TO", wd "sp1"]
/-- `SET LOCAL CHARACTERISTICS AS TRANSACTION READ WRITE` -/
def sampleC : List Tok := [kw "SET", kw "LOCAL", wd "CHARACTERISTICS", kw "AS", kw "TRANSACTION", kw "READ", kw "WRITE"]
/-- `SET TIMEZONE 'UTC'` -/
def sampleZ : List Tok := [kw "SET", kw "TIMEZONE", .sqs (str "UTC")]
/-- `SET SESSION a.b TO 1, 'x', c + 2` -/
def sampleX : List Tok :=
  [kw "SET", kw "SESSION", wd "a", .sym .Period, wd "b", kw "TO", num "1", cm, .sqs (str "x"), cm, wd "c", .sym .Plus, num "2"]
/-- `SET LOCAL (a, b,) = (1, 'x')` (Snowflake, trailing commas on) -/
def sampleT : List Tok :=
  [kw "SET", kw "LOCAL", .sym .LParen, wd "a", cm, wd "b", cm, .sym .RParen, .sym .Eq, .sym .LParen, num "1", cm, .sqs (str "x"),
   .sym .RParen]
/-- `SET SESSION names "utf8" COLLATE 'a b'` (Generic: `"utf8"` is a quoted word) -/
def sampleN : List Tok := [kw "SET", kw "SESSION", wd "names", .word (str "utf8") (some 34) none, kw "COLLATE", .sqs (str "a b")]
/-- `ASSERT a > 0 AS 'm'` -/
def sampleA : List Tok := [kw "ASSERT", wd "a", .sym .Gt, num "0", kw "AS", .sqs (str "m")]
/-- `CREATE VIEW v AS SELECT 1` (second fragment) -/
def sampleV : List Tok := [kw "CREATE", kw "VIEW", wd "v", kw "AS", kw "SELECT", num "1"]

/-- hypotheses and conclusion of `tcl_reparse_fixpoint_partial` on a sample:
(accepted, fixOk, lexer-like, the tree is NOT its normal form, re-parse gives the norm, printed text) -/
def hyps (c : TCfg) (ts : List Tok) (text : String) : Option (Bool × Bool × Bool × Bool × Bool) :=
  match Tcl.parseStmt c 400 50 ts with
  | .ok (s, []) =>
    some (s.fixOk, ts.all tokOk, s == s.norm,
      (match Tcl.parseStmt c 400 50 s.showToks with | .ok (s', []) => s' == s.norm | _ => false),
      s.showText == some (str text))
  | _ => none

theorem sampleS_hyps : hyps g sampleS "START TRANSACTION READ ONLY, ISOLATION LEVEL SERIALIZABLE" = some (true, true, false, true, true) := by decide +kernel
theorem sampleR_hyps : hyps g sampleR "ROLLBACK TO SAVEPOINT sp1" = some (true, true, false, true, true) := by
  decide +kernel
theorem sampleC_hyps : hyps g sampleC "SET SESSION CHARACTERISTICS AS TRANSACTION READ WRITE" = some (true, true, false, true, true) := by decide +kernel
theorem sampleZ_hyps : hyps g sampleZ "SET TIME ZONE 'UTC'" = some (true, true, false, true, true) := by
  decide +kernel
theorem sampleX_hyps : hyps g sampleX "SET a.b = 1, 'x', c + 2" = some (true, true, false, true, true) := by
  decide +kernel
theorem sampleT_hyps : hyps ((TCfg.ofRow dialect_snowflake).withTrailing true) sampleT "SET LOCAL (a, b) = (1, 'x')" =
    some (true, true, false, true, true) := by decide +kernel
theorem sampleN_hyps : hyps g sampleN "SET NAMES utf8 COLLATE 'a b'" = some (true, true, false, true, true) := by
  decide +kernel
theorem sampleA_hyps : hyps g sampleA "ASSERT a > 0 AS 'm'" = some (true, true, true, true, true) := by
  decide +kernel
theorem sampleV_hyps : hyps g sampleV "CREATE VIEW v AS SELECT 1" = some (true, true, true, true, true) := by
  decide +kernel

/-- non-vacuity of the theorem itself: instantiated on `ROLLBACK WORK AND NO CHAIN TO sp1` -/
example : ∀ s, Tcl.parseStmt g 400 50 sampleR = .ok (s, []) → s.fixOk = true →
    Tcl.parseStmt g 400 50 s.showToks = .ok (s.norm, []) ∧ s.norm.sexp = s.sexp :=
  fun s h hk => tcl_reparse_fixpoint_partial g 400 50 sampleR s h hk (by decide +kernel)

/-- the script `BEGIN ; CREATE VIEW v AS SELECT 1 ; SET TIMEZONE 'UTC' ; END` (three fragments, END at top level):
printed `BEGIN TRANSACTION; CREATE VIEW v AS SELECT 1; SET TIME ZONE 'UTC'; COMMIT`, re-parsed by the loop to the
four normal forms -/
example :
    (match Tcl.parseStmt g 400 50 [kw "BEGIN"], Tcl.parseStmt g 400 50 sampleV, Tcl.parseStmt g 400 50 sampleZ,
           Tcl.parseStmt g 400 50 [kw "END"] with
     | .ok (a, []), .ok (b, []), .ok (z, []), .ok (e, []) =>
       (match Tcl.parseScript g 400 50 (printScript [a, b, z, e]) with
        | .ok l => l == [a.norm, b.norm, z.norm, e.norm]
        | _ => false) && e.showText == some (str "COMMIT") && a.showText == some (str "BEGIN TRANSACTION")
     | _, _, _, _ => false) = true := by decide +kernel

/-- **Deviation kept visible — a dropped `SESSION` exposes the variable name** (same answers from the real
parser): `SET SESSION LOCAL = 1` is accepted with the variable `LOCAL` and printed `SET LOCAL = 1`, which is rejected
(`LOCAL` is read as the modifier and `=` is no identifier); likewise `SET SESSION local.x TO 'a'` -/
theorem set_session_modifier_not_fixpoint :
    (match Tcl.parseStmt g 100 50 [kw "SET", kw "SESSION", kw "LOCAL", .sym .Eq, num "1"] with
     | .ok (s, []) =>
       s.showText == some (str "SET LOCAL = 1") && s.fixOk == false &&
         (match Tcl.parseStmt g 100 50 s.showToks with | .error (.syntax _) => true | _ => false)
     | _ => false) = true ∧
    (match Tcl.parseStmt g 100 50 [kw "SET", kw "SESSION", kw "LOCAL", .sym .Period, wd "x", kw "TO", .sqs (str "a")] with
     | .ok (s, []) =>
       s.showText == some (str "SET LOCAL.x = 'a'") &&
         (match Tcl.parseStmt g 100 50 s.showToks with | .error (.syntax _) => true | _ => false)
     | _ => false) = true := by decide +kernel

/-- a complete `SET NAMES` statement: it is a `fixKind` statement, prints `text`, and its printed tokens re-parse to
the normal form, which holds the same AST -/
def namesFix (c : TCfg) (ts : List Tok) (text : String) : Bool :=
  match Tcl.parseStmt c 100 50 ts with
  | .ok (s, []) =>
    s.fixKind && s.fixOk && s.showText == some (str text) &&
      (match Tcl.parseStmt c 100 50 s.showToks with
       | .ok (s', []) => s' == s.norm && s'.sexp == s.sexp
       | _ => false)
  | _ => false

/-- **`SET NAMES` is a fixpoint** (instances of `tcl_reparse_fixpoint_tx`; same printed texts from the real
`to_string()` in stream `tcl`, MySQL / Generic).  The four inputs that were rejected or re-parsed to another statement
while `Display` wrote the names raw: `SET NAMES 'a b'`, `SET NAMES ''`, `SET NAMES 'select'` print themselves;
`SET NAMES 'utf8 COLLATE x'` prints itself and keeps its tree (charset `utf8 COLLATE x`, no collation), which is NOT the
tree of `SET NAMES utf8 COLLATE x`.  Plain names lose their quotes, whatever they were (`'utf8'`, `"utf8"` print `utf8`),
any other name comes back as a '…' string (`"x y"` prints `'x y'`, `'it's'` prints `'it''s'`), also after `COLLATE`. -/
theorem set_names_fixpoint :
    namesFix my [kw "SET", wd "NAMES", .sqs (str "a b")] "SET NAMES 'a b'" = true ∧
    namesFix my [kw "SET", wd "NAMES", .sqs []] "SET NAMES ''" = true ∧
    namesFix my [kw "SET", wd "NAMES", .sqs (str "select")] "SET NAMES 'select'" = true ∧
    namesFix my [kw "SET", wd "NAMES", .sqs (str "utf8 COLLATE x")] "SET NAMES 'utf8 COLLATE x'" = true ∧
    (match Tcl.parseStmt my 100 50 [kw "SET", wd "NAMES", .sqs (str "utf8 COLLATE x")],
           Tcl.parseStmt my 100 50 [kw "SET", wd "NAMES", wd "utf8", kw "COLLATE", wd "x"] with
     | .ok (s, []), .ok (s', []) =>
       s.sexp != s'.sexp && s'.showText == some (str "SET NAMES utf8 COLLATE x") && s.showText != s'.showText
     | _, _ => false) = true ∧
    namesFix my [kw "SET", wd "NAMES", .sqs (str "utf8")] "SET NAMES utf8" = true ∧
    namesFix my [kw "SET", wd "NAMES", .dqs (str "utf8")] "SET NAMES utf8" = true ∧
    namesFix g [kw "SET", wd "NAMES", .word (str "x y") (some 34) none] "SET NAMES 'x y'" = true ∧
    namesFix my [kw "SET", wd "NAMES", .sqs (str "it's")] "SET NAMES 'it''s'" = true ∧
    namesFix g [kw "SET", kw "LOCAL", wd "names", wd "utf8mb4", kw "COLLATE", .dqs (str "c d")]
      "SET NAMES utf8mb4 COLLATE 'c d'" = true := by decide +kernel

/-- non-vacuity of `tcl_reparse_fixpoint_tx` on `SET NAMES 'utf8 COLLATE x'` -/
example : ∀ s, Tcl.parseStmt my 100 50 [kw "SET", wd "NAMES", .sqs (str "utf8 COLLATE x")] = .ok (s, []) → s.fixKind = true →
    Tcl.parseStmt my 100 50 s.showToks = .ok (s.norm, []) ∧ s.norm.sexp = s.sexp :=
  fun s h hk => tcl_reparse_fixpoint_tx my 100 50 _ s [] h hk
end Examples

/-- The full property (not proved: the statement kinds of the three fragments under `fixOk` only; the rest is
decided by the reparse oracle on the real code). -/
def FullStatement : Prop := TclReparseFixpoint (fun _ => true)

end SqlVerif.Props.C01Tcl

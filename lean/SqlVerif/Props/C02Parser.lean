import SqlVerif.Lemmas.PrattFuel
import SqlVerif.Lemmas.QueryFuel
import SqlVerif.Lemmas.DmlFuel
/-!
# C02, parser half — the modelled parser terminates, does linear work, and only returns values

Models: `Model/Pratt.lean` (expression parser: `parse_subexpr`, `parse_prefix`, `parse_infix`,
`parse_in`, `parse_between`, LIKE family, …, tied by the streams `prec`, `chains`, `ladder`) and
`Model/Query.lean` (`parse_statement` → `parse_query` → `parse_query_body` / `parse_select` /
`parse_table_and_joins` / `parse_table_factor` …, tied by the stream `queries`) with the loop of
`parse_statements` (`Model/Stmts.lean`).  Both are mutual recursions on a `fuel` argument that only
exists to make the definitions structurally recursive: a run that exhausts it answers
`Err.fuel`.  The real recursion guard (`RecursionCounter`) is the separate `limit` argument.

For EVERY configuration record (`Cfg` / `QCfg`: the 13 dialect rows × both values of every option
are instances), every recursion limit and every token list:

1. **Termination** (`pratt_never_out_of_fuel`, `query_never_out_of_fuel`, `script_never_out_of_fuel`):
   with `fuel ≥ need ts.length limit`, where

       need n limit = 2 * n + 5          (the expression parser alone needs 2 * n + 2)

   no run answers `Err.fuel`.  `need` does not depend on `limit` at all: in the model every cycle
   of the call graph consumes a token (prefix operator / `(` / infix operator / `,` / `SELECT` /
   set operator / join keyword / table name), so the call depth is bounded by the token count
   alone; the recursion guard is not needed for termination (it bounds the *stack*, C12).
   The bound is tight up to the constant: `- - … - a` (n tokens) needs fuel exactly `2 * n`.
   The loop of `parse_statements` never exhausts its own counter either (for any statement fuel).
2. **Fuel irrelevance** (`fuel_irrelevant`, `fuel_irrelevant_query`, `fuel_irrelevant_script`, and
   the `_of_need` forms): a run that does not end in `Err.fuel` is repeated verbatim under every
   larger fuel; hence all fuels `≥ need` give the same outcome, and every "for every fuel" theorem
   about these models (C01, C04, C05, C11, C12, C13) speaks about ONE outcome per input — the fixed
   fuel of the driver is not an artefact.
3. **Work** (`pratt_work_polynomial`): `work` counts every call of the five functions of the
   expression parser's mutual block in a run (defined by recursion along the run itself:
   `Pratt.costSubexpr` …, the sub-runs are the model's own).  For every fuel:
   `work ≤ 4 * ts.length + 2` — linear.  Amortised form (`pratt_work_amortised`): a successful
   `parse_subexpr` makes fewer than `4 * (tokens it consumed)` calls.  The head functions
   (`prefixHead`, `infixHead`, `nextPrec`) are not recursive; each is one bounded look-ahead, except
   `compoundTail` (consumes what it scans) and the model-only `lambdaAhead` scan (answers
   `unsupported`), so elementary steps are `≤ (4 n + 2) · (n + 1)` in the crudest count.
   *Backtracking*: the model fragment contains NO re-parse.  The three speculative sites of
   `parse_prefix` are modelled by their non-recursive outcome on the fragment: the typed-string probe
   `maybe_parse(parse_data_type)` is `if depth = 0 then rle` plus the word classification of
   `prefixHead` (a type name followed by a string literal is `unsupported`), `try_parse_lambda` and
   `try_parse_expr_sub_query` answer `unsupported` when they would match; in `parse_table_factor`
   a failed derived-table probe (the fall-back to a nested join) is `unsupported`.  The exponential
   families of the property (`POSITION(` nesting, `((((…` in FROM) are therefore OUTSIDE the fragment
   and stay search-only (oracle C02: step budget on G-nest).  For the query layer the call DEPTH is
   bounded (`query_never_out_of_fuel`), the number of calls is not instrumented.
4. **No panic** (`pratt_no_panic`, `query_no_panic`): the outcome is a tree with a strictly shorter
   rest, or one of the three error VALUES `rle` (`ParserError::RecursionLimitExceeded`), `syntax msg`
   (`ParserError::ParserError`), `unsupported` (input leaves the fragment; the model makes no
   claim).  The result type has no other inhabitant once `fuel` is excluded, so this is termination
   plus totality of the model; what it says about Rust panic sites is limited to the sites inside
   modelled functions (inventory `panic_sites` of `inventories/expected.json`, `parser/mod.rs`):
   * `parse_prefix: 0 => unreachable!()` and `.unwrap() on exprs.into_iter().next()` (`:1244-1245`,
     "parse_comma_separated ensures 1 or more"): `comma_separated_nonempty`, `items_nonempty`.
   * `parse_query: .unwrap() on limit` (`:8836`): `limit_unwrap_guarded` — the `, e` clause is only
     taken when a limit is present.
   * `parse_infix: _ => unreachable!()` (`:2688`, keyword after a comparison is ALL/ANY/SOME):
     `quant_keyword_guarded`.
   * `parse_remaining_set_exprs: .unwrap() on op` (`:9142`): the model builds the node only in the
     `some o` arm of the same match (`None => break` in the code) — by construction.
   * `parse_prefix: unreachable!()` (`:1199`, PostgreSQL prefix operators), `parse_wildcard_expr:
     unreachable!()` (`:879`), `parse_table_factor: unreachable!()` ×2 (`:9951, :10170`, PIVOT /
     UNPIVOT): inner `match` on a value the enclosing arm just matched ("dominated"); the last two lie
     outside the fragment (`unsupported` at PIVOT/UNPIVOT).
   * `prev_token: assert!(index > 0)` is the cursor layer (C08/C14 theorems), not this file.
   Every other parser function (≈ 300) is unmodelled: search only (oracle C02).
5. **The statement model** (`Model/Dml.lean`: `parse_statement` for queries / `VALUES` / `INSERT` /
   `UPDATE` / `DELETE` / `CREATE TABLE` / `DROP TABLE`, column types through `Model/DataType.lean`;
   stream `dml`): the same `need n = 2 * n + 5` suffices (`dml_never_out_of_fuel`,
   `dml_script_never_out_of_fuel`; per function `2 n + 2 … 2 n + 5`, the data-type parser on the
   fragment's non-recursive types `n + 2`: `dml_column_type_never_out_of_fuel`), runs are
   fuel-irrelevant (`dml_fuel_irrelevant`, `_of_need`, `_script`, `_script_of_need`) and value-only
   (`dml_no_panic`).  The loops of `parse_columns` / `parse_column_def` (own counters in the model)
   are covered: every round consumes a token (`Lemmas/DmlFuel.lean`: `columnDef_lt`,
   `colOption_opt_lt`).
-/
namespace SqlVerif.Props.C02Parser
open SqlVerif.Pratt SqlVerif.Query SqlVerif.Gen

/-- fuel that suffices for `n` tokens under recursion limit `limit` (independent of the limit) -/
def need (n _limit : Nat) : Nat := 2 * n + 5

-- ------------------------------------------------------------------ 1. termination
/-- **the expression parser never stalls**: enough fuel ⇒ the run ends by itself -/
theorem pratt_never_out_of_fuel (c : Cfg) (fuel limit : Nat) (ts : List Tok) (h : need ts.length limit ≤ fuel) :
    parseExpr c fuel limit ts ≠ .error .fuel :=
  (nofuel_all c fuel).1 _ _ _ (by unfold need at h; omega)

/-- the same for `parse_subexpr` at any context precedence (with the sharper `2 n + 2`) and for the
other four functions of the mutual block -/
theorem pratt_never_out_of_fuel_all (c : Cfg) (fuel : Nat) :
    (∀ d p ts, 2 * ts.length + 2 ≤ fuel → parseSubexpr c fuel d p ts ≠ .error .fuel) ∧
    (∀ d p e ts, 2 * ts.length + 3 ≤ fuel → loop c fuel d p e ts ≠ .error .fuel) ∧
    (∀ d ts, 2 * ts.length + 1 ≤ fuel → parsePrefix c fuel d ts ≠ .error .fuel) ∧
    (∀ d e q ts, 2 * ts.length + 2 ≤ fuel → parseInfix c fuel d e q ts ≠ .error .fuel) ∧
    (∀ d ts, 2 * ts.length + 3 ≤ fuel → parseItems c fuel d ts ≠ .error .fuel) :=
  nofuel_all c fuel

/-- **the query parser never stalls** -/
theorem query_never_out_of_fuel (c : QCfg) (fuel limit : Nat) (ts : List Tok) (h : need ts.length limit ≤ fuel) :
    parseStatement c fuel limit ts ≠ .error .fuel :=
  parseStatement_nofuel c limit ts (by unfold need at h; omega)

/-- every function of the query layer's mutual block, with its own threshold -/
theorem query_never_out_of_fuel_all (c : QCfg) (fuel : Nat) :
    (∀ d ts, 2 * ts.length + 5 ≤ fuel → parseQuery c fuel d ts ≠ .error .fuel) ∧
    (∀ d prec ts, 2 * ts.length + 4 ≤ fuel → queryBody c fuel d prec ts ≠ .error .fuel) ∧
    (∀ d e prec ts, 2 * ts.length + 4 ≤ fuel → remaining c fuel d e prec ts ≠ .error .fuel) ∧
    (∀ d sel ts, 2 * ts.length + 4 ≤ fuel → parseSelect c fuel d sel ts ≠ .error .fuel) ∧
    (∀ d conn ts, 2 * ts.length + 4 ≤ fuel → fromItems c fuel d conn ts ≠ .error .fuel) ∧
    (∀ d cstr ts, 2 * ts.length + 3 ≤ fuel → fromRest c fuel d cstr ts ≠ .error .fuel) :=
  qnofuel_all c fuel

/-- **scripts**: the loop of `parse_statements` never exhausts its counter (any statement fuel), and
with enough statement fuel no statement of the script reports `fuel` -/
theorem script_never_out_of_fuel (c : QCfg) (fuel limit : Nat) (ts : List Tok) :
    parseScript c fuel limit ts ≠ .error .fuel ∧
    (need ts.length limit ≤ fuel → parseScript c fuel limit ts ≠ .error (.stmt .fuel)) :=
  ⟨parseScript_loop_nofuel c fuel limit ts, fun h => parseScript_nofuel c limit ts (by unfold need at h; omega)⟩

-- ------------------------------------------------------------------ 2. fuel irrelevance
/-- **a run that did not run out of fuel is the run under every larger fuel** -/
theorem fuel_irrelevant (c : Cfg) (fuel fuel' limit : Nat) (ts : List Tok) (hf : fuel ≤ fuel')
    (h : parseExpr c fuel limit ts ≠ .error .fuel) : parseExpr c fuel' limit ts = parseExpr c fuel limit ts :=
  ((fuel_mono_all c fuel fuel' hf).1 _ _ _).eq_of_ne h

theorem fuel_irrelevant_subexpr (c : Cfg) (fuel fuel' d p : Nat) (ts : List Tok) (hf : fuel ≤ fuel')
    (h : parseSubexpr c fuel d p ts ≠ .error .fuel) : parseSubexpr c fuel' d p ts = parseSubexpr c fuel d p ts :=
  ((fuel_mono_all c fuel fuel' hf).1 _ _ _).eq_of_ne h

/-- all fuels `≥ need` give the same outcome -/
theorem fuel_irrelevant_of_need (c : Cfg) (f1 f2 limit : Nat) (ts : List Tok)
    (h1 : need ts.length limit ≤ f1) (h2 : need ts.length limit ≤ f2) :
    parseExpr c f1 limit ts = parseExpr c f2 limit ts := by
  rw [fuel_irrelevant c _ f1 limit ts h1 (pratt_never_out_of_fuel c _ limit ts (Nat.le_refl _)),
      fuel_irrelevant c _ f2 limit ts h2 (pratt_never_out_of_fuel c _ limit ts (Nat.le_refl _))]

theorem fuel_irrelevant_query (c : QCfg) (fuel fuel' limit : Nat) (ts : List Tok) (hf : fuel ≤ fuel')
    (h : parseStatement c fuel limit ts ≠ .error .fuel) :
    parseStatement c fuel' limit ts = parseStatement c fuel limit ts :=
  (parseStatement_mono c hf limit ts).eq_of_ne h

theorem fuel_irrelevant_query_of_need (c : QCfg) (f1 f2 limit : Nat) (ts : List Tok)
    (h1 : need ts.length limit ≤ f1) (h2 : need ts.length limit ≤ f2) :
    parseStatement c f1 limit ts = parseStatement c f2 limit ts := by
  rw [fuel_irrelevant_query c _ f1 limit ts h1 (query_never_out_of_fuel c _ limit ts (Nat.le_refl _)),
      fuel_irrelevant_query c _ f2 limit ts h2 (query_never_out_of_fuel c _ limit ts (Nat.le_refl _))]

theorem fuel_irrelevant_script (c : QCfg) (fuel fuel' limit : Nat) (ts : List Tok) (hf : fuel ≤ fuel')
    (h : parseScript c fuel limit ts ≠ .error (.stmt .fuel)) :
    parseScript c fuel' limit ts = parseScript c fuel limit ts := by
  rcases parseScript_mono c hf limit ts with h1 | h1
  · exact absurd h1 h
  · exact h1.symm

theorem fuel_irrelevant_script_of_need (c : QCfg) (f1 f2 limit : Nat) (ts : List Tok)
    (h1 : need ts.length limit ≤ f1) (h2 : need ts.length limit ≤ f2) :
    parseScript c f1 limit ts = parseScript c f2 limit ts := by
  rw [fuel_irrelevant_script c _ f1 limit ts h1 ((script_never_out_of_fuel c _ limit ts).2 (Nat.le_refl _)),
      fuel_irrelevant_script c _ f2 limit ts h2 ((script_never_out_of_fuel c _ limit ts).2 (Nat.le_refl _))]

-- ------------------------------------------------------------------ 3. work
/-- number of calls of `parse_subexpr` / its loop / `parse_prefix` / `parse_infix` /
`parse_comma_separated(parse_expr)` in the run of `parse_expr` on `ts` -/
def work (c : Cfg) (fuel limit : Nat) (ts : List Tok) : Nat := costSubexpr c fuel limit c.prec.unknown ts

/-- **linear work**, for every fuel (in particular for `fuel ≥ need`, where the run is THE run) -/
theorem pratt_work_polynomial (c : Cfg) (fuel limit : Nat) (ts : List Tok) :
    work c fuel limit ts ≤ 4 * ts.length + 2 :=
  ((cost_all c fuel).1 limit c.prec.unknown ts).2

/-- amortised: a successful `parse_subexpr` makes fewer than 4 calls per consumed token -/
theorem pratt_work_amortised (c : Cfg) (fuel d p : Nat) (ts : List Tok) (e : Expr) (rest : List Tok)
    (h : parseSubexpr c fuel d p ts = .ok (e, rest)) :
    costSubexpr c fuel d p ts < 4 * (ts.length - rest.length) := by
  have := ((cost_all c fuel).1 d p ts).1 e rest h
  omega

/-- the call DEPTH of a run (the least fuel that does not answer `fuel`) is at most `2 n + 2`:
stated as "fuel `2 n + 2` already gives the final outcome" -/
theorem pratt_depth_linear (c : Cfg) (fuel limit : Nat) (ts : List Tok) (h : 2 * ts.length + 2 ≤ fuel) :
    parseExpr c fuel limit ts = parseExpr c (2 * ts.length + 2) limit ts :=
  fuel_irrelevant c _ fuel limit ts h ((nofuel_all c _).1 _ _ _ (Nat.le_refl _))

-- ------------------------------------------------------------------ 4. values only
/-- **the outcome is a tree or an error value** (and a tree comes with a strictly shorter rest) -/
theorem pratt_no_panic (c : Cfg) (fuel limit : Nat) (ts : List Tok) (h : need ts.length limit ≤ fuel) :
    (∃ e rest, parseExpr c fuel limit ts = .ok (e, rest) ∧ rest.length < ts.length) ∨
    parseExpr c fuel limit ts = .error .rle ∨
    (∃ msg, parseExpr c fuel limit ts = .error (.syntax msg)) ∨
    parseExpr c fuel limit ts = .error .unsupported := by
  have hn := pratt_never_out_of_fuel c fuel limit ts h
  cases hr : parseExpr c fuel limit ts with
  | ok v => obtain ⟨e, rest⟩ := v; exact Or.inl ⟨e, rest, rfl, subexpr_lt hr⟩
  | error er =>
    cases er with
    | rle => exact Or.inr (Or.inl rfl)
    | «syntax» m => exact Or.inr (Or.inr (Or.inl ⟨m, rfl⟩))
    | unsupported => exact Or.inr (Or.inr (Or.inr rfl))
    | fuel => exact absurd hr hn

theorem query_no_panic (c : QCfg) (fuel limit : Nat) (ts : List Tok) (h : need ts.length limit ≤ fuel) :
    (∃ q rest, parseStatement c fuel limit ts = .ok (q, rest) ∧ rest.length < ts.length) ∨
    parseStatement c fuel limit ts = .error .rle ∨
    (∃ msg, parseStatement c fuel limit ts = .error (.syntax msg)) ∨
    parseStatement c fuel limit ts = .error .unsupported := by
  have hn := query_never_out_of_fuel c fuel limit ts h
  cases hr : parseStatement c fuel limit ts with
  | ok v => obtain ⟨q, rest⟩ := v; exact Or.inl ⟨q, rest, rfl, parseStatement_lt hr⟩
  | error er =>
    cases er with
    | rle => exact Or.inr (Or.inl rfl)
    | «syntax» m => exact Or.inr (Or.inr (Or.inl ⟨m, rfl⟩))
    | unsupported => exact Or.inr (Or.inr (Or.inr rfl))
    | fuel => exact absurd hr hn

/-- `parse_comma_separated` "ensures 1 or more" (guard of `0 => unreachable!()` / `.next().unwrap()`) -/
theorem comma_separated_nonempty {α : Type} (tc : Bool) (elem : List Tok → Query.Res α) (n : Nat) (ts : List Tok)
    (vs : Sep α) (rest : List Tok) (h : commaSepE tc elem n ts = .ok (vs, rest)) : vs ≠ [] := by
  cases n with
  | zero => simp [commaSepE] at h
  | succ n =>
    simp only [commaSepE] at h
    repeat' split at h
    all_goals first
      | (simp at h; done)
      | (simp at h; obtain ⟨rfl, _⟩ := h; simp)

theorem items_nonempty (c : Cfg) (f d : Nat) (ts : List Tok) (items : Expr) (rest : List Tok)
    (h : parseItems c f d ts = .ok (items, rest)) : items ≠ .lnil := by
  cases f with
  | zero => simp [parseItems] at h
  | succ f =>
    simp only [parseItems] at h
    repeat' split at h
    all_goals first
      | (simp at h; done)
      | (simp at h; obtain ⟨rfl, _⟩ := h; simp)

/-- guard of `limit.unwrap()` in `parse_query`: the `, e` clause is taken only when a limit is present -/
theorem limit_unwrap_guarded (c : QCfg) (f d : Nat) (cs cs' : List LimClause) (ts rest : List Tok)
    (h : commaPart c f d cs ts = .ok (cs', rest)) (hne : cs' ≠ cs) : (limSem cs).1.isSome = true := by
  unfold commaPart at h
  split at h
  · rename_i hc; simp at hc; exact hc.1.2
  · simp at h; exact absurd h.1.symm hne

/-- guard of `_ => unreachable!()` after `ANY / ALL / SOME` in `parse_infix` -/
theorem quant_keyword_guarded (c : Cfg) (d q : Nat) (ts : List Tok) (o : BinOp) (qk : Quant) (ops rest : List Tok) (p : Nat)
    (h : infixHead c d q ts = .ok (.quant o qk ops rest p)) :
    ∃ t t2, ops = [t, t2, .sym .LParen] ∧ (t2.isKw KW.ANY || t2.isKw KW.ALL || t2.isKw KW.SOME) = true := by
  unfold infixHead at h
  repeat' split at h
  all_goals first
    | (simp at h; done)
    | (simp at h; obtain ⟨_, _, rfl, _⟩ := h; refine ⟨_, _, rfl, ?_⟩; assumption)
    | (unfold notFamilyTail at h
       repeat' split at h
       all_goals (simp at h))

-- ------------------------------------------------------------------ 5. the statement model
open SqlVerif.Dml (DCfg Stmt parseStmt) in
/-- **the statement parser never stalls**: `need` fuel (the bound of the query layer) suffices for
INSERT / UPDATE / DELETE / CREATE TABLE / DROP TABLE too -/
theorem dml_never_out_of_fuel (c : DCfg) (fuel limit : Nat) (ts : List Tok) (h : need ts.length limit ≤ fuel) :
    parseStmt c fuel limit ts ≠ .error .fuel :=
  SqlVerif.Dml.parseStmt_nofuel c limit ts (by unfold need at h; omega)

open SqlVerif.Dml (DCfg) in
/-- scripts of the statement model: the loop never exhausts its counter (any statement fuel), and with
enough statement fuel no statement of the script reports `fuel` -/
theorem dml_script_never_out_of_fuel (c : DCfg) (fuel limit : Nat) (ts : List Tok) :
    SqlVerif.Dml.parseScript c fuel limit ts ≠ .error .fuel ∧
    (need ts.length limit ≤ fuel → SqlVerif.Dml.parseScript c fuel limit ts ≠ .error (.stmt .fuel)) :=
  ⟨SqlVerif.Dml.parseScript_loop_nofuel c fuel limit ts,
   fun h => SqlVerif.Dml.parseScript_nofuel c limit ts (by unfold need at h; omega)⟩

open SqlVerif.Dml (DCfg) in
/-- the statement kinds with their own thresholds (`ts` = the tokens after the statement keyword) -/
theorem dml_never_out_of_fuel_all (c : DCfg) (fuel d : Nat) (kw : Tok) (ts : List Tok) :
    (2 * ts.length + 5 ≤ fuel → SqlVerif.Dml.parseInsert c fuel d kw ts ≠ .error .fuel) ∧
    (2 * ts.length + 4 ≤ fuel → SqlVerif.Dml.parseUpdate c fuel d kw ts ≠ .error .fuel) ∧
    (2 * ts.length + 4 ≤ fuel → SqlVerif.Dml.parseDelete c fuel d kw ts ≠ .error .fuel) ∧
    (2 * ts.length + 2 ≤ fuel → SqlVerif.Dml.parseCreate c fuel d kw ts ≠ .error .fuel) ∧
    (2 * ts.length + 2 ≤ fuel → SqlVerif.Dml.parseDrop c fuel kw ts ≠ .error .fuel) ∧
    (2 * ts.length + 2 ≤ fuel → SqlVerif.Dml.valuesQuery c fuel d kw ts ≠ .error .fuel) :=
  ⟨SqlVerif.Dml.parseInsert_nofuel c d kw ts, SqlVerif.Dml.parseUpdate_nofuel c d kw ts,
   SqlVerif.Dml.parseDelete_nofuel c d kw ts, SqlVerif.Dml.parseCreate_nofuel c d kw ts,
   SqlVerif.Dml.parseDrop_nofuel c kw ts, SqlVerif.Dml.valuesQuery_nofuel c d kw ts⟩

open SqlVerif.Dml (DCfg) in
/-- column types: the data-type parser (own `fuel` and depth guard) on the types the fragment allows
needs `n + 2` fuel — one level for the helper, one per `[]` suffix -/
theorem dml_column_type_never_out_of_fuel (c : DCfg) (fuel d : Nat) (ts : List Tok) (h : ts.length + 2 ≤ fuel) :
    SqlVerif.Dml.colType c fuel d ts ≠ .error .fuel :=
  SqlVerif.Dml.colType_nofuel c d ts h

open SqlVerif.Dml (DCfg parseStmt) in
/-- **a statement run that did not run out of fuel is the run under every larger fuel** -/
theorem dml_fuel_irrelevant (c : DCfg) (fuel fuel' limit : Nat) (ts : List Tok) (hf : fuel ≤ fuel')
    (h : parseStmt c fuel limit ts ≠ .error .fuel) : parseStmt c fuel' limit ts = parseStmt c fuel limit ts :=
  (SqlVerif.Dml.parseStmt_mono c hf limit ts).eq_of_ne h

open SqlVerif.Dml (DCfg parseStmt) in
/-- all fuels `≥ need` give the same outcome -/
theorem dml_fuel_irrelevant_of_need (c : DCfg) (f1 f2 limit : Nat) (ts : List Tok)
    (h1 : need ts.length limit ≤ f1) (h2 : need ts.length limit ≤ f2) :
    parseStmt c f1 limit ts = parseStmt c f2 limit ts := by
  rw [dml_fuel_irrelevant c _ f1 limit ts h1 (dml_never_out_of_fuel c _ limit ts (Nat.le_refl _)),
      dml_fuel_irrelevant c _ f2 limit ts h2 (dml_never_out_of_fuel c _ limit ts (Nat.le_refl _))]

open SqlVerif.Dml (DCfg) in
theorem dml_fuel_irrelevant_script (c : DCfg) (fuel fuel' limit : Nat) (ts : List Tok) (hf : fuel ≤ fuel')
    (h : SqlVerif.Dml.parseScript c fuel limit ts ≠ .error (.stmt .fuel)) :
    SqlVerif.Dml.parseScript c fuel' limit ts = SqlVerif.Dml.parseScript c fuel limit ts := by
  rcases SqlVerif.Dml.parseScript_mono c hf limit ts with h1 | h1
  · exact absurd h1 h
  · exact h1.symm

open SqlVerif.Dml (DCfg) in
theorem dml_fuel_irrelevant_script_of_need (c : DCfg) (f1 f2 limit : Nat) (ts : List Tok)
    (h1 : need ts.length limit ≤ f1) (h2 : need ts.length limit ≤ f2) :
    SqlVerif.Dml.parseScript c f1 limit ts = SqlVerif.Dml.parseScript c f2 limit ts := by
  rw [dml_fuel_irrelevant_script c _ f1 limit ts h1 ((dml_script_never_out_of_fuel c _ limit ts).2 (Nat.le_refl _)),
      dml_fuel_irrelevant_script c _ f2 limit ts h2 ((dml_script_never_out_of_fuel c _ limit ts).2 (Nat.le_refl _))]

open SqlVerif.Dml (DCfg Stmt parseStmt) in
/-- the outcome of the statement model is a tree with a strictly shorter rest or an error value -/
theorem dml_no_panic (c : DCfg) (fuel limit : Nat) (ts : List Tok) (h : need ts.length limit ≤ fuel) :
    (∃ s rest, parseStmt c fuel limit ts = .ok (s, rest) ∧ rest.length < ts.length) ∨
    parseStmt c fuel limit ts = .error .rle ∨
    (∃ msg, parseStmt c fuel limit ts = .error (.syntax msg)) ∨
    parseStmt c fuel limit ts = .error .unsupported := by
  have hn := dml_never_out_of_fuel c fuel limit ts h
  cases hr : parseStmt c fuel limit ts with
  | ok v => obtain ⟨s, rest⟩ := v; exact Or.inl ⟨s, rest, rfl, SqlVerif.Dml.parseStmt_lt hr⟩
  | error er =>
    cases er with
    | rle => exact Or.inr (Or.inl rfl)
    | «syntax» m => exact Or.inr (Or.inr (Or.inl ⟨m, rfl⟩))
    | unsupported => exact Or.inr (Or.inr (Or.inr rfl))
    | fuel => exact absurd hr hn

-- ------------------------------------------------------------------ non-vacuity
section Examples
def g : Cfg := Cfg.ofRow dialect_generic
def gq : QCfg := QCfg.ofRow dialect_generic
def a : Tok := .word (str "a") none none
def wd (s : String) : Tok := .word (str s) none none
def kw (s : String) : Tok := .word (str s) none (some (kwIndex s))
def lp : Tok := .sym .LParen
def rp : Tok := .sym .RParen
def nest (k : Nat) : List Tok := List.replicate k lp ++ [a] ++ List.replicate k rp
def nested : Nat → Expr
  | 0 => .atom .ident [a]
  | k + 1 => .nested (nested k)
/-- `- - … - a` -/
def negs (k : Nat) : List Tok := List.replicate k (Tok.sym .Minus) ++ [a]
/-- `SELECT a, b x FROM t JOIN u ON a = b WHERE c ORDER BY a DESC LIMIT 1` -/
def s1 : List Tok :=
  [kw "SELECT", wd "a", .sym .Comma, wd "b", wd "x", kw "FROM", wd "t", kw "JOIN", wd "u", kw "ON", wd "a", .sym .Eq, wd "b",
   kw "WHERE", wd "c", kw "ORDER", kw "BY", wd "a", kw "DESC", kw "LIMIT", .number (str "1") false]
/-- `(SELECT 1) UNION ALL SELECT * FROM (SELECT 2) AS d` -/
def s2 : List Tok :=
  [lp, kw "SELECT", .number (str "1") false, rp, kw "UNION", kw "ALL", kw "SELECT", .sym .Mul, kw "FROM",
   lp, kw "SELECT", .number (str "2") false, rp, kw "AS", wd "d"]
def isOk {ε α : Type} : Except ε α → Bool | .ok _ => true | _ => false

-- 1. `Err.fuel` is a real outcome of the model under too little fuel, and `need` removes it;
--    the bound is tight up to +2: `- - - - - a` (6 tokens) stalls at fuel 11 and runs at 12 = 2 * 6
example : parseExpr g 11 50 (negs 5) = .error .fuel ∧ isOk (parseExpr g 12 50 (negs 5)) = true ∧
    parseExpr g 7 50 (nest 3) = .error .fuel ∧
    parseExpr g (need (nest 3).length 50) 50 (nest 3) = .ok (nested 3, []) := by decide +kernel
example : parseStatement gq 10 50 s1 = .error .fuel ∧ isOk (parseStatement gq (need s1.length 50) 50 s1) = true ∧
    isOk (parseStatement gq (need s2.length 50) 50 s2) = true := by decide +kernel
def s12 : List Tok := s1 ++ [Tok.sym .SemiColon] ++ s2
example : isOk (parseScript gq (need s12.length 50) 50 s12) = true ∧
    parseScript gq 10 50 s12 = .error (.stmt .fuel) := by decide +kernel

-- 2. fuel 8 already decides `(((a)))`; every larger fuel repeats the outcome (theorem), e.g. 500
example : parseExpr g 500 50 (nest 3) = .ok (nested 3, []) := by
  rw [fuel_irrelevant g 8 500 50 (nest 3) (by decide) (by decide +kernel)]; decide +kernel
-- … and the outcome that is repeated may be an error value
example : parseExpr g 500 50 [lp, lp, a, a] = .error (.syntax (str "Expected: ), found: a")) := by
  rw [fuel_irrelevant g 9 500 50 [lp, lp, a, a] (by decide) (by decide +kernel)]; decide +kernel

-- 3. calls: `a + a * a` makes 13 calls (bound 22), `(((a)))` 12 (bound 30); under limit 2 the run
--    stops early at the guard (4 calls)
example : work g 100 50 [a, .sym .Plus, a, .sym .Mul, a] = 13 ∧ work g 100 50 (nest 3) = 12 ∧
    work g 100 2 (nest 3) = 4 ∧ work g 100 50 (negs 5) = 18 := by decide +kernel

-- 4. each kind of outcome occurs: tree, limit error, syntax error, outside the fragment
example : parseExpr g (need 7 2) 2 (nest 3) = .error .rle ∧
    parseExpr g (need 1 50) 50 [rp] = .error (.syntax (str "Expected: an expression, found: )")) ∧
    parseExpr g (need 2 50) 50 [lp, kw "SELECT"] = .error .unsupported := by decide +kernel
example : parseStatement gq (need 4 1) 1 [kw "SELECT", a, kw "FROM", a] = .error .rle ∧
    parseStatement gq (need 1 50) 50 [kw "CREATE"] = .error .unsupported := by decide +kernel
-- the guards are exercised: `a = ANY (a)` goes through the `quant` plan, `LIMIT 1, 2` through the comma clause
example : isOk (parseExpr g 100 50 [a, .sym .Eq, kw "ANY", lp, a, rp]) = true := by decide +kernel
-- 5. statements: `UPDATE t SET a = 1, b = (2) WHERE c` (14 tokens) stalls at fuel 3 and runs with `need`;
--    `INSERT INTO t (a, b) VALUES (1, 2), (3, 4)` likewise; the outcome under `need` is the outcome under 500
def gd : SqlVerif.Dml.DCfg := SqlVerif.Dml.DCfg.ofRow dialect_generic
def num (s : String) : Tok := .number (str s) false
def u1 : List Tok :=
  [kw "UPDATE", wd "t", kw "SET", wd "a", .sym .Eq, num "1", .sym .Comma, wd "b", .sym .Eq, lp, num "2", rp, kw "WHERE", wd "c"]
def i1 : List Tok :=
  [kw "INSERT", kw "INTO", wd "t", lp, wd "a", .sym .Comma, wd "b", rp, kw "VALUES", lp, num "1", .sym .Comma, num "2", rp,
   .sym .Comma, lp, num "3", .sym .Comma, num "4", rp]
example : SqlVerif.Dml.parseStmt gd 3 50 u1 = .error .fuel ∧ isOk (SqlVerif.Dml.parseStmt gd (need u1.length 50) 50 u1) = true ∧
    SqlVerif.Dml.parseStmt gd 1 50 i1 = .error .fuel ∧ isOk (SqlVerif.Dml.parseStmt gd (need i1.length 50) 50 i1) = true := by
  decide +kernel
example : SqlVerif.Dml.parseStmt gd 500 50 u1 = SqlVerif.Dml.parseStmt gd (need u1.length 50) 50 u1 :=
  dml_fuel_irrelevant_of_need gd 500 _ 50 u1 (by decide) (Nat.le_refl _)
example : isOk (SqlVerif.Dml.parseScript gd (need (u1 ++ [Tok.sym .SemiColon] ++ i1).length 50) 50 (u1 ++ [Tok.sym .SemiColon] ++ i1)) = true ∧
    SqlVerif.Dml.parseScript gd 3 50 (u1 ++ [Tok.sym .SemiColon] ++ i1) = .error (.stmt .fuel) := by decide +kernel
end Examples

/-- The full property for the parser half (not proved): termination, polynomial work and absence
of panics of the REAL `Parser::parse_statements` on every token list — every statement kind,
including the speculative sites (`maybe_parse`, `parse_position_expr`, derived table vs nested
join) whose re-parsing is exponential in the nesting depth.  Decided on the real code by the
oracle `C02` (catch_unwind + child isolation + step budget). -/
def FullStatement {Outcome : Type} (steps : List Nat → Nat) (parseSql : Nat → List Nat → Option Outcome) : Prop :=
  ∃ k a b, ∀ limit sql, (parseSql limit sql).isSome ∧ steps sql ≤ a * sql.length ^ k + b

end SqlVerif.Props.C02Parser

import SqlVerif.Lemmas.TclContent
import SqlVerif.Props.C05
/-!
# C05 on the third statement fragment — nothing the user wrote is lost, nothing invented

Extends `ddl_content_preserved_partial` (`Props/C05Ddl.lean`) to the statements of `Model/Tcl.lean`
(transaction control, `SET`, `USE`, `DISCARD`, `DEALLOCATE`, `CLOSE`, `ASSERT`; everything else falls
through to `Ddl.parseStmt`) printed by `Model/TclPrint.lean` (stream `tcl`: real `to_string()` against
the model text).  For EVERY configuration record, fuel, recursion limit and token list:

* `tcl_content_preserved_partial`: if the modelled statement parser accepts a prefix `pre` of the
  input and returns the statement `s`, and `s` is `printable`, the SEQUENCE of content tokens
  (identifiers with their quoting, numbers, string payloads, placeholders) of `pre` is exactly that
  of the printed tokens `s.showToks`: nothing lost, nothing invented, nothing reordered — although
  `Display` drops the noise words `TRANSACTION | WORK`, `AND NO CHAIN`, the `SESSION` of `SET SESSION x = …`
  and the modifier of `SET … NAMES`, inserts `SAVEPOINT` into `ROLLBACK TO a` / `RELEASE a`, `TRANSACTION`
  into `BEGIN`, `SESSION` into `SET CHARACTERISTICS AS TRANSACTION`, puts commas between transaction modes,
  prints `END` as `COMMIT`, `TO` as `=`, `TIME ZONE =` as `TIMEZONE =`, `TIMEZONE v` as `TIME ZONE v`,
  `DISCARD TEMPORARY` as `DISCARD TEMP`, and drops trailing commas of the `SET` lists.
* `tcl_content_preserved_tx`: `START TRANSACTION`, `BEGIN`, `COMMIT` / `END`, `ROLLBACK`, `SAVEPOINT`,
  `RELEASE`, `SET ROLE`, `USE`, `DISCARD`, `DEALLOCATE`, `CLOSE` need no side condition at all.
* `Stmt.printable` (decidable, `Lemmas/TclContent.lean`): every value of `SET x = …`, the value of
  `SET TIME ZONE`, the condition and message of `ASSERT` are printable expressions; the variable of
  `SET TIME ZONE v` was written with keyword tokens; the variable of `SET … NAMES` /
  `SET … CHARACTERISTICS AS TRANSACTION` (no keywords: found by comparing the text up to ASCII case) was
  written `NAMES` / `CHARACTERISTICS` in upper case; the charset and the collation of `SET NAMES` are each
  an unquoted plain word (`plainName`: ASCII letter or `_`, then ASCII letters, digits, `_`, no keyword) or a
  '…' / "…" string whose text is NOT such a word; statements of the first two fragments as in `Props/C05Ddl.lean`.

What the real printer changes inside the fragment, as kernel-checked witnesses (same answers from the
real parser in stream `tcl`).  CONTENT changes (the excluded shapes): `set_names_uppercased`
(`set names x` comes back as `SET NAMES x`: the identifier `names` is now `NAMES`),
`set_names_string_unquoted` (`SET NAMES 'utf8'` prints `SET NAMES utf8`: a string whose text is a plain word
comes back as an identifier; `SET NAMES 'a b'` prints itself, the string stays a string),
`set_names_word_quoted` (a quoted word that is no plain word, `SET NAMES "x y"`, comes back as the string `'x y'`; a
quoted plain word loses its quotes), `characteristics_uppercased`.  Keywords only:
`set_time_zone_eq_renamed`, `set_session_dropped`, `noise_words_dropped`, `discard_temporary_renamed`.
-/
namespace SqlVerif.Props.C05Tcl
open SqlVerif.Pratt SqlVerif.Query SqlVerif.Dml SqlVerif.Ddl SqlVerif.Tcl SqlVerif.Gen

/-- **content preservation** for the modelled statements, as a statement about sequences -/
theorem tcl_content_preserved_partial (c : TCfg) (fuel limit : Nat) (ts : List Tok) (s : Tcl.Stmt) (rest : List Tok)
    (h : Tcl.parseStmt c fuel limit ts = .ok (s, rest)) (hp : s.printable = true) :
    ∃ pre, ts = pre ++ rest ∧ pre.filterMap contentOf = s.showToks.filterMap contentOf :=
  ⟨s.flatten, Tcl.parseStmt_yield c fuel limit ts s rest h, Tcl.parseStmt_content c fuel limit ts s rest h hp⟩

/-- the same for a complete statement, and as a statement about multisets -/
theorem tcl_content_preserved_stmt (c : TCfg) (fuel limit : Nat) (ts : List Tok) (s : Tcl.Stmt)
    (h : Tcl.parseStmt c fuel limit ts = .ok (s, [])) (hp : s.printable = true) :
    ts.filterMap contentOf = s.showToks.filterMap contentOf ∧
    (ts.filterMap contentOf).Perm (s.showToks.filterMap contentOf) := by
  obtain ⟨pre, h1, h2⟩ := tcl_content_preserved_partial c fuel limit ts s [] h hp
  simp at h1; subst h1
  exact ⟨h2, h2 ▸ List.Perm.refl _⟩

/-- the transaction-control statements, `SET ROLE`, `USE`, `DISCARD`, `DEALLOCATE` and `CLOSE` need no side condition -/
theorem tcl_content_preserved_tx (c : TCfg) (fuel limit : Nat) (ts : List Tok) (s : Tcl.Stmt) (rest : List Tok)
    (h : Tcl.parseStmt c fuel limit ts = .ok (s, rest))
    (hk : (match s with
      | .startTx .. => true | .begin .. => true | .commit .. => true | .rollback .. => true | .savepoint .. => true
      | .release .. => true | .setRole .. => true | .useObj .. => true | .useDefault .. => true | .discard .. => true
      | .deallocate .. => true | .close .. => true | _ => false) = true) :
    ∃ pre, ts = pre ++ rest ∧ pre.filterMap contentOf = s.showToks.filterMap contentOf := by
  refine tcl_content_preserved_partial c fuel limit ts s rest h ?_
  cases s <;> simp_all [Tcl.Stmt.printable]

section Witnesses
def g : TCfg := TCfg.ofRow dialect_generic
def my : TCfg := TCfg.ofRow dialect_mysql
def pg : TCfg := TCfg.ofRow dialect_postgresql
def wd (s : String) : Tok := .word (str s) none none
def kw (s : String) : Tok := .word (str s) none (some (kwIndex s))
def num (s : String) : Tok := .number (str s) false
def lp : Tok := .sym .LParen
def rp : Tok := .sym .RParen
def cm : Tok := .sym .Comma

/-- printable?, content of the input, content of the printed statement (complete statements only) -/
def contentIO (c : TCfg) (ts : List Tok) : Option (Bool × List Content × List Content) :=
  match Tcl.parseStmt c 300 50 ts with
  | .ok (s, []) => some (s.printable, ts.filterMap contentOf, s.showToks.filterMap contentOf)
  | _ => none

/-- the printed text of a complete statement -/
def printsAs (c : TCfg) (ts : List Tok) (text : String) : Bool :=
  match Tcl.parseStmt c 300 50 ts with
  | .ok (s, []) => s.showText == some (str text)
  | _ => false

/-- non-vacuity: `START TRANSACTION READ ONLY ISOLATION LEVEL SERIALIZABLE` (no comma: the loop of
`parse_transaction_modes` does not ask for one) prints with a comma; there is no content at all -/
example :
    (match Tcl.parseStmt g 300 50
      [kw "START", kw "TRANSACTION", kw "READ", kw "ONLY", kw "ISOLATION", kw "LEVEL", kw "SERIALIZABLE"] with
     | .ok (s, []) => (s.printable, s.showToks.filterMap contentOf == s.flatten.filterMap contentOf,
        (s.flatten.filterMap contentOf).length,
        s.showText == some (str "START TRANSACTION READ ONLY, ISOLATION LEVEL SERIALIZABLE"))
     | _ => (false, false, 1, false)) = (true, true, 0, true) := by decide +kernel

/-- non-vacuity: `SET LOCAL a.b = 1, 'x', c + 2`: the six content tokens come back in order -/
example :
    (match Tcl.parseStmt g 300 50
      [kw "SET", kw "LOCAL", wd "a", .sym .Period, wd "b", .sym .Eq, num "1", cm, .sqs (str "x"), cm, wd "c", .sym .Plus, num "2"] with
     | .ok (s, []) => (s.printable, s.showToks.filterMap contentOf == s.flatten.filterMap contentOf,
        (s.flatten.filterMap contentOf).length,
        s.showText == some (str "SET LOCAL a.b = 1, 'x', c + 2"))
     | _ => (false, false, 0, false)) = (true, true, 6, true) := by decide +kernel

/-- non-vacuity: `SET (a, "B") = (1, 'x')` (Generic has `supports_parenthesized_set_variables`) -/
example :
    (match Tcl.parseStmt g 300 50
      [kw "SET", lp, wd "a", cm, .word (str "B") (some 34) none, rp, .sym .Eq, lp, num "1", cm, .sqs (str "x"), rp] with
     | .ok (s, []) => (s.printable, s.showToks.filterMap contentOf == s.flatten.filterMap contentOf,
        (s.flatten.filterMap contentOf).length,
        s.showText == some (str "SET (a, \"B\") = (1, 'x')"))
     | _ => (false, false, 0, false)) = (true, true, 4, true) := by decide +kernel

/-- non-vacuity: `ROLLBACK WORK AND NO CHAIN TO sp1` prints `ROLLBACK TO SAVEPOINT sp1` -/
example :
    (match Tcl.parseStmt g 300 50 [kw "ROLLBACK", kw "WORK", kw "AND", kw "NO", kw "CHAIN", kw "TO", wd "sp1"] with
     | .ok (s, []) => (s.printable, s.showToks.filterMap contentOf == s.flatten.filterMap contentOf,
        (s.flatten.filterMap contentOf).length,
        s.showText == some (str "ROLLBACK TO SAVEPOINT sp1"))
     | _ => (false, false, 0, false)) = (true, true, 1, true) := by decide +kernel

/-- non-vacuity: `ASSERT a > 0 AS 'm'` -/
example :
    (match Tcl.parseStmt g 300 50 [kw "ASSERT", wd "a", .sym .Gt, num "0", kw "AS", .sqs (str "m")] with
     | .ok (s, []) => (s.printable, s.showToks.filterMap contentOf == s.flatten.filterMap contentOf,
        (s.flatten.filterMap contentOf).length,
        s.showText == some (str "ASSERT a > 0 AS 'm'"))
     | _ => (false, false, 0, false)) = (true, true, 3, true) := by decide +kernel

/-- non-vacuity of the `SET NAMES` side conditions: `SET NAMES utf8mb4 COLLATE utf8mb4_bin` (MySQL) is printable and
prints itself, so does `SET NAMES 'a b' COLLATE "c d"` up to the kind of quotes; so are `SET NAMES DEFAULT` and `SET SESSION CHARACTERISTICS AS TRANSACTION READ ONLY` -/
example :
    (match Tcl.parseStmt my 300 50 [kw "SET", wd "NAMES", wd "utf8mb4", kw "COLLATE", wd "utf8mb4_bin"] with
     | .ok (s, []) => (s.printable, s.showToks.filterMap contentOf == s.flatten.filterMap contentOf,
        (s.flatten.filterMap contentOf).length,
        s.showText == some (str "SET NAMES utf8mb4 COLLATE utf8mb4_bin"))
     | _ => (false, false, 0, false)) = (true, true, 3, true) ∧
    (match Tcl.parseStmt my 300 50 [kw "SET", wd "NAMES", .sqs (str "a b"), kw "COLLATE", .dqs (str "c d")] with
     | .ok (s, []) => (s.printable, s.showToks.filterMap contentOf == s.flatten.filterMap contentOf,
        (s.flatten.filterMap contentOf).length,
        s.showText == some (str "SET NAMES 'a b' COLLATE 'c d'"))
     | _ => (false, false, 0, false)) = (true, true, 3, true) ∧
    contentIO my [kw "SET", wd "NAMES", kw "DEFAULT"] =
      some (true, [.ident (str "NAMES") none], [.ident (str "NAMES") none]) ∧
    contentIO g [kw "SET", kw "SESSION", wd "CHARACTERISTICS", kw "AS", kw "TRANSACTION", kw "READ", kw "ONLY"] =
      some (true, [.ident (str "CHARACTERISTICS") none], [.ident (str "CHARACTERISTICS") none]) ∧
    printsAs g [kw "SET", kw "SESSION", wd "CHARACTERISTICS", kw "AS", kw "TRANSACTION", kw "READ", kw "ONLY"]
      "SET SESSION CHARACTERISTICS AS TRANSACTION READ ONLY" = true := by decide +kernel

/-- **content changed** (excluded shape): `NAMES` is no keyword, `parse_set` finds it by comparing the printed
variable name up to ASCII case, and `Display` writes the literal `SET NAMES`: `set names x` (MySQL, Generic)
comes back as `SET NAMES x` — the identifier `names` the user wrote is now `NAMES` -/
theorem set_names_uppercased :
    contentIO my [kw "SET", wd "names", wd "x"] =
      some (false, [.ident (str "names") none, .ident (str "x") none], [.ident (str "NAMES") none, .ident (str "x") none]) ∧
    printsAs my [kw "SET", wd "names", wd "x"] "SET NAMES x" = true ∧
    contentIO g [kw "SET", wd "names", wd "x"] =
      some (false, [.ident (str "names") none, .ident (str "x") none], [.ident (str "NAMES") none, .ident (str "x") none]) ∧
    printsAs g [kw "SET", wd "names", wd "x"] "SET NAMES x" = true := by decide +kernel

/-- **content changed** (excluded shape): `Display for Statement::SetNames` writes a charset / collation name that
is one plain non-keyword word without quotes, whatever the source had: `SET NAMES 'utf8'` prints `SET NAMES utf8` (the
string comes back as an identifier).  A name that is no plain word is written as a '…' string: `SET NAMES 'a b'` prints
itself and `SET NAMES "a b"` (MySQL: a "…" string) prints `SET NAMES 'a b'` — the string stays a string, these shapes are
`printable` -/
theorem set_names_string_unquoted :
    contentIO my [kw "SET", wd "NAMES", .sqs (str "utf8")] =
      some (false, [.ident (str "NAMES") none, .str (str "utf8")], [.ident (str "NAMES") none, .ident (str "utf8") none]) ∧
    printsAs my [kw "SET", wd "NAMES", .sqs (str "utf8")] "SET NAMES utf8" = true ∧
    contentIO my [kw "SET", wd "NAMES", .sqs (str "a b")] =
      some (true, [.ident (str "NAMES") none, .str (str "a b")], [.ident (str "NAMES") none, .str (str "a b")]) ∧
    printsAs my [kw "SET", wd "NAMES", .sqs (str "a b")] "SET NAMES 'a b'" = true ∧
    contentIO my [kw "SET", wd "NAMES", .dqs (str "a b")] =
      some (true, [.ident (str "NAMES") none, .str (str "a b")], [.ident (str "NAMES") none, .str (str "a b")]) ∧
    printsAs my [kw "SET", wd "NAMES", .dqs (str "a b")] "SET NAMES 'a b'" = true ∧
    contentIO my [kw "SET", wd "NAMES", .sqs (str "select")] =
      some (true, [.ident (str "NAMES") none, .str (str "select")], [.ident (str "NAMES") none, .str (str "select")]) ∧
    printsAs my [kw "SET", wd "NAMES", .sqs (str "select")] "SET NAMES 'select'" = true := by
  decide +kernel

/-- **content changed** (excluded shape), the other direction: a QUOTED WORD that is no plain word comes back as a
string — `SET NAMES "x y"` (Generic: `"x y"` is a delimited identifier) prints `SET NAMES 'x y'`; a quoted plain word
loses its quotes — SET NAMES `utf8` prints `SET NAMES utf8` -/
theorem set_names_word_quoted :
    contentIO g [kw "SET", wd "NAMES", .word (str "x y") (some 34) none] =
      some (false, [.ident (str "NAMES") none, .ident (str "x y") (some 34)], [.ident (str "NAMES") none, .str (str "x y")]) ∧
    printsAs g [kw "SET", wd "NAMES", .word (str "x y") (some 34) none] "SET NAMES 'x y'" = true ∧
    contentIO g [kw "SET", wd "NAMES", .word (str "utf8") (some 96) none] =
      some (false, [.ident (str "NAMES") none, .ident (str "utf8") (some 96)], [.ident (str "NAMES") none, .ident (str "utf8") none]) ∧
    printsAs g [kw "SET", wd "NAMES", .word (str "utf8") (some 96) none] "SET NAMES utf8" = true := by
  decide +kernel

/-- **keywords rewritten, content kept**: `SET TIME ZONE = 'x'` is a plain assignment to the variable `TIMEZONE`
and prints `SET TIMEZONE = 'x'`; `SET TIME ZONE 'x'` prints itself -/
theorem set_time_zone_eq_renamed :
    contentIO g [kw "SET", kw "TIME", kw "ZONE", .sym .Eq, .sqs (str "x")] = some (true, [.str (str "x")], [.str (str "x")]) ∧
    printsAs g [kw "SET", kw "TIME", kw "ZONE", .sym .Eq, .sqs (str "x")] "SET TIMEZONE = 'x'" = true ∧
    contentIO g [kw "SET", kw "TIME", kw "ZONE", .sqs (str "x")] = some (true, [.str (str "x")], [.str (str "x")]) ∧
    printsAs g [kw "SET", kw "TIME", kw "ZONE", .sqs (str "x")] "SET TIME ZONE 'x'" = true ∧
    printsAs g [kw "SET", kw "TIMEZONE", .sqs (str "x")] "SET TIME ZONE 'x'" = true := by decide +kernel

/-- **keywords dropped / rewritten, content kept**: `SET SESSION a TO 1` prints `SET a = 1` -/
theorem set_session_dropped :
    contentIO g [kw "SET", kw "SESSION", wd "a", kw "TO", num "1"] =
      some (true, [.ident (str "a") none, .num (str "1")], [.ident (str "a") none, .num (str "1")]) ∧
    printsAs g [kw "SET", kw "SESSION", wd "a", kw "TO", num "1"] "SET a = 1" = true := by decide +kernel

/-- **content changed** (excluded shape): `CHARACTERISTICS` is no keyword either: `SET session characteristics AS
TRANSACTION READ ONLY` comes back with the identifier in upper case; and (keywords only) `SET CHARACTERISTICS AS
TRANSACTION` without `SESSION` is accepted and printed with `SESSION` -/
theorem characteristics_uppercased :
    contentIO g [kw "SET", kw "SESSION", wd "characteristics", kw "AS", kw "TRANSACTION", kw "READ", kw "ONLY"] =
      some (false, [.ident (str "characteristics") none], [.ident (str "CHARACTERISTICS") none]) ∧
    printsAs g [kw "SET", kw "SESSION", wd "characteristics", kw "AS", kw "TRANSACTION", kw "READ", kw "ONLY"]
      "SET SESSION CHARACTERISTICS AS TRANSACTION READ ONLY" = true ∧
    contentIO g [kw "SET", wd "CHARACTERISTICS", kw "AS", kw "TRANSACTION"] =
      some (true, [.ident (str "CHARACTERISTICS") none], [.ident (str "CHARACTERISTICS") none]) ∧
    printsAs g [kw "SET", wd "CHARACTERISTICS", kw "AS", kw "TRANSACTION"] "SET SESSION CHARACTERISTICS AS TRANSACTION" = true := by
  decide +kernel

/-- **keywords dropped / inserted, content kept**: `COMMIT WORK AND NO CHAIN` prints `COMMIT`, `END` prints `COMMIT`,
`BEGIN WORK` prints `BEGIN TRANSACTION`, `RELEASE a` prints `RELEASE SAVEPOINT a` -/
theorem noise_words_dropped :
    contentIO g [kw "COMMIT", kw "WORK", kw "AND", kw "NO", kw "CHAIN"] = some (true, [], []) ∧
    printsAs g [kw "COMMIT", kw "WORK", kw "AND", kw "NO", kw "CHAIN"] "COMMIT" = true ∧
    printsAs g [kw "END"] "COMMIT" = true ∧
    printsAs g [kw "BEGIN", kw "WORK"] "BEGIN TRANSACTION" = true ∧
    contentIO g [kw "RELEASE", wd "a"] = some (true, [.ident (str "a") none], [.ident (str "a") none]) ∧
    printsAs g [kw "RELEASE", wd "a"] "RELEASE SAVEPOINT a" = true := by decide +kernel

/-- **keyword rewritten**: `DISCARD TEMPORARY` prints `DISCARD TEMP` -/
theorem discard_temporary_renamed :
    contentIO g [kw "DISCARD", kw "TEMPORARY"] = some (true, [], []) ∧
    printsAs g [kw "DISCARD", kw "TEMPORARY"] "DISCARD TEMP" = true ∧
    printsAs g [kw "DISCARD", kw "TEMP"] "DISCARD TEMP" = true := by decide +kernel
end Witnesses

/-- The whole-grammar property (not proved: the statement kinds of the three fragments only; decided by the
content-bag oracle on the real code). -/
def FullStatement {Ast : Type} (parse : List Tok → Option (Ast × List Tok)) (print : Ast → List Tok) : Prop :=
  ∀ ts a, parse ts = some (a, []) → (ts.filterMap contentOf).Perm ((print a).filterMap contentOf)

end SqlVerif.Props.C05Tcl

import SqlVerif.Props.C11Query
import SqlVerif.Lemmas.QueryContent
import SqlVerif.Props.C01
/-!
# C01 on the query fragment — parse → print → parse

`Model/Query.lean` + `Model/QueryPrint.lean` (stream `queries`: S-expression of the real tree and
the real `to_string()` text against the model, byte for byte, all 13 dialects).

What is proved for EVERY configuration, fuel, recursion limit and token list:

* `query_yield` (in `Props/C11Query.lean`) — the tree holds exactly the consumed tokens;
* `query_script_reparse_partial` — the script half of the property: if every printed statement
  re-parses on its own to a tree `q'ᵢ` (`parseStatement (showToks qᵢ) = ok (q'ᵢ, [])`), then the
  printed script `print q₁ ; print q₂ ; …` re-parses, through the real loop model, to exactly
  `[q'₁, …, q'ₙ]` — a consequence of `query_local` (C11): the printed statements do not look past
  the separator.

What is NOT proved, and kept as `def`: `QueryReparseFixpoint` — the statement-level fixpoint
`parseStatement (showToks q) = ok (q', [])` with `q'.sexp = q.sexp` for the printable, shape-normal
queries.  The expression half exists (`Props/C01.lean` `reparse_fixpoint_sub`); the missing piece is
the analogue of `parse_sim` for the ~40 functions of the query layer (the parser takes the same
branches on two token lists with the same `canon1` image).  It is decided instead (a) on the model
by kernel evaluation for the normalisations `Display` performs (`fixpoint_instances`), (b) on the
real code by the stream `queries` (reparse statistics of every accepted line) and the whole-grammar
oracle C01.

Where the current code is NOT a fixpoint inside the fragment: `all_as_identifier_not_fixpoint`.
-/
namespace SqlVerif.Props.C01Query
open SqlVerif.Pratt SqlVerif.Query SqlVerif.Stmts SqlVerif.Gen

/-- the printed script at token level: statements joined by `;` (`Display` of a `Vec<Statement>` as
the round-trip oracle builds it) -/
def printScript : List Query → List Tok
  | [] => []
  | [q] => q.showToks
  | q :: r :: rest => q.showToks ++ semi :: printScript (r :: rest)

/-- script items: printed statement, expected tree, separator after it (`;` between statements) -/
def items : List (Query × Query) → List (List Tok × Query × List Tok)
  | [] => []
  | [p] => [(p.1.showToks, p.2, [])]
  | p :: r :: rest => (p.1.showToks, p.2, [semi]) :: items (r :: rest)

theorem printScript_eq : ∀ qs : List (Query × Query),
    printScript (qs.map (·.1)) = script [] ((items qs).map fun it => (it.1, it.2.2)) := by
  intro qs
  induction qs with
  | nil => rfl
  | cons p rest ih =>
    cases rest with
    | nil => simp [printScript, items, script]
    | cons r rest2 =>
      simp only [List.map_cons, printScript, items, script, List.nil_append] at ih ⊢
      rw [ih]
      cases rest2 <;> simp [items, script]

theorem items_trees : ∀ qs : List (Query × Query), (items qs).map (·.2.1) = qs.map (·.2) := by
  intro qs
  induction qs with
  | nil => rfl
  | cons p rest ih =>
    cases rest with
    | nil => rfl
    | cons r rest2 => simp only [items, List.map_cons] at ih ⊢; rw [ih]

theorem items_mem : ∀ (qs : List (Query × Query)) (it : List Tok × Query × List Tok), it ∈ items qs →
    (∃ p ∈ qs, it.1 = p.1.showToks ∧ it.2.1 = p.2) ∧ (it.2.2 = [] ∨ it.2.2 = [semi]) := by
  intro qs
  induction qs with
  | nil => intro it h; simp [items] at h
  | cons p rest ih =>
    intro it h
    cases rest with
    | nil =>
      simp [items] at h; subst h
      exact ⟨⟨p, by simp, rfl, rfl⟩, Or.inl rfl⟩
    | cons r rest2 =>
      simp only [items, List.mem_cons] at h
      rcases h with rfl | h
      · exact ⟨⟨p, by simp, rfl, rfl⟩, Or.inr rfl⟩
      · obtain ⟨⟨q, hq, h1, h2⟩, h3⟩ := ih it (by simpa [items] using h)
        exact ⟨⟨q, by simp at hq ⊢; exact Or.inr hq, h1, h2⟩, h3⟩

theorem items_inner : ∀ qs : List (Query × Query),
    InnerSepsNonEmpty ((items qs).map fun it => (it.1, it.2.2)) := by
  intro qs
  induction qs with
  | nil => trivial
  | cons p rest ih =>
    cases rest with
    | nil => trivial
    | cons r rest2 =>
      cases rest2 with
      | nil => exact ⟨by simp, trivial⟩
      | cons r2 rest3 => exact ⟨by simp, by simpa [items] using ih⟩

/-- **script half of parse → print → parse**: printed statements that re-parse one by one re-parse
as a script, to the same trees in the same order -/
theorem query_script_reparse_partial (c : QCfg) (fuel limit : Nat) (qs : List (Query × Query))
    (h : ∀ p ∈ qs, parseStatement c fuel limit p.1.showToks = .ok (p.2, [])) :
    parseScript c fuel limit (printScript (qs.map (·.1))) = .ok (qs.map (·.2)) := by
  rw [printScript_eq, ← items_trees]
  refine SqlVerif.Props.C11Query.script_concat_queries c fuel limit (items qs) [] (by intro t ht; cases ht) ?_ ?_
    (items_inner qs)
  · intro it hit t ht
    rcases (items_mem qs it hit).2 with h0 | h0
    · rw [h0] at ht; cases ht
    · rw [h0] at ht; simp at ht; subst ht; rfl
  · intro it hit
    obtain ⟨⟨p, hp, h1, h2⟩, _⟩ := items_mem qs it hit
    rw [h1, h2]; exact h p hp

/-- the statement-level fixpoint for the modelled queries (token level).  NOT proved: needs the
query-layer analogue of `Pratt.parse_sim`; decided by evaluation on instances (below), by the stream
`queries` and by the oracle C01 on the real code. -/
def QueryReparseFixpoint (normalShape : Query → Bool) : Prop :=
  ∀ (c : QCfg) (fuel limit : Nat) (ts : List Tok) (q : Query),
    parseStatement c fuel limit ts = .ok (q, []) → q.printable = true → normalShape q = true →
    ∃ q', parseStatement c fuel limit q.showToks = .ok (q', []) ∧ q'.sexp = q.sexp

/-- the whole-grammar property -/
def FullStatement {Ast : Type} (parse : List Nat → Option (List Ast)) (print : Ast → List Nat) : Prop :=
  ∀ s as, parse s = some as → ∀ a ∈ as, parse (print a) = some [a]

-- ------------------------------------------------------------------ instances
section Examples
def g : QCfg := (QCfg.ofRow dialect_generic).withTrailing true
def wd (s : String) : Tok := .word (str s) none none
def kw (s : String) : Tok := .word (str s) none (some (kwIndex s))
def lw (s : String) (k : String) : Tok := .word (str s) none (some (kwIndex k))
def num (s : String) : Tok := .number (str s) false

/-- parse, print, parse again: (printable, same S-expression, printing is idempotent) -/
def roundTrip (ts : List Tok) : Option (Bool × Bool × Bool) :=
  match parseStatement g 400 50 ts with
  | .ok (q, []) =>
    match parseStatement g 400 50 q.showToks with
    | .ok (q', []) => some (q.printable, q'.sexp == q.sexp, q'.showToks == q.showToks)
    | _ => some (q.printable, false, false)
  | _ => none

/-- every normalisation `Display` performs inside the fragment re-parses to the same tree:
lower-case keywords, `SELECT ALL`, alias without `AS`, `INNER` / `OUTER`, trailing commas,
`USING (…)`, `LIMIT ALL`, `OFFSET … LIMIT …`, MySQL `LIMIT a, b`, set operations with quantifiers,
parenthesised bodies and derived tables -/
theorem fixpoint_instances :
    [ [lw "select" "SELECT", kw "ALL", wd "a", wd "x", .sym .Comma, wd "t", .sym .Period, .sym .Mul, .sym .Comma, lw "from" "FROM", wd "t",
       wd "u", kw "INNER", kw "JOIN", wd "v", kw "USING", .sym .LParen, wd "k", .sym .Comma, .sym .RParen, kw "LEFT", kw "OUTER", kw "JOIN",
       wd "w", kw "ON", wd "a", .sym .DoubleEq, wd "b", kw "GROUP", kw "BY", wd "a", .sym .Comma, kw "HAVING", wd "c"],
      [kw "SELECT", wd "a", kw "OFFSET", num "1", kw "ROW", kw "LIMIT", num "2"],
      [kw "SELECT", wd "a", kw "LIMIT", num "1", .sym .Comma, num "2"],
      [kw "SELECT", wd "a", kw "LIMIT", kw "ALL", kw "OFFSET", num "3"],
      [.sym .LParen, kw "SELECT", num "1", .sym .RParen, kw "UNION", kw "ALL", kw "BY", kw "NAME", kw "SELECT", .sym .Mul, kw "FROM",
       .sym .LParen, kw "SELECT", num "2", kw "ORDER", kw "BY", num "1", kw "DESC", kw "NULLS", kw "LAST", .sym .RParen, wd "d",
       kw "INTERSECT", kw "SELECT", num "3", kw "ORDER", kw "BY", wd "x", .sym .Comma, kw "LIMIT", num "1"] ].map roundTrip =
    [some (true, true, true), some (false, true, true), some (false, true, true), some (true, true, true), some (true, true, true)] := by
  decide +kernel

/-- **Not a fixpoint inside the fragment (current code, replayed on the real parser by the stream
`queries`)**: `SELECT ALL ALL a` — the first `ALL` is the quantifier, the second an identifier
(`parse_prefix` reads keywords as column names) with alias `a`; `Display` drops the quantifier and
prints the identifier unquoted: `SELECT ALL AS a`, which parses as the column `AS` with alias `a`. -/
theorem all_as_identifier_not_fixpoint :
    roundTrip [kw "SELECT", kw "ALL", kw "ALL", wd "a"] = some (true, false, false) ∧
    (match parseStatement g 400 50 [kw "SELECT", kw "ALL", kw "ALL", wd "a"] with
     | .ok (q, []) => q.showText
     | _ => none) = some (str "SELECT ALL AS a") := by decide +kernel
end Examples

end SqlVerif.Props.C01Query

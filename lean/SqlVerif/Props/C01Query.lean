import SqlVerif.Props.C11Query
import SqlVerif.Lemmas.QueryContent
import SqlVerif.Props.C01
import SqlVerif.Lemmas.QueryFix
/-!
# C01 on the query fragment — parse → print → parse

`Model/Query.lean` + `Model/QueryPrint.lean` (stream `queries`: S-expression of the real tree and
the real `to_string()` text against the model, byte for byte, all 13 dialects).

What is proved for EVERY configuration, fuel, recursion limit and token list:

* `query_yield` (in `Props/C11Query.lean`) — the tree holds exactly the consumed tokens;
* `query_script_reparse_partial` — the script half of the property: if every printed statement
  re-parses on its own to a tree `q'ᵢ` (`parseStatement (showToks qᵢ) = ok (q'ᵢ, [])`), then the
  printed script `print q₁ ; print q₂ ; …` re-parses, through the real loop model, to exactly
  `[q'₁, …, q'ₙ]` — a consequence of `query_local` (C11): the printed statements do not look past
  the separator.

* `query_norm_invariant` — the statement parser respects the token image `qc` (same branches, trees
  with the same image, rests with the same image) — the query-layer analogue of `C01.norm_invariant`
  (`Lemmas/QuerySim.lean`: one lemma per function of `Model/Query.lean`, fuel induction over the
  mutual block);
* `query_printer_emits_normal_forms` — for printable trees of normal shape over lexer-like tokens the
  printed tokens are, token by token, the consumed ones up to `qc` (`Lemmas/QueryWF.lean`: what the
  parser guarantees of its trees; `Lemmas/QueryFaithful.lean`: the structural argument);
* `query_reparse_fixpoint_partial` (+ `_sub` with a continuation, `query_reparse_fixpoint_normal` in the
  form of the property, `query_script_fixpoint_partial` for scripts) — **the statement-level fixpoint**:
  `parseStatement ts = ok (q, [])`, `q.printable`, `q.normal`, `LexOk ts` ⟹
  `parseStatement q.showToks = ok (q.norm, [])` with the same fuel and limit, and `q.norm.sexp = q.sexp`.

Side conditions (all decidable, all satisfiable — examples at the end):
* `Query.printable` (`Lemmas/QueryContent.lean`): every expression is `Expr.printable` (C01), and the
  LIMIT / OFFSET clauses come in printing order;
* `Query.normal` (`Lemmas/QueryFaithful.lean`): the shapes `Display` prints token by token — an alias is
  absent or written with `AS`; no `SELECT ALL`; joins written without `INNER` / `OUTER`; no trailing
  comma; at most `LIMIT e` then `OFFSET e` (no `LIMIT ALL`, no `LIMIT a, b`, no `OFFSET … LIMIT …`);
* `LexOk ts`: every keyword token of the input is as a lexer makes it (unquoted, no leading underscore, no
  period, spelled `from` up to case exactly when it is `FROM`) — the parser looks at the spelling of a
  word in `SELECT from …` (`isBareFrom`) and in BigQuery table names.

What is NOT proved: the fixpoint for the shapes `Display` re-writes (alias without `AS`, `SELECT ALL`,
`INNER` / `OUTER`, trailing commas, `LIMIT ALL`, re-ordered LIMIT / OFFSET).  There the printed token list
is not an image of the source; the proof would need that the expression parser stops at an inserted `AS`
exactly where it stopped at the alias.  `QueryReparseFixpoint` stays a `def` for arbitrary shape
predicates; these shapes are decided (a) on the model by kernel evaluation (`fixpoint_instances`,
`rewritten_shapes_reparse_to_norm`), (b) on the real code by the stream `queries` and the oracle C01.

Where the current code is NOT a fixpoint inside the fragment: `all_as_identifier_not_fixpoint`.
-/
namespace SqlVerif.Props.C01Query
open SqlVerif.Pratt SqlVerif.Query SqlVerif.Stmts SqlVerif.Gen

/-- the printed script at token level: statements joined by `;` (`Display` of a `Vec<Statement>` as
the round-trip oracle builds it) -/
def printScript : List Query → List Tok
  | [] => []
  | [q] => q.showToks
  | q :: r :: rest => q.showToks ++ semi :: printScript (r :: rest)

/-- script items: printed statement, expected tree, separator after it (`;` between statements) -/
def items : List (Query × Query) → List (List Tok × Query × List Tok)
  | [] => []
  | [p] => [(p.1.showToks, p.2, [])]
  | p :: r :: rest => (p.1.showToks, p.2, [semi]) :: items (r :: rest)

theorem printScript_eq : ∀ qs : List (Query × Query),
    printScript (qs.map (·.1)) = script [] ((items qs).map fun it => (it.1, it.2.2)) := by
  intro qs
  induction qs with
  | nil => rfl
  | cons p rest ih =>
    cases rest with
    | nil => simp [printScript, items, script]
    | cons r rest2 =>
      simp only [List.map_cons, printScript, items, script, List.nil_append] at ih ⊢
      rw [ih]
      cases rest2 <;> simp [items, script]

theorem items_trees : ∀ qs : List (Query × Query), (items qs).map (·.2.1) = qs.map (·.2) := by
  intro qs
  induction qs with
  | nil => rfl
  | cons p rest ih =>
    cases rest with
    | nil => rfl
    | cons r rest2 => simp only [items, List.map_cons] at ih ⊢; rw [ih]

theorem items_mem : ∀ (qs : List (Query × Query)) (it : List Tok × Query × List Tok), it ∈ items qs →
    (∃ p ∈ qs, it.1 = p.1.showToks ∧ it.2.1 = p.2) ∧ (it.2.2 = [] ∨ it.2.2 = [semi]) := by
  intro qs
  induction qs with
  | nil => intro it h; simp [items] at h
  | cons p rest ih =>
    intro it h
    cases rest with
    | nil =>
      simp [items] at h; subst h
      exact ⟨⟨p, by simp, rfl, rfl⟩, Or.inl rfl⟩
    | cons r rest2 =>
      simp only [items, List.mem_cons] at h
      rcases h with rfl | h
      · exact ⟨⟨p, by simp, rfl, rfl⟩, Or.inr rfl⟩
      · obtain ⟨⟨q, hq, h1, h2⟩, h3⟩ := ih it (by simpa [items] using h)
        exact ⟨⟨q, by simp at hq ⊢; exact Or.inr hq, h1, h2⟩, h3⟩

theorem items_inner : ∀ qs : List (Query × Query),
    InnerSepsNonEmpty ((items qs).map fun it => (it.1, it.2.2)) := by
  intro qs
  induction qs with
  | nil => trivial
  | cons p rest ih =>
    cases rest with
    | nil => trivial
    | cons r rest2 =>
      cases rest2 with
      | nil => exact ⟨by simp, trivial⟩
      | cons r2 rest3 => exact ⟨by simp, by simpa [items] using ih⟩

/-- **script half of parse → print → parse**: printed statements that re-parse one by one re-parse
as a script, to the same trees in the same order -/
theorem query_script_reparse_partial (c : QCfg) (fuel limit : Nat) (qs : List (Query × Query))
    (h : ∀ p ∈ qs, parseStatement c fuel limit p.1.showToks = .ok (p.2, [])) :
    parseScript c fuel limit (printScript (qs.map (·.1))) = .ok (qs.map (·.2)) := by
  rw [printScript_eq, ← items_trees]
  refine SqlVerif.Props.C11Query.script_concat_queries c fuel limit (items qs) [] (by intro t ht; cases ht) ?_ ?_
    (items_inner qs)
  · intro it hit t ht
    rcases (items_mem qs it hit).2 with h0 | h0
    · rw [h0] at ht; cases ht
    · rw [h0] at ht; simp at ht; subst ht; rfl
  · intro it hit
    obtain ⟨⟨p, hp, h1, h2⟩, _⟩ := items_mem qs it hit
    rw [h1, h2]; exact h p hp

-- ------------------------------------------------------------------ the statement-level fixpoint
/-- **norm-invariance at the query layer** (`Lemmas/QuerySim.lean`): on two token lists with the same
observable image `qc` (identifiers, numbers, strings literally; of a keyword token its keyword, quote
style, and whether it is spelled `from` / starts with `_` / contains `.`; `==` = `=`) the statement
parser succeeds on both or on none, takes the same branches (trees with the same image slot by slot)
and leaves rests with the same image — every dialect record, both option values, every fuel and limit -/
theorem query_norm_invariant (c : QCfg) (fuel limit : Nat) (a b : List Tok) (q : Query) (r : List Tok)
    (hs : a.map qc = b.map qc) (h : parseStatement c fuel limit a = .ok (q, r)) :
    ∃ q' r', parseStatement c fuel limit b = .ok (q', r') ∧ q'.mapT qc = q.mapT qc ∧ r'.map qc = r.map qc :=
  parseStatement_sim2 c fuel limit hs h

/-- what every lexer-made token list satisfies: a keyword token is unquoted, does not start with an
underscore, contains no period, and is spelled `from` (up to case) exactly when it is `FROM` -/
abbrev LexOk (ts : List Tok) : Prop := ts.all tokOk = true

/-- **the printer emits normal forms**: for an accepted statement whose tree is `printable`
(`Lemmas/QueryContent.lean`: every expression printable, LIMIT / OFFSET in printing order) and of
`normal` shape (`Lemmas/QueryFaithful.lean`: aliases written with `AS`, no `SELECT ALL`, joins without
`INNER` / `OUTER`, no trailing comma, no `LIMIT ALL`, no `LIMIT a, b`, `LIMIT` before `OFFSET`), the
printed tokens are, token by token, the consumed tokens up to the image `qc` -/
theorem query_printer_emits_normal_forms (c : QCfg) (fuel limit : Nat) (ts : List Tok) (q : Query) (rest : List Tok)
    (h : parseStatement c fuel limit ts = .ok (q, rest)) (hp : q.printable = true) (hn : q.normal = true)
    (ht : LexOk ts) : ∃ pre, ts = pre ++ rest ∧ pre.map qc = q.showToks.map qc := by
  refine ⟨q.flatten, parseStatement_yield c fuel limit ts q rest h, ?_⟩
  have hf := norm_faithful q (parse_wf c fuel limit ts q rest h) hn hp (flatten_tokOk c fuel limit ts q rest h ht)
  rw [showToks_eq_norm, ← query_flatten_qc, ← query_flatten_qc, hf]

/-- re-parsing the printed statement in front of any continuation that looks like the original one -/
theorem query_reparse_fixpoint_sub (c : QCfg) (fuel limit : Nat) (ts : List Tok) (q : Query) (rest rest' : List Tok)
    (h : parseStatement c fuel limit ts = .ok (q, rest)) (hp : q.printable = true) (hn : q.normal = true)
    (ht : LexOk ts) (hr : rest.map qc = rest'.map qc) :
    parseStatement c fuel limit (q.showToks ++ rest') = .ok (q.norm, rest') :=
  query_reparse_sub c fuel limit ts q rest rest' h hp hn ht hr

/-- **parse → print → parse is a fixpoint** on the query fragment (token level), for EVERY dialect
record, option value, fuel, recursion limit and token list: if the statement parser accepts `ts`
completely with tree `q`, `q` is printable and of normal shape and `ts` is lexer-like, then parsing the
printed tokens — with the same fuel and limit — gives `q.norm`, the tree itself with every stored
token replaced by the printed one, and `q.norm` holds the same AST as `q` (`sexp`). -/
theorem query_reparse_fixpoint_partial (c : QCfg) (fuel limit : Nat) (ts : List Tok) (q : Query)
    (h : parseStatement c fuel limit ts = .ok (q, [])) (hp : q.printable = true) (hn : q.normal = true)
    (ht : LexOk ts) :
    parseStatement c fuel limit q.showToks = .ok (q.norm, []) ∧ q.norm.sexp = q.sexp := by
  have := query_reparse_sub c fuel limit ts q [] [] h hp hn ht rfl
  simp only [List.append_nil] at this
  exact ⟨this, query_sexp_norm q⟩

/-- the statement-level fixpoint for the modelled queries (token level), in the form of the property.
PROVED for `normalShape := Query.normal` and lexer-like input: `query_reparse_fixpoint_normal`.
Not proved for the shapes `Display` re-writes (alias without `AS`, `SELECT ALL`, `INNER` / `OUTER`,
trailing commas, `LIMIT ALL`, `OFFSET … LIMIT …`): there the printed token list is not a token-by-token
image of the source and the argument needs, in addition, that the expression parser stops at an inserted
`AS` where it stopped at the alias; decided by evaluation on instances (`fixpoint_instances`), by the
stream `queries` and by the oracle C01 on the real code. -/
def QueryReparseFixpoint (normalShape : Query → Bool) : Prop :=
  ∀ (c : QCfg) (fuel limit : Nat) (ts : List Tok) (q : Query),
    parseStatement c fuel limit ts = .ok (q, []) → LexOk ts → q.printable = true → normalShape q = true →
    ∃ q', parseStatement c fuel limit q.showToks = .ok (q', []) ∧ q'.sexp = q.sexp

theorem query_reparse_fixpoint_normal : QueryReparseFixpoint Query.normal := by
  intro c fuel limit ts q h ht hp hn
  exact ⟨q.norm, query_reparse_fixpoint_partial c fuel limit ts q h hp hn ht⟩

/-- **script level**: statements accepted one by one (each printable, of normal shape, lexer-like)
print to a script `print q₁ ; print q₂ ; …` that the statements loop parses back to the normal forms
`[q₁.norm, …]`, which hold the same ASTs -/
theorem query_script_fixpoint_partial (c : QCfg) (fuel limit : Nat) (srcs : List (List Tok × Query))
    (h : ∀ p ∈ srcs, parseStatement c fuel limit p.1 = .ok (p.2, []) ∧ LexOk p.1 ∧ p.2.printable = true ∧
      p.2.normal = true) :
    parseScript c fuel limit (printScript (srcs.map (·.2))) = .ok (srcs.map (·.2.norm)) ∧
      (srcs.map (·.2.norm.sexp)) = srcs.map (·.2.sexp) := by
  have := query_script_reparse_partial c fuel limit (srcs.map fun p => (p.2, p.2.norm)) (by
    intro p hp
    simp only [List.mem_map] at hp
    obtain ⟨s, hs, rfl⟩ := hp
    obtain ⟨h1, h2, h3, h4⟩ := h s hs
    exact (query_reparse_fixpoint_partial c fuel limit s.1 s.2 h1 h3 h4 h2).1)
  simp only [List.map_map, Function.comp_def] at this
  exact ⟨this, by simp [query_sexp_norm]⟩

/-- the whole-grammar property -/
def FullStatement {Ast : Type} (parse : List Nat → Option (List Ast)) (print : Ast → List Nat) : Prop :=
  ∀ s as, parse s = some as → ∀ a ∈ as, parse (print a) = some [a]

-- ------------------------------------------------------------------ instances
section Examples
def g : QCfg := (QCfg.ofRow dialect_generic).withTrailing true
def wd (s : String) : Tok := .word (str s) none none
def kw (s : String) : Tok := .word (str s) none (some (kwIndex s))
def lw (s : String) (k : String) : Tok := .word (str s) none (some (kwIndex k))
def num (s : String) : Tok := .number (str s) false

/-- parse, print, parse again: (printable, same S-expression, printing is idempotent) -/
def roundTrip (ts : List Tok) : Option (Bool × Bool × Bool) :=
  match parseStatement g 400 50 ts with
  | .ok (q, []) =>
    match parseStatement g 400 50 q.showToks with
    | .ok (q', []) => some (q.printable, q'.sexp == q.sexp, q'.showToks == q.showToks)
    | _ => some (q.printable, false, false)
  | _ => none

/-- every normalisation `Display` performs inside the fragment re-parses to the same tree:
lower-case keywords, `SELECT ALL`, alias without `AS`, `INNER` / `OUTER`, trailing commas,
`USING (…)`, `LIMIT ALL`, `OFFSET … LIMIT …`, MySQL `LIMIT a, b`, set operations with quantifiers,
parenthesised bodies and derived tables -/
theorem fixpoint_instances :
    [ [lw "select" "SELECT", kw "ALL", wd "a", wd "x", .sym .Comma, wd "t", .sym .Period, .sym .Mul, .sym .Comma, lw "from" "FROM", wd "t",
       wd "u", kw "INNER", kw "JOIN", wd "v", kw "USING", .sym .LParen, wd "k", .sym .Comma, .sym .RParen, kw "LEFT", kw "OUTER", kw "JOIN",
       wd "w", kw "ON", wd "a", .sym .DoubleEq, wd "b", kw "GROUP", kw "BY", wd "a", .sym .Comma, kw "HAVING", wd "c"],
      [kw "SELECT", wd "a", kw "OFFSET", num "1", kw "ROW", kw "LIMIT", num "2"],
      [kw "SELECT", wd "a", kw "LIMIT", num "1", .sym .Comma, num "2"],
      [kw "SELECT", wd "a", kw "LIMIT", kw "ALL", kw "OFFSET", num "3"],
      [.sym .LParen, kw "SELECT", num "1", .sym .RParen, kw "UNION", kw "ALL", kw "BY", kw "NAME", kw "SELECT", .sym .Mul, kw "FROM",
       .sym .LParen, kw "SELECT", num "2", kw "ORDER", kw "BY", num "1", kw "DESC", kw "NULLS", kw "LAST", .sym .RParen, wd "d",
       kw "INTERSECT", kw "SELECT", num "3", kw "ORDER", kw "BY", wd "x", .sym .Comma, kw "LIMIT", num "1"] ].map roundTrip =
    [some (true, true, true), some (false, true, true), some (false, true, true), some (true, true, true), some (true, true, true)] := by
  decide +kernel

/-- **Not a fixpoint inside the fragment (current code, replayed on the real parser by the stream
`queries`)**: `SELECT ALL ALL a` — the first `ALL` is the quantifier, the second an identifier
(`parse_prefix` reads keywords as column names) with alias `a`; `Display` drops the quantifier and
prints the identifier unquoted: `SELECT ALL AS a`, which parses as the column `AS` with alias `a`. -/
theorem all_as_identifier_not_fixpoint :
    roundTrip [kw "SELECT", kw "ALL", kw "ALL", wd "a"] = some (true, false, false) ∧
    (match parseStatement g 400 50 [kw "SELECT", kw "ALL", kw "ALL", wd "a"] with
     | .ok (q, []) => q.showText
     | _ => none) = some (str "SELECT ALL AS a") := by decide +kernel

-- ------------------------------------------------------------------ non-vacuity of the fixpoint theorems
/-- `select distinct a AS x, t.* from t AS u JOIN v USING (k) LEFT JOIN w ON a == b where c GROUP BY a
HAVING c UNION ALL (SELECT 1 ORDER BY 1 DESC NULLS LAST LIMIT 2 OFFSET 3 ROWS)` -/
def sampleN : List Tok :=
  [lw "select" "SELECT", lw "distinct" "DISTINCT", wd "a", kw "AS", wd "x", .sym .Comma, wd "t", .sym .Period, .sym .Mul,
   lw "from" "FROM", wd "t", kw "AS", wd "u", kw "JOIN", wd "v", kw "USING", .sym .LParen, wd "k", .sym .RParen,
   kw "LEFT", kw "JOIN", wd "w", kw "ON", wd "a", .sym .DoubleEq, wd "b", lw "where" "WHERE", wd "c",
   kw "GROUP", kw "BY", wd "a", kw "HAVING", wd "c", kw "UNION", kw "ALL", .sym .LParen, kw "SELECT", num "1",
   kw "ORDER", kw "BY", num "1", kw "DESC", kw "NULLS", kw "LAST", kw "LIMIT", num "2", kw "OFFSET", num "3", kw "ROWS",
   .sym .RParen]

/-- the hypotheses of `query_reparse_fixpoint_partial` hold on `sampleN`: accepted completely,
printable, of normal shape, lexer-like; the printed form differs from the source and the tree differs
from its normal form (keyword spelling, `==`) -/
theorem sampleN_hyps :
    (match parseStatement g 400 50 sampleN with
     | .ok (q, []) => some (q.printable, q.normal, sampleN.all tokOk, q.showToks == sampleN, q.norm == q)
     | _ => none) = some (true, true, true, false, false) := by decide +kernel

example : ∀ q, parseStatement g 400 50 sampleN = .ok (q, []) → q.printable = true → q.normal = true →
    parseStatement g 400 50 q.showToks = .ok (q.norm, []) ∧ q.norm.sexp = q.sexp :=
  fun q h hp hn => query_reparse_fixpoint_partial g 400 50 sampleN q h hp hn (by decide +kernel)

/-- the same statement in another spelling: same image, other tokens (`query_norm_invariant`,
`query_printer_emits_normal_forms`) -/
def sampleN' : List Tok :=
  sampleN.map fun t => match t with
    | .word v q (some k) => if v == str "SELECT" then .word (str "Select") q (some k) else t
    | .sym .DoubleEq => .sym .Eq
    | t => t

example : sampleN.map qc = sampleN'.map qc ∧ (sampleN == sampleN') = false := by decide +kernel

example : ∀ q r, parseStatement g 400 50 sampleN = .ok (q, r) →
    ∃ q' r', parseStatement g 400 50 sampleN' = .ok (q', r') ∧ q'.mapT qc = q.mapT qc ∧ r'.map qc = r.map qc :=
  fun q r h => query_norm_invariant g 400 50 sampleN sampleN' q r (by decide +kernel) h

/-- script level: two statements -/
example : ∀ q1 q2, parseStatement g 400 50 sampleN = .ok (q1, []) → q1.printable = true → q1.normal = true →
    parseStatement g 400 50 [kw "SELECT", wd "a"] = .ok (q2, []) → q2.printable = true → q2.normal = true →
    parseScript g 400 50 (printScript [q1, q2]) = .ok [q1.norm, q2.norm] := by
  intro q1 q2 h1 p1 n1 h2 p2 n2
  have := (query_script_fixpoint_partial g 400 50 [(sampleN, q1), ([kw "SELECT", wd "a"], q2)] (by
    intro p hp
    simp only [List.mem_cons, List.mem_nil_iff, or_false] at hp
    rcases hp with rfl | rfl
    · exact ⟨h1, (by decide +kernel : LexOk sampleN), p1, n1⟩
    · exact ⟨h2, (by decide +kernel : LexOk [kw "SELECT", wd "a"]), p2, n2⟩)).1
  simpa using this

/-- the shapes outside `normal` that `Display` re-writes (alias without `AS`, `SELECT ALL`, `INNER`,
`OUTER`, trailing commas, `LIMIT ALL`): not of normal shape, and — by evaluation — they too re-parse
to `q.norm`; `LIMIT a, b` and `OFFSET a LIMIT b` are not printable -/
def reparseNorm (ts : List Tok) : Option (Bool × Bool × Bool) :=
  match parseStatement g 400 50 ts with
  | .ok (q, []) =>
    match parseStatement g 400 50 q.showToks with
    | .ok (q', []) => some (q.printable, q.normal, q' == q.norm)
    | _ => some (q.printable, q.normal, false)
  | _ => none

theorem rewritten_shapes_reparse_to_norm :
    [ [kw "SELECT", wd "a", wd "x", kw "FROM", wd "t", wd "u"],
      [kw "SELECT", kw "ALL", wd "a"],
      [kw "SELECT", wd "a", kw "FROM", wd "t", kw "INNER", kw "JOIN", wd "v", kw "ON", wd "a", kw "LEFT", kw "OUTER", kw "JOIN",
       wd "w", kw "ON", wd "b"],
      [kw "SELECT", wd "a", .sym .Comma, kw "FROM", wd "t", .sym .Comma],
      [kw "SELECT", wd "a", kw "LIMIT", kw "ALL"],
      [kw "SELECT", wd "a", kw "OFFSET", num "1", kw "LIMIT", num "2"],
      [kw "SELECT", wd "a", kw "LIMIT", num "1", .sym .Comma, num "2"] ].map reparseNorm =
    [some (true, false, true), some (true, false, true), some (true, false, true), some (true, false, true),
     some (true, false, true), some (false, false, true), some (false, false, true)] := by
  decide +kernel
end Examples

end SqlVerif.Props.C01Query

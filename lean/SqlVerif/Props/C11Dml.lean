import SqlVerif.Lemmas.DmlExt
import SqlVerif.Props.C11
/-!
# C11 on the statement fragment — INSERT / UPDATE / DELETE / CREATE TABLE / DROP TABLE / queries are local, scripts of them concatenate

`Model/Dml.lean` mirrors `parse_statement` → `parse_insert` / `parse_update` / `parse_delete` /
`parse_create` → `parse_create_table` → `parse_columns` → `parse_column_def` / `parse_drop` /
`parse_query` (incl. `VALUES`) on real tokens (stream `dml`: S-expressions and `to_string()` against
the real `parse_statements()`, all 13 dialects, both values of the trailing-comma option).  For
EVERY configuration record, fuel, recursion limit and token list:

* `stmt_yield`: a successful statement parse consumes a prefix of the tokens — exactly the tokens
  the returned tree keeps (`Stmt.flatten`);
* `stmt_local`: if the modelled statement parser accepts the text `s` completely, it is *local* on
  `s` in the sense of `SqlVerif.Stmts.LocalOn`: followed by EOF or by `;` and anything else it
  returns the same tree and stops exactly in front of the `;` — it never looks past the separator
  (`stmt_semi` is the same for a statement that stops earlier).  Proof: every parser function of
  the model repeats a successful run when `; …` is appended to its input (`Lemmas/DmlExt.lean`, on
  top of the same facts for the Pratt model, the query model and — `Lemmas/DmlDT.lean` — the
  non-recursive arms of the data-type model);
* `script_concat_dml`: hence (`script_concat` of `Props/C11.lean`) a script
  `;* s₁ ;+ s₂ ;+ … sₙ ;*` of accepted statements, in any separator layout, parses — with the REAL
  loop model `parseStatements` of `Model/Stmts.lean` around the statement model — to `[a₁, …, aₙ]`.

Partial: the six statement kinds of the fragment; the other statement parsers are decided by the
follower oracle on the real code.
-/
namespace SqlVerif.Props.C11Dml
open SqlVerif.Pratt SqlVerif.Query SqlVerif.Dml SqlVerif.Stmts

/-- **yield**: a successful statement parse consumes a prefix of the tokens: `ts = pre ++ rest`,
and `pre` is the in-order token yield of the returned tree -/
theorem stmt_yield (c : DCfg) (fuel limit : Nat) (ts : List Tok) (s : Stmt) (rest : List Tok)
    (h : parseStmt c fuel limit ts = .ok (s, rest)) : ∃ pre, ts = pre ++ rest ∧ pre = s.flatten :=
  ⟨s.flatten, parseStmt_yield c fuel limit ts s rest h, rfl⟩

/-- a statement parsed on `pre ++ rest` leaving `rest` is parsed identically on `pre ++ ; :: anything`
(instance `rest = []` of the extension lemma; the general form is `parseStmt_semi`) -/
theorem stmt_semi (c : DCfg) (fuel limit : Nat) (pre : List Tok) (s : Stmt) (anything : List Tok)
    (h : parseStmt c fuel limit pre = .ok (s, [])) :
    parseStmt c fuel limit (pre ++ semi :: anything) = .ok (s, semi :: anything) := by
  simpa using parseStmt_semi c anything fuel limit pre s [] h

theorem isSemi_eq {t : Tok} (h : stmtClass.isSemi t = true) : t = semi := by
  simp only [stmtClass, Tok.isSym] at h
  split at h
  · simp at h; subst h; rfl
  · simp at h

/-- **the modelled statement parser is local** on every statement text it accepts completely -/
theorem stmt_local (c : DCfg) (fuel limit : Nat) (s : List Tok) (a : Stmt)
    (h : parseStmt c fuel limit s = .ok (a, [])) :
    LocalOn stmtClass (parseStmt c fuel limit) s a := by
  intro fo hf
  rcases hf with rfl | ⟨t, r, rfl, ht⟩
  · simpa using h
  · rw [isSemi_eq ht]
    exact stmt_semi c fuel limit s a r h

/-- an accepted statement text begins a statement -/
theorem stmt_starts (c : DCfg) (fuel limit : Nat) (s : List Tok) (a : Stmt) (rest : List Tok)
    (h : parseStmt c fuel limit s = .ok (a, rest)) : StartsStmt stmtClass s := by
  obtain ⟨t, r, hs, hn⟩ := parseStmt_starts c fuel limit s a rest h
  exact ⟨t, r, hs, hn⟩

/-- **a script of modelled statements parses to the list of their trees**, whatever the layout of
separators (leading, trailing, repeated `;`) -/
theorem script_concat_dml (c : DCfg) (fuel limit : Nat) (items : List (List Tok × Stmt × List Tok))
    (sep0 : List Tok) (hs0 : AllSemis stmtClass sep0) (hsep : ∀ it ∈ items, AllSemis stmtClass it.2.2)
    (hacc : ∀ it ∈ items, parseStmt c fuel limit it.1 = .ok (it.2.1, []))
    (hinner : InnerSepsNonEmpty (items.map fun it => (it.1, it.2.2))) :
    parseScript c fuel limit (script sep0 (items.map fun it => (it.1, it.2.2))) = .ok (items.map (·.2.1)) :=
  SqlVerif.Props.C11.script_concat stmtClass (parseStmt c fuel limit) items sep0 hs0 hsep
    (fun it hit => stmt_starts c fuel limit _ _ _ (hacc it hit))
    (fun it hit => stmt_local c fuel limit _ _ (hacc it hit)) hinner

-- ------------------------------------------------------------------ non-vacuity
section Examples
open SqlVerif.Gen
def g : DCfg := DCfg.ofRow dialect_generic
def wd (s : String) : Tok := .word (str s) none none
def kw (s : String) : Tok := .word (str s) none (some (kwIndex s))
def num (s : String) : Tok := .number (str s) false
def lp : Tok := .sym .LParen
def rp : Tok := .sym .RParen
def cm : Tok := .sym .Comma

/-- `INSERT INTO t (a, b) VALUES (1, 'x'), (2, c + 1) RETURNING a` -/
def s1 : List Tok :=
  [kw "INSERT", kw "INTO", wd "t", lp, wd "a", cm, wd "b", rp, kw "VALUES", lp, num "1", cm, .sqs (str "x"), rp, cm,
   lp, num "2", cm, wd "c", .sym .Plus, num "1", rp, kw "RETURNING", wd "a"]
/-- `UPDATE t u SET a = 1, (b, c) = d FROM v JOIN w ON x WHERE a > 2` -/
def s2 : List Tok :=
  [kw "UPDATE", wd "t", wd "u", kw "SET", wd "a", .sym .Eq, num "1", cm, lp, wd "b", cm, wd "c", rp, .sym .Eq, wd "d",
   kw "FROM", wd "v", kw "JOIN", wd "w", kw "ON", wd "x", kw "WHERE", wd "a", .sym .Gt, num "2"]
/-- `DELETE FROM t, u USING v WHERE a ORDER BY b DESC LIMIT 3` -/
def s3 : List Tok :=
  [kw "DELETE", kw "FROM", wd "t", cm, wd "u", kw "USING", wd "v", kw "WHERE", wd "a", kw "ORDER", kw "BY", wd "b", kw "DESC",
   kw "LIMIT", num "3"]
/-- `CREATE TABLE IF NOT EXISTS s.t (a INT NOT NULL PRIMARY KEY, b VARCHAR(10) DEFAULT 'x', c geometry REFERENCES u (id))` -/
def s4 : List Tok :=
  [kw "CREATE", kw "TABLE", kw "IF", kw "NOT", kw "EXISTS", wd "s", .sym .Period, wd "t", lp,
   wd "a", kw "INT", kw "NOT", kw "NULL", kw "PRIMARY", kw "KEY", cm,
   wd "b", kw "VARCHAR", lp, num "10", rp, kw "DEFAULT", .sqs (str "x"), cm,
   wd "c", wd "geometry", kw "REFERENCES", wd "u", lp, wd "id", rp, rp]
/-- `DROP TABLE IF EXISTS a, s.b CASCADE` -/
def s5 : List Tok :=
  [kw "DROP", kw "TABLE", kw "IF", kw "EXISTS", wd "a", cm, wd "s", .sym .Period, wd "b", kw "CASCADE"]

def accepts (s : List Tok) : Bool := match parseStmt g 400 50 s with | .ok (_, []) => true | _ => false

example : accepts s1 = true ∧ accepts s2 = true ∧ accepts s3 = true ∧ accepts s4 = true ∧ accepts s5 = true := by
  decide +kernel

/-- the script `; s1 ;; s4 ; s5` parses to the three trees, the tokens of each statement are its
yield, and `s1 s5` without a separator is rejected by the loop -/
example :
    (match parseScript g 400 50 ([semi] ++ s1 ++ [semi, semi] ++ s4 ++ [semi] ++ s5), parseStmt g 400 50 s1,
        parseStmt g 400 50 s4, parseStmt g 400 50 s5 with
     | .ok [a, b, d], .ok (a', []), .ok (b', []), .ok (d', []) =>
       a == a' && b == b' && d == d' && a.flatten == s1 && b.flatten == s4 && d.flatten == s5
     | _, _, _, _ => false) = true ∧
    (match parseScript g 400 50 (s1 ++ s5) with | .error .expectedEnd => true | _ => false) = true := by
  decide +kernel

/-- `stmt_yield` on a statement that stops early: `DROP TABLE a b` consumes `DROP TABLE a` -/
example :
    (match parseStmt g 100 50 [kw "DROP", kw "TABLE", wd "a", wd "b"] with
     | .ok (s, rest) => s.flatten == [kw "DROP", kw "TABLE", wd "a"] && rest == [wd "b"]
     | _ => false) = true := by decide +kernel
end Examples

/-- The full property: every statement kind of every dialect is local (not proved: only the six
statement kinds of the fragment are modelled; the rest is searched by the follower oracle). -/
def FullStatement : Prop :=
  ∀ (ps : List Tok → Except Err (Stmt × List Tok)) (s : List Tok) (a : Stmt),
    ps s = .ok (a, []) → LocalOn stmtClass ps s a

end SqlVerif.Props.C11Dml

import SqlVerif.Props.C11Dml
import SqlVerif.Props.C05Dml
import SqlVerif.Props.C01Query
import SqlVerif.Lemmas.DmlFix
import SqlVerif.Lemmas.DmlIdem
/-!
# C01 on the statement fragment — parse → print → parse

`Model/Dml.lean` + `Model/DmlPrint.lean` (stream `dml`: S-expression of the real tree and the real
`to_string()` text against the model, all 13 dialects): `INSERT`, `UPDATE`, `DELETE`, `CREATE TABLE`
with column definitions and data types, `DROP TABLE`, query statements incl. a leading `VALUES`, the
dispatcher `parseStmt` and the script loop `parseScript`.

What is proved for EVERY configuration record, fuel, recursion limit and token list:

* `stmt_norm_invariant` — the statement parser respects the token image `qc` of `Lemmas/QuerySim.lean`
  (same branches, trees with the same image slot by slot, rests with the same image) on two token lists
  with the same image, under the two side conditions the statement grammar needs beyond the query
  layer: the column types of a `CREATE TABLE` are keyword types (`Stmt.typesLeaf`: a custom type NAME is
  stored with its spelling — `custom_type_spelling_observed`), and for `UPDATE` the second list has `=`
  where the first has `=` (`eqOk`: `parse_assignment` expects the token `=`, while the expression
  parser reads `==` as `=` — `assignment_eq_observed`);
* `stmt_printer_emits_normal_forms` — for an accepted statement that is `printableQ` and of `normal`
  shape over lexer-like tokens, the printed tokens are, token by token, the consumed tokens (`stmt_yield`)
  up to `qc`;
* `stmt_reparse_fixpoint_partial` (+ `_sub` with a continuation, `stmt_reparse_fixpoint_printable` with
  the predicate of C05, `stmt_reparse_fixpoint_normal` in the form of the property) — **the
  statement-level fixpoint**: `parseStmt ts = ok (s, [])`, `s.printableQ`, `s.normal`, `LexOk ts` ⟹
  `parseStmt s.showToks = ok (s.norm, [])` with the same fuel and limit, and `s.norm.sexp = s.sexp`;
* `stmt_script_fixpoint_partial` — the `;`-joined print of a script of such statements re-parses,
  through the real loop model, to the list of the normal forms;
* `stmt_print_idempotent_partial` — on the covered shapes `parse(show(parse(show s))) = parse(show s)`
  literally (the normal form prints to the same tokens: `Lemmas/DmlIdem.lean`, `norm` is idempotent);
* `stmt_fixpoint_after_one_step` — for ANY accepted statement, whatever its shape, whose printed form
  re-parses to its normal form, the normal form prints to the same tokens and re-parses to itself (the
  fixpoint after ONE normalisation step); `rewritten_*_reparse_to_norm` / `custom_type_reparse_to_norm` decide by
  kernel evaluation, for one instance of each shape excluded by `normal` / `printableQ`, that the printed form
  does re-parse to exactly `s.norm`.

Side conditions (all decidable, all satisfiable — `sample*_hyps`):
* `Stmt.printableQ` (`Lemmas/DmlFaith.lean`; implied by `Stmt.printable` of C05): every expression is
  `Expr.printable` (C01), LIMIT / OFFSET come in printing order, column types are keyword types (any
  non-recursive type other than a custom name, `[]` suffixes allowed);
* `Stmt.normal` (`Lemmas/DmlFaith.lean`), the shapes `Display` prints token by token — beyond `Query.normal`:
  `ROW` on every row of a `VALUES` or on none; no empty `()` column list (MySQL `INSERT INTO t () …`); no
  trailing commas; no `FROM` swallowed by `UPDATE` (dialects without `UPDATE … FROM`); no `LIMIT ALL` in
  `DELETE`; `TEMPORARY`, not `TEMP`; the column list of `CREATE TABLE` written (`CREATE TABLE t` prints
  `CREATE TABLE t ()`); column types spelled as `Display` spells them up to keyword case (`VARCHAR(010)`
  prints `VARCHAR(10)`); no option keyword swallowed by a failed dialect test (`a INT AUTOINCREMENT` in
  MySQL);
* `LexOk ts` (C01Query): keyword tokens as a lexer makes them.

Not covered: custom type names and recursive types in column definitions (C18 has the type-level round
trip), and the shapes `Display` re-writes (only by evaluation and by `stmt_fixpoint_after_one_step`).
No statement inside this fragment was found whose AST is not a fixpoint (beyond the query-layer
`all_as_identifier_not_fixpoint`).
-/
namespace SqlVerif.Props.C01Dml
open SqlVerif.Pratt SqlVerif.Query SqlVerif.Dml SqlVerif.Stmts SqlVerif.Gen
open SqlVerif.Props.C01Query (LexOk)

-- ------------------------------------------------------------------ 1. norm-invariance
/-- **norm-invariance at the statement layer**: on two token lists with the same observable image `qc`
the statement parser succeeds on both or on none, takes the same branches (trees with the same image slot
by slot — `Stmt.mapT qc` keeps the parsed data type of a column) and leaves rests with the same image,
given that the column types are keyword types and — for `UPDATE` — that `b` has `=` where `a` has `=` -/
theorem stmt_norm_invariant (c : DCfg) (fuel limit : Nat) (a b : List Tok) (s : Stmt) (r : List Tok)
    (hs : a.map qc = b.map qc) (h : parseStmt c fuel limit a = .ok (s, r)) (hl : s.typesLeaf = true)
    (he : s.isUpdate = true → eqOk a b = true) :
    ∃ s' r', parseStmt c fuel limit b = .ok (s', r') ∧ s'.mapT qc = s.mapT qc ∧ r'.map qc = r.map qc :=
  parseStmt_sim2 c fuel limit hs h hl he

/-- the same when the second list contains no `==` token at all -/
theorem stmt_norm_invariant_no_double_eq (c : DCfg) (fuel limit : Nat) (a b : List Tok) (s : Stmt) (r : List Tok)
    (hs : a.map qc = b.map qc) (h : parseStmt c fuel limit a = .ok (s, r)) (hl : s.typesLeaf = true)
    (hb : ∀ t ∈ b, t ≠ .sym .DoubleEq) :
    ∃ s' r', parseStmt c fuel limit b = .ok (s', r') ∧ s'.mapT qc = s.mapT qc ∧ r'.map qc = r.map qc :=
  parseStmt_sim2 c fuel limit hs h hl (fun _ => eqOk_of_noDE hs hb)

-- ------------------------------------------------------------------ 2. the printer emits normal forms
/-- **the printer emits normal forms**: for an accepted statement whose tree is `printableQ` and of
`normal` shape, over lexer-like tokens, the printed tokens are, token by token, the consumed tokens up to
the image `qc` -/
theorem stmt_printer_emits_normal_forms (c : DCfg) (fuel limit : Nat) (ts : List Tok) (s : Stmt) (rest : List Tok)
    (h : parseStmt c fuel limit ts = .ok (s, rest)) (hp : s.printableQ = true) (hn : s.normal = true) (ht : LexOk ts) :
    ∃ pre, ts = pre ++ rest ∧ pre.map qc = s.showToks.map qc := by
  have hw := parseStmt_wf c fuel limit ts s rest h
  refine ⟨s.flatten, parseStmt_yield c fuel limit ts s rest h, ?_⟩
  have hf := stmt_faith s hw hn hp (stmt_flatten_tokOk c fuel limit ts s rest h ht)
  rw [stmt_showToks_eq_norm s (wf_headsOk s hw), ← stmt_flatten_qc, ← stmt_flatten_qc, hf]

-- ------------------------------------------------------------------ 3. the statement-level fixpoint
/-- re-parsing the printed statement in front of any continuation that looks like the original one -/
theorem stmt_reparse_fixpoint_sub (c : DCfg) (fuel limit : Nat) (ts : List Tok) (s : Stmt) (rest rest' : List Tok)
    (h : parseStmt c fuel limit ts = .ok (s, rest)) (hp : s.printableQ = true) (hn : s.normal = true) (ht : LexOk ts)
    (hr : rest.map qc = rest'.map qc) : parseStmt c fuel limit (s.showToks ++ rest') = .ok (s.norm, rest') :=
  stmt_reparse_sub c fuel limit ts s rest rest' h hp hn ht hr

/-- **parse → print → parse is a fixpoint** on the statement fragment (token level), for EVERY dialect
record, option value, fuel, recursion limit and token list: if the statement parser accepts `ts`
completely with tree `s`, `s` is printable and of normal shape and `ts` is lexer-like, then parsing the
printed tokens — with the same fuel and limit — gives `s.norm`, the tree itself with every stored token
replaced by the printed one, and `s.norm` holds the same AST as `s` (`sexp`). -/
theorem stmt_reparse_fixpoint_partial (c : DCfg) (fuel limit : Nat) (ts : List Tok) (s : Stmt)
    (h : parseStmt c fuel limit ts = .ok (s, [])) (hp : s.printableQ = true) (hn : s.normal = true) (ht : LexOk ts) :
    parseStmt c fuel limit s.showToks = .ok (s.norm, []) ∧ s.norm.sexp = s.sexp := by
  have := stmt_reparse_sub c fuel limit ts s [] [] h hp hn ht rfl
  simp only [List.append_nil] at this
  exact ⟨this, stmt_sexp_norm s⟩

/-- the same under the predicate of the content theorem C05 (`Stmt.printable`: keyword-only column types) -/
theorem stmt_reparse_fixpoint_printable (c : DCfg) (fuel limit : Nat) (ts : List Tok) (s : Stmt)
    (h : parseStmt c fuel limit ts = .ok (s, [])) (hp : s.printable = true) (hn : s.normal = true) (ht : LexOk ts) :
    parseStmt c fuel limit s.showToks = .ok (s.norm, []) ∧ s.norm.sexp = s.sexp :=
  stmt_reparse_fixpoint_partial c fuel limit ts s h (printableQ_of_printable s hp) hn ht

/-- the statement-level fixpoint in the form of the property, for a shape predicate.  PROVED for
`normalShape := Stmt.normal` and lexer-like input: `stmt_reparse_fixpoint_normal`.  For the shapes
`Display` re-writes see `stmt_fixpoint_after_one_step` and `rewritten_shapes_reparse_to_norm`. -/
def StmtReparseFixpoint (normalShape : Stmt → Bool) : Prop :=
  ∀ (c : DCfg) (fuel limit : Nat) (ts : List Tok) (s : Stmt),
    parseStmt c fuel limit ts = .ok (s, []) → LexOk ts → s.printableQ = true → normalShape s = true →
    ∃ s', parseStmt c fuel limit s.showToks = .ok (s', []) ∧ s'.sexp = s.sexp

theorem stmt_reparse_fixpoint_normal : StmtReparseFixpoint Stmt.normal := by
  intro c fuel limit ts s h ht hp hn
  exact ⟨s.norm, stmt_reparse_fixpoint_partial c fuel limit ts s h hp hn ht⟩

/-- **printing is idempotent on the covered shapes**: the statement read back from the printed tokens
prints to the same tokens, so `parse(show(parse(show s))) = parse(show s)` — literally, with the same
fuel and limit -/
theorem stmt_print_idempotent_partial (c : DCfg) (fuel limit : Nat) (ts : List Tok) (s : Stmt)
    (h : parseStmt c fuel limit ts = .ok (s, [])) (hp : s.printableQ = true) (hn : s.normal = true) (ht : LexOk ts) :
    s.norm.showToks = s.showToks ∧ parseStmt c fuel limit s.norm.showToks = parseStmt c fuel limit s.showToks ∧
      parseStmt c fuel limit s.norm.showToks = .ok (s.norm, []) := by
  have h1 := stmt_show_norm s (wf_headsOk s (parseStmt_wf c fuel limit ts s [] h))
  have h2 := (stmt_reparse_fixpoint_partial c fuel limit ts s h hp hn ht).1
  exact ⟨h1, by rw [h1], by rw [h1]; exact h2⟩

/-- **the fixpoint after ONE normalisation step, for every shape**: for any accepted statement (no
condition on its shape) whose printed form re-parses to its normal form — which is what
`rewritten_*_reparse_to_norm` decide on an instance of every shape excluded by `normal` / `printableQ` —
the normal form prints to the same tokens and re-parses to itself: from the first print on,
parse → print → parse changes nothing -/
theorem stmt_fixpoint_after_one_step (c : DCfg) (fuel limit : Nat) (ts : List Tok) (s : Stmt) (rest : List Tok)
    (h : parseStmt c fuel limit ts = .ok (s, rest)) (h1 : parseStmt c fuel limit s.showToks = .ok (s.norm, [])) :
    s.norm.showToks = s.showToks ∧ parseStmt c fuel limit s.norm.showToks = .ok (s.norm, []) ∧ s.norm.norm = s.norm ∧
      s.norm.sexp = s.sexp := by
  have h2 := stmt_show_norm s (wf_headsOk s (parseStmt_wf c fuel limit ts s rest h))
  exact ⟨h2, by rw [h2]; exact h1, stmt_norm_idem s, stmt_sexp_norm s⟩

-- ------------------------------------------------------------------ 4. scripts
/-- the printed script at token level: statements joined by `;` -/
def printScript : List Stmt → List Tok
  | [] => []
  | [s] => s.showToks
  | s :: r :: rest => s.showToks ++ semi :: printScript (r :: rest)

/-- script items: printed statement, expected tree, separator after it (`;` between statements) -/
def items : List (Stmt × Stmt) → List (List Tok × Stmt × List Tok)
  | [] => []
  | [p] => [(p.1.showToks, p.2, [])]
  | p :: r :: rest => (p.1.showToks, p.2, [semi]) :: items (r :: rest)

theorem printScript_eq : ∀ ss : List (Stmt × Stmt),
    printScript (ss.map (·.1)) = script [] ((items ss).map fun it => (it.1, it.2.2)) := by
  intro ss
  induction ss with
  | nil => rfl
  | cons p rest ih =>
    cases rest with
    | nil => simp [printScript, items, script]
    | cons r rest2 =>
      simp only [List.map_cons, printScript, items, script, List.nil_append] at ih ⊢
      rw [ih]
      cases rest2 <;> simp [items, script]

theorem items_trees : ∀ ss : List (Stmt × Stmt), (items ss).map (·.2.1) = ss.map (·.2) := by
  intro ss
  induction ss with
  | nil => rfl
  | cons p rest ih =>
    cases rest with
    | nil => rfl
    | cons r rest2 => simp only [items, List.map_cons] at ih ⊢; rw [ih]

theorem items_mem : ∀ (ss : List (Stmt × Stmt)) (it : List Tok × Stmt × List Tok), it ∈ items ss →
    (∃ p ∈ ss, it.1 = p.1.showToks ∧ it.2.1 = p.2) ∧ (it.2.2 = [] ∨ it.2.2 = [semi]) := by
  intro ss
  induction ss with
  | nil => intro it h; simp [items] at h
  | cons p rest ih =>
    intro it h
    cases rest with
    | nil =>
      simp [items] at h; subst h
      exact ⟨⟨p, by simp, rfl, rfl⟩, Or.inl rfl⟩
    | cons r rest2 =>
      simp only [items, List.mem_cons] at h
      rcases h with rfl | h
      · exact ⟨⟨p, by simp, rfl, rfl⟩, Or.inr rfl⟩
      · obtain ⟨⟨q, hq, h1, h2⟩, h3⟩ := ih it (by simpa [items] using h)
        exact ⟨⟨q, by simp at hq ⊢; exact Or.inr hq, h1, h2⟩, h3⟩

theorem items_inner : ∀ ss : List (Stmt × Stmt), InnerSepsNonEmpty ((items ss).map fun it => (it.1, it.2.2)) := by
  intro ss
  induction ss with
  | nil => trivial
  | cons p rest ih =>
    cases rest with
    | nil => trivial
    | cons r rest2 =>
      cases rest2 with
      | nil => exact ⟨by simp, trivial⟩
      | cons r2 rest3 => exact ⟨by simp, by simpa [items] using ih⟩

/-- printed statements that re-parse one by one re-parse as a script, to the same trees in the same order -/
theorem stmt_script_reparse_partial (c : DCfg) (fuel limit : Nat) (ss : List (Stmt × Stmt))
    (h : ∀ p ∈ ss, parseStmt c fuel limit p.1.showToks = .ok (p.2, [])) :
    parseScript c fuel limit (printScript (ss.map (·.1))) = .ok (ss.map (·.2)) := by
  rw [printScript_eq, ← items_trees]
  refine SqlVerif.Props.C11Dml.script_concat_dml c fuel limit (items ss) [] (by intro t ht; cases ht) ?_ ?_ (items_inner ss)
  · intro it hit t ht
    rcases (items_mem ss it hit).2 with h0 | h0
    · rw [h0] at ht; cases ht
    · rw [h0] at ht; simp at ht; subst ht; rfl
  · intro it hit
    obtain ⟨⟨p, hp, h1, h2⟩, _⟩ := items_mem ss it hit
    rw [h1, h2]; exact h p hp

/-- **script level**: statements accepted one by one (each printable, of normal shape, lexer-like) print
to a script `print s₁ ; print s₂ ; …` that the statements loop parses back to the normal forms
`[s₁.norm, …]`, which hold the same ASTs -/
theorem stmt_script_fixpoint_partial (c : DCfg) (fuel limit : Nat) (srcs : List (List Tok × Stmt))
    (h : ∀ p ∈ srcs, parseStmt c fuel limit p.1 = .ok (p.2, []) ∧ LexOk p.1 ∧ p.2.printableQ = true ∧ p.2.normal = true) :
    parseScript c fuel limit (printScript (srcs.map (·.2))) = .ok (srcs.map (·.2.norm)) ∧
      (srcs.map (·.2.norm.sexp)) = srcs.map (·.2.sexp) := by
  have := stmt_script_reparse_partial c fuel limit (srcs.map fun p => (p.2, p.2.norm)) (by
    intro p hp
    simp only [List.mem_map] at hp
    obtain ⟨s, hs, rfl⟩ := hp
    obtain ⟨h1, h2, h3, h4⟩ := h s hs
    exact (stmt_reparse_fixpoint_partial c fuel limit s.1 s.2 h1 h3 h4 h2).1)
  simp only [List.map_map, Function.comp_def] at this
  exact ⟨this, by simp [stmt_sexp_norm]⟩

-- ------------------------------------------------------------------ instances
section Examples
def g : DCfg := (DCfg.ofRow dialect_generic).withTrailing true
def my : DCfg := DCfg.ofRow dialect_mysql
def wd (s : String) : Tok := .word (str s) none none
def kw (s : String) : Tok := .word (str s) none (some (kwIndex s))
def lw (s : String) (k : String) : Tok := .word (str s) none (some (kwIndex k))
def num (s : String) : Tok := .number (str s) false
def lp : Tok := .sym .LParen
def rp : Tok := .sym .RParen
def cm : Tok := .sym .Comma
def dot : Tok := .sym .Period

/-- `insert into t (a, b) select x.a, y.b from x JOIN y ON x.k == y.k where x.a > 1 returning a` -/
def sampleI : List Tok :=
  [lw "insert" "INSERT", lw "into" "INTO", wd "t", lp, wd "a", cm, wd "b", rp, lw "select" "SELECT", wd "x", dot, wd "a", cm,
   wd "y", dot, wd "b", lw "from" "FROM", wd "x", kw "JOIN", wd "y", kw "ON", wd "x", dot, wd "k", .sym .DoubleEq, wd "y", dot, wd "k",
   lw "where" "WHERE", wd "x", dot, wd "a", .sym .Gt, num "1", lw "returning" "RETURNING", wd "a"]

/-- `update t AS u set a = 1, (b, c) = d from v JOIN w ON x == y where a > 2 returning a, b` -/
def sampleU : List Tok :=
  [lw "update" "UPDATE", wd "t", kw "AS", wd "u", lw "set" "SET", wd "a", .sym .Eq, num "1", cm, lp, wd "b", cm, wd "c", rp, .sym .Eq,
   wd "d", lw "from" "FROM", wd "v", kw "JOIN", wd "w", kw "ON", wd "x", .sym .DoubleEq, wd "y", lw "where" "WHERE", wd "a", .sym .Gt,
   num "2", lw "returning" "RETURNING", wd "a", cm, wd "b"]

/-- `create table IF NOT EXISTS s.t (a int NOT NULL PRIMARY KEY, b varchar(10) DEFAULT 'x' CHECK (b > 0) REFERENCES u (id),
d decimal(10,2) NULL UNIQUE COMMENT 'x')` -/
def sampleC : List Tok :=
  [lw "create" "CREATE", lw "table" "TABLE", kw "IF", kw "NOT", kw "EXISTS", wd "s", dot, wd "t", lp,
   wd "a", lw "int" "INT", kw "NOT", kw "NULL", kw "PRIMARY", kw "KEY", cm,
   wd "b", lw "varchar" "VARCHAR", lp, num "10", rp, kw "DEFAULT", .sqs (str "x"), kw "CHECK", lp, wd "b", .sym .Gt, num "0", rp,
   kw "REFERENCES", wd "u", lp, wd "id", rp, cm,
   wd "d", lw "decimal" "DECIMAL", lp, num "10", cm, num "2", rp, kw "NULL", kw "UNIQUE", kw "COMMENT", .sqs (str "x"), rp]

/-- `delete from t, u using v WHERE a ORDER BY b desc LIMIT 3` -/
def sampleD : List Tok :=
  [lw "delete" "DELETE", lw "from" "FROM", wd "t", cm, wd "u", lw "using" "USING", wd "v", kw "WHERE", wd "a", kw "ORDER", kw "BY",
   wd "b", lw "desc" "DESC", kw "LIMIT", num "3"]

/-- `drop table IF EXISTS a, s.b cascade` -/
def sampleX : List Tok :=
  [lw "drop" "DROP", lw "table" "TABLE", kw "IF", kw "EXISTS", wd "a", cm, wd "s", dot, wd "b", lw "cascade" "CASCADE"]

/-- (printableQ, normal, lexer-like, printed tokens = source, normal form = tree) -/
def hyps (c : DCfg) (ts : List Tok) : Option (Bool × Bool × Bool × Bool × Bool) :=
  match parseStmt c 400 50 ts with
  | .ok (s, []) => some (s.printableQ, s.normal, ts.all tokOk, s.showToks == ts, s.norm == s)
  | _ => none

/-- the hypotheses of `stmt_reparse_fixpoint_partial` hold on the five samples: accepted completely,
printable, of normal shape, lexer-like; the printed form differs from the source and the tree differs
from its normal form (keyword spelling, `==`) -/
theorem sampleI_hyps : hyps g sampleI = some (true, true, true, false, false) := by decide +kernel
theorem sampleU_hyps : hyps g sampleU = some (true, true, true, false, false) := by decide +kernel
theorem sampleC_hyps : hyps g sampleC = some (true, true, true, false, false) := by decide +kernel
theorem sampleD_hyps : hyps g sampleD = some (true, true, true, false, false) := by decide +kernel
theorem sampleX_hyps : hyps g sampleX = some (true, true, true, false, false) := by decide +kernel

example : ∀ s, parseStmt g 400 50 sampleI = .ok (s, []) → s.printableQ = true → s.normal = true →
    parseStmt g 400 50 s.showToks = .ok (s.norm, []) ∧ s.norm.sexp = s.sexp :=
  fun s h hp hn => stmt_reparse_fixpoint_partial g 400 50 sampleI s h hp hn (by decide +kernel)

example : ∀ s, parseStmt g 400 50 sampleU = .ok (s, []) → s.printableQ = true → s.normal = true →
    parseStmt g 400 50 s.showToks = .ok (s.norm, []) ∧ s.norm.sexp = s.sexp :=
  fun s h hp hn => stmt_reparse_fixpoint_partial g 400 50 sampleU s h hp hn (by decide +kernel)

example : ∀ s, parseStmt g 400 50 sampleC = .ok (s, []) → s.printableQ = true → s.normal = true →
    parseStmt g 400 50 s.showToks = .ok (s.norm, []) ∧ s.norm.sexp = s.sexp :=
  fun s h hp hn => stmt_reparse_fixpoint_partial g 400 50 sampleC s h hp hn (by decide +kernel)

example : ∀ s rest, parseStmt g 400 50 sampleC = .ok (s, rest) → s.printableQ = true → s.normal = true →
    ∃ pre, sampleC = pre ++ rest ∧ pre.map qc = s.showToks.map qc :=
  fun s rest h hp hn => stmt_printer_emits_normal_forms g 400 50 sampleC s rest h hp hn (by decide +kernel)

/-- the same `UPDATE` in another spelling: same image, other tokens; no `==` where the source has `=` -/
def sampleU' : List Tok :=
  sampleU.map fun t => match t with
    | .word v q (some k) => if v == str "update" then .word (str "Update") q (some k) else t
    | .sym .DoubleEq => .sym .Eq
    | t => t

example : sampleU.map qc = sampleU'.map qc ∧ (sampleU == sampleU') = false ∧ eqOk sampleU sampleU' = true := by
  decide +kernel

example : ∀ s r, parseStmt g 400 50 sampleU = .ok (s, r) → s.typesLeaf = true →
    ∃ s' r', parseStmt g 400 50 sampleU' = .ok (s', r') ∧ s'.mapT qc = s.mapT qc ∧ r'.map qc = r.map qc :=
  fun s r h hl => stmt_norm_invariant g 400 50 sampleU sampleU' s r (by decide +kernel) h hl (fun _ => by decide +kernel)

/-- script level: three statements -/
example : ∀ s1 s2 s3, parseStmt g 400 50 sampleI = .ok (s1, []) → s1.printableQ = true → s1.normal = true →
    parseStmt g 400 50 sampleC = .ok (s2, []) → s2.printableQ = true → s2.normal = true →
    parseStmt g 400 50 sampleX = .ok (s3, []) → s3.printableQ = true → s3.normal = true →
    parseScript g 400 50 (printScript [s1, s2, s3]) = .ok [s1.norm, s2.norm, s3.norm] := by
  intro s1 s2 s3 h1 p1 n1 h2 p2 n2 h3 p3 n3
  have := (stmt_script_fixpoint_partial g 400 50 [(sampleI, s1), (sampleC, s2), (sampleX, s3)] (by
    intro p hp
    simp only [List.mem_cons, List.mem_nil_iff, or_false] at hp
    rcases hp with rfl | rfl | rfl
    · exact ⟨h1, (by decide +kernel : LexOk sampleI), p1, n1⟩
    · exact ⟨h2, (by decide +kernel : LexOk sampleC), p2, n2⟩
    · exact ⟨h3, (by decide +kernel : LexOk sampleX), p3, n3⟩)).1
  simpa using this

/-- parse, print, parse again: (printableQ, normal, the re-parsed tree is the normal form, the re-parsed
tree is printableQ and of normal shape) -/
def reparseNorm (c : DCfg) (ts : List Tok) : Option (Bool × Bool × Bool × Bool) :=
  match parseStmt c 400 50 ts with
  | .ok (s, []) =>
    match parseStmt c 400 50 s.showToks with
    | .ok (s', []) => some (s.printableQ, s.normal, s' == s.norm, s'.printableQ && s'.normal)
    | _ => some (s.printableQ, s.normal, false, false)
  | _ => none

/-- one instance of every shape excluded by `normal` (and a custom type, excluded by `printableQ`): none
of them is a token-by-token image of its printed form, and — by evaluation — each re-parses to exactly
`s.norm`, which is of the covered shape (so that `stmt_fixpoint_after_one_step` applies):
`CREATE TEMP TABLE`; `CREATE TABLE t` without a column list; `VARCHAR(010)` and a trailing comma in the
column list; a custom type name; `VALUES ROW(1), (2,)`; `DELETE … LIMIT ALL`; a trailing comma in `DROP
TABLE`; MySQL: `a INT AUTOINCREMENT` (keyword swallowed), `INSERT INTO t () VALUES ()`, `UPDATE t SET a = 1
FROM WHERE b` (the `FROM` is swallowed) -/
theorem rewritten_shapes_reparse_to_norm :
    [ [kw "INSERT", kw "INTO", wd "t", kw "VALUES", kw "ROW", lp, num "1", rp, cm, lp, num "2", cm, rp],
      [kw "DELETE", kw "FROM", wd "t", kw "LIMIT", kw "ALL"],
      [kw "DROP", kw "TABLE", wd "a", cm] ].map (reparseNorm g) =
    [some (true, false, true, true), some (true, false, true, true), some (true, false, true, true)] ∧
    [ [kw "INSERT", kw "INTO", wd "t", lp, rp, kw "VALUES", lp, rp],
      [kw "UPDATE", wd "t", kw "SET", wd "a", .sym .Eq, num "1", kw "FROM", kw "WHERE", wd "b"] ].map (reparseNorm my) =
    [some (true, false, true, true), some (true, false, true, true)] := by
  decide +kernel

/-- the same for `CREATE TABLE`: `TEMP` prints `TEMPORARY` -/
theorem rewritten_temp_reparse_to_norm :
    reparseNorm g [kw "CREATE", kw "TEMP", kw "TABLE", wd "t", lp, wd "a", kw "INT", rp] = some (true, false, true, true) := by
  decide +kernel

/-- no column list prints ` ()` -/
theorem rewritten_nocols_reparse_to_norm :
    reparseNorm g [kw "CREATE", kw "TABLE", wd "t"] = some (true, false, true, true) := by decide +kernel

/-- `VARCHAR(010)` prints `VARCHAR(10)`; the trailing comma of the column list is dropped -/
theorem rewritten_type_number_reparse_to_norm :
    reparseNorm g [kw "CREATE", kw "TABLE", wd "t", lp, wd "a", kw "VARCHAR", lp, num "010", rp, cm, rp] =
      some (true, false, true, true) := by decide +kernel

/-- a custom type name (outside `printableQ`; of normal shape) -/
theorem custom_type_reparse_to_norm :
    reparseNorm g [kw "CREATE", kw "TABLE", wd "t", lp, wd "a", wd "geometry", rp] = some (false, true, true, false) := by
  decide +kernel

/-- MySQL `a INT AUTOINCREMENT`: the keyword is swallowed by the failed dialect test and not printed -/
theorem rewritten_swallowed_reparse_to_norm :
    reparseNorm my [kw "CREATE", kw "TABLE", wd "t", lp, wd "a", kw "INT", kw "AUTOINCREMENT", rp] =
      some (true, false, true, true) := by decide +kernel

/-- `stmt_fixpoint_after_one_step` on an excluded shape: `CREATE TEMP TABLE t (a INT)` -/
example : ∀ s, parseStmt g 400 50 [kw "CREATE", kw "TEMP", kw "TABLE", wd "t", lp, wd "a", kw "INT", rp] = .ok (s, []) →
    parseStmt g 400 50 s.showToks = .ok (s.norm, []) →
    s.norm.showToks = s.showToks ∧ parseStmt g 400 50 s.norm.showToks = .ok (s.norm, []) ∧ s.norm.norm = s.norm ∧
      s.norm.sexp = s.sexp :=
  fun s h h1 => stmt_fixpoint_after_one_step g 400 50 _ s [] h h1

/-- **why `stmt_norm_invariant` asks for keyword types**: `CREATE TABLE t (a year)` and `CREATE TABLE t (a YEAR)`
have the same image (`YEAR` is a keyword, but not one of the data-type grammar), both are accepted, and the
trees hold different ASTs — the custom type name is stored with its spelling -/
theorem custom_type_spelling_observed :
    let a := [kw "CREATE", kw "TABLE", wd "t", lp, wd "a", lw "year" "YEAR", rp]
    let b := [kw "CREATE", kw "TABLE", wd "t", lp, wd "a", kw "YEAR", rp]
    a.map qc = b.map qc ∧
    (match parseStmt g 400 50 a, parseStmt g 400 50 b with
     | .ok (s, []), .ok (s', []) => some (s.typesLeaf, s.sexp == s'.sexp, s.mapT qc == s'.mapT qc)
     | _, _ => none) = some (false, false, false) := by decide +kernel

/-- **why `stmt_norm_invariant` asks for `eqOk` on `UPDATE`**: `UPDATE t SET a = 1 WHERE b == 2` is accepted,
`UPDATE t SET a == 1 WHERE b == 2` has the same image and is rejected (`parse_assignment` expects `=`) -/
theorem assignment_eq_observed :
    let a := [kw "UPDATE", wd "t", kw "SET", wd "a", .sym .Eq, num "1", kw "WHERE", wd "b", .sym .DoubleEq, num "2"]
    let b := [kw "UPDATE", wd "t", kw "SET", wd "a", .sym .DoubleEq, num "1", kw "WHERE", wd "b", .sym .DoubleEq, num "2"]
    a.map qc = b.map qc ∧ eqOk a b = false ∧
    (match parseStmt g 400 50 a with | .ok (_, []) => true | _ => false) = true ∧
    (match parseStmt g 400 50 b with | .error (.syntax _) => true | _ => false) = true := by decide +kernel
end Examples

end SqlVerif.Props.C01Dml

import SqlVerif.Lemmas.SerdeLemmas
import SqlVerif.Gen.Schema
/-!
# C17 — every parsed tree survives serialisation

Generic theorem (`Model/Serde.lean`): for the data model that `derive(Serialize, Deserialize)` +
`serde_json` implement, decoding the document of a well-typed value gives the value back, for every
schema satisfying the decidable side condition `SerdeSafe`, every type, every value and every fuel
above the size of the value.  The side condition is re-decided by the kernel on the schema the
translator extracts from the Rust sources on every run (`Gen/Schema.lean`).
The model's `ser` is tied to the real `Serialize` impls by the stream `serde`; `de` is the reference
decoder of the data model — the real `Deserialize` impls are exercised by the round-trip oracle.
-/
namespace SqlVerif.Props.C17
open SqlVerif.Serde SqlVerif.Schema

/-- `de (ser v) = v` for every schema, type, well-typed value; `tySafe` constrains the *root* type
    expression the same way `SerdeSafe` constrains every field type of the schema -/
theorem de_ser (sch : Schema) (τ : Ty) (v : Val) (fuel : Nat)
    (hw : WellTyped sch τ v) (hs : SerdeSafe sch) (hτ : tySafe sch τ = true) (hf : size v < fuel) :
    de sch fuel τ (ser sch τ v) = some v :=
  de_ser_val sch hs v fuel τ hf hτ hw

/-- for a value of a named type of the schema (a `Statement`, a `Token`) no condition on the root is left -/
theorem de_ser_named (sch : Schema) (id : Nat) (v : Val) (fuel : Nat)
    (hw : WellTyped sch (.named id) v) (hs : SerdeSafe sch) (hf : size v < fuel) :
    de sch fuel (.named id) (ser sch (.named id) v) = some v :=
  de_ser sch (.named id) v fuel hw hs (by simp [tySafe]) hf

/-- lists of values of a named type (`Vec<Statement>`, `Vec<Token>`) -/
theorem de_ser_vec_named (sch : Schema) (id : Nat) (v : Val) (fuel : Nat)
    (hw : WellTyped sch (.vec (.named id)) v) (hs : SerdeSafe sch) (hf : size v < fuel) :
    de sch fuel (.vec (.named id)) (ser sch (.vec (.named id)) v) = some v :=
  de_ser sch _ v fuel hw hs (by simp [tySafe]) hf

/-- different well-typed values have different documents (so `ser` loses nothing) -/
theorem ser_injective (sch : Schema) (τ : Ty) (v₁ v₂ : Val)
    (h₁ : WellTyped sch τ v₁) (h₂ : WellTyped sch τ v₂) (hs : SerdeSafe sch) (hτ : tySafe sch τ = true)
    (h : ser sch τ v₁ = ser sch τ v₂) : v₁ = v₂ := by
  have e₁ := de_ser sch τ v₁ (size v₁ + size v₂ + 1) h₁ hs hτ (by omega)
  have e₂ := de_ser sch τ v₂ (size v₁ + size v₂ + 1) h₂ hs hτ (by omega)
  rw [h, e₂] at e₁
  exact (Option.some.inj e₁).symm

/-- equal trees serialise to equal documents: `ser` is a function of (schema, type, value) only -/
theorem equal_trees_equal_documents (sch : Schema) (τ : Ty) (v₁ v₂ : Val) (h : v₁ = v₂) :
    ser sch τ v₁ = ser sch τ v₂ := by rw [h]

/-! ## side conditions on the schema of the crate as it is now -/

/-- no `serde(...)` attribute, no float / unclassified field type, no `Option` around a type that
    can serialise to `null`, distinct field names per struct/variant, distinct variant names per enum -/
theorem schema_serde_safe : SerdeSafe SqlVerif.Gen.Schema.schema := by decide +kernel

theorem no_serde_attributes : SqlVerif.Gen.Schema.serdeAttrCount = 0 := by decide

/-- the root types exist in the schema -/
theorem roots_defined :
    (SqlVerif.Gen.Schema.schema.get? SqlVerif.Gen.Schema.statementId).isSome = true ∧
    (SqlVerif.Gen.Schema.schema.get? SqlVerif.Gen.Schema.tokenId).isSome = true := by decide +kernel

/-- the round trip for what the parser returns: a `Statement`, a `Vec<Statement>`, a `Vec<Token>` -/
theorem statement_roundtrip (v : Val) (fuel : Nat)
    (hw : WellTyped SqlVerif.Gen.Schema.schema (.named SqlVerif.Gen.Schema.statementId) v) (hf : size v < fuel) :
    de SqlVerif.Gen.Schema.schema fuel (.named SqlVerif.Gen.Schema.statementId)
      (ser SqlVerif.Gen.Schema.schema (.named SqlVerif.Gen.Schema.statementId) v) = some v :=
  de_ser_named _ _ v fuel hw schema_serde_safe hf

theorem statement_list_roundtrip (v : Val) (fuel : Nat)
    (hw : WellTyped SqlVerif.Gen.Schema.schema (.vec (.named SqlVerif.Gen.Schema.statementId)) v) (hf : size v < fuel) :
    de SqlVerif.Gen.Schema.schema fuel (.vec (.named SqlVerif.Gen.Schema.statementId))
      (ser SqlVerif.Gen.Schema.schema (.vec (.named SqlVerif.Gen.Schema.statementId)) v) = some v :=
  de_ser_vec_named _ _ v fuel hw schema_serde_safe hf

theorem token_list_roundtrip (v : Val) (fuel : Nat)
    (hw : WellTyped SqlVerif.Gen.Schema.schema (.vec (.named SqlVerif.Gen.Schema.tokenId)) v) (hf : size v < fuel) :
    de SqlVerif.Gen.Schema.schema fuel (.vec (.named SqlVerif.Gen.Schema.tokenId))
      (ser SqlVerif.Gen.Schema.schema (.vec (.named SqlVerif.Gen.Schema.tokenId)) v) = some v :=
  de_ser_vec_named _ _ v fuel hw schema_serde_safe hf

/-! ## non-vacuity -/

/-- a small schema with every shape: 0 = `struct P { a: Option<Box<E>>, b: Vec<String>, c: char }`,
    1 = `enum E { U, N(u64), T(bool, i32), S { x: P } }`, 2 = `struct W(E)`, 3 = `struct Z;` -/
def demo : Schema := ⟨[
  .struct 10 none 0 (.struct [⟨20, .opt (.box (.named 1)), none, 0⟩, ⟨21, .vec .str, none, 0⟩, ⟨22, .char, none, 0⟩]),
  .enum 11 none 0 [⟨30, .unit, 0⟩, ⟨31, .newtype ⟨0, .uint, none, 0⟩, 0⟩,
    ⟨32, .tuple [⟨0, .bool, none, 0⟩, ⟨1, .sint, none, 0⟩], 0⟩, ⟨33, .struct [⟨23, .named 0, none, 0⟩], 0⟩],
  .struct 12 none 0 (.newtype ⟨0, .named 1, none, 0⟩),
  .struct 13 none 0 .unit]⟩

def demoVal : Val :=
  .struct [.some (.box (.variant 3 [.struct [.none, .vec [.str [104, 105], .str []], .char 955]])),
           .vec [.str [97]], .char 120]

example : SerdeSafe demo := by decide
example : WellTyped demo (.named 0) demoVal := by decide
example : ser demo (.named 0) demoVal =
    .obj [(20, .obj [(33, .obj [(23, .obj [(20, .null), (21, .arr [.str [104, 105], .str []]), (22, .str [955])])])]),
          (21, .arr [.str [97]]), (22, .str [120])] := by rfl
example : de demo 40 (.named 0) (ser demo (.named 0) demoVal) = some demoVal :=
  de_ser_named demo 0 demoVal 40 (by decide) (by decide) (by decide)
example : ser demo (.named 1) (.variant 0 []) = .tag 30 ∧ ser demo (.named 1) (.variant 2 [.bool true, .sint (-3)]) =
    .obj [(32, .arr [.bool true, .num (-3)])] := ⟨rfl, rfl⟩

/-- the side condition is needed: `Option<Option<bool>>` is rejected by `tySafe`, and `Some(None)` does
    not survive (it comes back as `None`) -/
example : tySafe demo (.opt (.opt .bool)) = false ∧
    de demo 9 (.opt (.opt .bool)) (ser demo (.opt (.opt .bool)) (.some .none)) = some .none := ⟨by decide, rfl⟩
/-- `Option<UnitStruct>` likewise -/
example : tySafe demo (.opt (.named 3)) = false ∧
    de demo 9 (.opt (.named 3)) (ser demo (.opt (.named 3)) (.some (.struct []))) = some .none := ⟨by decide, rfl⟩
/-- two fields with the same name are rejected -/
example : ¬ SerdeSafe ⟨[.struct 1 none 0 (.struct [⟨5, .bool, none, 0⟩, ⟨5, .uint, none, 0⟩])]⟩ := by decide

end SqlVerif.Props.C17

import SqlVerif.Props.C09
/-!
# C10 (lexer part) — tokenizer errors are located values inside the input

Model: `Model/Tokenizer.lean` + `Model/Scan.lean` (the same model as C09).  A scanner error is a
`ScanErr` = message + the input LEFT at the position Rust reports (`chars.location()` at that
moment); the loop turns "input left" into `(line, col)` by running `State::next` over what was
consumed (`LexErr.locate`, `consumed`, `advance`).  Every theorem holds for every `Env` (all dialect
rows, both un-escape modes, arbitrary character predicates) and every input.

They rest on ONE fact about `next_token`, `nextToken_error_ok`, proved branch by branch over
`lexHead`/`lexOp` and every literal scanner (same traversal as the `*_suf` lemmas of
`Lemmas/TokLemmas.lean`): for every located error `e` of `nextToken env s`

* `e.rest <:+ s`: the reported position is inside the input of that call.  Three kinds occur: the end
  of input (`rest = []`: comments, `$…$`, `U&'…` unterminated or cut inside an escape), the position
  on entry of the literal (`'…`, `E'…`, delimited identifiers), and the position after the offending
  character of a `U&'…'` escape;
* `KnownMsg e.msg`: the message is one of ten shapes.  The eleventh message of the source,
  `"invalid string literal opening"` (two sites), is dead code: `tok_error_never_invalid_opening`.

The loop part (`tokLoop_error`) is generic in the token function, by induction on the fuel.

Main theorems: `tok_error_anatomy`, `tok_error_loc_in_range` (+ `tokenizeSpans_…`),
`tok_error_loc_bounds`, `tok_error_message_known`, `tok_error_never_invalid_opening`,
`tok_error_kinds`, `tok_error_deterministic`.

Not covered here: the parser's errors (the other half of C10), and a "prefix determines the error"
statement (false in general: whether `'…` is unterminated depends on the whole rest of the input).
-/
namespace SqlVerif.Props.C10Lexer
open SqlVerif.Tok SqlVerif.Scan SqlVerif.Gen SqlVerif.Keywords

/-- the messages a `TokenizerError` can carry -/
inductive KnownMsg : List Nat → Prop
  | unterminatedString : KnownMsg (str "Unterminated string literal")
  | unterminatedEncoded : KnownMsg (str "Unterminated encoded string literal")
  | closeDelimiter (qe : Nat) (h : qe = 34 ∨ qe = 93 ∨ qe = 96) :
      KnownMsg (str "Expected close delimiter '" ++ [qe] ++ str "' before EOF.")
  | unterminatedDollar : KnownMsg (str "Unterminated dollar-quoted string")
  | unterminatedDollarTag : KnownMsg (str "Unterminated dollar-quoted, expected $")
  | eofInComment : KnownMsg (str "Unexpected EOF while in a multi-line comment")
  | unterminatedUnicode : KnownMsg (str "Unterminated unicode encoded string literal")
  | eofInHex : KnownMsg (str "Unexpected EOF while parsing hex digit in escaped unicode string.")
  | invalidHexDigit (c : Nat) (h : hexVal c = none) :
      KnownMsg (str "Invalid hex digit in escaped unicode string: " ++ [c])
  | invalidUnicodeChar (n : Nat) (h : charFromU32 n = none) :
      KnownMsg (str "Invalid unicode character: " ++ lowerHex n)

/-- a scanner error reported on input `s`: its position is inside `s`, its message is known -/
def ErrOK (s : List Nat) (e : ScanErr) : Prop := e.rest <:+ s ∧ KnownMsg e.msg

private theorem ErrOK.mono {s s' : List Nat} {e : ScanErr} (h : ErrOK s e) (hs : s <:+ s') : ErrOK s' e :=
  ⟨h.1.trans hs, h.2⟩

/-- every error of an `Except ScanErr`-valued scanner is `ErrOK` for `s` -/
def ErrE {α : Type} (o : Except ScanErr α) (s : List Nat) : Prop := ∀ e, o = .error e → ErrOK s e

/-- every located error of a branch of `next_token` is `ErrOK` for `s` -/
def ErrR {α : Type} (o : Except LexErr α) (s : List Nat) : Prop := ∀ e, o = .error (.err e) → ErrOK s e

private theorem errE_ok {α : Type} (x : α) (s) : ErrE (.ok x : Except ScanErr α) s ↔ True := by
  simp [ErrE]
private theorem errE_error {α : Type} (e : ScanErr) (s) : ErrE (.error e : Except ScanErr α) s ↔ ErrOK s e := by
  simp [ErrE]
private theorem errE_pushE (p o s) : ErrE (pushE p o) s ↔ ErrE o s := by
  cases o with
  | error e => simp [Scan.pushE]
  | ok x => obtain ⟨a, b⟩ := x; simp [Scan.pushE, errE_ok]
private theorem ErrE.mono {α : Type} {o : Except ScanErr α} {s s'} (h : ErrE o s) (hs : s <:+ s') : ErrE o s' :=
  fun e he => (h e he).mono hs

private theorem errR_ok {α : Type} (x : α) (s) : ErrR (.ok x : Except LexErr α) s ↔ True := by
  simp [ErrR]
private theorem errR_err {α : Type} (e : ScanErr) (s) : ErrR (.error (.err e) : Except LexErr α) s ↔ ErrOK s e := by
  simp [ErrR]
private theorem errR_panic {α : Type} (m : List Nat) (s) : ErrR (.error (.panic m) : Except LexErr α) s ↔ True := by
  simp [ErrR]
private theorem errR_ofScan (f : List Nat → Token) (x s) : ErrR (ofScan f x) s ↔ ErrE x s := by
  cases x with
  | error e => simp [ofScan, errR_err, errE_error]
  | ok y => obtain ⟨a, b⟩ := y; simp [ofScan, errR_ok, errE_ok]
private theorem ErrR.mono {α : Type} {o : Except LexErr α} {s s'} (h : ErrR o s) (hs : s <:+ s') : ErrR o s' :=
  fun e he => (h e he).mono hs
private theorem errR_ite {α : Type} (c : Prop) [Decidable c] (a b : Except LexErr α) (s) :
    ErrR (if c then a else b) s ↔ (c → ErrR a s) ∧ (¬ c → ErrR b s) := by
  by_cases h : c <;> simp [h]

/-! ## scanners -/

private theorem takeHexDigits_err : ∀ n acc s, ErrE (takeHexDigits n acc s) s := by
  intro n acc s
  fun_induction takeHexDigits n acc s
  · simp only [errE_ok]
  · exact (errE_error ..).2 ⟨List.nil_suffix, .eofInHex⟩
  · rename_i h; exact (errE_error ..).2 ⟨List.suffix_cons _ _, .invalidHexDigit _ h⟩
  · rename_i ih; exact ih.mono (List.suffix_cons _ _)

private theorem takeCharFromHexDigits_err (m s) : ErrE (takeCharFromHexDigits m s) s := by
  unfold takeCharFromHexDigits
  split
  · rename_i e h; exact (errE_error ..).2 (takeHexDigits_err _ _ _ e h)
  · rename_i n rest h
    split
    · simp only [errE_ok]
    · rename_i hc
      exact (errE_error ..).2 ⟨takeHexDigits_suf m 0 s n rest h, .invalidUnicodeChar n hc⟩

private theorem unicodeBody_err : ∀ k s, ErrE (unicodeBody k s) s := by
  intro k s
  fun_induction unicodeBody k s
  case case1 => exact (errE_error ..).2 ⟨List.nil_suffix, .unterminatedUnicode⟩
  case case2 ih => exact ih.mono (List.suffix_cons ..)
  case case3 ih => rw [errE_pushE]; exact ih.mono (List.suffix_cons ..)
  case case4 => simp only [errE_ok]
  case case5 ih => rw [errE_pushE]; exact ih.mono (List.suffix_cons ..)
  case case6 cs2 e h _ =>
    exact (errE_error ..).2 ((takeCharFromHexDigits_err 6 cs2 e h).mono (by suff_tac))
  case case7 ih => rw [errE_pushE]; exact ih.mono (List.suffix_cons ..)
  case case8 cs e h _ _ _ =>
    rw [h]; exact (errE_error ..).2 ((takeCharFromHexDigits_err 4 cs e h).mono (by suff_tac))
  case case9 h _ _ _ ih => rw [h]; dsimp only; rw [errE_pushE]; exact ih.mono (List.suffix_cons ..)
  case case10 ih => rw [errE_pushE]; exact ih.mono (List.suffix_cons ..)

private theorem scanUnicode_err (s) : ErrE (scanUnicode s) s := by
  cases s with
  | nil => exact unicodeBody_err 0 []
  | cons c cs => exact (unicodeBody_err 0 cs).mono (List.suffix_cons ..)

private theorem dollarTaggedBody_err (tag s') : ∀ m s, ErrE (dollarTaggedBody tag m s) s' := by
  intro m s
  fun_induction dollarTaggedBody tag m s
  all_goals (try subst_vars)
  all_goals first
    | (simp only [errE_ok]; done)
    | exact (errE_error ..).2 ⟨List.nil_suffix, .unterminatedDollarTag⟩
    | (simp only [errE_pushE]; assumption)
    | assumption

/-- no opening quote left to consume: only "Unterminated", at the position on entry -/
private theorem scanQuoted_err0 (q triple bs un s) : ErrE (scanQuoted q triple 0 bs un s) s := by
  simp only [scanQuoted, consumeOpening]
  repeat' split
  all_goals first
    | (simp only [errE_ok]; done)
    | exact (errE_error ..).2 ⟨List.suffix_refl _, .unterminatedString⟩

/-- the opening quote is at the head (every call site of the tokenizer): the opening cannot be
"invalid" -/
private theorem scanSingleQuoted_err (q bs un cs) :
    ErrE (scanSingleQuoted q bs un (q :: cs)) (q :: cs) := by
  simp only [scanSingleQuoted, scanQuoted, consumeOpening, ↓reduceIte, Bool.false_eq_true]
  split
  · exact (errE_error ..).2 ⟨List.suffix_refl _, .unterminatedString⟩
  · simp only [errE_ok]

private theorem countOpening_le (q) : ∀ n s, (countOpening q n s).1 ≤ n := by
  intro n s
  fun_induction countOpening q n s
  · exact Nat.le_refl _
  · exact Nat.zero_le _
  · rename_i ih; simp_all
  · exact Nat.zero_le _

private theorem scanSingleOrTriple_err (q bs un cs) :
    ErrE (scanSingleOrTriple q bs un (q :: cs)) (q :: cs) := by
  unfold scanSingleOrTriple
  have hc : (countOpening q 2 cs).2 <:+ q :: cs := suf_cons _ (countOpening_suf q 2 cs)
  have hl := countOpening_le q 2 cs
  rw [countOpening_head]
  split
  · rename_i r h
    simp only [Prod.mk.injEq] at h
    rw [h.2] at hc
    split
    · rename_i e he; exact (errE_error ..).2 ((scanQuoted_err0 _ _ _ _ _ e he).mono hc)
    · simp only [errE_ok]
  · simp only [errE_ok]
  · rename_i r h
    simp only [Prod.mk.injEq] at h
    rw [h.2] at hc
    split
    · rename_i e he; exact (errE_error ..).2 ((scanQuoted_err0 _ _ _ _ _ e he).mono hc)
    · simp only [errE_ok]
  · rename_i h1 h2 h3
    exfalso
    generalize countOpening q 2 cs = p at *
    obtain ⟨k, r⟩ := p
    simp only at hl
    have : k = 0 ∨ k = 1 ∨ k = 2 := by omega
    rcases this with rfl | rfl | rfl
    · exact h1 r rfl
    · exact h2 r rfl
    · exact h3 r rfl

private theorem scanMultiLineComment_err (s s') : ErrE (scanMultiLineComment s) s' := by
  unfold scanMultiLineComment
  split
  · exact (errE_error ..).2 ⟨List.nil_suffix, .eofInComment⟩
  · simp only [errE_ok]

/-! ## branches of `next_token` -/

private theorem singleOrTriple_err (env q bs f g cs) :
    ErrR (singleOrTriple env q bs f g (q :: cs)) (q :: cs) := by
  unfold singleOrTriple
  split
  · rename_i e h; exact (errR_err ..).2 (scanSingleOrTriple_err _ _ _ _ e h)
  · simp only [errR_ok]
  · simp only [errR_ok]

private theorem wordFrom_err (env first cs s) : ErrR (wordFrom env first cs) s ↔ True := errR_ok ..
private theorem identOrKeyword_err (env first cs s) : ErrR (identOrKeyword env first cs) s ↔ True := by
  unfold identOrKeyword; dsimp only; split <;> exact errR_ok ..
private theorem binop_err (env pfx d cs s) : ErrR (binop env pfx d cs) s ↔ True := errR_ok ..
private theorem lineComment_err (pfx cs s) : ErrR (lineComment pfx cs) s ↔ True := errR_ok ..
private theorem lexMultiLineComment_err (cs s) : ErrR (lexMultiLineComment cs) s ↔ True := by
  simp only [lexMultiLineComment, errR_ofScan, iff_true]; exact scanMultiLineComment_err _ _

/-- split every `match`/`if` of an unfolded branch that cannot fail with a position inside the input -/
macro "noerr_tac" : tactic =>
  `(tactic| (repeat' split) <;>
      simp only [errR_ok, wordFrom_err, identOrKeyword_err, binop_err, lineComment_err,
        lexMultiLineComment_err])

private theorem lexMinus_err (env cs s) : ErrR (lexMinus env cs) s := by unfold lexMinus; noerr_tac
private theorem lexSlash_err (env cs s) : ErrR (lexSlash env cs) s := by unfold lexSlash; noerr_tac
private theorem lexPercent_err (env cs s) : ErrR (lexPercent env cs) s := by unfold lexPercent; noerr_tac
private theorem lexPipe_err (env cs s) : ErrR (lexPipe env cs) s := by unfold lexPipe; noerr_tac
private theorem lexEq_err (cs s) : ErrR (lexEq cs) s := by unfold lexEq; noerr_tac
private theorem lexBang_err (cs s) : ErrR (lexBang cs) s := by unfold lexBang; noerr_tac
private theorem lexLt_err (env cs s) : ErrR (lexLt env cs) s := by unfold lexLt; noerr_tac
private theorem lexGt_err (env cs s) : ErrR (lexGt env cs) s := by unfold lexGt; noerr_tac
private theorem lexColon_err (cs s) : ErrR (lexColon cs) s := by unfold lexColon; noerr_tac
private theorem lexAmp_err (env cs s) : ErrR (lexAmp env cs) s := by unfold lexAmp; noerr_tac
private theorem lexCaret_err (cs s) : ErrR (lexCaret cs) s := by unfold lexCaret; noerr_tac
private theorem lexTilde_err (env cs s) : ErrR (lexTilde env cs) s := by unfold lexTilde; noerr_tac
private theorem lexSharp_err (env cs s) : ErrR (lexSharp env cs) s := by unfold lexSharp; noerr_tac
private theorem lexAt_err (env cs s) : ErrR (lexAt env cs) s := by unfold lexAt; noerr_tac
private theorem lexQuestionPg_err (cs s) : ErrR (lexQuestionPg cs) s := by unfold lexQuestionPg; noerr_tac
private theorem lexQuestion_err (env cs s) : ErrR (lexQuestion env cs) s := (errR_ok ..).2 trivial

private theorem lexNumberTail_err (env s2 r2 s) : ErrR (lexNumberTail env s2 r2) s := by
  unfold lexNumberTail; dsimp only; noerr_tac
private theorem lexNumber_err (env x s) : ErrR (lexNumber env x) s := by
  unfold lexNumber; dsimp only
  repeat' split
  all_goals first
    | (simp only [errR_ok]; done)
    | exact lexNumberTail_err _ _ _ _

/-- both `$`-errors are reported at the end of the input -/
private theorem lexDollar_err (env cs s) : ErrR (lexDollar env cs) s := by
  unfold lexDollar
  split
  · split
    · exact (errR_err ..).2 ⟨List.nil_suffix, .unterminatedDollar⟩
    · simp only [errR_ok]
  · dsimp only
    split
    · split
      · rename_i e h; exact (errR_err ..).2 (dollarTaggedBody_err _ s _ _ e h)
      · simp only [errR_ok]
    · simp only [errR_ok]

private theorem lexByte_err (env b cs) : ErrR (lexByte env b cs) cs := by
  unfold lexByte
  repeat' split
  all_goals first
    | exact singleOrTriple_err _ _ _ _ _ _
    | exact (errR_ofScan ..).2 (scanSingleQuoted_err _ _ _ _)
    | simp only [wordFrom_err]

private theorem lexRaw_err (env b cs) : ErrR (lexRaw env b cs) cs := by
  unfold lexRaw
  repeat' split
  all_goals first
    | exact singleOrTriple_err _ _ _ _ _ _
    | simp only [wordFrom_err]

private theorem lexPrefixed_err (env f c cs) : ErrR (lexPrefixed env f c cs) cs := by
  unfold lexPrefixed
  split
  · exact (errR_ofScan ..).2 (scanSingleQuoted_err _ _ _ _)
  · simp only [wordFrom_err]

/-- `E'…'`: reported at the `E` -/
private theorem lexEscaped_err (env c cs) : ErrR (lexEscaped env c cs) (c :: cs) := by
  unfold lexEscaped
  repeat' split
  all_goals first
    | (simp only [errR_ok, wordFrom_err]; done)
    | exact (errR_err ..).2 ⟨List.suffix_refl _, .unterminatedEncoded⟩

private theorem lexUnicode_err (env c cs) : ErrR (lexUnicode env c cs) cs := by
  unfold lexUnicode
  split
  · exact (errR_ofScan ..).2 ((scanUnicode_err _).mono (List.suffix_cons ..))
  · simp only [wordFrom_err]

private theorem lexQuote_err (env q f g cs) : ErrR (lexQuote env q f g (q :: cs)) (q :: cs) := by
  unfold lexQuote; dsimp only
  split
  · exact singleOrTriple_err _ _ _ _ _ _
  · exact (errR_ofScan ..).2 (scanSingleQuoted_err _ _ _ _)

private theorem matchingEndQuote_cases {c qe : Nat} (h : matchingEndQuote c = some qe) :
    qe = 34 ∨ qe = 93 ∨ qe = 96 := by
  unfold matchingEndQuote at h
  repeat' split at h
  all_goals simp at h
  all_goals omega

/-- delimited identifier: reported at the opening quote -/
private theorem lexQuotedIdent_err (env c cs) : ErrR (lexQuotedIdent env c cs) (c :: cs) := by
  unfold lexQuotedIdent
  split
  · simp only [errR_panic]
  · rename_i qe h
    split
    · simp only [errR_ok]
    · exact (errR_err ..).2 ⟨List.suffix_refl _, .closeDelimiter qe (matchingEndQuote_cases h)⟩

private theorem lexOp_err (env c cs s) : ErrR (lexOp env c cs) s := by
  unfold lexOp
  repeat' (rw [errR_ite]; refine ⟨fun _ => ?_, fun _ => ?_⟩)
  all_goals first
    | (simp only [errR_ok, identOrKeyword_err, lineComment_err]; done)
    | exact lexSlash_err _ _ _ | exact lexPercent_err _ _ _ | exact lexPipe_err _ _ _ | exact lexEq_err _ _
    | exact lexBang_err _ _ | exact lexLt_err _ _ _ | exact lexGt_err _ _ _ | exact lexColon_err _ _
    | exact lexAmp_err _ _ _ | exact lexCaret_err _ _ | exact lexTilde_err _ _ _ | exact lexSharp_err _ _ _
    | exact lexAt_err _ _ _ | exact lexQuestionPg_err _ _ | exact lexQuestion_err _ _ _ | exact lexDollar_err _ _ _

private theorem lexHead_err (env c cs) : ErrR (lexHead env c cs) (c :: cs) := by
  unfold lexHead
  repeat' (rw [errR_ite]; refine ⟨fun _ => ?_, fun _ => ?_⟩)
  all_goals (try split)
  all_goals first
    | (simp only [errR_ok]; done)
    | exact (lexByte_err _ _ _).mono (List.suffix_cons ..)
    | exact (lexRaw_err _ _ _).mono (List.suffix_cons ..)
    | exact (lexPrefixed_err _ _ _ _).mono (List.suffix_cons ..)
    | exact lexEscaped_err _ _ _
    | exact (lexUnicode_err _ _ _).mono (List.suffix_cons ..)
    | (subst_vars; exact lexQuote_err _ _ _ _ _)
    | (rename_i h; obtain ⟨rfl, _⟩ := h; exact lexQuote_err _ _ _ _ _)
    | exact lexQuotedIdent_err _ _ _
    | exact lexNumber_err _ _ _ | exact lexMinus_err _ _ _ | exact lexOp_err _ _ _ _

/-- **error anatomy of one call**: a located error of `next_token` on `s` points into `s` (the
input left at the reported position is a suffix of `s`) and carries a known message -/
theorem nextToken_error_ok (env : Env) (s : List Nat) (e : ScanErr)
    (h : nextToken env s = .error (.err e)) : ErrOK s e := by
  unfold nextToken at h
  split at h
  · simp at h
  · rename_i c cs
    split at h
    · rename_i e' he
      simp only [Except.error.injEq] at h
      subst h
      exact lexHead_err env c cs e he
    · simp at h

/-! ## the loop -/

/-- what was consumed before a suffix is the matching prefix -/
theorem consumed_split (s rest : List Nat) (h : rest <:+ s) :
    consumed s rest <+: s ∧ s = consumed s rest ++ rest := by
  obtain ⟨pre, rfl⟩ := h
  rw [consumed_append]
  exact ⟨List.prefix_append _ _, rfl⟩

/-- generic in the token function: a located error of the loop is an error of ONE call of `next`,
on the input `cur` left after the text `done` of the tokens before it; the location is the one
reached by running `State::next` over `done` and over what that call had consumed when it failed -/
theorem tokLoop_error {T : Type} {next : List Nat → Except LexErr (Option (T × List Nat))}
    (h : NextOK next) : ∀ (fuel : Nat) (s : List Nat) (loc : Loc) (msg : List Nat) (l : Loc),
      tokLoop next fuel s loc = .error (.lex msg l) →
      ∃ done cur rest, s = done ++ cur ∧ next cur = .error (.err ⟨msg, rest⟩) ∧
        l = advance loc (done ++ consumed cur rest) := by
  intro fuel
  induction fuel with
  | zero => intro s loc msg l e; simp [tokLoop] at e
  | succ n ih =>
    intro s loc msg l e
    simp only [tokLoop] at e
    split at e
    · rename_i e' hn
      cases e' with
      | panic m => simp [LexErr.locate] at e
      | err e0 =>
        simp only [LexErr.locate, Except.error.injEq, TokErr.lex.injEq] at e
        obtain ⟨rfl, rfl⟩ := e
        exact ⟨[], s, e0.rest, rfl, hn, rfl⟩
    · simp at e
    · rename_i t rest hn
      obtain ⟨pre, _, hs⟩ := h.progress _ _ _ hn
      subst hs
      rw [consumed_append] at e
      split at e
      · rename_i e1 hrec
        simp only [Except.error.injEq] at e
        subst e
        obtain ⟨done, cur, r, h1, h2, h3⟩ := ih _ _ _ _ hrec
        refine ⟨pre ++ done, cur, r, by rw [h1, List.append_assoc], h2, ?_⟩
        rw [h3]; simp only [advance_append]
      · simp at e

/-! ## theorems -/

/-- `tokenize` fails exactly when `tokenizeSpans` does, with the same error -/
theorem tokenize_error_iff (env : Env) (s : List Nat) (e : TokErr) :
    tokenize env s = .error e ↔ tokenizeSpans env s = .error e := by
  rw [C09.tokenize_forgets]
  cases tokenizeSpans env s <;> simp

/-- **anatomy of a tokenizer error**: the input splits as `done ++ mid ++ rest` where `done` is the
text of the tokens produced before the failure, `next_token` called on `mid ++ rest` failed with
this message reporting the position where `rest` was left, the location is the position of `rest`
in the input computed by the newline/column rule `locOf`, and the message is a known one -/
theorem tok_error_anatomy (env : Env) (s : List Nat) (msg : List Nat) (loc : Loc)
    (h : tokenizeSpans env s = .error (.lex msg loc)) :
    ∃ done mid rest, s = done ++ (mid ++ rest) ∧
      nextToken env (mid ++ rest) = .error (.err ⟨msg, rest⟩) ∧
      loc = locOf (done ++ mid) ∧ KnownMsg msg := by
  obtain ⟨done, cur, rest, h1, h2, h3⟩ := tokLoop_error (nextToken_ok env) _ _ _ _ _ h
  have hok := nextToken_error_ok env cur _ h2
  obtain ⟨mid, rfl⟩ := hok.1
  rw [consumed_append, advance_start] at h3
  exact ⟨done, mid, rest, h1, h2, h3, hok.2⟩

/-- **tok_error_loc_in_range** (spans form): the reported location is the position of a prefix of
the input: a character of the input or the position immediately after its end -/
theorem tokenizeSpans_error_loc_in_range (env : Env) (s : List Nat) (msg : List Nat) (loc : Loc)
    (h : tokenizeSpans env s = .error (.lex msg loc)) :
    ∃ pre, pre <+: s ∧ loc = advance ⟨1, 1⟩ pre := by
  obtain ⟨done, mid, rest, h1, _, h3, _⟩ := tok_error_anatomy env s msg loc h
  refine ⟨done ++ mid, ?_, by rw [h3, advance_start]⟩
  rw [h1, ← List.append_assoc]
  exact List.prefix_append _ _

/-- **tok_error_loc_in_range** for `tokenize_with_location` -/
theorem tok_error_loc_in_range (env : Env) (s : List Nat) (msg : List Nat) (loc : Loc)
    (h : tokenize env s = .error (.lex msg loc)) :
    ∃ pre, pre <+: s ∧ loc = advance ⟨1, 1⟩ pre :=
  tokenizeSpans_error_loc_in_range env s msg loc ((tokenize_error_iff ..).1 h)

/-- the position of a prefix, in numbers: lines run from 1 to 1 + the number of `\n` of the input,
columns from 1 to 1 + the length of the input -/
theorem locOf_prefix_bounds (pre s : List Nat) (h : pre <+: s) :
    1 ≤ (locOf pre).line ∧ (locOf pre).line ≤ 1 + s.count 10 ∧
    1 ≤ (locOf pre).col ∧ (locOf pre).col ≤ 1 + s.length := by
  have h1 : pre.count 10 ≤ s.count 10 := h.sublist.count_le 10
  have h2 : (pre.reverse.takeWhile (fun c => c != 10)).length ≤ pre.length := by
    have := (List.takeWhile_sublist (l := pre.reverse) (fun c => c != 10)).length_le
    simpa using this
  have h3 : pre.length ≤ s.length := h.length_le
  simp only [locOf]
  omega

/-- **tok_error_loc_bounds**: line and column of a tokenizer error are within the input -/
theorem tok_error_loc_bounds (env : Env) (s : List Nat) (msg : List Nat) (loc : Loc)
    (h : tokenize env s = .error (.lex msg loc)) :
    1 ≤ loc.line ∧ loc.line ≤ 1 + s.count 10 ∧ 1 ≤ loc.col ∧ loc.col ≤ 1 + s.length := by
  obtain ⟨pre, hp, hl⟩ := tok_error_loc_in_range env s msg loc h
  rw [hl, advance_start]
  exact locOf_prefix_bounds pre s hp

/-- **tok_error_message_known**: every located error of `tokenize` carries one of the ten
message shapes of `KnownMsg` -/
theorem tok_error_message_known (env : Env) (s : List Nat) (msg : List Nat) (loc : Loc)
    (h : tokenize env s = .error (.lex msg loc)) : KnownMsg msg := by
  obtain ⟨_, _, _, _, _, _, hk⟩ := tok_error_anatomy env s msg loc ((tokenize_error_iff ..).1 h)
  exact hk

/-- the two `"invalid string literal opening"` sites of `tokenize_quoted_string` /
`tokenize_single_or_triple_quoted_string` are dead code: every call has the quote at the head -/
theorem tok_error_never_invalid_opening (env : Env) (s : List Nat) (loc : Loc) :
    tokenize env s ≠ .error (.lex (str "invalid string literal opening") loc) := by
  intro h
  have hk := tok_error_message_known env s _ loc h
  generalize hm : str "invalid string literal opening" = m at hk
  cases hk
  all_goals first
    | exact absurd (congrArg List.head? hm) (by decide)
    | exact absurd ((congrArg List.head? hm).trans (rfl : _ = some 69)) (by decide)
    | exact absurd ((congrArg List.head? hm).trans (rfl : _ = some 73)) (by decide)

/-- the only other failure of the model is the panic of `Word::matching_end_quote`; the loop's
fuel never runs out (`C09.never_out_of_fuel`) -/
theorem tok_error_kinds (env : Env) (s : List Nat) (e : TokErr) (h : tokenize env s = .error e) :
    (∃ msg loc, e = .lex msg loc ∧ KnownMsg msg) ∨ ∃ site, e = .panic site := by
  cases e with
  | lex msg loc => exact Or.inl ⟨msg, loc, rfl, tok_error_message_known env s msg loc h⟩
  | panic site => exact Or.inr ⟨site, rfl⟩
  | fuel => exact absurd ((tokenize_error_iff ..).1 h) (C09.never_out_of_fuel env s)

/-- **tok_error_deterministic**: the error is a function of dialect environment and input -/
theorem tok_error_deterministic (env : Env) (s : List Nat) (e₁ e₂ : TokErr)
    (h₁ : tokenize env s = .error e₁) (h₂ : tokenize env s = .error e₂) : e₁ = e₂ := by
  rw [h₁] at h₂
  exact Except.error.inj h₂

/-- success and failure exclude each other -/
theorem tok_error_not_ok (env : Env) (s : List Nat) (e : TokErr) (ts : List (Token × Loc))
    (h₁ : tokenize env s = .error e) (h₂ : tokenize env s = .ok ts) : False := by
  rw [h₁] at h₂; cases h₂

/-! ## non-vacuity -/

open C09 (genericEnv errOf)

/-- `a 'b`: the unterminated literal is reported at its opening quote; the witness prefix is `a␠` -/
example : ∃ pre, pre <+: [97, 32, 39, 98] ∧
    errOf (tokenize (genericEnv true) [97, 32, 39, 98]) =
      some (.lex (str "Unterminated string literal") (advance ⟨1, 1⟩ pre)) :=
  ⟨[97, 32], ⟨[39, 98], rfl⟩, by decide +kernel⟩

/-- `a⏎/* x`: reported immediately after the end of the input (the prefix is the whole input), on
line 2 = 1 + the number of newlines: both bounds of `tok_error_loc_bounds` are attained -/
example : errOf (tokenize (genericEnv true) [97, 10, 47, 42, 32, 120]) =
      some (.lex (str "Unexpected EOF while in a multi-line comment")
        (advance ⟨1, 1⟩ [97, 10, 47, 42, 32, 120])) ∧
    (advance ⟨1, 1⟩ [97, 10, 47, 42, 32, 120]).line = 1 + [97, 10, 47, 42, 32, 120].count 10 := by
  decide +kernel

/-- the error of one call of `next_token` -/
def lexErrOf {α : Type} : Except LexErr α → Option LexErr
  | .error e => some e
  | .ok _ => none

theorem errOf_eq_some {α : Type} {x : Except TokErr α} {e : TokErr} (h : errOf x = some e) :
    x = .error e := by
  cases x with
  | error e' => simp only [errOf, Option.some.injEq] at h; rw [h]
  | ok _ => simp [errOf] at h

/-- `x U&'ab\00g1' y` (anatomy, with a position strictly inside the failing literal):
`done = x␠`, `mid = U&'ab\00g`, `rest = 1' y`; location = column 12 of line 1 -/
example :
    let done := [120, 32]
    let mid := [85, 38, 39, 97, 98, 92, 48, 48, 103]
    let rest := [49, 39, 32, 121]
    let msg := str "Invalid hex digit in escaped unicode string: " ++ [103]
    errOf (tokenizeSpans (genericEnv true) (done ++ (mid ++ rest))) = some (.lex msg ⟨1, 12⟩) ∧
    lexErrOf (nextToken (genericEnv true) (mid ++ rest)) = some (.err ⟨msg, rest⟩) ∧
    locOf (done ++ mid) = ⟨1, 12⟩ ∧ hexVal 103 = none := by
  decide +kernel

/-- the remaining message shapes occur (Generic dialect): `E'ab`, a back-quoted identifier left
open, `$$ab`, `$t$ab$`, `U&'ab`, `U&'\00`, `U&'\+00D800'` (a surrogate) -/
example : errOf (tokenize (genericEnv true) [69, 39, 97, 98]) =
    some (.lex (str "Unterminated encoded string literal") ⟨1, 1⟩) := by decide +kernel
example : errOf (tokenize (genericEnv true) [115, 32, 96, 97, 98]) =
    some (.lex (str "Expected close delimiter '" ++ [96] ++ str "' before EOF.") ⟨1, 3⟩) := by
  decide +kernel
example : errOf (tokenize (genericEnv true) [36, 36, 97, 98]) =
    some (.lex (str "Unterminated dollar-quoted string") ⟨1, 5⟩) := by decide +kernel
example : errOf (tokenize (genericEnv true) [36, 116, 36, 97, 98, 36]) =
    some (.lex (str "Unterminated dollar-quoted, expected $") ⟨1, 7⟩) := by decide +kernel
example : errOf (tokenize (genericEnv true) [85, 38, 39, 97, 98]) =
    some (.lex (str "Unterminated unicode encoded string literal") ⟨1, 6⟩) := by decide +kernel
example : errOf (tokenize (genericEnv true) [85, 38, 39, 92, 48, 48]) =
    some (.lex (str "Unexpected EOF while parsing hex digit in escaped unicode string.") ⟨1, 7⟩) := by
  decide +kernel
example : errOf (tokenize (genericEnv true) [85, 38, 39, 92, 43, 48, 48, 68, 56, 48, 48, 39]) =
    some (.lex (str "Invalid unicode character: " ++ lowerHex 0xD800) ⟨1, 12⟩) ∧
    lowerHex 0xD800 = str "d800" ∧ charFromU32 0xD800 = none := by decide +kernel

/-- determinism has content only when there is an error: here is one -/
example : ∃ e, tokenize (genericEnv true) [39] = .error e := by
  refine ⟨.lex (str "Unterminated string literal") ⟨1, 1⟩, errOf_eq_some ?_⟩
  decide +kernel

end SqlVerif.Props.C10Lexer

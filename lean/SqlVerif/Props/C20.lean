import SqlVerif.Lemmas.EscapeLemmas
/-!
# C20 — un-escaping off preserves raw text

Models: the literal scanners of `Model/Scan.lean`, the tokenizer of `Model/Tokenizer.lean`
(`Env.unescape` = `Tokenizer::unescape`) and the printers of `Model/Escape.lean`.
`withUn env b` is `env` with the option set to `b`.

Proved (all dialect rows, all character predicates, all inputs):
* `raw_body_exact`: with the option off, the payload that `tokenize_quoted_string`,
  `tokenize_single_or_triple_quoted_string` and `parse_quoted_ident` return is the source text
  between the delimiters (single/double/triple-quoted, byte, raw, national, hex literals, quoted
  identifiers all go through these three routines; branch-level forms below);
* `print_raw_identity`: `EscapeQuotedString` is the identity on every payload the raw-mode scanner
  can return (here the "already escaped" look-ahead of the printer is right), in dialects with and
  without backslash escapes; kinds printed verbatim are the identity by definition of `showValue`;
  hence `print_raw_source`: printing a raw-mode literal reproduces its source slice;
* `modes_same_shape`: `tokenize` in both modes fails with the same located error or returns
  token lists of equal length whose tokens are equal except for the payloads of the quoted kinds
  (`eraseTok`), with equal locations.
Negation (`escaped_ignores_raw_mode`): `E'…'` and `U&'…'` un-escape whatever the option says.
Not a theorem: the tree level (the parser looks at payload text at a few sites); `FullStatement`.
-/
namespace SqlVerif.Props.C20
open SqlVerif.Escape SqlVerif.Scan SqlVerif.Tok SqlVerif.Keywords SqlVerif.Gen

/-! ## raw bodies -/

/-- **raw_body_exact**, the three scanner routines.  `openN` opening quotes are consumed by the
routine itself (1 for `tokenize_single_quoted_string`, 0 when the caller counted them). -/
theorem raw_body_exact :
    -- tokenize_quoted_string, One / Many(3)
    (∀ (q : Nat) (triple : Bool) (openN : Nat) (bs : Bool) (s p r : List Nat),
      scanQuoted q triple openN bs false s = .ok (p, r) →
        s = List.replicate openN q ++ p ++ (if triple then [q, q, q] else [q]) ++ r) ∧
    -- tokenize_single_or_triple_quoted_string (`t` = triple-quoted)
    (∀ (q : Nat) (bs : Bool) (s : List Nat) (t : Bool) (p r : List Nat),
      scanSingleOrTriple q bs false s = .ok (t, p, r) →
        s = (if t then [q, q, q] else [q]) ++ p ++ (if t then [q, q, q] else [q]) ++ r) ∧
    -- parse_quoted_ident (input after the opening quote, `qe` the closing one)
    (∀ (qe : Nat) (s p r : List Nat), quotedIdentBody qe false s = some (p, r) → s = p ++ [qe] ++ r) := by
  refine ⟨scanQuoted_raw_exact, scanSingleOrTriple_raw_exact, fun qe s p r h => ?_⟩
  rw [quotedIdentBody_eq] at h
  simpa using quotedBody_raw_exact qe false s p r h

/-- branch level, `'…'` / `"…"` (and their triple forms): the token built by `next_token` carries
the slice between the delimiters -/
theorem raw_body_exact_quote (env : Env) (hun : env.unescape = false) (q : Nat) (f g : List Nat → Token)
    (s : List Nat) (t : Token) (rest : List Nat) (h : lexQuote env q f g s = .ok (t, rest)) :
    ∃ p, (t = f p ∧ s = [q] ++ p ++ [q] ++ rest) ∨ (t = g p ∧ s = [q, q, q] ++ p ++ [q, q, q] ++ rest) :=
  raw_lexQuote env hun q f g s t rest h

/-- branch level, byte and raw literals after their prefix letter -/
theorem raw_body_exact_prefixed (env : Env) (hun : env.unescape = false) (q : Nat) (bs : Bool)
    (f g : List Nat → Token) (s : List Nat) (t : Token) (rest : List Nat)
    (h : singleOrTriple env q bs f g s = .ok (t, rest)) :
    ∃ p, (t = f p ∧ s = [q] ++ p ++ [q] ++ rest) ∨ (t = g p ∧ s = [q, q, q] ++ p ++ [q, q, q] ++ rest) :=
  raw_singleOrTriple env hun q bs f g s t rest h

/-- branch level, `N'…'` / `X'…'` (and byte literals where triple quotes are not supported) -/
theorem raw_body_exact_single (q : Nat) (bs : Bool) (f : List Nat → Token) (s : List Nat) (t : Token)
    (rest : List Nat) (h : ofScan f (scanSingleQuoted q bs false s) = .ok (t, rest)) :
    ∃ p, t = f p ∧ s = [q] ++ p ++ [q] ++ rest :=
  raw_scanSingleQuoted q bs f s t rest h

/-- branch level, delimited identifiers -/
theorem raw_body_exact_ident (env : Env) (hun : env.unescape = false) (c : Nat) (cs : List Nat) (t : Token)
    (rest : List Nat) (h : lexQuotedIdent env c cs = .ok (t, rest)) :
    ∃ p qe, matchingEndQuote c = some qe ∧ t = mkWord env p (some c) ∧ c :: cs = [c] ++ p ++ [qe] ++ rest :=
  raw_lexQuotedIdent env hun c cs t rest h

/-- `'a''b\'c'` in a backslash dialect: the raw payload is `a''b\'c` -/
example : scanSingleQuoted 39 true false [39, 97, 39, 39, 98, 92, 39, 99, 39, 32] =
    .ok ([97, 39, 39, 98, 92, 39, 99], [32]) := by decide
/-- `"""a""b"""` -/
example : scanSingleOrTriple 34 false false [34, 34, 34, 97, 34, 34, 98, 34, 34, 34] =
    .ok (true, [97, 34, 34, 98], []) := by decide

/-! ## the printer on raw bodies -/

/-- **print_raw_identity**: for every payload in the image of the raw-mode scanner — dialects with
(`bs = true`) and without backslash escapes, any quote character — `escape_quoted_string` returns
the payload unchanged.  Proved by induction along the scanner's run: quotes occur only doubled at
a position where the printer is not behind a backslash (consumed as a pair, written as a pair) or
behind a backslash (written once each). -/
theorem print_raw_identity (q : Nat) (bs : Bool) (s r p : List Nat)
    (h : quotedBody q bs false s = some (r, p)) : escapeQ q r = r :=
  escQGo_raw q bs s r p h 0

/-- the same for raw-mode delimited identifiers (`Display for Ident` with `"` or backquote) -/
theorem print_raw_identity_ident (q : Nat) (s r p : List Nat)
    (h : quotedIdentBody q false s = some (r, p)) : escapeQ q r = r := by
  rw [quotedIdentBody_eq] at h
  exact escQGo_raw q false s r p h 0

/-- hence printing a raw-mode `'…'` / `"…"` literal reproduces its source slice byte for byte -/
theorem print_raw_source (q : Nat) (bs : Bool) (s p r : List Nat)
    (h : scanSingleQuoted q bs false s = .ok (p, r)) : [q] ++ escapeQ q p ++ [q] ++ r = s := by
  have h1 := scanQuoted_raw_exact q false 1 bs s p r h
  have h2 : escapeQ q p = p := by
    simp only [scanSingleQuoted, scanQuoted] at h
    split at h
    · simp at h
    · rename_i body hb
      simp only [Bool.false_eq_true, ↓reduceIte] at h
      split at h
      · simp at h
      · rename_i x hq
        simp only [Except.ok.injEq] at h
        subst h
        exact escQGo_raw q bs body _ _ hq 0
  rw [h2, h1]
  simp [List.replicate]

/-- kinds printed verbatim reproduce their raw body by definition -/
theorem print_raw_verbatim (p : List Nat) :
    showValue .national p = [78, 39] ++ p ++ [39] ∧ showValue .hex p = [88, 39] ++ p ++ [39] ∧
    showValue .byteSingle p = [66, 39] ++ p ++ [39] ∧ showValue .rawSingle p = [82, 39] ++ p ++ [39] ∧
    showValue .tripleSingle p = sq3 ++ p ++ sq3 ∧ showValue .tripleDouble p = dq3 ++ p ++ dq3 := by
  simp [showValue]

/-- raw bodies with doubled quotes, backslash-quote, backslash-backslash-quote-quote -/
example : escapeQ 39 [97, 39, 39, 98, 92, 39, 99] = [97, 39, 39, 98, 92, 39, 99] ∧
    escapeQ 39 [92, 92, 39, 39, 10, 0x1D4B3] = [92, 92, 39, 39, 10, 0x1D4B3] := by decide
/-- outside the image the printer is not the identity (that is C06's subject) -/
example : escapeQ 39 [97, 39, 98] = [97, 39, 39, 98] := by decide

/-! ## both modes -/

/-- **modes_same_shape**: tokenizing with and without un-escaping gives the same located error,
or token lists that agree in length, kinds, locations and in every payload except those of the
quoted kinds blanked by `eraseTok` -/
theorem modes_same_shape (env : Env) (s : List Nat) :
    mapOk (List.map fun x : Token × Loc => (eraseTok x.1, x.2)) (tokenize (withUn env true) s) =
      mapOk (List.map fun x : Token × Loc => (eraseTok x.1, x.2)) (tokenize (withUn env false) s) :=
  tokenize_modes env s

/-- the form of the property text: both succeed ⇒ same length, and position by position the same
location and the same token up to blanked payloads -/
theorem modes_same_shape' (env : Env) (s : List Nat) (ts ts' : List (Token × Loc))
    (h1 : tokenize (withUn env true) s = .ok ts) (h2 : tokenize (withUn env false) s = .ok ts') :
    ts.length = ts'.length ∧
    ∀ i (h : i < ts.length) (h' : i < ts'.length),
      eraseTok ts[i].1 = eraseTok ts'[i].1 ∧ ts[i].2 = ts'[i].2 := by
  have := modes_same_shape env s
  rw [h1, h2] at this
  simp only [mapOk, Except.ok.injEq] at this
  have hl : ts.length = ts'.length := by simpa using congrArg List.length this
  refine ⟨hl, fun i h h' => ?_⟩
  have hi := congrArg (fun l => l[i]?) this
  simp only [List.getElem?_map, List.getElem?_eq_getElem h, List.getElem?_eq_getElem h', Option.map_some,
    Option.some.injEq, Prod.mk.injEq] at hi
  exact hi

/-- one mode accepts iff the other does -/
theorem modes_same_acceptance (env : Env) (s : List Nat) (e : TokErr) :
    tokenize (withUn env true) s = .error e ↔ tokenize (withUn env false) s = .error e := by
  have := modes_same_shape env s
  cases h1 : tokenize (withUn env true) s <;> cases h2 : tokenize (withUn env false) s <;>
    rw [h1, h2] at this <;> simp [mapOk] at this ⊢
  · rw [this]

/-- what `eraseTok` blanks: exactly the kinds read by `tokenize_quoted_string` /
`parse_quoted_ident`; `E'…'`, `U&'…'`, dollar-quoted strings, numbers, unquoted words, … are
compared in full -/
example : eraseTok (.singleQuotedString [97]) = .singleQuotedString [] ∧
    eraseTok (.escapedStringLiteral [97]) = .escapedStringLiteral [97] ∧
    eraseTok (.unicodeStringLiteral [97]) = .unicodeStringLiteral [97] ∧
    eraseTok (.dollarQuotedString [97] none) = .dollarQuotedString [97] none ∧
    eraseTok (.number [49] false) = .number [49] false ∧
    eraseTok (.word ⟨[97], none, none⟩) = .word ⟨[97], none, none⟩ ∧
    eraseTok (.word ⟨[97], some 34, none⟩) = .word ⟨[], some 34, none⟩ := by decide

/-- `SELECT 'a''b', "x""y"` in both modes: same kinds and locations, payloads differ -/
example :
    (tokenize (envOf dialect_generic true) (str "SELECT 'a''b', \"x\"\"y\"")).toOption.map (fun ts => ts.map (·.2)) =
      (tokenize (envOf dialect_generic false) (str "SELECT 'a''b', \"x\"\"y\"")).toOption.map (fun ts => ts.map (·.2)) ∧
    (tokenize (envOf dialect_generic true) (str "'a''b'")).toOption = some [(.singleQuotedString (str "a'b"), ⟨1, 1⟩)] ∧
    (tokenize (envOf dialect_generic false) (str "'a''b'")).toOption = some [(.singleQuotedString (str "a''b"), ⟨1, 1⟩)] := by
  decide +kernel

/-! ## negation: `E'…'` and `U&'…'` ignore the option -/

/-- **escaped_ignores_raw_mode**: with un-escaping **off**, `E'\n'` still yields a line feed and
`U&'\0041'` still yields `A`: the payload is not the source text between the delimiters -/
theorem escaped_ignores_raw_mode :
    (nextToken (envOf dialect_postgresql false) (str "E'\\n'")).toOption =
      some (some (.escapedStringLiteral [10], [])) ∧
    (nextToken (envOf dialect_postgresql false) (str "U&'\\0041'")).toOption =
      some (some (.unicodeStringLiteral [65], [])) ∧
    (nextToken (envOf dialect_postgresql false) (str "E'a''b'")).toOption =
      some (some (.escapedStringLiteral (str "a'b"), [])) := by decide +kernel

/-- for every dialect and input: the two branches do not read the option at all -/
theorem escaped_ignores_raw_mode_general (env : Env) (b : Bool) (c : Nat) (cs : List Nat) :
    lexEscaped (withUn env b) c cs = lexEscaped env c cs ∧ lexUnicode (withUn env b) c cs = lexUnicode env c cs :=
  ⟨rfl, rfl⟩

/-! ## what is not a theorem -/

/-- The property as stated, at token level: with the option off **every** string literal and quoted
identifier token carries the source text between its delimiters.  False because of `E'…'` and
`U&'…'` (`escaped_ignores_raw_mode`).  The tree-level part of the property (printing the parsed
tree reproduces the bodies; the two trees differ only in payloads) is not modelled: the parser
branches on payload text at a few sites (`parse_literal_char`, introducers, …); it is decided by
the oracle on the real code (corpus and generated literals, every dialect). -/
def FullStatement : Prop :=
  ∀ (env : Env) (s rest p : List Nat), env.unescape = false →
    (nextToken env s = .ok (some (.escapedStringLiteral p, rest)) → ∃ o, s = o ++ [39] ++ p ++ [39] ++ rest) ∧
    (nextToken env s = .ok (some (.unicodeStringLiteral p, rest)) → ∃ o, s = o ++ [39] ++ p ++ [39] ++ rest)

theorem fullStatement_false : ¬ FullStatement := by
  intro h
  have h1 := (h (envOf dialect_postgresql false) (str "E'\\n'") [] [10] rfl).1 (by decide +kernel)
  obtain ⟨o, ho⟩ := h1
  have hl := congrArg List.length ho
  have h5 : (str "E'\\n'").length = 5 := by decide
  simp only [List.length_append, List.length_cons, List.length_nil] at hl
  have : o.length = 2 := by omega
  match o, this with
  | [a, b], _ =>
    revert ho
    simp only [List.cons_append, List.nil_append]
    intro ho
    have h3 : (str "E'\\n'").drop 3 = [110, 39] := by decide
    have := congrArg (fun l => l.drop 3) ho
    simp only [h3, List.drop_succ_cons, List.drop_zero] at this
    exact absurd this (by decide)

end SqlVerif.Props.C20

import SqlVerif.Lemmas.QueryContent
import SqlVerif.Props.C05
/-!
# C05 on the query fragment — nothing the user wrote is lost, nothing invented

Extends `content_preserved_partial` (`Props/C05.lean`, expressions) to the query statements of
`Model/Query.lean` printed by `Model/QueryPrint.lean` (stream `queries`: real `to_string()` against
the model text).  For EVERY configuration record, fuel, recursion limit and token list:

* `query_content_preserved_partial`: if the modelled statement parser accepts a prefix `pre` of the
  input and returns the query `q`, and `q` is `printable`, the SEQUENCE of content tokens
  (identifiers with their quoting, numbers, string payloads, placeholders) of `pre` is exactly that
  of the printed tokens `q.showToks`: nothing lost, nothing invented, nothing reordered — although
  `Display` drops `ALL`, `OUTER`, `INNER`, trailing commas and `LIMIT ALL`, adds `AS` before every
  alias and respells every keyword.
* `Query.printable` (decidable, `Lemmas/QueryContent.lean`): every expression of the query is
  `Expr.printable` (see `Props/C01.lean`), and the LIMIT / OFFSET clauses are written in the order
  `Display` uses.  The two excluded clause orders do reorder the content on the current code
  (`content_reordered_limit_comma`, `content_reordered_offset_limit`, kernel-checked); the multiset
  is the same.

Proof: `yield` for the query layer (`query_yield_all`) and a second simultaneous fuel induction
(`content_all`): keyword and punctuation tokens carry no content, identifier / alias / name tokens
are printed as themselves, expressions by `faithful_content`.
-/
namespace SqlVerif.Props.C05Query
open SqlVerif.Pratt SqlVerif.Query SqlVerif.Gen

theorem parseStatement_content (c : QCfg) (fuel limit : Nat) (ts : List Tok) (q : Query) (rest : List Tok)
    (h : parseStatement c fuel limit ts = .ok (q, rest)) (hp : q.printable = true) : cont q.flatten = pc q.pieces := by
  unfold parseStatement at h
  repeat' split at h
  all_goals first
    | (simp at h; done)
    | exact (content_all c fuel).1 _ _ _ _ h hp

/-- **content preservation** for the modelled query statements, as a statement about sequences -/
theorem query_content_preserved_partial (c : QCfg) (fuel limit : Nat) (ts : List Tok) (q : Query) (rest : List Tok)
    (h : parseStatement c fuel limit ts = .ok (q, rest)) (hp : q.printable = true) :
    ∃ pre, ts = pre ++ rest ∧ pre.filterMap contentOf = q.showToks.filterMap contentOf :=
  ⟨q.flatten, parseStatement_yield c fuel limit ts q rest h, parseStatement_content c fuel limit ts q rest h hp⟩

/-- the same for a complete statement, and as a statement about multisets -/
theorem query_content_preserved_stmt (c : QCfg) (fuel limit : Nat) (ts : List Tok) (q : Query)
    (h : parseStatement c fuel limit ts = .ok (q, [])) (hp : q.printable = true) :
    ts.filterMap contentOf = q.showToks.filterMap contentOf ∧
    (ts.filterMap contentOf).Perm (q.showToks.filterMap contentOf) := by
  obtain ⟨pre, h1, h2⟩ := query_content_preserved_partial c fuel limit ts q [] h hp
  simp at h1; subst h1
  exact ⟨h2, h2 ▸ List.Perm.refl _⟩

section Witnesses
def g : QCfg := QCfg.ofRow dialect_generic
def wd (s : String) : Tok := .word (str s) none none
def kw (s : String) : Tok := .word (str s) none (some (kwIndex s))
def num (s : String) : Tok := .number (str s) false

def contentIO (ts : List Tok) : Option (Bool × List Content × List Content) :=
  match parseStatement g 300 50 ts with
  | .ok (q, []) => some (q.printable, ts.filterMap contentOf, q.showToks.filterMap contentOf)
  | _ => none

/-- non-vacuity: `SELECT ALL "A" x, t.* FROM s.t u LEFT OUTER JOIN (SELECT 1) d USING (k,) WHERE x > ? ORDER BY 2 DESC LIMIT ALL OFFSET 3 ROWS`
(trailing comma option on): printable; ALL, OUTER, the trailing comma and LIMIT ALL disappear, AS
appears three times, and the thirteen content tokens come back in order -/
example :
    (match parseStatement (g.withTrailing true) 300 50
      [kw "SELECT", kw "ALL", .word (str "A") (some 34) none, wd "x", .sym .Comma, wd "t", .sym .Period, .sym .Mul, kw "FROM", wd "s",
       .sym .Period, wd "t", wd "u", kw "LEFT", kw "OUTER", kw "JOIN", .sym .LParen, kw "SELECT", num "1", .sym .RParen, wd "d",
       kw "USING", .sym .LParen, wd "k", .sym .Comma, .sym .RParen, kw "WHERE", wd "x", .sym .Gt, .placeholder (str "?"),
       kw "ORDER", kw "BY", num "2", kw "DESC", kw "LIMIT", kw "ALL", kw "OFFSET", num "3", kw "ROWS"] with
     | .ok (q, []) => (q.printable, q.showToks.length, q.showToks.filterMap contentOf == q.flatten.filterMap contentOf,
        (q.flatten.filterMap contentOf).length, q.showText == some (str "SELECT \"A\" AS x, t.* FROM s.t AS u LEFT JOIN (SELECT 1) AS d USING(k) WHERE x > ? ORDER BY 2 DESC OFFSET 3 ROWS"))
     | _ => (false, 0, false, 0, false)) = (true, 37, true, 13, true) := by decide +kernel

/-- excluded shape, current code: MySQL `LIMIT 1, 2` prints `LIMIT 2 OFFSET 1` — same bag, other order -/
theorem content_reordered_limit_comma :
    contentIO [kw "SELECT", wd "a", kw "LIMIT", num "1", .sym .Comma, num "2"] =
      some (false, [.ident (str "a") none, .num (str "1"), .num (str "2")],
                   [.ident (str "a") none, .num (str "2"), .num (str "1")]) := by decide +kernel

/-- excluded shape, current code: `OFFSET 1 LIMIT 2` prints `LIMIT 2 OFFSET 1` -/
theorem content_reordered_offset_limit :
    contentIO [kw "SELECT", wd "a", kw "OFFSET", num "1", kw "LIMIT", num "2"] =
      some (false, [.ident (str "a") none, .num (str "1"), .num (str "2")],
                   [.ident (str "a") none, .num (str "2"), .num (str "1")]) := by decide +kernel
end Witnesses

/-- The whole-grammar property (not proved: query statements of the fragment only; decided by the
content-bag oracle on the real code). -/
def FullStatement {Ast : Type} (parse : List Tok → Option (Ast × List Tok)) (print : Ast → List Tok) : Prop :=
  ∀ ts a, parse ts = some (a, []) → (ts.filterMap contentOf).Perm ((print a).filterMap contentOf)

end SqlVerif.Props.C05Query

import SqlVerif.Lemmas.LayoutLexer
import SqlVerif.Props.C07
import SqlVerif.Props.C09
/-!
# C07, lexer half — replacing a whitespace run changes `Whitespace` tokens only

Model: `Model/Tokenizer.lean` + `Model/Scan.lean` (tied to `src/tokenizer.rs` by the `tok` stream).
The parser half is `Props/C07.lean` (`layout_blind`: a whitespace-skipping program sees the
non-whitespace tokens only).  Here: the non-whitespace tokens (kinds and payloads; not locations) of
`a ++ w₁ ++ b` and `a ++ w₂ ++ b` coincide.

Everything rests on `Tok.nextToken_ws_cut` (`Lemmas/LayoutLexer.lean`), proved for EVERY branch of
`next_token`, so there is no `_partial` theorem in this file.  What the statement needs, and why:

* `Sep env c` for the FIRST character `c` of `w₁` and of `w₂`: `c` is whitespace for
  `char::is_whitespace`, is one of the ASCII blanks 9-13, 32 or non-ASCII, and none of
  `is_identifier_part`, `is_custom_operator_part`, `is_numeric`, `is_alphanumeric` accepts it.  Rust's
  whitespace satisfies all but the first dialect condition unconditionally; `is_identifier_part` does
  accept U+00A0/U+1680/U+2000…/U+3000 in MySQL (`'\u{0080}'..='\u{ffff}'` are identifier characters
  there), so in MySQL those are not separators (and do not lex as whitespace either).
* `env.isRedshift = false`: Redshift's `is_proper_identifier_inside_quotes` skips a whitespace run on
  a clone of the input and looks at the character AFTER it.  `redshift_counterexample` below is a
  concrete violation of the property text in that dialect (comment vs blank after `[`).
* `w₂` must lex as whitespace *in front of `b`* (`h2`), not on its own: `" --x "` is blank-padded and
  lexes on its own as whitespace only, but swallows `b` (`unterminated_line_comment_counterexample`).
  For a `w₂` whose last token is a one-character blank or ends in `\n` the two coincide.
* `\r`: a lone `\r` is `Newline`, `\r\n` is ONE `Newline`.  This is the only place where
  `next_token` looks for a whitespace character after a token.  The non-whitespace tokens are not
  affected, but token boundaries are; the hypothesis `hcr` excludes the regrouping case (`a` ends in
  `\r` and `w₂` starts with `\n` while `w₁` does not).  `cr_lf_regroups` shows the regrouping.
* The old exceptions are gone: after `@`, `@@`, `#`, `%` every `char::is_whitespace` character is
  treated alike (`at_sharp_percent_treat_whitespace_alike`).
-/
namespace SqlVerif.Props.C07Lexer
open SqlVerif.Tok SqlVerif.Scan SqlVerif.Gen SqlVerif.Keywords

/-- `Token::Whitespace(_)` -/
def isWsTok : Token → Bool
  | .whitespace _ => true
  | _ => false

/-- the significant (non-whitespace) tokens, without locations and slices -/
def sig (ts : List (Entry Token)) : List Token := (ts.map Entry.tok).filter fun t => !isWsTok t

theorem sig_append (a b : List (Entry Token)) : sig (a ++ b) = sig a ++ sig b := by
  simp [sig]

theorem sig_of_untimed {a b : List (Entry Token)} (h : untimed a = untimed b) : sig a = sig b := by
  have : a.map Entry.tok = b.map Entry.tok := by
    have := congrArg (List.map Prod.fst) h
    simpa [untimed, List.map_map, Function.comp_def] using this
  simp [sig, this]

theorem sig_ws {w : List (Entry Token)} (h : ∀ e ∈ w, isWsTok e.tok = true) : sig w = [] := by
  simp only [sig, List.filter_eq_nil_iff, List.mem_map]
  rintro t ⟨e, he, rfl⟩
  simp [h e he]

/-- **cut lemma** (restated): a token that ends before a separator character depends neither on that
character nor on anything after it.  All dialect rows but Redshift, all branches of `next_token`. -/
theorem next_token_ws_cut (env : Env) (hrs : env.isRedshift = false) (c c' : Nat) (x x' : List Nat)
    (hc : Sep env c) (hc' : Sep env c') (s : List Nat) (t : Token) (r : List Nat)
    (hcr : s = [13] → c' = 10 → c = 10)
    (e : nextToken env (s ++ c :: x) = .ok (some (t, r ++ c :: x))) :
    nextToken env (s ++ c' :: x') = .ok (some (t, r ++ c' :: x')) :=
  nextToken_ws_cut hc hc' hrs s t r hcr e

/-- **TokenBoundary**: the tokens that lie inside `a` are the same, with the same slices and
locations, whatever separator-headed text follows `a`; after them come the tokens of that text -/
theorem prefix_stable (env : Env) (hrs : env.isRedshift = false) (a : List Nat) (c c' : Nat)
    (x x' : List Nat) (hc : Sep env c) (hc' : Sep env c')
    (hcr : a.getLast? = some 13 → c' = 10 → c = 10)
    (A R R₂ : List (Entry Token))
    (h1 : tokenizeSpans env (a ++ c :: x) = .ok (A ++ R)) (hA : slices A = a)
    (h2 : tokenizeSpans env (c' :: x') = .ok R₂) :
    ∃ R', tokenizeSpans env (a ++ c' :: x') = .ok (A ++ R') ∧ untimed R' = untimed R₂ := by
  have inv := tokLoop_inv (nextToken_ok env) _ _ _ _ h1
  have hAne : ∀ e ∈ A, e.slice ≠ [] := fun e he => inv.2.1 e (List.mem_append_left _ he)
  have hlen : A.length ≤ a.length := by
    have := length_le_of_nonempty_slices A hAne
    rwa [hA] at this
  obtain ⟨R', hR', hu⟩ := tokLoop_loc_irrel (nextToken_ok env) _ _ _ _ h2
    ((a ++ c' :: x').length + 1 - A.length) (advance ⟨1, 1⟩ (slices A)) (by simp; omega)
  refine ⟨R', ?_, hu⟩
  refine tokLoop_cut (nextToken_ok env) [] A a ?_ _ _ ⟨1, 1⟩ R R' h1 (by simp [hA]) (by simp; omega)
    (by simpa using hR')
  intro s t r hs e
  refine nextToken_ws_cut hc hc' hrs s t r ?_ e
  intro h13
  subst h13
  obtain ⟨p, rfl⟩ := hs
  exact hcr (by simp)

/-- **layout_lexer.**  `a ++ w₁ ++ b` lexes as `A ++ W ++ B` with `A` covering exactly `a` and `W`
whitespace tokens covering exactly `w₁`; `w₂`, in front of `b`, lexes as whitespace tokens `W₂`
covering exactly `w₂`; both runs start with a separator character.  Then `a ++ w₂ ++ b` lexes, its
tokens inside `a` are *identical* (payloads, slices, locations) and its significant tokens are those of
`a ++ w₁ ++ b`. -/
theorem layout_lexer (env : Env) (hrs : env.isRedshift = false) (a w₁ w₂ b : List Nat)
    (A W B W₂ B₂ : List (Entry Token))
    (h1 : tokenizeSpans env (a ++ w₁ ++ b) = .ok (A ++ W ++ B))
    (hA : slices A = a) (hW : slices W = w₁) (hWws : ∀ e ∈ W, isWsTok e.tok = true)
    (h2 : tokenizeSpans env (w₂ ++ b) = .ok (W₂ ++ B₂))
    (hW₂ : slices W₂ = w₂) (hW₂ws : ∀ e ∈ W₂, isWsTok e.tok = true)
    (c₁ c₂ : Nat) (hc₁ : w₁.head? = some c₁) (hc₂ : w₂.head? = some c₂)
    (hs₁ : Sep env c₁) (hs₂ : Sep env c₂)
    (hcr : a.getLast? = some 13 → c₂ = 10 → c₁ = 10) :
    ∃ R', tokenizeSpans env (a ++ w₂ ++ b) = .ok (A ++ R') ∧
      sig (A ++ R') = sig (A ++ W ++ B) := by
  obtain ⟨t₁, rfl⟩ : ∃ t, w₁ = c₁ :: t := by
    cases w₁ with
    | nil => simp at hc₁
    | cons d t => simp at hc₁; exact ⟨t, by rw [hc₁]⟩
  obtain ⟨t₂, rfl⟩ : ∃ t, w₂ = c₂ :: t := by
    cases w₂ with
    | nil => simp at hc₂
    | cons d t => simp at hc₂; exact ⟨t, by rw [hc₂]⟩
  have h1' : tokenizeSpans env (a ++ c₁ :: (t₁ ++ b)) = .ok (A ++ (W ++ B)) := by
    simpa [List.append_assoc] using h1
  obtain ⟨R', hR', hu⟩ := prefix_stable env hrs a c₁ c₂ (t₁ ++ b) (t₂ ++ b) hs₁ hs₂ hcr A (W ++ B)
    (W₂ ++ B₂) h1' hA (by simpa using h2)
  refine ⟨R', by simpa [List.append_assoc] using hR', ?_⟩
  -- the tokens of `b` are the same in both texts
  have tile1 := (tokLoop_inv (nextToken_ok env) _ _ _ _ h1).1
  have tile2 := (tokLoop_inv (nextToken_ok env) _ _ _ _ h2).1
  have hB : slices B = b := by
    simp only [slices_append, hA, hW] at tile1
    exact List.append_cancel_left tile1
  have hB₂ : slices B₂ = b := by
    simp only [slices_append, hW₂] at tile2
    exact List.append_cancel_left tile2
  obtain ⟨_, P, hP, huP⟩ := C09.suffix_stable env _ (A ++ W) B h1
  obtain ⟨_, P₂, hP₂, huP₂⟩ := C09.suffix_stable env _ W₂ B₂ h2
  rw [hB] at hP
  rw [hB₂, hP] at hP₂
  cases hP₂
  rw [sig_append, sig_append, sig_append, sig_of_untimed hu, sig_append, sig_ws hWws, sig_ws hW₂ws,
    sig_of_untimed (huP₂.symm.trans huP)]
  simp

/-- acceptance transfers as well: an error-free lex stays error-free (the statement above already
gives `.ok`); conversely for `w₁` and `w₂` swapped.  The significant tokens are equal as lists. -/
theorem layout_lexer_sig (env : Env) (hrs : env.isRedshift = false) (a w₁ w₂ b : List Nat)
    (A W B W₂ B₂ : List (Entry Token))
    (h1 : tokenizeSpans env (a ++ w₁ ++ b) = .ok (A ++ W ++ B))
    (hA : slices A = a) (hW : slices W = w₁) (hWws : ∀ e ∈ W, isWsTok e.tok = true)
    (h2 : tokenizeSpans env (w₂ ++ b) = .ok (W₂ ++ B₂))
    (hW₂ : slices W₂ = w₂) (hW₂ws : ∀ e ∈ W₂, isWsTok e.tok = true)
    (c₁ c₂ : Nat) (hc₁ : w₁.head? = some c₁) (hc₂ : w₂.head? = some c₂)
    (hs₁ : Sep env c₁) (hs₂ : Sep env c₂)
    (hcr : a.getLast? = some 13 → c₂ = 10 → c₁ = 10) :
    ∃ ts ts', tokenizeSpans env (a ++ w₁ ++ b) = .ok ts ∧ tokenizeSpans env (a ++ w₂ ++ b) = .ok ts' ∧
      sig ts' = sig ts := by
  obtain ⟨R', h, hs⟩ := layout_lexer env hrs a w₁ w₂ b A W B W₂ B₂ h1 hA hW hWws h2 hW₂ hW₂ws c₁ c₂
    hc₁ hc₂ hs₁ hs₂ hcr
  exact ⟨_, _, h1, h, hs⟩

/-! ## composition with the parser half -/

/-- the token vector handed to the parser -/
def toTL (ts : List (Entry Token)) : List (Cursor.TL Token) :=
  ts.map fun e => ⟨e.tok, ⟨e.loc.line, e.loc.col⟩⟩

theorem nonWs_toTL (ts : List (Entry Token)) :
    (Cursor.nonWs isWsTok (toTL ts)).map (·.tok) = sig ts := by
  induction ts with
  | nil => rfl
  | cons e ts ih =>
    simp only [toTL, List.map_cons, Cursor.nonWs, sig] at ih ⊢
    simp only [List.filter_cons]
    cases h : isWsTok e.tok <;> simp [ih]

/-- **layout_parse.**  Under the hypotheses of `layout_lexer`, every whitespace-skipping parse
program (`Props/C07.lean`) has the same outcome on the two texts: the same tree on success, the same
message on failure, a panic iff a panic. -/
theorem layout_parse {α : Type} (env : Env) (hrs : env.isRedshift = false) (a w₁ w₂ b : List Nat)
    (A W B W₂ B₂ : List (Entry Token))
    (h1 : tokenizeSpans env (a ++ w₁ ++ b) = .ok (A ++ W ++ B))
    (hA : slices A = a) (hW : slices W = w₁) (hWws : ∀ e ∈ W, isWsTok e.tok = true)
    (h2 : tokenizeSpans env (w₂ ++ b) = .ok (W₂ ++ B₂))
    (hW₂ : slices W₂ = w₂) (hW₂ws : ∀ e ∈ W₂, isWsTok e.tok = true)
    (c₁ c₂ : Nat) (hc₁ : w₁.head? = some c₁) (hc₂ : w₂.head? = some c₂)
    (hs₁ : Sep env c₁) (hs₂ : Sep env c₂)
    (hcr : a.getLast? = some 13 → c₂ = 10 → c₁ = 10)
    (p : Cursor.Prog Token α) (hp : Cursor.Skipping p) :
    ∃ ts ts', tokenizeSpans env (a ++ w₁ ++ b) = .ok ts ∧ tokenizeSpans env (a ++ w₂ ++ b) = .ok ts' ∧
      (Cursor.runC isWsTok p ⟨toTL ts, 0⟩ (fun _ => 0) []).shape =
        (Cursor.runC isWsTok p ⟨toTL ts', 0⟩ (fun _ => 0) []).shape := by
  obtain ⟨ts, ts', e1, e2, hs⟩ := layout_lexer_sig env hrs a w₁ w₂ b A W B W₂ B₂ h1 hA hW hWws h2 hW₂
    hW₂ws c₁ c₂ hc₁ hc₂ hs₁ hs₂ hcr
  refine ⟨ts, ts', e1, e2, ?_⟩
  exact C07.layout_blind isWsTok (toTL ts) (toTL ts') p hp (by rw [nonWs_toTL, nonWs_toTL, hs])

/-! ## the look-aheads that used to single out the blank -/

/-- after `@`, `@@`, `#`, `%` and `?` every separator is treated alike: the operator token is
produced and nothing is consumed from the whitespace (formerly only `' '` was recognised) -/
theorem at_sharp_percent_treat_whitespace_alike (env : Env) (c : Nat) (x : List Nat) (hc : Sep env c) :
    lexAt env (c :: x) = .ok (.atSign, c :: x) ∧
    lexAt env (64 :: c :: x) = .ok (.atAt, c :: x) ∧
    lexSharp env (c :: x) = .ok (.sharp, c :: x) ∧
    lexPercent env (c :: x) = .ok (.mod, c :: x) ∧
    lexQuestion env (c :: x) = .ok (.placeholder [63], c :: x) ∧
    lexQuestionPg (c :: x) = .ok (.question, c :: x) := by
  have ha := hc.ascii
  have hw := hc.ws
  have hn := hc.numeric
  have e1 : c ≠ 62 := by omega
  have e2 : c ≠ 63 := by omega
  have e3 : c ≠ 64 := by omega
  have e4 : c ≠ 45 := by omega
  have e5 : c ≠ 124 := by omega
  have e6 : c ≠ 38 := by omega
  refine ⟨?_, ?_, ?_, ?_, ?_, ?_⟩
  · simp [lexAt, *]
  · simp [lexAt, *]
  · simp [lexSharp, *]
  · simp [lexPercent, *]
  · simp [lexQuestion, *]
  · simp [lexQuestionPg, *]

/-! ## non-vacuity, and the exceptions as concrete witnesses -/

open C09 (genericEnv asciiBit)

/-- the blanks are separators of the Generic dialect (ASCII tables of the running code) -/
theorem generic_sep (un : Bool) : Sep (genericEnv un) 32 ∧ Sep (genericEnv un) 9 ∧ Sep (genericEnv un) 10 ∧
    Sep (genericEnv un) 13 := by
  refine ⟨⟨?_, ?_, ?_, ?_, ?_, ?_⟩, ⟨?_, ?_, ?_, ?_, ?_, ?_⟩, ⟨?_, ?_, ?_, ?_, ?_, ?_⟩,
    ⟨?_, ?_, ?_, ?_, ?_, ?_⟩⟩ <;> cases un <;> decide +kernel

theorem generic_not_redshift (un : Bool) : (genericEnv un).isRedshift = false := by
  cases un <;> decide +kernel

private def toks (env : Env) (s : List Nat) : Option (List Token) :=
  (tokenizeSpans env s).toOption.map sig

/-- the cut lemma at work on the deepest look-ahead, `1e+␠5` vs `1e+⏎x`: `Number 1` in both -/
example : (nextToken (genericEnv true) [49, 101, 43, 32, 53]).toOption =
      some (some (.number [49] false, [101, 43, 32, 53])) ∧
    (nextToken (genericEnv true) [49, 101, 43, 10, 120]).toOption =
      some (some (.number [49] false, [101, 43, 10, 120])) := by decide +kernel

/-- `SELECT␠a␠FROM t` with the second run replaced by `⏎/* c */⇥-- d⏎`: same significant tokens -/
example : toks (genericEnv true) ([83, 69, 76, 69, 67, 84, 32, 97] ++ [32] ++ [70, 82, 79, 77, 32, 116]) =
    toks (genericEnv true) ([83, 69, 76, 69, 67, 84, 32, 97] ++
      [10, 47, 42, 32, 99, 32, 42, 47, 9, 45, 45, 32, 100, 10] ++ [70, 82, 79, 77, 32, 116]) := by
  decide +kernel

private theorem ok_of_toOption {ε α : Type} {r : Except ε α} {v : α} (h : r.toOption = some v) : r = .ok v := by
  cases r with
  | error e => simp [Except.toOption] at h
  | ok a => simp [Except.toOption] at h; rw [h]

private def splitAt3 (env : Env) (s : List Nat) (i j : Nat) :
    List (Entry Token) × List (Entry Token) × List (Entry Token) :=
  let ts := (tokenizeSpans env s).toOption.getD []
  (ts.take i, (ts.drop i).take j, ts.drop (i + j))

/-- the hypotheses of `layout_lexer` are satisfiable: `1␠2` with `␠` ↦ `⏎/**/␠` -/
example : ∃ R', tokenizeSpans (genericEnv true) ([49] ++ [10, 47, 42, 42, 47, 32] ++ [50]) =
      .ok ((splitAt3 (genericEnv true) [49, 32, 50] 1 1).1 ++ R') ∧
    sig ((splitAt3 (genericEnv true) [49, 32, 50] 1 1).1 ++ R') =
      [.number [49] false, .number [50] false] := by
  obtain ⟨R', h, hs⟩ := layout_lexer (genericEnv true) (generic_not_redshift true) [49] [32]
    [10, 47, 42, 42, 47, 32] [50]
    (splitAt3 (genericEnv true) [49, 32, 50] 1 1).1 (splitAt3 (genericEnv true) [49, 32, 50] 1 1).2.1
    (splitAt3 (genericEnv true) [49, 32, 50] 1 1).2.2
    (splitAt3 (genericEnv true) [10, 47, 42, 42, 47, 32, 50] 3 0).1
    (splitAt3 (genericEnv true) [10, 47, 42, 42, 47, 32, 50] 3 0).2.2
    (ok_of_toOption (by decide +kernel)) (by decide +kernel) (by decide +kernel) (by decide +kernel)
    (ok_of_toOption (by decide +kernel)) (by decide +kernel) (by decide +kernel)
    32 10 rfl rfl (generic_sep true).1 (generic_sep true).2.2.1 (by decide)
  refine ⟨R', h, ?_⟩
  rw [hs]
  decide +kernel

/-- the Redshift row with Rust's predicates on ASCII -/
def redshiftEnv : Env :=
  { genericEnv true with
    row := dialect_redshift
    isIdentStart := asciiBit dialect_redshift.asciiIdentStart
    isIdentPart := asciiBit dialect_redshift.asciiIdentPart
    isDelimStart := asciiBit dialect_redshift.asciiDelimStart
    isCustomOpPart := asciiBit dialect_redshift.asciiCustomOp }

/-- **Redshift violates the property text.**  `[␠/**/␠x]` lexes as `[`, `x`, `]` (the character after
the blank run is `/`, so `[` is not a delimiter); with the run replaced by one blank, `[␠x]` is ONE
delimited identifier ` x`.  Both runs lex as whitespace on their own, are blank-padded, and sit
between two tokens of the first text. -/
theorem redshift_counterexample :
    toks redshiftEnv ([91] ++ [32, 47, 42, 42, 47, 32] ++ [120, 93]) =
      some [.lBracket, .word ⟨[120], none, none⟩, .rBracket] ∧
    toks redshiftEnv ([91] ++ [32] ++ [120, 93]) = some [.word ⟨[32, 120], some 91, none⟩] ∧
    toks redshiftEnv [32, 47, 42, 42, 47, 32] = some [] ∧ toks redshiftEnv [32] = some [] := by
  decide +kernel

/-- **blank-padded is not enough for line comments**: `␠--x␠` lexes on its own as whitespace only and
starts and ends with a blank, yet in `1␠--x␠2` it swallows `2` (the comment ends at `\n` or at the end
of input).  Hence `h2` of `layout_lexer` speaks about `w₂ ++ b`. -/
theorem unterminated_line_comment_counterexample :
    toks (genericEnv true) [32, 45, 45, 120, 32] = some [] ∧
    toks (genericEnv true) ([49] ++ [32] ++ [50]) = some [.number [49] false, .number [50] false] ∧
    toks (genericEnv true) ([49] ++ [32, 45, 45, 120, 32] ++ [50]) = some [.number [49] false] := by
  decide +kernel

/-- `\r` then `␠` are two tokens, `\r` then `\n` is one: the side condition `hcr` of the cut lemma is
needed for token boundaries (the significant tokens agree all the same) -/
theorem cr_lf_regroups :
    (tokenizeSpans (genericEnv true) [97, 13, 32, 98]).toOption.map (fun ts => ts.map fun (e : Entry Token) => e.slice) =
      some [[97], [13], [32], [98]] ∧
    (tokenizeSpans (genericEnv true) [97, 13, 10, 98]).toOption.map (fun ts => ts.map fun (e : Entry Token) => e.slice) =
      some [[97], [13, 10], [98]] ∧
    toks (genericEnv true) [97, 13, 32, 98] = toks (genericEnv true) [97, 13, 10, 98] := by
  decide +kernel

end SqlVerif.Props.C07Lexer
